/-
  WBXML encoder proofs: attributes. `wbxml_encode_attr_start` writes an `attrStart` of the grammar,
  `wbxml_encode_value_element_buffer` (attribute context) a list of `attrValue`s, `parse_element`
  `[switchPage] stag [1*attribute END]`.
-/
import Wbxml.Lemmas.EncWTag
namespace Wbxml.Lemmas.EncW
open Wbxml Wbxml.Model Wbxml.Spec Wbxml.Lemmas.ParseSer
open Wbxml.Model.Codec (mbEncode)

/-! ### Attribute table look-up -/

theorem encAttrGo_mem (name value : Bytes) (full : List AttrRow) :
    ∀ (rows : List AttrRow) (sc : AttrScan), (∀ r ∈ rows, r ∈ full) → (∀ r, sc.found = some r → r ∈ full) →
      ∀ r n, encAttrGo name value rows sc = some (r, n) → r ∈ full := by
  intro rows
  induction rows with
  | nil =>
    intro sc _ hsc r n h
    simp only [encAttrGo, Option.map_eq_some_iff] at h
    obtain ⟨x, hx, he⟩ := h
    injection he with he _
    subst he; exact hsc x hx
  | cons x xs ih =>
    intro sc hrows hsc r n h
    have hxs : ∀ r ∈ xs, r ∈ full := fun r hr => hrows r (List.mem_cons_of_mem _ hr)
    have hx : x ∈ full := hrows x List.mem_cons_self
    simp only [encAttrGo] at h
    split at h
    · split at h
      · refine ih _ hxs ?_ r n h
        intro r' hr'
        split at hr'
        · simp only at hr'; injection hr' with hr'; subst hr'; exact hx
        · exact hsc r' hr'
      · split at h
        · injection h with h; injection h with h1 _; subst h1; exact hx
        · split at h
          · refine ih _ hxs ?_ r n h
            intro r' hr'
            simp only at hr'; injection hr' with hr'; subst hr'; exact hx
          · exact ih _ hxs hsc r n h
    · exact ih _ hxs hsc r n h

theorem attrLookup_mem (lang : Lang) (name value : Bytes) :
    (∀ r, attrLookup lang name value = .exact r → ∃ attrs, lang.attrs = some attrs ∧ r ∈ attrs) ∧
    (∀ r n, attrLookup lang name value = .part r n → ∃ attrs, lang.attrs = some attrs ∧ r ∈ attrs) := by
  unfold attrLookup
  cases ha : lang.attrs with
  | none => exact ⟨fun r h => (by cases h), fun r n h => (by cases h)⟩
  | some attrs =>
    simp only
    cases he : encAttr attrs name value with
    | none => exact ⟨fun r h => (by cases h), fun r n h => (by cases h)⟩
    | some p =>
      obtain ⟨r0, n0⟩ := p
      have hm : r0 ∈ attrs := encAttrGo_mem name value attrs attrs {} (fun _ h => h)
        (by intro r h; cases h) r0 n0 he
      simp only
      constructor
      · intro r h
        split at h
        · injection h with h; subst h; exact ⟨attrs, rfl, hm⟩
        · cases h
      · intro r n h
        split at h
        · cases h
        · injection h with h _; subst h; exact ⟨attrs, rfl, hm⟩

theorem encAttrGo_name (name value : Bytes) :
    ∀ (rows : List AttrRow) (sc : AttrScan), (∀ r, sc.found = some r → r.name = name) →
      ∀ r n, encAttrGo name value rows sc = some (r, n) → r.name = name := by
  intro rows
  induction rows with
  | nil =>
    intro sc hsc r n h
    simp only [encAttrGo, Option.map_eq_some_iff] at h
    obtain ⟨x, hx, he⟩ := h
    injection he with he _
    subst he; exact hsc x hx
  | cons x xs ih =>
    intro sc hsc r n h
    simp only [encAttrGo] at h
    split at h
    · rename_i hxn
      have hxn' : x.name = name := by simpa using hxn
      split at h
      · refine ih _ ?_ r n h
        intro r' hr'
        split at hr'
        · simp only at hr'; injection hr' with hr'; subst hr'; exact hxn'
        · exact hsc r' hr'
      · split at h
        · injection h with h; injection h with h1 _; subst h1; exact hxn'
        · split at h
          · refine ih _ ?_ r n h
            intro r' hr'
            simp only at hr'; injection hr' with hr'; subst hr'; exact hxn'
          · exact ih _ hsc r n h
    · exact ih _ hsc r n h

theorem attrLookup_name (lang : Lang) (name value : Bytes) :
    (∀ r, attrLookup lang name value = .exact r → r.name = name) ∧
    (∀ r n, attrLookup lang name value = .part r n → r.name = name) := by
  unfold attrLookup
  cases ha : lang.attrs with
  | none => exact ⟨fun r h => (by cases h), fun r n h => (by cases h)⟩
  | some attrs =>
    simp only
    cases he : encAttr attrs name value with
    | none => exact ⟨fun r h => (by cases h), fun r n h => (by cases h)⟩
    | some p =>
      obtain ⟨r0, n0⟩ := p
      have hn : r0.name = name := encAttrGo_name name value attrs {} (by intro r h; cases h) r0 n0 he
      simp only
      constructor
      · intro r h
        split at h
        · injection h with h; subst h; exact hn
        · cases h
      · intro r n h
        split at h
        · cases h
        · injection h with h _; subst h; exact hn

/-- Invariant of the scan in `wbxml_tables_get_attr_from_xml`: the best row so far covers `comp`
    octets of the value, namely its own value prefix. -/
def ScanOk (value : Bytes) (sc : AttrScan) : Prop :=
  match sc.found with
  | none => sc.comp = 0
  | some r => sc.comp = (r.value.getD []).length ∧ (r.value.getD []) <+: value

theorem encAttrGo_sem (name value : Bytes) :
    ∀ (rows : List AttrRow) (sc : AttrScan), ScanOk value sc →
      ∀ r n, encAttrGo name value rows sc = some (r, n) →
        r.value = some value ∨ (n = (r.value.getD []).length ∧ (r.value.getD []) <+: value) := by
  intro rows
  induction rows with
  | nil =>
    intro sc hsc r n h
    simp only [encAttrGo, Option.map_eq_some_iff] at h
    obtain ⟨x, hx, he⟩ := h
    injection he with h1 h2
    subst h1
    unfold ScanOk at hsc
    rw [hx] at hsc
    exact Or.inr ⟨h2 ▸ hsc.1, hsc.2⟩
  | cons x xs ih =>
    intro sc hsc r n h
    simp only [encAttrGo] at h
    split at h
    · split at h
      · rename_i hxv
        refine ih _ ?_ r n h
        split
        · rename_i hnone
          have hf : sc.found = none := by cases hfd : sc.found with
            | none => rfl
            | some _ => simp [hfd] at hnone
          unfold ScanOk at hsc ⊢
          rw [hf] at hsc
          simp only [hxv, Option.getD_none, List.length_nil]
          exact ⟨hsc, List.nil_prefix⟩
        · exact hsc
      · rename_i v hxv
        split at h
        · rename_i hveq
          injection h with h; injection h with h1 _; subst h1
          simp only [beq_iff_eq] at hveq
          exact Or.inl (by rw [hxv, hveq])
        · split at h
          · rename_i hpre
            refine ih _ ?_ r n h
            simp only [Bool.and_eq_true, decide_eq_true_eq, Model.isPrefixOf] at hpre
            unfold ScanOk
            simp only [hxv, Option.getD_some]
            exact ⟨trivial, List.isPrefixOf_iff_prefix.mp hpre.2⟩
          · exact ih _ hsc r n h
    · exact ih _ hsc r n h

/-- What the look-up says about the value: an exact row's value prefix is the whole value; a
    partial row covers exactly its own value prefix, which is a prefix of the value. -/
theorem attrLookup_sem (lang : Lang) (name value : Bytes) :
    (∀ r, attrLookup lang name value = .exact r → r.value = some value) ∧
    (∀ r n, attrLookup lang name value = .part r n → n = (r.value.getD []).length ∧ (r.value.getD []) <+: value) := by
  unfold attrLookup
  cases ha : lang.attrs with
  | none => exact ⟨fun r h => (by cases h), fun r n h => (by cases h)⟩
  | some attrs =>
    simp only
    cases he : encAttr attrs name value with
    | none => exact ⟨fun r h => (by cases h), fun r n h => (by cases h)⟩
    | some p =>
      obtain ⟨r0, n0⟩ := p
      have hsem := encAttrGo_sem name value attrs {} (by unfold ScanOk; rfl) r0 n0 he
      simp only
      constructor
      · intro r h
        split at h
        · rename_i hv
          injection h with h; subst h
          simpa using hv
        · cases h
      · intro r n h
        split at h
        · cases h
        · rename_i hv
          injection h with h1 h2; subst h1 h2
          rcases hsem with hs | hs
          · rw [hs] at hv; simp at hv
          · exact hs

/-! ### `wbxml_encode_attr_start` -/

theorem attrTokenW_curAttr (token page : Nat) (st : WSt) : (attrTokenW token page st).curAttr = st.curAttr := by
  unfold attrTokenW; split <;> rfl

/-- What an attribute start may be: a row of the attribute table under its own page, or a literal
    whose index is the offset of a string-table entry. The last argument is `current_attr`. -/
inductive AStartOk (c : WCfg) (tbl : List StrEntry) (ap : Nat) (nm : Bytes) : AStart → Option AttrRow → Prop
  | tok (attrs : List AttrRow) (r : AttrRow) : c.lang.attrs = some attrs → r ∈ attrs → r.name = nm →
      AStartOk c tbl ap nm (.tok (swFor ap r.page) r.token) (some r)
  | lit (off : Nat) : (∃ e ∈ tbl, e.offset = off ∧ e.str = nm) → AStartOk c tbl ap nm (.lit off) none

structure AStartRes (c : WCfg) (nm : Bytes) (st st' : WSt) (as : AStart) : Prop where
  out : st'.out = st.out ++ serAStart as
  ap : ∀ ctx, st'.attrPage = (astartName ctx st.attrPage as).2.2
  tp : st'.tagPage = st.tagPage
  tbl : TblExt c st st'
  ok : AStartOk c st'.strtbl st.attrPage nm as st'.curAttr

theorem attrTok_step (c : WCfg) (attrs : List AttrRow) (r : AttrRow) (ha : c.lang.attrs = some attrs)
    (hr : r ∈ attrs) (nm : Bytes) (hn : r.name = nm) (st : WSt) :
    AStartRes c nm st (attrTokenW r.token r.page { st with curAttr := some r })
      (.tok (swFor st.attrPage r.page) r.token) := by
  have ho := attrTokenW_out r.token r.page { st with curAttr := some r }
  have hf := attrTokenW_frame r.token r.page { st with curAttr := some r }
  refine ⟨?_, ?_, hf.1, TblExt.of_eq hf.2.1 hf.2.2, ?_⟩
  · rw [ho.1]; simp only [serAStart, byte]
  · intro ctx; rw [astartName_page, ho.2]; exact (swPage_swFor _ _).symm
  · rw [attrTokenW_curAttr, hf.2.1]; exact .tok attrs r ha hr hn

theorem attrLit_step (c : WCfg) (name : Bytes) (st st' : WSt)
    (h : attrLiteralW c name { st with curAttr := none } = .ok st') :
    ∃ off, AStartRes c name st st' (.lit off) := by
  rw [attrLiteralW_eq] at h
  split at h
  · rename_i hu
    injection h with h; subst h
    obtain ⟨e, he, ho, hstr⟩ := strtblAdd_idx { st with curAttr := none } name none
    refine ⟨(strtblAdd { st with curAttr := none } name none).2, ?_, ?_, ?_, ?_, ?_⟩
    · simp only [emit_out, strtblAdd_out, serAStart, mb]
    · intro ctx; simp only [emit_attrPage, strtblAdd_attrPage, astartName]
    · simp only [emit_tagPage, strtblAdd_tagPage]
    · have t1 : TblExt c st { st with curAttr := none } := TblExt.of_eq rfl rfl
      have t2 := TblExt.add c hu { st with curAttr := none } name
      exact t1.trans (t2.trans (TblExt.of_eq (emit_strtbl _ _) (emit_strtblLen _ _)))
    · simp only [emit_curAttr, strtblAdd_curAttr, emit_strtbl]
      exact .lit _ ⟨e, he, ho, hstr⟩
  · cases h

theorem attrStartW_spec (c : WCfg) (a : Attr) (v : Bytes) (st st' : WSt) (rest : Option Bytes)
    (ha : attrOver c.lang a = true) (hv : nulFree v = true)
    (attrs : List AttrRow) (hattrs : c.lang.attrs = some attrs)
    (h : attrStartW c a v st = .ok (rest, st')) :
    ∃ as, AStartRes c a.name.cName st st' as ∧ (∀ s, rest = some s → nulFree s = true ∧ s.length ≤ v.length) := by
  unfold attrStartW at h
  cases hname : a.name with
  | token r =>
    show ∃ as, AStartRes c r.name st st' as ∧ _
    have hr : r ∈ attrs := by
      simp only [attrOver, hname, hattrs, Bool.and_eq_true, List.contains_iff_mem] at ha
      exact ha.2
    simp only [hname] at h
    cases hval : r.value with
    | none =>
      simp only [hval] at h
      injection h with h; injection h with h1 h2
      subst h1 h2
      exact ⟨_, attrTok_step c attrs r hattrs hr _ rfl st, by intro s hs; injection hs with hs; subst hs; exact ⟨hv, Nat.le_refl _⟩⟩
    | some p =>
      simp only [hval] at h
      split at h
      · split at h
        · cases hp : ptrAdd "attribute value + strlen(xmlValue)" v p.length with
          | error e => rw [hp] at h; cases h
          | ok tail =>
            rw [hp] at h
            injection h with h; injection h with h1 h2
            subst h1 h2
            refine ⟨_, attrTok_step c attrs r hattrs hr _ rfl st, ?_⟩
            intro s hs; injection hs with hs; subst hs
            rw [ptrAdd_ok hp]; exact ⟨nulFree_drop _ _ hv, by rw [List.length_drop]; omega⟩
        · injection h with h; injection h with h1 h2
          subst h1 h2
          exact ⟨_, attrTok_step c attrs r hattrs hr _ rfl st, by intro s hs; cases hs⟩
      · cases hlit : attrLiteralW c r.name { st with curAttr := none } with
        | error e => rw [hlit] at h; cases h
        | ok st1 =>
          rw [hlit] at h
          injection h with h; injection h with h1 h2
          subst h1 h2
          obtain ⟨off, hres⟩ := attrLit_step c r.name st st1 hlit
          exact ⟨_, hres, by intro s hs; injection hs with hs; subst hs; exact ⟨hv, Nat.le_refl _⟩⟩
  | literal s =>
    show ∃ as, AStartRes c (cstrOf s) st st' as ∧ _
    simp only [hname] at h
    have hmem := attrLookup_mem c.lang (cstrOf s) v
    have hnm := attrLookup_name c.lang (cstrOf s) v
    cases hhit : (if s.isEmpty then AttrHit.none else attrLookup c.lang (cstrOf s) v) with
    | none =>
      rw [hhit] at h
      simp only at h
      cases hlit : attrLiteralW c (cstrOf s) { st with curAttr := none } with
      | error e => rw [hlit] at h; cases h
      | ok st1 =>
        rw [hlit] at h
        injection h with h; injection h with h1 h2
        subst h1 h2
        obtain ⟨off, hres⟩ := attrLit_step c (cstrOf s) st st1 hlit
        exact ⟨_, hres, by intro s hs; injection hs with hs; subst hs; exact ⟨hv, Nat.le_refl _⟩⟩
    | exact r =>
      rw [hhit] at h
      simp only at h
      injection h with h; injection h with h1 h2
      subst h1 h2
      have hl : attrLookup c.lang (cstrOf s) v = .exact r := by
        split at hhit
        · cases hhit
        · exact hhit
      obtain ⟨attrs', ha', hr⟩ := hmem.1 r hl
      rw [hattrs] at ha'; injection ha' with ha'; subst ha'
      exact ⟨_, attrTok_step c attrs r hattrs hr _ (hnm.1 r hl) st, by intro s hs; cases hs⟩
    | part r comp =>
      rw [hhit] at h
      simp only at h
      have hl : attrLookup c.lang (cstrOf s) v = .part r comp := by
        split at hhit
        · cases hhit
        · exact hhit
      obtain ⟨attrs', ha', hr⟩ := hmem.2 r comp hl
      rw [hattrs] at ha'; injection ha' with ha'; subst ha'
      cases hp : ptrAdd "xml_value + found_comp" v comp with
      | error e => rw [hp] at h; cases h
      | ok tail =>
        rw [hp] at h
        injection h with h; injection h with h1 h2
        subst h1 h2
        refine ⟨_, attrTok_step c attrs r hattrs hr _ (hnm.2 r comp hl) st, ?_⟩
        intro s hs; injection hs with hs; subst hs
        rw [ptrAdd_ok hp]; exact ⟨nulFree_drop _ _ hv, by rw [List.length_drop]; omega⟩


/-- The value prefix an attribute start stands for (`current_attr` after the start). -/
def preOf : Option AttrRow → Bytes
  | some r => r.value.getD []
  | none => []

theorem attrLiteralW_curAttr (c : WCfg) (name : Bytes) (st st' : WSt)
    (h : attrLiteralW c name { st with curAttr := none } = .ok st') : st'.curAttr = none := by
  rw [attrLiteralW_eq] at h
  split at h
  · injection h with h; subst h
    simp only [emit_curAttr, strtblAdd_curAttr]
  · cases h

/-- The attribute start covers exactly the value prefix of the row it names; what is handed on to
    the value encoder is the rest of the value. -/
theorem attrStartW_prefix (c : WCfg) (a : Attr) (v : Bytes) (st st' : WSt) (rest : Option Bytes)
    (hvlen : v.length ≤ a.value.length) (h : attrStartW c a v st = .ok (rest, st')) :
    v = preOf st'.curAttr ++ rest.getD [] := by
  unfold attrStartW at h
  cases hname : a.name with
  | token r =>
    simp only [hname] at h
    cases hval : r.value with
    | none =>
      simp only [hval] at h
      injection h with h; injection h with h1 h2
      subst h1 h2
      simp [attrTokenW_curAttr, preOf, hval]
    | some p =>
      simp only [hval] at h
      split at h
      · rename_i hpre
        have hsplit := isPrefixOf_split p v hpre
        split at h
        · obtain ⟨tail, hp, h⟩ := bind_ok' h
          injection h with h; injection h with h1 h2
          subst h1 h2
          rw [ptrAdd_ok hp]
          simpa [attrTokenW_curAttr, preOf, hval] using hsplit
        · rename_i hlen
          injection h with h; injection h with h1 h2
          subst h1 h2
          have hl := congrArg List.length hsplit
          simp only [List.length_append, List.length_drop] at hl
          have hd : v.drop p.length = [] := List.drop_eq_nil_of_le (by omega)
          rw [hd, List.append_nil] at hsplit
          simpa [attrTokenW_curAttr, preOf, hval] using hsplit
      · obtain ⟨st1, hlit, h⟩ := bind_ok' h
        injection h with h; injection h with h1 h2
        subst h1 h2
        simp [attrLiteralW_curAttr c _ _ _ hlit, preOf]
  | literal s =>
    simp only [hname] at h
    have hsem := attrLookup_sem c.lang (cstrOf s) v
    cases hhit : (if s.isEmpty then AttrHit.none else attrLookup c.lang (cstrOf s) v) with
    | none =>
      rw [hhit] at h
      simp only at h
      obtain ⟨st1, hlit, h⟩ := bind_ok' h
      injection h with h; injection h with h1 h2
      subst h1 h2
      simp [attrLiteralW_curAttr c _ _ _ hlit, preOf]
    | exact r =>
      rw [hhit] at h
      simp only at h
      injection h with h; injection h with h1 h2
      subst h1 h2
      have hl : attrLookup c.lang (cstrOf s) v = .exact r := by
        split at hhit
        · cases hhit
        · exact hhit
      simp [attrTokenW_curAttr, preOf, hsem.1 r hl]
    | part r comp =>
      rw [hhit] at h
      simp only at h
      have hl : attrLookup c.lang (cstrOf s) v = .part r comp := by
        split at hhit
        · cases hhit
        · exact hhit
      obtain ⟨hc, hpre⟩ := hsem.2 r comp hl
      obtain ⟨tail, hp, h⟩ := bind_ok' h
      injection h with h; injection h with h1 h2
      subst h1 h2
      rw [ptrAdd_ok hp, hc]
      simpa [attrTokenW_curAttr, preOf] using (List.prefix_iff_eq_append.mp hpre).symm

/-- `current_attr` after `wbxml_encode_attr_start`, as a function of the source attribute alone
    (no encoder state, no option other than the language). -/
def startRow (c : WCfg) (a : Attr) : Option AttrRow :=
  match a.name with
  | .token r =>
    match r.value with
    | none => some r
    | some p => if p.isPrefixOf (cstrOf a.value) then some r else none
  | .literal s =>
    match (if s.isEmpty then AttrHit.none else attrLookup c.lang (cstrOf s) (cstrOf a.value)) with
    | .none => none
    | .exact r => some r
    | .part r _ => some r

theorem attrStartW_cur (c : WCfg) (a : Attr) (st st' : WSt) (rest : Option Bytes)
    (h : attrStartW c a (cstrOf a.value) st = .ok (rest, st')) : st'.curAttr = startRow c a := by
  unfold attrStartW at h
  unfold startRow
  cases hname : a.name with
  | token r =>
    simp only [hname] at h ⊢
    cases hval : r.value with
    | none =>
      simp only [hval] at h
      injection h with h; injection h with h1 h2
      subst h1 h2
      simp [attrTokenW_curAttr]
    | some p =>
      simp only [hval] at h
      split at h
      · rename_i hpre
        have hpre' : p.isPrefixOf (cstrOf a.value) = true := hpre
        simp only [hpre', ↓reduceIte]
        split at h
        · obtain ⟨tail, hp, h⟩ := bind_ok' h
          injection h with h; injection h with h1 h2
          subst h1 h2
          simp [attrTokenW_curAttr]
        · injection h with h; injection h with h1 h2
          subst h1 h2
          simp [attrTokenW_curAttr]
      · rename_i hpre
        have hpre' : p.isPrefixOf (cstrOf a.value) = false := by
          cases hb : p.isPrefixOf (cstrOf a.value) with
          | false => rfl
          | true => exact absurd hb hpre
        simp only [hpre', Bool.false_eq_true, ↓reduceIte]
        obtain ⟨st1, hlit, h⟩ := bind_ok' h
        injection h with h; injection h with h1 h2
        subst h1 h2
        exact attrLiteralW_curAttr c _ _ _ hlit
  | literal s =>
    simp only [hname] at h ⊢
    cases hhit : (if s.isEmpty then AttrHit.none else attrLookup c.lang (cstrOf s) (cstrOf a.value)) with
    | none =>
      rw [hhit] at h
      simp only at h
      obtain ⟨st1, hlit, h⟩ := bind_ok' h
      injection h with h; injection h with h1 h2
      subst h1 h2
      exact attrLiteralW_curAttr c _ _ _ hlit
    | exact r =>
      rw [hhit] at h
      simp only at h
      injection h with h; injection h with h1 h2
      subst h1 h2
      simp [attrTokenW_curAttr]
    | part r comp =>
      rw [hhit] at h
      simp only at h
      obtain ⟨tail, hp, h⟩ := bind_ok' h
      injection h with h; injection h with h1 h2
      subst h1 h2
      simp [attrTokenW_curAttr]

/-! ### Attribute values -/

theorem bind_ok_some {α : Type} (x : Except Err α) (f : α → WSt) (st2 : WSt)
    (h : (x >>= fun a => pure (some (f a))) = (.ok (some st2) : Except Err (Option WSt))) :
    ∃ a, x = .ok a ∧ st2 = f a := by
  cases x with
  | error e => cases h
  | ok a =>
    have : (Except.ok (some (f a)) : Except Err (Option WSt)) = .ok (some st2) := h
    injection this with this; injection this with this
    exact ⟨a, rfl, this.symm⟩

theorem otaIconW_some (na : Option (List Attr)) (s : Bytes) (st st2 : WSt)
    (h : otaIconW na s st = .ok (some st2)) : ∃ p, st2 = st.emit (serOpaque p) := by
  unfold otaIconW at h
  split at h
  · split at h
    · obtain ⟨d, _, rfl⟩ := bind_ok_some _ (fun d => st.emit (opaqueW d)) _ h
      exact ⟨d, rfl⟩
    · cases h
  · cases h

theorem attrSpecialW_some (c : WCfg) (na : Option (List Attr)) (s : Bytes) (st st2 : WSt)
    (hs : s.length < 2 ^ 32) (h : attrSpecialW c na s st = .ok (some st2)) :
    ∃ p, st2 = st.emit (serOpaque p) := by
  unfold attrSpecialW at h
  repeat' split at h
  all_goals first
    | (cases h; done)
    | (obtain ⟨item, hi, rfl⟩ := bind_ok_some _ (fun item => st.emit item) _ h
       obtain ⟨p, rfl⟩ := encodeDatetime_shape s item hs hi
       exact ⟨p, rfl⟩)
    | exact otaIconW_some _ _ _ _ h

theorem b64DecodeE_textW_len (s d : Bytes) (h : Codec.b64DecodeE (b64TextW s) = .ok d) : d.length ≤ s.length := by
  rw [b64TextW_eq, Wbxml.Lemmas.Codec.b64DecodeE_eq] at h
  injection h with h
  have h1 := b64DecodeLoop_length_le (Codec.b64Scan (s.filter (fun c => !Typed.isSpace c)))
  have h2 : (Codec.b64Scan (s.filter (fun c => !Typed.isSpace c))).length ≤ (s.filter (fun c => !Typed.isSpace c)).length :=
    (List.takeWhile_sublist _).length_le
  have h3 := List.length_filter_le (fun c => !Typed.isSpace c) s
  rw [← h]; omega

theorem otaIconW_some' (na : Option (List Attr)) (s : Bytes) (st st2 : WSt)
    (h : otaIconW na s st = .ok (some st2)) :
    ∃ p, st2 = st.emit (serOpaque p) ∧ iconCtx na = true ∧ Codec.b64DecodeE (b64TextW s) = .ok p := by
  unfold otaIconW at h
  split at h
  · rename_i t attrs _ _
    split at h
    · rename_i hany
      obtain ⟨d, hd, rfl⟩ := bind_ok_some _ (fun d => st.emit (opaqueW d)) _ h
      exact ⟨d, rfl, hany, hd⟩
    · cases h
  · cases h

/-- What a typed attribute value is written as, and from what. -/
def SpecialOut (c : WCfg) (na : Option (List Attr)) (s : Bytes) (cur : Option AttrRow) (p : Bytes) : Prop :=
  p.length < 2 ^ 32 ∧ ∃ r, cur = some r ∧
    ((dtRow c.lang.id r = true ∧ Typed.datetimePayload s = .ok p) ∨
     (iconRow c.lang.id r = true ∧ iconCtx na = true ∧ Codec.b64DecodeE (b64TextW s) = .ok p))

theorem attrSpecialW_some' (c : WCfg) (na : Option (List Attr)) (s : Bytes) (st st2 : WSt)
    (hs : s.length < 2 ^ 32) (h : attrSpecialW c na s st = .ok (some st2)) :
    ∃ p, st2 = st.emit (serOpaque p) ∧ SpecialOut c na s st.curAttr p := by
  unfold attrSpecialW at h
  cases hca : st.curAttr with
  | none =>
    rw [hca] at h; simp only at h
    split at h
    · cases h
    · split at h
      · cases h
      · split at h <;> cases h
  | some a =>
    rw [hca] at h
    simp only at h
    by_cases h1 : (c.lang.id == 1301) = true
    · simp only [h1, ↓reduceIte] at h
      by_cases hc : (a.page == 0 && (a.token == 0x0a || a.token == 0x10)) = true
      · simp only [hc, ↓reduceIte] at h
        obtain ⟨item, hi, rfl⟩ := bind_ok_some _ (fun item => st.emit item) _ h
        obtain ⟨p, rfl, hp, hlen⟩ := encodeDatetime_shape' s item hs hi
        refine ⟨p, rfl, hlen, a, rfl, Or.inl ⟨?_, hp⟩⟩
        simp only [Bool.and_eq_true] at hc
        simp only [dtRow, h1, hc.1, hc.2, Bool.and_self, Bool.true_or]
      · simp only [hc, Bool.false_eq_true, ↓reduceIte] at h; cases h
    · simp only [h1, Bool.false_eq_true, ↓reduceIte] at h
      by_cases h2 : (c.lang.id == 1701) = true
      · simp only [h2, ↓reduceIte] at h
        by_cases hc : (a.page == 0 && a.token == 0x05) = true
        · simp only [hc, ↓reduceIte] at h
          obtain ⟨item, hi, rfl⟩ := bind_ok_some _ (fun item => st.emit item) _ h
          obtain ⟨p, rfl, hp, hlen⟩ := encodeDatetime_shape' s item hs hi
          refine ⟨p, rfl, hlen, a, rfl, Or.inl ⟨?_, hp⟩⟩
          simp only [Bool.and_eq_true] at hc
          simp only [dtRow, h2, hc.1, hc.2, Bool.and_self, Bool.or_true]
        · simp only [hc, Bool.false_eq_true, ↓reduceIte] at h; cases h
      · simp only [h2, Bool.false_eq_true, ↓reduceIte] at h
        by_cases h3 : (c.lang.id == 1901) = true
        · simp only [h3, ↓reduceIte] at h
          by_cases hc : (a.page == 0 && a.token == 0x11) = true
          · simp only [hc, ↓reduceIte] at h
            obtain ⟨p, rfl, hctx, hd⟩ := otaIconW_some' na s st st2 h
            have := b64DecodeE_textW_len s p hd
            refine ⟨p, rfl, by omega, a, rfl, Or.inr ⟨?_, hctx, hd⟩⟩
            simp only [Bool.and_eq_true] at hc
            simp only [iconRow, h3, hc.1, hc.2, Bool.and_self]
          · simp only [hc, Bool.false_eq_true, ↓reduceIte] at h; cases h
        · simp only [h3, Bool.false_eq_true, ↓reduceIte] at h; cases h

theorem attrSpecialW_dt (c : WCfg) (na : Option (List Attr)) (s : Bytes) (st : WSt) (r : AttrRow)
    (hc : st.curAttr = some r) (hd : dtRow c.lang.id r = true) : attrSpecialW c na s st ≠ .ok none := by
  intro h
  unfold attrSpecialW at h
  simp only [dtRow, Bool.or_eq_true, Bool.and_eq_true, beq_iff_eq] at hd
  rcases hd with ⟨⟨h1, h2⟩, h3⟩ | ⟨⟨h1, h2⟩, h3⟩
  · simp only [h1, beq_self_eq_true, ↓reduceIte, hc, h2, Bool.true_and] at h
    have : (r.token == 10 || r.token == 16) = true := by simpa using h3
    simp only [this, ↓reduceIte] at h
    cases hx : Typed.encodeDatetime s with
    | error e => rw [hx] at h; cases h
    | ok item => rw [hx] at h; cases h
  · simp only [↓reduceIte, h1, beq_self_eq_true, hc, h2, h3, Bool.true_and] at h
    cases hx : Typed.encodeDatetime s with
    | error e => rw [hx] at h; cases h
    | ok item => rw [hx] at h; cases h

theorem attrSpecialW_untyped (c : WCfg) (na : Option (List Attr)) (s : Bytes) (st : WSt)
    (h : noTypedAttr c.lang.id = true) : attrSpecialW c na s st = .ok none := by
  simp only [noTypedAttr, Bool.and_eq_true, Bool.not_eq_true'] at h
  unfold attrSpecialW
  simp only [h.1.1, h.1.2, h.2, Bool.false_eq_true, ↓reduceIte]
  rfl

/-- What the value part of an attribute is written as. -/
structure AValsRes (c : WCfg) (na : Option (List Attr)) (s : Bytes) (st st' : WSt) (vals : List AVal) : Prop where
  out : st'.out = st.out ++ serAVals vals
  ap : ∀ ctx, st'.attrPage = (avalsText ctx st.attrPage vals).2
  tp : st'.tagPage = st.tagPage
  tbl : st'.strtbl = st.strtbl
  len : st'.strtblLen = st.strtblLen
  refs : ∀ off ∈ refsAVals vals, ∃ e ∈ st.strtbl, e.offset = off
  wf : ∀ ctx, Compat c st.strtbl ctx → langOk c.lang = true → opqsAVals vals = [] →
    wfAVals ctx st.attrPage vals = true
  dt : ∀ r, st.curAttr = some r → dtRow c.lang.id r = true → vals = [] ∨ opqsAVals vals ≠ []
  /-- what a reader whose table resolves the encoder's makes of the pieces is the value -/
  text : ∀ ctx : Ctx, ctx.lang = c.lang → langOk c.lang = true → valSemOk c.lang = true →
    Resolves ctx.tbl st.strtbl → opqsAVals vals = [] → (avalsText ctx st.attrPage vals).1 = s
  /-- no typed attribute values in an untyped language -/
  noopq : noTypedAttr c.lang.id = true → opqsAVals vals = []
  /-- the only OPAQUE ever written is the single typed one -/
  typed : opqsAVals vals = [] ∨ ∃ p, vals = [.opaque p] ∧ s ≠ [] ∧ SpecialOut c na s st.curAttr p

theorem AValsRes.nil (c : WCfg) (na : Option (List Attr)) (st : WSt) : AValsRes c na [] st st [] :=
  ⟨by simp [serAVals], fun _ => rfl, rfl, rfl, rfl, (by intro o h; cases h), fun _ _ _ _ => rfl, fun _ _ _ => Or.inl rfl,
    fun _ _ _ _ _ _ => rfl, fun _ => rfl, Or.inl rfl⟩

theorem encAttrValueW_spec (c : WCfg) (na : Option (List Attr)) (s : Bytes) (st st' : WSt)
    (hs : nulFree s = true) (hlen : s.length < 2 ^ 32) (h : encAttrValueW c na s st = .ok st') :
    ∃ vals, AValsRes c na s st st' vals := by
  unfold encAttrValueW at h
  split at h
  · rename_i he
    have hse : s = [] := List.isEmpty_iff.mp he
    subst hse
    injection h with h; subst h; exact ⟨[], AValsRes.nil c na st⟩
  · rename_i hne
    have hsne : s ≠ [] := fun e => hne (by rw [e]; rfl)
    cases hsp : attrSpecialW c na s st with
    | error e => rw [hsp] at h; cases h
    | ok r =>
      rw [hsp] at h
      cases r with
      | some st2 =>
        have h' : (Except.ok st2 : Except Err WSt) = .ok st' := h
        injection h' with h'; subst h'
        obtain ⟨p, rfl, hout⟩ := attrSpecialW_some' c na s st st2 hlen hsp
        refine ⟨[.opaque p], ?_, fun _ => rfl, rfl, rfl, rfl, (by intro o ho; cases ho), ?_, ?_, ?_, ?_,
          Or.inr ⟨p, rfl, hsne, hout⟩⟩
        · simp [serAVals, serAVal]
        · intro ctx _ _ hno; cases hno
        · intro r _ _; exact Or.inr (by simp [opqsAVals, opqsAVal])
        · intro ctx _ _ _ _ hno; cases hno
        · intro hu; rw [attrSpecialW_untyped c na s st hu] at hsp; cases hsp
      | none =>
        have hdt : ∀ r, st.curAttr = some r → dtRow c.lang.id r = true → False :=
          fun r h1 h2 => attrSpecialW_dt c na s st r h1 h2 hsp
        -- the generic path: value tokens, then string-table references
        have key : ∀ l2 : List VElt, (∀ e ∈ l2, VOk c st.strtbl e) → (∀ e ∈ l2, notExt e) →
            (∀ tb, Resolves tb st.strtbl → l2.flatMap (vval tb) = s) →
            AValsRes c na s st (emitVElts st l2) (avalsOf st.attrPage l2).1 := by
          intro l2 hv hne hcat
          have he := emitVElts_attr l2 hne st
          have hf := emitVElts_frame l2 st
          refine ⟨he.1, ?_, hf.1, hf.2.1, hf.2.2, avalsOf_refs c st.strtbl l2 hv _, ?_, ?_, ?_, fun _ => avalsOf_opqs l2 _,
            Or.inl (avalsOf_opqs l2 _)⟩
          · intro ctx; rw [he.2, avalsOf_page]
          · intro ctx hc hl _; exact avalsOf_wf c st.strtbl ctx hc hl l2 hv hne _
          · intro r h1 h2; exact absurd (hdt r h1 h2) id
          · intro ctx hlang hl hsem hres _
            rw [avalsOf_text c st.strtbl ctx hlang hl hsem l2 hv hne, hcat ctx.tbl hres]
        have h0 : ∀ e ∈ [VElt.str s], VOk c st.strtbl e ∧ notExt e := by
          intro e he; simp only [List.mem_cons, List.mem_nil_iff, or_false] at he; subst he; exact ⟨hs, trivial⟩
        have hcut : CutStable (fun e => VOk c st.strtbl e ∧ notExt e) :=
          fun s i h => ⟨⟨(vok_cut c st.strtbl s i h.1).1, trivial⟩, ⟨(vok_cut c st.strtbl s i h.1).2, trivial⟩⟩
        -- pass 2 and emission, from any list of pass 1
        have pass2 : ∀ l1 : List VElt, (∀ e ∈ l1, VOk c st.strtbl e ∧ notExt e) →
            (∀ tb, Resolves tb st.strtbl → l1.flatMap (vval tb) = s) →
            (do let l ← (if c.useStrtbl = true then splitByStrtbl st.strtbl l1 else pure l1)
                pure (emitVElts st l) : Except Err WSt) = .ok st' → ∃ vals, AValsRes c na s st st' vals := by
          intro l1 hl1ok hcat1 h
          cases hu : c.useStrtbl with
          | false =>
            simp only [hu, Bool.false_eq_true, ↓reduceIte] at h
            have h' : (Except.ok (emitVElts st l1) : Except Err WSt) = .ok st' := h
            injection h' with h'; subst h'
            exact ⟨_, key l1 (fun e he => (hl1ok e he).1) (fun e he => (hl1ok e he).2) hcat1⟩
          | true =>
            simp only [hu, ↓reduceIte] at h
            cases hl2 : splitByStrtbl st.strtbl l1 with
            | error e => rw [hl2] at h; cases h
            | ok l2 =>
              rw [hl2] at h
              have h' : (Except.ok (emitVElts st l2) : Except Err WSt) = .ok st' := h
              injection h' with h'; subst h'
              have hl2ok := splitByStrtbl_all (fun e => VOk c st.strtbl e ∧ notExt e) hcut
                st.strtbl (fun e he => ⟨⟨e, he, rfl⟩, trivial⟩) _ _ hl1ok hl2
              refine ⟨_, key l2 (fun e he => (hl2ok e he).1) (fun e he => (hl2ok e he).2) ?_⟩
              intro tb hres
              rw [splitByStrtbl_concat c st.strtbl tb hres st.strtbl (fun _ h => h) _ _
                (fun e he => (hl1ok e he).1) hl2]
              exact hcat1 tb hres
        cases hv : c.lang.values with
        | none =>
          rw [hv] at h
          exact pass2 _ h0 (fun tb _ => by simp [vval]) h
        | some vals =>
          rw [hv] at h
          cases hl1 : splitByValues vals [VElt.str s] with
          | error e =>
            have h' : (splitByValues vals [VElt.str s] >>= fun l => (do
                let l ← (if c.useStrtbl = true then splitByStrtbl st.strtbl l else pure l)
                pure (emitVElts st l) : Except Err WSt)) = .ok st' := h
            rw [hl1] at h'; cases h'
          | ok l1 =>
            have h' : (splitByValues vals [VElt.str s] >>= fun l => (do
                let l ← (if c.useStrtbl = true then splitByStrtbl st.strtbl l else pure l)
                pure (emitVElts st l) : Except Err WSt)) = .ok st' := h
            rw [hl1] at h'
            refine pass2 l1 (splitByValues_all _ hcut vals (fun r hr => ⟨⟨vals, hv, hr⟩, trivial⟩) _ _ h0 hl1) ?_ h'
            intro tb _
            rw [splitByValues_concat c st.strtbl tb vals (fun r hr => ⟨vals, hv, hr⟩) _ _
              (fun e he => (h0 e he).1) hl1]
            simp [vval]


/-! ### One attribute -/

theorem attrRange (r : AttrRow) (h : attrRowRange r = true) : isAttrStartTok r.token = true ∧ r.page < 256 := by
  simp only [attrRowRange, Bool.and_eq_true, decide_eq_true_eq, Bool.not_eq_true', isGlobal, globalTokens] at h
  obtain ⟨⟨⟨h1, h2⟩, h3⟩, h4⟩ := h
  refine ⟨?_, h3⟩
  simp only [isAttrStartTok, Bool.or_eq_true, Bool.and_eq_true, decide_eq_true_eq]
  have h5 : r.token ≠ 0x40 ∧ r.token ≠ 0x41 ∧ r.token ≠ 0x42 ∧ r.token ≠ 0x43 ∧ r.token ≠ 0x44 := by
    refine ⟨?_, ?_, ?_, ?_, ?_⟩ <;> (intro e; rw [e] at h4; simp at h4)
  omega

/-- The row the reader finds for a start token the encoder wrote: same page and token, and a row
    of the same table. -/
theorem attrRow_found' (c : WCfg) (ctx : Ctx) (hlang : ctx.lang = c.lang) (attrs : List AttrRow)
    (ha : c.lang.attrs = some attrs) (r : AttrRow) (hr : r ∈ attrs) (hp : r.page < 256) (ap : Nat) :
    ∃ r', attrRow ctx (swPage (swFor ap r.page) ap) r.token = some r' ∧ r' ∈ attrs ∧
      r'.token = r.token ∧ r'.page = r.page := by
  rw [swPage_swFor, Nat.mod_eq_of_lt hp]
  have ha' : ctx.lang.attrs = some attrs := by rw [hlang]; exact ha
  simp only [attrRow, ha']
  cases hf : attrs.find? (fun x => x.token == r.token && x.page == r.page) with
  | none =>
    have := List.find?_eq_none.mp hf r hr
    simp at this
  | some r' =>
    have h1 := List.find?_some hf
    simp only [Bool.and_eq_true, beq_iff_eq] at h1
    exact ⟨r', rfl, List.mem_of_find?_eq_some hf, h1.1, h1.2⟩

theorem attrRow_found (c : WCfg) (tbl) (ctx : Ctx) (hc : Compat c tbl ctx) (attrs : List AttrRow)
    (ha : c.lang.attrs = some attrs) (r : AttrRow) (hr : r ∈ attrs) (hp : r.page < 256) (ap : Nat) :
    ∃ r', attrRow ctx (swPage (swFor ap r.page) ap) r.token = some r' ∧ r' ∈ attrs ∧
      r'.token = r.token ∧ r'.page = r.page := by
  rw [swPage_swFor, Nat.mod_eq_of_lt hp]
  have ha' : ctx.lang.attrs = some attrs := by rw [hc.lang]; exact ha
  simp only [attrRow, ha']
  cases hf : attrs.find? (fun x => x.token == r.token && x.page == r.page) with
  | none =>
    have := List.find?_eq_none.mp hf r hr
    simp at this
  | some r' =>
    have h1 := List.find?_some hf
    simp only [Bool.and_eq_true, beq_iff_eq] at h1
    exact ⟨r', rfl, List.mem_of_find?_eq_some hf, h1.1, h1.2⟩

theorem astartOk_wf (c : WCfg) (tbl) (ap : Nat) (nm) (as : AStart) (cur) (h : AStartOk c tbl ap nm as cur)
    (ctx : Ctx) (hc : Compat c tbl ctx) (hl : langOk c.lang = true) : wfAStart ctx ap as = true := by
  cases h with
  | tok attrs r ha hr _ =>
    have hrange := attrRange r (langOk_attrs hl ha hr).1
    obtain ⟨r', hf, _⟩ := attrRow_found c tbl ctx hc attrs ha r hr hrange.2 ap
    simp only [wfAStart, wfSw_swFor, hrange.1, hf, Option.isSome_some, Bool.and_self]
  | lit off ho =>
    obtain ⟨e, he, rfl, _⟩ := ho
    simp [wfAStart, hc.cs, hc.offs e he]

theorem astartOk_refs (c : WCfg) (tbl) (ap : Nat) (nm) (as : AStart) (cur) (h : AStartOk c tbl ap nm as cur) :
    ∀ off ∈ refsAStart as, ∃ e ∈ tbl, e.offset = off := by
  intro off ho
  cases h with
  | tok attrs r ha hr _ => cases ho
  | lit o hoo =>
    simp only [refsAStart, List.mem_cons, List.mem_nil_iff, or_false] at ho
    subst ho
    obtain ⟨e, he, heo, _⟩ := hoo
    exact ⟨e, he, heo⟩

theorem attrValueText_ok (c : WCfg) (tbl) (ap : Nat) (nm) (as : AStart) (cur) (h : AStartOk c tbl ap nm as cur)
    (ctx : Ctx) (hc : Compat c tbl ctx) (hl : langOk c.lang = true) (vals : List AVal)
    (hdt : ∀ r, cur = some r → dtRow c.lang.id r = true → vals = []) :
    (attrValueText ctx (astartName ctx ap as).1
      ((astartName ctx ap as).2.1 ++ (avalsText ctx (astartName ctx ap as).2.2 vals).1)).isSome = true := by
  cases h with
  | lit off ho => simp [astartName, attrValueText, isDatetimeAttr]
  | tok attrs r ha hr _ =>
    have hrange := attrRange r (langOk_attrs hl ha hr).1
    obtain ⟨r', hf, hm, ht, hp⟩ := attrRow_found c tbl ctx hc attrs ha r hr hrange.2 ap
    simp only [astartName, hf, attrValueText]
    by_cases hd : isDatetimeAttr ctx (.token r') = true
    · have hd' : dtRow c.lang.id r' = true := by rw [← hc.lang]; exact hd
      have hdr : dtRow c.lang.id r = true := by
        simp only [dtRow, ht, hp] at hd' ⊢; exact hd'
      have hv := hdt r rfl hdr
      have hpre := (langOk_attrs hl ha hm).2 hd'
      subst hv
      simp [hpre, avalsText]
    · simp only [Bool.not_eq_true] at hd
      simp [hd]

/-! ### Typed attribute values are well-formed under the source hypotheses -/

theorem dtRow_not_ota (id : Nat) (r : AttrRow) (h : dtRow id r = true) : (id == 1901) = false := by
  simp only [dtRow, Bool.or_eq_true, Bool.and_eq_true, beq_iff_eq] at h
  rcases h with ⟨⟨h, _⟩, _⟩ | ⟨⟨h, _⟩, _⟩ <;> simp [h]

theorem iconRow_not_dt (id : Nat) (r r' : AttrRow) (h : iconRow id r = true) : dtRow id r' = false := by
  simp only [iconRow, Bool.and_eq_true, beq_iff_eq] at h
  simp [dtRow, h.1.1]

theorem dtRow_congr (id : Nat) (r r' : AttrRow) (ht : r'.token = r.token) (hp : r'.page = r.page) :
    dtRow id r' = dtRow id r := by simp only [dtRow, ht, hp]

theorem typedLangOk_icon {l : Lang} (h : typedLangOk l = true) {t} (ht : l.attrs = some t) {r} (hr : r ∈ t)
    (hi : iconRow l.id r = true) : r.value.getD [] = [] := by
  simp only [typedLangOk, ht, Option.getD_some, Bool.and_eq_true, List.all_eq_true] at h
  have := h.2 r hr
  simpa [hi] using this

theorem typedLangOk_binary {l : Lang} (h : typedLangOk l = true) {t} (ht : l.tags = some t) {r} (hr : r ∈ t)
    (hb : isBinaryTag (some r) = true) : typedRow l.id r = false := by
  simp only [typedLangOk, ht, Option.getD_some, Bool.and_eq_true, List.all_eq_true] at h
  have := h.1 r hr
  simp only [isBinaryTag, bne_iff_ne, ne_eq] at hb
  simp only [Bool.or_eq_true, beq_iff_eq, Bool.not_eq_true'] at this
  rcases this with h0 | h0
  · exact absurd h0 hb
  · exact h0

theorem wfAttr_typed (c : WCfg) (na : Option (List Attr)) (ctx : Ctx) (tbl) (hc : Compat c tbl ctx)
    (hl : langOk c.lang = true) (htl : typedLangOk c.lang = true) (ap : Nat) (attrs : List AttrRow)
    (ha : c.lang.attrs = some attrs) (r : AttrRow) (hr : r ∈ attrs) (s p : Bytes)
    (hout : SpecialOut c na s (some r) p)
    (hdt : dtAttrName c.lang r.name = true → validDatetimeText (r.value.getD [] ++ s) = true)
    (hic : iconCtx na = true → iconValName c.lang r.name = true →
      b64NonEmpty (r.value.getD [] ++ s) = true) :
    wfAttr ctx ap ⟨.tok (swFor ap r.page) r.token, [.opaque p]⟩ = true := by
  obtain ⟨hlen, r0, hr0, hcase⟩ := hout
  injection hr0 with hr0; subst hr0
  have hrange := attrRange r (langOk_attrs hl ha hr).1
  obtain ⟨r', hf, hm, ht, hp⟩ := attrRow_found c tbl ctx hc attrs ha r hr hrange.2 ap
  have hstart : wfAStart ctx ap (.tok (swFor ap r.page) r.token) = true :=
    astartOk_wf c tbl ap r.name _ _ (.tok attrs r ha hr rfl) ctx hc hl
  have hlen' : p.length < 4294967296 := hlen
  simp only [wfAttr, wfPi, Bool.and_eq_true]
  rcases hcase with ⟨hd, hpay⟩ | ⟨hi, hctx, hdec⟩
  · -- `%Datetime`
    have hno : (ctx.lang.id == 1901) = false := by rw [hc.lang]; exact dtRow_not_ota _ _ hd
    have hoa : opaqueAttrText ctx p = some p := by
      simp only [opaqueAttrText, decodeOpaqueAttrValue, hno, Bool.false_eq_true, ↓reduceIte]
    have hd' : dtRow c.lang.id r' = true := by rw [dtRow_congr _ r r' ht hp]; exact hd
    have hpre' := (langOk_attrs hl ha hm).2 hd'
    have hpre := (langOk_attrs hl ha hr).2 hd
    have hname : dtAttrName c.lang r.name = true := by
      simp only [dtAttrName, ha, Option.getD_some, List.any_eq_true, Bool.and_eq_true, beq_iff_eq]
      exact ⟨r, hr, hd, rfl⟩
    have hv := hdt hname
    rw [hpre, List.nil_append] at hv
    simp only [validDatetimeText, hpay, Bool.or_eq_true, Bool.and_eq_true, decide_eq_true_eq, List.isEmpty_iff] at hv
    refine ⟨⟨hstart, ?_⟩, ?_⟩
    · simp only [wfAVals, wfAVal, hoa, Option.isSome_some, Bool.and_true, decide_eq_true_eq]
      exact hlen'
    · have hisdt : isDatetimeAttr ctx (.token r') = true := by
        show dtRow ctx.lang.id r' = true
        rw [hc.lang]; exact hd'
      simp only [astartName, hf, avalsText, avalText, hoa, Option.getD_some, hpre', List.nil_append, List.append_nil,
        attrValueText, hisdt, Bool.and_true]
      rcases hv with hv | hv
      · subst hv; rfl
      · obtain ⟨b, hb⟩ := decodeDatetime_len p hv.1 hv.2
        simp only [hb]
        split <;> rfl
  · -- OTA icon
    have hid : c.lang.id = 1901 := by
      simp only [iconRow, Bool.and_eq_true, beq_iff_eq] at hi; exact hi.1.1
    have hpre := typedLangOk_icon htl ha hr hi
    have hname : iconValName c.lang r.name = true := by
      simp only [iconValName, ha, Option.getD_some, List.any_eq_true, Bool.and_eq_true, beq_iff_eq]
      exact ⟨r, hr, hi, rfl⟩
    have hv := hic hctx hname
    rw [hpre, List.nil_append] at hv
    simp only [b64NonEmpty, hdec, Bool.not_eq_true', List.isEmpty_eq_false_iff] at hv
    have hb := decodeBase64Value_spec p hv
    have hoa : opaqueAttrText ctx p = some (Rfc4648.encode p) := by
      simp only [opaqueAttrText, decodeOpaqueAttrValue, hc.lang, hid, beq_self_eq_true, ↓reduceIte, hb]
    refine ⟨⟨hstart, ?_⟩, ?_⟩
    · simp only [wfAVals, wfAVal, hoa, Option.isSome_some, Bool.and_true, decide_eq_true_eq]
      exact hlen'
    · have hisdt : isDatetimeAttr ctx (.token r') = false := by
        show dtRow ctx.lang.id r' = false
        rw [hc.lang]; exact iconRow_not_dt _ r r' hi
      simp only [astartName, hf, attrValueText, hisdt, Bool.and_false, Bool.false_eq_true, ↓reduceIte,
        Option.isSome_some]

/-- The first row with an attribute start's page and token carries the same value prefix. -/
def attrSemOk (l : Lang) : Bool :=
  match l.attrs with
  | some attrs => attrs.all (fun r => (decAttr attrs r.page r.token).map (·.value) == some r.value)
  | none => true

/-- A reader gives an attribute start the value prefix the encoder stripped. -/
theorem astartName_pre (c : WCfg) (tbl) (ap : Nat) (nm) (as : AStart) (cur) (h : AStartOk c tbl ap nm as cur)
    (ctx : Ctx) (hlang : ctx.lang = c.lang) (hl : langOk c.lang = true) (hsem : attrSemOk c.lang = true) :
    (astartName ctx ap as).2.1 = preOf cur := by
  cases h with
  | lit off ho => rfl
  | tok attrs r ha hr _ =>
    have hrange := attrRange r (langOk_attrs hl ha hr).1
    obtain ⟨r', hf, hm, ht, hp⟩ := attrRow_found' c ctx hlang attrs ha r hr hrange.2 ap
    simp only [astartName, hf, preOf]
    have hs : (decAttr attrs r.page r.token).map (·.value) = some r.value := by
      simp only [attrSemOk, ha, List.all_eq_true, beq_iff_eq] at hsem
      exact hsem r hr
    have hf' : attrRow ctx r.page r.token = some r' := by
      rw [swPage_swFor, Nat.mod_eq_of_lt hrange.2] at hf; exact hf
    have ha' : ctx.lang.attrs = some attrs := by rw [hlang]; exact ha
    have : decAttr attrs r.page r.token = some r' := by
      simp only [attrRow, ha'] at hf'; exact hf'
    rw [this] at hs
    simp only [Option.map_some, Option.some.injEq] at hs
    rw [hs]

/-- A reader that resolves strings, tokens and names the way the encoder meant them: same language,
    a string table that contains the encoder's entries at their offsets, alias-free tables, no
    typed attribute values. -/
structure Rd (c : WCfg) (tbl : List StrEntry) (ctx : Ctx) : Prop where
  lang : ctx.lang = c.lang
  res : Resolves ctx.tbl tbl
  ok : langOk c.lang = true
  vs : valSemOk c.lang = true
  as : attrSemOk c.lang = true
  ts : tagSemOk c.lang = true
  an : attrNameSemOk c.lang = true
  nta : noTypedAttr c.lang.id = true

theorem Rd.mono {c : WCfg} {tbl tbl' : List StrEntry} {ctx : Ctx} (h : Rd c tbl' ctx) (hp : tbl <+: tbl') :
    Rd c tbl ctx := ⟨h.lang, h.res.mono hp, h.ok, h.vs, h.as, h.ts, h.an, h.nta⟩

/-- The XML name a reader gives an attribute start is the source name. -/
theorem astartOk_name (c : WCfg) (tbl) (ap : Nat) (nm) (as : AStart) (cur) (h : AStartOk c tbl ap nm as cur)
    (ctx : Ctx) (hr : Rd c tbl ctx) (hnf : nulFree nm = true) : (astartName ctx ap as).1.xmlName = nm := by
  cases h with
  | lit off ho =>
    obtain ⟨e, he, rfl, rfl⟩ := ho
    simp only [astartName, AName.xmlName]
    exact hr.res e he hnf
  | tok attrs r ha hrm hn =>
    have hrange := attrRange r (langOk_attrs hr.ok ha hrm).1
    obtain ⟨r', hf, hm, ht, hp⟩ := attrRow_found' c ctx hr.lang attrs ha r hrm hrange.2 ap
    simp only [astartName, hf, AName.xmlName]
    have hs : (decAttr attrs r.page r.token).map (·.name) = some r.name := by
      have := hr.an
      simp only [attrNameSemOk, ha, List.all_eq_true, Bool.and_eq_true, beq_iff_eq] at this
      exact (this r hrm).2
    have hf' : attrRow ctx r.page r.token = some r' := by
      rw [swPage_swFor, Nat.mod_eq_of_lt hrange.2] at hf; exact hf
    have ha' : ctx.lang.attrs = some attrs := by rw [hr.lang]; exact ha
    have : decAttr attrs r.page r.token = some r' := by
      simp only [attrRow, ha'] at hf'; exact hf'
    rw [this] at hs
    simp only [Option.map_some, Option.some.injEq] at hs
    rw [hs, hn]

/-- A reader like `Rd` for EVERY language: typed attribute values allowed, aliases in the tag table
    allowed (the view then names the alias, see `nameView`). -/
structure RdT (c : WCfg) (tbl : List StrEntry) (ctx : Ctx) : Prop where
  lang : ctx.lang = c.lang
  res : Resolves ctx.tbl tbl
  ok : langOk c.lang = true
  vs : valSemOk c.lang = true
  as : attrSemOk c.lang = true
  an : attrNameSemOk c.lang = true
  tl : typedLangOk c.lang = true

theorem RdT.mono {c : WCfg} {tbl tbl' : List StrEntry} {ctx : Ctx} (h : RdT c tbl' ctx) (hp : tbl <+: tbl') :
    RdT c tbl ctx := ⟨h.lang, h.res.mono hp, h.ok, h.vs, h.as, h.an, h.tl⟩

theorem RdT.of_eq {c : WCfg} {tbl tbl' : List StrEntry} {ctx : Ctx} (h : RdT c tbl' ctx) (he : tbl = tbl') :
    RdT c tbl ctx := he ▸ h

theorem astartOk_name' (c : WCfg) (tbl) (ap : Nat) (nm) (as : AStart) (cur) (h : AStartOk c tbl ap nm as cur)
    (ctx : Ctx) (hr : RdT c tbl ctx) (hnf : nulFree nm = true) : (astartName ctx ap as).1.xmlName = nm := by
  cases h with
  | lit off ho =>
    obtain ⟨e, he, rfl, rfl⟩ := ho
    simp only [astartName, AName.xmlName]
    exact hr.res e he hnf
  | tok attrs r ha hrm hn =>
    have hrange := attrRange r (langOk_attrs hr.ok ha hrm).1
    obtain ⟨r', hf, hm, ht, hp⟩ := attrRow_found' c ctx hr.lang attrs ha r hrm hrange.2 ap
    simp only [astartName, hf, AName.xmlName]
    have hs : (decAttr attrs r.page r.token).map (·.name) = some r.name := by
      have := hr.an
      simp only [attrNameSemOk, ha, List.all_eq_true, Bool.and_eq_true, beq_iff_eq] at this
      exact (this r hrm).2
    have hf' : attrRow ctx r.page r.token = some r' := by
      rw [swPage_swFor, Nat.mod_eq_of_lt hrange.2] at hf; exact hf
    have ha' : ctx.lang.attrs = some attrs := by rw [hr.lang]; exact ha
    have : decAttr attrs r.page r.token = some r' := by
      simp only [attrRow, ha'] at hf'; exact hf'
    rw [this] at hs
    simp only [Option.map_some, Option.some.injEq] at hs
    rw [hs, hn]

/-- What a reader shows for a `%Datetime` payload (`decode_datetime`; nothing for an empty one). -/
def dtShow (p : Bytes) : Bytes :=
  if p.isEmpty then [] else match decodeDatetime p with | .ok b => b | .error _ => []

/-- **The value a reader reports for an attribute**, as a function of the source value `v` (a C
    string) and the row `cur` of its start token (`startRow`): the value itself, except under an SI /
    EMN `%Datetime` start token, where it is the text `decode_datetime` makes of the BCD payload
    `wbxml_encode_datetime` makes of `v` (C12: the same instant). Not for OTA settings (the icon
    value; there the string table is never used and `sameWalk` applies). No option is looked at. -/
def vAttrValue (c : WCfg) (cur : Option AttrRow) (v : Bytes) : Bytes :=
  match cur with
  | some r =>
    if dtRow c.lang.id r && !v.isEmpty then
      match Typed.datetimePayload v with
      | .ok p => dtShow p
      | .error _ => v
    else v
  | none => v

/-- The typed source view of an attribute: XML name and the value buffer the handler gets. -/
def vAttr (c : WCfg) (a : Attr) : Bytes × Bytes :=
  (a.name.cName, withNul (vAttrValue c (startRow c a) (cstrOf a.value)))

def vAttrs (c : WCfg) (attrs : List Attr) : List (Bytes × Bytes) :=
  if c.lang.attrs.isSome then attrs.map (vAttr c) else []

/-- **The `AName` a reader gives the attribute start written** — representation included: the token
    name of the FIRST row with the page and token of `current_attr` (`startRow`), or the literal
    with the attribute's own name when the start was written as a literal. -/
def exactAName (l : Lang) (cur : Option AttrRow) (nm : Bytes) : AName :=
  match cur with
  | some r =>
    match l.attrs with
    | some attrs =>
      match decAttr attrs r.page r.token with
      | some d => .token d
      | none => .literal nm
    | none => .literal nm
  | none => .literal nm

/-- The attribute a reader reports, as a function of the source attribute alone: exact name
    (`exactAName` of `startRow`), value `vAttrValue` with the handlers' trailing NUL. -/
def xAttr (c : WCfg) (a : Attr) : Attr :=
  { name := exactAName c.lang (startRow c a) a.name.cName,
    value := withNul (vAttrValue c (startRow c a) (cstrOf a.value)) }

def xAttrs (c : WCfg) (attrs : List Attr) : List Attr :=
  if c.lang.attrs.isSome then attrs.map (xAttr c) else []

/-- The reader's `AName` for an attribute start IS `exactAName` of `current_attr`. -/
theorem astartOk_exact (c : WCfg) (tbl) (ap : Nat) (nm) (as : AStart) (cur) (h : AStartOk c tbl ap nm as cur)
    (ctx : Ctx) (hr : RdT c tbl ctx) (hnf : nulFree nm = true) :
    (astartName ctx ap as).1 = exactAName c.lang cur nm := by
  cases h with
  | lit off ho =>
    obtain ⟨e, he, rfl, rfl⟩ := ho
    simp only [astartName, exactAName]
    exact congrArg AName.literal (hr.res e he hnf)
  | tok attrs r ha hrm hn =>
    have hrange := attrRange r (langOk_attrs hr.ok ha hrm).1
    obtain ⟨r', hf, hm, ht, hp⟩ := attrRow_found' c ctx hr.lang attrs ha r hrm hrange.2 ap
    have hf' : attrRow ctx r.page r.token = some r' := by
      rw [swPage_swFor, Nat.mod_eq_of_lt hrange.2] at hf; exact hf
    have ha' : ctx.lang.attrs = some attrs := by rw [hr.lang]; exact ha
    have hd : decAttr attrs r.page r.token = some r' := by
      simp only [attrRow, ha'] at hf'; exact hf'
    simp only [astartName, hf, exactAName, ha, hd]

theorem iconRow_id (id : Nat) (r : AttrRow) (h : iconRow id r = true) : (id == 1901) = true := by
  simp only [iconRow, Bool.and_eq_true] at h; exact h.1.1

theorem attrValueText_plain (ctx : Ctx) (h : noTypedAttr ctx.lang.id = true) (name : AName) (raw : Bytes) :
    attrValueText ctx name raw = some raw := by
  unfold attrValueText
  have : isDatetimeAttr ctx name = false := by
    cases name with
    | token r => exact noTypedAttr_dt _ h r
    | literal s => rfl
  simp [this]

/-- The source view of an attribute: XML name and the value buffer the handler gets. -/
def srcAttrView (a : Attr) : Bytes × Bytes := (a.name.cName, withNul (cstrOf a.value))

theorem attrOver_nulFree (c : WCfg) (a : Attr) (attrs : List AttrRow) (hattrs : c.lang.attrs = some attrs)
    (ha : attrOver c.lang a = true) (han : attrNameSemOk c.lang = true) : nulFree a.name.cName = true := by
  cases hn : a.name with
  | literal s => exact nulFree_cstrOf s
  | token r =>
    simp only [attrOver, hn, hattrs, Bool.and_eq_true, List.contains_iff_mem] at ha
    simp only [attrNameSemOk, hattrs, List.all_eq_true, Bool.and_eq_true] at han
    exact (han r ha.2).1

/-- What one attribute is written as; `nm` / `v` are the source name and value (C strings). -/
structure AttrRes (c : WCfg) (na : Option (List Attr)) (nm v : Bytes) (st st' : WSt) (a : Attribute) : Prop where
  out : st'.out = st.out ++ serAttr a
  ap : ∀ ctx, st'.attrPage = (evAttr ctx st.attrPage a).2
  tp : st'.tagPage = st.tagPage
  tbl : TblExt c st st'
  refs : ∀ off ∈ refsAttr a, ∃ e ∈ st'.strtbl, e.offset = off
  wf : ∀ ctx, Compat c st'.strtbl ctx → langOk c.lang = true → opqsAttr a = [] →
    wfAttr ctx st.attrPage a = true
  /-- start-token prefix ++ pieces, as a reader resolves them, is the source value -/
  value : ∀ ctx : Ctx, ctx.lang = c.lang → langOk c.lang = true → valSemOk c.lang = true →
    attrSemOk c.lang = true → Resolves ctx.tbl st'.strtbl → opqsAttr a = [] →
    (astartName ctx st.attrPage a.start).2.1 ++
      (avalsText ctx (astartName ctx st.attrPage a.start).2.2 a.vals).1 = v
  noopq : noTypedAttr c.lang.id = true → opqsAttr a = []
  /-- what a reader reports for the attribute is the source attribute -/
  view : ∀ ctx : Ctx, Rd c st'.strtbl ctx → nulFree nm = true →
    attrView (evAttr ctx st.attrPage a).1 = (nm, withNul v)
  /-- typed values included, under the source hypotheses (`dtAttrOk`, `iconAttrOk`) -/
  wfT : ∀ ctx, Compat c st'.strtbl ctx → langOk c.lang = true → typedLangOk c.lang = true →
    (dtAttrName c.lang nm = true → validDatetimeText v = true) →
    (iconCtx na = true → iconValName c.lang nm = true → v.isEmpty = true ∨ b64NonEmpty v = true) →
    wfAttr ctx st.attrPage a = true

theorem encAttrW_spec' (c : WCfg) (na : Option (List Attr)) (a : Attr) (st st' : WSt)
    (ha : attrOver c.lang a = true) (attrs : List AttrRow) (hattrs : c.lang.attrs = some attrs)
    (h : encAttrW c na a st = .ok st') : ∃ sa, AttrRes c na a.name.cName (cstrOf a.value) st st' sa ∧
      (∀ ctx : Ctx, RdT c st'.strtbl ctx → (c.lang.id == 1901) = false →
        attrView (evAttr ctx st.attrPage sa).1 = vAttr c a) ∧
      (∀ ctx : Ctx, RdT c st'.strtbl ctx → (c.lang.id == 1901) = false →
        (evAttr ctx st.attrPage sa).1 = xAttr c a) := by
  unfold encAttrW at h
  rw [hattrs] at h
  simp only at h
  have hlen : (cstrOf a.value).length < 2 ^ 32 := by
    simp only [attrOver, Bool.and_eq_true, decide_eq_true_eq] at ha
    have : (cstrOf a.value).length ≤ a.value.length := by unfold cstrOf; rw [List.length_take]; omega
    omega
  cases hs : attrStartW c a (cstrOf a.value) st with
  | error e => rw [hs] at h; cases h
  | ok p =>
    obtain ⟨rest, st1⟩ := p
    rw [hs] at h
    obtain ⟨as, hres, hrest⟩ := attrStartW_spec c a (cstrOf a.value) st st1 rest ha (nulFree_cstrOf _) attrs hattrs hs
    -- the value part
    have hpre := attrStartW_prefix c a (cstrOf a.value) st st1 rest
      (by unfold cstrOf; rw [List.length_take]; omega) hs
    have hval : ∃ st2 vals, st' = { st2 with curAttr := none } ∧ AValsRes c na (rest.getD []) st1 st2 vals := by
      cases rest with
      | none =>
        have h' : (Except.ok { st1 with curAttr := none } : Except Err WSt) = .ok st' := h
        injection h' with h'
        exact ⟨st1, [], h'.symm, AValsRes.nil c na st1⟩
      | some s =>
        cases hv : encAttrValueW c na s st1 with
        | error e =>
          have h' : (encAttrValueW c na s st1 >>= fun st => pure { st with curAttr := none }) = .ok st' := h
          rw [hv] at h'; cases h'
        | ok st2 =>
          have h' : (encAttrValueW c na s st1 >>= fun st => pure { st with curAttr := none }) = .ok st' := h
          rw [hv] at h'
          have h'' : (Except.ok { st2 with curAttr := none } : Except Err WSt) = .ok st' := h'
          injection h'' with h''
          have hsl : s.length < 2 ^ 32 := by
            have := (hrest s rfl).2
            omega
          obtain ⟨vals, hvr⟩ := encAttrValueW_spec c na s st1 st2 (hrest s rfl).1 hsl hv
          exact ⟨st2, vals, h''.symm, hvr⟩
    obtain ⟨st2, vals, rfl, hvr⟩ := hval
    have hvalue : ∀ ctx : Ctx, ctx.lang = c.lang → langOk c.lang = true → valSemOk c.lang = true →
        attrSemOk c.lang = true → Resolves ctx.tbl st2.strtbl → opqsAVals vals = [] →
        (astartName ctx st.attrPage as).2.1 ++ (avalsText ctx (astartName ctx st.attrPage as).2.2 vals).1 =
          cstrOf a.value := by
      intro ctx hlang hl hvs has hrs hno
      have hres1 : Resolves ctx.tbl st1.strtbl := by
        have : st2.strtbl = st1.strtbl := hvr.tbl
        intro e he; exact hrs e (by rw [this]; exact he)
      rw [astartName_pre c _ _ _ _ _ hres.ok ctx hlang hl has, ← hres.ap ctx, hvr.text ctx hlang hl hvs hres1 hno]
      exact hpre.symm
    have hwf0 : ∀ ctx, Compat c st2.strtbl ctx → langOk c.lang = true → opqsAttr ⟨as, vals⟩ = [] →
        wfAttr ctx st.attrPage ⟨as, vals⟩ = true := by
      intro ctx hc hl hno
      have hc1 : Compat c st1.strtbl ctx := by
        have : st2.strtbl = st1.strtbl := hvr.tbl
        exact ⟨hc.lang, hc.cs, fun e he => hc.offs e (by show e ∈ st2.strtbl; rw [this]; exact he)⟩
      simp only [opqsAttr] at hno
      simp only [wfAttr, wfPi, Bool.and_eq_true]
      refine ⟨⟨astartOk_wf c _ _ _ _ _ hres.ok ctx hc1 hl, ?_⟩, ?_⟩
      · rw [← hres.ap ctx]; exact hvr.wf ctx hc1 hl hno
      · apply attrValueText_ok c _ _ _ _ _ hres.ok ctx hc1 hl vals
        intro r hr hd
        rcases hvr.dt r hr hd with h | h
        · exact h
        · exact absurd hno h
    have hcurS : st1.curAttr = startRow c a := attrStartW_cur c a st st1 rest hs
    have hviewT : ∀ ctx : Ctx, RdT c st2.strtbl ctx → (c.lang.id == 1901) = false →
        attrView (evAttr ctx st.attrPage ⟨as, vals⟩).1 = vAttr c a := by
      intro ctx hr hno
      have hr1 : RdT c st1.strtbl ctx := hr.of_eq hvr.tbl.symm
      have hnf := attrOver_nulFree c a attrs hattrs ha hr.an
      have hname := astartOk_name' c _ _ _ _ _ hres.ok ctx hr1 hnf
      have hno' : (ctx.lang.id == 1901) = false := by rw [hr.lang]; exact hno
      have hoa : ∀ p, opaqueAttrText ctx p = some p := by
        intro p
        simp only [opaqueAttrText, decodeOpaqueAttrValue, hno', Bool.false_eq_true, ↓reduceIte]
      have hnoicon : ∀ r p s, ¬ (iconRow c.lang.id r = true ∧ iconCtx na = true ∧ Codec.b64DecodeE (b64TextW s) = .ok p) := by
        intro r p s hh
        have := iconRow_id _ _ hh.1
        rw [hno] at this; cases this
      simp only [vAttr, ← hcurS]
      have hok := hres.ok
      cases hok' : st1.curAttr with
      | none =>
        rw [hok'] at hok hpre
        have hplain : opqsAVals vals = [] := by
          rcases hvr.typed with hno2 | ⟨p, _, _, _, r, hcur, _⟩
          · exact hno2
          · rw [hok'] at hcur; cases hcur
        have hraw := hvalue ctx hr.lang hr.ok hr.vs hr.as hr.res hplain
        cases hok with
        | lit off ho =>
          simp only [attrView, evAttr, vAttrValue]
          have hnm : (astartName ctx st.attrPage (AStart.lit off)).1.xmlName = a.name.cName := hname
          rw [hnm, hraw]
          simp [attrValueText, astartName, isDatetimeAttr]
      | some r =>
        rw [hok'] at hok hpre
        cases hok with
        | tok attrs' r0 ha' hr' hn' =>
          have hrange := attrRange r (langOk_attrs hr.ok ha' hr').1
          obtain ⟨r', hf, hm, ht, hp⟩ := attrRow_found' c ctx hr.lang attrs' ha' r hr' hrange.2 st.attrPage
          have hnm : (astartName ctx st.attrPage (AStart.tok (swFor st.attrPage r.page) r.token)).1.xmlName =
              a.name.cName := hname
          have hisdt : isDatetimeAttr ctx (.token r') = dtRow c.lang.id r := by
            show dtRow ctx.lang.id r' = _
            rw [hr.lang, dtRow_congr _ r r' ht hp]
          by_cases hd : dtRow c.lang.id r = true
          · have hpre0 := (langOk_attrs hr.ok ha' hr').2 hd
            have hd' : dtRow c.lang.id r' = true := by rw [dtRow_congr _ r r' ht hp]; exact hd
            have hpre0' := (langOk_attrs hr.ok ha' hm).2 hd'
            simp only [preOf, hpre0, List.nil_append] at hpre
            rcases hvr.typed with hno2 | ⟨p, hvals, hsne, _, r1, hcur, hcase⟩
            · have hv0 : vals = [] := by
                rcases hvr.dt r hok' hd with h0 | h0
                · exact h0
                · exact absurd hno2 h0
              have hs0 := hvr.text ctx hr.lang hr.ok hr.vs hr1.res hno2
              rw [hv0] at hs0
              have hv : cstrOf a.value = [] := by rw [hpre, ← hs0]; rfl
              subst hv0
              simp only [attrView, evAttr, vAttrValue, hv, hd, List.isEmpty_nil, Bool.not_true, Bool.and_false,
                Bool.false_eq_true, ↓reduceIte]
              rw [hnm]
              simp [astartName, hf, hpre0', avalsText, attrValueText]
            · rw [hok'] at hcur
              injection hcur with hcur; subst hcur
              rcases hcase with ⟨_, hpay⟩ | hic
              · subst hvals
                rw [← hpre] at hpay hsne
                have hne : (cstrOf a.value).isEmpty = false := by
                  cases hx : cstrOf a.value with
                  | nil => exact absurd hx hsne
                  | cons _ _ => rfl
                simp only [attrView, evAttr, vAttrValue, hd, hne, Bool.not_false, Bool.and_self, ↓reduceIte, hpay]
                rw [hnm]
                simp only [astartName, hf, hpre0', avalsText, avalText, hoa, Option.getD_some, List.nil_append,
                  List.append_nil, attrValueText, hisdt, hd, Bool.and_true, dtShow]
                cases hpe : p.isEmpty with
                | true => simp [List.isEmpty_iff.mp hpe]
                | false =>
                  simp only [Bool.not_false, ↓reduceIte, Bool.false_eq_true]
                  cases decodeDatetime p <;> rfl
              · exact absurd hic (hnoicon _ _ _)
          · have hd0 : dtRow c.lang.id r = false := by simpa using hd
            have hplain : opqsAVals vals = [] := by
              rcases hvr.typed with hno2 | ⟨p, _, _, _, r1, hcur, hcase⟩
              · exact hno2
              · rw [hok'] at hcur
                injection hcur with hcur; subst hcur
                rcases hcase with ⟨hd1, _⟩ | hic
                · rw [hd0] at hd1; cases hd1
                · exact absurd hic (hnoicon _ _ _)
            have hraw := hvalue ctx hr.lang hr.ok hr.vs hr.as hr.res hplain
            simp only [attrView, evAttr, vAttrValue, hd0, Bool.false_and, Bool.false_eq_true, ↓reduceIte]
            rw [hnm, hraw]
            simp only [astartName, hf, attrValueText, hisdt, hd0, Bool.and_false, Bool.false_eq_true, ↓reduceIte,
              Option.getD_some]
    have hexact : ∀ ctx : Ctx, RdT c st2.strtbl ctx → (c.lang.id == 1901) = false →
        (evAttr ctx st.attrPage ⟨as, vals⟩).1 = xAttr c a := by
      intro ctx hr hno
      have hr1 : RdT c st1.strtbl ctx := hr.of_eq hvr.tbl.symm
      have hnf := attrOver_nulFree c a attrs hattrs ha hr.an
      have hn := astartOk_exact c _ _ _ _ _ hres.ok ctx hr1 hnf
      rw [hcurS] at hn
      have hname : (evAttr ctx st.attrPage ⟨as, vals⟩).1.name = exactAName c.lang (startRow c a) a.name.cName := hn
      have hval : (evAttr ctx st.attrPage ⟨as, vals⟩).1.value =
          withNul (vAttrValue c (startRow c a) (cstrOf a.value)) := congrArg Prod.snd (hviewT ctx hr hno)
      calc (evAttr ctx st.attrPage ⟨as, vals⟩).1
          = ⟨(evAttr ctx st.attrPage ⟨as, vals⟩).1.name, (evAttr ctx st.attrPage ⟨as, vals⟩).1.value⟩ := rfl
        _ = xAttr c a := by rw [hname, hval]; rfl
    refine ⟨⟨as, vals⟩, ⟨?_, ?_, ?_, ?_, ?_, hwf0, ?_, fun hu => hvr.noopq hu, ?_, ?_⟩, hviewT, hexact⟩
    · show st2.out = _
      rw [hvr.out, hres.out, serAttr, List.append_assoc]
    · intro ctx
      show st2.attrPage = _
      rw [evAttr_page, hvr.ap ctx, hres.ap ctx]
    · show st2.tagPage = _
      rw [hvr.tp, hres.tp]
    · exact hres.tbl.trans ((TblExt.of_eq hvr.tbl hvr.len).trans (TblExt.of_eq rfl rfl))
    · intro off ho
      show ∃ e ∈ st2.strtbl, _
      rw [hvr.tbl]
      simp only [refsAttr, List.mem_append] at ho
      rcases ho with ho | ho
      · exact astartOk_refs c _ _ _ _ _ hres.ok off ho
      · exact hvr.refs off ho
    · intro ctx hlang hl hvs has hrs hno
      exact hvalue ctx hlang hl hvs has hrs hno
    · intro ctx hr hnf
      have hr2 : Rd c st2.strtbl ctx := hr
      have hr1 : Rd c st1.strtbl ctx := by
        have : st2.strtbl = st1.strtbl := hvr.tbl
        exact ⟨hr2.lang, fun e he => hr2.res e (by rw [this]; exact he), hr2.ok, hr2.vs, hr2.as, hr2.ts, hr2.an, hr2.nta⟩
      have hnta : noTypedAttr ctx.lang.id = true := by rw [hr2.lang]; exact hr2.nta
      have hraw := hvalue ctx hr2.lang hr2.ok hr2.vs hr2.as hr2.res (hvr.noopq hr2.nta)
      simp only [attrView, evAttr, attrValueText_plain ctx hnta, Option.getD_some, hraw,
        astartOk_name c _ _ _ _ _ hres.ok ctx hr1 hnf]
    · intro ctx hc hl htl hdt hic
      rcases hvr.typed with hno | ⟨p, hvals, hsne, hout⟩
      · exact hwf0 ctx hc hl (by simp only [opqsAttr]; exact hno)
      · have hc1 : Compat c st1.strtbl ctx := by
          have : st2.strtbl = st1.strtbl := hvr.tbl
          exact ⟨hc.lang, hc.cs, fun e he => hc.offs e (by show e ∈ st2.strtbl; rw [this]; exact he)⟩
        obtain ⟨_, r, hcur, _⟩ := id hout
        have hok := hres.ok
        rw [hcur] at hok hout hpre
        subst hvals
        cases hok with
        | tok attrs' _ ha' hr' hn' =>
          have hrest : rest.getD [] ≠ [] := hsne
          simp only [preOf] at hpre
          rw [← hn'] at hdt hic
          rw [hpre] at hdt hic
          refine wfAttr_typed c na ctx st1.strtbl hc1 hl htl st.attrPage attrs' ha' r hr' _ p hout hdt ?_
          intro h1 h2
          rcases hic h1 h2 with h3 | h3
          · rw [List.isEmpty_iff, List.append_eq_nil_iff] at h3
            exact absurd h3.2 hrest
          · exact h3


theorem encAttrW_spec (c : WCfg) (na : Option (List Attr)) (a : Attr) (st st' : WSt)
    (ha : attrOver c.lang a = true) (attrs : List AttrRow) (hattrs : c.lang.attrs = some attrs)
    (h : encAttrW c na a st = .ok st') : ∃ sa, AttrRes c na a.name.cName (cstrOf a.value) st st' sa := by
  obtain ⟨sa, hsa, _⟩ := encAttrW_spec' c na a st st' ha attrs hattrs h
  exact ⟨sa, hsa⟩

/-! ### The attribute list -/

structure AttrsRes (c : WCfg) (na : Option (List Attr)) (l : List Attr) (st st' : WSt) (as : List Attribute) : Prop where
  out : st'.out = st.out ++ serAttrs as
  ap : ∀ ctx, st'.attrPage = (evAttrs ctx st.attrPage as).2
  tp : st'.tagPage = st.tagPage
  tbl : TblExt c st st'
  refs : ∀ off ∈ refsAttrs as, ∃ e ∈ st'.strtbl, e.offset = off
  wf : ∀ ctx, Compat c st'.strtbl ctx → langOk c.lang = true → opqsAttrs as = [] →
    wfAttrs ctx st.attrPage as = true
  noopq : noTypedAttr c.lang.id = true → opqsAttrs as = []
  view : ∀ ctx : Ctx, Rd c st'.strtbl ctx → (evAttrs ctx st.attrPage as).1.map attrView = l.map srcAttrView
  wfT : ∀ ctx, Compat c st'.strtbl ctx → langOk c.lang = true → typedLangOk c.lang = true →
    l.all (dtAttrOk c.lang) = true → l.all (iconAttrOk c.lang na) = true → wfAttrs ctx st.attrPage as = true

theorem encAttrsW_spec' (c : WCfg) (na : Option (List Attr)) (attrs : List AttrRow) (hattrs : c.lang.attrs = some attrs) :
    ∀ (l : List Attr) (st st' : WSt), l.all (attrOver c.lang) = true → encAttrsW c na l st = .ok st' →
      ∃ as, as.length = l.length ∧ AttrsRes c na l st st' as ∧
        (∀ ctx : Ctx, RdT c st'.strtbl ctx → (c.lang.id == 1901) = false →
          (evAttrs ctx st.attrPage as).1.map attrView = l.map (vAttr c)) ∧
        (∀ ctx : Ctx, RdT c st'.strtbl ctx → (c.lang.id == 1901) = false →
          (evAttrs ctx st.attrPage as).1 = l.map (xAttr c)) := by
  intro l
  induction l with
  | nil =>
    intro st st' _ h
    simp only [encAttrsW] at h
    have h' : (Except.ok st : Except Err WSt) = .ok st' := h
    injection h' with h'; subst h'
    exact ⟨[], rfl, ⟨by simp [serAttrs], fun _ => rfl, rfl, TblExt.refl _ _, (by intro o ho; cases ho), fun _ _ _ _ => rfl,
      fun _ => rfl, fun _ _ => rfl, fun _ _ _ _ _ _ => rfl⟩, fun _ _ _ => rfl, fun _ _ _ => rfl⟩
  | cons a rest ih =>
    intro st st' hall h
    simp only [List.all_cons, Bool.and_eq_true] at hall
    simp only [encAttrsW] at h
    cases h1 : encAttrW c na a st with
    | error e =>
      have h' : (encAttrW c na a st >>= fun st => encAttrsW c na rest st) = .ok st' := h
      rw [h1] at h'; cases h'
    | ok st1 =>
      have h' : (encAttrW c na a st >>= fun st => encAttrsW c na rest st) = .ok st' := h
      rw [h1] at h'
      have h2 : encAttrsW c na rest st1 = .ok st' := h'
      obtain ⟨sa, hsa, hsaT, hsaX⟩ := encAttrW_spec' c na a st st1 hall.1 attrs hattrs h1
      obtain ⟨as, hlen, has, hasT, hasX⟩ := ih st1 st' hall.2 h2
      have hX : ∀ ctx : Ctx, RdT c st'.strtbl ctx → (c.lang.id == 1901) = false →
          (evAttrs ctx st.attrPage (sa :: as)).1 = (a :: rest).map (xAttr c) := by
        intro ctx hr hno
        have hv := hsaX ctx (hr.mono has.tbl.pre) hno
        have hrest := hasX ctx hr hno
        rw [hsa.ap ctx] at hrest
        show (evAttr ctx st.attrPage sa).1 :: (evAttrs ctx (evAttr ctx st.attrPage sa).2 as).1 = _
        rw [hv, hrest]
        rfl
      have hT : ∀ ctx : Ctx, RdT c st'.strtbl ctx → (c.lang.id == 1901) = false →
          (evAttrs ctx st.attrPage (sa :: as)).1.map attrView = (a :: rest).map (vAttr c) := by
        intro ctx hr hno
        have hv := hsaT ctx (hr.mono has.tbl.pre) hno
        have hrest := hasT ctx hr hno
        rw [hsa.ap ctx] at hrest
        show attrView (evAttr ctx st.attrPage sa).1 :: (evAttrs ctx (evAttr ctx st.attrPage sa).2 as).1.map attrView = _
        rw [hv, hrest]
        rfl
      refine ⟨sa :: as, by simp [hlen], ⟨?_, ?_, ?_, hsa.tbl.trans has.tbl, ?_, ?_,
        fun hu => by simp only [opqsAttrs, hsa.noopq hu, has.noopq hu, List.append_nil], ?_, ?_⟩, hT, hX⟩
      · rw [has.out, hsa.out, serAttrs, List.append_assoc]
      · intro ctx; rw [evAttrs_cons_page, has.ap ctx, hsa.ap ctx]
      · rw [has.tp, hsa.tp]
      · intro off ho
        simp only [refsAttrs, List.mem_append] at ho
        rcases ho with ho | ho
        · obtain ⟨e, he, heo⟩ := hsa.refs off ho
          exact ⟨e, has.tbl.pre.subset he, heo⟩
        · exact has.refs off ho
      · intro ctx hc hl hno
        simp only [opqsAttrs, List.append_eq_nil_iff] at hno
        simp only [wfAttrs, Bool.and_eq_true]
        refine ⟨hsa.wf ctx (hc.mono has.tbl.pre) hl hno.1, ?_⟩
        rw [← hsa.ap ctx]
        exact has.wf ctx hc hl hno.2
      · intro ctx hr
        have hv := hsa.view ctx (hr.mono has.tbl.pre) (attrOver_nulFree c a attrs hattrs hall.1 hr.an)
        have hrest := has.view ctx hr
        rw [hsa.ap ctx] at hrest
        show attrView (evAttr ctx st.attrPage sa).1 :: (evAttrs ctx (evAttr ctx st.attrPage sa).2 as).1.map attrView = _
        rw [hv, hrest]
        rfl
      · intro ctx hc hl htl h1 h2
        simp only [List.all_cons, Bool.and_eq_true] at h1 h2
        simp only [wfAttrs, Bool.and_eq_true]
        refine ⟨hsa.wfT ctx (hc.mono has.tbl.pre) hl htl ?_ ?_, ?_⟩
        · intro hn
          have := h1.1
          simpa [dtAttrOk, hn] using this
        · intro ha1 ha2
          have := h2.1
          simpa [iconAttrOk, ha1, ha2] using this
        · rw [← hsa.ap ctx]
          exact has.wfT ctx hc hl htl h1.2 h2.2

theorem encAttrsW_spec (c : WCfg) (na : Option (List Attr)) (attrs : List AttrRow) (hattrs : c.lang.attrs = some attrs) :
    ∀ (l : List Attr) (st st' : WSt), l.all (attrOver c.lang) = true → encAttrsW c na l st = .ok st' →
      ∃ as, as.length = l.length ∧ AttrsRes c na l st st' as := by
  intro l st st' h1 h2
  obtain ⟨as, h3, h4, _⟩ := encAttrsW_spec' c na attrs hattrs l st st' h1 h2
  exact ⟨as, h3, h4⟩

theorem encAttrsW_noattrs (c : WCfg) (na : Option (List Attr)) (hattrs : c.lang.attrs = none) :
    ∀ (l : List Attr) (st : WSt), encAttrsW c na l st = .ok st := by
  intro l
  induction l with
  | nil => intro st; rfl
  | cons a rest ih =>
    intro st
    simp only [encAttrsW]
    have : encAttrW c na a st = .ok st := by unfold encAttrW; rw [hattrs]; rfl
    rw [this]
    exact ih st

/-! ### `parse_element` -/

theorem TagOk.mono {c : WCfg} {tbl tbl' : List StrEntry} (hp : tbl <+: tbl') {tp nm sw tag}
    (h : TagOk c tbl tp nm sw tag) : TagOk c tbl' tp nm sw tag := by
  cases h with
  | tok tags r ht hr hn => exact .tok tags r ht hr hn
  | lit off ho => obtain ⟨e, he, ho⟩ := ho; exact .lit off ⟨e, hp.subset he, ho⟩

theorem tagOk_wf (c : WCfg) (tbl) (tp : Nat) (nm) (sw tag) (h : TagOk c tbl tp nm sw tag)
    (ctx : Ctx) (hc : Compat c tbl ctx) (hl : langOk c.lang = true) :
    wfSw sw = true ∧ wfTag ctx (swPage sw tp) tag = true := by
  cases h with
  | tok tags r ht hr _ =>
    have hrange := tagRange r (langOk_tags hl ht hr)
    refine ⟨wfSw_swFor _ _, ?_⟩
    rw [swPage_swFor, Nat.mod_eq_of_lt hrange.2.2]
    have ht' : ctx.lang.tags = some tags := by rw [hc.lang]; exact ht
    simp only [wfTag, isTagTok, tagRow, ht', Bool.and_eq_true, decide_eq_true_eq]
    refine ⟨⟨hrange.1, hrange.2.1⟩, ?_⟩
    rw [List.find?_isSome]
    exact ⟨r, hr, by simp⟩
  | lit off ho =>
    obtain ⟨e, he, rfl, _⟩ := ho
    exact ⟨rfl, by simp [wfTag, hc.cs, hc.offs e he]⟩

theorem tagOk_refs (c : WCfg) (tbl) (tp : Nat) (nm) (sw tag) (h : TagOk c tbl tp nm sw tag) :
    ∀ off ∈ refsTag tag, ∃ e ∈ tbl, e.offset = off := by
  intro off ho
  cases h with
  | tok tags r ht hr _ => cases ho
  | lit o hoo =>
    simp only [refsTag, List.mem_cons, List.mem_nil_iff, or_false] at ho
    subst ho
    obtain ⟨e, he, heo, _⟩ := hoo
    exact ⟨e, he, heo⟩

/-- What `parse_element` writes: `[switchPage] stag [1*attribute END]`. -/
structure StartRes (c : WCfg) (nm : Bytes) (src : List (Bytes × Bytes)) (st st' : WSt) (hasContent : Bool)
    (sw : Option Nat) (tag : Tag) (as : List Attribute) : Prop where
  out : st'.out = st.out ++ (serSw sw ++ (serTag (tagFlags (!as.isEmpty) hasContent) tag ++
    (if as.isEmpty then [] else serAttrs as ++ [0x01])))
  tp : st'.tagPage = swPage sw st.tagPage
  ap : ∀ ctx, st'.attrPage = (evAttrs ctx st.attrPage as).2
  tbl : TblExt c st st'
  tag : TagOk c st'.strtbl st.tagPage nm sw tag
  refs : ∀ off ∈ refsAttrs as, ∃ e ∈ st'.strtbl, e.offset = off
  wf : ∀ ctx, Compat c st'.strtbl ctx → langOk c.lang = true → opqsAttrs as = [] →
    wfAttrs ctx st.attrPage as = true
  noopq : noTypedAttr c.lang.id = true → opqsAttrs as = []
  attrsView : ∀ ctx : Ctx, Rd c st'.strtbl ctx → (evAttrs ctx st.attrPage as).1.map attrView = src

/-- The attributes a reader is expected to report: all of them, or none for a language without
    attribute table. -/
def srcAttrsView (c : WCfg) (attrs : List Attr) : List (Bytes × Bytes) :=
  if c.lang.attrs.isSome then attrs.map srcAttrView else []

/-- The XML name a reader gives a tag is the source name. -/
theorem tagOk_name (c : WCfg) (tbl) (tp : Nat) (nm) (sw tag) (h : TagOk c tbl tp nm sw tag)
    (ctx : Ctx) (hr : Rd c tbl ctx) (hnf : nulFree nm = true) :
    (tagName ctx (swPage sw tp) tag).1.xmlName = nm := by
  cases h with
  | tok tags r ht hrm hn =>
    have hrange := tagRange r (langOk_tags hr.ok ht hrm)
    rw [swPage_swFor, Nat.mod_eq_of_lt hrange.2.2]
    have ht' : ctx.lang.tags = some tags := by rw [hr.lang]; exact ht
    have hs : (decTag tags r.page r.token).map (·.name) = some r.name := by
      have := hr.ts
      simp only [tagSemOk, ht, List.all_eq_true, Bool.and_eq_true, beq_iff_eq] at this
      exact (this r hrm).2
    simp only [tagName, tagRow, ht']
    have : List.find? (fun x => x.token == r.token && x.page == r.page) tags = decTag tags r.page r.token := rfl
    rw [this]
    cases hd : decTag tags r.page r.token with
    | none => rw [hd] at hs; cases hs
    | some d =>
      rw [hd] at hs
      simp only [Option.map_some, Option.some.injEq] at hs
      simp only [Name.xmlName, hs, hn]
  | lit off ho =>
    obtain ⟨e, he, rfl, rfl⟩ := ho
    simp only [tagName, Name.xmlName]
    exact hr.res e he hnf

theorem nameOver_nulFree (c : WCfg) (name : Name) (hn : nameOver c.lang name = true) (hts : tagSemOk c.lang = true) :
    nulFree name.cName = true := by
  cases name with
  | literal s => exact nulFree_cstrOf s
  | token r =>
    simp only [nameOver] at hn
    cases ht : c.lang.tags with
    | none => simp [ht] at hn
    | some tags =>
      simp only [ht, List.contains_iff_mem] at hn
      simp only [tagSemOk, ht, List.all_eq_true, Bool.and_eq_true] at hts
      exact (hts r hn).1

/-- The name a reader gives the tag written for a node: the name of the FIRST row with the page and
    token of the row `wbxml_encode_tag` found (its alias, where the table has aliases: ActiveSync), or
    the node's own name for a literal tag. -/
def nameView (l : Lang) (found : Option TagRow) (nm : Bytes) : Bytes :=
  match found with
  | some r =>
    match l.tags with
    | some tags =>
      match decTag tags r.page r.token with
      | some d => d.name
      | none => nm
    | none => nm
  | none => nm

theorem TagOk.lit_inv {c : WCfg} {tbl : List StrEntry} {tp : Nat} {nm : Bytes} {sw : Option Nat} {off : Nat}
    (h : TagOk c tbl tp nm sw (.lit off)) : ∃ e ∈ tbl, e.offset = off ∧ e.str = nm := by
  generalize ht : Tag.lit off = tag at h
  cases h with
  | tok tags r _ _ _ => cases ht
  | lit off' ho => injection ht with ht; subst ht; exact ho

theorem foundOf_token' (c : WCfg) (r0 : TagRow) (st : WSt) : foundOf c (.token r0) st = some r0 := rfl

theorem tagLink_name (c : WCfg) (name : Name) (st : WSt) (tbl) (sw tag)
    (hok : TagOk c tbl st.tagPage name.cName sw tag) (hlink : TagLink c name st sw tag)
    (hn : nameOver c.lang name = true) (ctx : Ctx) (hlang : ctx.lang = c.lang) (hl : langOk c.lang = true)
    (hres : Resolves ctx.tbl tbl) :
    (tagName ctx (swPage sw st.tagPage) tag).1.xmlName = nameView c.lang (foundOf c name st) name.cName := by
  unfold TagLink at hlink
  cases hf : foundOf c name st with
  | some r =>
    rw [hf] at hlink
    obtain ⟨rfl, rfl⟩ := hlink
    obtain ⟨tags, ht, hm⟩ := foundOf_mem c name st hn r hf
    have hrange := tagRange r (langOk_tags hl ht hm)
    rw [swPage_swFor, Nat.mod_eq_of_lt hrange.2.2]
    have ht' : ctx.lang.tags = some tags := by rw [hlang]; exact ht
    simp only [tagName, tagRow, ht', nameView, ht]
    have : List.find? (fun x => x.token == r.token && x.page == r.page) tags = decTag tags r.page r.token := rfl
    rw [this]
    cases hd : decTag tags r.page r.token with
    | none =>
      have := List.find?_eq_none.mp hd r hm
      simp at this
    | some d => rfl
  | none =>
    rw [hf] at hlink
    obtain ⟨rfl, off, rfl⟩ := hlink
    have hnf : nulFree name.cName = true := by
      cases name with
      | token r0 => rw [foundOf_token'] at hf; cases hf
      | literal s => exact nulFree_cstrOf s
    obtain ⟨e, he, rfl, hstr⟩ := hok.lit_inv
    simp only [tagName, Name.xmlName, nameView]
    rw [← hstr]
    exact hres e he (by rw [hstr]; exact hnf)

/-- **The `Name` a reader gives the tag written for a node** — representation included: the token
    name of the FIRST row with the page and token of the row `wbxml_encode_tag` found (C08's
    `decTag`: the row itself, except for the second of two rows sharing a token), or the literal
    with the node's own name when no row was found. `nameView` is its XML name. -/
def exactName (l : Lang) (found : Option TagRow) (nm : Bytes) : Name :=
  match found with
  | some r =>
    match l.tags with
    | some tags =>
      match decTag tags r.page r.token with
      | some d => .token d
      | none => .literal nm
    | none => .literal nm
  | none => .literal nm

theorem exactName_xmlName (l : Lang) (found : Option TagRow) (nm : Bytes) :
    (exactName l found nm).xmlName = nameView l found nm := by
  unfold exactName nameView
  cases found with
  | none => rfl
  | some r =>
    cases l.tags with
    | none => rfl
    | some tags =>
      simp only
      cases decTag tags r.page r.token <;> rfl

/-- `tagLink_name` with the representation: the reader's `Name` for the tag written IS
    `exactName`. -/
theorem tagLink_exact (c : WCfg) (name : Name) (st : WSt) (tbl) (sw tag)
    (hok : TagOk c tbl st.tagPage name.cName sw tag) (hlink : TagLink c name st sw tag)
    (hn : nameOver c.lang name = true) (ctx : Ctx) (hlang : ctx.lang = c.lang) (hl : langOk c.lang = true)
    (hres : Resolves ctx.tbl tbl) :
    (tagName ctx (swPage sw st.tagPage) tag).1 = exactName c.lang (foundOf c name st) name.cName := by
  unfold TagLink at hlink
  cases hf : foundOf c name st with
  | some r =>
    rw [hf] at hlink
    obtain ⟨rfl, rfl⟩ := hlink
    obtain ⟨tags, ht, hm⟩ := foundOf_mem c name st hn r hf
    have hrange := tagRange r (langOk_tags hl ht hm)
    rw [swPage_swFor, Nat.mod_eq_of_lt hrange.2.2]
    have ht' : ctx.lang.tags = some tags := by rw [hlang]; exact ht
    simp only [tagName, tagRow, ht', exactName, ht]
    have : List.find? (fun x => x.token == r.token && x.page == r.page) tags = decTag tags r.page r.token := rfl
    rw [this]
    cases hd : decTag tags r.page r.token with
    | none =>
      have := List.find?_eq_none.mp hd r hm
      simp at this
    | some d => rfl
  | none =>
    rw [hf] at hlink
    obtain ⟨rfl, off, rfl⟩ := hlink
    have hnf : nulFree name.cName = true := by
      cases name with
      | token r0 => rw [foundOf_token'] at hf; cases hf
      | literal s => exact nulFree_cstrOf s
    obtain ⟨e, he, rfl, hstr⟩ := hok.lit_inv
    simp only [tagName, exactName]
    rw [← hstr]
    exact congrArg Name.literal (hres e he (by rw [hstr]; exact hnf))

theorem encElementStartW_spec' (c : WCfg) (name : Name) (attrs : List Attr) (hasContent : Bool) (st st' : WSt)
    (hl : langOk c.lang = true) (hn : nameOver c.lang name = true) (ha : attrs.all (attrOver c.lang) = true)
    (h : encElementStartW c (some attrs) name attrs hasContent st = .ok st') :
    ∃ sw tag as, StartRes c name.cName (srcAttrsView c attrs) st st' hasContent sw tag as ∧
      TagLink c name st sw tag ∧
      (∀ ctx, Compat c st'.strtbl ctx → langOk c.lang = true → typedLangOk c.lang = true →
        attrs.all (dtAttrOk c.lang) = true → attrs.all (iconAttrOk c.lang (some attrs)) = true →
        wfAttrs ctx st.attrPage as = true) ∧
      (∀ ctx : Ctx, RdT c st'.strtbl ctx → (c.lang.id == 1901) = false →
        (evAttrs ctx st.attrPage as).1.map attrView = vAttrs c attrs) ∧
      (∀ ctx : Ctx, RdT c st'.strtbl ctx → (c.lang.id == 1901) = false →
        (evAttrs ctx st.attrPage as).1 = xAttrs c attrs) := by
  unfold encElementStartW at h
  simp only at h
  cases ht : encTagW c name hasContent (!attrs.isEmpty && c.lang.attrs.isSome) st with
  | error e =>
    have h' : (encTagW c name hasContent (!attrs.isEmpty && c.lang.attrs.isSome) st >>= fun st => do
      let st ← encAttrsW c (some attrs) attrs st
      pure (if (!attrs.isEmpty && c.lang.attrs.isSome) = true then st.emit [0x01] else st)) = .ok st' := h
    rw [ht] at h'; cases h'
  | ok st1 =>
    have h' : (encTagW c name hasContent (!attrs.isEmpty && c.lang.attrs.isSome) st >>= fun st => do
      let st ← encAttrsW c (some attrs) attrs st
      pure (if (!attrs.isEmpty && c.lang.attrs.isSome) = true then st.emit [0x01] else st)) = .ok st' := h
    rw [ht] at h'
    have h2 : (encAttrsW c (some attrs) attrs st1 >>= fun st =>
      pure (if (!attrs.isEmpty && c.lang.attrs.isSome) = true then st.emit [0x01] else st)) = .ok st' := h'
    obtain ⟨sw, tag, hout, htp, hap, hcur, htbl, htag, hlink⟩ := encTagW_spec' c name hasContent _ st st1 hl hn ht
    cases hat : c.lang.attrs with
    | none =>
      rw [encAttrsW_noattrs c _ hat] at h2
      simp only [hat, Option.isSome_none, Bool.and_false, Bool.false_eq_true, ↓reduceIte] at h2 hout
      have h3 : (Except.ok st1 : Except Err WSt) = .ok st' := h2
      injection h3 with h3; subst h3
      refine ⟨sw, tag, [], ⟨?_, htp, fun _ => hap, htbl, htag, (by intro o ho; cases ho), fun _ _ _ _ => rfl, fun _ => rfl,
        fun _ _ => by simp [srcAttrsView, hat, evAttrs_nil]⟩, hlink, fun _ _ _ _ _ _ => rfl,
        fun _ _ _ => by simp [vAttrs, hat, evAttrs_nil], fun _ _ _ => by simp [xAttrs, hat, evAttrs_nil]⟩
      simpa using hout
    | some atbl =>
      cases ha2 : encAttrsW c (some attrs) attrs st1 with
      | error e => rw [ha2] at h2; cases h2
      | ok st2 =>
        rw [ha2] at h2
        have h3 : (Except.ok (if (!attrs.isEmpty && c.lang.attrs.isSome) = true then st2.emit [0x01] else st2) :
          Except Err WSt) = .ok st' := h2
        injection h3 with h3
        obtain ⟨as, hlen, has, hasT, hasX⟩ := encAttrsW_spec' c (some attrs) atbl hat attrs st1 st2 ha ha2
        have hemp : as.isEmpty = attrs.isEmpty := by
          cases as <;> cases attrs <;> simp_all
        simp only [hat, Option.isSome_some, Bool.and_true] at h3 hout
        refine ⟨sw, tag, as, ⟨?_, ?_, ?_, ?_, ?_, ?_, ?_, has.noopq, ?_⟩, hlink, ?_, ?_, ?_⟩
        rotate_right 3
        · have : st'.strtbl = st2.strtbl := by rw [← h3]; split <;> rfl
          rw [this, ← hap]; exact has.wfT
        · have : st'.strtbl = st2.strtbl := by rw [← h3]; split <;> rfl
          intro ctx hr hno
          rw [this] at hr
          have := hasT ctx hr hno
          rw [hap] at this
          simp only [vAttrs, hat, Option.isSome_some, ↓reduceIte]
          exact this
        · have : st'.strtbl = st2.strtbl := by rw [← h3]; split <;> rfl
          intro ctx hr hno
          rw [this] at hr
          have := hasX ctx hr hno
          rw [hap] at this
          simp only [xAttrs, hat, Option.isSome_some, ↓reduceIte]
          exact this
        · rw [← h3, hemp]
          cases hae : attrs.isEmpty with
          | true =>
            have : as = [] := by cases as with | nil => rfl | cons _ _ => simp [hae] at hemp
            subst this
            simp only [Bool.not_true, Bool.false_eq_true, ↓reduceIte]
            rw [has.out, hout, hae]
            simp [serAttrs]
          | false =>
            simp only [Bool.not_false, ↓reduceIte, emit_out, Bool.false_eq_true]
            rw [has.out, hout, hae]
            simp
        · rw [← h3]; split <;> (first | simp only [emit_tagPage] | skip) <;> rw [has.tp, htp]
        · intro ctx; rw [← h3]; split <;> (first | simp only [emit_attrPage] | skip) <;> rw [has.ap ctx, hap]
        · have t3 : TblExt c st2 st' := by
            rw [← h3]; split
            · exact TblExt.of_eq rfl rfl
            · exact TblExt.refl _ _
          exact htbl.trans (has.tbl.trans t3)
        · have : st'.strtbl = st2.strtbl := by rw [← h3]; split <;> rfl
          rw [this]; exact htag.mono has.tbl.pre
        · have : st'.strtbl = st2.strtbl := by rw [← h3]; split <;> rfl
          rw [this]; exact has.refs
        · have : st'.strtbl = st2.strtbl := by rw [← h3]; split <;> rfl
          rw [this, ← hap]; exact has.wf
        · have : st'.strtbl = st2.strtbl := by rw [← h3]; split <;> rfl
          intro ctx hr
          rw [this] at hr
          have := has.view ctx hr
          rw [hap] at this
          simp only [srcAttrsView, hat, Option.isSome_some, ↓reduceIte]
          exact this

theorem encElementStartW_spec (c : WCfg) (name : Name) (attrs : List Attr) (hasContent : Bool) (st st' : WSt)
    (hl : langOk c.lang = true) (hn : nameOver c.lang name = true) (ha : attrs.all (attrOver c.lang) = true)
    (h : encElementStartW c (some attrs) name attrs hasContent st = .ok st') :
    ∃ sw tag as, StartRes c name.cName (srcAttrsView c attrs) st st' hasContent sw tag as := by
  obtain ⟨sw, tag, as, hs, _⟩ := encElementStartW_spec' c name attrs hasContent st st' hl hn ha h
  exact ⟨sw, tag, as, hs⟩

end Wbxml.Lemmas.EncW
