/-
  C18 lemmas, part 2: operations on the ghost shape (replace the children chain of one node,
  append to / replace the end of / remove from a sibling chain) and the generic transport of a
  local predicate through them.
-/
import Wbxml.Lemmas.TreeHeapBasic
set_option linter.unusedSimpArgs false
set_option linter.unusedVariables false
namespace Wbxml.Model.TreeHeap
open Wbxml Wbxml.Model

namespace BT

/-- The children chain of node `P` (empty when `P` does not occur). -/
def kidsOf (P : Nat) : BT → BT
  | nil => nil
  | node i ch nx => if i = P then ch else if P ∈ ch.ids then kidsOf P ch else kidsOf P nx

/-- Replace the children chain of node `P` by `k`. -/
def setKids (P : Nat) (k : BT) : BT → BT
  | nil => nil
  | node i ch nx => if i = P then node i k nx else node i (setKids P k ch) (setKids P k nx)

@[simp] theorem setKids_rid (P : Nat) (k : BT) (t : BT) : (setKids P k t).rid = t.rid := by
  cases t with
  | nil => rfl
  | node i ch nx => simp only [setKids]; split <;> rfl

theorem setKids_not_mem (P : Nat) (k : BT) : ∀ t : BT, P ∉ t.ids → setKids P k t = t
  | nil, _ => rfl
  | node i ch nx, h => by
    simp only [ids_node, List.mem_cons, List.mem_append, not_or] at h
    have h1 : ¬ i = P := fun e => h.1 e.symm
    simp only [setKids, h1, if_false, setKids_not_mem P k ch h.2.1, setKids_not_mem P k nx h.2.2]

theorem kidsOf_not_mem (P : Nat) : ∀ t : BT, P ∉ t.ids → kidsOf P t = nil
  | nil, _ => rfl
  | node i ch nx, h => by
    simp only [ids_node, List.mem_cons, List.mem_append, not_or] at h
    have h1 : ¬ i = P := fun e => h.1 e.symm
    simp only [kidsOf, h1, if_false, h.2.1, kidsOf_not_mem P nx h.2.2]

/-- The children of `P` are strictly inside the shape. -/
theorem kidsOf_sub (P : Nat) : ∀ (t : BT) (j : Nat), j ∈ (kidsOf P t).ids →
    ∃ i ch nx, t = node i ch nx ∧ (j ∈ ch.ids ∨ j ∈ nx.ids)
  | nil, j, h => by simp [kidsOf] at h
  | node i ch nx, j, h => by
    refine ⟨i, ch, nx, rfl, ?_⟩
    simp only [kidsOf] at h
    split at h
    · exact Or.inl h
    · split at h
      · obtain ⟨i', ch', nx', e, hj⟩ := kidsOf_sub P ch j h
        subst e
        left; simp only [ids_node, List.mem_cons, List.mem_append]
        right; exact hj
      · obtain ⟨i', ch', nx', e, hj⟩ := kidsOf_sub P nx j h
        subst e
        right; simp only [ids_node, List.mem_cons, List.mem_append]
        right; exact hj

theorem kidsOf_mem (P : Nat) (t : BT) (j : Nat) (h : j ∈ (kidsOf P t).ids) : j ∈ t.ids := by
  obtain ⟨i, ch, nx, e, hj⟩ := kidsOf_sub P t j h
  subst e
  simp only [ids_node, List.mem_cons, List.mem_append]
  exact Or.inr hj

/-- The children chain of `P` inside a shape without repetitions has no repetitions and does not
    contain `P`. -/
theorem kidsOf_nodup (P : Nat) : ∀ t : BT, t.ids.Nodup → (kidsOf P t).ids.Nodup ∧ P ∉ (kidsOf P t).ids
  | nil, _ => by simp [kidsOf]
  | node i ch nx, h => by
    simp only [ids_node, List.nodup_cons, List.mem_append, not_or, List.nodup_append] at h
    obtain ⟨⟨hi1, hi2⟩, hc, hn, hd⟩ := h
    simp only [kidsOf]
    split
    · next e => subst e; exact ⟨hc, hi1⟩
    · split
      · exact kidsOf_nodup P ch hc
      · exact kidsOf_nodup P nx hn

theorem kidsOf_setKids (P : Nat) (k : BT) : ∀ t : BT, P ∈ t.ids → t.ids.Nodup → kidsOf P (setKids P k t) = k
  | nil, h, _ => by simp at h
  | node i ch nx, h, hnd => by
    simp only [ids_node, List.nodup_cons, List.mem_append, not_or, List.nodup_append] at hnd
    obtain ⟨⟨hi1, hi2⟩, hc, hn, hd⟩ := hnd
    simp only [ids_node, List.mem_cons, List.mem_append] at h
    by_cases e : i = P
    · simp [setKids, kidsOf, e]
    · have e' : ¬ P = i := fun x => e x.symm
      simp only [e', false_or] at h
      simp only [setKids, e, if_false, kidsOf]
      by_cases hm : P ∈ ch.ids
      · have : P ∈ (setKids P k ch).ids ∨ True := Or.inr trivial
        -- membership of P is kept by setKids (P itself is never removed)
        have hP : P ∈ (setKids P k ch).ids := by
          clear this
          revert hm
          generalize ch = c
          intro hm
          induction c with
          | nil => simp at hm
          | node a c1 c2 ih1 ih2 =>
            simp only [ids_node, List.mem_cons, List.mem_append] at hm
            simp only [setKids]
            split
            · next ea => simp [ea]
            · simp only [ids_node, List.mem_cons, List.mem_append]
              rcases hm with hm | hm | hm
              · left; exact hm
              · right; left; exact ih1 hm
              · right; right; exact ih2 hm
        simp only [hP, if_true]
        exact kidsOf_setKids P k ch hm hc
      · have hnx : P ∈ nx.ids := by rcases h with h | h; exact absurd h hm; exact h
        rw [setKids_not_mem P k ch hm]
        simp only [hm, if_false]
        exact kidsOf_setKids P k nx hnx hn

end BT

/-- Transport of a local predicate through the replacement of the children chain of `P`. -/
theorem Loc.setKids {A B : Option Nat → Option Nat → Nat → Option Nat → Option Nat → Prop}
    (P : Nat) (k : BT) :
    ∀ (t : BT) (par prv : Option Nat), t.ids.Nodup →
      (∀ i, i ∈ t.ids → i ≠ P → i ∉ (BT.kidsOf P t).ids → ∀ par prv f n, A par prv i f n → B par prv i f n) →
      (∀ par prv f n, A par prv P f n → B par prv P k.rid n) →
      Loc B (some P) none k →
      Loc A par prv t → Loc B par prv (BT.setKids P k t)
  | .nil, _, _, _, _, _, _, _ => trivial
  | .node i ch nx, par, prv, hnd, hout, hP, hk, ⟨ha, hc, hn⟩ => by
    simp only [BT.ids_node, List.nodup_cons, List.mem_append, not_or, List.nodup_append] at hnd
    obtain ⟨⟨hi1, hi2⟩, hcn, hnn, hd⟩ := hnd
    by_cases e : i = P
    · subst e
      simp only [BT.setKids, if_true]
      refine ⟨hP _ _ _ _ ha, hk, ?_⟩
      apply Loc.mono nx _ _ _ hn
      intro j hj
      apply hout j (by simp [hj])
      · intro ej; subst ej; exact hi2 hj
      · simp only [BT.kidsOf, if_true]
        intro hjc; exact hd j hjc j hj rfl
    · simp only [BT.setKids, e, if_false]
      refine ⟨?_, ?_, ?_⟩
      · simp only [BT.setKids_rid]
        apply hout i (by simp) e
        intro hk'
        obtain ⟨i', ch', nx', e', hj⟩ := BT.kidsOf_sub P _ i hk'
        injection e' with e1 e2 e3
        subst e2; subst e3
        rcases hj with hj | hj
        · exact hi1 hj
        · exact hi2 hj
        exact ha
      · apply Loc.setKids P k ch _ _ hcn _ hP hk hc
        intro j hj hjP hjk
        apply hout j (by simp [hj]) hjP
        simp only [BT.kidsOf, e, if_false]
        split
        · exact hjk
        · intro hx
          exact hd j hj j (BT.kidsOf_mem P nx j hx) rfl
      · apply Loc.setKids P k nx _ _ hnn _ hP hk hn
        intro j hj hjP hjk
        apply hout j (by simp [hj]) hjP
        simp only [BT.kidsOf, e, if_false]
        split
        · intro hx
          exact hd j (BT.kidsOf_mem P ch j hx) j hj rfl
        · exact hjk

namespace BT

/-! ### Membership and repetition-freeness after `setKids` -/

theorem mem_setKids (P : Nat) (k : BT) : ∀ (t : BT) (j : Nat), t.ids.Nodup →
    (j ∈ (setKids P k t).ids ↔ (j ∈ t.ids ∧ j ∉ (kidsOf P t).ids) ∨ (P ∈ t.ids ∧ j ∈ k.ids))
  | nil, j, _ => by simp [setKids]
  | node i ch nx, j, hnd => by
    simp only [ids_node, List.nodup_cons, List.mem_append, not_or, List.nodup_append] at hnd
    obtain ⟨⟨hi1, hi2⟩, hcn, hnn, hd⟩ := hnd
    by_cases e : i = P
    · subst e
      simp only [setKids, kidsOf, if_true, ids_node, List.mem_cons, List.mem_append, true_or, true_and]
      constructor
      · rintro (h | h | h)
        · left; exact ⟨Or.inl h, by subst h; exact hi1⟩
        · right; exact h
        · left; exact ⟨Or.inr (Or.inr h), fun hc => hd j hc j h rfl⟩
      · rintro (⟨h | h | h, hn⟩ | h)
        · left; exact h
        · exact absurd h hn
        · right; right; exact h
        · right; left; exact h
    · have e' : ¬ P = i := fun x => e x.symm
      simp only [setKids, kidsOf, e, if_false, ids_node, List.mem_cons, List.mem_append, e', false_or]
      rw [mem_setKids P k ch j hcn, mem_setKids P k nx j hnn]
      by_cases hm : P ∈ ch.ids
      · have hnx : P ∉ nx.ids := fun h => hd P hm P h rfl
        simp only [hm, if_true, true_and, hnx, false_and, or_false, kidsOf_not_mem P nx hnx, ids_nil,
          List.not_mem_nil, not_false_eq_true, and_true, true_or]
        constructor
        · rintro (h | (⟨h, hn⟩ | h) | h)
          · left; refine ⟨Or.inl h, ?_⟩
            subst h; intro hx; exact hi1 (kidsOf_mem P ch _ hx)
          · left; exact ⟨Or.inr (Or.inl h), hn⟩
          · right; exact h
          · left; refine ⟨Or.inr (Or.inr h), ?_⟩
            intro hx; exact hd j (kidsOf_mem P ch _ hx) j h rfl
        · rintro (⟨h | h | h, hn⟩ | h)
          · left; exact h
          · right; left; left; exact ⟨h, hn⟩
          · right; right; exact h
          · right; left; right; exact h
      · simp only [hm, if_false, false_and, or_false, kidsOf_not_mem P ch hm, ids_nil, List.not_mem_nil,
          not_false_eq_true, and_true, false_or]
        constructor
        · rintro (h | h | ⟨h, hn⟩ | h)
          · left; refine ⟨Or.inl h, ?_⟩
            subst h; intro hx; exact hi2 (kidsOf_mem P nx _ hx)
          · left; refine ⟨Or.inr (Or.inl h), ?_⟩
            intro hx; exact hd j h j (kidsOf_mem P nx _ hx) rfl
          · left; exact ⟨Or.inr (Or.inr h), hn⟩
          · right; exact h
        · rintro (⟨h | h | h, hn⟩ | h)
          · left; exact h
          · right; left; exact h
          · right; right; left; exact ⟨h, hn⟩
          · right; right; right; exact h

theorem nodup_setKids (P : Nat) (k : BT) : ∀ t : BT, t.ids.Nodup → k.ids.Nodup →
    (∀ j, j ∈ k.ids → j ∈ t.ids → j ∈ (kidsOf P t).ids) → (setKids P k t).ids.Nodup
  | nil, _, _, _ => by simp [setKids]
  | node i ch nx, hnd, hk, hdis => by
    have hnd0 := hnd
    simp only [ids_node, List.nodup_cons, List.mem_append, not_or, List.nodup_append] at hnd
    obtain ⟨⟨hi1, hi2⟩, hcn, hnn, hd⟩ := hnd
    by_cases e : i = P
    · subst e
      simp only [setKids, if_true, ids_node, List.nodup_cons, List.mem_append, not_or, List.nodup_append]
      simp only [kidsOf, if_true] at hdis
      refine ⟨⟨?_, hi2⟩, hk, hnn, ?_⟩
      · intro h; exact hi1 (hdis i h (by simp))
      · intro a ha b hb eab; subst eab
        exact hd a (hdis a ha (by simp [hb])) a hb rfl
    · simp only [setKids, e, if_false, ids_node, List.nodup_cons, List.mem_append, not_or, List.nodup_append]
      simp only [kidsOf, e, if_false] at hdis
      have hkc : ∀ j, j ∈ k.ids → j ∈ ch.ids → j ∈ (kidsOf P ch).ids := by
        intro j hj hjc
        have := hdis j hj (by simp [hjc])
        split at this
        · exact this
        · exact absurd (kidsOf_mem P nx j this) (fun hx => hd j hjc j hx rfl)
      have hkn : ∀ j, j ∈ k.ids → j ∈ nx.ids → j ∈ (kidsOf P nx).ids := by
        intro j hj hjn
        have := hdis j hj (by simp [hjn])
        split at this
        · exact absurd (kidsOf_mem P ch j this) (fun hx => hd j hx j hjn rfl)
        · exact this
      refine ⟨⟨?_, ?_⟩, nodup_setKids P k ch hcn hk hkc, nodup_setKids P k nx hnn hk hkn, ?_⟩
      · rw [mem_setKids P k ch i hcn]
        rintro (⟨h, _⟩ | ⟨hPc, h⟩)
        · exact hi1 h
        · have := hdis i h (by simp)
          simp only [hPc, if_true] at this
          exact hi1 (kidsOf_mem P ch i this)
      · rw [mem_setKids P k nx i hnn]
        rintro (⟨h, _⟩ | ⟨hPn, h⟩)
        · exact hi2 h
        · have := hdis i h (by simp)
          have hPc : P ∉ ch.ids := fun hx => hd P hx P hPn rfl
          simp only [hPc, if_false] at this
          exact hi2 (kidsOf_mem P nx i this)
      · intro a ha b hb eab; subst eab
        rw [mem_setKids P k ch a hcn] at ha
        rw [mem_setKids P k nx a hnn] at hb
        rcases ha with ⟨ha, _⟩ | ⟨hPc, ha⟩ <;> rcases hb with ⟨hb, _⟩ | ⟨hPn, hb⟩
        · exact hd a ha a hb rfl
        · -- a ∈ ch.ids, a ∈ k.ids, P ∈ nx.ids: a must be among the children of P, which are in nx
          have := hdis a hb (by simp [ha])
          have hPc : P ∉ ch.ids := fun h => hd P h P hPn rfl
          simp only [hPc, if_false] at this
          exact hd a ha a (kidsOf_mem P nx a this) rfl
        · have := hdis a ha (by simp [hb])
          simp only [hPc, if_true] at this
          exact hd a (kidsOf_mem P ch a this) a hb rfl
        · exact hd P hPc P hPn rfl

/-! ### Sibling chains -/

/-- Append a chain at the end of a sibling chain. -/
def snoc : BT → BT → BT
  | nil, s => s
  | node i ch nx, s => node i ch (snoc nx s)

/-- The last node of a sibling chain. -/
def lastId : BT → Option Nat
  | nil => none
  | node i _ nil => some i
  | node _ _ (node j c n) => lastId (node j c n)

/-- The `prev` pointer of the last node of a sibling chain whose head has `prev = prv`. -/
def lastPrev : Option Nat → BT → Option Nat
  | prv, nil => prv
  | prv, node _ _ nil => prv
  | _, node i _ (node j c n) => lastPrev (some i) (node j c n)

/-- Replace the last node of a sibling chain by the childless node `n`. -/
def replLast (n : Nat) : BT → BT
  | nil => nil
  | node _ _ nil => node n nil nil
  | node i ch (node j c m) => node i ch (replLast n (node j c m))

/-- Remove the top-level node `n` (with its sub-tree) from a sibling chain. -/
def chainRemove (n : Nat) : BT → BT
  | nil => nil
  | node i ch nx => if i = n then nx else node i ch (chainRemove n nx)

/-- The top-level addresses of a sibling chain. -/
def tops : BT → List Nat
  | nil => []
  | node i _ nx => i :: tops nx

/-- The sub-tree below the top-level node `n` of a sibling chain. -/
def chainKids (n : Nat) : BT → BT
  | nil => nil
  | node i ch nx => if i = n then ch else chainKids n nx

theorem tops_sub : ∀ (t : BT) (j : Nat), j ∈ t.tops → j ∈ t.ids
  | nil, j, h => by simp [tops] at h
  | node i ch nx, j, h => by
    simp only [tops, List.mem_cons] at h
    simp only [ids_node, List.mem_cons, List.mem_append]
    rcases h with h | h
    · exact Or.inl h
    · exact Or.inr (Or.inr (tops_sub nx j h))

theorem lastId_mem : ∀ (t : BT) (l : Nat), t.lastId = some l → l ∈ t.tops
  | nil, l, h => by simp [lastId] at h
  | node i ch nil, l, h => by simp [lastId] at h; simp [tops, h]
  | node i ch (node j c n), l, h => by
    simp only [lastId] at h
    simp only [tops, List.mem_cons]
    right
    have := lastId_mem (node j c n) l h
    simpa [tops] using this

theorem lastId_some : ∀ (t : BT), t ≠ nil → ∃ l, t.lastId = some l
  | nil, h => absurd rfl h
  | node i ch nil, _ => ⟨i, rfl⟩
  | node i ch (node j c n), _ => by
    obtain ⟨l, hl⟩ := lastId_some (node j c n) (by simp)
    exact ⟨l, by simp [lastId, hl]⟩

@[simp] theorem snoc_nil (t : BT) : snoc t nil = t := by
  induction t with
  | nil => rfl
  | node i ch nx _ ih => simp [snoc, ih]

theorem snoc_rid (t s : BT) (h : t ≠ nil) : (snoc t s).rid = t.rid := by
  cases t with
  | nil => exact absurd rfl h
  | node i ch nx => rfl

theorem snoc_ids : ∀ (t s : BT) (j : Nat), j ∈ (snoc t s).ids ↔ j ∈ t.ids ∨ j ∈ s.ids
  | nil, s, j => by simp [snoc]
  | node i ch nx, s, j => by
    simp only [snoc, ids_node, List.mem_cons, List.mem_append, snoc_ids nx s j]
    constructor
    · rintro (h | h | h | h)
      · exact Or.inl (Or.inl h)
      · exact Or.inl (Or.inr (Or.inl h))
      · exact Or.inl (Or.inr (Or.inr h))
      · exact Or.inr h
    · rintro ((h | h | h) | h)
      · exact Or.inl h
      · exact Or.inr (Or.inl h)
      · exact Or.inr (Or.inr (Or.inl h))
      · exact Or.inr (Or.inr (Or.inr h))

theorem snoc_nodup : ∀ (t s : BT), t.ids.Nodup → s.ids.Nodup → (∀ j, j ∈ t.ids → j ∉ s.ids) →
    (snoc t s).ids.Nodup
  | nil, s, _, hs, _ => by simpa [snoc] using hs
  | node i ch nx, s, ht, hs, hd => by
    simp only [ids_node, List.nodup_cons, List.mem_append, not_or, List.nodup_append] at ht
    obtain ⟨⟨hi1, hi2⟩, hcn, hnn, hdd⟩ := ht
    simp only [snoc, ids_node, List.nodup_cons, List.mem_append, not_or, List.nodup_append, snoc_ids]
    refine ⟨⟨hi1, hi2, hd i (by simp)⟩, hcn, snoc_nodup nx s hnn hs (fun j hj => hd j (by simp [hj])), ?_⟩
    · intro a ha b hb eab; subst eab
      rcases hb with hb | hb
      · exact hdd a ha a hb rfl
      · exact hd a (by simp [ha]) hb

end BT

end Wbxml.Model.TreeHeap
