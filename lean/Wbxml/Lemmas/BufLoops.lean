/-
  C19 — the loops that run through the bounds-checked accessors: `shrink_blanks`, `strip_blanks`,
  `no_spaces`, `remove_trailing_zeros`.  For each: the index loop of the model, run on a
  well-formed dynamic buffer denoting `c`, never exhausts its fuel, never leaves the allocation,
  never reaches the out-of-contract `delete`, and ends on a well-formed buffer denoting the
  reference result.
-/
import Wbxml.Lemmas.BufOps
set_option linter.unusedSimpArgs false
namespace Wbxml.Model
open Wbxml Wbxml.Spec.Seq

/-! ### list facts -/

theorem drop_cons_of_lt {c : Bytes} {i : Nat} (h : i < c.length) : c.drop i = c[i] :: c.drop (i + 1) :=
  List.drop_eq_getElem_cons h

theorem takeWhile_len_add_dropWhile_len (p : UInt8 → Bool) (l : Bytes) :
    (l.takeWhile p).length + (l.dropWhile p).length = l.length := by
  have := congrArg List.length (List.takeWhile_append_dropWhile (p := p) (l := l))
  rw [List.length_append] at this
  exact this

theorem drop_takeWhile_len (p : UInt8 → Bool) (l : Bytes) : l.drop (l.takeWhile p).length = l.dropWhile p := by
  have := List.drop_left' (l₁ := l.takeWhile p) (l₂ := l.dropWhile p) rfl
  rwa [List.takeWhile_append_dropWhile] at this

theorem shrinkAux_true (xs : Bytes) :
    shrinkAux true xs = (xs.dropWhile ws).take 1 ++ shrinkAux false ((xs.dropWhile ws).drop 1) := by
  induction xs with
  | nil => simp [shrinkAux]
  | cons x xs ih =>
    by_cases hx : ws x = true
    · simp [shrinkAux, hx, ih, List.dropWhile]
    · have hx' : ws x = false := by simpa using hx
      simp [shrinkAux, hx', List.dropWhile]

namespace Buf

/-! ### the white-space scans -/

theorem scanWs_spec {b : Buf} {c : Bytes} (h : View b c) (fuel j : Nat) (hf : c.length - j < fuel) :
    scanWs b fuel j = .ok (j + ((c.drop j).takeWhile ws).length) := by
  induction fuel generalizing j with
  | zero => omega
  | succ f ih =>
    unfold scanWs
    rw [getChar_view h j]
    by_cases hj : j < c.length
    · rw [List.getElem?_eq_getElem hj, drop_cons_of_lt hj]
      simp only [isSpace_eq_ws]
      by_cases hw : ws c[j] = true
      · simp only [hw, if_true, List.takeWhile_cons_of_pos hw, List.length_cons]
        rw [ih (j + 1) (by omega)]
        congr 1; omega
      · simp [hw, List.takeWhile]
    · have h1 : c[j]? = none := List.getElem?_eq_none (by omega)
      have h2 : c.drop j = [] := List.drop_eq_nil_of_le (by omega)
      simp [h1, h2]

theorem stripScan_spec {b : Buf} {c : Bytes} (h : View b c) (fuel j : Nat) (hf : c.length - j < fuel) :
    stripScan b fuel j = .ok (j + ((c.drop j).takeWhile ws).length) := by
  induction fuel generalizing j with
  | zero => omega
  | succ f ih =>
    unfold stripScan
    rw [getChar_view h j]
    by_cases hj : j < c.length
    · rw [List.getElem?_eq_getElem hj, drop_cons_of_lt hj]
      have hle : j ≤ b.len := by rw [h.2]; omega
      simp only [isSpace_eq_ws, hle, decide_true, Bool.and_true]
      by_cases hw : ws c[j] = true
      · simp only [hw, if_true, List.takeWhile_cons_of_pos hw, List.length_cons]
        rw [ih (j + 1) (by omega)]
        congr 1; omega
      · simp [hw, List.takeWhile]
    · have h1 : c[j]? = none := List.getElem?_eq_none (by omega)
      have h2 : c.drop j = [] := List.drop_eq_nil_of_le (by omega)
      simp [h1, h2]

/-- Scanning backwards from the last index of `pre ++ [x] ++ sp` (`x` not white space, `sp` all
    white space) stops on `x`; in particular `end--` never wraps. -/
theorem backScan_spec {b : Buf} {c : Bytes} (h : View b c) (pre sp tl : Bytes) (x : UInt8)
    (hc : c = pre ++ [x] ++ sp ++ tl) (hx : ws x = false) (hsp : ∀ y ∈ sp, ws y = true)
    (fuel : Nat) (hf : sp.length + 1 ≤ fuel) :
    backScan b fuel (pre.length + sp.length) = .ok pre.length := by
  induction fuel generalizing sp tl with
  | zero => omega
  | succ f ih =>
    unfold backScan
    rw [getChar_view h]
    rcases List.eq_nil_or_concat sp with rfl | ⟨sp', y, hsp'⟩
    · have : c[pre.length]? = some x := by
        subst hc; simp
      simp only [List.length_nil, Nat.add_zero, this, isSpace_eq_ws, hx, Bool.false_eq_true, if_false]
    · rw [List.concat_eq_append] at hsp'
      subst hsp'
      have hy : ws y = true := hsp y (by simp)
      have hlen : pre.length + (sp' ++ [y]).length = (pre ++ [x] ++ sp').length := by simp <;> omega
      have : c[pre.length + (sp' ++ [y]).length]? = some y := by
        subst hc
        have e : pre ++ [x] ++ (sp' ++ [y]) ++ tl = (pre ++ [x] ++ sp') ++ y :: tl := by simp
        rw [e, hlen, List.getElem?_append_right (Nat.le_refl _)]
        simp
      simp only [this, isSpace_eq_ws, hy, if_true]
      have hne : ¬ pre.length + (sp' ++ [y]).length = 0 := by simp
      simp only [hne, if_false]
      have : pre.length + (sp' ++ [y]).length - 1 = pre.length + sp'.length := by simp <;> omega
      rw [this]
      exact ih sp' (y :: tl) (by subst hc; simp) (fun z hz => hsp z (by simp [hz])) (by simp at hf; omega)

/-! ### no_spaces -/

theorem noSpacesLoop_spec (fuel : Nat) : ∀ (b : Buf) (c : Bytes) (i : Nat), Rep b c → i ≤ c.length →
    c.length - i < fuel →
    ∃ b', noSpacesLoop fuel i b = .ok b' ∧ Rep b' (c.take i ++ (c.drop i).filter (fun x => !ws x)) := by
  induction fuel with
  | zero => intro b c i _ _ hf; omega
  | succ f ih =>
    intro b c i h hi hf
    unfold noSpacesLoop
    rw [h.len]
    by_cases hlt : i < c.length
    · simp only [hlt, if_true, getChar_view h.view i, List.getElem?_eq_getElem hlt, isSpace_eq_ws]
      rw [drop_cons_of_lt hlt]
      by_cases hw : ws c[i] = true
      · simp only [hw, if_true]
        obtain ⟨b1, hb1, hr1, _⟩ := delete_rep h i 1 hlt (by omega) (by omega)
        rw [hb1]
        simp only
        obtain ⟨b2, hb2, hr2⟩ := ih b1 _ i hr1 (by simp; omega) (by simp; omega)
        refine ⟨b2, hb2, ?_⟩
        have e1 : (c.take i ++ c.drop (i + 1)).take i = c.take i := by
          rw [List.take_left' (by simp; omega)]
        have e2 : (c.take i ++ c.drop (i + 1)).drop i = c.drop (i + 1) := by
          rw [List.drop_left' (by simp; omega)]
        rw [e1, e2] at hr2
        simpa [List.filter, hw] using hr2
      · have hw' : ws c[i] = false := by simpa using hw
        simp only [hw', Bool.false_eq_true, if_false]
        obtain ⟨b2, hb2, hr2⟩ := ih b c (i + 1) h (by omega) (by omega)
        refine ⟨b2, hb2, ?_⟩
        have tk : c.take (i + 1) = c.take i ++ [c[i]] := by
          rw [List.take_add_one, List.getElem?_eq_getElem hlt]; rfl
        have tgt : c.take i ++ List.filter (fun x => !ws x) (c[i] :: c.drop (i + 1))
            = c.take (i + 1) ++ List.filter (fun x => !ws x) (c.drop (i + 1)) := by
          rw [List.filter_cons_of_pos (by simp [hw']), tk]
          simp only [List.append_assoc, List.singleton_append]
        rw [tgt]; exact hr2
    · have hi' : i = c.length := by omega
      subst hi'
      simp only [Nat.lt_irrefl, if_false]
      exact ⟨b, rfl, by simpa using h⟩

theorem noSpaces_spec {b : Buf} {c : Bytes} (h : Rep b c) :
    ∃ b', b.noSpaces = .ok b' ∧ Rep b' (Spec.Seq.noSpaces c) := by
  obtain ⟨b', hb, hr⟩ := noSpacesLoop_spec (b.len + 1) b c 0 h (by omega) (by rw [h.len]; omega)
  exact ⟨b', by simpa [Buf.noSpaces, h.dyn] using hb, by simpa [Spec.Seq.noSpaces] using hr⟩

theorem noSpaces_static {b : Buf} (hs : b.isStatic = true) : b.noSpaces = .ok b := by
  simp [Buf.noSpaces, hs]

/-! ### remove_trailing_zeros -/

theorem rtz_concat (init : Bytes) (x : UInt8) :
    Spec.Seq.removeTrailingZeros (init ++ [x]) =
      if x = 0 then Spec.Seq.removeTrailingZeros init else init ++ [x] := by
  unfold Spec.Seq.removeTrailingZeros
  by_cases hx : x = 0
  · subst hx; simp [List.dropWhile]
  · simp [List.dropWhile, hx]

theorem rtzLoop_spec (fuel : Nat) : ∀ (b : Buf) (c : Bytes), Rep b c → c.length < fuel →
    ∃ b', rtzLoop fuel b = .ok b' ∧ Rep b' (Spec.Seq.removeTrailingZeros c) := by
  induction fuel with
  | zero => intro b c _ hf; omega
  | succ f ih =>
    intro b c h hf
    unfold rtzLoop
    rw [h.len]
    rcases List.eq_nil_or_concat c with rfl | ⟨init, x, hcx⟩
    · simp only [List.length_nil, Nat.lt_irrefl, gt_iff_lt, if_false]
      exact ⟨b, rfl, by simpa [Spec.Seq.removeTrailingZeros] using h⟩
    · rw [List.concat_eq_append] at hcx
      subst hcx
      have hpos : (init ++ [x]).length > 0 := by simp
      have hidx : (init ++ [x]).length - 1 = init.length := by simp
      have hget : (init ++ [x])[init.length]? = some x := by simp
      simp only [hpos, if_true, hidx, getChar_view h.view, hget]
      rw [rtz_concat]
      by_cases hx : x = 0
      · subst hx
        simp only [if_true]
        obtain ⟨b1, hb1, hr1, _⟩ := delete_rep h init.length 1 (by simp) (by omega) (by simp)
        rw [hb1]
        simp only
        have : (init ++ [0]).take init.length ++ (init ++ [0]).drop (init.length + 1) = init := by simp
        rw [this] at hr1
        exact ih b1 init hr1 (by simp at hf; omega)
      · simp only [hx, if_false]
        refine ⟨b, ?_, h⟩
        split
        · rename_i heq; simp at heq
        · rename_i heq; simp at heq; exact absurd heq hx
        · rfl

theorem removeTrailingZeros_spec {b : Buf} {c : Bytes} (h : Rep b c) :
    ∃ b', b.removeTrailingZeros = .ok (b', true) ∧ Rep b' (Spec.Seq.removeTrailingZeros c) := by
  obtain ⟨b', hb, hr⟩ := rtzLoop_spec (b.len + 1) b c h (by rw [h.len]; omega)
  exact ⟨b', by simp [Buf.removeTrailingZeros, h.dyn, hb], hr⟩

theorem removeTrailingZeros_static {b : Buf} (hs : b.isStatic = true) :
    b.removeTrailingZeros = .ok (b, false) := by simp [Buf.removeTrailingZeros, hs]

/-! ### shrink_blanks -/

theorem setSpace_rep {b : Buf} {c : Bytes} (h : Rep b c) (i : Nat) (hi : i < c.length) :
    ∃ b1 r, (if c[i] != 0x20 then b.setChar i 0x20 else .ok (b, true)) = .ok (b1, r) ∧ Rep b1 (c.set i 0x20) := by
  by_cases hc : c[i] = 0x20
  · refine ⟨b, true, by simp [hc], ?_⟩
    have : c.set i 0x20 = c := by
      rw [← hc]; exact List.set_getElem_self hi
    rwa [this]
  · obtain ⟨b1, hb1, hr1, _⟩ := setChar_rep h i 0x20 hi
    exact ⟨b1, true, by simp [hc, hb1], hr1⟩

/-- Deleting the rest of the run found by the scan. -/
theorem delRun_rep {b : Buf} {c : Bytes} (h : Rep b c) (i n : Nat)
    (hk : n = ((c.drop i).takeWhile ws).length) :
    ∃ b2 r, (if n > 0 then b.delete i n else .ok (b, false)) = .ok (b2, r)
      ∧ Rep b2 (c.take i ++ (c.drop i).dropWhile ws) := by
  have hkl : n + ((c.drop i).dropWhile ws).length = (c.drop i).length := by
    rw [hk]; exact takeWhile_len_add_dropWhile_len ws (c.drop i)
  have hdw : c.drop (i + n) = (c.drop i).dropWhile ws := by
    rw [← List.drop_drop, hk, drop_takeWhile_len]
  by_cases hk0 : n > 0
  · have hil : i < c.length := by
      have : (c.drop i).length > 0 := by omega
      simp at this; omega
    have hik : i + n ≤ c.length := by
      have := hkl; simp at this; omega
    obtain ⟨b2, hb2, hr2, _⟩ := delete_rep h i n hil (by omega) hik
    exact ⟨b2, true, by simp [hk0, hb2], by rw [← hdw]; exact hr2⟩
  · have hk0' : n = 0 := by omega
    subst hk0'
    refine ⟨b, false, by simp, ?_⟩
    rw [← hdw]; simpa using h

theorem shrinkLoop_spec (fuel : Nat) : ∀ (b : Buf) (c : Bytes) (end_ i : Nat), Rep b c →
    c.length ≤ end_ → end_ - i < fuel →
    ∃ b', shrinkLoop fuel end_ i b = .ok b' ∧ Rep b' (c.take i ++ shrinkAux false (c.drop i)) := by
  induction fuel with
  | zero => intro b c end_ i _ _ hf; omega
  | succ f ih =>
    intro b c end_ i h he hf
    unfold shrinkLoop
    by_cases hie : i < end_
    · simp only [hie, if_true, getChar_view h.view i]
      by_cases hlt : i < c.length
      · rw [List.getElem?_eq_getElem hlt]
        simp only [isSpace_eq_ws]
        rw [drop_cons_of_lt hlt]
        by_cases hw : ws c[i] = true
        · simp only [hw, if_true]
          obtain ⟨b1, r1, hb1, hr1⟩ := setSpace_rep h i hlt
          rw [hb1]
          simp only
          have hl1 : (c.set i 0x20).length = c.length := by simp
          rw [hr1.len, hl1, scanWs_spec hr1.view (c.length + 1) (i + 1) (by rw [hl1]; omega)]
          simp only
          have hd1 : (c.set i 0x20).drop (i + 1) = c.drop (i + 1) := by
            rw [List.drop_set]; simp
          obtain ⟨b2, r2, hb2, hr2⟩ := delRun_rep hr1 (i + 1)
            (i + 1 + ((c.set i 0x20).drop (i + 1) |>.takeWhile ws).length - (i + 1)) (by omega)
          rw [hd1] at hb2 hr2
          rw [hd1, hb2]
          simp only
          have ht1 : (c.set i 0x20).take (i + 1) = c.take i ++ [0x20] := by
            rw [List.take_add_one, List.take_set_of_le (Nat.le_refl _)]
            simp [hlt]
          rw [ht1] at hr2
          have hRlen : ((c.drop (i + 1)).dropWhile ws).length ≤ c.length - (i + 1) := by
            have := (List.dropWhile_sublist (l := c.drop (i + 1)) ws).length_le
            rwa [List.length_drop] at this
          generalize hR : (c.drop (i + 1)).dropWhile ws = R at hr2 hRlen
          have hfuel : end_ - (i + 1 + 1) < f := by omega
          have hlen2 : (c.take i ++ [0x20] ++ R).length ≤ end_ := by
            simp only [List.length_append, List.length_take, List.length_cons, List.length_nil]
            omega
          obtain ⟨b3, hb3, hr3⟩ := ih b2 _ end_ (i + 1 + 1) hr2 hlen2 hfuel
          refine ⟨b3, hb3, ?_⟩
          have hP : (c.take i ++ [0x20]).length = i + 1 := by
            simp only [List.length_append, List.length_take, List.length_cons, List.length_nil]; omega
          have e1 : (c.take i ++ [0x20] ++ R).take (i + 1 + 1) = c.take i ++ [0x20] ++ R.take 1 := by
            rw [← hP]; exact List.take_length_add_append 1
          have e2 : (c.take i ++ [0x20] ++ R).drop (i + 1 + 1) = R.drop 1 := by
            rw [← hP]; exact List.drop_length_add_append 1
          rw [e1, e2] at hr3
          simp only [shrinkAux, hw, if_true, Bool.false_eq_true, if_false]
          rw [shrinkAux_true, hR]
          simpa using hr3
        · have hw' : ws c[i] = false := by simpa using hw
          simp only [hw', Bool.false_eq_true, if_false]
          obtain ⟨b2, hb2, hr2⟩ := ih b c end_ (i + 1) h he (by omega)
          refine ⟨b2, hb2, ?_⟩
          have tk : c.take (i + 1) = c.take i ++ [c[i]] := by
            rw [List.take_add_one, List.getElem?_eq_getElem hlt]; rfl
          have tgt : c.take i ++ shrinkAux false (c[i] :: c.drop (i + 1))
              = c.take (i + 1) ++ shrinkAux false (c.drop (i + 1)) := by
            simp only [shrinkAux, hw', Bool.false_eq_true, if_false, tk, List.append_assoc, List.singleton_append]
          rw [tgt]; exact hr2
      · have h1 : c[i]? = none := List.getElem?_eq_none (by omega)
        simp only [h1]
        obtain ⟨b2, hb2, hr2⟩ := ih b c end_ (i + 1) h he (by omega)
        refine ⟨b2, hb2, ?_⟩
        have e1 : c.take (i + 1) = c := List.take_of_length_le (by omega)
        have e2 : c.drop (i + 1) = [] := List.drop_eq_nil_of_le (by omega)
        have e3 : c.take i = c := List.take_of_length_le (by omega)
        have e4 : c.drop i = [] := List.drop_eq_nil_of_le (by omega)
        rw [e1, e2] at hr2
        rw [e3, e4]; exact hr2
    · simp only [hie, if_false]
      have e3 : c.take i = c := List.take_of_length_le (by omega)
      have e4 : c.drop i = [] := List.drop_eq_nil_of_le (by omega)
      exact ⟨b, rfl, by rw [e3, e4]; simpa [shrinkAux] using h⟩

theorem shrinkBlanks_spec {b : Buf} {c : Bytes} (h : Rep b c) :
    ∃ b', b.shrinkBlanks = .ok (b', true) ∧ Rep b' (Spec.Seq.shrink c) := by
  obtain ⟨b', hb, hr⟩ := shrinkLoop_spec (b.len + 1) b c b.len 0 h (by rw [h.len]; omega) (by omega)
  exact ⟨b', by simp [shrinkBlanks, h.dyn, hb], by simpa [Spec.Seq.shrink] using hr⟩

theorem shrinkBlanks_static {b : Buf} (hs : b.isStatic = true) : b.shrinkBlanks = .ok (b, false) := by
  simp [shrinkBlanks, hs]

/-! ### strip_blanks -/

theorem all_of_dropWhile_nil (p : UInt8 → Bool) : ∀ l : Bytes, l.dropWhile p = [] → ∀ x ∈ l, p x = true := by
  intro l
  induction l with
  | nil => intro _ x hx; simp at hx
  | cons a l ih =>
    intro h x hx
    rw [List.dropWhile_cons] at h
    by_cases ha : p a = true
    · simp only [ha, if_true] at h
      rcases List.mem_cons.mp hx with rfl | hx
      · exact ha
      · exact ih h x hx
    · simp [ha] at h

theorem takeWhile_all (p : UInt8 → Bool) (l : Bytes) (y : UInt8) (h : y ∈ l.takeWhile p) : p y = true := by
  have := List.all_takeWhile (p := p) (l := l)
  rw [List.all_eq_true] at this
  exact this y h

/-- A string that starts with a non-blank ends `… x sp` with `x` the last non-blank. -/
theorem last_nonblank (c1 : Bytes) (hne : c1 ≠ []) (hhd : ∀ y, c1.head? = some y → ws y = false) :
    ∃ pre x sp, c1 = pre ++ [x] ++ sp ∧ ws x = false ∧ (∀ y ∈ sp, ws y = true) ∧
      (c1.reverse.dropWhile ws).reverse = pre ++ [x] := by
  have hdne : c1.reverse.dropWhile ws ≠ [] := by
    intro he
    have hall := all_of_dropWhile_nil ws _ he
    cases c1 with
    | nil => exact hne rfl
    | cons y ys =>
      have := hall y (by simp)
      have h2 := hhd y rfl
      simp [h2] at this
  cases hd : c1.reverse.dropWhile ws with
  | nil => exact absurd hd hdne
  | cons x pre' =>
    have hx : ws x = false := by
      have := List.head_dropWhile_not ws (l := c1.reverse) hdne
      simpa [hd] using this
    have hsplit := List.takeWhile_append_dropWhile (p := ws) (l := c1.reverse)
    rw [hd] at hsplit
    refine ⟨pre'.reverse, x, (c1.reverse.takeWhile ws).reverse, ?_, hx, ?_, by simp⟩
    · have := congrArg List.reverse hsplit
      simp only [List.reverse_reverse, List.reverse_append, List.reverse_cons] at this
      exact this.symm
    · intro y hy
      have hy' : y ∈ c1.reverse.takeWhile ws := by simpa using hy
      exact takeWhile_all ws _ y hy'

theorem stripBlanks_spec {b : Buf} {c : Bytes} (h : Rep b c) (hsz : c.length < 4294967296) :
    ∃ b', b.stripBlanks = .ok (b', true) ∧ Rep b' (Spec.Seq.strip c) := by
  unfold stripBlanks
  rw [h.dyn]
  simp only [Bool.false_eq_true, if_false]
  rw [h.len, stripScan_spec h.view (c.length + 1) 0 (by omega)]
  simp only [List.drop_zero, Nat.zero_add]
  obtain ⟨b1, r1, hb1, hr1⟩ := delRun_rep h 0 (c.takeWhile ws).length (by simp)
  simp only [List.take_zero, List.nil_append, List.drop_zero] at hb1 hr1
  rw [hb1]
  simp only
  generalize hc1 : c.dropWhile ws = c1 at hr1
  have hc1len : c1.length ≤ c.length := by rw [← hc1]; exact (List.dropWhile_sublist ws).length_le
  have hstrip : Spec.Seq.strip c = (c1.reverse.dropWhile ws).reverse := by simp [Spec.Seq.strip, hc1]
  rw [hstrip, hr1.len]
  by_cases hpos : c1.length > 0
  · simp only [hpos, if_true]
    have hne : c1 ≠ [] := by intro e; rw [e] at hpos; simp at hpos
    obtain ⟨pre, x, sp, hdec, hx, hsp, hrev⟩ := last_nonblank c1 hne (by
      intro y hy
      have hdne : c.dropWhile ws ≠ [] := by rw [hc1]; exact hne
      have := List.head_dropWhile_not ws (l := c) hdne
      rw [← hc1] at hy
      have hh : (c.dropWhile ws).head hdne = y := by
        rw [List.head?_eq_some_head hdne] at hy; exact Option.some.inj hy
      rw [hh] at this; exact this)
    have hlen : c1.length - 1 = pre.length + sp.length := by rw [hdec]; simp <;> omega
    rw [hlen, backScan_spec hr1.view pre sp [] x (by simpa using hdec) hx hsp (c1.length + 1)
      (by rw [hdec]; simp <;> omega)]
    simp only
    have hm1 : (pre.length + 1) % 4294967296 = pre.length + 1 := by
      apply Nat.mod_eq_of_lt; rw [hdec] at hc1len; simp at hc1len; omega
    have hm2 : (pre.length + sp.length + 4294967296 - pre.length) % 4294967296 = sp.length := by
      have : pre.length + sp.length + 4294967296 - pre.length = sp.length + 4294967296 := by omega
      rw [this, Nat.add_mod_right]
      apply Nat.mod_eq_of_lt; rw [hdec] at hc1len; simp at hc1len; omega
    rw [hm1, hm2, hrev]
    by_cases hs0 : sp = []
    · subst hs0
      have : b1.delete (pre.length + 1) ([] : Bytes).length = .ok (b1, false) :=
        delete_refused _ _ (Or.inr rfl)
      rw [this]
      exact ⟨b1, rfl, by simpa [hdec] using hr1⟩
    · have hsl : sp.length ≠ 0 := by simpa using hs0
      obtain ⟨b2, hb2, hr2, _⟩ := delete_rep hr1 (pre.length + 1) sp.length
        (by rw [hdec]; simp <;> omega) hsl (by rw [hdec]; simp <;> omega)
      rw [hb2]
      refine ⟨b2, rfl, ?_⟩
      have e1 : c1.take (pre.length + 1) = pre ++ [x] := by
        rw [hdec, List.take_left' (by simp)]
      have e2 : c1.drop (pre.length + 1 + sp.length) = [] := by
        apply List.drop_eq_nil_of_le; rw [hdec]; simp <;> omega
      rw [e1, e2] at hr2
      simpa using hr2
  · have : c1 = [] := by
      cases c1 with
      | nil => rfl
      | cons _ _ => simp at hpos
    subst this
    simp only [List.length_nil, Nat.lt_irrefl, gt_iff_lt, if_false]
    exact ⟨b1, rfl, by simpa using hr1⟩

theorem stripBlanks_static {b : Buf} (hs : b.isStatic = true) : b.stripBlanks = .ok (b, false) := by
  simp [stripBlanks, hs]

end Buf
end Wbxml.Model
