/-
  Page-bucket versions of the tag-table consistency predicates and the lemmas that lift them to
  the literal models of the C scans. The kernel then evaluates per-page buckets (≤ 64 rows)
  instead of whole tables (the 645-row ActiveSync table costs minutes and 10 GB otherwise).
-/
import Wbxml.Model.Tables
namespace Wbxml.Model

def bucket (t : List TagRow) (p : Nat) : List TagRow := t.filter (fun r => r.page == p)

/-- Inside the block of page `c`: rows of page `c`, then no row of page `c` ever again. -/
def contigIn (c : Nat) : List TagRow → Bool
  | [] => true
  | r :: rs => if r.page == c then contigIn c rs else rs.all (fun x => !(x.page == c))

/-- Before the block of page `c`. -/
def contigFrom (c : Nat) : List TagRow → Bool
  | [] => true
  | r :: rs => if r.page == c then contigIn c rs else contigFrom c rs

theorem bucket_nil_of_all_ne (c : Nat) (l : List TagRow)
    (h : l.all (fun x => !(x.page == c)) = true) : bucket l c = [] := by
  induction l with
  | nil => rfl
  | cons a l ih =>
    simp only [List.all_cons, Bool.and_eq_true] at h
    have ha : (a.page == c) = false := by simpa using h.1
    simp [bucket, List.filter_cons, ha]
    simpa [bucket] using ih h.2

theorem loop1_in (c : Nat) (n : Bytes) (l : List TagRow) (h : contigIn c l = true) :
    encTagLoop1 c n l true = (bucket l c).find? (fun x => x.name == n) := by
  induction l with
  | nil => rfl
  | cons a l ih =>
    unfold encTagLoop1
    by_cases hp : (a.page == c) = true
    · simp only [contigIn, hp, if_true] at h
      simp only [hp, if_true, bucket, List.filter_cons, List.find?_cons]
      by_cases hn : (a.name == n) = true
      · simp [hn]
      · have hn' : (a.name == n) = false := by simpa using hn
        simp only [hn', Bool.false_eq_true, if_false]
        simpa [bucket] using ih h
    · have hp' : (a.page == c) = false := by simpa using hp
      simp only [contigIn, hp', Bool.false_eq_true, if_false] at h
      have hb := bucket_nil_of_all_ne c l h
      simp only [bucket] at hb
      simp [hp', bucket, hb]

theorem loop1_from (c : Nat) (n : Bytes) (l : List TagRow) (h : contigFrom c l = true) :
    encTagLoop1 c n l false = (bucket l c).find? (fun x => x.name == n) := by
  induction l with
  | nil => rfl
  | cons a l ih =>
    unfold encTagLoop1
    by_cases hp : (a.page == c) = true
    · simp only [contigFrom, hp, if_true] at h
      simp only [hp, if_true, bucket, List.filter_cons, List.find?_cons]
      by_cases hn : (a.name == n) = true
      · simp [hn]
      · have hn' : (a.name == n) = false := by simpa using hn
        simp only [hn', Bool.false_eq_true, if_false]
        simpa [bucket] using loop1_in c n l h
    · have hp' : (a.page == c) = false := by simpa using hp
      simp only [contigFrom, hp', Bool.false_eq_true, if_false] at h
      simp only [hp', Bool.false_eq_true, if_false, bucket, List.filter_cons]
      simpa [bucket] using ih h

theorem decTag_bucket (t : List TagRow) (p tok : Nat) :
    decTag t p tok = (bucket t p).find? (fun x => x.token == tok) := by
  unfold decTag bucket
  rw [List.find?_filter]
  congr 1
  funext a
  cases h1 : a.token == tok <;> cases h2 : a.page == p <;> simp

theorem mem_bucket {t : List TagRow} {p : Nat} {r : TagRow} (h : r ∈ bucket t p) :
    r ∈ t ∧ (r.page == p) = true := by
  simpa [bucket] using h

theorem find_bucket_page {t : List TagRow} {p : Nat} {q : TagRow → Bool} {e : TagRow}
    (h : (bucket t p).find? q = some e) : (e.page == p) = true :=
  (mem_bucket (List.mem_of_find?_eq_some h)).2

/-- Bucket-local version of `tagDecEnc`. -/
def bDecEnc (b : List TagRow) (r : TagRow) : Bool :=
  match b.find? (fun x => x.token == r.token) with
  | some d => match b.find? (fun x => x.name == d.name) with
    | some e => e.token == r.token
    | none => false
  | none => false

theorem tagDecEnc_of_bucket (t : List TagRow) (r : TagRow)
    (hc : contigFrom r.page t = true) (hb : bDecEnc (bucket t r.page) r = true) :
    tagDecEnc t r = true := by
  unfold tagDecEnc
  unfold bDecEnc at hb
  rw [decTag_bucket]
  cases hd : (bucket t r.page).find? (fun x => x.token == r.token) with
  | none => simp [hd] at hb
  | some d =>
    simp only [hd] at hb ⊢
    unfold encTag
    simp only
    rw [loop1_from _ _ _ hc]
    cases he : (bucket t r.page).find? (fun x => x.name == d.name) with
    | none => simp [he] at hb
    | some e =>
      simp only [he] at hb ⊢
      simp [find_bucket_page he, hb]

/-- Unfolded meaning of `tagDecEnc t e = true`. -/
theorem tagDecEnc_spec {t : List TagRow} {e : TagRow} (h : tagDecEnc t e = true) :
    ∃ d e', decTag t e.page e.token = some d ∧ encTag t (some e.page) d.name = some e' ∧
      (e'.page == e.page) = true ∧ (e'.token == e.token) = true := by
  unfold tagDecEnc at h
  cases hd : decTag t e.page e.token with
  | none => simp [hd] at h
  | some d =>
    simp only [hd] at h
    cases he : encTag t (some e.page) d.name with
    | none => simp [he] at h
    | some e' =>
      simp only [he, Bool.and_eq_true] at h
      exact ⟨d, e', rfl, he, h.1, h.2⟩

theorem decTag_some_spec {t : List TagRow} {p k : Nat} {d : TagRow} (h : decTag t p k = some d) :
    (d.page == p) = true ∧ (d.token == k) = true := by
  unfold decTag at h
  have := List.find?_some h
  simp only [Bool.and_eq_true] at this
  exact ⟨this.2, this.1⟩

/-- If the name look-up lands on a row `e` of the table for which decode→encode is the identity,
    the encode→decode→encode chain closes at `e`'s (page, token). -/
theorem encDec_of_decEnc {t : List TagRow} {cur : Option Nat} {r e : TagRow}
    (he : encTag t cur r.name = some e) (hde : tagDecEnc t e = true) :
    tagEncDecFrom t cur r = true := by
  obtain ⟨d, e', hd, he', hp, ht⟩ := tagDecEnc_spec hde
  have hds := decTag_some_spec hd
  unfold tagEncDecFrom
  simp [he, hd, he', hp, ht, hds.1, hds.2]

theorem encTag_none_mem {t : List TagRow} {r : TagRow} (hr : r ∈ t) :
    ∃ e, encTag t none r.name = some e ∧ e ∈ t := by
  unfold encTag
  simp only
  cases h : t.find? (fun x => x.name == r.name) with
  | none =>
    have := List.find?_eq_none.mp h r hr
    simp at this
  | some e => exact ⟨e, rfl, List.mem_of_find?_eq_some h⟩

theorem encTag_own_mem {t : List TagRow} {r : TagRow} (hr : r ∈ t)
    (hc : contigFrom r.page t = true) :
    ∃ e, encTag t (some r.page) r.name = some e ∧ e ∈ t := by
  unfold encTag
  simp only
  rw [loop1_from _ _ _ hc]
  cases h : (bucket t r.page).find? (fun x => x.name == r.name) with
  | none =>
    have hrb : r ∈ bucket t r.page := by simp [bucket, hr]
    have := List.find?_eq_none.mp h r hrb
    simp at this
  | some e => exact ⟨e, rfl, (mem_bucket (List.mem_of_find?_eq_some h)).1⟩

def insPage (p : Nat) (acc : List Nat) : List Nat := if acc.contains p then acc else p :: acc

theorem mem_insPage_self (p : Nat) (acc : List Nat) : p ∈ insPage p acc := by
  unfold insPage
  split
  · rename_i h; simpa using h
  · exact List.mem_cons_self

theorem mem_insPage_of_mem {q p : Nat} {acc : List Nat} (h : q ∈ acc) : q ∈ insPage p acc := by
  unfold insPage
  split
  · exact h
  · exact List.mem_cons_of_mem _ h

/-- Distinct pages of a table. -/
def pagesOf (t : List TagRow) : List Nat := t.foldr (fun r acc => insPage r.page acc) []

theorem mem_pagesOf {t : List TagRow} {r : TagRow} (h : r ∈ t) : r.page ∈ pagesOf t := by
  induction t with
  | nil => cases h
  | cons a l ih =>
    simp only [pagesOf, List.foldr_cons]
    rcases List.mem_cons.mp h with rfl | h'
    · exact mem_insPage_self _ _
    · exact mem_insPage_of_mem (ih h')

/-- What the kernel evaluates for a tag table: ranges, page contiguity and the bucket-local
    decode→encode identity. Everything else follows from the lemmas above. -/
def tagTableOKFast (t : List TagRow) : Bool :=
  t.all tagRowRange &&
  (pagesOf t).all (fun p => contigFrom p t && (bucket t p).all (bDecEnc (bucket t p)))

theorem tagTableOK_of_fast (t : List TagRow) (h : tagTableOKFast t = true) : tagTableOK t = true := by
  unfold tagTableOKFast at h
  simp only [Bool.and_eq_true, List.all_eq_true] at h
  obtain ⟨hr, hp⟩ := h
  have hb : ∀ r ∈ t, contigFrom r.page t = true ∧ tagDecEnc t r = true := by
    intro r hrt
    have h1 := hp r.page (mem_pagesOf hrt)
    have hrb : r ∈ bucket t r.page := by simp [bucket, hrt]
    exact ⟨h1.1, tagDecEnc_of_bucket t r h1.1 (h1.2 r hrb)⟩
  unfold tagTableOK
  simp only [Bool.and_eq_true, List.all_eq_true]
  refine ⟨⟨hr, fun r hrt => (hb r hrt).2⟩, fun r hrt => ?_⟩
  unfold tagEncDec
  simp only [Bool.and_eq_true]
  constructor
  · obtain ⟨e, he, hem⟩ := encTag_own_mem hrt (hb r hrt).1
    exact encDec_of_decEnc he (hb e hem).2
  · obtain ⟨e, he, hem⟩ := encTag_none_mem hrt
    exact encDec_of_decEnc he (hb e hem).2

end Wbxml.Model
