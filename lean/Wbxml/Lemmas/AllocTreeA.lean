/-
  C16 — tree building on the ledger, part A: invariants of the call-back context, the pure moves of
  `current` (they only permute the blocks the context owns), the sibling walk, and the destruction
  of the tree.
-/
import Wbxml.Model.AllocTree
import Wbxml.Lemmas.AllocWords
namespace Wbxml.Model.Alloc
open Wbxml
set_option linter.unusedSimpArgs false
set_option linter.unusedVariables false
set_option linter.unnecessarySimpa false

/-! ### Invariants -/

/-- The content buffer of a node, if any, is a well-formed buffer. -/
def nodeOk (n : ANode) : Prop := ∀ b, n.content = some b → b.ok

/-- A closed child: a text node has no children. -/
def Kid.ok (k : Kid) : Prop := nodeOk k.node ∧ (k.kind = .text → k.below = [])

/-- An open node is an element or a CDATA section. -/
def Frame.ok (f : Frame) : Prop := nodeOk f.node ∧ f.kind ≠ .text ∧ ∀ k ∈ f.kids, k.ok

/-- The context is consistent: the root is either on the open path or closed, not both; content
    buffers are well-formed; text nodes are leaves. -/
def TCtx.ok (c : TCtx) : Prop :=
  (c.frames ≠ [] → c.root = none) ∧ (∀ k, c.root = some k → k.ok) ∧ ∀ f ∈ c.frames, f.ok

theorem Frame.close_ok (f : Frame) (h : f.ok) : f.close.ok :=
  ⟨h.1, fun hk => absurd hk h.2.1⟩

theorem Frame.close_owned (f : Frame) : f.close.owned = f.owned := rfl

theorem TCtx.owned_cons (c : TCtx) (f : Frame) (rest : List Frame) (h : c.frames = f :: rest) :
    c.owned = c.tree :: (ownedKidOpt c.root ++ (f.owned ++ rest.flatMap Frame.owned)) := by
  simp [TCtx.owned, h]

/-! ### Moves of `current` -/

theorem popFrame_nil (c : TCtx) (hf : c.frames = []) : popFrame c = c := by simp [popFrame, hf]

theorem popFrame_one (c : TCtx) (f : Frame) (hf : c.frames = [f]) :
    popFrame c = { c with root := some f.close, frames := [] } := by simp [popFrame, hf]

theorem popFrame_two (c : TCtx) (f g : Frame) (rest : List Frame) (hf : c.frames = f :: g :: rest) :
    popFrame c = { c with frames := { g with kids := g.kids ++ [f.close] } :: rest } := by simp [popFrame, hf]

theorem popFrame_perm (c : TCtx) (h : c.ok) : (popFrame c).owned.Perm c.owned := by
  rcases hf : c.frames with _ | ⟨f, _ | ⟨g, rest⟩⟩
  · rw [popFrame_nil c hf]
  · rw [popFrame_one c f hf]
    have hr : c.root = none := h.1 (by simp [hf])
    simp [TCtx.owned, hf, hr, ownedKidOpt, Frame.close_owned]
  · rw [popFrame_two c f g rest hf]
    simp only [TCtx.owned, hf, List.flatMap_cons, Frame.owned, List.flatMap_append, List.flatMap_nil,
      List.append_nil, Kid.owned, Frame.close]
    perm_count

theorem popFrame_tree (c : TCtx) : (popFrame c).tree = c.tree := by
  unfold popFrame; split <;> rfl

theorem popFrame_error (c : TCtx) : (popFrame c).error = c.error := by
  unfold popFrame; split <;> rfl

theorem popFrame_ok (c : TCtx) (h : c.ok) : (popFrame c).ok := by
  rcases hf : c.frames with _ | ⟨f, _ | ⟨g, rest⟩⟩
  · rw [popFrame_nil c hf]; exact h
  · rw [popFrame_one c f hf]
    refine ⟨by simp, ?_, by simp⟩
    intro k hk
    simp only [Option.some.injEq] at hk
    subst hk
    exact Frame.close_ok f (h.2.2 f (by simp [hf]))
  · rw [popFrame_two c f g rest hf]
    have hr : c.root = none := h.1 (by simp [hf])
    refine ⟨fun _ => hr, fun k hk => ?_, ?_⟩
    · simp only at hk; rw [hr] at hk; cases hk
    · intro x hx
      simp only [List.mem_cons] at hx
      rcases hx with rfl | hx
      · have hg := h.2.2 g (by simp [hf])
        have hf' := h.2.2 f (by simp [hf])
        refine ⟨hg.1, hg.2.1, fun k hk => ?_⟩
        simp only [List.mem_append, List.mem_singleton] at hk
        rcases hk with hk | rfl
        · exact hg.2.2 k hk
        · exact Frame.close_ok f hf'
      · exact h.2.2 x (by simp [hf, hx])

theorem popFrame_length (c : TCtx) : (popFrame c).frames.length = c.frames.length - 1 := by
  unfold popFrame
  split <;> simp_all

theorem closeAll_spec (n : Nat) (c : TCtx) (h : c.ok) :
    (closeAll n c).owned.Perm c.owned ∧ (closeAll n c).ok ∧ (closeAll n c).tree = c.tree ∧
    (closeAll n c).error = c.error ∧ (c.frames.length ≤ n → (closeAll n c).frames = []) := by
  induction n generalizing c with
  | zero =>
    simp only [closeAll]
    exact ⟨List.Perm.refl _, h, by simp, by simp, fun hl => by simpa using hl⟩
  | succ n ih =>
    simp only [closeAll]
    split
    · rename_i he
      exact ⟨List.Perm.refl _, h, rfl, rfl, fun _ => by simpa using he⟩
    · obtain ⟨a, b, c1, d, e⟩ := ih (popFrame c) (popFrame_ok c h)
      refine ⟨a.trans (popFrame_perm c h), b, c1.trans (popFrame_tree c), d.trans (popFrame_error c), fun hl => e ?_⟩
      rw [popFrame_length]; omega

theorem dropCurrent_spec (c : TCtx) (h : c.ok) :
    (dropCurrent c).owned.Perm c.owned ∧ (dropCurrent c).ok ∧ (dropCurrent c).tree = c.tree ∧
    (dropCurrent c).error = c.error ∧ (dropCurrent c).frames = [] := by
  obtain ⟨a, b, c1, d, e⟩ := closeAll_spec c.frames.length c h
  exact ⟨a, b, c1, d, e (Nat.le_refl _)⟩

/-- Setting the error code changes nothing else. -/
theorem TCtx.owned_error (c : TCtx) (e : Nat) : ({ c with error := e } : TCtx).owned = c.owned := rfl

theorem TCtx.ok_error (c : TCtx) (e : Nat) (h : c.ok) : ({ c with error := e } : TCtx).ok := h

/-! ### Reading the tree -/

theorem walkKids_spec (kids : List Kid) (s : Ledger) (h : ∀ k ∈ kids, k.node.hdr ∈ s.live) :
    Good (walkKids kids) s (fun _ s' => s' = s) := by
  induction kids with
  | nil => simp only [walkKids, pure_eq, good_ret]
  | cons k rest ih =>
    unfold walkKids
    simp only [bind_eq]
    refine Good.bind (deref_spec k.node.hdr s (h k (by simp))) ?_
    intro _ s0 e0; subst e0
    exact ih (fun k' hk' => h k' (by simp [hk']))

theorem hdr_mem_owned (n : ANode) : n.hdr ∈ n.owned := by simp [ANode.owned]

theorem kid_hdr_mem (f : Frame) {k : Kid} (hk : k ∈ f.kids) : k.node.hdr ∈ f.owned := by
  simp only [Frame.owned, List.mem_append, List.mem_flatMap]
  exact Or.inr ⟨k, hk, by simp [Kid.owned, hdr_mem_owned]⟩

theorem frame_mem_owned (c : TCtx) {f : Frame} (hf : f ∈ c.frames) {i : Nat} (hi : i ∈ f.owned) : i ∈ c.owned := by
  simp only [TCtx.owned, List.mem_cons, List.mem_append, List.mem_flatMap]
  exact Or.inr (Or.inr ⟨f, hf, hi⟩)

theorem tree_mem_owned (c : TCtx) : c.tree ∈ c.owned := by simp [TCtx.owned]

/-! ### Destroying the tree -/

theorem freeAll_spec (L : List Nat) (s : Ledger) (wf : s.WF) (own : Owns s L) :
    Good (forM_ L (fun b => free (some b))) s (fun _ s' => Clean s s' L [] ∧ s'.hits = s.hits ∧ s'.next = s.next) := by
  induction L generalizing s with
  | nil => simp only [forM_, pure_eq, good_ret]; exact ⟨Clean.rfl wf, by simp, by simp⟩
  | cons b rest ih =>
    obtain ⟨hb, hn, orest⟩ := Owns.cons_iff.1 own
    unfold forM_
    simp only [bind_eq]
    refine Good.bind (free_spec (some b) s wf (by intro a ha; cases ha; exact hb)) ?_
    intro _ s1 ⟨c1, h1, n1⟩
    have c1' : Clean s s1 [b] [] := by simpa using c1
    have cX : Clean s s1 (b :: rest) rest := by
      simpa using Clean.frame_r rest wf c1' (by simpa using own)
    refine (ih s1 c1.wf cX.owns).mono ?_
    intro _ s2 ⟨c2, h2, n2⟩
    exact ⟨Clean.trans_recycle wf cX c2, by omega, by omega⟩

theorem kidDestroy_spec (k : Kid) (s : Ledger) (wf : s.WF) (own : Owns s k.owned) :
    Good (kidDestroy k) s (fun _ s' => Clean s s' k.owned [] ∧ s'.hits = s.hits ∧ s'.next = s.next) := by
  unfold kidDestroy
  simp only [bind_eq]
  have own' : Owns s (k.below ++ k.node.owned) := own.perm List.perm_append_comm
  refine Good.bind (freeAll_spec k.below s wf own'.left) ?_
  intro _ s1 ⟨c1, h1, n1⟩
  have cX : Clean s s1 (k.below ++ k.node.owned) k.node.owned := by
    simpa using Clean.frame_r k.node.owned wf c1 own'
  refine (nodeDestroy_spec (some k.node) s1 c1.wf cX.owns).mono ?_
  intro _ s2 ⟨c2, h2, n2⟩
  refine ⟨(Clean.trans_recycle wf cX c2).cons_congr (fun i => ?_), by omega, by omega⟩
  simp only [Kid.owned, List.mem_append]; exact Or.comm

theorem kid_destroys : Destroys Kid.owned kidDestroy := fun k s wf own => kidDestroy_spec k s wf own

/-- A list of things destroyed one after the other. -/
theorem forM_destroys_spec {ι : Type} (oi : ι → List Nat) (d : ι → Prog Unit) (hd : Destroys oi d) (xs : List ι)
    (s : Ledger) (wf : s.WF) (own : Owns s (xs.flatMap oi)) :
    Good (forM_ xs d) s (fun _ s' => Clean s s' (xs.flatMap oi) [] ∧ s'.hits = s.hits ∧ s'.next = s.next) := by
  induction xs generalizing s with
  | nil => simp only [forM_, pure_eq, good_ret, List.flatMap_nil]; exact ⟨Clean.rfl wf, by simp, by simp⟩
  | cons x rest ih =>
    simp only [List.flatMap_cons] at own ⊢
    unfold forM_
    simp only [bind_eq]
    refine Good.bind (hd x s wf own.left) ?_
    intro _ s1 ⟨c1, h1, n1⟩
    have cX : Clean s s1 (oi x ++ rest.flatMap oi) (rest.flatMap oi) := by
      simpa using Clean.frame_r (rest.flatMap oi) wf c1 own
    refine (ih s1 c1.wf cX.owns).mono ?_
    intro _ s2 ⟨c2, h2, n2⟩
    exact ⟨Clean.trans_recycle wf cX c2, by omega, by omega⟩

theorem frameDestroy_spec (f : Frame) (s : Ledger) (wf : s.WF) (own : Owns s f.owned) :
    Good (frameDestroy f) s (fun _ s' => Clean s s' f.owned [] ∧ s'.hits = s.hits ∧ s'.next = s.next) := by
  unfold frameDestroy
  simp only [bind_eq]
  have own' : Owns s (f.kids.flatMap Kid.owned ++ f.node.owned) := own.perm List.perm_append_comm
  refine Good.bind (forM_destroys_spec Kid.owned kidDestroy kid_destroys f.kids s wf own'.left) ?_
  intro _ s1 ⟨c1, h1, n1⟩
  have cX : Clean s s1 (f.kids.flatMap Kid.owned ++ f.node.owned) f.node.owned := by
    simpa using Clean.frame_r f.node.owned wf c1 own'
  refine (nodeDestroy_spec (some f.node) s1 c1.wf cX.owns).mono ?_
  intro _ s2 ⟨c2, h2, n2⟩
  refine ⟨(Clean.trans_recycle wf cX c2).cons_congr (fun i => ?_), by omega, by omega⟩
  simp only [Frame.owned, List.mem_append]; exact Or.comm

theorem frame_destroys : Destroys Frame.owned frameDestroy := fun f s wf own => frameDestroy_spec f s wf own

/-- `wbxml_tree_destroy`: everything the context owns is released, nothing is requested. -/
theorem treeDestroy_spec (c : TCtx) (s : Ledger) (wf : s.WF) (own : Owns s c.owned) :
    Good (treeDestroy c) s (fun _ s' => Clean s s' c.owned [] ∧ s'.hits = s.hits ∧ s'.next = s.next) := by
  unfold treeDestroy
  simp only [bind_eq]
  refine Good.bind (deref_spec c.tree s (own.2 _ (tree_mem_owned c))) ?_
  intro _ s0 e0; subst e0
  -- footprint: root ++ (frames ++ [tree])
  have hperm : c.owned.Perm (ownedKidOpt c.root ++ (c.frames.flatMap Frame.owned ++ [c.tree])) := by
    simp only [TCtx.owned]; perm_count
  have own' := own.perm hperm
  have hroot : Good (match c.root with | none => Prog.ret () | some k => kidDestroy k) s0 (fun _ s' =>
      Clean s0 s' (ownedKidOpt c.root) [] ∧ s'.hits = s0.hits ∧ s'.next = s0.next) := by
    cases hr : c.root with
    | none => simp only [good_ret, ownedKidOpt]; exact ⟨Clean.rfl wf, by simp, by simp⟩
    | some k => simp only; exact kidDestroy_spec k s0 wf (by simpa [hr, ownedKidOpt] using own'.left)
  refine Good.bind hroot ?_
  intro _ s1 ⟨c1, h1, n1⟩
  have cX1 : Clean s0 s1 (ownedKidOpt c.root ++ (c.frames.flatMap Frame.owned ++ [c.tree]))
      (c.frames.flatMap Frame.owned ++ [c.tree]) := by
    simpa using Clean.frame_r _ wf c1 own'
  refine Good.bind (forM_destroys_spec Frame.owned frameDestroy frame_destroys c.frames s1 c1.wf cX1.owns.left) ?_
  intro _ s2 ⟨c2, h2, n2⟩
  have cX2 : Clean s0 s2 (ownedKidOpt c.root ++ (c.frames.flatMap Frame.owned ++ [c.tree])) [c.tree] := by
    simpa using Clean.step_r [c.tree] wf cX1 c2
  refine (free_spec (some c.tree) s2 c2.wf (by intro a ha; cases ha; exact cX2.owns.2 _ (by simp))).mono ?_
  intro _ s3 ⟨c3, h3, n3⟩
  have c3' : Clean s2 s3 [c.tree] [] := by simpa using c3
  exact ⟨(Clean.trans_recycle wf cX2 c3').cons_congr (fun i => hperm.mem_iff), by omega, by omega⟩

end Wbxml.Model.Alloc
