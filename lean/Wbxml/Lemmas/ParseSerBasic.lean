/-
  `parse_ser`, layer 0: the normal form of parser states used by all "consumes exactly" lemmas,
  the lexical productions (`mb_u_int32`, `termstr`, string-table references, `switchPage`,
  `entity`, `opaque`, `string`) and facts about single octets.

  Every lemma has the shape
      F (st c ver (ser x ++ suf) tp ap cur) = .ok (value x, st c ver suf tp' ap' cur)
  i.e. the parser function consumes exactly `ser x`, leaves `suf` untouched and returns what the
  specification assigns to `x`.
-/
import Wbxml.Spec.Wbxml
import Wbxml.Props.C11
namespace Wbxml.Lemmas.ParseSer
open Wbxml Wbxml.Model Wbxml.Spec

/-- Parser state during the body, in normal form: `c` is what the header fixed. -/
def tblOpt (c : Ctx) : Option Bytes := if c.tbl.isEmpty then none else some c.tbl

abbrev st (c : Ctx) (ver : Nat) (rest : Bytes) (tp ap : Nat) (cur : Option TagRow) : PState :=
  { rest := rest, strtbl := tblOpt c, lang := some c.lang,
    charset := c.charset, version := ver, tagPage := tp, attrPage := ap, curTag := cur }

/-! ### Octets -/

theorem byte_toNat (n : Nat) (h : n < 256) : (byte n).toNat = n := by
  rw [byte, UInt8.toNat_ofNat']; omega

theorem byte_eq_iff (n : Nat) (h : n < 256) (b : UInt8) : byte n = b ↔ n = b.toNat :=
  Lemmas.Codec.ofNat_eq_iff n b h

theorem byte_beq (n : Nat) (h : n < 256) (b : UInt8) : (byte n == b) = (n == b.toNat) := by
  rw [Bool.eq_iff_iff]; simp [byte_eq_iff n h b]

theorem byte_bit7 : ∀ n, n < 256 → ((n &&& 0x80 == 0) = decide (n / 128 % 2 = 0)) := by decide +kernel

/-! ### `mb_u_int32` -/

theorem mbLoop_eq (n acc : Nat) (r : Bytes) : Model.mbLoop n acc r = Codec.mbDecodeLoop n acc r := by
  induction n generalizing acc r with
  | zero => rfl
  | succ n ih =>
    cases r with
    | nil => rfl
    | cons b r =>
      simp only [Model.mbLoop, Codec.mbDecodeLoop]
      have h1 : (acc <<< 7) % 4294967296 ||| (b.toNat &&& 0x7F) = (acc * 128 % 2 ^ 32) ||| (b.toNat % 128) := by
        rw [Nat.shiftLeft_eq]; congr 1
        exact Nat.and_two_pow_sub_one_eq_mod b.toNat 7
      rw [h1, byte_bit7 b.toNat b.toNat_lt, ih]
      simp

theorem mbLoop_ser (v : Nat) (hv : v < 4294967296) (suf : Bytes) :
    Model.mbLoop 5 0 (mb v ++ suf) = .ok (v, suf) := by
  rw [mbLoop_eq]; exact Props.C11.mb_roundtrip v suf hv

theorem parseMb_ser (c : Ctx) (ver : Nat) (v : Nat) (hv : v < 4294967296) (suf : Bytes) (tp ap : Nat) (cur) :
    parseMb (st c ver (mb v ++ suf) tp ap cur) = .ok (v, st c ver suf tp ap cur) := by
  simp only [parseMb, mbLoop_ser v hv]
  rfl

/-! ### C strings -/

theorem cstrLen_take (l : Bytes) : l.take (cstrLen l) = l.takeWhile (· != 0) := by
  induction l with
  | nil => rfl
  | cons b r ih =>
    by_cases h : b = 0
    · subst h; simp [cstrLen]
    · have : (b == 0) = false := by simp [h]
      simp [cstrLen, this, ih, h]

theorem cstrLen_le (l : Bytes) : cstrLen l ≤ l.length := by
  induction l with
  | nil => simp [cstrLen]
  | cons b r ih => simp only [cstrLen]; split <;> simp <;> omega

theorem cstrLen_lt_of_mem (l : Bytes) (h : (0 : UInt8) ∈ l) : cstrLen l + 1 ≤ l.length := by
  induction l with
  | nil => simp at h
  | cons b r ih =>
    by_cases hb : b = 0
    · subst hb; simp [cstrLen]
    · have : (b == 0) = false := by simp [hb]
      have hr : (0 : UInt8) ∈ r := by
        rcases List.mem_cons.mp h with h | h
        · exact absurd h.symm hb
        · exact h
      simp only [cstrLen, this, Bool.false_eq_true, ↓reduceIte, List.length_cons]
      have := ih hr; omega

theorem cstrLen_eq_takeWhile (l : Bytes) : cstrLen l = (l.takeWhile (· != 0)).length := by
  have h := congrArg List.length (cstrLen_take l)
  rw [List.length_take, Nat.min_eq_left (cstrLen_le l)] at h
  exact h

theorem takeWhile_nulFree (s : Bytes) (h : nulFree s = true) (r : Bytes) :
    (s ++ 0 :: r).takeWhile (· != 0) = s := by
  induction s with
  | nil => simp
  | cons b t ih =>
    simp only [nulFree, List.all_cons, Bool.and_eq_true] at h
    simp only [List.cons_append, List.takeWhile_cons, h.1, ↓reduceIte]
    rw [ih (by simpa [nulFree] using h.2)]

/-- `wbxml_charset_conv_term` on available bytes that contain a terminator. -/
theorem convTerm_of_mem (cs : Nat) (hcs : cs = 3 ∨ cs = 106) (l : Bytes) (h : (0 : UInt8) ∈ l) :
    convTerm cs l = .ok (l.takeWhile (· != 0), (l.takeWhile (· != 0)).length + 1) := by
  have h1 : ¬ (cstrLen l + 1 > l.length) := by have := cstrLen_lt_of_mem l h; omega
  have h2 : (cs == 1000 || cs == 1015) = false := by rcases hcs with rfl | rfl <;> rfl
  have h3 : (cs == 3 || cs == 106) = true := by rcases hcs with rfl | rfl <;> rfl
  simp only [convTerm, h2, Bool.false_eq_true, ↓reduceIte, h1, h3, cstrLen_take]
  rw [cstrLen_eq_takeWhile]

theorem csOk_iff (c : Ctx) : csOk c = true ↔ (c.charset = 3 ∨ c.charset = 106) := by
  simp [csOk]

/-- `termstr`. -/
theorem parseTermstr_ser (c : Ctx) (ver : Nat) (hcs : csOk c = true) (s : Bytes) (hs : nulFree s = true)
    (suf : Bytes) (tp ap : Nat) (cur) :
    parseTermstr (st c ver (s ++ 0 :: suf) tp ap cur) = .ok (s, st c ver suf tp ap cur) := by
  have hm : (0 : UInt8) ∈ s ++ 0 :: suf := by simp
  simp only [parseTermstr, convTerm_of_mem c.charset ((csOk_iff c).mp hcs) _ hm, takeWhile_nulFree s hs suf]
  have e : List.drop (s.length + 1) (s ++ 0 :: suf) = suf := by
    rw [show s ++ 0 :: suf = (s ++ [0]) ++ suf by simp, show s.length + 1 = (s ++ [0]).length by simp,
      List.drop_left]
  simp only [bind, Except.bind, pure, Except.pure, e]

/-! ### String table -/

theorem mem_of_getLast? (l : Bytes) (b : UInt8) (h : l.getLast? = some b) : b ∈ l :=
  List.mem_of_getLast? h

theorem zero_mem_drop (tbl : Bytes) (off : Nat) (hoff : off < tbl.length)
    (hlast : tbl.getLast? = some 0) : (0 : UInt8) ∈ tbl.drop off := by
  apply List.mem_of_getLast?
  rw [List.getLast?_drop]
  simp [hlast]; omega

/-- `get_strtbl_reference`: an offset inside the table yields the string that starts there. -/
theorem strtblRef_ser (c : Ctx) (ver : Nat) (hc : c.ok = true) (hcs : csOk c = true) (off : Nat)
    (hoff : off < c.tbl.length) (rest : Bytes) (tp ap : Nat) (cur) :
    strtblRef (st c ver rest tp ap cur) off = .ok (strAt c.tbl off) := by
  have hne : c.tbl.isEmpty = false := by
    cases h : c.tbl with
    | nil => simp [h] at hoff
    | cons _ _ => rfl
  simp only [Ctx.ok, Bool.and_eq_true, decide_eq_true_eq, Bool.or_eq_true, hne, Bool.false_eq_true,
    false_or, beq_iff_eq] at hc
  have hm := zero_mem_drop c.tbl off hoff hc.2
  have h1 : ¬ (off ≥ c.tbl.length) := by omega
  simp only [strtblRef, tblOpt, hne, Bool.false_eq_true, ↓reduceIte, h1,
    convTerm_of_mem c.charset ((csOk_iff c).mp hcs) _ hm, strAt]
  rfl

theorem off_lt (c : Ctx) (hc : c.ok = true) (off : Nat) (hoff : off < c.tbl.length) : off < 4294967296 := by
  simp only [Ctx.ok, Bool.and_eq_true, decide_eq_true_eq] at hc
  omega

theorem strAt_nulFree (tbl : Bytes) (off : Nat) : cstrLen (strAt tbl off) = (strAt tbl off).length := by
  rw [cstrLen_eq_takeWhile, strAt]
  congr 1
  generalize tbl.drop off = l
  induction l with
  | nil => rfl
  | cons b r ih =>
    by_cases h : (b != 0) = true
    · simp only [List.takeWhile_cons, h, ↓reduceIte, ih]
    · simp [h]

/-! ### Single steps on a state in normal form -/

@[simp] theorem isToken_cons (c : Ctx) (ver) (b : UInt8) (r : Bytes) (tp ap cur) (t : UInt8) :
    isToken (st c ver (b :: r) tp ap cur) t = (b == t) := by
  simp [isToken]

@[simp] theorem isToken_nil (c : Ctx) (ver) (tp ap cur) (t : UInt8) :
    isToken (st c ver [] tp ap cur) t = false := by
  simp [isToken]

@[simp] theorem skip1_cons (what : String) (c : Ctx) (ver) (b : UInt8) (r : Bytes) (tp ap cur) :
    skip1 what (st c ver (b :: r) tp ap cur) = .ok (st c ver r tp ap cur) := rfl

@[simp] theorem parseU8_cons (c : Ctx) (ver) (b : UInt8) (r : Bytes) (tp ap cur) :
    parseU8 (st c ver (b :: r) tp ap cur) = .ok (b, st c ver r tp ap cur) := rfl

@[simp] theorem peekAt_zero (c : Ctx) (ver) (b : UInt8) (r : Bytes) (tp ap cur) :
    peekAt (st c ver (b :: r) tp ap cur) 0 = some b := rfl

@[simp] theorem peekAt_two (c : Ctx) (ver) (b1 b2 b3 : UInt8) (r : Bytes) (tp ap cur) :
    peekAt (st c ver (b1 :: b2 :: b3 :: r) tp ap cur) 2 = some b3 := rfl

/-- `switchPage` in tag space. -/
theorem parseSwitchPage_tag (c : Ctx) (ver) (p : Nat) (hp : p < 256) (r : Bytes) (tp ap cur) :
    parseSwitchPage true (st c ver (0x00 :: byte p :: r) tp ap cur) = .ok (st c ver r p ap cur) := by
  simp [parseSwitchPage, byte_toNat p hp, bind, Except.bind, pure, Except.pure]

/-- `switchPage` in attribute space. -/
theorem parseSwitchPage_attr (c : Ctx) (ver) (p : Nat) (hp : p < 256) (r : Bytes) (tp ap cur) :
    parseSwitchPage false (st c ver (0x00 :: byte p :: r) tp ap cur) = .ok (st c ver r tp p cur) := by
  simp [parseSwitchPage, byte_toNat p hp, bind, Except.bind, pure, Except.pure]

/-- `[switchPage]` in front of an octet that is not `SWITCH_PAGE`, tag space. -/
theorem optSwitch_tag (c : Ctx) (ver) (sw : Option Nat) (hsw : wfSw sw = true) (b : UInt8) (hb : b ≠ 0)
    (r : Bytes) (tp ap cur) :
    (if isToken (st c ver (serSw sw ++ b :: r) tp ap cur) 0x00 = true
      then parseSwitchPage true (st c ver (serSw sw ++ b :: r) tp ap cur)
      else pure (st c ver (serSw sw ++ b :: r) tp ap cur))
    = .ok (st c ver (b :: r) (swPage sw tp) ap cur) := by
  cases sw with
  | none => simp [serSw, swPage, hb, pure, Except.pure]
  | some p =>
    have hp : p < 256 := by simpa [wfSw] using hsw
    simp only [serSw, List.cons_append, List.nil_append, isToken_cons, beq_self_eq_true, ↓reduceIte,
      parseSwitchPage_tag c ver p hp, swPage, Option.getD_some]

/-- `[switchPage]` in front of an octet that is not `SWITCH_PAGE`, attribute space. -/
theorem optSwitch_attr (c : Ctx) (ver) (sw : Option Nat) (hsw : wfSw sw = true) (b : UInt8) (hb : b ≠ 0)
    (r : Bytes) (tp ap cur) :
    (if isToken (st c ver (serSw sw ++ b :: r) tp ap cur) 0x00 = true
      then parseSwitchPage false (st c ver (serSw sw ++ b :: r) tp ap cur)
      else pure (st c ver (serSw sw ++ b :: r) tp ap cur))
    = .ok (st c ver (b :: r) tp (swPage sw ap) cur) := by
  cases sw with
  | none => simp [serSw, swPage, hb, pure, Except.pure]
  | some p =>
    have hp : p < 256 := by simpa [wfSw] using hsw
    simp only [serSw, List.cons_append, List.nil_append, isToken_cons, beq_self_eq_true, ↓reduceIte,
      parseSwitchPage_attr c ver p hp, swPage, Option.getD_some]

end Wbxml.Lemmas.ParseSer
