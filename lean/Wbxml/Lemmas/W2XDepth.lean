/-
  C01, bounds, depth: the element nesting of the tree `treeOfWbxml` builds is linear in the input
  length for every fixed number of embedded-document levels.

  * `parse_chars_le`: no character-data payload is longer than `2n + M + 45` octets.
  * `eltDepthC D`: element nesting where an embedded document nested deeper than `D` levels counts 0.
  * `hgt` / `stHgt`: the nesting the builder's open frames will have once closed; `HI`: it is at most
    (start-element events so far) + (deepest embedded document attached).
  * `depthBound M D n`: `0` for `D = 0`, `n + depthBound M D' (2n + M + 45)` for `D = D' + 1`.
  * `treeOfWbxml_eltDepth_le`.
-/
import Wbxml.Lemmas.W2XTree

namespace Wbxml.Lemmas.W2X
open Wbxml Wbxml.Model Wbxml.Lemmas.ParserSafe

/-! ### No payload is longer than `2n + M + 45` -/

theorem pevSize_mem (cc : Bytes → Nat) : ∀ {es : List Event} {s : Bytes}, Event.chars s ∈ es →
    1 + s.length + cc s ≤ pevSize cc es
  | e :: es, s, h => by
    simp only [pevSize]
    rcases List.mem_cons.1 h with h | h
    · rw [← h]; simp only [pevSize1]; omega
    · have := pevSize_mem cc h; omega

/-- A longer payload would alone outweigh the bound on the whole event list. -/
theorem parse_chars_le (cfg : PCfg) (bs : Bytes) (s : Bytes) (h : Event.chars s ∈ (parse cfg bs).events) :
    s.length ≤ 2 * bs.length + tableM cfg.main + 45 := by
  refine Classical.byContradiction fun hn => ?_
  have hb := parse_pevSizeG_le cfg bs
    (fun b => if b.length ≤ 2 * bs.length + tableM cfg.main + 45 then 0
      else bs.length * (bs.length + tableM cfg.main + 45 + 0) + 1) 0
    (fun b hb => by simp only [hb, if_true]; omega)
  have hm := pevSize_mem (fun b => if b.length ≤ 2 * bs.length + tableM cfg.main + 45 then 0
      else bs.length * (bs.length + tableM cfg.main + 45 + 0) + 1) h
  simp only [hn, if_false] at hm
  omega

/-! ### Capped element nesting -/

mutual
def eltDepthC (D : Nat) : Node → Nat
  | .elt _ _ kids => 1 + eltDepthCL D kids
  | .text _ => 0
  | .cdata kids => eltDepthCL D kids
  | .tree l cs r => if embDepthN (.tree l cs r) ≤ D then (Node.tree l cs r).eltDepth else 0
def eltDepthCL (D : Nat) : List Node → Nat
  | [] => 0
  | n :: rest => max (eltDepthC D n) (eltDepthCL D rest)
end

mutual
theorem eltDepthC_eq (D : Nat) : ∀ (n : Node), embDepthN n ≤ D → eltDepthC D n = n.eltDepth
  | .elt name a kids, h => by
    simp only [embDepthN] at h
    rw [eltDepthC, Node.eltDepth, eltDepthCL_eq D kids h]
  | .text s, _ => by rw [eltDepthC, Node.eltDepth]
  | .cdata kids, h => by
    simp only [embDepthN] at h
    rw [eltDepthC, Node.eltDepth, eltDepthCL_eq D kids h]
  | .tree l cs r, h => by rw [eltDepthC, if_pos h]
theorem eltDepthCL_eq (D : Nat) : ∀ (ns : List Node), embDepthL ns ≤ D → eltDepthCL D ns = Node.eltDepthL ns
  | [], _ => by rw [eltDepthCL, Node.eltDepthL]
  | n :: rest, h => by
    simp only [embDepthL] at h
    rw [eltDepthCL, Node.eltDepthL, eltDepthC_eq D n (by omega), eltDepthCL_eq D rest (by omega)]
end

theorem eltDepthCL_append (D : Nat) : ∀ (a b : List Node),
    eltDepthCL D (a ++ b) = max (eltDepthCL D a) (eltDepthCL D b)
  | [], b => by simp [eltDepthCL]
  | n :: a, b => by simp only [List.cons_append, eltDepthCL, eltDepthCL_append D a b]; omega

theorem addKid_eltDepthC (D : Nat) (kids : List Node) (n : Node) :
    eltDepthCL D (addKid kids n) ≤ max (eltDepthCL D kids) (eltDepthC D n) := by
  unfold addKid
  split
  · rename_i s t hl
    obtain ⟨ys, hk⟩ := List.getLast?_eq_some_iff.mp hl
    subst hk
    rw [List.dropLast_concat, eltDepthCL_append, eltDepthCL_append]
    simp only [eltDepthCL, eltDepthC]
    omega
  · rw [eltDepthCL_append]
    simp only [eltDepthCL]
    omega

/-! ### Element nesting of the builder's state -/

def lvl : FrameKind → Nat
  | .elt _ _ => 1
  | .cdata => 0

/-- Nesting the open frames will have once closed, with a pending child of nesting `d` under the
    innermost one (`stack` is innermost first). -/
def hgt (D : Nat) : Nat → List Frame → Nat
  | d, [] => d
  | d, f :: rest => hgt D (lvl f.kind + max d (eltDepthCL D f.kids)) rest

/-- Open element frames. -/
def eltCount : List Frame → Nat
  | [] => 0
  | f :: rest => lvl f.kind + eltCount rest

def rootDepthC (D : Nat) : Option Node → Nat
  | some r => eltDepthC D r
  | none => 0

def stHgt (D : Nat) (b : BState) : Nat := max (hgt D 0 b.stack) (rootDepthC D b.root)

theorem hgt_mono (D : Nat) : ∀ (S : List Frame) (d d' : Nat), d ≤ d' → hgt D d S ≤ hgt D d' S
  | [], d, d', h => h
  | f :: rest, d, d', h => by
    simp only [hgt]
    exact hgt_mono D rest _ _ (by omega)

theorem hgt_add (D : Nat) : ∀ (S : List Frame) (d k : Nat), hgt D (d + k) S ≤ hgt D d S + k
  | [], d, k => Nat.le_refl _
  | f :: rest, d, k => by
    simp only [hgt]
    have h1 := hgt_add D rest (lvl f.kind + max d (eltDepthCL D f.kids)) k
    have h2 := hgt_mono D rest (lvl f.kind + max (d + k) (eltDepthCL D f.kids))
      (lvl f.kind + max d (eltDepthCL D f.kids) + k) (by omega)
    omega

/-- A pending child either does not matter, or sits below all the open elements. -/
theorem hgt_le_max (D : Nat) : ∀ (S : List Frame) (d : Nat), hgt D d S ≤ max (hgt D 0 S) (eltCount S + d)
  | [], d => by simp only [hgt, eltCount]; omega
  | f :: rest, d => by
    simp only [hgt, eltCount]
    by_cases hd : d ≤ eltDepthCL D f.kids
    · have e : max d (eltDepthCL D f.kids) = max 0 (eltDepthCL D f.kids) := by omega
      rw [e]; omega
    · have e : lvl f.kind + max d (eltDepthCL D f.kids) = lvl f.kind + d := by omega
      rw [e]
      have h1 := hgt_le_max D rest (lvl f.kind + d)
      have h2 := hgt_mono D rest 0 (lvl f.kind + max 0 (eltDepthCL D f.kids)) (by omega)
      omega

theorem close_eltDepthC (D : Nat) (f : Frame) : eltDepthC D f.close = lvl f.kind + eltDepthCL D f.kids := by
  unfold Frame.close
  cases f.kind with
  | elt n a => simp [eltDepthC, lvl]
  | cdata => simp [eltDepthC, lvl]

/-- Attaching a finished node below the frames `S`. -/
theorem attach_hgt (D : Nat) (b : BState) (S : List Frame) (n : Node) :
    stHgt D (({ b with stack := S } : BState).attach n) ≤ max (hgt D (eltDepthC D n) S) (rootDepthC D b.root) := by
  unfold BState.attach
  cases S with
  | nil =>
    dsimp only
    cases hr : b.root with
    | none => simp only [stHgt, hgt, rootDepthC]; omega
    | some r => simp only [stHgt, hgt, rootDepthC]; omega
  | cons g rest =>
    simp only [stHgt, hgt]
    have h1 := addKid_eltDepthC D g.kids n
    have h2 := hgt_mono D rest (lvl g.kind + max 0 (eltDepthCL D (addKid g.kids n)))
      (lvl g.kind + max (eltDepthC D n) (eltDepthCL D g.kids)) (by omega)
    omega

theorem attach_eltCount (b : BState) (n : Node) : eltCount (b.attach n).stack = eltCount b.stack := by
  unfold BState.attach
  split
  · rename_i f rest hs; simp only [hs, eltCount]
  · split <;> rfl

/-- The invariant: at most `k` open elements, and no frame will close deeper than `k + Dm`. -/
structure HI (D Dm k : Nat) (b : BState) : Prop where
  cnt : eltCount b.stack ≤ k
  hgt : stHgt D b ≤ k + Dm

theorem HI.mono {D Dm k k' : Nat} {b : BState} (h : HI D Dm k b) (hk : k ≤ k') : HI D Dm k' b :=
  ⟨by have := h.cnt; omega, by have := h.hgt; omega⟩

theorem attach_HI {D Dm k : Nat} {b : BState} (h : HI D Dm k b) {n : Node} (hn : eltDepthC D n ≤ Dm) :
    HI D Dm k (b.attach n) := by
  refine ⟨by rw [attach_eltCount]; exact h.cnt, ?_⟩
  have h1 : stHgt D (b.attach n) ≤ max (hgt D (eltDepthC D n) b.stack) (rootDepthC D b.root) := attach_hgt D b b.stack n
  have h2 := hgt_le_max D b.stack (eltDepthC D n)
  have h3 := h.hgt
  have h4 := h.cnt
  simp only [stHgt] at h3
  omega

/-- Leaving the innermost frame: close it and attach it below. -/
theorem popAttach_HI {D Dm k : Nat} {b : BState} (h : HI D Dm k b) {f : Frame} {rest : List Frame}
    (hs : b.stack = f :: rest) : HI D Dm k (({ b with stack := rest } : BState).attach f.close) := by
  refine ⟨?_, ?_⟩
  · rw [attach_eltCount]
    have := h.cnt
    simp only [hs, eltCount] at this ⊢
    omega
  · have h1 := attach_hgt D b rest f.close
    rw [close_eltDepthC] at h1
    have h3 := h.hgt
    simp only [stHgt, hs, hgt] at h3
    have e : max 0 (eltDepthCL D f.kids) = eltDepthCL D f.kids := by omega
    rw [e] at h3
    omega

theorem leaveCdata_HI {D Dm k : Nat} {b : BState} (h : HI D Dm k b) : HI D Dm k b.leaveCdata := by
  unfold BState.leaveCdata
  split
  · rename_i f g rest hs
    split
    · rename_i hk
      refine ⟨?_, ?_⟩
      · have := h.cnt
        simp only [hs, eltCount] at this ⊢
        omega
      · have h3 := h.hgt
        have h1 := addKid_eltDepthC D g.kids f.close
        rw [close_eltDepthC] at h1
        have h2 := hgt_mono D rest (lvl g.kind + max 0 (eltDepthCL D (addKid g.kids f.close)))
          (lvl g.kind + max (lvl f.kind + max 0 (eltDepthCL D f.kids)) (eltDepthCL D g.kids)) (by omega)
        simp only [stHgt, hs, hgt] at h3 ⊢
        omega
    · exact h
  · exact h

def startW : Event → Nat
  | .startElt _ _ => 1
  | _ => 0

/-- Embedded documents from payloads of at most `Bm` octets nest at most `Dm` elements. -/
def EmbDepth (D : Nat) (emb : Nat → Bytes → Option Tree) (Bm Dm : Nat) : Prop :=
  ∀ cs s t, s.length ≤ Bm → emb cs s = some t → eltDepthC D (.tree t.lang t.origCharset t.root) ≤ Dm

theorem step_chars_HI {D Dm k Bm : Nat} (main : List Lang) {emb : Nat → Bytes → Option Tree}
    (hemb : EmbDepth D emb Bm Dm) {b : BState} (h : HI D Dm k b) (s : Bytes) (hs : s.length ≤ Bm) :
    HI D Dm k (buildStep main emb b (.chars s)) := by
  unfold buildStep
  split
  · exact h
  · have htext : HI D Dm k (b.attach (.text s)) := attach_HI h (by simp only [eltDepthC]; omega)
    have hcd : HI D Dm k (match b.stack with
        | f :: _ =>
          (match f.kind with
           | .cdata => b.attach (.text s)
           | _ => ({ b with stack := { kind := .cdata, kids := [] } :: b.stack } : BState).attach (.text s))
        | [] => b.attach (.text s)) := by
      split
      · split
        · exact htext
        · refine attach_HI (b := { b with stack := { kind := .cdata, kids := [] } :: b.stack }) ⟨?_, ?_⟩
            (by simp only [eltDepthC]; omega)
          · have := h.cnt; simp only [eltCount, lvl]; omega
          · have := h.hgt
            simp only [stHgt, hgt, lvl, eltDepthCL, Nat.max_self, Nat.zero_add] at this ⊢
            omega
      · exact htext
    dsimp only
    cases syncmlDataType b.stack with
    | normal => exact htext
    | wbxml =>
      dsimp only
      split
      · rename_i t ht
        exact attach_HI h (hemb _ _ _ hs ht)
      · exact htext
    | clear => exact hcd
    | vobject => exact hcd

/-- **One callback**: only a start-element event opens an element. -/
theorem buildStep_HI {D Dm k Bm : Nat} (main : List Lang) {emb : Nat → Bytes → Option Tree}
    (hemb : EmbDepth D emb Bm Dm) {b : BState} (h : HI D Dm k b) (e : Event)
    (he : ∀ s, e = .chars s → s.length ≤ Bm) : HI D Dm (k + startW e) (buildStep main emb b e) := by
  cases e with
  | chars s => exact step_chars_HI main hemb h s (he s rfl)
  | startDoc cs l =>
    unfold buildStep
    split
    · exact h
    · exact ⟨h.cnt, h.hgt⟩
  | endDoc => unfold buildStep; split <;> exact h
  | pi t d => unfold buildStep; split <;> exact h
  | startElt n attrs =>
    unfold buildStep
    split
    · exact h.mono (Nat.le_add_right _ _)
    · have h1 := leaveCdata_HI h
      dsimp only
      split
      · exact ⟨Nat.le_trans h1.cnt (Nat.le_add_right _ _), Nat.le_trans h1.hgt (by omega)⟩
      · refine ⟨?_, ?_⟩
        · have := h1.cnt; simp only [eltCount, lvl, startW]; omega
        · have h3 := h1.hgt
          have h4 := hgt_add D b.leaveCdata.stack 0 1
          simp only [stHgt, hgt, lvl, eltDepthCL, startW, Nat.max_self, Nat.zero_add, Nat.add_zero] at h3 h4 ⊢
          omega
  | endElt n =>
    unfold buildStep
    split
    · exact h
    · dsimp only
      split
      · exact ⟨h.cnt, h.hgt⟩
      · rename_i f rest hs
        split
        · split
          · rename_i g rest'
            have h1 := leaveCdata_HI h
            have e1 : b.leaveCdata = { b with stack := { g with kids := addKid g.kids f.close } :: rest' } := by
              have hk : f.kind = FrameKind.cdata := by assumption
              unfold BState.leaveCdata
              simp only [hs, hk]
            rw [e1] at h1
            exact popAttach_HI (b := { b with stack := { g with kids := addKid g.kids f.close } :: rest' }) h1 rfl
          · exact ⟨h.cnt, h.hgt⟩
        · exact popAttach_HI h hs

def startCountW : List Event → Nat
  | [] => 0
  | e :: es => startW e + startCountW es

theorem startCountW_eq : ∀ (es : List Event), startCountW es = startCount es
  | [] => rfl
  | e :: es => by
    have := startCountW_eq es
    cases e <;> simp only [startCountW, startW, startCount, this] <;> omega

theorem fold_HI {D Dm Bm : Nat} (main : List Lang) {emb : Nat → Bytes → Option Tree} (hemb : EmbDepth D emb Bm Dm) :
    ∀ (es : List Event) (k : Nat) (b : BState), HI D Dm k b → (∀ s, Event.chars s ∈ es → s.length ≤ Bm) →
      HI D Dm (k + startCountW es) (es.foldl (buildStep main emb) b)
  | [], k, b, h, _ => h
  | e :: es, k, b, h, hs => by
    rw [List.foldl_cons]
    have h1 := buildStep_HI main hemb h e (fun s he => hs s (by rw [he]; simp))
    have h2 := fold_HI main hemb es _ _ h1 (fun s hm => hs s (by simp [hm]))
    simp only [startCountW]
    rw [← Nat.add_assoc]
    exact h2

/-! ### The bound, level by level -/

/-- Element-nesting bound of a tree with fewer than `D` levels of embedded documents built from `n`
    octets: linear in `n` for every fixed `D`. -/
def depthBound (M : Nat) : Nat → Nat → Nat
  | 0, _ => 0
  | D + 1, n => n + depthBound M D (2 * n + M + 45)

theorem depthBound_mono (M : Nat) : ∀ (D : Nat) {n n' : Nat}, n ≤ n' → depthBound M D n ≤ depthBound M D n'
  | 0, _, _, _ => Nat.le_refl _
  | D + 1, n, n', h => by
    have ih := depthBound_mono M D (n := 2 * n + M + 45) (n' := 2 * n' + M + 45) (by omega)
    simp only [depthBound]
    omega

/-- **Element nesting ≤ linear in the input, per nesting level of embedded documents.** -/
theorem treeOfWbxml_eltDepth_le (main : List Lang) : ∀ (D f lang cs : Nat) (bs : Bytes) (t : Tree),
    treeOfWbxml main f lang cs bs = .ok t → embDepthT t + 1 ≤ D →
      t.eltDepth ≤ depthBound (tableM main) D bs.length
  | 0, _, _, _, _, _, _, hd => by omega
  | D + 1, 0, _, _, _, _, h, _ => by simp [treeOfWbxml] at h
  | D + 1, f + 1, lang, cs, bs, t, h, hd => by
    rw [treeOfWbxml] at h
    have hemb : EmbDepth D (fun (cs : Nat) (bs : Bytes) =>
        match treeOfWbxml main f 0 cs bs with
        | .ok t => some t
        | .error _ => none) (2 * bs.length + tableM main + 45)
        (depthBound (tableM main) D (2 * bs.length + tableM main + 45)) := by
      intro cs' s t' hs ht'
      dsimp only at ht'
      split at ht'
      · rename_i t'' heq
        cases ht'
        rw [eltDepthC]
        split
        · rename_i hle
          rw [embDepthN_tree] at hle
          have h1 := treeOfWbxml_eltDepth_le main D f 0 cs' s _ heq hle
          have h2 := depthBound_mono (tableM main) D hs
          unfold Tree.eltDepth at h1
          omega
        · omega
      · cases ht'
    split at h
    · cases h
    · split at h
      · cases h
      · cases h
        have hfold := fold_HI main hemb
          (parse { main := main, langForced := lang, metaCharset := cs } bs).events 0 {}
          ⟨Nat.le_refl _, by simp [stHgt, hgt, rootDepthC]⟩
          (fun s hs => parse_chars_le { main := main, langForced := lang, metaCharset := cs } bs s hs)
        have hsc := parse_startCount_le { main := main, langForced := lang, metaCharset := cs } bs
        rw [startCountW_eq] at hfold
        generalize List.foldl _ _ _ = b at hfold hd ⊢
        have hh := hfold.hgt
        unfold Tree.eltDepth
        dsimp only
        simp only [depthBound]
        cases hr : b.root with
        | none => simp only [Node.eltDepth]; omega
        | some r =>
          have hdr : embDepthN r ≤ D := by
            simp only [embDepthT, hr] at hd; omega
          simp only [stHgt, hr, rootDepthC] at hh
          rw [eltDepthC_eq D r hdr] at hh
          simp only [Node.eltDepth]
          omega


/-! ### Combination: output ≤ polynomial of the input -/

/-- Longest namespace name of the main table. -/
def nsMax (main : List Lang) : Nat := maxLen langNs main
/-- Longest XML declaration + DOCTYPE line of the main table. -/
def hdrMax (main : List Lang) : Nat := maxLen hdrLen main

/-- The bound on the XML text: `M`, `K`, `H` table constants, `ind` the effective indentation step, `D` one
    more than the number of embedded-document levels, `n` the input length. For fixed `D` a polynomial in
    `n` of degree `D + 1` (compact output) resp. `D + 2` (indented output). -/
def w2xPoly (M K H ind D n : Nat) : Nat :=
  (18 + K) * treeBound M D n + 2 * (ind * (treeBound M D n * depthBound M D n)) + H + 2

theorem langsOk_tree_lang {Q : Lang → Bool} {l : Lang} {cs : Nat} {r : Option Node}
    (h : langsOk Q (.tree (some l) cs r) = true) : Q l = true := by
  cases r with
  | none => simpa only [langsOk] using h
  | some r => simp only [langsOk, Bool.and_eq_true] at h; exact h.1

/-- **The conversion's intermediate objects and its result are bounded, level by level.** -/
theorem wbxml2xml_length_le (cfg : W2XCfg) (bs xml : Bytes) (h : wbxml2xml cfg bs = .ok xml) :
    ∃ t, treeOfWbxml cfg.main (bs.length + 1) cfg.lang cfg.charset bs = .ok t ∧
      treeToXml cfg t.xmlFuel t = .ok xml ∧
      ∀ D, embDepthT t < D →
        t.size ≤ treeBound (tableM cfg.main) D bs.length ∧
        t.eltDepth ≤ depthBound (tableM cfg.main) D bs.length ∧
        xml.length ≤ w2xPoly (tableM cfg.main) (nsMax cfg.main) (hdrMax cfg.main) (indentOf cfg) D bs.length := by
  unfold wbxml2xml at h
  split at h
  · cases h
  · obtain ⟨t, ht, hx⟩ := bind_eq_ok2 h
    refine ⟨t, ht, hx, ?_⟩
    intro D hD
    have hs := treeOfWbxml_size_le cfg.main D _ _ _ _ _ ht (by omega)
    have hd := treeOfWbxml_eltDepth_le cfg.main D _ _ _ _ _ ht (by omega)
    refine ⟨hs, hd, ?_⟩
    have hK := treeOfWbxml_langs cfg.main (fun l => decide (langNs l ≤ nsMax cfg.main))
      (fun l hl => decide_eq_true (le_maxLen langNs hl)) _ _ _ _ _ ht
    have hH := treeOfWbxml_langs cfg.main (fun l => decide (hdrLen l ≤ hdrMax cfg.main))
      (fun l hl => decide_eq_true (le_maxLen hdrLen hl)) _ _ _ _ _ ht
    obtain ⟨l, hl, hlen⟩ := treeToXml_length_le cfg _ t xml (nsMax cfg.main) hK hx
    rw [hl] at hH
    have hl' : hdrLen l ≤ hdrMax cfg.main := of_decide_eq_true (langsOk_tree_lang hH)
    have e1 : (18 + nsMax cfg.main) * t.size ≤ (18 + nsMax cfg.main) * treeBound (tableM cfg.main) D bs.length :=
      Nat.mul_le_mul_left _ hs
    have e2 := ind_mono (indentOf cfg) hs hd
    unfold w2xPoly
    omega

end Wbxml.Lemmas.W2X
