/-
  C19 — memory primitives, the storage invariant and the core operations
  (`create`, `get_char`, `set_char`, `grow_buff`/`insert_data`, `delete`).
-/
import Wbxml.Model.Buf
set_option linter.unusedSimpArgs false
namespace Wbxml.Model
open Wbxml

namespace Mem

theorem read_mid (a x c : Bytes) (off n : Nat) (ho : off = a.length) (hn : n = x.length) :
    Mem.read (a ++ x ++ c) off n = .ok x := by
  subst ho hn
  simp [Mem.read]

theorem write_mid (a x c bs : Bytes) (off : Nat) (ho : off = a.length) (hn : bs.length = x.length) :
    Mem.write (a ++ x ++ c) off bs = .ok (a ++ bs ++ c) := by
  subst ho
  simp [Mem.write, hn]

theorem store_mid (a c : Bytes) (y v : UInt8) (off : Nat) (ho : off = a.length) :
    Mem.store (a ++ y :: c) off v = .ok (a ++ v :: c) := by
  have := write_mid a [y] c [v] off ho rfl
  simpa [Mem.store] using this

theorem load_mid (a c : Bytes) (y : UInt8) (off : Nat) (ho : off = a.length) :
    Mem.load (a ++ y :: c) off = .ok y := by
  subst ho
  simp [Mem.load]

theorem move_ok (m t m' : Mem) (dst src n : Nat) (hr : m.read src n = .ok t) (hw : m.write dst t = .ok m') :
    m.move dst src n = .ok m' := by
  simp [Mem.move, hr, hw]

/-- Split a list at two offsets. -/
theorem split3 (t : Bytes) (i n : Nat) (h : i + n ≤ t.length) :
    t = t.take i ++ (t.drop i).take n ++ t.drop (i + n) ∧ (t.take i).length = i ∧ ((t.drop i).take n).length = n := by
  refine ⟨?_, by simp; omega, by simp; omega⟩
  rw [List.append_assoc, ← List.drop_drop, List.take_append_drop, List.take_append_drop]

end Mem

namespace Buf

/-- The canonical dynamic buffer with contents `c` and `j` spare bytes after the terminator. -/
def canon (c j : Bytes) : Buf := ⟨some (c ++ 0 :: j), c.length, c.length + 1 + j.length, false⟩

/-- The empty dynamic buffer that owns no storage. -/
def nullBuf : Buf := ⟨none, 0, 0, false⟩

/-- Storage invariant of a dynamic buffer (DESIGN.md §5 C19): either no storage at all and length
    0, or `len < malloced`, the block has `malloced` bytes and `data[len] = 0`. -/
def DynInv (b : Buf) : Prop :=
  b.isStatic = false ∧
  match b.data with
  | none => b.len = 0 ∧ b.malloced = 0
  | some m => m.length = b.malloced ∧ b.len < b.malloced ∧ m[b.len]? = some 0

/-- A static buffer aliases at least `len` readable bytes. -/
def StaInv (b : Buf) : Prop :=
  b.isStatic = true ∧ ∃ m, b.data = some m ∧ b.len ≤ m.length

def Inv (b : Buf) : Prop := DynInv b ∨ StaInv b

/-- `b` is a well-formed dynamic buffer denoting `c`. -/
def Rep (b : Buf) (c : Bytes) : Prop := DynInv b ∧ b.abs = c

/-- What the read-only operations need: the first `len` bytes are readable and are `c`. -/
def View (b : Buf) (c : Bytes) : Prop := b.abs = c ∧ b.len = c.length

theorem canon_dynInv (c j : Bytes) : DynInv (canon c j) := by
  simp [DynInv, canon]; omega

theorem abs_canon (c j : Bytes) : (canon c j).abs = c := by
  simp [abs, canon]

theorem rep_canon (c j : Bytes) : Rep (canon c j) c := ⟨canon_dynInv c j, abs_canon c j⟩

theorem rep_null : Rep nullBuf [] := by
  simp [Rep, DynInv, nullBuf, abs]

/-- Every well-formed dynamic buffer is `nullBuf` or a `canon`. -/
theorem DynInv.cases {b : Buf} (h : DynInv b) :
    b = nullBuf ∨ ∃ c j, b = canon c j := by
  obtain ⟨hs, hm⟩ := h
  cases b with
  | mk data len malloced isStatic =>
    simp only at hs hm
    subst hs
    cases data with
    | none => left; simp only at hm; simp [nullBuf, hm.1, hm.2]
    | some m =>
      right
      simp only at hm
      obtain ⟨h1, h2, h3⟩ := hm
      have hlt : len < m.length := by omega
      have hget : m[len] = 0 := by
        have := List.getElem?_eq_getElem hlt
        rw [this] at h3; exact Option.some.inj h3
      have hsplit : m = m.take len ++ 0 :: m.drop (len + 1) := by
        conv => lhs; rw [← List.take_append_drop len m]
        congr 1
        rw [List.drop_eq_getElem_cons hlt, hget]
      have e1 : (m.take len).length = len := by simp; omega
      have e2 : (m.drop (len + 1)).length = m.length - (len + 1) := by simp
      refine ⟨m.take len, m.drop (len + 1), ?_⟩
      simp only [canon, Buf.mk.injEq, true_and]
      refine ⟨by rw [← hsplit], e1.symm, ?_, trivial⟩
      rw [e1, e2]; omega

theorem Rep.cases {b : Buf} {c : Bytes} (h : Rep b c) :
    (b = nullBuf ∧ c = []) ∨ ∃ j, b = canon c j := by
  obtain ⟨hd, ha⟩ := h
  rcases hd.cases with rfl | ⟨c', j, rfl⟩
  · left; simp [abs, nullBuf] at ha; exact ⟨rfl, ha⟩
  · right; rw [abs_canon] at ha; subst ha; exact ⟨j, rfl⟩

theorem Rep.view {b : Buf} {c : Bytes} (h : Rep b c) : View b c := by
  rcases h.cases with ⟨rfl, rfl⟩ | ⟨j, rfl⟩
  · simp [View, abs, nullBuf]
  · exact ⟨abs_canon c j, rfl⟩

theorem Rep.dyn {b : Buf} {c : Bytes} (h : Rep b c) : b.isStatic = false := h.1.1

theorem StaInv.view {b : Buf} (h : StaInv b) : View b b.abs := by
  obtain ⟨_, m, hm, hl⟩ := h
  simp [View, abs, hm]; omega

theorem Inv.view {b : Buf} (h : Inv b) : View b b.abs := by
  rcases h with h | h
  · exact (show Rep b b.abs from ⟨h, rfl⟩).view
  · exact h.view

/-- A view gives the memory in split form when the buffer is not empty. -/
theorem View.mem {b : Buf} {c : Bytes} (h : View b c) (hne : b.len ≠ 0) :
    ∃ r, b.data = some (c ++ r) := by
  obtain ⟨ha, hl⟩ := h
  cases hd : b.data with
  | none => simp [abs, hd] at ha; subst ha; simp at hl; omega
  | some m =>
    simp [abs, hd] at ha
    exact ⟨m.drop b.len, by rw [← ha, List.take_append_drop]⟩

/-! ### create / static create -/

theorem create_none (block : Nat) : create none block = .ok nullBuf := rfl

theorem create_nil (block : Nat) : create (some []) block = .ok nullBuf := rfl

theorem create_some (d : Bytes) (block : Nat) (hd : d ≠ []) :
    ∃ j, create (some d) block = .ok (canon d j) ∧
      d.length + 1 + j.length = (if d.length + 1 > block + 1 then d.length + 1 + block else block + 1) := by
  have hlen : d.length ≠ 0 := by simpa using hd
  generalize hM : (if d.length + 1 > block + 1 then d.length + 1 + block else block + 1) = M
  have hM' : d.length + 1 ≤ M := by rw [← hM]; split <;> omega
  obtain ⟨k, rfl⟩ : ∃ k, M = d.length + (k + 1) := ⟨M - d.length - 1, by omega⟩
  refine ⟨List.replicate k 0, ?_, by simp; omega⟩
  have h0 : Mem.realloc none (d.length + (k + 1)) = [] ++ List.replicate d.length 0 ++ List.replicate (k + 1) 0 := by
    simp only [Mem.realloc, List.nil_append, List.replicate_append_replicate]
  have h1 : Mem.write (Mem.realloc none (d.length + (k + 1))) 0 d = .ok ([] ++ d ++ List.replicate (k + 1) 0) := by
    rw [h0]; exact Mem.write_mid [] _ _ d 0 rfl (by simp)
  have h2 : Mem.store ([] ++ d ++ List.replicate (k + 1) 0) d.length 0 = .ok (d ++ 0 :: List.replicate k 0) := by
    have : ([] : Bytes) ++ d ++ List.replicate (k + 1) 0 = d ++ 0 :: List.replicate k 0 := by
      simp only [List.nil_append, List.replicate_succ]
    rw [this]; exact Mem.store_mid d _ 0 0 _ rfl
  simp only [create, hlen, if_false, hM, h1, h2, canon]
  simp; omega

theorem rep_create (src : Option Bytes) (block : Nat) :
    ∃ b, create src block = .ok b ∧ Rep b (src.getD []) := by
  cases src with
  | none => exact ⟨nullBuf, rfl, rep_null⟩
  | some d =>
    by_cases hd : d = []
    · subst hd; exact ⟨nullBuf, rfl, rep_null⟩
    · obtain ⟨j, hj, _⟩ := create_some d block hd
      exact ⟨_, hj, rep_canon d j⟩

theorem staCreate_inv (d : Bytes) : StaInv (staCreate d) ∧ (staCreate d).abs = d := by
  simp [StaInv, staCreate, abs]

/-! ### get_char / set_char / contents -/

theorem getChar_view {b : Buf} {c : Bytes} (h : View b c) (pos : Nat) : b.getChar pos = .ok c[pos]? := by
  unfold getChar
  by_cases hp : pos ≥ b.len
  · have : c[pos]? = none := by rw [List.getElem?_eq_none]; rw [← h.2]; exact hp
    simp [hp, this]
  · have hne : b.len ≠ 0 := by omega
    obtain ⟨r, hr⟩ := h.mem hne
    have hpc : pos < c.length := by rw [← h.2]; omega
    have hl : Mem.load (c ++ r) pos = .ok c[pos] := by
      rw [Mem.load, List.getElem?_append_left hpc, List.getElem?_eq_getElem hpc]
    simp [hp, mem, hr, hl, List.getElem?_eq_getElem hpc]

theorem contents_view {b : Buf} {c : Bytes} (h : View b c) : b.contents = .ok c := by
  unfold contents
  by_cases h0 : b.len = 0
  · have : c = [] := by have := h.2; rw [h0] at this; exact List.eq_nil_of_length_eq_zero this.symm
    simp [h0, this]
  · obtain ⟨r, hr⟩ := h.mem h0
    have := Mem.read_mid [] c r 0 b.len rfl h.2
    simp only [List.nil_append] at this
    simp [h0, mem, hr, this]

theorem getCstr_view {b : Buf} {c : Bytes} (h : View b c) : b.getCstr = .ok c := by
  have := contents_view h
  simpa [getCstr, contents] using this

/-- Reading a prefix of the contents (the `memcmp` reads). -/
theorem read_prefix_view {b : Buf} {c : Bytes} (h : View b c) (n : Nat) (hn : n ≤ b.len) (h0 : n ≠ 0) :
    (match b.mem with | .ok m => m.read 0 n | .error e => .error e) = .ok (c.take n) := by
  have hne : b.len ≠ 0 := by omega
  obtain ⟨r, hr⟩ := h.mem hne
  have hsplit : c ++ r = [] ++ c.take n ++ (c.drop n ++ r) := by simp [← List.append_assoc]
  have := Mem.read_mid [] (c.take n) (c.drop n ++ r) 0 n rfl (by simp; rw [← h.2]; omega)
  simp only [mem, hr]
  rw [hsplit]; exact this

theorem setChar_static {b : Buf} (hs : b.isStatic = true) (pos : Nat) (ch : UInt8) :
    b.setChar pos ch = .ok (b, false) := by simp [setChar, hs]

theorem setChar_oob {b : Buf} (pos : Nat) (ch : UInt8) (hp : pos ≥ b.len) :
    b.setChar pos ch = .ok (b, false) := by simp [setChar, hp]

theorem setChar_rep {b : Buf} {c : Bytes} (h : Rep b c) (pos : Nat) (ch : UInt8) (hp : pos < c.length) :
    ∃ b', b.setChar pos ch = .ok (b', true) ∧ Rep b' (c.set pos ch) ∧ b'.malloced = b.malloced := by
  rcases h.cases with ⟨rfl, rfl⟩ | ⟨j, rfl⟩
  · simp at hp
  · refine ⟨canon (c.set pos ch) j, ?_, rep_canon _ _, by simp [canon]⟩
    obtain ⟨hc, h1, h2⟩ := Mem.split3 c pos 1 (by omega)
    have hmem : c ++ 0 :: j = c.take pos ++ c[pos] :: (c.drop (pos + 1) ++ 0 :: j) := by
      have : c = c.take pos ++ c[pos] :: c.drop (pos + 1) := by
        conv => lhs; rw [← List.take_append_drop pos c, List.drop_eq_getElem_cons hp]
      conv => lhs; rw [this]
      simp only [List.append_assoc, List.cons_append]
    have hst := Mem.store_mid (c.take pos) (c.drop (pos + 1) ++ 0 :: j) c[pos] ch pos (by simp; omega)
    have hset : c.set pos ch = c.take pos ++ ch :: c.drop (pos + 1) := by
      rw [List.set_eq_take_append_cons_drop]; simp [hp]
    have hnp : ¬ pos ≥ c.length := by omega
    simp only [setChar, canon, Bool.false_or, decide_eq_true_eq, hnp, if_false, mem]
    rw [hmem, hst, hset]
    simp only [Except.ok.injEq, Prod.mk.injEq, and_true, Buf.mk.injEq, true_and, List.append_assoc,
      List.cons_append, List.length_append, List.length_cons, List.length_take, List.length_drop]
    omega

/-! ### grow_buff / insert_data -/

theorem growBuff_null (size : Nat) :
    nullBuf.growBuff size = (canon [] (List.replicate size 0), true) := by
  simp [growBuff, nullBuf, canon, Mem.realloc, List.replicate_succ]
  omega

theorem growBuff_canon (c j : Bytes) (size : Nat) :
    ∃ j', (canon c j).growBuff size = (canon c j', true) ∧ size ≤ j'.length ∧ j.length ≤ j'.length := by
  by_cases hg : c.length + (size + 1) > c.length + 1 + j.length
  · generalize hM : (if (c.length + 1 + j.length) * 2 < c.length + (size + 1) then c.length + (size + 1)
      else (c.length + 1 + j.length) * 2) = M
    have hM' : c.length + (size + 1) ≤ M := by rw [← hM]; split <;> omega
    refine ⟨j ++ List.replicate (M - (c.length + 1 + j.length)) 0, ?_, by simp; omega, by simp⟩
    have hr : Mem.realloc (some (c ++ 0 :: j)) M = c ++ 0 :: (j ++ List.replicate (M - (c.length + 1 + j.length)) 0) := by
      simp only [Mem.realloc]
      rw [List.take_of_length_le (by simp; omega)]
      simp only [List.length_append, List.length_cons, List.append_assoc, List.cons_append]
      rw [show c.length + (j.length + 1) = c.length + 1 + j.length from by omega]
    have hgo : (canon c j).growBuff size = (⟨some (Mem.realloc (some (c ++ 0 :: j)) M), c.length, M, false⟩, true) := by
      show growBuff ⟨some (c ++ 0 :: j), c.length, c.length + 1 + j.length, false⟩ size = _
      unfold growBuff
      simp only [Bool.false_eq_true, if_false, hg, if_true, hM]
    rw [hgo, hr]
    simp only [canon, Prod.mk.injEq, and_true, Buf.mk.injEq, true_and, List.length_append, List.length_replicate]
    omega
  · refine ⟨j, ?_, by omega, Nat.le_refl _⟩
    show growBuff ⟨some (c ++ 0 :: j), c.length, c.length + 1 + j.length, false⟩ size = _
    unfold growBuff
    simp only [Bool.false_eq_true, if_false, hg]
    rfl

theorem insertData_static {b : Buf} (hs : b.isStatic = true) (pos : Nat) (d : Bytes) :
    b.insertData pos d = .ok (b, false) := by simp [insertData, hs]

theorem insertData_refused {b : Buf} (pos : Nat) (d : Bytes) (h : d = [] ∨ pos > b.len) :
    b.insertData pos d = .ok (b, false) := by
  rcases h with rfl | h
  · simp [insertData]
  · simp [insertData, h]

/-- The heart of the file: the stores of `insert_data` on a canonical block with enough spare room. -/
theorem insertMem_canon (c j d : Bytes) (pos : Nat) (hp : pos ≤ c.length) (hj : d.length ≤ j.length) :
    ∃ j', insertMem (c ++ 0 :: j) c.length pos d = .ok ((c.take pos ++ d ++ c.drop pos) ++ 0 :: j')
      ∧ j'.length + d.length = j.length := by
  -- memory = p ++ t with p the prefix before `pos`, t = s ++ 0 :: j
  obtain ⟨p, s, rfl, rfl⟩ : ∃ p s, c = p ++ s ∧ pos = p.length :=
    ⟨c.take pos, c.drop pos, (List.take_append_drop pos c).symm, by simp; omega⟩
  simp only [List.take_left', List.drop_left', List.length_append]
  let t := s ++ 0 :: j
  have ht : t.length = s.length + 1 + j.length := by simp [t]; omega
  -- split t at d.length and at d.length + s.length
  obtain ⟨ht3, hl1, hl2⟩ := Mem.split3 t d.length s.length (by omega)
  have hrest : (t.drop (d.length + s.length)).length = 1 + (j.length - d.length) := by simp [ht]; omega
  obtain ⟨y, rest, hyr⟩ : ∃ y rest, t.drop (d.length + s.length) = y :: rest := by
    cases h : t.drop (d.length + s.length) with
    | nil => exfalso; rw [h] at hrest; simp at hrest <;> omega
    | cons y rest => exact ⟨y, rest, rfl⟩
  have hrl : rest.length + d.length = j.length := by rw [hyr] at hrest; simp at hrest; omega
  refine ⟨rest, ?_, hrl⟩
  have hmem : p ++ s ++ 0 :: j = p ++ t := by simp [t]
  -- after the (optional) memmove the memory is p ++ (take d.length t) ++ s ++ y :: rest
  have hmove : (if p.length + s.length > p.length then Mem.move (p ++ s ++ 0 :: j) (p.length + d.length) p.length (p.length + s.length - p.length)
      else Except.ok (p ++ s ++ 0 :: j)) = Except.ok (p ++ t.take d.length ++ s ++ y :: rest) := by
    by_cases hs : s = []
    · subst hs
      simp only [List.length_nil, Nat.add_zero, Nat.lt_irrefl, gt_iff_lt, if_false, List.append_nil]
      have : t = t.take d.length ++ y :: rest := by
        have h' : t.drop d.length = y :: rest := by simpa using hyr
        conv => lhs; rw [← List.take_append_drop d.length t, h']
      conv => lhs; rw [show p ++ 0 :: j = p ++ t from by simp [t]]; rw [this]
      simp only [List.append_assoc]
    · have hsl : s.length ≠ 0 := by simpa using hs
      have hgt : p.length + s.length > p.length := by omega
      simp only [hgt, if_true, Nat.add_sub_cancel_left]
      apply Mem.move_ok _ s
      · rw [hmem]
        have : p ++ t = p ++ s ++ (0 :: j) := by simp [t]
        rw [this]; exact Mem.read_mid p s _ _ _ rfl rfl
      · rw [hmem]
        have h1 : p ++ t = (p ++ t.take d.length) ++ (t.drop d.length).take s.length ++ (y :: rest) := by
          conv => lhs; rw [ht3, hyr]
          simp
        rw [h1]
        have := Mem.write_mid (p ++ t.take d.length) ((t.drop d.length).take s.length) (y :: rest) s
          (p.length + d.length) (by simp [hl1]) (by rw [hl2])
        rw [this]
  unfold insertMem
  rw [hmove]
  have hw : Mem.write (p ++ t.take d.length ++ s ++ y :: rest) p.length d = .ok (p ++ d ++ (s ++ y :: rest)) := by
    have h1 : p ++ t.take d.length ++ s ++ y :: rest = p ++ t.take d.length ++ (s ++ y :: rest) := by simp
    rw [h1]; exact Mem.write_mid p _ _ d _ rfl (by rw [hl1])
  simp only [hw]
  have h2 : p ++ d ++ (s ++ y :: rest) = (p ++ d ++ s) ++ y :: rest := by simp
  rw [h2]
  exact Mem.store_mid (p ++ d ++ s) rest y 0 _ (by simp; omega)

theorem canon_mk (c' j'' : Bytes) (L M : Nat) (hL : L = c'.length) (hM : M = c'.length + 1 + j''.length) :
    Buf.mk (some (c' ++ 0 :: j'')) L M false = canon c' j'' := by
  subst hL hM; rfl

theorem insertData_rep {b : Buf} {c : Bytes} (h : Rep b c) (pos : Nat) (d : Bytes)
    (hp : pos ≤ c.length) (hd : d ≠ []) :
    ∃ b', b.insertData pos d = .ok (b', true) ∧ Rep b' (c.take pos ++ d ++ c.drop pos) := by
  have hdl : d.length ≠ 0 := by simpa using hd
  have hlen : (c.take pos ++ d ++ c.drop pos).length = c.length + d.length := by simp; omega
  rcases h.cases with ⟨rfl, rfl⟩ | ⟨j, rfl⟩
  · have hp0 : pos = 0 := by simpa using hp
    subst hp0
    have hg := growBuff_null d.length
    obtain ⟨j'', hcore, hjl⟩ := insertMem_canon [] (List.replicate d.length 0) d 0 (by simp) (by simp)
    refine ⟨canon ([].take 0 ++ d ++ [].drop 0) j'', ?_, rep_canon _ _⟩
    have hst : nullBuf.isStatic = false := rfl
    have hl : nullBuf.len = 0 := rfl
    simp only [insertData, hst, hdl, hl, hg, canon, mem, hcore, Bool.false_or, decide_eq_true_eq,
      Nat.not_lt_zero, gt_iff_lt, if_false, Bool.not_true, Bool.false_eq_true, decide_false, Bool.or_self]
    simp only [Except.ok.injEq, Prod.mk.injEq, Buf.mk.injEq, and_true, true_and]
    simp only [List.length_append, List.length_take, List.length_drop, List.length_nil, List.length_replicate] at hjl ⊢
    omega
  · obtain ⟨j', hg, hsz, _⟩ := growBuff_canon c j d.length
    obtain ⟨j'', hcore, hjl⟩ := insertMem_canon c j' d pos hp hsz
    refine ⟨canon (c.take pos ++ d ++ c.drop pos) j'', ?_, rep_canon _ _⟩
    have hnp : ¬ pos > (canon c j).len := by simp [canon]; omega
    have hst : (canon c j).isStatic = false := rfl
    simp only [insertData, hst, hdl, hnp, hg, Bool.false_or, decide_eq_true_eq, if_false, Bool.not_true,
      Bool.false_eq_true, or_self, decide_false, Bool.or_self]
    simp only [canon, mem, hcore]
    simp only [Except.ok.injEq, Prod.mk.injEq, Buf.mk.injEq, and_true, true_and]
    omega

/-! ### delete -/

theorem delete_static {b : Buf} (hs : b.isStatic = true) (pos n : Nat) :
    b.delete pos n = .ok (b, false) := by simp [delete, hs]

theorem delete_refused {b : Buf} (pos n : Nat) (h : pos ≥ b.len ∨ n = 0) :
    b.delete pos n = .ok (b, false) := by
  unfold delete
  split
  · rfl
  · rcases h with h | h <;> simp [h]

theorem delete_rep {b : Buf} {c : Bytes} (h : Rep b c) (pos n : Nat)
    (hp : pos < c.length) (hn : n ≠ 0) (hc : pos + n ≤ c.length) :
    ∃ b', b.delete pos n = .ok (b', true) ∧ Rep b' (c.take pos ++ c.drop (pos + n)) ∧ b'.malloced = b.malloced := by
  rcases h.cases with ⟨rfl, rfl⟩ | ⟨j, rfl⟩
  · simp at hp
  · -- c = p ++ x ++ s, |p| = pos, |x| = n
    obtain ⟨hc3, hl1, hl2⟩ := Mem.split3 c pos n hc
    generalize hpd : c.take pos = p at hc3 hl1
    generalize hxd : (c.drop pos).take n = x at hc3 hl2
    generalize hsd : c.drop (pos + n) = s at hc3
    subst hc3
    have hxne : x ≠ [] := by intro hx; subst hx; simp at hl2; omega
    -- x ++ s = (first |s| bytes to overwrite) …: destination region is x ++ s prefix of length |s|
    let t := x ++ s ++ 0 :: j
    have hmem : p ++ x ++ s ++ 0 :: j = p ++ x ++ s ++ (0 :: j) := rfl
    have hread : Mem.read (p ++ x ++ s ++ 0 :: j) (pos + n) ((p ++ x ++ s).length - pos - n) = .ok s := by
      have : p ++ x ++ s ++ 0 :: j = (p ++ x) ++ s ++ (0 :: j) := by simp
      rw [this]; exact Mem.read_mid (p ++ x) s _ _ _ (by simp; omega) (by simp; omega)
    -- write s at pos over the first |s| bytes of x ++ s
    obtain ⟨hq3, hq1, _⟩ := Mem.split3 (x ++ s) s.length 0 (by simp)
    have hwrite : Mem.write (p ++ x ++ s ++ 0 :: j) pos s = .ok (p ++ s ++ ((x ++ s).drop s.length ++ 0 :: j)) := by
      have : p ++ x ++ s ++ 0 :: j = p ++ (x ++ s).take s.length ++ ((x ++ s).drop s.length ++ 0 :: j) := by
        have h' := List.take_append_drop s.length (x ++ s)
        calc p ++ x ++ s ++ 0 :: j = p ++ (x ++ s) ++ 0 :: j := by simp only [List.append_assoc]
          _ = p ++ ((x ++ s).take s.length ++ (x ++ s).drop s.length) ++ 0 :: j := by rw [h']
          _ = _ := by simp only [List.append_assoc]
      rw [this]; exact Mem.write_mid p _ _ s pos hl1.symm (by rw [hq1])
    have hdl : ((x ++ s).drop s.length).length = n := by simp; omega
    obtain ⟨y, rest, hyr⟩ : ∃ y rest, (x ++ s).drop s.length = y :: rest := by
      cases hh : (x ++ s).drop s.length with
      | nil => rw [hh] at hdl; simp at hdl; omega
      | cons y rest => exact ⟨y, rest, rfl⟩
    have hstore : Mem.store (p ++ s ++ ((x ++ s).drop s.length ++ 0 :: j)) ((p ++ x ++ s).length - n) 0
        = .ok ((p ++ s) ++ 0 :: (rest ++ 0 :: j)) := by
      rw [hyr]
      have : p ++ s ++ (y :: rest ++ 0 :: j) = (p ++ s) ++ y :: (rest ++ 0 :: j) := by simp
      rw [this]; exact Mem.store_mid (p ++ s) _ y 0 _ (by simp; omega)
    refine ⟨canon (p ++ s) (rest ++ 0 :: j), ?_, ?_, ?_⟩
    · have hnp : ¬ (pos ≥ (p ++ x ++ s).length) := by omega
      have hnc : ¬ (pos + n > (p ++ x ++ s).length) := by omega
      simp only [delete, canon, Bool.false_eq_true, if_false, decide_eq_true_eq, Bool.or_eq_true, hnp, hn, or_self,
        hnc, mem, deleteMem]
      rw [Mem.move_ok _ s _ _ _ _ hread hwrite]
      simp only
      rw [hstore]
      simp only [Except.ok.injEq, Prod.mk.injEq, and_true, Buf.mk.injEq, true_and]
      have hrl : rest.length + 1 = n := by rw [hyr] at hdl; simpa using hdl
      simp only [List.length_append, List.length_cons] at hl2 ⊢
      omega
    · exact rep_canon _ _
    · have hrl : rest.length + 1 = n := by rw [hyr] at hdl; simpa using hdl
      simp only [canon, List.length_append, List.length_cons] at hl2 ⊢
      omega

end Buf
end Wbxml.Model
