/-
  C19 — the singly linked list: every operation keeps the heap well formed (an acyclic chain of
  live cells from `head`, `tail` its last cell, `len` its length) and acts on the item sequence
  like the plain-sequence reference; no operation dereferences NULL or a freed cell.
-/
import Wbxml.Model.LList
set_option linter.unusedSimpArgs false
namespace Wbxml.Model
open Wbxml Wbxml.Spec.Seq

namespace LList

/-- Following `next` from `p` visits exactly the cells `xs` (all live) and arrives at `q`. -/
def Seg (h : List Cell) : Option Nat → List Nat → Option Nat → Prop
  | p, [], q => p = q
  | p, x :: xs, q => p = some x ∧ ∃ c, h[x]? = some c ∧ c.live = true ∧ Seg h c.next xs q

def itemAt (h : List Cell) (a : Nat) : Nat :=
  match h[a]? with
  | some c => c.item
  | none => 0

/-- Well-formedness with the chain `ptrs` made explicit. -/
def Chain (l : LList) (ptrs : List Nat) : Prop :=
  Seg l.heap l.head ptrs none ∧ ptrs.Nodup ∧ l.len = ptrs.length ∧ l.tail = ptrs.getLast?

/-- The list is well formed and its items, in order, are `items`. -/
def Denotes (l : LList) (items : List Nat) : Prop :=
  ∃ ptrs, Chain l ptrs ∧ items = ptrs.map (itemAt l.heap)

theorem seg_append {h : List Cell} {xs ys : List Nat} {p q : Option Nat} :
    Seg h p (xs ++ ys) q ↔ ∃ m, Seg h p xs m ∧ Seg h m ys q := by
  induction xs generalizing p with
  | nil => simp [Seg]
  | cons x xs ih =>
    simp only [List.cons_append, Seg, ih]
    constructor
    · rintro ⟨hp, c, hc, hl, m, h1, h2⟩; exact ⟨m, ⟨hp, c, hc, hl, h1⟩, h2⟩
    · rintro ⟨m, ⟨hp, c, hc, hl, h1⟩, h2⟩; exact ⟨hp, c, hc, hl, m, h1, h2⟩

theorem seg_lt {h : List Cell} {xs : List Nat} {p q : Option Nat} (hs : Seg h p xs q) :
    ∀ x ∈ xs, x < h.length := by
  induction xs generalizing p with
  | nil => intro x hx; simp at hx
  | cons y ys ih =>
    obtain ⟨_, c, hc, _, hr⟩ := hs
    intro x hx
    rcases List.mem_cons.mp hx with rfl | hx
    · exact (List.getElem?_eq_some_iff.mp hc).1
    · exact ih hr x hx

theorem seg_frame_set {h : List Cell} {xs : List Nat} {p q : Option Nat} (hs : Seg h p xs q)
    (a : Nat) (c' : Cell) (ha : a ∉ xs) : Seg (h.set a c') p xs q := by
  induction xs generalizing p with
  | nil => exact hs
  | cons y ys ih =>
    obtain ⟨hp, c, hc, hl, hr⟩ := hs
    have hya : a ≠ y := fun e => ha (by simp [e])
    refine ⟨hp, c, ?_, hl, ih hr (fun hm => ha (by simp [hm]))⟩
    rw [List.getElem?_set_ne hya]; exact hc

theorem seg_frame_append {h : List Cell} {xs : List Nat} {p q : Option Nat} (hs : Seg h p xs q)
    (c' : Cell) : Seg (h ++ [c']) p xs q := by
  induction xs generalizing p with
  | nil => exact hs
  | cons y ys ih =>
    obtain ⟨hp, c, hc, hl, hr⟩ := hs
    refine ⟨hp, c, ?_, hl, ih hr⟩
    rw [List.getElem?_append_left (List.getElem?_eq_some_iff.mp hc).1]; exact hc

theorem seg_single {h : List Cell} {x : Nat} {c : Cell} (hc : h[x]? = some c) (hl : c.live = true) :
    Seg h (some x) [x] c.next := ⟨rfl, c, hc, hl, rfl⟩

theorem itemAt_append {h : List Cell} (c' : Cell) {a : Nat} (ha : a < h.length) :
    itemAt (h ++ [c']) a = itemAt h a := by
  simp [itemAt, List.getElem?_append_left ha]

theorem itemAt_set_next {h : List Cell} {a : Nat} {c : Cell} (hc : h[a]? = some c) (n : Option Nat) (x : Nat) :
    itemAt (h.set a { c with next := n }) x = itemAt h x := by
  unfold itemAt
  by_cases hx : a = x
  · subst hx
    have hlt := (List.getElem?_eq_some_iff.mp hc).1
    simp [List.getElem?_set_self hlt, hc]
  · rw [List.getElem?_set_ne hx]

theorem itemAt_set_live {h : List Cell} {a : Nat} {c : Cell} (hc : h[a]? = some c) (v : Bool) (x : Nat) :
    itemAt (h.set a { c with live := v }) x = itemAt h x := by
  unfold itemAt
  by_cases hx : a = x
  · subst hx
    have hlt := (List.getElem?_eq_some_iff.mp hc).1
    simp [List.getElem?_set_self hlt, hc]
  · rw [List.getElem?_set_ne hx]

theorem deref_ok {l : LList} {a : Nat} {c : Cell} (hc : l.heap[a]? = some c) (hl : c.live = true) :
    l.deref (some a) = .ok c := by simp [deref, hc, hl]

theorem setNext_ok {l : LList} {a : Nat} {c : Cell} (hc : l.heap[a]? = some c) (hl : c.live = true) (n : Option Nat) :
    l.setNext (some a) n = .ok { l with heap := l.heap.set a { c with next := n } } := by
  simp [setNext, deref_ok hc hl]

theorem free_ok {l : LList} {a : Nat} {c : Cell} (hc : l.heap[a]? = some c) (hl : c.live = true) :
    l.free (some a) = .ok { l with heap := l.heap.set a { c with live := false } } := by
  simp [free, deref_ok hc hl]

/-- Advancing along a segment of `k` cells: `prev` ends on its last cell, `elt` on what follows. -/
theorem advance_seg {l : LList} {xs : List Nat} {p q : Option Nat} (hs : Seg l.heap p xs q) (prev : Option Nat) :
    l.advance xs.length prev p = .ok (if xs = [] then prev else xs.getLast?, q) := by
  induction xs generalizing p prev with
  | nil => simp [advance]; exact hs
  | cons y ys ih =>
    obtain ⟨hp, c, hc, hl, hr⟩ := hs
    subst hp
    simp only [List.length_cons, advance, deref_ok hc hl]
    rw [ih hr (some y)]
    cases ys with
    | nil => simp
    | cons z zs => simp [List.getLast?_cons_cons]

theorem denotes_create : Denotes create [] :=
  ⟨[], ⟨rfl, List.nodup_nil, rfl, rfl⟩, rfl⟩

theorem chain_head_none {l : LList} {ptrs : List Nat} (h : Chain l ptrs) (hn : l.head = none) : ptrs = [] := by
  cases ptrs with
  | nil => rfl
  | cons x xs => have := h.1.1; rw [hn] at this; simp at this

theorem chain_head_some {l : LList} {ptrs : List Nat} (h : Chain l ptrs) {a : Nat} (hn : l.head = some a) :
    ∃ xs, ptrs = a :: xs := by
  cases ptrs with
  | nil => have := h.1; simp [Seg, hn] at this
  | cons x xs => have := h.1.1; rw [hn] at this; exact ⟨xs, by simp at this; rw [this]⟩

/-- Linking a fresh cell after the last cell of a non-empty chain. -/
theorem link_at_tail {l : LList} {init : List Nat} {t : Nat} (item : Nat)
    (h : Chain l (init ++ [t])) :
    ∃ l2, (l.newCell item).1.setNext (l.newCell item).1.tail (some l.heap.length) = .ok l2 ∧
      Chain { l2 with tail := some l.heap.length, len := l2.len + 1 } (init ++ [t] ++ [l.heap.length]) ∧
      (init ++ [t] ++ [l.heap.length]).map (itemAt l2.heap) = (init ++ [t]).map (itemAt l.heap) ++ [item] := by
  obtain ⟨hseg, hnd, hlen, htail⟩ := h
  obtain ⟨m, hs1, hs2⟩ := seg_append.mp hseg
  obtain ⟨hm, ct, hct, hlt, hnx⟩ := hs2
  have hnx : ct.next = none := hnx
  have hlt' := seg_lt hseg
  have htl : t < l.heap.length := hlt' t (by simp)
  let a := l.heap.length
  let new : Cell := ⟨item, none, true⟩
  have hct1 : (l.heap ++ [new])[t]? = some ct := by rw [List.getElem?_append_left htl]; exact hct
  have htail' : (l.newCell item).1.tail = some t := by simp [newCell, htail]
  refine ⟨{ (l.newCell item).1 with heap := (l.heap ++ [new]).set t { ct with next := some a } }, ?_, ?_, ?_⟩
  · rw [htail']; exact setNext_ok (l := (l.newCell item).1) hct1 hlt (some a)
  · have hat : a ≠ t := by omega
    have hta : t ≠ a := fun e => hat e.symm
    have hnotin : a ∉ init ++ [t] := fun hm => by have := hlt' a hm; omega
    have htinit : t ∉ init := by
      intro hm
      have := List.nodup_append.mp hnd
      exact this.2.2 t hm t (by simp) rfl
    refine ⟨?_, ?_, ?_, ?_⟩
    · show Seg ((l.heap ++ [new]).set t { ct with next := some a }) l.head (init ++ [t] ++ [a]) none
      rw [List.append_assoc]
      refine seg_append.mpr ⟨m, ?_, ?_⟩
      · exact seg_frame_set (seg_frame_append hs1 new) t _ htinit
      · refine ⟨hm, { ct with next := some a }, ?_, hlt, ?_⟩
        · rw [List.getElem?_set_self (by simp; omega)]
        · refine ⟨rfl, new, ?_, rfl, rfl⟩
          rw [List.getElem?_set_ne hta]; simp [a]
    · rw [List.nodup_append]
      refine ⟨hnd, by simp, ?_⟩
      intro x hx y hy
      simp at hy; subst hy
      intro e; subst e; exact hnotin hx
    · simp [newCell, hlen]
    · simp
  · have hat : t ≠ a := by omega
    have hnew : ((l.heap ++ [new]).set t { ct with next := some a })[a]? = some new := by
      rw [List.getElem?_set_ne hat]; simp [a]
    rw [List.map_append (l₁ := init ++ [t]), List.map_cons, List.map_nil]
    congr 1
    · exact List.map_congr_left (fun x hx => by rw [itemAt_set_next hct1, itemAt_append new (hlt' x hx)])
    · show [itemAt _ a] = [item]
      unfold itemAt; rw [hnew]

theorem append_denotes {l : LList} {items : List Nat} (h : Denotes l items) (item : Nat) :
    ∃ l' r, l.append item = .ok (l', r) ∧ Denotes l' (lstep items (.append item)).1 ∧
      LOut.bool r = (lstep items (.append item)).2 := by
  obtain ⟨ptrs, hch, hit⟩ := h
  by_cases h0 : item = 0
  · subst h0
    exact ⟨l, false, by simp [LList.append], ⟨ptrs, hch, by simpa [lstep] using hit⟩, by simp [lstep]⟩
  · simp only [lstep, h0, if_false]
    cases hh : l.head with
    | none =>
      have hp := chain_head_none hch hh
      subst hp
      subst hit
      refine ⟨{ heap := l.heap ++ [⟨item, none, true⟩], head := some l.heap.length, tail := some l.heap.length,
                len := l.len + 1 }, true, by simp [LList.append, h0, hh, newCell], ?_, rfl⟩
      refine ⟨[l.heap.length], ⟨?_, by simp, ?_, by simp⟩, ?_⟩
      · exact ⟨rfl, ⟨item, none, true⟩, by simp, rfl, rfl⟩
      · have := hch.2.2.1; simp at this; simp [this]
      · simp [itemAt]
    | some a0 =>
      obtain ⟨xs, hxs⟩ := chain_head_some hch hh
      obtain ⟨init, t, hpt⟩ : ∃ init t, ptrs = init ++ [t] := by
        rcases List.eq_nil_or_concat ptrs with e | ⟨i, t, e⟩
        · rw [e] at hxs; simp at hxs
        · exact ⟨i, t, by rw [e, List.concat_eq_append]⟩
      subst hpt
      obtain ⟨l2, hl2, hc2, hm2⟩ := link_at_tail item hch
      refine ⟨_, true, ?_, ⟨_, hc2, ?_⟩, rfl⟩
      · simp only [LList.append, h0, if_false, hh]
        simp only [newCell] at hl2 ⊢
        rw [hl2]
      · rw [hit]; exact hm2.symm

theorem get_denotes {l : LList} {items : List Nat} (h : Denotes l items) (idx : Nat) :
    l.get idx = .ok items[idx]? := by
  obtain ⟨ptrs, ⟨hseg, hnd, hlen, htail⟩, hit⟩ := h
  unfold get
  by_cases hi : idx ≥ l.len
  · have : items[idx]? = none := by rw [List.getElem?_eq_none]; rw [hit]; simp; omega
    simp [hi, this]
  · have hlt : idx < ptrs.length := by omega
    -- ptrs = pre ++ u :: post with |pre| = idx
    have hsplit : ptrs = ptrs.take idx ++ ptrs[idx] :: ptrs.drop (idx + 1) := by
      conv => lhs; rw [← List.take_append_drop idx ptrs, List.drop_eq_getElem_cons hlt]
    rw [hsplit] at hseg
    obtain ⟨m, hs1, hs2⟩ := seg_append.mp hseg
    obtain ⟨hm, c, hc, hl, _⟩ := hs2
    have hadv := advance_seg hs1 none
    have hlen' : (ptrs.take idx).length = idx := by simp; omega
    rw [hlen'] at hadv
    simp only [hi, if_false, hadv, hm, deref_ok hc hl]
    have : items[idx]? = some c.item := by
      rw [hit, List.getElem?_map, List.getElem?_eq_getElem hlt]
      simp [itemAt, hc]
    rw [this]

theorem extractFirst_denotes {l : LList} {items : List Nat} (h : Denotes l items) :
    ∃ l', l.extractFirst = .ok (l', items.head?) ∧ Denotes l' items.tail := by
  obtain ⟨ptrs, ⟨hseg, hnd, hlen, htail⟩, hit⟩ := h
  unfold extractFirst
  cases ptrs with
  | nil =>
    subst hit
    have : l.len = 0 := by simpa using hlen
    exact ⟨l, by simp [this], ⟨[], ⟨hseg, hnd, hlen, htail⟩, rfl⟩⟩
  | cons u rest =>
    obtain ⟨hp, cu, hcu, hlu, hr⟩ := hseg
    have hlen0 : l.len ≠ 0 := by simp at hlen; omega
    have hnd' := List.nodup_cons.mp hnd
    simp only [hlen0, if_false, hp, deref_ok hcu hlu]
    let l1 : LList := { l with head := cu.next, tail := if cu.next = none then none else l.tail }
    have hfree : l1.free (some u) = .ok { l1 with heap := l1.heap.set u { cu with live := false } } :=
      free_ok (l := l1) hcu hlu
    simp only [l1] at hfree
    rw [hfree]
    have hhead : items.head? = some cu.item := by rw [hit]; simp [itemAt, hcu]
    rw [hhead]
    refine ⟨_, rfl, ?_⟩
    · refine ⟨rest, ⟨?_, hnd'.2, ?_, ?_⟩, ?_⟩
      · exact seg_frame_set hr u _ hnd'.1
      · simp at hlen ⊢; omega
      · cases rest with
        | nil => have : cu.next = none := hr; simp [this]
        | cons v vs =>
          have : cu.next = some v := hr.1
          simp [this, htail, List.getLast?_cons_cons]
      · rw [hit]; simp only [List.map_cons, List.tail_cons]
        apply List.map_congr_left
        intro x _
        exact (itemAt_set_live hcu false x).symm

theorem denotes_len {l : LList} {items : List Nat} (h : Denotes l items) : l.len = items.length := by
  obtain ⟨ptrs, hch, hit⟩ := h
  rw [hit, hch.2.2.1]; simp

theorem insert_denotes {l : LList} {items : List Nat} (h : Denotes l items) (item pos : Nat) :
    ∃ l' r, l.insert item pos = .ok (l', r) ∧ Denotes l' (lstep items (.insert item pos)).1 ∧
      LOut.bool r = (lstep items (.insert item pos)).2 := by
  have hlen_items := denotes_len h
  obtain ⟨ptrs, hch, hit⟩ := h
  by_cases h0 : item = 0
  · subst h0
    exact ⟨l, false, by simp [LList.insert], ⟨ptrs, hch, by simpa [lstep] using hit⟩, by simp [lstep]⟩
  simp only [lstep, h0, if_false]
  obtain ⟨hseg, hnd, hlen, htail⟩ := hch
  have hlt' := seg_lt hseg
  let a := l.heap.length
  let new : Cell := ⟨item, none, true⟩
  have hnotin : a ∉ ptrs := fun hm => by have := hlt' a hm; omega
  have hnewcell : (l.heap ++ [new])[a]? = some new := by simp [a]
  unfold LList.insert
  simp only [h0, if_false, newCell]
  by_cases hl0 : l.len = 0
  · -- empty list
    have hp : ptrs = [] := by
      cases ptrs with
      | nil => rfl
      | cons _ _ => simp at hlen; omega
    subst hp; subst hit
    simp only [hl0, if_true]
    refine ⟨_, true, rfl, ⟨[a], ⟨?_, by simp, by simp [hl0], rfl⟩, ?_⟩, rfl⟩
    · exact ⟨rfl, new, hnewcell, rfl, rfl⟩
    · have : itemAt (l.heap ++ [new]) a = item := by unfold itemAt; rw [hnewcell]
      simp only [List.map_nil, List.take_nil, List.drop_nil, List.nil_append, List.map_cons]
      exact congrArg (fun x => [x]) this.symm
  · simp only [hl0, if_false]
    by_cases hp0 : pos = 0
    · -- new head
      subst hp0
      simp only [if_true]
      have hsn := setNext_ok (l := { l with heap := l.heap ++ [new] }) hnewcell rfl l.head
      simp only [new] at hsn
      rw [hsn]
      refine ⟨_, true, rfl, ⟨a :: ptrs, ⟨?_, ?_, ?_, ?_⟩, ?_⟩, rfl⟩
      · refine ⟨rfl, { new with next := l.head }, ?_, rfl, ?_⟩
        · exact List.getElem?_set_self (by simp [a])
        · exact seg_frame_set (seg_frame_append hseg new) a _ hnotin
      · exact List.nodup_cons.mpr ⟨hnotin, hnd⟩
      · simp [hlen]
      · cases ptrs with
        | nil => simp at hlen; omega
        | cons x xs => simp [htail, List.getLast?_cons_cons]
      · rw [hit]
        simp only [List.take_zero, List.nil_append, List.drop_zero, List.map_cons]
        congr 1
        · simp [itemAt, a, new]
        · apply List.map_congr_left
          intro x hx
          rw [itemAt_set_next hnewcell, itemAt_append new (hlt' x hx)]
    · simp only [hp0, if_false]
      by_cases hpl : pos ≥ l.len
      · -- at the tail
        simp only [hpl, if_true]
        obtain ⟨init, t, hpt⟩ : ∃ init t, ptrs = init ++ [t] := by
          rcases List.eq_nil_or_concat ptrs with e | ⟨i, t, e⟩
          · rw [e] at hlen; simp at hlen; omega
          · exact ⟨i, t, by rw [e, List.concat_eq_append]⟩
        subst hpt
        obtain ⟨l2, hl2, hc2, hm2⟩ := link_at_tail item (l := l) ⟨hseg, hnd, hlen, htail⟩
        simp only [newCell] at hl2
        rw [hl2]
        refine ⟨_, true, rfl, ⟨_, hc2, ?_⟩, rfl⟩
        rw [hm2, ← hit]
        have h1 : items.take pos = items := List.take_of_length_le (by omega)
        have h2 : items.drop pos = [] := List.drop_eq_nil_of_le (by omega)
        rw [h1, h2]
      · -- in the middle: ptrs = (pre ++ [u]) ++ v :: post with |pre ++ [u]| = pos
        simp only [hpl, if_false]
        have hposlt : pos < ptrs.length := by omega
        obtain ⟨pre, u, hpu⟩ : ∃ pre u, ptrs.take pos = pre ++ [u] := by
          rcases List.eq_nil_or_concat (ptrs.take pos) with e | ⟨i, t, e⟩
          · have h2 : (ptrs.take pos).length = pos := by rw [List.length_take]; omega
            rw [e] at h2; simp at h2; omega
          · exact ⟨i, t, by rw [e, List.concat_eq_append]⟩
        have hsplit : ptrs = (pre ++ [u]) ++ ptrs[pos] :: ptrs.drop (pos + 1) := by
          conv => lhs; rw [← List.take_append_drop pos ptrs, List.drop_eq_getElem_cons hposlt, hpu]
        generalize ptrs[pos] = v at hsplit
        generalize ptrs.drop (pos + 1) = post at hsplit
        have hprelen : (pre ++ [u]).length = pos := by rw [← hpu]; simp; omega
        subst hsplit
        obtain ⟨m, hs1, hs2⟩ := seg_append.mp hseg
        obtain ⟨m0, hs0, hsu⟩ := seg_append.mp hs1
        obtain ⟨hm0, cu, hcu, hlu, hum⟩ := hsu
        have hum : cu.next = m := hum
        have hmv : m = some v := hs2.1
        -- cells
        have hul : u < l.heap.length := hlt' u (by simp)
        have hcu1 : (l.heap ++ [new])[u]? = some cu := by rw [List.getElem?_append_left hul]; exact hcu
        have hua : u ≠ a := by omega
        have hnd1 := List.nodup_append.mp hnd
        have hnd2 := List.nodup_append.mp hnd1.1
        have hu_pre : u ∉ pre := fun hm => hnd2.2.2 u hm u (by simp) rfl
        have hu_post : u ∉ v :: post := fun hm => hnd1.2.2 u (by simp) u hm rfl
        -- the walk
        have hadv := advance_seg (l := { l with heap := l.heap ++ [new] }) (seg_frame_append hs1 new) none
        rw [hprelen] at hadv
        simp only [List.append_eq_nil_iff, List.cons_ne_self, and_false, if_false, List.getLast?_append,
          List.getLast?_singleton, Option.or_some, Option.some_or, reduceCtorEq, new] at hadv
        rw [hadv]
        simp only
        have hsn1 := setNext_ok (l := { l with heap := l.heap ++ [new] }) hcu1 hlu (some a)
        simp only [new, a] at hsn1
        rw [hsn1]
        simp only
        have hnew2 : ((l.heap ++ [new]).set u { cu with next := some a })[a]? = some new := by
          rw [List.getElem?_set_ne hua]; exact hnewcell
        have hsn2 := setNext_ok (l := { l with heap := (l.heap ++ [new]).set u { cu with next := some a } })
          hnew2 rfl m
        simp only [new, a] at hsn2
        rw [hsn2]
        refine ⟨_, true, rfl, ⟨pre ++ [u] ++ [a] ++ v :: post, ⟨?_, ?_, ?_, ?_⟩, ?_⟩, rfl⟩
        · -- the chain
          have ha_pre : a ∉ pre := fun hm => hnotin (by simp [hm])
          have ha_post : a ∉ v :: post := fun hm => hnotin (by
            rcases List.mem_cons.mp hm with e | e
            · simp [e]
            · simp [e])
          rw [List.append_assoc (pre ++ [u]), List.append_assoc pre]
          refine seg_append.mpr ⟨m0, ?_, ?_⟩
          · exact seg_frame_set (seg_frame_set (seg_frame_append hs0 new) u _ hu_pre) a _ ha_pre
          · refine ⟨hm0, { cu with next := some a }, ?_, hlu, ?_⟩
            · rw [List.getElem?_set_ne (fun e => hua e.symm), List.getElem?_set_self (by simp; omega)]
            · refine ⟨rfl, { new with next := m }, ?_, rfl, ?_⟩
              · exact List.getElem?_set_self (by simp [a])
              · exact seg_frame_set (seg_frame_set (seg_frame_append hs2 new) u _ hu_post) a _ ha_post
        · -- no duplicates
          have : pre ++ [u] ++ [a] ++ v :: post = (pre ++ [u]) ++ (a :: (v :: post)) := by simp
          rw [this, List.nodup_append]
          refine ⟨hnd1.1, List.nodup_cons.mpr ⟨fun hm => hnotin (by
              rcases List.mem_cons.mp hm with e | e
              · simp [e]
              · simp [e]), hnd1.2.1⟩, ?_⟩
          intro x hx y hy
          rcases List.mem_cons.mp hy with e | e
          · intro exy; subst exy; subst e; exact hnotin (by simp at hx ⊢; rcases hx with hx | hx <;> simp [hx])
          · exact hnd1.2.2 x hx y e
        · simp at hlen ⊢; omega
        · simp [htail, List.getLast?_append]
        · -- items
          rw [hit]
          have hf : ∀ x, x ∈ (pre ++ [u]) ++ v :: post →
              itemAt (((l.heap ++ [new]).set u { cu with next := some a }).set a { new with next := m }) x
                = itemAt l.heap x := by
            intro x hx
            rw [itemAt_set_next hnew2, itemAt_set_next hcu1, itemAt_append new (hlt' x hx)]
          have hfa : itemAt (((l.heap ++ [new]).set u { cu with next := some a }).set a { new with next := m }) a
              = item := by
            unfold itemAt
            rw [List.getElem?_set_self (by simp [a])]
          rw [List.map_append, List.take_left' (by simp; simp at hprelen; omega),
            List.drop_left' (by simp; simp at hprelen; omega)]
          simp only [List.map_append, List.map_cons, List.map_nil, List.append_assoc, List.singleton_append,
            List.cons_append, List.nil_append]
          rw [hfa]
          congr 1
          · exact (List.map_congr_left (fun x hx => hf x (by simp [hx]))).symm
          · congr 1
            · exact (hf u (by simp)).symm
            · congr 1
              congr 1
              · exact (hf v (by simp)).symm
              · exact (List.map_congr_left (fun x hx => hf x (by simp [hx]))).symm

/-- `wbxml_list_destroy` walks the whole chain, frees every cell once and touches no freed cell. -/
theorem destroyLoop_ok (xs : List Nat) : ∀ (l : LList) (p : Option Nat) (fuel : Nat),
    Seg l.heap p xs none → xs.Nodup → xs.length < fuel → ∃ l', l.destroyLoop fuel p = .ok l' := by
  induction xs with
  | nil =>
    intro l p fuel hs _ hf
    have : p = none := hs
    subst this
    cases fuel with
    | zero => omega
    | succ f => exact ⟨l, rfl⟩
  | cons x rest ih =>
    intro l p fuel hs hnd hf
    obtain ⟨hp, c, hc, hl, hr⟩ := hs
    subst hp
    cases fuel with
    | zero => omega
    | succ f =>
      have hnd' := List.nodup_cons.mp hnd
      simp only [destroyLoop, deref_ok hc hl, free_ok hc hl]
      exact ih _ c.next f (seg_frame_set hr x _ hnd'.1) hnd'.2 (by simp at hf; omega)

theorem destroy_ok {l : LList} {items : List Nat} (h : Denotes l items) : ∃ l', l.destroy = .ok l' := by
  obtain ⟨ptrs, ⟨hseg, hnd, hlen, _⟩, _⟩ := h
  exact destroyLoop_ok ptrs l l.head (l.len + 1) hseg hnd (by omega)

/-- One list operation refines one step of the plain sequence. -/
theorem step_refines {l : LList} {items : List Nat} (h : Denotes l items) (op : LOp) :
    ∃ l' o, l.step op = .ok (l', o) ∧ Denotes l' (lstep items op).1 ∧ o = (lstep items op).2 := by
  cases op with
  | len => exact ⟨l, .nat l.len, rfl, h, by simp [lstep, denotes_len h]⟩
  | append item =>
    obtain ⟨l', r, hl, hd, hr⟩ := append_denotes h item
    exact ⟨l', .bool r, by simp [step, hl], hd, hr⟩
  | insert item pos =>
    obtain ⟨l', r, hl, hd, hr⟩ := insert_denotes h item pos
    exact ⟨l', .bool r, by simp [step, hl], hd, hr⟩
  | get idx => exact ⟨l, .item items[idx]?, by simp [step, get_denotes h idx], h, rfl⟩
  | extractFirst =>
    obtain ⟨l', hl, hd⟩ := extractFirst_denotes h
    exact ⟨l', .item items.head?, by simp [step, hl], hd, rfl⟩

/-- All finite histories on a list. -/
theorem run_refines (ops : List LOp) : ∀ (l : LList) (items : List Nat), Denotes l items →
    ∃ l' outs, l.run ops = .ok (l', outs) ∧ Denotes l' (lrun items ops).1 ∧ outs = (lrun items ops).2 := by
  induction ops with
  | nil => intro l items h; exact ⟨l, [], rfl, h, rfl⟩
  | cons op ops ih =>
    intro l items h
    obtain ⟨l1, o, hl1, hd1, ho1⟩ := step_refines h op
    obtain ⟨l2, outs, hl2, hd2, ho2⟩ := ih l1 _ hd1
    exact ⟨l2, o :: outs, by simp [run, hl1, hl2], by simpa [lrun] using hd2, by simp [lrun, ho1, ho2]⟩

end LList
end Wbxml.Model
