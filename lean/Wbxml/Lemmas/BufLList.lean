/-
  C19 — the singly linked list: every operation keeps the heap well formed (an acyclic chain of
  live cells from `head`, `tail` its last cell, `len` its length) and acts on the item sequence
  like the plain-sequence reference; no operation dereferences NULL or a freed cell.
-/
import Wbxml.Model.LList
set_option linter.unusedSimpArgs false
namespace Wbxml.Model
open Wbxml Wbxml.Spec.Seq

namespace LList

/-- Following `next` from `p` visits exactly the cells `xs` (all live) and arrives at `q`. -/
def Seg (h : List Cell) : Option Nat → List Nat → Option Nat → Prop
  | p, [], q => p = q
  | p, x :: xs, q => p = some x ∧ ∃ c, h[x]? = some c ∧ c.live = true ∧ Seg h c.next xs q

def itemAt (h : List Cell) (a : Nat) : Nat :=
  match h[a]? with
  | some c => c.item
  | none => 0

/-- Well-formedness with the chain `ptrs` made explicit. -/
def Chain (l : LList) (ptrs : List Nat) : Prop :=
  Seg l.heap l.head ptrs none ∧ ptrs.Nodup ∧ l.len = ptrs.length ∧ l.tail = ptrs.getLast?

/-- The list is well formed and its items, in order, are `items`. -/
def Denotes (l : LList) (items : List Nat) : Prop :=
  ∃ ptrs, Chain l ptrs ∧ items = ptrs.map (itemAt l.heap)

theorem seg_append {h : List Cell} {xs ys : List Nat} {p q : Option Nat} :
    Seg h p (xs ++ ys) q ↔ ∃ m, Seg h p xs m ∧ Seg h m ys q := by
  induction xs generalizing p with
  | nil => simp [Seg]
  | cons x xs ih =>
    simp only [List.cons_append, Seg, ih]
    constructor
    · rintro ⟨hp, c, hc, hl, m, h1, h2⟩; exact ⟨m, ⟨hp, c, hc, hl, h1⟩, h2⟩
    · rintro ⟨m, ⟨hp, c, hc, hl, h1⟩, h2⟩; exact ⟨hp, c, hc, hl, m, h1, h2⟩

theorem seg_lt {h : List Cell} {xs : List Nat} {p q : Option Nat} (hs : Seg h p xs q) :
    ∀ x ∈ xs, x < h.length := by
  induction xs generalizing p with
  | nil => intro x hx; simp at hx
  | cons y ys ih =>
    obtain ⟨_, c, hc, _, hr⟩ := hs
    intro x hx
    rcases List.mem_cons.mp hx with rfl | hx
    · exact (List.getElem?_eq_some_iff.mp hc).1
    · exact ih hr x hx

theorem seg_frame_set {h : List Cell} {xs : List Nat} {p q : Option Nat} (hs : Seg h p xs q)
    (a : Nat) (c' : Cell) (ha : a ∉ xs) : Seg (h.set a c') p xs q := by
  induction xs generalizing p with
  | nil => exact hs
  | cons y ys ih =>
    obtain ⟨hp, c, hc, hl, hr⟩ := hs
    have hya : a ≠ y := fun e => ha (by simp [e])
    refine ⟨hp, c, ?_, hl, ih hr (fun hm => ha (by simp [hm]))⟩
    rw [List.getElem?_set_ne hya]; exact hc

theorem seg_frame_append {h : List Cell} {xs : List Nat} {p q : Option Nat} (hs : Seg h p xs q)
    (c' : Cell) : Seg (h ++ [c']) p xs q := by
  induction xs generalizing p with
  | nil => exact hs
  | cons y ys ih =>
    obtain ⟨hp, c, hc, hl, hr⟩ := hs
    refine ⟨hp, c, ?_, hl, ih hr⟩
    rw [List.getElem?_append_left (List.getElem?_eq_some_iff.mp hc).1]; exact hc

theorem seg_single {h : List Cell} {x : Nat} {c : Cell} (hc : h[x]? = some c) (hl : c.live = true) :
    Seg h (some x) [x] c.next := ⟨rfl, c, hc, hl, rfl⟩

theorem itemAt_append {h : List Cell} (c' : Cell) {a : Nat} (ha : a < h.length) :
    itemAt (h ++ [c']) a = itemAt h a := by
  simp [itemAt, List.getElem?_append_left ha]

theorem itemAt_set_next {h : List Cell} {a : Nat} {c : Cell} (hc : h[a]? = some c) (n : Option Nat) (x : Nat) :
    itemAt (h.set a { c with next := n }) x = itemAt h x := by
  unfold itemAt
  by_cases hx : a = x
  · subst hx
    have hlt := (List.getElem?_eq_some_iff.mp hc).1
    simp [List.getElem?_set_self hlt, hc]
  · rw [List.getElem?_set_ne hx]

theorem itemAt_set_live {h : List Cell} {a : Nat} {c : Cell} (hc : h[a]? = some c) (v : Bool) (x : Nat) :
    itemAt (h.set a { c with live := v }) x = itemAt h x := by
  unfold itemAt
  by_cases hx : a = x
  · subst hx
    have hlt := (List.getElem?_eq_some_iff.mp hc).1
    simp [List.getElem?_set_self hlt, hc]
  · rw [List.getElem?_set_ne hx]

theorem deref_ok {l : LList} {a : Nat} {c : Cell} (hc : l.heap[a]? = some c) (hl : c.live = true) :
    l.deref (some a) = .ok c := by simp [deref, hc, hl]

theorem setNext_ok {l : LList} {a : Nat} {c : Cell} (hc : l.heap[a]? = some c) (hl : c.live = true) (n : Option Nat) :
    l.setNext (some a) n = .ok { l with heap := l.heap.set a { c with next := n } } := by
  simp [setNext, deref_ok hc hl]

theorem free_ok {l : LList} {a : Nat} {c : Cell} (hc : l.heap[a]? = some c) (hl : c.live = true) :
    l.free (some a) = .ok { l with heap := l.heap.set a { c with live := false } } := by
  simp [free, deref_ok hc hl]

/-- Advancing along a segment of `k` cells: `prev` ends on its last cell, `elt` on what follows. -/
theorem advance_seg {l : LList} {xs : List Nat} {p q : Option Nat} (hs : Seg l.heap p xs q) (prev : Option Nat) :
    l.advance xs.length prev p = .ok (if xs = [] then prev else xs.getLast?, q) := by
  induction xs generalizing p prev with
  | nil => simp [advance]; exact hs
  | cons y ys ih =>
    obtain ⟨hp, c, hc, hl, hr⟩ := hs
    subst hp
    simp only [List.length_cons, advance, deref_ok hc hl]
    rw [ih hr (some y)]
    cases ys with
    | nil => simp
    | cons z zs => simp [List.getLast?_cons_cons]

theorem denotes_create : Denotes create [] :=
  ⟨[], ⟨rfl, List.nodup_nil, rfl, rfl⟩, rfl⟩

theorem chain_head_none {l : LList} {ptrs : List Nat} (h : Chain l ptrs) (hn : l.head = none) : ptrs = [] := by
  cases ptrs with
  | nil => rfl
  | cons x xs => have := h.1.1; rw [hn] at this; simp at this

theorem chain_head_some {l : LList} {ptrs : List Nat} (h : Chain l ptrs) {a : Nat} (hn : l.head = some a) :
    ∃ xs, ptrs = a :: xs := by
  cases ptrs with
  | nil => have := h.1; simp [Seg, hn] at this
  | cons x xs => have := h.1.1; rw [hn] at this; exact ⟨xs, by simp at this; rw [this]⟩

/-- Linking a fresh cell after the last cell of a non-empty chain. -/
theorem link_at_tail {l : LList} {init : List Nat} {t : Nat} (item : Nat)
    (h : Chain l (init ++ [t])) :
    ∃ l2, (l.newCell item).1.setNext (l.newCell item).1.tail (some l.heap.length) = .ok l2 ∧
      Chain { l2 with tail := some l.heap.length, len := l2.len + 1 } (init ++ [t] ++ [l.heap.length]) ∧
      (init ++ [t] ++ [l.heap.length]).map (itemAt l2.heap) = (init ++ [t]).map (itemAt l.heap) ++ [item] := by
  obtain ⟨hseg, hnd, hlen, htail⟩ := h
  obtain ⟨m, hs1, hs2⟩ := seg_append.mp hseg
  obtain ⟨hm, ct, hct, hlt, hnx⟩ := hs2
  have hnx : ct.next = none := hnx
  have hlt' := seg_lt hseg
  have htl : t < l.heap.length := hlt' t (by simp)
  let a := l.heap.length
  let new : Cell := ⟨item, none, true⟩
  have hct1 : (l.heap ++ [new])[t]? = some ct := by rw [List.getElem?_append_left htl]; exact hct
  have htail' : (l.newCell item).1.tail = some t := by simp [newCell, htail]
  refine ⟨{ (l.newCell item).1 with heap := (l.heap ++ [new]).set t { ct with next := some a } }, ?_, ?_, ?_⟩
  · rw [htail']; exact setNext_ok (l := (l.newCell item).1) hct1 hlt (some a)
  · have hat : a ≠ t := by omega
    have hta : t ≠ a := fun e => hat e.symm
    have hnotin : a ∉ init ++ [t] := fun hm => by have := hlt' a hm; omega
    have htinit : t ∉ init := by
      intro hm
      have := List.nodup_append.mp hnd
      exact this.2.2 t hm t (by simp) rfl
    refine ⟨?_, ?_, ?_, ?_⟩
    · show Seg ((l.heap ++ [new]).set t { ct with next := some a }) l.head (init ++ [t] ++ [a]) none
      rw [List.append_assoc]
      refine seg_append.mpr ⟨m, ?_, ?_⟩
      · exact seg_frame_set (seg_frame_append hs1 new) t _ htinit
      · refine ⟨hm, { ct with next := some a }, ?_, hlt, ?_⟩
        · rw [List.getElem?_set_self (by simp; omega)]
        · refine ⟨rfl, new, ?_, rfl, rfl⟩
          rw [List.getElem?_set_ne hta]; simp [a]
    · rw [List.nodup_append]
      refine ⟨hnd, by simp, ?_⟩
      intro x hx y hy
      simp at hy; subst hy
      intro e; subst e; exact hnotin hx
    · simp [newCell, hlen]
    · simp
  · have hat : t ≠ a := by omega
    have hnew : ((l.heap ++ [new]).set t { ct with next := some a })[a]? = some new := by
      rw [List.getElem?_set_ne hat]; simp [a]
    rw [List.map_append (l₁ := init ++ [t]), List.map_cons, List.map_nil]
    congr 1
    · exact List.map_congr_left (fun x hx => by rw [itemAt_set_next hct1, itemAt_append new (hlt' x hx)])
    · show [itemAt _ a] = [item]
      unfold itemAt; rw [hnew]

theorem append_denotes {l : LList} {items : List Nat} (h : Denotes l items) (item : Nat) :
    ∃ l' r, l.append item = .ok (l', r) ∧ Denotes l' (lstep items (.append item)).1 ∧
      LOut.bool r = (lstep items (.append item)).2 := by
  obtain ⟨ptrs, hch, hit⟩ := h
  by_cases h0 : item = 0
  · subst h0
    exact ⟨l, false, by simp [LList.append], ⟨ptrs, hch, by simpa [lstep] using hit⟩, by simp [lstep]⟩
  · simp only [lstep, h0, if_false]
    cases hh : l.head with
    | none =>
      have hp := chain_head_none hch hh
      subst hp
      subst hit
      refine ⟨{ heap := l.heap ++ [⟨item, none, true⟩], head := some l.heap.length, tail := some l.heap.length,
                len := l.len + 1 }, true, by simp [LList.append, h0, hh, newCell], ?_, rfl⟩
      refine ⟨[l.heap.length], ⟨?_, by simp, ?_, by simp⟩, ?_⟩
      · exact ⟨rfl, ⟨item, none, true⟩, by simp, rfl, rfl⟩
      · have := hch.2.2.1; simp at this; simp [this]
      · simp [itemAt]
    | some a0 =>
      obtain ⟨xs, hxs⟩ := chain_head_some hch hh
      obtain ⟨init, t, hpt⟩ : ∃ init t, ptrs = init ++ [t] := by
        rcases List.eq_nil_or_concat ptrs with e | ⟨i, t, e⟩
        · rw [e] at hxs; simp at hxs
        · exact ⟨i, t, by rw [e, List.concat_eq_append]⟩
      subst hpt
      obtain ⟨l2, hl2, hc2, hm2⟩ := link_at_tail item hch
      refine ⟨_, true, ?_, ⟨_, hc2, ?_⟩, rfl⟩
      · simp only [LList.append, h0, if_false, hh]
        simp only [newCell] at hl2 ⊢
        rw [hl2]
      · rw [hit]; exact hm2.symm

theorem get_denotes {l : LList} {items : List Nat} (h : Denotes l items) (idx : Nat) :
    l.get idx = .ok items[idx]? := by
  obtain ⟨ptrs, ⟨hseg, hnd, hlen, htail⟩, hit⟩ := h
  unfold get
  by_cases hi : idx ≥ l.len
  · have : items[idx]? = none := by rw [List.getElem?_eq_none]; rw [hit]; simp; omega
    simp [hi, this]
  · have hlt : idx < ptrs.length := by omega
    -- ptrs = pre ++ u :: post with |pre| = idx
    have hsplit : ptrs = ptrs.take idx ++ ptrs[idx] :: ptrs.drop (idx + 1) := by
      conv => lhs; rw [← List.take_append_drop idx ptrs, List.drop_eq_getElem_cons hlt]
    rw [hsplit] at hseg
    obtain ⟨m, hs1, hs2⟩ := seg_append.mp hseg
    obtain ⟨hm, c, hc, hl, _⟩ := hs2
    have hadv := advance_seg hs1 none
    have hlen' : (ptrs.take idx).length = idx := by simp; omega
    rw [hlen'] at hadv
    simp only [hi, if_false, hadv, hm, deref_ok hc hl]
    have : items[idx]? = some c.item := by
      rw [hit, List.getElem?_map, List.getElem?_eq_getElem hlt]
      simp [itemAt, hc]
    rw [this]

theorem extractFirst_denotes {l : LList} {items : List Nat} (h : Denotes l items) :
    ∃ l', l.extractFirst = .ok (l', items.head?) ∧ Denotes l' items.tail := by
  obtain ⟨ptrs, ⟨hseg, hnd, hlen, htail⟩, hit⟩ := h
  unfold extractFirst
  cases ptrs with
  | nil =>
    subst hit
    have : l.len = 0 := by simpa using hlen
    exact ⟨l, by simp [this], ⟨[], ⟨hseg, hnd, hlen, htail⟩, rfl⟩⟩
  | cons u rest =>
    obtain ⟨hp, cu, hcu, hlu, hr⟩ := hseg
    have hlen0 : l.len ≠ 0 := by simp at hlen; omega
    have hnd' := List.nodup_cons.mp hnd
    simp only [hlen0, if_false, hp, deref_ok hcu hlu]
    let l1 : LList := { l with head := cu.next, tail := if cu.next = none then none else l.tail }
    have hfree : l1.free (some u) = .ok { l1 with heap := l1.heap.set u { cu with live := false } } :=
      free_ok (l := l1) hcu hlu
    simp only [l1] at hfree
    rw [hfree]
    have hhead : items.head? = some cu.item := by rw [hit]; simp [itemAt, hcu]
    rw [hhead]
    refine ⟨_, rfl, ?_⟩
    · refine ⟨rest, ⟨?_, hnd'.2, ?_, ?_⟩, ?_⟩
      · exact seg_frame_set hr u _ hnd'.1
      · simp at hlen ⊢; omega
      · cases rest with
        | nil => have : cu.next = none := hr; simp [this]
        | cons v vs =>
          have : cu.next = some v := hr.1
          simp [this, htail, List.getLast?_cons_cons]
      · rw [hit]; simp only [List.map_cons, List.tail_cons]
        apply List.map_congr_left
        intro x _
        exact (itemAt_set_live hcu false x).symm

end LList
end Wbxml.Model
