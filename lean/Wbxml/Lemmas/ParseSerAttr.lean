/-
  `parse_ser`, layer 2: attribute values, the `is_attr_value` look-ahead, attribute starts,
  attributes, attribute lists and processing instructions.
-/
import Wbxml.Lemmas.ParseSerLex
namespace Wbxml.Lemmas.ParseSer
open Wbxml Wbxml.Model Wbxml.Spec

/-! ### Token octets by class -/

theorem valTok_tbl : ∀ t, t < 256 → isAttrValueTok t = true →
    (byte t == 0) = false ∧ isExtToken (byte t) = false ∧ (byte t == 2) = false ∧ (byte t == 3) = false ∧
    (byte t == 0x83) = false ∧ (byte t == 0xC3) = false ∧ (byte t == 1) = false ∧
    ((byte t).toNat &&& 0x80 == 0x80) = true := by decide +kernel

theorem valTok_lt (t : Nat) (h : isAttrValueTok t = true) : t < 256 := by
  simp only [isAttrValueTok, Bool.or_eq_true, Bool.and_eq_true, decide_eq_true_eq] at h; omega

theorem startTok_tbl : ∀ t, t < 256 → isAttrStartTok t = true →
    (byte t == 0) = false ∧ isExtToken (byte t) = false ∧ (byte t == 2) = false ∧ (byte t == 3) = false ∧
    (byte t == 0x83) = false ∧ (byte t == 0xC3) = false ∧ (byte t == 1) = false ∧ (byte t == 4) = false ∧
    ((byte t).toNat &&& 0x80 == 0x80) = false := by decide +kernel

theorem startTok_lt (t : Nat) (h : isAttrStartTok t = true) : t < 256 := by
  simp only [isAttrStartTok, Bool.or_eq_true, Bool.and_eq_true, decide_eq_true_eq] at h; omega

theorem extTok_tbl : ∀ b : Nat, b < 256 → isExtToken (byte b) = true →
    (byte b == 0) = false ∧ (byte b == 1) = false ∧ (byte b == 2) = false ∧ (byte b == 3) = false ∧
    (byte b == 0x83) = false ∧ (byte b == 0xC3) = false ∧ (byte b == 0x43) = false := by decide +kernel

theorem extTok_facts (b : UInt8) (h : isExtToken b = true) :
    (b == 0) = false ∧ (b == 1) = false ∧ (b == 2) = false ∧ (b == 3) = false ∧
    (b == 0x83) = false ∧ (b == 0xC3) = false ∧ (b == 0x43) = false := by
  have := extTok_tbl b.toNat b.toNat_lt
  rw [byte, UInt8.ofNat_toNat] at this
  exact this h

@[simp] theorem isString_cons (c : Ctx) (ver) (b : UInt8) (r : Bytes) (tp ap cur) :
    isString (st c ver (b :: r) tp ap cur) = (b == 0x03 || b == 0x83) := by
  simp [isString]

/-! ### `attrValue` -/

/-- The piece as the parser returns it (`none` = an extension that carries no text). -/
def avalOpt (c : Ctx) (ap : Nat) : AVal → Option Bytes
  | .ext _ x => extText c x
  | v => some (avalText c ap v).1

theorem avalOpt_getD (c : Ctx) (ap : Nat) (v : AVal) : (avalOpt c ap v).getD [] = (avalText c ap v).1 := by
  cases v <;> rfl

theorem parseAttrValue_ser (c : Ctx) (ver) (hc : c.ok = true) (ap : Nat) (v : AVal)
    (hv : wfAVal c ap v = true) (suf : Bytes) (tp cur) :
    parseAttrValue (st c ver (serAVal v ++ suf) tp ap cur) =
      .ok (avalOpt c ap v, st c ver suf tp (avalText c ap v).2 cur) := by
  cases v with
  | tok sw t =>
    simp only [wfAVal, Bool.and_eq_true] at hv
    obtain ⟨⟨hsw, ht⟩, hrow⟩ := hv
    have hlt := valTok_lt t ht
    obtain ⟨f0, fe, f2, f3, f83, fc3, _, _⟩ := valTok_tbl t hlt ht
    obtain ⟨row, hrow⟩ := Option.isSome_iff_exists.mp hrow
    simp only [valRow] at hrow
    cases hvals : c.lang.values with
    | none => simp [hvals] at hrow
    | some vals =>
      simp only [hvals] at hrow
      have hb0 : byte t ≠ 0 := by simpa using f0
      unfold parseAttrValue
      cases sw with
      | none =>
        simp only [serAVal, serSw, List.nil_append, List.cons_append, isExtension_cons c ver _ hb0, fe,
          Bool.false_eq_true, ↓reduceIte, isToken_cons, f2, isString_cons, f3, f83, Bool.or_self, fc3, f0,
          pure, Except.pure, bind, Except.bind, parseU8_cons, hvals, byte_toNat t hlt]
        simp only [swPage, Option.getD_none] at hrow
        simp [hrow, avalOpt, avalText, valRow, hvals, swPage]
      | some p =>
        have hp : p < 256 := by simpa [wfSw] using hsw
        have z2 : ((0 : UInt8) == 2) = false := by decide
        have z3 : ((0 : UInt8) == 3) = false := by decide
        have z83 : ((0 : UInt8) == 0x83) = false := by decide
        have zc3 : ((0 : UInt8) == 0xC3) = false := by decide
        simp only [serAVal, serSw, List.nil_append, List.cons_append, isExtension_sw, fe,
          Bool.false_eq_true, ↓reduceIte, isToken_cons, z2, isString_cons, z3, z83, Bool.or_self, zc3,
          beq_self_eq_true, parseSwitchPage_attr c ver p hp,
          pure, Except.pure, bind, Except.bind, parseU8_cons, hvals, byte_toNat t hlt]
        simp only [swPage, Option.getD_some] at hrow
        simp [hrow, avalOpt, avalText, valRow, hvals, swPage]
  | str s =>
    simp only [wfAVal] at hv
    have hne : isExtension (st c ver (serStr s ++ suf) tp ap cur) = false := by
      cases s <;> simp [serStr, isExtension, isExtToken]
    have h2 : isToken (st c ver (serStr s ++ suf) tp ap cur) 0x02 = false := by
      cases s <;> simp [serStr]
    have hs : isString (st c ver (serStr s ++ suf) tp ap cur) = true := by
      cases s <;> simp [serStr]
    unfold parseAttrValue
    simp only [serAVal, hne, h2, hs, Bool.false_eq_true, ↓reduceIte, bind, Except.bind,
      parseString_ser c ver hc s hv, pure, Except.pure, avalOpt, avalText]
  | entity code =>
    simp only [wfAVal] at hv
    unfold parseAttrValue
    simp only [serAVal, List.cons_append, isExtension_cons c ver 2 (by decide), show isExtToken 2 = false by decide,
      Bool.false_eq_true, ↓reduceIte, isToken_cons, beq_self_eq_true, bind, Except.bind,
      parseEntity_ser c ver code hv, pure, Except.pure, avalOpt, avalText]
  | «opaque» d =>
    simp only [wfAVal, Bool.and_eq_true, decide_eq_true_eq] at hv
    obtain ⟨hlen, hdec⟩ := hv
    obtain ⟨b, hb⟩ := Option.isSome_iff_exists.mp hdec
    have hb' : decodeOpaqueAttrValue c.lang.id d = .ok b := by
      simp only [opaqueAttrText] at hb
      split at hb
      · rename_i h; simp only [Option.some.injEq] at hb; rw [h, hb]
      · simp at hb
    have hx : isExtension (st c ver (serOpaque d ++ suf) tp ap cur) = false := by
      simp [serOpaque, isExtension, isExtToken]
    have h2 : isToken (st c ver (serOpaque d ++ suf) tp ap cur) 0x02 = false := by simp [serOpaque]
    have hs : isString (st c ver (serOpaque d ++ suf) tp ap cur) = false := by simp [serOpaque]
    have h3 : isToken (st c ver (serOpaque d ++ suf) tp ap cur) 0xC3 = true := by simp [serOpaque]
    unfold parseAttrValue
    simp only [serAVal, hx, h2, hs, h3, Bool.false_eq_true, ↓reduceIte, bind, Except.bind,
      parseOpaque_ser c ver d hlen, hb', pure, Except.pure, avalOpt, avalText, hb, Option.getD_some]
  | ext sw x =>
    simp only [wfAVal, Bool.and_eq_true] at hv
    have hx : isExtension (st c ver (serSw sw ++ (serExt x ++ suf)) tp ap cur) = true := by
      rw [serExt_eq, List.cons_append, isExtension_serSw c ver sw _ (extByte_facts c x hv.2).1]
      exact (extByte_facts c x hv.2).2
    unfold parseAttrValue
    simp only [serAVal, List.append_assoc, hx, ↓reduceIte, parseExtension_ser c ver hc false sw hv.1 x hv.2,
      cond_false, avalOpt, avalText]

/-! ### The `is_attr_value` look-ahead -/

theorem isAttrValue_cons (c : Ctx) (ver) (b : UInt8) (hb : (b == 0) = false) (r : Bytes) (tp ap cur) :
    isAttrValue (st c ver (b :: r) tp ap cur) =
      ((b.toNat &&& 0x80 == 0x80) || (b == 0x03 || b == 0x83) || isExtToken b || b == 0x02 || b == 0xC3) := by
  have hb' : b ≠ 0 := by simpa using hb
  simp only [isAttrValue, peekAt_zero, isToken_cons, hb, Bool.false_eq_true, ↓reduceIte, isString_cons,
    isExtension_cons c ver b hb']

theorem isAttrValue_sw (c : Ctx) (ver) (p b : UInt8) (r : Bytes) (tp ap cur) :
    isAttrValue (st c ver (0 :: p :: b :: r) tp ap cur) = ((b.toNat &&& 0x80 == 0x80) || isExtToken b) := by
  simp only [isAttrValue, peekAt_zero, isToken_cons, beq_self_eq_true, ↓reduceIte, peekAt_two, isString_cons,
    isExtension_sw]
  by_cases h : (b.toNat &&& 0x80 == 0x80) = true
  · simp [h]
  · simp [h]

/-- What follows an attribute's value pieces makes the look-ahead answer "no": `END` or the next
    attribute start. -/
def Stops (c : Ctx) (ver : Nat) (suf : Bytes) : Prop :=
  ∀ tp ap cur, isAttrValue (st c ver suf tp ap cur) = false

theorem stops_END (c : Ctx) (ver) (suf : Bytes) : Stops c ver (0x01 :: suf) := by
  intro tp ap cur
  rw [isAttrValue_cons c ver 1 (by decide)]
  decide

theorem stops_serAStart (c : Ctx) (ver) (ap0 : Nat) (a : AStart) (ha : wfAStart c ap0 a = true) (suf : Bytes) :
    Stops c ver (serAStart a ++ suf) := by
  intro tp ap cur
  cases a with
  | tok sw t =>
    simp only [wfAStart, Bool.and_eq_true] at ha
    obtain ⟨f0, fe, f2, f3, f83, fc3, _, _, fhi⟩ := startTok_tbl t (startTok_lt t ha.1.2) ha.1.2
    cases sw with
    | none =>
      simp only [serAStart, serSw, List.nil_append, List.cons_append]
      rw [isAttrValue_cons c ver _ f0]
      simp [fe, f2, f3, f83, fc3, fhi]
    | some p =>
      simp only [serAStart, serSw, List.nil_append, List.cons_append]
      rw [isAttrValue_sw]
      simp [fe, fhi]
  | lit off =>
    simp only [serAStart, List.cons_append]
    rw [isAttrValue_cons c ver 4 (by decide)]
    decide

theorem isAttrValue_serAVal (c : Ctx) (ver) (ap0 : Nat) (v : AVal) (hv : wfAVal c ap0 v = true) (suf : Bytes)
    (tp ap cur) : isAttrValue (st c ver (serAVal v ++ suf) tp ap cur) = true := by
  cases v with
  | tok sw t =>
    simp only [wfAVal, Bool.and_eq_true] at hv
    obtain ⟨f0, fe, f2, f3, f83, fc3, _, fhi⟩ := valTok_tbl t (valTok_lt t hv.1.2) hv.1.2
    cases sw with
    | none =>
      simp only [serAVal, serSw, List.nil_append, List.cons_append]
      rw [isAttrValue_cons c ver _ f0]; simp [fhi]
    | some p =>
      simp only [serAVal, serSw, List.nil_append, List.cons_append]
      rw [isAttrValue_sw]; simp [fhi]
  | str s =>
    cases s with
    | inl s => simp only [serAVal, serStr, List.cons_append]; rw [isAttrValue_cons c ver _ (by decide)]; decide
    | tbl off => simp only [serAVal, serStr, List.cons_append]; rw [isAttrValue_cons c ver _ (by decide)]; decide
  | entity code =>
    simp only [serAVal, List.cons_append]; rw [isAttrValue_cons c ver _ (by decide)]; decide
  | «opaque» d =>
    simp only [serAVal, serOpaque, List.cons_append]; rw [isAttrValue_cons c ver _ (by decide)]; decide
  | ext sw x =>
    simp only [wfAVal, Bool.and_eq_true] at hv
    obtain ⟨hb0, hbe⟩ := extByte_facts c x hv.2
    have hb0' : (extByte x == 0) = false := by simpa using hb0
    rw [serAVal, serExt_eq]
    cases sw with
    | none =>
      simp only [serSw, List.nil_append, List.cons_append]
      rw [isAttrValue_cons c ver _ hb0']; simp [hbe]
    | some p =>
      simp only [serSw, List.nil_append, List.cons_append]
      rw [isAttrValue_sw]; simp [hbe]

theorem serAVal_length (v : AVal) : 1 ≤ (serAVal v).length := by
  cases v with
  | tok sw t => simp [serAVal]
  | str s => cases s <;> simp [serAVal, serStr]
  | entity code => simp [serAVal]
  | «opaque» d => simp [serAVal, serOpaque]
  | ext sw x => cases x <;> simp [serAVal, serExt] <;> omega

theorem serAVals_length (vs : List AVal) : vs.length ≤ (serAVals vs).length := by
  induction vs with
  | nil => simp
  | cons v vs ih => have := serAVal_length v; simp only [serAVals, List.length_cons, List.length_append]; omega

/-- `*attrValue` under the look-ahead loop of `parse_attribute`. -/
theorem attrValueLoop_ser (c : Ctx) (ver) (hc : c.ok = true) (vs : List AVal) : ∀ (ap : Nat)
    (_ : wfAVals c ap vs = true) (suf : Bytes) (_ : Stops c ver suf) (f : Nat) (_ : vs.length < f)
    (acc : Bytes) (tp cur),
    attrValueLoop f acc (st c ver (serAVals vs ++ suf) tp ap cur) =
      .ok (acc ++ (avalsText c ap vs).1, st c ver suf tp (avalsText c ap vs).2 cur) := by
  induction vs with
  | nil =>
    intro ap _ suf hstop f hf acc tp cur
    obtain ⟨f', rfl⟩ : ∃ f', f = f' + 1 := ⟨f - 1, by omega⟩
    simp only [serAVals, List.nil_append, attrValueLoop, hstop tp ap cur, Bool.false_eq_true, ↓reduceIte,
      avalsText, List.append_nil, pure, Except.pure]
  | cons v vs ih =>
    intro ap hwf suf hstop f hf acc tp cur
    obtain ⟨f', rfl⟩ : ∃ f', f = f' + 1 := ⟨f - 1, by omega⟩
    simp only [wfAVals, Bool.and_eq_true] at hwf
    simp only [serAVals, List.append_assoc, attrValueLoop, isAttrValue_serAVal c ver ap v hwf.1, ↓reduceIte,
      bind, Except.bind, parseAttrValue_ser c ver hc ap v hwf.1, avalOpt_getD]
    rw [ih _ hwf.2 suf hstop f' (by simpa using hf)]
    simp only [avalsText, List.append_assoc]

/-! ### `attrStart` -/

/-- The value prefix as the parser returns it (`none` = the row has no prefix / literal name). -/
def astartOpt (c : Ctx) (ap : Nat) : AStart → Option Bytes
  | .tok sw t => (attrRow c (swPage sw ap) t).bind (·.value)
  | .lit _ => none

theorem astartOpt_getD (c : Ctx) (ap : Nat) (a : AStart) (ha : wfAStart c ap a = true) :
    (astartOpt c ap a).getD [] = (astartName c ap a).2.1 := by
  cases a with
  | tok sw t =>
    simp only [wfAStart, Bool.and_eq_true] at ha
    obtain ⟨row, hrow⟩ := Option.isSome_iff_exists.mp ha.2
    simp [astartOpt, astartName, hrow]
  | lit off => rfl

theorem parseAttrStart_ser (c : Ctx) (ver) (hc : c.ok = true) (ap : Nat) (a : AStart)
    (ha : wfAStart c ap a = true) (suf : Bytes) (tp cur) :
    parseAttrStart (st c ver (serAStart a ++ suf) tp ap cur) =
      .ok (((astartName c ap a).1, astartOpt c ap a), st c ver suf tp (astartName c ap a).2.2 cur) := by
  cases a with
  | tok sw t =>
    simp only [wfAStart, Bool.and_eq_true] at ha
    obtain ⟨⟨hsw, ht⟩, hrow⟩ := ha
    have hlt := startTok_lt t ht
    obtain ⟨f0, _, _, _, _, _, _, f4, _⟩ := startTok_tbl t hlt ht
    obtain ⟨row, hrow⟩ := Option.isSome_iff_exists.mp hrow
    have hrow' := hrow
    simp only [attrRow] at hrow
    cases hattrs : c.lang.attrs with
    | none => simp [hattrs] at hrow
    | some attrs =>
      simp only [hattrs] at hrow
      unfold parseAttrStart
      cases sw with
      | none =>
        simp only [swPage, Option.getD_none] at hrow hrow'
        simp only [serAStart, serSw, List.nil_append, List.cons_append, isToken_cons, f4, f0,
          Bool.false_eq_true, ↓reduceIte, pure, Except.pure, bind, Except.bind, parseU8_cons, hattrs,
          byte_toNat t hlt, hrow]
        simp [astartName, astartOpt, hrow', swPage]
      | some p =>
        have hp : p < 256 := by simpa [wfSw] using hsw
        have z4 : ((0 : UInt8) == 4) = false := by decide
        simp only [swPage, Option.getD_some] at hrow hrow'
        simp only [serAStart, serSw, List.nil_append, List.cons_append, isToken_cons, z4,
          Bool.false_eq_true, ↓reduceIte, beq_self_eq_true, parseSwitchPage_attr c ver p hp,
          pure, Except.pure, bind, Except.bind, parseU8_cons, hattrs, byte_toNat t hlt, hrow]
        simp [astartName, astartOpt, hrow', swPage]
  | lit off =>
    simp only [wfAStart, Bool.and_eq_true, decide_eq_true_eq] at ha
    unfold parseAttrStart
    simp only [serAStart, List.cons_append, isToken_cons, beq_self_eq_true, ↓reduceIte, bind, Except.bind,
      parseLiteral_ser c ver hc ha.1 4 off ha.2, pure, Except.pure, astartName, astartOpt]

/-! ### `attribute` -/

theorem serAVals_fuel (vs : List AVal) (suf : Bytes) : vs.length < (serAVals vs ++ suf).length + 1 := by
  have := serAVals_length vs
  simp only [List.length_append]; omega

theorem parseAttribute_ser (c : Ctx) (ver) (hc : c.ok = true) (ap : Nat) (a : Attribute)
    (ha : wfAttr c ap a = true) (suf : Bytes) (hstop : Stops c ver suf) (tp cur) :
    parseAttribute (st c ver (serAttr a ++ suf) tp ap cur) =
      .ok ((evAttr c ap a).1, st c ver suf tp (evAttr c ap a).2 cur) := by
  simp only [wfAttr, wfPi, Bool.and_eq_true] at ha
  obtain ⟨⟨hst, hvs⟩, hdt⟩ := ha
  obtain ⟨b, hb⟩ := Option.isSome_iff_exists.mp hdt
  unfold parseAttribute
  simp only [serAttr, List.append_assoc, parseAttrStart_ser c ver hc ap a.start hst, bind, Except.bind]
  rw [attrValueLoop_ser c ver hc a.vals _ hvs suf hstop _ (serAVals_fuel a.vals suf)]
  simp only [astartOpt_getD c ap a.start hst, evAttr, hb, Option.getD_some, withNul]
  generalize (astartName c ap a.start).1 = name at hb ⊢
  generalize (astartName c ap a.start).2.1 ++ (avalsText c (astartName c ap a.start).2.2 a.vals).1 = v at hb ⊢
  unfold attrValueText at hb
  by_cases he : (!v.isEmpty) = true
  · simp only [he, ↓reduceIte]
    cases name with
    | literal s => simp [he, isDatetimeAttr] at hb; simp [hb, pure, Except.pure]
    | token r =>
      simp only [he, Bool.true_and, isDatetimeAttr] at hb
      by_cases h1 : (c.lang.id == 1301 && r.page == 0 && (r.token == 0x0a || r.token == 0x10)) = true
      · simp only [h1, Bool.true_or, ↓reduceIte] at hb ⊢
        cases hd : decodeDatetime v with
        | ok x => simp [hd] at hb; simp [hb, pure, Except.pure]
        | error e => simp [hd] at hb
      · by_cases h2 : (c.lang.id == 1701 && r.page == 0 && r.token == 0x05) = true
        · simp only [h1, h2, Bool.or_true, ↓reduceIte, Bool.false_eq_true] at hb ⊢
          cases hd : decodeDatetime v with
          | ok x => simp [hd] at hb; simp [hb, pure, Except.pure]
          | error e => simp [hd] at hb
        · simp only [h1, h2, Bool.or_self, Bool.false_eq_true, ↓reduceIte, Option.some.injEq] at hb ⊢
          simp [hb, pure, Except.pure]
  · simp only [he, Bool.false_eq_true, ↓reduceIte, Bool.false_and, Option.some.injEq] at hb ⊢
    simp [hb, pure, Except.pure]

/-! ### Attribute lists -/

theorem serAStart_head (c : Ctx) (ap : Nat) (a : AStart) (ha : wfAStart c ap a = true) :
    ∃ b r, serAStart a = b :: r ∧ (b == 1) = false := by
  cases a with
  | tok sw t =>
    simp only [wfAStart, Bool.and_eq_true] at ha
    obtain ⟨_, _, _, _, _, _, f1, _, _⟩ := startTok_tbl t (startTok_lt t ha.1.2) ha.1.2
    cases sw with
    | none => exact ⟨byte t, [], rfl, f1⟩
    | some p => exact ⟨0, [byte p, byte t], rfl, by decide⟩
  | lit off => exact ⟨4, mb off, rfl, by decide⟩

theorem serAVal_head (c : Ctx) (ap : Nat) (v : AVal) (hv : wfAVal c ap v = true) :
    ∃ b r, serAVal v = b :: r ∧ (b == 1) = false := by
  cases v with
  | tok sw t =>
    simp only [wfAVal, Bool.and_eq_true] at hv
    obtain ⟨_, _, _, _, _, _, f1, _⟩ := valTok_tbl t (valTok_lt t hv.1.2) hv.1.2
    cases sw with
    | none => exact ⟨byte t, [], rfl, f1⟩
    | some p => exact ⟨0, [byte p, byte t], rfl, by decide⟩
  | str s =>
    cases s with
    | inl s => exact ⟨3, s ++ [0], rfl, by decide⟩
    | tbl off => exact ⟨0x83, mb off, rfl, by decide⟩
  | entity code => exact ⟨2, mb code, rfl, by decide⟩
  | «opaque» d => exact ⟨0xC3, mb d.length ++ d, rfl, by decide⟩
  | ext sw x =>
    simp only [wfAVal, Bool.and_eq_true] at hv
    have hb := (extTok_facts _ (extByte_facts c x hv.2).2).2.1
    cases sw with
    | none => exact ⟨extByte x, extTail x, by simp [serAVal, serSw, serExt_eq], hb⟩
    | some p => exact ⟨0, byte p :: serExt x, rfl, by decide⟩

theorem serAttr_length (a : Attribute) : 1 ≤ (serAttr a).length := by
  cases a with
  | mk start vals => cases start <;> simp [serAttr, serAStart] <;> omega

theorem serAttrs_length (as : List Attribute) : as.length ≤ (serAttrs as).length := by
  induction as with
  | nil => simp
  | cons a as ih => have := serAttr_length a; simp only [serAttrs, List.length_cons, List.length_append]; omega

/-- `1*attribute` up to (not including) `END`. -/
theorem attrsLoop_ser (c : Ctx) (ver) (hc : c.ok = true) (a : Attribute) (as : List Attribute) : ∀ (ap : Nat)
    (_ : wfAttrs c ap (a :: as) = true) (suf : Bytes) (f : Nat) (_ : as.length < f)
    (acc : List Attr) (tp cur),
    attrsLoop f acc (st c ver (serAttrs (a :: as) ++ 0x01 :: suf) tp ap cur) =
      .ok (acc ++ (evAttrs c ap (a :: as)).1, st c ver (0x01 :: suf) tp (evAttrs c ap (a :: as)).2 cur) := by
  induction as generalizing a with
  | nil =>
    intro ap hwf suf f hf acc tp cur
    obtain ⟨f', rfl⟩ : ∃ f', f = f' + 1 := ⟨f - 1, by omega⟩
    simp only [wfAttrs, Bool.and_eq_true, and_true] at hwf
    simp only [serAttrs, List.append_nil, attrsLoop, bind, Except.bind,
      parseAttribute_ser c ver hc ap a hwf (0x01 :: suf) (stops_END c ver suf), isToken_cons,
      beq_self_eq_true, ↓reduceIte, pure, Except.pure, evAttrs]
  | cons a2 as ih =>
    intro ap hwf suf f hf acc tp cur
    obtain ⟨f', rfl⟩ : ∃ f', f = f' + 1 := ⟨f - 1, by omega⟩
    have hwf' := hwf
    simp only [wfAttrs, Bool.and_eq_true] at hwf
    obtain ⟨h1, h2, h3⟩ := hwf
    have h2s : wfAStart c (evAttr c ap a).2 a2.start = true := by
      simp only [wfAttr, wfPi, Bool.and_eq_true] at h2; exact h2.1.1
    obtain ⟨b, r, hbr, hb1⟩ := serAStart_head c _ a2.start h2s
    have hstop : Stops c ver (serAttrs (a2 :: as) ++ 0x01 :: suf) := by
      simp only [serAttrs, serAttr, List.append_assoc]
      exact stops_serAStart c ver _ a2.start h2s _
    have hrest : wfAttrs c (evAttr c ap a).2 (a2 :: as) = true := by
      simp only [wfAttrs, Bool.and_eq_true]; exact ⟨h2, h3⟩
    rw [serAttrs, List.append_assoc, attrsLoop]
    simp only [bind, Except.bind, parseAttribute_ser c ver hc ap a h1 _ hstop]
    have hnot : isToken (st c ver (serAttrs (a2 :: as) ++ 0x01 :: suf) tp (evAttr c ap a).2 cur) 0x01 = false := by
      simp only [serAttrs, serAttr, hbr, List.append_assoc, List.cons_append, isToken_cons, hb1]
    simp only [hnot, Bool.false_eq_true, ↓reduceIte]
    rw [ih a2 _ hrest suf f' (by simpa using hf)]
    simp only [evAttrs, List.append_assoc, List.singleton_append]

/-! ### `pi` -/

theorem piValueLoop_ser (c : Ctx) (ver) (hc : c.ok = true) (vs : List AVal) : ∀ (ap : Nat)
    (_ : wfAVals c ap vs = true) (suf : Bytes) (f : Nat) (_ : vs.length < f) (acc : Bytes) (tp cur),
    piValueLoop f acc (st c ver (serAVals vs ++ 0x01 :: suf) tp ap cur) =
      .ok (acc ++ (avalsText c ap vs).1, st c ver (0x01 :: suf) tp (avalsText c ap vs).2 cur) := by
  induction vs with
  | nil =>
    intro ap _ suf f hf acc tp cur
    obtain ⟨f', rfl⟩ : ∃ f', f = f' + 1 := ⟨f - 1, by omega⟩
    simp only [serAVals, List.nil_append, piValueLoop, isToken_cons, beq_self_eq_true, ↓reduceIte,
      avalsText, List.append_nil, pure, Except.pure]
  | cons v vs ih =>
    intro ap hwf suf f hf acc tp cur
    obtain ⟨f', rfl⟩ : ∃ f', f = f' + 1 := ⟨f - 1, by omega⟩
    simp only [wfAVals, Bool.and_eq_true] at hwf
    obtain ⟨b, r, hbr, hb1⟩ := serAVal_head c ap v hwf.1
    have hnot : isToken (st c ver (serAVal v ++ (serAVals vs ++ 0x01 :: suf)) tp ap cur) 0x01 = false := by
      simp only [hbr, List.cons_append, isToken_cons, hb1]
    simp only [serAVals, List.append_assoc, piValueLoop, hnot, Bool.false_eq_true, ↓reduceIte,
      bind, Except.bind, parseAttrValue_ser c ver hc ap v hwf.1, avalOpt_getD]
    rw [ih _ hwf.2 suf f' (by simpa using hf)]
    simp only [avalsText, List.append_assoc]

theorem parsePi_ser (c : Ctx) (ver) (hc : c.ok = true) (ap : Nat) (a : Attribute)
    (ha : wfPi c ap a = true) (suf : Bytes) (tp cur) :
    parsePi (st c ver (serPi a ++ suf) tp ap cur) =
      .ok ((evPi c ap a).1, st c ver suf tp (evPi c ap a).2 cur) := by
  simp only [wfPi, Bool.and_eq_true] at ha
  have hfuel : a.vals.length < (serAVals a.vals ++ 0x01 :: suf).length + 1 := by
    have := serAVals_length a.vals
    simp only [List.length_append]; omega
  unfold parsePi
  simp only [serPi, serAttr, List.cons_append, List.append_assoc, List.nil_append, skip1_cons, bind, Except.bind,
    parseAttrStart_ser c ver hc ap a.start ha.1]
  rw [piValueLoop_ser c ver hc a.vals _ ha.2 suf _ hfuel]
  simp only [skip1_cons, astartOpt_getD c ap a.start ha.1, pure, Except.pure, evPi, withNul]

end Wbxml.Lemmas.ParseSer
