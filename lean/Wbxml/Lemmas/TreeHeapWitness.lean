/-
  C18 lemmas, part 15: concrete histories (witnesses and non-vacuity), evaluated one call at a time by
  kernel reduction.
-/
import Wbxml.Lemmas.TreeHeapMerge
namespace Wbxml.Model.TreeHeap
open Wbxml Wbxml.Model

theorem run_cons {s s1 : St} {op : Op} {r : Ret} (rest : List Op) (h : stepChecked s op = .ok (r, s1)) :
    run s (op :: rest) = run s1 rest := by simp only [run, h]

/-! ### Root `<r>`, text "a", element `<e/>`, text "b", extraction of `<e/>` -/

def adjWitness : List Op :=
  [.addElt none (.literal b!"r"), .addText (some 0) b!"a", .addElt (some 0) (.literal b!"e"),
   .addText (some 0) b!"b", .extract 2]

def w1 : St := { heap := [{ pay := .elt (.literal b!"r") [] }], root := some 0 }
def w2 : St :=
  { heap := [{ pay := .elt (.literal b!"r") [], first := some 1 }, { pay := .text b!"a", parent := some 0 }],
    root := some 0 }
def w3 : St :=
  { heap := [{ pay := .elt (.literal b!"r") [], first := some 1 },
             { pay := .text b!"a", parent := some 0, next := some 2 },
             { pay := .elt (.literal b!"e") [], parent := some 0, prev := some 1 }], root := some 0 }
def w4 : St :=
  { heap := [{ pay := .elt (.literal b!"r") [], first := some 1 },
             { pay := .text b!"a", parent := some 0, next := some 2 },
             { pay := .elt (.literal b!"e") [], parent := some 0, prev := some 1, next := some 3 },
             { pay := .text b!"b", parent := some 0, prev := some 2 }], root := some 0 }
/-- The state the witness ends in: the two text nodes (addresses 1 and 3) are siblings, `1.next = 3`. -/
def adjWitnessState : St :=
  { heap := [{ pay := .elt (.literal b!"r") [], first := some 1 },
             { pay := .text b!"a", parent := some 0, next := some 3 },
             { pay := .elt (.literal b!"e") [] },
             { pay := .text b!"b", parent := some 0, prev := some 1 }], root := some 0 }

theorem adj_h1 : stepChecked (create [] 0 0) (.addElt none (.literal b!"r")) = .ok (.node (some 0), w1) := by rfl
theorem adj_h2 : stepChecked w1 (.addText (some 0) b!"a") = .ok (.node (some 1), w2) := by rfl
theorem adj_h3 : stepChecked w2 (.addElt (some 0) (.literal b!"e")) = .ok (.node (some 2), w3) := by rfl
theorem adj_h4 : stepChecked w3 (.addText (some 0) b!"b") = .ok (.node (some 3), w4) := by rfl
theorem adj_h5 : stepChecked w4 (.extract 2) = .ok (.code 0, adjWitnessState) := by rfl

theorem adjWitness_runs : run (create [] 0 0) adjWitness = .ok adjWitnessState := by
  unfold adjWitness
  rw [run_cons _ adj_h1, run_cons _ adj_h2, run_cons _ adj_h3, run_cons _ adj_h4, run_cons _ adj_h5]; rfl

theorem adjWitness_adjacent : ¬ NoAdjText adjWitnessState :=
  fun hN => hN 1 3 _ _ rfl rfl rfl ⟨rfl, rfl⟩

/-! ### Root `<r>`, child `<c/>`, extraction of the child — then extracting it again -/

def x2 : St :=
  { heap := [{ pay := .elt (.literal b!"r") [], first := some 1 },
             { pay := .elt (.literal b!"c") [], parent := some 0 }], root := some 0 }
def x3 : St :=
  { heap := [{ pay := .elt (.literal b!"r") [] }, { pay := .elt (.literal b!"c") [] }], root := some 0 }

theorem ext_h2 : stepChecked w1 (.addElt (some 0) (.literal b!"c")) = .ok (.node (some 1), x2) := by rfl
theorem ext_h3 : stepChecked x2 (.extract 1) = .ok (.code 0, x3) := by rfl

theorem extWitness_runs :
    run (create [] 0 0) [.addElt none (.literal b!"r"), .addElt (some 0) (.literal b!"c"), .extract 1] = .ok x3 := by
  rw [run_cons _ adj_h1, run_cons _ ext_h2, run_cons _ ext_h3]; rfl

/-! ### Merge, CDATA, extraction, re-insertion, destruction (non-vacuity of the preconditions) -/

def m3 : St :=
  { heap := [{ pay := .elt (.literal b!"r") [], first := some 2 },
             { pay := .text b!"a", parent := some 0, live := false },
             { pay := .text b!"ab", parent := some 0 }], root := some 0 }
def m4 : St :=
  { heap := [{ pay := .elt (.literal b!"r") [], first := some 2 },
             { pay := .text b!"a", parent := some 0, live := false },
             { pay := .text b!"ab", parent := some 0, next := some 3 },
             { pay := .cdata, parent := some 0, prev := some 2 }], root := some 0 }
def m5 : St :=
  { heap := [{ pay := .elt (.literal b!"r") [], first := some 2 },
             { pay := .text b!"a", parent := some 0, live := false },
             { pay := .text b!"ab", parent := some 0 },
             { pay := .cdata }], root := some 0 }
def m8 : St :=
  { heap := [{ pay := .elt (.literal b!"r") [], first := some 2 },
             { pay := .text b!"a", parent := some 0, live := false },
             { pay := .text b!"ab", parent := some 0 },
             { pay := .cdata, live := false }], root := some 0 }

theorem mix_h3 : stepChecked w2 (.addText (some 0) b!"b") = .ok (.node (some 2), m3) := by rfl
theorem mix_h4 : stepChecked m3 (.addCdata (some 0)) = .ok (.node (some 3), m4) := by rfl
theorem mix_h5 : stepChecked m4 (.extract 3) = .ok (.code 0, m5) := by rfl
theorem mix_h6 : stepChecked m5 (.addNode (some 0) 3) = .ok (.bool true, m4) := by rfl
theorem mix_h8 : stepChecked m5 (.destroy 3) = .ok (.unit, m8) := by rfl

theorem mixWitness_runs :
    run (create [] 0 0)
      [.addElt none (.literal b!"r"), .addText (some 0) b!"a", .addText (some 0) b!"b",
       .addCdata (some 0), .extract 3, .addNode (some 0) 3, .extract 3, .destroy 3] = .ok m8 := by
  rw [run_cons _ adj_h1, run_cons _ adj_h2, run_cons _ mix_h3, run_cons _ mix_h4, run_cons _ mix_h5,
    run_cons _ mix_h6, run_cons _ mix_h5, run_cons _ mix_h8]; rfl

end Wbxml.Model.TreeHeap
