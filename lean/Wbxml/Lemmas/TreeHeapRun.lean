/-
  C18 lemmas, part 10: every call of the API inside `pre` keeps `Inv` and never faults; lifted to all
  finite histories by induction over the list of calls.
-/
import Wbxml.Lemmas.TreeHeapDestroy
import Wbxml.Lemmas.TreeHeapAdj
set_option linter.unusedSimpArgs false
set_option linter.unusedVariables false
namespace Wbxml.Model.TreeHeap
open Wbxml Wbxml.Model

/-- What the callers of a step rely on besides `Inv`. -/
def Keeps (s s' : St) : Prop := s'.lang = s.lang ∧ s'.charset = s.charset

theorem Keeps.refl (s : St) : Keeps s s := ⟨rfl, rfl⟩
theorem Keeps.trans {a b c : St} (h1 : Keeps a b) (h2 : Keeps b c) : Keeps a c :=
  ⟨h2.1.trans h1.1, h2.2.trans h1.2⟩
theorem SameMeta.keeps {s s' : St} (h : SameMeta s s') : Keeps s s' := ⟨h.2.1, h.2.2.1⟩

/-! ### create -/

theorem inv_create (main : List Lang) (lang cs : Nat) : Inv (create main lang cs) := by
  refine ⟨.nil, trivial, by simp, ?_, ?_⟩
  · intro i c hc
    simp [create, St.cellAt] at hc
  · intro r hr; simp [create] at hr

/-! ### The common tail of the `wbxml_tree_add_*` functions -/

theorem addFresh_unfold (s : St) (parent : Option Nat) (p : Pay) :
    addFresh s parent p =
      (match addNode (s.alloc p).2 parent s.heap.length with
       | .error e => .error e
       | .ok (ok, s1) =>
         if ok = true then .ok (some s.heap.length, s1)
         else match s1.free s.heap.length with
           | .error e => .error e
           | .ok s2 => .ok (none, s2)) := by
  have hfst : (s.alloc p).1 = s.heap.length := rfl
  simp only [addFresh, bind, Except.bind, pure, Except.pure, hfst]
  cases addNode (s.alloc p).2 parent s.heap.length with
  | error e => rfl
  | ok v =>
    obtain ⟨ok, s1⟩ := v
    cases ok with
    | false => simp; cases s1.free s.heap.length <;> rfl
    | true => simp

theorem addFresh_inv {s : St} {G : BT} (hF : Forest s G) (parent : Option Nat) (p : Pay)
    (hpar : parentOK s parent = true) :
    ∃ r s' G', addFresh s parent p = .ok (r, s') ∧ Forest s' G' ∧ Keeps s s' ∧ s'.curPage = s.curPage ∧
      (∀ a, r = some a → ∃ c, s'.cellAt a = some c ∧ c.pay.isBranch = p.isBranch ∧ c.pay.isText = p.isText) ∧
      (NoAdjText s → NoAdjText s') := by
  have hI : Inv s := ⟨G, hF⟩
  obtain ⟨hF0, hfresh, hca, hother⟩ := hF.alloc p
  obtain ⟨ha1, hv0, hr0, hl0, hc0, hp0, hlen0⟩ := alloc_view s p
  have htop : s.heap.length ∈ (BT.snoc G (.node s.heap.length .nil .nil)).tops := by
    rw [BT.tops_snoc]; right; simp [BT.tops]
  have hroot : (s.alloc p).2.root ≠ some s.heap.length := by
    rw [hr0]; intro h
    exact hfresh (BT.tops_sub _ _ (hF.root _ h))
  cases parent with
  | none =>
    obtain ⟨b, s1, e1, hF1, hv1, hl1, hc1, hp1, hlen1, hb1, hb2⟩ :=
      addNode_root hF0 hca (by rfl)
    cases b with
    | true =>
      refine ⟨some s.heap.length, s1, _, ?_, hF1, ⟨hl1.trans hl0, hc1.trans hc0⟩, hp1.trans hp0, ?_,
        fun h => (alloc_noadj hI h p).of_view_eq hv1⟩
      · rw [addFresh_unfold, e1]; simp
      · intro a ha; injection ha with ha; subst ha
        exact ⟨_, by rw [hv1]; exact hca, rfl, rfl⟩
    | false =>
      have hroot1 : s1.root ≠ some s.heap.length := by rw [(hb2 rfl).1]; exact hroot
      obtain ⟨s2, e2, hF2, m2, hv2⟩ := hF1.free_top (by rw [hv1]; exact hca) htop
        (BT.chainKids_snoc_fresh _ G hfresh) hroot1
      refine ⟨none, s2, _, ?_, hF2, ⟨(m2.2.1.trans hl1).trans hl0, (m2.2.2.1.trans hc1).trans hc0⟩,
        (m2.2.2.2.1.trans hp1).trans hp0, (by intro a ha; cases ha),
        fun h => ((alloc_noadj hI h p).of_view_eq hv1).vdel _ hv2⟩
      rw [addFresh_unfold, e1]
      simp only [Bool.false_eq_true, if_false, e2]
  | some P =>
    obtain ⟨cP, hcP, hbr⟩ := parentOK_some hpar
    have hPG : P ∈ G.ids := hF.cover P cP hcP
    have hPa : P ≠ s.heap.length := fun e => hfresh (e ▸ hPG)
    have ctx : AddCtx (s.alloc p).2 (BT.snoc G (.node s.heap.length .nil .nil)) P s.heap.length cP { pay := p } :=
      ⟨hF0, htop, hroot, (BT.snoc_ids _ _ P).mpr (Or.inl hPG), hPa,
       by rw [BT.chainKids_snoc_fresh _ G hfresh]; simp, by rw [hother P hPa]; exact hcP, hbr, hca⟩
    obtain ⟨s1, e1, m1, hF1, c1, hc1, hb1, ht1⟩ := addNode_under ctx
    refine ⟨some s.heap.length, s1, _, ?_, hF1, ⟨m1.2.1.trans hl0, m1.2.2.1.trans hc0⟩, m1.2.2.2.1.trans hp0, ?_,
      fun h => addNode_under_noadj ctx (alloc_noadj hI h p) e1⟩
    · rw [addFresh_unfold, e1]; simp
    · intro a ha; injection ha with ha; subst ha
      exact ⟨c1, hc1, hb1, ht1⟩

/-- `wbxml_tree_node_add_attrs` keeps everything but the attribute list. -/
theorem addAttrs_inv {s : St} {G : BT} (hF : Forest s G) {a : Nat} {c : Cell} (hc : s.cellAt a = some c)
    (attrs : List Attr) :
    ∃ s' c', addAttrs s a attrs = .ok s' ∧ Forest s' G ∧ SameMeta s s' ∧ s'.cellAt a = some c' ∧
      c'.pay.isBranch = c.pay.isBranch ∧ (NoAdjText s → NoAdjText s') := by
  have hbr : (c.pay.addAttrs attrs).isBranch = c.pay.isBranch := by
    cases hp : c.pay <;> rfl
  obtain ⟨s', e, hF', m, v⟩ := hF.set_pay hc
    (fun c => { c with pay := c.pay.addAttrs attrs }) (fun _ => rfl) ⟨rfl, rfl, rfl, rfl⟩ hbr
  have htx : (c.pay.addAttrs attrs).isText = c.pay.isText := by
    cases hp : c.pay <;> rfl
  exact ⟨s', { c with pay := c.pay.addAttrs attrs }, e, hF', m, by rw [v]; simp, hbr,
    fun h => set_pay_noadj hc _ v rfl htx h⟩

/-! ### Every call -/

theorem parentOK_curPage (s : St) (page : Nat) (p : Option Nat) :
    parentOK { s with curPage := page } p = parentOK s p := rfl

theorem step_inv {s : St} (hI : Inv s) (op : Op) (hpre : pre s op = true) :
    ∃ r s', step s op = .ok (r, s') ∧ Inv s' ∧ Keeps s s' ∧
      (op.isExtract = false → NoAdjText s → NoAdjText s') := by
  obtain ⟨G, hF⟩ := hI
  cases op with
  | addElt p name =>
    obtain ⟨r, s', G', e, hF', hk, _, _, hna⟩ := addFresh_inv hF p (.elt name []) hpre
    exact ⟨.node r, s', by simp only [step, addElt, e, wrapN], ⟨G', hF'⟩, hk, fun _ => hna⟩
  | addEltAttrs p name attrs =>
    obtain ⟨r, s', G', e, hF', hk, _, hcell, hna⟩ := addFresh_inv hF p (.elt name []) hpre
    cases r with
    | none =>
      exact ⟨.node none, s', by simp only [step, addEltWithAttrs, addElt, e, bind, Except.bind, pure, Except.pure, wrapN],
        ⟨G', hF'⟩, hk, fun _ => hna⟩
    | some a =>
      by_cases hemp : attrs.isEmpty = true
      · exact ⟨.node (some a), s', by
          simp only [step, addEltWithAttrs, addElt, e, bind, Except.bind, pure, Except.pure, hemp, if_true, wrapN],
          ⟨G', hF'⟩, hk, fun _ => hna⟩
      · obtain ⟨c, hc, _⟩ := hcell a rfl
        obtain ⟨s2, c2, e2, hF2, m2, _, _, hna2⟩ := addAttrs_inv hF' hc attrs
        exact ⟨.node (some a), s2, by
          simp only [step, addEltWithAttrs, addElt, e, bind, Except.bind, pure, Except.pure, hemp, if_false, e2, wrapN,
            Bool.false_eq_true],
          ⟨G', hF2⟩, hk.trans m2.keeps, fun _ h => hna2 (hna h)⟩
  | addXmlElt p name =>
    simp only [pre, Bool.and_eq_true] at hpre
    cases hl : s.lang with
    | none => rw [hl] at hpre; simp at hpre
    | some lang =>
      have hF0 : Forest { s with curPage := (xmlEltName lang name).2 } G :=
        hF.of_view_eq rfl (fun r hr => hF.root r hr)
      obtain ⟨r, s', G', e, hF', hk, _, _, hna⟩ := addFresh_inv hF0 p (.elt (xmlEltName lang name).1 []) hpre.1
      simp only [hl] at e
      exact ⟨.node r, s', by simp only [step, addXmlElt, hl, e, wrapN], ⟨G', hF'⟩, hk,
        fun _ h => hna (h.of_view_eq rfl)⟩
  | addXmlEltAttrs p name attrs =>
    simp only [pre, Bool.and_eq_true] at hpre
    cases hl : s.lang with
    | none => rw [hl] at hpre; simp at hpre
    | some lang =>
      have hF0 : Forest { s with curPage := (xmlEltName lang name).2 } G :=
        hF.of_view_eq rfl (fun r hr => hF.root r hr)
      obtain ⟨r, s', G', e, hF', hk, _, hcell, hna⟩ := addFresh_inv hF0 p (.elt (xmlEltName lang name).1 []) hpre.1
      simp only [hl] at e
      have hna' : NoAdjText s → NoAdjText s' := fun h => hna (h.of_view_eq rfl)
      have hl' : s'.lang = some lang := by rw [hk.1]; exact hl
      cases r with
      | none =>
        exact ⟨.node none, s', by
          simp only [step, addXmlEltWithAttrs, addXmlElt, hl, e, bind, Except.bind, pure, Except.pure, wrapN],
          ⟨G', hF'⟩, hk, fun _ => hna'⟩
      | some a =>
        by_cases hemp : attrs.isEmpty = true
        · exact ⟨.node (some a), s', by
            simp only [step, addXmlEltWithAttrs, addXmlElt, hl, e, bind, Except.bind, pure, Except.pure, hl', hemp,
              if_true, wrapN],
            ⟨G', hF'⟩, hk, fun _ => hna'⟩
        · obtain ⟨c, hc, _⟩ := hcell a rfl
          obtain ⟨s2, c2, e2, hF2, m2, _, _, hna2⟩ := addAttrs_inv hF' hc (attrs.map (xmlAttr lang))
          exact ⟨.node (some a), s2, by
            simp only [step, addXmlEltWithAttrs, addXmlElt, hl, e, bind, Except.bind, pure, Except.pure, hl', hemp,
              if_false, e2, wrapN, Bool.false_eq_true],
            ⟨G', hF2⟩, hk.trans m2.keeps, fun _ h => hna2 (hna' h)⟩
  | addXmlEltAttrsText p name attrs text =>
    simp only [pre, Bool.and_eq_true] at hpre
    cases hl : s.lang with
    | none => rw [hl] at hpre; simp at hpre
    | some lang =>
      have hF0 : Forest { s with curPage := (xmlEltName lang name).2 } G :=
        hF.of_view_eq rfl (fun r hr => hF.root r hr)
      obtain ⟨r, s', G', e, hF', hk, _, hcell, hna⟩ := addFresh_inv hF0 p (.elt (xmlEltName lang name).1 []) hpre.1
      simp only [hl] at e
      have hna' : NoAdjText s → NoAdjText s' := fun h => hna (h.of_view_eq rfl)
      have hl' : s'.lang = some lang := by rw [hk.1]; exact hl
      cases r with
      | none =>
        exact ⟨.node none, s', by
          simp only [step, addXmlEltWithAttrsAndText, addXmlEltWithAttrs, addXmlElt, hl, e, bind, Except.bind, pure,
            Except.pure, wrapN],
          ⟨G', hF'⟩, hk, fun _ => hna'⟩
      | some a =>
        obtain ⟨c, hc, hcb, _⟩ := hcell a rfl
        -- the element with its attributes
        have hattrs : ∃ s2 c2, addXmlEltWithAttrs s p name attrs = .ok (some a, s2) ∧ Forest s2 G' ∧ Keeps s s2 ∧
            s2.cellAt a = some c2 ∧ c2.pay.isBranch = true ∧ (NoAdjText s → NoAdjText s2) := by
          by_cases hemp : attrs.isEmpty = true
          · exact ⟨s', c, by
              simp only [addXmlEltWithAttrs, addXmlElt, hl, e, bind, Except.bind, pure, Except.pure, hl', hemp, if_true],
              hF', hk, hc, by rw [hcb]; rfl, hna'⟩
          · obtain ⟨s2, c2, e2, hF2, m2, hc2, hb2, hna2⟩ := addAttrs_inv hF' hc (attrs.map (xmlAttr lang))
            exact ⟨s2, c2, by
              simp only [addXmlEltWithAttrs, addXmlElt, hl, e, bind, Except.bind, pure, Except.pure, hl', hemp,
                if_false, e2, Bool.false_eq_true],
              hF2, hk.trans m2.keeps, hc2, by rw [hb2, hcb]; rfl, fun h => hna2 (hna' h)⟩
        obtain ⟨s2, c2, e2, hF2, hk2, hc2, hb2, hna2⟩ := hattrs
        by_cases htx : text.isEmpty = true
        · exact ⟨.node (some a), s2, by
            simp only [step, addXmlEltWithAttrsAndText, e2, bind, Except.bind, pure, Except.pure, htx, if_true, wrapN],
            ⟨G', hF2⟩, hk2, fun _ => hna2⟩
        · have hpar : parentOK s2 (some a) = true := by
            simp only [parentOK, hc2, hb2]
          obtain ⟨r3, s3, G3, e3, hF3, hk3, _, _, hna3⟩ := addFresh_inv hF2 (some a) (.text text) hpar
          exact ⟨.node (some a), s3, by
            simp only [step, addXmlEltWithAttrsAndText, e2, bind, Except.bind, pure, Except.pure, htx, if_false,
              addText, e3, wrapN, Bool.false_eq_true],
            ⟨G3, hF3⟩, hk2.trans hk3, fun _ h => hna3 (hna2 h)⟩
  | addText p t =>
    obtain ⟨r, s', G', e, hF', hk, _, _, hna⟩ := addFresh_inv hF p (.text t) hpre
    exact ⟨.node r, s', by simp only [step, addText, e, wrapN], ⟨G', hF'⟩, hk, fun _ => hna⟩
  | addCdata p =>
    obtain ⟨r, s', G', e, hF', hk, _, _, hna⟩ := addFresh_inv hF p .cdata hpre
    exact ⟨.node r, s', by simp only [step, addCdata, e, wrapN], ⟨G', hF'⟩, hk, fun _ => hna⟩
  | addTree p t =>
    obtain ⟨r, s', G', e, hF', hk, _, hcell, hna⟩ := addFresh_inv hF p (.tree none 0 none) hpre
    cases r with
    | none =>
      exact ⟨.node none, s', by simp only [step, addTree, e, bind, Except.bind, pure, Except.pure, wrapN],
        ⟨G', hF'⟩, hk, fun _ => hna⟩
    | some a =>
      obtain ⟨c, hc, hcb, hct⟩ := hcell a rfl
      obtain ⟨s2, e2, hF2, m2, hv2⟩ := hF'.set_pay hc
        (fun c => { c with pay := .tree t.lang t.origCharset t.root }) (fun _ => rfl) ⟨rfl, rfl, rfl, rfl⟩
        (by rw [hcb]; rfl)
      exact ⟨.node (some a), s2, by
        simp only [step, addTree, e, bind, Except.bind, pure, Except.pure, e2, wrapN],
        ⟨G', hF2⟩, hk.trans m2.keeps, fun _ h => set_pay_noadj hc _ hv2 rfl (by rw [hct]; rfl) (hna h)⟩
  | addNode p n =>
    simp only [pre, Bool.and_eq_true] at hpre
    obtain ⟨⟨h1, h2⟩, h3⟩ := hpre
    cases p with
    | none =>
      obtain ⟨cn, hcn, hp, _, _, _⟩ := isDetached_spec h2
      obtain ⟨b, s', e, hF', hv, hl, hc, _, _, _, _⟩ := addNode_root hF hcn hp
      exact ⟨.bool b, s', by simp only [step, e], ⟨G, hF'⟩, ⟨hl, hc⟩, fun _ h => h.of_view_eq hv⟩
    | some P =>
      obtain ⟨cP, cn, ctx⟩ := addCtx_of_pre hF h1 h2 h3
      obtain ⟨s', e, m, hF', _⟩ := addNode_under ctx
      exact ⟨.bool true, s', by simp only [step, e], ⟨_, hF'⟩, m.keeps, fun _ h => addNode_under_noadj ctx h e⟩
  | extract n =>
    simp only [pre, Option.isSome_iff_exists] at hpre
    obtain ⟨cn, hcn⟩ := hpre
    cases hp : cn.parent with
    | none =>
      obtain ⟨s', e, hF', _, _, hl, hc, _, _⟩ := extract_top hF hcn hp
      exact ⟨.code 0, s', by simp only [step, e], ⟨G, hF'⟩, ⟨hl, hc⟩, by intro h; cases h⟩
    | some P =>
      obtain ⟨s', e, m, hF'⟩ := extract_inner hF hcn hp
      exact ⟨.code 0, s', by simp only [step, e], ⟨_, hF'⟩, m.keeps, by intro h; cases h⟩
  | destroy n =>
    simp only [pre] at hpre
    obtain ⟨cn, hcn, hp, _, _, hr⟩ := isDetached_spec hpre
    obtain ⟨s', e, hv, m⟩ := destroyAll_spec hF hcn hp
    have hn := hF.parent_none_top hcn hp
    have hF' := hF.after_destroy hn hv (by
      intro r hr'
      rw [m.1] at hr'
      exact ⟨hr', fun e => hr (e ▸ hr')⟩)
    exact ⟨.unit, s', by simp only [step, e], ⟨_, hF'⟩, m.keeps, fun _ h => h.vdel_all _ hv⟩

/-- The `wbxml_tree_add_*` functions all have the form "node or NULL, state". -/
theorem wrapN_ok {f : Except Err (Option Nat × St)} {r : Ret} {s' : St}
    (e : wrapN f = .ok (r, s')) : ∃ n, f = .ok (n, s') := by
  unfold wrapN at e
  cases hf : f with
  | error err => rw [hf] at e; cases e
  | ok v =>
    obtain ⟨n, s1⟩ := v
    rw [hf] at e
    injection e with e; injection e with e1 e2; subst e2
    exact ⟨n, rfl⟩

theorem stepChecked_inv {s : St} (hI : Inv s) (op : Op) :
    ∃ r s', stepChecked s op = .ok (r, s') ∧ Inv s' ∧ Keeps s s' ∧
      (op.isExtract = false → NoAdjText s → NoAdjText s') := by
  unfold stepChecked
  by_cases hpre : pre s op = true
  · simp only [hpre, if_true]; exact step_inv hI op hpre
  · simp only [hpre, if_false, Bool.false_eq_true]; exact ⟨.skipped, s, rfl, hI, Keeps.refl s, fun _ h => h⟩

/-- All finite histories: no fault, no fuel exhaustion, the invariant holds at the end (and, the
    statement being about every prefix too, after every call); without extraction, adjacent text
    siblings stay merged. -/
theorem run_inv : ∀ (ops : List Op) (s : St), Inv s → ∃ s', run s ops = .ok s' ∧ Inv s' ∧ Keeps s s' ∧
    ((∀ op, op ∈ ops → op.isExtract = false) → NoAdjText s → NoAdjText s')
  | [], s, hI => ⟨s, rfl, hI, Keeps.refl s, fun _ h => h⟩
  | op :: rest, s, hI => by
    obtain ⟨r, s1, e1, hI1, k1, n1⟩ := stepChecked_inv hI op
    obtain ⟨s2, e2, hI2, k2, n2⟩ := run_inv rest s1 hI1
    refine ⟨s2, by simp only [run, e1, e2], hI2, k1.trans k2, ?_⟩
    intro hall h
    exact n2 (fun o ho => hall o (by simp [ho])) (n1 (hall op (by simp)) h)

end Wbxml.Model.TreeHeap
