/-
  WBXML encoder proofs: splitting a value into value tokens, extension tokens, string-table
  references and inline strings preserves its concatenation — whatever strings the table
  heuristics selected (`wbxml_encode_value_element_buffer`).

  `vval tb` is what a reader with string-table octets `tb` makes of a value element; `Resolves tb
  tbl` says that `tb` contains every (NUL-free) entry of the encoder's table at its offset.
-/
import Wbxml.Lemmas.EncWTyped
namespace Wbxml.Lemmas.EncW
open Wbxml Wbxml.Model Wbxml.Spec Wbxml.Lemmas.ParseSer

/-! ### `findSub` -/

theorem isPrefixOf_split (p s : Bytes) (h : p.isPrefixOf s = true) : s = p ++ s.drop p.length := by
  rw [List.isPrefixOf_iff_prefix] at h
  exact (List.prefix_iff_eq_append.mp h).symm

/-- `wbxml_buffer_search`: the reported index is a position where the needle occurs. -/
theorem findSub_spec (needle : Bytes) : ∀ (s : Bytes) (pos i : Nat), findSub needle s pos = some i →
    ∃ k, i = pos + k ∧ k + needle.length ≤ s.length ∧ s = s.take k ++ (needle ++ s.drop (k + needle.length)) := by
  intro s
  induction s with
  | nil =>
    intro pos i h
    simp only [findSub] at h
    split at h
    · rename_i he
      injection h with h
      have : needle = [] := List.isEmpty_iff.mp he
      subst this
      exact ⟨0, by omega, by simp, by simp⟩
    · cases h
  | cons x xs ih =>
    intro pos i h
    simp only [findSub] at h
    split at h
    · rename_i hp
      injection h with h
      have hs := isPrefixOf_split needle (x :: xs) hp
      refine ⟨0, by omega, ?_, by simpa using hs⟩
      have := congrArg List.length hs
      simp only [List.length_append] at this
      omega
    · obtain ⟨k, hk, hlen, hs⟩ := ih (pos + 1) i h
      refine ⟨k + 1, by omega, by simp only [List.length_cons]; omega, ?_⟩
      have e : k + 1 + needle.length = (k + needle.length) + 1 := by omega
      rw [List.take_succ_cons, e, List.drop_succ_cons, List.cons_append, ← hs]

theorem nulFree_append (a b : Bytes) : nulFree (a ++ b) = (nulFree a && nulFree b) := by
  simp [nulFree, List.all_append]

theorem findSub_nulFree (needle s : Bytes) (pos i : Nat) (h : findSub needle s pos = some i) (hs : nulFree s = true) :
    nulFree needle = true := by
  obtain ⟨k, _, _, he⟩ := findSub_spec needle s pos i h
  rw [he, nulFree_append, nulFree_append] at hs
  simp only [Bool.and_eq_true] at hs
  exact hs.2.1

/-! ### The valuation -/

/-- What a reader whose string table has the octets `tb` makes of a value element. -/
def vval (tb : Bytes) : VElt → Bytes
  | .str s => s
  | .ref off => strAt tb off
  | .tok r => r.name
  | .ext r => r.name

/-- `tb` holds every NUL-free entry of `tbl` at its offset. -/
def Resolves (tb : Bytes) (tbl : List StrEntry) : Prop :=
  ∀ e ∈ tbl, nulFree e.str = true → strAt tb e.offset = e.str

theorem Resolves.mono {tb : Bytes} {tbl tbl' : List StrEntry} (h : Resolves tb tbl') (hp : tbl <+: tbl') :
    Resolves tb tbl := fun e he => h e (hp.subset he)

theorem takeWhile_nulFree (s post : Bytes) (h : nulFree s = true) :
    (s ++ 0 :: post).takeWhile (· != 0) = s := by
  induction s with
  | nil => simp
  | cons x xs ih =>
    simp only [nulFree, List.all_cons, Bool.and_eq_true] at h
    simp only [List.cons_append, List.takeWhile_cons, h.1, ↓reduceIte]
    rw [ih (by simpa [nulFree] using h.2)]

/-- The octets of a table with running-sum offsets resolve it. -/
theorem resolves_of_offs (tbl : List StrEntry) (h : OffsFrom 0 tbl) : Resolves (strtblBytes tbl) tbl := by
  intro e he hn
  obtain ⟨pre, post, hs, ho⟩ := offsFrom_split 0 tbl h e he
  unfold strAt
  rw [hs, ho, Nat.zero_add, List.drop_left]
  simpa using takeWhile_nulFree e.str post hn

/-! ### One pass keeps the concatenation -/

theorem splitPass_concat (P : VElt → Prop) (hcut : CutStable P) (val : VElt → Bytes) (hstr : ∀ s, val (.str s) = s)
    (needle : Bytes) (mk : VElt)
    (hmk : ∀ s idx, P (.str s) → findSub needle s 0 = some idx → val mk = needle) :
    ∀ (f : Nat) (done rest out : List VElt), (∀ e ∈ rest, P e) →
      splitPass needle mk f done rest = .ok out →
      out.flatMap val = done.flatMap val ++ rest.flatMap val := by
  intro f
  induction f with
  | zero => intro done rest out _ h; simp [splitPass] at h
  | succ f ih =>
    intro done rest out hr h
    cases rest with
    | nil =>
      simp only [splitPass] at h
      injection h with h; subst h; simp
    | cons e rest =>
      have he : P e := hr e List.mem_cons_self
      have hr' : ∀ x ∈ rest, P x := fun x hx => hr x (List.mem_cons_of_mem _ hx)
      cases e with
      | str s =>
        simp only [splitPass] at h
        split at h
        · rw [ih _ _ _ hr' h]; simp
        · rename_i idx hfind
          obtain ⟨k, hk, hlen, hs⟩ := findSub_spec needle s 0 idx hfind
          have hk' : idx = k := by omega
          subst hk'
          have hval := hmk s idx he hfind
          split at h
          · cases hp : ptrAdd "value element remainder" s (idx + needle.length) with
            | error e => rw [hp] at h; cases h
            | ok tail =>
              rw [hp] at h
              have ht := ptrAdd_ok hp
              have hr2 : ∀ x ∈ VElt.str tail :: rest, P x := by
                intro x hx
                rcases List.mem_cons.mp hx with rfl | hx
                · rw [ht]; exact (hcut s _ he).2
                · exact hr' x hx
              rw [ih _ _ _ hr2 h]
              simp only [List.flatMap_append, List.flatMap_cons, List.flatMap_nil, List.append_nil, hstr, hval,
                List.append_assoc, ht]
              conv => rhs; rw [hs]
              simp
          · rename_i hnl
            rw [ih _ _ _ hr' h]
            have hdrop : s.drop (idx + needle.length) = [] := by
              apply List.drop_eq_nil_of_le; omega
            simp only [List.flatMap_append, List.flatMap_cons, List.flatMap_nil, List.append_nil, hstr, hval,
              List.append_assoc]
            conv => rhs; rw [hs, hdrop]
            simp
      | ext r => simp only [splitPass] at h; rw [ih _ _ _ hr' h]; simp
      | tok r => simp only [splitPass] at h; rw [ih _ _ _ hr' h]; simp
      | ref o => simp only [splitPass] at h; rw [ih _ _ _ hr' h]; simp

theorem splitByValues_concat (c : WCfg) (tbl : List StrEntry) (tb : Bytes) :
    ∀ (rows : List ValRow), (∀ r ∈ rows, VOk c tbl (.tok r)) → ∀ (l out : List VElt), (∀ e ∈ l, VOk c tbl e) →
      splitByValues rows l = .ok out → out.flatMap (vval tb) = l.flatMap (vval tb) := by
  intro rows
  induction rows with
  | nil => intro _ l out _ h; simp only [splitByValues] at h; injection h with h; subst h; rfl
  | cons r rs ih =>
    intro hrows l out hl h
    simp only [splitByValues] at h
    obtain ⟨l1, hp, h⟩ := bind_ok' h
    have h1 := splitPass_all (VOk c tbl) (vok_cut c tbl) r.name (.tok r) (hrows r List.mem_cons_self) _ [] l l1
      (by intro e he; cases he) hl hp
    have h2 := splitPass_concat (VOk c tbl) (vok_cut c tbl) (vval tb) (fun _ => rfl) r.name (.tok r)
      (fun _ _ _ _ => rfl) _ [] l l1 hl hp
    rw [ih (fun x hx => hrows x (List.mem_cons_of_mem _ hx)) l1 out h1 h, h2]; simp

theorem splitByStrtbl_concat (c : WCfg) (tbl : List StrEntry) (tb : Bytes) (hres : Resolves tb tbl) :
    ∀ (es : List StrEntry), (∀ e ∈ es, e ∈ tbl) → ∀ (l out : List VElt), (∀ e ∈ l, VOk c tbl e) →
      splitByStrtbl es l = .ok out → out.flatMap (vval tb) = l.flatMap (vval tb) := by
  intro es
  induction es with
  | nil => intro _ l out _ h; simp only [splitByStrtbl] at h; injection h with h; subst h; rfl
  | cons r rs ih =>
    intro hrows l out hl h
    simp only [splitByStrtbl] at h
    obtain ⟨l1, hp, h⟩ := bind_ok' h
    have hmem : r ∈ tbl := hrows r List.mem_cons_self
    have h1 := splitPass_all (VOk c tbl) (vok_cut c tbl) r.str (.ref r.offset) ⟨r, hmem, rfl⟩ _ [] l l1
      (by intro e he; cases he) hl hp
    have h2 := splitPass_concat (VOk c tbl) (vok_cut c tbl) (vval tb) (fun _ => rfl) r.str (.ref r.offset)
      (fun s idx hs hf => hres r hmem (findSub_nulFree r.str s 0 idx hf hs)) _ [] l l1 hl hp
    rw [ih (fun x hx => hrows x (List.mem_cons_of_mem _ hx)) l1 out h1 h, h2]; simp

theorem extPass_cons (r : ExtRow) (e : VElt) (es : List VElt) :
    extPass r (e :: es) = extPass r [e] ++ extPass r es := by
  simp [extPass]

theorem extPass_concat (tb : Bytes) (r : ExtRow) (l : List VElt) :
    (extPass r l).flatMap (vval tb) = l.flatMap (vval tb) := by
  induction l with
  | nil => rfl
  | cons e es ih =>
    rw [extPass_cons, List.flatMap_append, ih, List.flatMap_cons]
    congr 1
    cases e with
    | str s =>
      simp only [extPass, List.flatMap_cons, List.flatMap_nil, List.append_nil]
      split
      · rename_i hc
        simp only [Bool.and_eq_true, beq_iff_eq] at hc
        simp [vval, hc.2]
      · simp
    | ext r' => simp [extPass]
    | tok r' => simp [extPass]
    | ref o => simp [extPass]

theorem splitByExts_concat (tb : Bytes) (exts : List ExtRow) (l : List VElt) :
    (splitByExts exts l).flatMap (vval tb) = l.flatMap (vval tb) := by
  induction exts generalizing l with
  | nil => rfl
  | cons r rs ih =>
    unfold splitByExts
    simp only [List.foldl_cons]
    have := ih (extPass r l)
    unfold splitByExts at this
    rw [this, extPass_concat]


/-! ### Content: the character data a reader gets is the text -/

/-- The character data of an event list, concatenated. -/
def charsCat : List Event → Bytes
  | [] => []
  | .chars s :: r => s ++ charsCat r
  | _ :: r => charsCat r

theorem charsCat_charsEv (b : Bytes) (r : List Event) : charsCat (charsEv b ++ r) = b ++ charsCat r := by
  unfold charsEv
  split
  · rename_i h; simp [List.isEmpty_iff.mp h]
  · simp [charsCat]

def strOrRef : VElt → Prop
  | .str _ => True
  | .ref _ => True
  | _ => False

theorem strOrRef_cut : CutStable strOrRef := fun _ _ _ => ⟨trivial, trivial⟩

/-- A reader with table octets `ctx.tbl` gets, from the items written for a list of strings and
    references, the concatenation of their values. -/
theorem evItems_velts (ctx : Ctx) (own) (pg : Pages) (l : List VElt) (h : ∀ e ∈ l, strOrRef e) :
    charsCat (evItems ctx own pg (l.flatMap itemsOfVElt)).1 = l.flatMap (vval ctx.tbl) := by
  induction l with
  | nil => simp [evItems_nil, charsCat]
  | cons e es ih =>
    have ih' := ih (fun x hx => h x (List.mem_cons_of_mem _ hx))
    cases e with
    | str s =>
      simp only [List.flatMap_cons, itemsOfVElt]
      split
      · rw [List.cons_append, List.nil_append, evItems_cons, evItem_str]
        simp only [strText]
        rw [charsCat_charsEv, ih']; rfl
      · rename_i hlen
        have : s = [] := by cases s with | nil => rfl | cons _ _ => simp at hlen
        subst this
        rw [List.nil_append, ih']; rfl
    | ref o =>
      simp only [List.flatMap_cons, itemsOfVElt]
      rw [List.cons_append, List.nil_append, evItems_cons, evItem_str]
      simp only [strText]
      rw [charsCat_charsEv, ih']; rfl
    | ext r => exact absurd (h _ List.mem_cons_self) (by simp [strOrRef])
    | tok r => exact absurd (h _ List.mem_cons_self) (by simp [strOrRef])

/-! ### Attribute values -/

/-- Every value token decodes (first row with its page and token) to a row with the same text. -/
def valSemOk (l : Lang) : Bool :=
  match l.values with
  | some vals => vals.all (fun r => (decVal vals r.page r.token).map (·.name) == some r.name)
  | none => true

/-- What a reader makes of a value element in an attribute value. -/
theorem avalsOf_text (c : WCfg) (tbl) (ctx : Ctx) (hlang : ctx.lang = c.lang) (hl : langOk c.lang = true)
    (hsem : valSemOk c.lang = true) (l : List VElt) (h : ∀ e ∈ l, VOk c tbl e) (hne : ∀ e ∈ l, notExt e) (ap : Nat) :
    (avalsText ctx ap (avalsOf ap l).1).1 = l.flatMap (vval ctx.tbl) := by
  induction l generalizing ap with
  | nil => rfl
  | cons e es ih =>
    have ih' := ih (fun x hx => h x (List.mem_cons_of_mem _ hx)) (fun x hx => hne x (List.mem_cons_of_mem _ hx))
    rw [avalsOf, List.flatMap_cons]
    have happ : ∀ (a b : List AVal) (p : Nat), (avalsText ctx p (a ++ b)).1 =
        (avalsText ctx p a).1 ++ (avalsText ctx (avalsText ctx p a).2 b).1 := by
      intro a
      induction a with
      | nil => intro b p; simp [avalsText]
      | cons x xs iha => intro b p; simp only [List.cons_append, avalsText, iha, List.append_assoc]
    simp only
    rw [happ]
    have hpage : (avalsText ctx ap (avalsOfVElt ap e).1).2 = (avalsOfVElt ap e).2 := by
      have := avalsOf_page ctx [e] ap
      simpa [avalsOf] using this
    rw [hpage, ih']
    congr 1
    cases e with
    | str s =>
      simp only [avalsOfVElt]
      split
      · simp [avalsText, avalText, strText, vval]
      · rename_i hlen
        have : s = [] := by cases s with | nil => rfl | cons _ _ => simp at hlen
        subst this; rfl
    | ref o => simp [avalsOfVElt, avalsText, avalText, strText, vval]
    | ext r => exact absurd (hne _ List.mem_cons_self) (by simp [notExt])
    | tok r =>
      obtain ⟨vals, hv, hr⟩ := h _ List.mem_cons_self
      have hrange := valTok_range r (langOk_values hl hv hr)
      have hv' : ctx.lang.values = some vals := by rw [hlang]; exact hv
      have hs : (decVal vals r.page r.token).map (·.name) = some r.name := by
        simp only [valSemOk, hv, List.all_eq_true, beq_iff_eq] at hsem
        exact hsem r hr
      simp only [avalsOfVElt, avalsText, avalText, swPage_swFor, Nat.mod_eq_of_lt hrange.2, valRow, hv',
        List.append_nil, vval]
      have : List.find? (fun x => x.token == r.token && x.page == r.page) vals = decVal vals r.page r.token := rfl
      rw [this]
      cases hd : decVal vals r.page r.token with
      | none => rw [hd] at hs; cases hs
      | some d => rw [hd] at hs; simpa using hs


/-! ### The XML-level view of an event list

  `toks` forgets what C03 lists as normalisations of representation: character data is taken octet
  by octet (so the chunking into `chars` events does not matter), names are compared as XML names
  (token or literal does not matter), document start/end and processing instructions are dropped. -/

inductive Tok where
  | start (name : Bytes) (attrs : List (Bytes × Bytes))
  | stop (name : Bytes)
  | ch (b : UInt8)
  deriving DecidableEq, Repr

def attrView (x : Attr) : Bytes × Bytes := (x.name.xmlName, x.value)

def toks : Event → List Tok
  | .startElt n attrs => [.start n.xmlName (attrs.map attrView)]
  | .endElt n => [.stop n.xmlName]
  | .chars s => s.map .ch
  | _ => []

theorem toks_charsEv (b : Bytes) : (charsEv b).flatMap toks = b.map .ch := by
  unfold charsEv
  split
  · rename_i h; simp [List.isEmpty_iff.mp h]
  · simp [toks]

/-- A reader with table octets `ctx.tbl` gets, from the items written for a list of strings and
    references, exactly the octets of their values as character data. -/
theorem evItems_velts_toks (ctx : Ctx) (own) (pg : Pages) (l : List VElt) (h : ∀ e ∈ l, strOrRef e) :
    (evItems ctx own pg (l.flatMap itemsOfVElt)).1.flatMap toks = (l.flatMap (vval ctx.tbl)).map .ch := by
  induction l with
  | nil => simp [evItems_nil]
  | cons e es ih =>
    have ih' := ih (fun x hx => h x (List.mem_cons_of_mem _ hx))
    cases e with
    | str s =>
      simp only [List.flatMap_cons, itemsOfVElt]
      split
      · rw [List.cons_append, List.nil_append, evItems_cons, evItem_str]
        simp only [strText, List.flatMap_append, toks_charsEv, ih', List.map_append, vval]
      · rename_i hlen
        have : s = [] := by cases s with | nil => rfl | cons _ _ => simp at hlen
        subst this
        rw [List.nil_append, ih']; simp [vval]
    | ref o =>
      simp only [List.flatMap_cons, itemsOfVElt]
      rw [List.cons_append, List.nil_append, evItems_cons, evItem_str]
      simp only [strText, List.flatMap_append, toks_charsEv, ih', List.map_append, vval]
    | ext r => exact absurd (h _ List.mem_cons_self) (by simp [strOrRef])
    | tok r => exact absurd (h _ List.mem_cons_self) (by simp [strOrRef])

theorem opqs_velts (l : List VElt) (h : ∀ e ∈ l, strOrRef e) : opqsItems (l.flatMap itemsOfVElt) = [] := by
  induction l with
  | nil => simp [opqsItems_nil]
  | cons e es ih =>
    have ih' := ih (fun x hx => h x (List.mem_cons_of_mem _ hx))
    rw [List.flatMap_cons, opqsItems_append, ih', List.append_nil]
    cases e with
    | str s =>
      simp only [itemsOfVElt]
      split
      · rw [opqsItems_cons, opqsItem_str, opqsItems_nil]; rfl
      · rw [opqsItems_nil]
    | ref o => simp only [itemsOfVElt]; rw [opqsItems_cons, opqsItem_str, opqsItems_nil]; rfl
    | ext r => exact absurd (h _ List.mem_cons_self) (by simp [strOrRef])
    | tok r => exact absurd (h _ List.mem_cons_self) (by simp [strOrRef])

/-- No aliases in the tag table: the first row with a row's page and token has the same name, and
    names are NUL-free. (False for ActiveSync only: two names share a token there, which is the
    "earlier alias" normalisation of C03.) -/
def tagSemOk (l : Lang) : Bool :=
  match l.tags with
  | some tags => tags.all (fun r => nulFree r.name && (decTag tags r.page r.token).map (·.name) == some r.name)
  | none => true

/-- … the same for attribute start tokens. -/
def attrNameSemOk (l : Lang) : Bool :=
  match l.attrs with
  | some attrs => attrs.all (fun r => nulFree r.name && (decAttr attrs r.page r.token).map (·.name) == some r.name)
  | none => true

end Wbxml.Lemmas.EncW
