/-
  C18 lemmas, part 16: more algebra of the ghost shape (`snoc` / `setKids` / `kidsOf` / `chainRemove`),
  and the shape of a document under construction: a *spine* of open nodes, each with the chain of its
  closed children, the innermost open node last in every chain.
-/
import Wbxml.Lemmas.TreeHeapMerge
set_option linter.unusedSimpArgs false
set_option linter.unusedVariables false
namespace Wbxml.Model.TreeHeap
open Wbxml Wbxml.Model

namespace BT

theorem snoc_ids_eq : ∀ (C x : BT), (snoc C x).ids = C.ids ++ x.ids
  | nil, x => by simp [snoc]
  | node i ch nx, x => by simp [snoc, snoc_ids_eq nx x]

theorem chainRemove_snoc_fresh (n : Nat) (c : BT) : ∀ (G : BT), n ∉ G.ids →
    chainRemove n (snoc G (.node n c .nil)) = G
  | nil, _ => by simp [snoc, chainRemove]
  | node i ch nx, h => by
    have hia : ¬ i = n := fun e => h (mem_node.mpr (Or.inl e.symm))
    have hnx : n ∉ nx.ids := fun hx => h (mem_node.mpr (Or.inr (Or.inr hx)))
    simp [snoc, chainRemove, hia, chainRemove_snoc_fresh n c nx hnx]

theorem chainKids_snoc_new (n : Nat) (c : BT) : ∀ (G : BT), n ∉ G.ids →
    chainKids n (snoc G (.node n c .nil)) = c
  | nil, _ => by simp [snoc, chainKids]
  | node i ch nx, h => by
    have hia : ¬ i = n := fun e => h (mem_node.mpr (Or.inl e.symm))
    have hnx : n ∉ nx.ids := fun hx => h (mem_node.mpr (Or.inr (Or.inr hx)))
    simp [snoc, chainKids, hia, chainKids_snoc_new n c nx hnx]

theorem kidsOf_snoc (P : Nat) (y : BT) (hy : P ∉ y.ids) : ∀ (X : BT), kidsOf P (snoc X y) = kidsOf P X
  | nil => by simp only [snoc]; rw [kidsOf_not_mem P y hy]; rfl
  | node i ch nx => by
    simp only [snoc, kidsOf, kidsOf_snoc P y hy nx]

theorem setKids_snoc (P : Nat) (k x : BT) : ∀ (C : BT), P ∉ C.ids → setKids P k (snoc C x) = snoc C (setKids P k x)
  | nil, _ => by simp [snoc]
  | node i ch nx, h => by
    have hia : ¬ i = P := fun e => h (mem_node.mpr (Or.inl e.symm))
    have hch : P ∉ ch.ids := fun hx => h (mem_node.mpr (Or.inr (Or.inl hx)))
    have hnx : P ∉ nx.ids := fun hx => h (mem_node.mpr (Or.inr (Or.inr hx)))
    simp only [snoc, setKids, hia, if_false, setKids_not_mem P k ch hch, setKids_snoc P k x nx hnx]

theorem setKids_setKids (P : Nat) (k k' : BT) : ∀ (G : BT), setKids P k (setKids P k' G) = setKids P k G
  | nil => rfl
  | node i ch nx => by
    by_cases e : i = P
    · simp [setKids, e]
    · simp [setKids, e, setKids_setKids P k k' ch, setKids_setKids P k k' nx]

theorem setKids_kidsOf (P : Nat) : ∀ (G : BT), G.ids.Nodup → setKids P (kidsOf P G) G = G
  | nil, _ => rfl
  | node i ch nx, hnd => by
    obtain ⟨hi1, hi2, hcn, hnn, hd⟩ := nodup_node.mp hnd
    by_cases e : i = P
    · simp [setKids, kidsOf, e]
    · by_cases hm : P ∈ ch.ids
      · have hnx : P ∉ nx.ids := hd P hm
        simp only [setKids, kidsOf, e, if_false, hm, if_true, setKids_kidsOf P ch hcn, setKids_not_mem P _ nx hnx]
      · simp only [setKids, kidsOf, e, if_false, hm, setKids_kidsOf P nx hnn, setKids_not_mem P _ ch hm]

/-- Putting the last node of a chain back at its end. -/
theorem snoc_chainRemove_last (n : Nat) : ∀ (K : BT), K.ids.Nodup → K.lastId = some n →
    snoc (chainRemove n K) (.node n (chainKids n K) .nil) = K
  | nil, _, h => by simp [lastId] at h
  | node i ch nil, _, h => by
    simp only [lastId, Option.some.injEq] at h; subst h
    simp [chainRemove, chainKids, snoc]
  | node i ch (node a c m), hnd, h => by
    obtain ⟨hi1, hi2, hcn, hnn, hd⟩ := nodup_node.mp hnd
    have hl : (node a c m).lastId = some n := by simpa [lastId] using h
    have hnm : n ∈ (node a c m).ids := tops_sub _ _ (lastId_mem _ _ hl)
    have hin : ¬ i = n := fun e => hi2 (e ▸ hnm)
    have ih := snoc_chainRemove_last n (node a c m) hnn hl
    have e1 : chainRemove n (node i ch (node a c m)) = node i ch (chainRemove n (node a c m)) := by
      simp [chainRemove, hin]
    have e2 : chainKids n (node i ch (node a c m)) = chainKids n (node a c m) := by
      simp [chainKids, hin]
    rw [e1, e2]
    simp only [snoc, ih]

end BT

/-! ### The spine -/

/-- The shape of an open document: `frames` lists the open nodes innermost first, each with the chain
    of its CLOSED children; `child` is what hangs below the innermost one after them. -/
def spineAux (child : BT) : List (Nat × BT) → BT
  | [] => child
  | (a, C) :: rest => spineAux (.node a (BT.snoc C child) .nil) rest

/-- All addresses of the frames. -/
def spineIds : List (Nat × BT) → List Nat
  | [] => []
  | (a, C) :: rest => a :: (C.ids ++ spineIds rest)

theorem mem_spineAux (j : Nat) : ∀ (rest : List (Nat × BT)) (child : BT),
    j ∈ (spineAux child rest).ids ↔ j ∈ child.ids ∨ j ∈ spineIds rest
  | [], child => by simp [spineAux, spineIds]
  | (a, C) :: rest, child => by
    simp only [spineAux, spineIds, mem_spineAux j rest, BT.mem_node, BT.snoc_ids_eq, List.mem_append, List.mem_cons,
      BT.ids_nil, List.not_mem_nil, or_false]
    constructor
    · rintro ((h | h | h) | h)
      · exact Or.inr (Or.inl h)
      · exact Or.inr (Or.inr (Or.inl h))
      · exact Or.inl h
      · exact Or.inr (Or.inr (Or.inr h))
    · rintro (h | h | h | h)
      · exact Or.inl (Or.inr (Or.inr h))
      · exact Or.inl (Or.inl h)
      · exact Or.inl (Or.inr (Or.inl h))
      · exact Or.inr h

/-- No address twice in the spine: the part below is repetition-free and disjoint from the frames. -/
theorem nodup_spineAux : ∀ (rest : List (Nat × BT)) (child : BT), (spineAux child rest).ids.Nodup →
    child.ids.Nodup ∧ (∀ j, j ∈ child.ids → j ∉ spineIds rest)
  | [], child, h => ⟨h, fun j _ hj => by simp [spineIds] at hj⟩
  | (a, C) :: rest, child, h => by
    obtain ⟨h1, h2⟩ := nodup_spineAux rest _ h
    obtain ⟨hi1, _, hcn, _, _⟩ := BT.nodup_node.mp h1
    rw [BT.snoc_ids_eq] at hi1 hcn
    have hcn' := List.nodup_append.mp hcn
    refine ⟨hcn'.2.1, ?_⟩
    intro j hj hjs
    simp only [spineIds, List.mem_cons, List.mem_append] at hjs
    rcases hjs with hjs | hjs | hjs
    · exact hi1 (by rw [← hjs]; exact List.mem_append.mpr (Or.inr hj))
    · exact hcn'.2.2 j hjs j hj rfl
    · exact h2 j (BT.mem_node.mpr (Or.inr (Or.inl (by rw [BT.snoc_ids_eq]; exact List.mem_append.mpr (Or.inr hj))))) hjs

/-- Replacing the children chain of a node below the frames. -/
theorem setKids_spineAux (P : Nat) (k : BT) : ∀ (rest : List (Nat × BT)) (child child' : BT),
    BT.setKids P k child = child' → P ∉ spineIds rest →
    BT.setKids P k (spineAux child rest) = spineAux child' rest
  | [], child, child', h, _ => h
  | (a, C) :: rest, child, child', h, hP => by
    simp only [spineIds, List.mem_cons, List.mem_append, not_or] at hP
    have haP : ¬ a = P := fun e => hP.1 e.symm
    apply setKids_spineAux P k rest _ _ _ hP.2.2
    simp only [BT.setKids, haP, if_false, BT.setKids_snoc P k child C hP.2.1, h]

/-- The top level of a non-empty spine is one node (the outermost frame). -/
theorem spineAux_tops : ∀ (rest : List (Nat × BT)) (a : Nat) (K : BT),
    ∃ r K', spineAux (.node a K .nil) rest = .node r K' .nil
  | [], a, K => ⟨a, K, rfl⟩
  | (a', C) :: rest, a, K => spineAux_tops rest a' (BT.snoc C (.node a K .nil))

/-- The closed children of the innermost open node, read off the spine. -/
theorem spine_kidsOf (a : Nat) (C : BT) (rs : List (Nat × BT)) (hnd : (spineAux (.node a C .nil) rs).ids.Nodup) :
    BT.kidsOf a (spineAux (.node a C .nil) rs) = C := by
  have ha : a ∉ spineIds rs := (nodup_spineAux rs _ hnd).2 a (by simp)
  have h1 : BT.setKids a C (spineAux (.node a C .nil) rs) = spineAux (.node a C .nil) rs :=
    setKids_spineAux a C rs _ _ (by simp [BT.setKids]) ha
  have hmem : a ∈ (spineAux (.node a C .nil) rs).ids := (mem_spineAux a rs _).mpr (Or.inl (by simp))
  have := BT.kidsOf_setKids a C _ hmem hnd
  rw [h1] at this; exact this

theorem spine_setKids (a : Nat) (C K' : BT) (rs : List (Nat × BT)) (hnd : (spineAux (.node a C .nil) rs).ids.Nodup) :
    BT.setKids a K' (spineAux (.node a C .nil) rs) = spineAux (.node a K' .nil) rs :=
  setKids_spineAux a K' rs _ _ (by simp [BT.setKids]) ((nodup_spineAux rs _ hnd).2 a (by simp))

theorem spineAux_nil_cons (a : Nat) (C : BT) (rs : List (Nat × BT)) :
    spineAux .nil ((a, C) :: rs) = spineAux (.node a C .nil) rs := by
  simp [spineAux]

end Wbxml.Model.TreeHeap
