/-
  C18 lemmas, part 8: allocation, the `wbxml_tree_add_*` wrappers, and the bridge from the executable
  precondition `pre` to the ghost-level contexts of the previous parts.
-/
import Wbxml.Lemmas.TreeHeapExtract
set_option linter.unusedSimpArgs false
set_option linter.unusedVariables false
namespace Wbxml.Model.TreeHeap
open Wbxml Wbxml.Model

/-- The invariant only looks at the live cells and at `tree->root`. -/
theorem Forest.of_view_eq {s s' : St} {G : BT} (hF : Forest s G) (hv : s'.cellAt = s.cellAt)
    (hr : ∀ r, s'.root = some r → r ∈ G.tops) : Forest s' G :=
  ⟨by rw [hv]; exact hF.m, hF.nodup, by rw [hv]; exact hF.cover, hr⟩

/-! ### Allocation -/

theorem Forest.alloc {s : St} {G : BT} (hF : Forest s G) (p : Pay) :
    Forest (s.alloc p).2 (BT.snoc G (.node s.heap.length .nil .nil)) ∧ s.heap.length ∉ G.ids ∧
    (s.alloc p).2.cellAt s.heap.length = some { pay := p } ∧
    (∀ i, i ≠ s.heap.length → (s.alloc p).2.cellAt i = s.cellAt i) := by
  obtain ⟨_, hv, hr, _, _, _, _⟩ := alloc_view s p
  have hfresh : s.heap.length ∉ G.ids := by
    intro h
    obtain ⟨c, hc⟩ := hF.live h
    exact absurd (cellAt_lt hc) (by omega)
  have hother : ∀ i, i ≠ s.heap.length → (s.alloc p).2.cellAt i = s.cellAt i := by
    intro i hi; rw [hv, vset_ne _ _ hi]
  refine ⟨⟨?_, ?_, ?_, ?_⟩, hfresh, by rw [hv]; simp, hother⟩
  · apply Loc.top_snoc
    · apply Loc.mono G none none _ hF.m
      intro i hi par prv f n l
      exact LinkF.congr (hother i (fun e => hfresh (e ▸ hi))) l
    · exact ⟨{ pay := p }, by rw [hv]; simp, rfl, rfl, rfl, rfl, Or.inr rfl⟩
    · exact trivial
  · apply BT.snoc_nodup _ _ hF.nodup (by simp)
    intro j hj hj2
    simp at hj2
    exact hfresh (hj2 ▸ hj)
  · intro i c hc
    rw [BT.snoc_ids]
    by_cases hi : i = s.heap.length
    · right; simp [hi]
    · rw [hother i hi] at hc; exact Or.inl (hF.cover i c hc)
  · intro r hr'
    rw [hr] at hr'
    rw [BT.tops_snoc]; exact Or.inl (hF.root r hr')

theorem BT.chainKids_snoc_fresh (a : Nat) : ∀ (G : BT), a ∉ G.ids →
    BT.chainKids a (BT.snoc G (.node a .nil .nil)) = .nil
  | .nil, _ => by simp [BT.snoc, BT.chainKids]
  | .node i ch nx, h => by
    have hia : ¬ i = a := fun e => h (BT.mem_node.mpr (Or.inl e.symm))
    have hnx : a ∉ nx.ids := fun hx => h (BT.mem_node.mpr (Or.inr (Or.inr hx)))
    simp [BT.snoc, BT.chainKids, hia, BT.chainKids_snoc_fresh a nx hnx]

/-! ### `wbxml_tree_add_node(tree, NULL, node)` -/

theorem cell_eta_parent (c : Cell) (h : c.parent = none) : ({ c with parent := none } : Cell) = c := by
  cases c; simp_all

theorem addNode_root {s : St} {G : BT} (hF : Forest s G) {n : Nat} {cn : Cell} (hcn : s.cellAt n = some cn)
    (hp : cn.parent = none) :
    ∃ b s', addNode s none n = .ok (b, s') ∧ Forest s' G ∧ s'.cellAt = s.cellAt ∧ s'.lang = s.lang ∧
      s'.charset = s.charset ∧ s'.curPage = s.curPage ∧ s'.heap.length = s.heap.length ∧
      (b = true → s.root = none ∧ s'.root = some n) ∧ (b = false → s'.root = s.root ∧ s.root ≠ none) := by
  have hn := hF.parent_none_top hcn hp
  obtain ⟨s1, e1, v1, m1⟩ := upd_step hcn (fun c => { c with parent := none }) (fun _ => rfl)
  have hv : s1.cellAt = s.cellAt := by
    rw [v1]; funext j
    by_cases hj : j = n
    · subst hj; simp [cell_eta_parent cn hp]; exact hcn.symm
    · rw [vset_ne _ _ hj]
  cases hr : s.root with
  | some r =>
    have hr1 : s1.root = some r := by rw [m1.1, hr]
    refine ⟨false, s1, ?_, ?_, hv, m1.2.1, m1.2.2.1, m1.2.2.2.1, m1.2.2.2.2, ?_, ?_⟩
    · simp only [addNode, e1, bind, Except.bind, hr1, pure, Except.pure]
    · exact hF.of_view_eq hv (by intro r' h; rw [m1.1] at h; exact hF.root r' h)
    · intro h; cases h
    · intro _; exact ⟨hr1, by simp⟩
  | none =>
    have hr1 : s1.root = none := by rw [m1.1, hr]
    refine ⟨true, { s1 with root := some n }, ?_, ?_, hv, m1.2.1, m1.2.2.1, m1.2.2.2.1, m1.2.2.2.2, ?_, ?_⟩
    · simp only [addNode, e1, bind, Except.bind, hr1, pure, Except.pure]
    · exact hF.of_view_eq (s' := { s1 with root := some n }) hv (by
        intro r' h
        have h' : some n = some r' := h
        injection h' with h'
        rw [← h']; exact hn)
    · intro _; exact ⟨rfl, rfl⟩
    · intro h; cases h

/-! ### Destroying a childless detached node (the refusal path of the `add_*` functions) -/

theorem Forest.free_top {s : St} {G : BT} (hF : Forest s G) {n : Nat} {cn : Cell} (hcn : s.cellAt n = some cn)
    (hn : n ∈ G.tops) (hk : BT.chainKids n G = .nil) (hr : s.root ≠ some n) :
    ∃ s', s.free n = .ok s' ∧ Forest s' (BT.chainRemove n G) ∧ SameMeta s s' ∧ s'.cellAt = vdel s.cellAt n := by
  obtain ⟨s', e, v, m⟩ := free_step hcn
  refine ⟨s', e, ⟨?_, BT.nodup_chainRemove n G hF.nodup, ?_, ?_⟩, m, v⟩
  · apply Loc.mono _ none none _ (Loc.top_remove _ n G none hF.m)
    intro i hi par prv f nn l
    have hin : i ≠ n := ((BT.mem_chainRemove n G i hF.nodup hn).mp hi).2.1
    exact LinkF.congr (by rw [v, vdel_ne _ hin]) l
  · intro i c hc
    have hin : i ≠ n := by
      intro e; rw [v, e] at hc; simp at hc
    rw [v, vdel_ne _ hin] at hc
    exact (BT.mem_chainRemove n G i hF.nodup hn).mpr ⟨hF.cover i c hc, hin, by rw [hk]; simp⟩
  · intro r hr'
    rw [m.1] at hr'
    exact BT.tops_chainRemove n G r (hF.root r hr') (fun e => hr (e ▸ hr'))

/-! ### Changing the payload of a node -/

theorem Forest.set_pay {s : St} {G : BT} (hF : Forest s G) {a : Nat} {c : Cell} (hc : s.cellAt a = some c)
    (f : Cell → Cell) (hl : ∀ x, (f x).live = x.live)
    (hlinks : (f c).parent = c.parent ∧ (f c).first = c.first ∧ (f c).next = c.next ∧ (f c).prev = c.prev)
    (hb : (f c).pay.isBranch = c.pay.isBranch) :
    ∃ s', s.upd a f = .ok s' ∧ Forest s' G ∧ SameMeta s s' ∧ s'.cellAt = vset s.cellAt a (f c) := by
  obtain ⟨s', e, v, m⟩ := upd_step hc f hl
  refine ⟨s', e, ⟨?_, hF.nodup, ?_, ?_⟩, m, v⟩
  · apply Loc.mono G none none _ hF.m
    intro i hi par prv fi n l
    by_cases hia : i = a
    · subst hia
      cases par with
      | none =>
        obtain ⟨c', hc', h1, h2, h3, h4, h5⟩ := l
        rw [hc] at hc'; injection hc' with hc'; subst hc'
        exact ⟨f c, by rw [v]; simp, by rw [hlinks.1]; exact h1, by rw [hlinks.2.2.2]; exact h2,
          by rw [hlinks.2.1]; exact h3, by rw [hlinks.2.2.1]; exact h4, by rw [hb]; exact h5⟩
      | some p =>
        obtain ⟨c', hc', h1, h2, h3, h4, h5⟩ := l
        rw [hc] at hc'; injection hc' with hc'; subst hc'
        exact ⟨f c, by rw [v]; simp, by rw [hlinks.1]; exact h1, by rw [hlinks.2.2.2]; exact h2,
          by rw [hlinks.2.1]; exact h3, by rw [hlinks.2.2.1]; exact h4, by rw [hb]; exact h5⟩
    · exact LinkF.congr (by rw [v, vset_ne _ _ hia]) l
  · intro i ci hci
    by_cases hia : i = a
    · subst hia; exact hF.cover i c hc
    · rw [v, vset_ne _ _ hia] at hci; exact hF.cover i ci hci
  · intro r hr; rw [m.1] at hr; exact hF.root r hr

/-! ### The executable precondition, read on the ghost level -/

theorem parentOK_some {s : St} {P : Nat} (h : parentOK s (some P) = true) :
    ∃ cP, s.cellAt P = some cP ∧ cP.pay.isBranch = true := by
  unfold parentOK at h
  cases hc : s.cellAt P with
  | none => simp [hc] at h
  | some c => simp [hc] at h; exact ⟨c, rfl, h⟩

theorem isDetached_spec {s : St} {n : Nat} (h : isDetached s n = true) :
    ∃ cn, s.cellAt n = some cn ∧ cn.parent = none ∧ cn.next = none ∧ cn.prev = none ∧ s.root ≠ some n := by
  unfold isDetached at h
  cases hc : s.cellAt n with
  | none => simp [hc] at h
  | some c =>
    simp only [hc, Bool.and_eq_true, Option.isNone_iff_eq_none, bne_iff_ne, ne_eq] at h
    exact ⟨c, rfl, h.1.1.1, h.1.1.2, h.1.2, h.2⟩

/-- `idsList` walks exactly the addresses of the matched shape. -/
theorem idsList_spec {s : St} : ∀ (t : BT) (par prv : Option Nat) (fuel : Nat),
    Match s.cellAt par prv t → t.size + 1 ≤ fuel → idsList s fuel t.rid = .ok t.ids
  | .nil, _, _, fuel, _, hf => by
    cases fuel with
    | zero => omega
    | succ f => rfl
  | .node i ch nx, par, prv, fuel, ⟨⟨c, hc, _, _, hfi, hnx, _⟩, mc, mn⟩, hf => by
    cases fuel with
    | zero => omega
    | succ f =>
      simp only [BT.size] at hf
      have h1 := idsList_spec ch (some i) none f mc (by omega)
      have h2 := idsList_spec nx par (some i) f mn (by omega)
      simp only [BT.rid_node, idsList, deref_of_cellAt hc, hfi, hnx, h1, h2, BT.ids_node]

theorem below_spec {s : St} {G : BT} (hF : Forest s G) {n : Nat} (hn : n ∈ G.tops) :
    below s n = .ok (BT.chainKids n G).ids := by
  obtain ⟨c, hc, _, _, _, hf, _, hm⟩ := Loc.top_facts s.cellAt n G none hF.m hn
  simp only [below, deref_of_cellAt hc]
  rw [hf]
  apply idsList_spec _ _ _ _ hm
  have h1 := hF.size_le
  have h2 : (BT.chainKids n G).ids.length ≤ G.ids.length := by
    have hnd := BT.chainKids_nodup n G hF.nodup hn
    -- a repetition-free list inside another one
    have : ∀ (l m : List Nat), l.Nodup → (∀ x, x ∈ l → x ∈ m) → l.length ≤ m.length := by
      intro l
      induction l with
      | nil => intro m _ _; simp
      | cons a r ih =>
        intro m hnd hsub
        have ham : a ∈ m := hsub a (by simp)
        have hr := ih (m.erase a) (List.nodup_cons.mp hnd).2 (by
          intro x hx
          have hxa : x ≠ a := fun e => (List.nodup_cons.mp hnd).1 (e ▸ hx)
          exact (List.mem_erase_of_ne hxa).mpr (hsub x (by simp [hx])))
        rw [List.length_erase_of_mem ham] at hr
        have : 0 < m.length := List.length_pos_of_mem ham
        simp only [List.length_cons]
        omega
    exact this _ _ hnd.1 (fun x hx => BT.chainKids_sub n G x hx)
  rw [BT.ids_length] at h2
  unfold St.fuel
  omega

theorem notBelow_spec {s : St} {G : BT} (hF : Forest s G) {n P : Nat} (hn : n ∈ G.tops)
    (h : notBelow s n (some P) = true) : P ≠ n ∧ P ∉ (BT.chainKids n G).ids := by
  unfold notBelow at h
  rw [below_spec hF hn] at h
  simp only [Bool.and_eq_true, bne_iff_ne, ne_eq, Bool.not_eq_true', List.contains_eq_mem, decide_eq_false_iff_not] at h
  exact ⟨h.1, by simpa using h.2⟩

/-- From the executable precondition of a re-insertion to the ghost-level context. -/
theorem addCtx_of_pre {s : St} {G : BT} (hF : Forest s G) {P n : Nat}
    (h1 : parentOK s (some P) = true) (h2 : isDetached s n = true) (h3 : notBelow s n (some P) = true) :
    ∃ cP cn, AddCtx s G P n cP cn := by
  obtain ⟨cP, hcP, hbr⟩ := parentOK_some h1
  obtain ⟨cn, hcn, hp, _, _, hr⟩ := isDetached_spec h2
  have hn := hF.parent_none_top hcn hp
  obtain ⟨hPn, hPk⟩ := notBelow_spec hF hn h3
  exact ⟨cP, cn, ⟨hF, hn, hr, hF.cover P cP hcP, hPn, hPk, hcP, hbr, hcn⟩⟩

end Wbxml.Model.TreeHeap
