/-
  Binary content: opaque in WBXML, base64 in XML.  The four places of the library that convert, written over
  the base64 model of component C11 (`Wbxml.Model.Codec.b64Encode / b64Decode`), and the lemmas the C12
  binary clauses need.

    parser   decode_base64_value            OTA attribute values, DRMREL ds:KeyValue, SyncML NextNonce
    xml enc  xml_encode_text                base64 for WBXML_TAG_OPTION_BINARY elements (wbxml_buffer_encode_base64)
    xml dec  wbxml_tree_clb_xml_end_element wbxml_buffer_decode_base64 (white space removed first) for binary elements
    encoder  wbxml_encode_ota_nokia_icon, wbxml_encode_drmrel_content   copy of the text, wbxml_buffer_no_spaces, then
                                                                        wbxml_base64_decode(cstr, -1, …) (white space removed first
                                                                        since the fix of finding b64-whitespace-ota-drmrel)
-/
import Wbxml.Model.Typed.Datetime
import Wbxml.Model.Codec.Base64
import Wbxml.Lemmas.CodecBase64
namespace Wbxml.Model.Typed
open Wbxml Wbxml.Model.Codec

/-- `decode_base64_value` / `wbxml_buffer_encode_base64`: base64 of an empty buffer is an error
    (`wbxml_base64_encode` returns NULL for `len <= 0`): `WBXML_ERROR_B64_ENC` (18). -/
def opaqueToBase64 (p : Bytes) : Except Err Bytes :=
  if p = [] then .error (.code 18) else .ok (b64Encode p)

/-- `isspace` in the C locale. -/
def isSpace (c : UInt8) : Bool := c == 0x20 || (0x09 ≤ c && c ≤ 0x0D)

/-- `wbxml_buffer_decode_base64`: `wbxml_buffer_no_spaces`, then decode; nothing decoded ⇒ `WBXML_ERROR_B64_DEC` (19). -/
def base64ToBytesStrip (s : Bytes) : Except Err Bytes :=
  match b64Decode (s.filter (fun c => !isSpace c)) with
  | some r => .ok r
  | none => .error (.code 19)

/-- What an element flagged `WBXML_TAG_OPTION_BINARY` contributes to the WBXML output for XML text `s`
    (`parse_text` → `wbxml_encode_opaque`). -/
def binaryElemItem (s : Bytes) : Except Err Bytes := (base64ToBytesStrip s).map opaqueItem

/-- `wbxml_encode_ota_nokia_icon` / `wbxml_encode_drmrel_content` on a C string: white space is removed from
    a copy of the text (`wbxml_buffer_create_from_cstr`, `wbxml_buffer_no_spaces`), the rest is decoded up to the
    first character outside the alphabet, a zero count gives an empty opaque (no error, unlike
    `wbxml_buffer_decode_base64`). Before the fix the text itself was decoded: up to the first white space. -/
def base64ToOpaqueStrip (s : Bytes) : Bytes :=
  match b64Decode (s.filter (fun c => !isSpace c)) with
  | some r => opaqueItem r
  | none => opaqueItem []

theorem filter_noSpace_id (s : Bytes) (h : ∀ c ∈ s, isSpace c = false) :
    s.filter (fun c => !isSpace c) = s := by
  apply List.filter_eq_self.mpr
  intro c hc; simp [h c hc]

end Wbxml.Model.Typed

namespace Wbxml.Lemmas.Typed
open Wbxml Wbxml.Model.Typed Wbxml.Model.Codec Wbxml.Lemmas.Codec

theorem sym_noSpace_fin : ∀ i : Fin 64, isSpace (sym i.val) = false := by decide

theorem sym_noSpace (i : Nat) : isSpace (sym i) = false := by
  by_cases h : i < 64
  · exact sym_noSpace_fin ⟨i, h⟩
  · have : basis64[i]? = none := by
      apply List.getElem?_eq_none; rw [basis64_length]; omega
    simp [sym, this]; decide

/-- base64 text produced by the library contains no white space. -/
theorem enc_noSpace (bs : Bytes) : ∀ c ∈ enc bs, isSpace c = false := by
  have p : isSpace 61 = false := by decide
  fun_induction enc bs with
  | case1 a b c rest ih =>
    intro x hx
    simp only [List.mem_cons] at hx
    rcases hx with rfl | rfl | rfl | rfl | hx
    · exact sym_noSpace _
    · exact sym_noSpace _
    · exact sym_noSpace _
    · exact sym_noSpace _
    · exact ih x hx
  | case2 a b =>
    intro x hx
    simp only [List.mem_cons, List.not_mem_nil, or_false] at hx
    rcases hx with rfl | rfl | rfl | rfl <;> first | exact sym_noSpace _ | exact p
  | case3 a =>
    intro x hx
    simp only [List.mem_cons, List.not_mem_nil, or_false] at hx
    rcases hx with rfl | rfl | rfl | rfl <;> first | exact sym_noSpace _ | exact p
  | case4 => intro x hx; cases hx

theorem b64Encode_filter (bs : Bytes) : (b64Encode bs).filter (fun c => !isSpace c) = b64Encode bs := by
  apply filter_noSpace_id
  rw [b64Encode_eq_enc]
  exact enc_noSpace bs

end Wbxml.Lemmas.Typed
