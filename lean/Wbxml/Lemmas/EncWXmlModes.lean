/-
  XML generation modes (C07): two runs of the XML printer `Model/EncXml.lean` on the same tree under
  different generation modes (compact / indented with any width / canonical) produce the same
  sequence of chunks

      mk bs     markup, byte-identical in both runs
      txt s     character data `s`, written `xmlEscape (gen == 2) s` (canonical also escapes LF, TAB)
      ws a b    white space between markup: `a` in the first run, `b` in the second, both made of
                spaces and line feeds only

  provided the two modes take the same white-space decisions on text (`CfgRel`): both are not
  canonical, or white space is kept. Embedded documents included: an embedded document is printed
  by a duplicated encoder (same generation mode, same indent, the embedded language) and appended
  as a C string — the cut at the first NUL happens in the same chunk of both renderings at the same
  place (`cutChunks`, `cut_render`), because markup is identical, escaping maps NUL to NUL and
  nothing else to NUL, and white space contains none.
-/
import Wbxml.Lemmas.XmlPrint
import Wbxml.Lemmas.EncWCfg
namespace Wbxml.Lemmas.EncW
open Wbxml Wbxml.Model Wbxml.Lemmas.XmlPrint

inductive XChunk where
  | mk (bs : Bytes)
  | txt (s : Bytes)
  | ws (a b : Bytes)

def rA (g : Nat) : XChunk → Bytes
  | .mk bs => bs
  | .txt s => xmlEscape (g == 2) s
  | .ws a _ => a

def rB (g : Nat) : XChunk → Bytes
  | .mk bs => bs
  | .txt s => xmlEscape (g == 2) s
  | .ws _ b => b

def isBlankB (b : UInt8) : Bool := b == 32 || b == 10

def WsOk (ch : List XChunk) : Prop := ∀ a b, XChunk.ws a b ∈ ch → a.all isBlankB = true ∧ b.all isBlankB = true

theorem WsOk.append {x y : List XChunk} (hx : WsOk x) (hy : WsOk y) : WsOk (x ++ y) := by
  intro a b h
  rcases List.mem_append.mp h with h | h
  · exact hx a b h
  · exact hy a b h

theorem wsOk_nil : WsOk [] := by intro a b h; cases h

theorem spaces_blank (n : Nat) : (spaces n).all isBlankB = true := by
  simp [spaces, isBlankB]

theorem nl_blank (c : Bool) : (if c then newLine else ([] : Bytes)).all isBlankB = true := by
  cases c <;> simp [newLine, isBlankB]

theorem sp_blank (c : Bool) (n : Nat) : (if c then spaces n else ([] : Bytes)).all isBlankB = true := by
  cases c
  · rfl
  · exact spaces_blank n

/-- The two printer states describe the same chunk sequence. -/
structure Sim (ga gb : Nat) (ch : List XChunk) (sa sb : XSt) : Prop where
  outA : sa.out = ch.flatMap (rA ga)
  outB : sb.out = ch.flatMap (rB gb)
  ic : sa.inContent = sb.inContent
  cd : sa.inCdata = sb.inCdata
  ct : sa.curTag = sb.curTag
  ws : WsOk ch

theorem Sim.step {ga gb : Nat} {ch : List XChunk} {sa sb : XSt} (h : Sim ga gb ch sa sb) (x : List XChunk)
    (hx : WsOk x) (sa' sb' : XSt) (hoa : sa'.out = sa.out ++ x.flatMap (rA ga))
    (hob : sb'.out = sb.out ++ x.flatMap (rB gb)) (hic : sa'.inContent = sb'.inContent)
    (hcd : sa'.inCdata = sb'.inCdata) (hct : sa'.curTag = sb'.curTag) : Sim ga gb (ch ++ x) sa' sb' :=
  ⟨by rw [hoa, h.outA, List.flatMap_append], by rw [hob, h.outB, List.flatMap_append], hic, hcd, hct, h.ws.append hx⟩

/-- Both runs fail alike, or both succeed in states that describe one chunk sequence. -/
def SimR (ga gb : Nat) (ra rb : Except Err XSt) : Prop :=
  match ra, rb with
  | .ok sa, .ok sb => ∃ ch, Sim ga gb ch sa sb
  | .error ea, .error eb => ea = eb
  | _, _ => False

theorem SimR.bind {ga gb : Nat} {ra rb : Except Err XSt} {fa fb : XSt → Except Err XSt} (h : SimR ga gb ra rb)
    (hf : ∀ sa sb ch, Sim ga gb ch sa sb → SimR ga gb (fa sa) (fb sb)) : SimR ga gb (ra >>= fa) (rb >>= fb) := by
  cases ra with
  | error ea =>
    cases rb with
    | error eb => exact h
    | ok sb => exact absurd h (by simp [SimR])
  | ok sa =>
    cases rb with
    | error eb => exact absurd h (by simp [SimR])
    | ok sb =>
      obtain ⟨ch, hs⟩ := h
      exact hf sa sb ch hs

/-- The two configurations print the same language with the same white-space options and take the
    same white-space decisions on text. -/
structure CfgRel (ca cb : XCfg) : Prop where
  lang : ca.lang = cb.lang
  ie : ca.ignoreEmpty = cb.ignoreEmpty
  rb : ca.removeBlanks = cb.removeBlanks
  txt : (ca.gen != 2) = (cb.gen != 2) ∨ (ca.ignoreEmpty = false ∧ ca.removeBlanks = false)

/-! ### Text -/

/-- The SyncML media-type rewriting of `xml_encode_text` (`+wbxml` → `+xml` inside `Type`). -/
def textStr (langId : Nat) (cur : Option TagRow) (s : Bytes) : Bytes :=
  let isType := match cur with
    | some r => r.page == 1 && r.token == 0x13
    | none => false
  let s := if isSyncml langId && isType && s == b!"application/vnd.syncml-devinf+wbxml"
           then b!"application/vnd.syncml-devinf+xml" else s
  if langId == 2201 && isType && s == b!"application/vnd.syncml.dmtnds+wbxml"
  then b!"application/vnd.syncml.dmtnds+xml" else s

/-- `xml_encode_text` after the two white-space decisions have been taken. -/
def xmlTextCore (langId : Nat) (canon : Bool) (d1 d2 : Bool) (s : Bytes) (st : XSt) : Except Err XSt :=
  if d1 && s.all isSpaceC then .ok st
  else
    let s1 := if d2 then stripBlanks s else s
    if st.inCdata then .ok { st with out := st.out ++ cdataText s1, inContent := true }
    else
      let s3 := textStr langId st.curTag s1
      if isBinaryTag st.curTag then
        if s3.isEmpty then .error (.code E.b64Enc)
        else .ok { st with out := st.out ++ xmlEscape canon (b64EncodeGo s3), inContent := true }
      else .ok { st with out := st.out ++ xmlEscape canon s3, inContent := true }

theorem xmlText_core (c : XCfg) (s : Bytes) (st : XSt) :
    xmlText c s st = xmlTextCore c.lang.id (c.gen == 2)
      (!st.inCdata && !isBinaryTag st.curTag && c.gen != 2 && c.ignoreEmpty)
      (!st.inCdata && !isBinaryTag st.curTag && c.gen != 2 && c.removeBlanks) s st := by
  unfold xmlText xmlTextCore textStr
  rfl

theorem xmlTextCore_sim (ga gb : Nat) (langId : Nat) (d1 d2 : Bool) (s : Bytes) (sa sb : XSt) (ch : List XChunk)
    (h : Sim ga gb ch sa sb) :
    SimR ga gb (xmlTextCore langId (ga == 2) d1 d2 s sa) (xmlTextCore langId (gb == 2) d1 d2 s sb) := by
  unfold xmlTextCore
  rw [← h.cd, ← h.ct]
  simp only
  generalize textStr langId sa.curTag (if d2 = true then stripBlanks s else s) = s3
  split
  · exact ⟨ch, h⟩
  · split
    · exact ⟨_, h.step [.mk (cdataText (if d2 then stripBlanks s else s))] (by intro a b hm; simp at hm)
        _ _ (by simp [rA]) (by simp [rB]) rfl rfl rfl⟩
    · split
      · split
        · rfl
        · exact ⟨_, h.step [.txt (b64EncodeGo s3)] (by intro a b hm; simp at hm) _ _ (by simp [rA]) (by simp [rB])
            rfl rfl rfl⟩
      · exact ⟨_, h.step [.txt s3] (by intro a b hm; simp at hm) _ _ (by simp [rA]) (by simp [rB]) rfl rfl rfl⟩

theorem xmlText_sim (ca cb : XCfg) (hrel : CfgRel ca cb) (s : Bytes) (sa sb : XSt) (ch : List XChunk)
    (h : Sim ca.gen cb.gen ch sa sb) : SimR ca.gen cb.gen (xmlText ca s sa) (xmlText cb s sb) := by
  rw [xmlText_core, xmlText_core, ← h.cd, ← h.ct, ← hrel.lang, ← hrel.ie, ← hrel.rb]
  rcases hrel.txt with hg | ⟨h1, h2⟩
  · rw [hg]
    exact xmlTextCore_sim _ _ _ _ _ s sa sb ch h
  · rw [h1, h2]
    simp only [Bool.and_false]
    exact xmlTextCore_sim _ _ _ _ _ s sa sb ch h

/-! ### Markup -/

theorem nsDecl_lang (ca cb : XCfg) (h : ca.lang = cb.lang) (p : Parent) (n : Name) : nsDecl ca p n = nsDecl cb p n := by
  unfold nsDecl; rw [h]

/-- `xml_encode_tag`: white space, then `<name` and the namespace declaration. -/
theorem xmlTag_shape (c : XCfg) (parent : Parent) (name : Name) (st : XSt) :
    ∃ w : Bytes, w.all isBlankB = true ∧
      (xmlTag c parent name st).out = st.out ++ w ++ ([60] ++ name.xmlName ++ nsDecl c parent name) ∧
      (xmlTag c parent name st).inContent = st.inContent ∧ (xmlTag c parent name st).inCdata = st.inCdata ∧
      (xmlTag c parent name st).curTag = tagOf name := by
  rw [xmlTag_out]
  exact ⟨if c.gen == 1 then spaces (st.indent.toNat * c.delta.toNat) else [], sp_blank _ _, by simp, rfl, rfl, rfl⟩

def attrChunks (a : Attr) : List XChunk :=
  [.mk ([32] ++ cstrOf a.name.xmlName ++ b!"=\""), .txt (cstrOf a.value), .mk [34]]

theorem attrChunks_render (attrs : List Attr) (g : Nat) :
    (attrs.flatMap attrChunks).flatMap (rA g) = attrs.flatMap (attrBytes (g == 2)) ∧
    (attrs.flatMap attrChunks).flatMap (rB g) = attrs.flatMap (attrBytes (g == 2)) := by
  induction attrs with
  | nil => exact ⟨rfl, rfl⟩
  | cons a rest ih =>
    simp only [List.flatMap_cons, List.flatMap_append, ih.1, ih.2]
    constructor <;> simp [attrChunks, rA, rB, attrBytes]

theorem attrChunks_ws (attrs : List Attr) : WsOk (attrs.flatMap attrChunks) := by
  intro a b h
  rw [List.mem_flatMap] at h
  obtain ⟨x, _, hx⟩ := h
  simp [attrChunks] at hx

/-- `xml_encode_end_attrs`: `/>` or `>`, then white space. -/
theorem xmlEndAttrs_shape (c : XCfg) (kids : List Node) (st : XSt) :
    ∃ w : Bytes, w.all isBlankB = true ∧
      (xmlEndAttrs c kids st).out = st.out ++ (if kids.isEmpty then b!"/>" else [62]) ++ w ∧
      (xmlEndAttrs c kids st).inContent = st.inContent ∧ (xmlEndAttrs c kids st).inCdata = st.inCdata ∧
      (xmlEndAttrs c kids st).curTag = st.curTag := by
  unfold xmlEndAttrs
  split
  · rename_i hk
    exact ⟨if c.gen == 1 then newLine else [], nl_blank _, by simp, rfl, rfl, rfl⟩
  · rename_i hk
    simp only
    split
    · exact ⟨newLine, rfl, by simp, rfl, rfl, rfl⟩
    · exact ⟨[], rfl, by simp, rfl, rfl, rfl⟩

/-- `xml_encode_end_tag`: white space, `</name>`, white space. -/
theorem xmlEndTag_shape (c : XCfg) (name : Name) (kids : List Node) (st : XSt) :
    ∃ w1 w2 : Bytes, w1.all isBlankB = true ∧ w2.all isBlankB = true ∧
      (xmlEndTag c name kids st).out = st.out ++ w1 ++ (b!"</" ++ name.xmlName ++ [62]) ++ w2 ∧
      (xmlEndTag c name kids st).inContent = false ∧ (xmlEndTag c name kids st).inCdata = st.inCdata ∧
      (xmlEndTag c name kids st).curTag = st.curTag := by
  unfold xmlEndTag
  by_cases h1 : (c.gen == 1 && haveChildElt kids) = true
  · by_cases h2 : st.inContent = true
    · refine ⟨newLine ++ spaces ((st.indent - 1).toNat * c.delta.toNat), if c.gen == 1 then newLine else [],
        ?_, nl_blank _, ?_, ?_, ?_, ?_⟩
      · simp [spaces_blank, newLine, isBlankB]
      · simp [h1, h2]
      · simp
      · simp [h1, h2]
      · simp [h1, h2]
    · refine ⟨spaces ((st.indent - 1).toNat * c.delta.toNat), if c.gen == 1 then newLine else [],
        spaces_blank _, nl_blank _, ?_, ?_, ?_, ?_⟩
      · simp [h1, h2]
      · simp
      · simp [h1, h2]
      · simp [h1, h2]
  · refine ⟨[], if c.gen == 1 then newLine else [], rfl, nl_blank _, ?_, ?_, ?_, ?_⟩
    · simp [h1]
    · simp
    · simp [h1]
    · simp [h1]

/-! ### The C-string cut of an embedded rendering, chunk by chunk -/

def noNul (s : Bytes) : Bool := s.all (· != 0)

theorem cstrOf_nil : cstrOf [] = [] := rfl

theorem cstrOf_cons (b : UInt8) (r : Bytes) : cstrOf (b :: r) = if b == 0 then [] else b :: cstrOf r := by
  unfold cstrOf
  simp only [cstrLen]
  split <;> rfl

theorem cstrOf_append (x y : Bytes) : cstrOf (x ++ y) = if noNul x then x ++ cstrOf y else cstrOf x := by
  induction x with
  | nil => rfl
  | cons b r ih =>
    have hc : noNul (b :: r) = ((b != 0) && noNul r) := rfl
    rw [List.cons_append, cstrOf_cons, cstrOf_cons, ih, hc]
    cases hb : (b == 0) <;> cases hr : noNul r <;> simp [bne, hb]

theorem noNul_append (x y : Bytes) : noNul (x ++ y) = (noNul x && noNul y) := by
  simp [noNul]

/-- The escaped form of one octet: NUL-free unless the octet is NUL, which is left alone. -/
def esc1 (canonical : Bool) (ch : UInt8) : Bytes :=
  if ch == 60 then b!"&lt;"
  else if ch == 62 then b!"&gt;"
  else if ch == 38 then b!"&amp;"
  else if ch == 34 then b!"&quot;"
  else if ch == 39 then b!"&apos;"
  else if ch == 13 then b!"&#13;"
  else if ch == 10 && canonical then b!"&#10;"
  else if ch == 9 && canonical then b!"&#9;"
  else [ch]

theorem xmlEscape_cons (c : Bool) (ch : UInt8) (r : Bytes) : xmlEscape c (ch :: r) = esc1 c ch ++ xmlEscape c r := rfl

theorem esc1_noNul (c : Bool) (ch : UInt8) : noNul (esc1 c ch) = (ch != 0) := by
  unfold esc1
  split
  · rename_i h; have e : ch = 60 := by simpa using h
    subst e; rfl
  split
  · rename_i h; have e : ch = 62 := by simpa using h
    subst e; rfl
  split
  · rename_i h; have e : ch = 38 := by simpa using h
    subst e; rfl
  split
  · rename_i h; have e : ch = 34 := by simpa using h
    subst e; rfl
  split
  · rename_i h; have e : ch = 39 := by simpa using h
    subst e; rfl
  split
  · rename_i h; have e : ch = 13 := by simpa using h
    subst e; rfl
  split
  · rename_i h; simp only [Bool.and_eq_true, beq_iff_eq] at h; obtain ⟨e, _⟩ := h; subst e; rfl
  split
  · rename_i h; simp only [Bool.and_eq_true, beq_iff_eq] at h; obtain ⟨e, _⟩ := h; subst e; rfl
  · simp [noNul]

theorem esc1_zero (c : Bool) : esc1 c 0 = [0] := by
  cases c <;> rfl

theorem noNul_escape (c : Bool) (s : Bytes) : noNul (xmlEscape c s) = noNul s := by
  induction s with
  | nil => rfl
  | cons ch r ih =>
    rw [xmlEscape_cons, noNul_append, ih, esc1_noNul]
    simp [noNul]

/-- Escaping commutes with the C-string cut. -/
theorem cstrOf_escape (c : Bool) (s : Bytes) : cstrOf (xmlEscape c s) = xmlEscape c (cstrOf s) := by
  induction s with
  | nil => rfl
  | cons ch r ih =>
    rw [xmlEscape_cons, cstrOf_append, esc1_noNul, cstrOf_cons]
    by_cases hb : (ch == 0) = true
    · have : ch = 0 := by simpa using hb
      subst this
      simp only [bne_self_eq_false, Bool.false_eq_true, ↓reduceIte, beq_self_eq_true, esc1_zero]
      rfl
    · have hb' : (ch == 0) = false := by simpa using hb
      have hne : (ch != 0) = true := by simp [bne, hb']
      simp only [hne, ↓reduceIte, hb', Bool.false_eq_true, ih, xmlEscape_cons]

theorem blank_noNul (w : Bytes) (h : w.all isBlankB = true) : noNul w = true := by
  simp only [noNul, List.all_eq_true] at h ⊢
  intro x hx
  have := h x hx
  simp only [isBlankB, Bool.or_eq_true, beq_iff_eq] at this
  rcases this with rfl | rfl <;> rfl

/-- The chunk sequence of a rendering cut at its first NUL octet. -/
def cutChunks : List XChunk → List XChunk
  | [] => []
  | .mk bs :: r => if noNul bs then .mk bs :: cutChunks r else [.mk (cstrOf bs)]
  | .txt s :: r => if noNul s then .txt s :: cutChunks r else [.txt (cstrOf s)]
  | .ws a b :: r => .ws a b :: cutChunks r

theorem WsOk.tail {x : XChunk} {r : List XChunk} (h : WsOk (x :: r)) : WsOk r :=
  fun a b hm => h a b (List.mem_cons_of_mem _ hm)

/-- **The C-string cut of both renderings is the rendering of one cut chunk sequence.** -/
theorem cut_render (ga gb : Nat) (ch : List XChunk) (h : WsOk ch) :
    cstrOf (ch.flatMap (rA ga)) = (cutChunks ch).flatMap (rA ga) ∧
    cstrOf (ch.flatMap (rB gb)) = (cutChunks ch).flatMap (rB gb) := by
  induction ch with
  | nil => exact ⟨rfl, rfl⟩
  | cons x r ih =>
    obtain ⟨iha, ihb⟩ := ih h.tail
    cases x with
    | mk bs =>
      simp only [List.flatMap_cons, rA, rB, cstrOf_append, cutChunks]
      cases hn : noNul bs with
      | true => simp only [↓reduceIte, List.flatMap_cons, rA, rB, iha, ihb, and_self]
      | false => simp [rA, rB]
    | txt s =>
      simp only [List.flatMap_cons, rA, rB, cstrOf_append, cutChunks, noNul_escape]
      cases hn : noNul s with
      | true => simp only [↓reduceIte, List.flatMap_cons, rA, rB, iha, ihb, and_self]
      | false => simp [rA, rB, cstrOf_escape]
    | ws a b =>
      obtain ⟨ha, hb⟩ := h a b List.mem_cons_self
      simp only [List.flatMap_cons, rA, rB, cstrOf_append, cutChunks, blank_noNul a ha, blank_noNul b hb, ↓reduceIte,
        iha, ihb, and_self]

theorem cut_ws (ch : List XChunk) (h : WsOk ch) : WsOk (cutChunks ch) := by
  induction ch with
  | nil => exact wsOk_nil
  | cons x r ih =>
    have ih' := ih h.tail
    cases x with
    | mk bs =>
      simp only [cutChunks]
      split
      · intro a b hm
        rcases List.mem_cons.mp hm with hm | hm
        · cases hm
        · exact ih' a b hm
      · intro a b hm; simp at hm
    | txt s =>
      simp only [cutChunks]
      split
      · intro a b hm
        rcases List.mem_cons.mp hm with hm | hm
        · cases hm
        · exact ih' a b hm
      · intro a b hm; simp at hm
    | ws a b =>
      simp only [cutChunks]
      intro a' b' hm
      rcases List.mem_cons.mp hm with hm | hm
      · injection hm with h1 h2; subst h1 h2; exact h a' b' List.mem_cons_self
      · exact ih' a' b' hm

/-! ### Nodes -/

theorem simR_fuel (ga gb : Nat) : SimR ga gb (.error .fuel) (.error .fuel) := rfl

theorem sim_nodes : ∀ (f : Nat) (ca cb : XCfg), CfgRel ca cb →
    (∀ (parent : Parent) (n : Node) (sa sb : XSt) (ch : List XChunk),
      Sim ca.gen cb.gen ch sa sb → SimR ca.gen cb.gen (xmlNode ca parent f n sa) (xmlNode cb parent f n sb)) ∧
    (∀ (parent : Parent) (l : List Node) (sa sb : XSt) (ch : List XChunk),
      Sim ca.gen cb.gen ch sa sb → SimR ca.gen cb.gen (xmlNodes ca parent f l sa) (xmlNodes cb parent f l sb)) := by
  intro f
  induction f with
  | zero =>
    intro ca cb _
    exact ⟨fun _ _ _ _ _ _ => by simp only [xmlNode]; exact simR_fuel _ _,
      fun _ _ _ _ _ _ => by simp only [xmlNodes]; exact simR_fuel _ _⟩
  | succ f ih =>
    intro ca cb hrel
    obtain ⟨ihN, ihL⟩ := ih ca cb hrel
    constructor
    · intro parent n sa sb ch h
      cases n with
      | elt name attrs kids =>
        simp only [xmlNode]
        -- tag
        obtain ⟨wa, hwa, oa, ica, cda, cta⟩ := xmlTag_shape ca parent name sa
        obtain ⟨wb, hwb, ob, icb, cdb, ctb⟩ := xmlTag_shape cb parent name sb
        have h1 : Sim ca.gen cb.gen (ch ++ [.ws wa wb, .mk ([60] ++ name.xmlName ++ nsDecl ca parent name)])
            (xmlTag ca parent name sa) (xmlTag cb parent name sb) :=
          h.step _ (by intro a b hm; simp at hm; obtain ⟨rfl, rfl⟩ := hm; exact ⟨hwa, hwb⟩) _ _
            (by rw [oa]; simp [rA]) (by rw [ob, nsDecl_lang ca cb hrel.lang]; simp [rB])
            (by rw [ica, icb, h.ic]) (by rw [cda, cdb, h.cd]) (by rw [cta, ctb])
        -- attributes
        have h2 : ∃ ch2, Sim ca.gen cb.gen ch2
            (if ca.lang.attrs.isSome then attrs.foldl (fun st a => xmlAttr ca a st) (xmlTag ca parent name sa)
              else xmlTag ca parent name sa)
            (if cb.lang.attrs.isSome then attrs.foldl (fun st a => xmlAttr cb a st) (xmlTag cb parent name sb)
              else xmlTag cb parent name sb) := by
          rw [← hrel.lang]
          split
          · rw [xmlAttrs_out, xmlAttrs_out]
            exact ⟨_, h1.step (attrs.flatMap attrChunks) (attrChunks_ws attrs) _ _
              (by rw [(attrChunks_render attrs ca.gen).1]) (by rw [(attrChunks_render attrs cb.gen).2])
              h1.ic h1.cd h1.ct⟩
          · exact ⟨_, h1⟩
        obtain ⟨ch2, h2⟩ := h2
        generalize (if ca.lang.attrs.isSome then attrs.foldl (fun st a => xmlAttr ca a st) (xmlTag ca parent name sa)
              else xmlTag ca parent name sa) = sa2 at h2 ⊢
        generalize (if cb.lang.attrs.isSome then attrs.foldl (fun st a => xmlAttr cb a st) (xmlTag cb parent name sb)
              else xmlTag cb parent name sb) = sb2 at h2 ⊢
        -- end of the attribute list
        obtain ⟨ua, hua, oa3, ica3, cda3, cta3⟩ := xmlEndAttrs_shape ca kids sa2
        obtain ⟨ub, hub, ob3, icb3, cdb3, ctb3⟩ := xmlEndAttrs_shape cb kids sb2
        have h3 : Sim ca.gen cb.gen (ch2 ++ [.mk (if kids.isEmpty then b!"/>" else [62]), .ws ua ub])
            (xmlEndAttrs ca kids sa2) (xmlEndAttrs cb kids sb2) :=
          h2.step _ (by intro a b hm; simp at hm; obtain ⟨rfl, rfl⟩ := hm; exact ⟨hua, hub⟩) _ _
            (by rw [oa3]; simp [rA]) (by rw [ob3]; simp [rB])
            (by rw [ica3, icb3, h2.ic]) (by rw [cda3, cdb3, h2.cd]) (by rw [cta3, ctb3, h2.ct])
        -- children, end tag
        refine SimR.bind (ihL (childScope parent name) kids _ _ _ h3) ?_
        intro sa4 sb4 ch4 h4
        cases hk : kids.isEmpty with
        | true =>
          exact ⟨ch4, ⟨h4.outA, h4.outB, h4.ic, h4.cd, rfl, h4.ws⟩⟩
        | false =>
          simp only [Bool.false_eq_true, ↓reduceIte]
          obtain ⟨xa, ya, hxa, hya, oa5, ica5, cda5, _⟩ := xmlEndTag_shape ca name kids sa4
          obtain ⟨xb, yb, hxb, hyb, ob5, icb5, cdb5, _⟩ := xmlEndTag_shape cb name kids sb4
          have h5 : Sim ca.gen cb.gen (ch4 ++ [.ws xa xb, .mk (b!"</" ++ name.xmlName ++ [62]), .ws ya yb])
              { xmlEndTag ca name kids sa4 with curTag := none } { xmlEndTag cb name kids sb4 with curTag := none } :=
            h4.step _ (by
                intro a b hm
                simp at hm
                rcases hm with ⟨rfl, rfl⟩ | ⟨rfl, rfl⟩
                · exact ⟨hxa, hxb⟩
                · exact ⟨hya, hyb⟩) _ _
              (by show (xmlEndTag ca name kids sa4).out = _; rw [oa5]; simp [rA])
              (by show (xmlEndTag cb name kids sb4).out = _; rw [ob5]; simp [rB])
              (by show (xmlEndTag ca name kids sa4).inContent = (xmlEndTag cb name kids sb4).inContent
                  rw [ica5, icb5])
              (by show (xmlEndTag ca name kids sa4).inCdata = (xmlEndTag cb name kids sb4).inCdata
                  rw [cda5, cdb5, h4.cd]) rfl
          exact ⟨_, h5⟩
      | text s =>
        simp only [xmlNode]
        refine SimR.bind (xmlText_sim ca cb hrel s sa sb ch h) ?_
        intro sa1 sb1 ch1 h1
        exact ⟨ch1, ⟨h1.outA, h1.outB, h1.ic, h1.cd, rfl, h1.ws⟩⟩
      | cdata kids =>
        simp only [xmlNode]
        have h1 : Sim ca.gen cb.gen (ch ++ [.mk b!"<![CDATA["])
            { sa with inCdata := true, out := sa.out ++ b!"<![CDATA[" }
            { sb with inCdata := true, out := sb.out ++ b!"<![CDATA[" } :=
          h.step _ (by intro a b hm; simp at hm) _ _ (by simp [rA]) (by simp [rB]) h.ic rfl h.ct
        refine SimR.bind (ihL parent kids _ _ _ h1) ?_
        intro sa2 sb2 ch2 h2
        exact ⟨_, h2.step [.mk b!"]]>"] (by intro a b hm; simp at hm)
          { sa2 with inCdata := false, out := sa2.out ++ b!"]]>", curTag := none }
          { sb2 with inCdata := false, out := sb2.out ++ b!"]]>", curTag := none }
          (by simp [rA]) (by simp [rB]) h2.ic rfl rfl⟩
      | tree l cs r =>
        cases l with
        | none => simp only [xmlNode]; rfl
        | some l =>
          cases r with
          | none => simp only [xmlNode]; rfl
          | some r =>
            simp only [xmlNode]
            have hrel' : CfgRel { ca with lang := l } { cb with lang := l } := ⟨rfl, hrel.ie, hrel.rb, hrel.txt⟩
            have h0 : Sim ca.gen cb.gen [] ({ indent := sa.indent } : XSt) ({ indent := sb.indent } : XSt) :=
              ⟨rfl, rfl, rfl, rfl, rfl, wsOk_nil⟩
            have hsub := (ih { ca with lang := l } { cb with lang := l } hrel').1 .none r _ _ [] h0
            refine SimR.bind (ga := ca.gen) (gb := cb.gen) hsub ?_
            intro sa' sb' ch' h'
            obtain ⟨ea, eb⟩ := cut_render ca.gen cb.gen ch' h'.ws
            exact ⟨_, h.step (cutChunks ch') (cut_ws ch' h'.ws)
              { sa with out := sa.out ++ cstrOf sa'.out, curTag := none }
              { sb with out := sb.out ++ cstrOf sb'.out, curTag := none }
              (by show sa.out ++ cstrOf sa'.out = _; rw [h'.outA, ea])
              (by show sb.out ++ cstrOf sb'.out = _; rw [h'.outB, eb]) h.ic h.cd rfl⟩
    · intro parent l sa sb ch h
      cases l with
      | nil => simp only [xmlNodes]; exact ⟨ch, h⟩
      | cons n rest =>
        simp only [xmlNodes]
        refine SimR.bind (ihN parent n sa sb ch h) ?_
        intro sa1 sb1 ch1 h1
        exact ihL parent rest sa1 sb1 ch1 h1

/-! ### Whole documents -/

/-- The chunks of `xml_fill_header`. -/
def headerChunks (lang : Lang) (ga gb : Nat) : List XChunk :=
  [.mk b!"<?xml version=\"1.0\"?>",
   .ws (if ga == 1 then newLine else []) (if gb == 1 then newLine else []),
   .mk (b!"<!DOCTYPE " ++ lang.pub.root.getD [] ++
    (match lang.pub.xmlId with
     | some p => if p.isEmpty then b!" SYSTEM" else b!" PUBLIC \"" ++ p ++ b!"\""
     | none => b!" SYSTEM") ++
    b!" \"" ++ lang.pub.dtd.getD [] ++ b!"\">"),
   .ws (if ga == 1 then newLine else []) (if gb == 1 then newLine else [])]

theorem headerChunks_render (lang : Lang) (ga gb : Nat) :
    (headerChunks lang ga gb).flatMap (rA ga) = xmlHeader lang ga ∧
    (headerChunks lang ga gb).flatMap (rB gb) = xmlHeader lang gb ∧ WsOk (headerChunks lang ga gb) := by
  refine ⟨by cases h : lang.pub.xmlId <;> simp [headerChunks, rA, xmlHeader, h],
    by cases h : lang.pub.xmlId <;> simp [headerChunks, rB, xmlHeader, h], ?_⟩
  intro a b h
  simp only [headerChunks, List.mem_cons, XChunk.ws.injEq, List.mem_nil_iff, or_false, reduceCtorEq, false_or] at h
  rcases h with ⟨rfl, rfl⟩ | ⟨rfl, rfl⟩ <;> exact ⟨nl_blank _, nl_blank _⟩

/-- The result of `wbxml_tree_to_xml` under two generation modes. -/
def SimX (ga gb : Nat) (ra rb : Except Err Bytes) : Prop :=
  match ra, rb with
  | .ok xa, .ok xb => ∃ ch, xa = ch.flatMap (rA ga) ∧ xb = ch.flatMap (rB gb) ∧ WsOk ch
  | .error ea, .error eb => ea = eb
  | _, _ => False

/-- The printer options `wbxml_tree_to_xml` derives from its parameter block. -/
def xcfgOf (cfg : W2XCfg) (lang : Lang) : XCfg :=
  { lang := lang, gen := cfg.gen, delta := if cfg.gen == 1 then cfg.indent else 1,
    ignoreEmpty := !cfg.keepWs, removeBlanks := !cfg.keepWs }

theorem treeToXml_eq (cfg : W2XCfg) (fuel : Nat) (t : Tree) :
    treeToXml cfg fuel t =
      match t.lang, t.root with
      | none, _ => .error (.code 12)
      | some _, none => .error (.ub "tree without root")
      | some lang, some root =>
        xmlNode (xcfgOf cfg lang) .none fuel root {} >>= fun st => pure (xmlHeader lang cfg.gen ++ st.out) := by
  unfold treeToXml
  cases t.lang with
  | none => rfl
  | some lang =>
    cases t.root with
    | none => rfl
    | some root => rfl

theorem treeToXml_sim (cfgA cfgB : W2XCfg) (fuel : Nat) (t : Tree) (hk : cfgA.keepWs = cfgB.keepWs)
    (hc : (cfgA.gen != 2) = (cfgB.gen != 2) ∨ cfgA.keepWs = true) :
    SimX cfgA.gen cfgB.gen (treeToXml cfgA fuel t) (treeToXml cfgB fuel t) := by
  rw [treeToXml_eq, treeToXml_eq]
  cases hl : t.lang with
  | none => rfl
  | some lang =>
    cases hr : t.root with
    | none => rfl
    | some root =>
      simp only
      have hrel : CfgRel (xcfgOf cfgA lang) (xcfgOf cfgB lang) := by
        refine ⟨rfl, by simp [xcfgOf, hk], by simp [xcfgOf, hk], ?_⟩
        rcases hc with h | h
        · exact Or.inl h
        · exact Or.inr ⟨by simp [xcfgOf, h], by simp [xcfgOf, h]⟩
      have h0 : Sim cfgA.gen cfgB.gen [] ({} : XSt) ({} : XSt) := ⟨rfl, rfl, rfl, rfl, rfl, wsOk_nil⟩
      have hs : SimR cfgA.gen cfgB.gen (xmlNode (xcfgOf cfgA lang) .none fuel root {})
          (xmlNode (xcfgOf cfgB lang) .none fuel root {}) :=
        (sim_nodes fuel _ _ hrel).1 .none root {} {} [] h0
      generalize xmlNode (xcfgOf cfgA lang) .none fuel root {} = ra at hs ⊢
      generalize xmlNode (xcfgOf cfgB lang) .none fuel root {} = rb at hs ⊢
      cases ra with
      | error ea =>
        cases rb with
        | error eb => exact hs
        | ok sb => exact absurd hs (by simp [SimR])
      | ok sa =>
        cases rb with
        | error eb => exact absurd hs (by simp [SimR])
        | ok sb =>
          obtain ⟨ch, hsim⟩ := hs
          obtain ⟨h1, h2, h3⟩ := headerChunks_render lang cfgA.gen cfgB.gen
          refine ⟨headerChunks lang cfgA.gen cfgB.gen ++ ch, ?_, ?_, h3.append hsim.ws⟩
          · show xmlHeader lang cfgA.gen ++ sa.out = _
            rw [List.flatMap_append, h1, hsim.outA]
          · show xmlHeader lang cfgB.gen ++ sb.out = _
            rw [List.flatMap_append, h2, hsim.outB]

end Wbxml.Lemmas.EncW


