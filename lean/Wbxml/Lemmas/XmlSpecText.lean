/-
  The specification reader `Spec/Xml.lean` on what the printer model writes for character data and
  attribute values: `xmlEscape` is read back exactly in content (`reads_escape`) and, between double
  quotes, as `attNorm` of the value (`areads_escape`).
-/
import Wbxml.Lemmas.XmlSpecLex
import Wbxml.Lemmas.EncWXmlModes
namespace Wbxml.Lemmas.XmlSpec
open Wbxml Wbxml.Model Wbxml.Spec Wbxml.Spec.Xml Wbxml.Lemmas.EncW

theorem ref_lt (r : Bytes) : reference (b!"lt;" ++ r) = some ([60], r) := by
  simp [reference, refValue, List.takeWhile]
theorem ref_gt (r : Bytes) : reference (b!"gt;" ++ r) = some ([62], r) := by
  simp [reference, refValue, List.takeWhile]
theorem ref_amp (r : Bytes) : reference (b!"amp;" ++ r) = some ([38], r) := by
  simp [reference, refValue, List.takeWhile]
theorem ref_quot (r : Bytes) : reference (b!"quot;" ++ r) = some ([34], r) := by
  simp [reference, refValue, List.takeWhile]
theorem ref_apos (r : Bytes) : reference (b!"apos;" ++ r) = some ([39], r) := by
  simp [reference, refValue, List.takeWhile]
theorem ref_13 (r : Bytes) : reference (b!"#13;" ++ r) = some ([13], r) := by
  simp [reference, refValue, List.takeWhile, charRef, numVal, digitVal, isDigit, isChar, utf8]
theorem ref_10 (r : Bytes) : reference (b!"#10;" ++ r) = some ([10], r) := by
  simp [reference, refValue, List.takeWhile, charRef, numVal, digitVal, isDigit, isChar, utf8]
theorem ref_9 (r : Bytes) : reference (b!"#9;" ++ r) = some ([9], r) := by
  simp [reference, refValue, List.takeWhile, charRef, numVal, digitVal, isDigit, isChar, utf8]

/-! ### Character data -/

theorem addText_nil (R : List XItem) : addText [] R = R := by
  cases R with
  | nil => rfl
  | cons x r => cases x <;> rfl

theorem addText_append (s t : Bytes) (R : List XItem) : addText s (addText t R) = addText (s ++ t) R := by
  cases R with
  | nil =>
    cases t with
    | nil => simp [addText]
    | cons b t => simp [addText]
  | cons x r =>
    cases x with
    | text u => simp [addText]
    | elem n a k =>
      cases t with
      | nil => simp [addText]
      | cons b t => simp [addText]

/-- `content` reads `bs` as `r`, with any budget that exceeds the number of octets. -/
def Reads (bs : Bytes) (r : List XItem × Bytes) : Prop := ∀ f, bs.length < f → content f bs = some r

/-- No `>` before the next `<`. -/
def gtFree : Bytes → Bool
  | [] => true
  | b :: r => if b == 60 then true else if b == 62 then false else gtFree r

theorem gtFree_93 (X : Bytes) (h : gtFree (93 :: X) = true) : (X.take 2 == [93, 62]) = false := by
  match X with
  | [] => rfl
  | [a] => simp
  | a :: b :: r =>
    simp only [gtFree] at h
    simp only [List.take_succ_cons, List.take_zero]
    by_cases ha : a = 93
    · subst ha
      by_cases hb : b = 62
      · subst hb; simp at h
      · simp [hb]
    · simp [ha]

/-- One plain octet of character data. -/
theorem reads_plain (a : UInt8) (X : Bytes) (R : List XItem) (rest' : Bytes) (h60 : a ≠ 60) (h38 : a ≠ 38) (h13 : a ≠ 13)
    (hg : gtFree (a :: X) = true) (h : Reads X (R, rest')) : Reads (a :: X) (addText [a] R, rest') := by
  intro f hf
  cases f with
  | zero => simp at hf
  | succ f =>
    have hX := h f (by simp at hf; omega)
    have h93 : (a == 93 && X.take 2 == [93, 62]) = false := by
      by_cases ha : a = 93
      · subst ha; simp [gtFree_93 X hg]
      · simp [ha]
    simp [content, h60, h38, h13, h93, hX]

theorem reads_ref (body c X : Bytes) (R : List XItem) (rest' : Bytes) (hr : reference (body ++ X) = some (c, X))
    (h : Reads X (R, rest')) : Reads (38 :: (body ++ X)) (addText c R, rest') := by
  intro f hf
  cases f with
  | zero => simp at hf
  | succ f =>
    have hX := h f (by simp at hf; omega)
    simp [content, hr, hX]


theorem gtFree_esc1 (c : Bool) (a : UInt8) (X : Bytes) : gtFree (esc1 c a ++ X) = gtFree X := by
  unfold esc1
  split; · simp [gtFree]
  split; · simp [gtFree]
  split; · simp [gtFree]
  split; · simp [gtFree]
  split; · simp [gtFree]
  split; · simp [gtFree]
  split; · simp [gtFree]
  split; · simp [gtFree]
  rename_i h1 h2 _ _ _ _ _ _
  simp [gtFree, h1, h2]

theorem gtFree_escape (c : Bool) (s X : Bytes) : gtFree (xmlEscape c s ++ X) = gtFree X := by
  induction s with
  | nil => rfl
  | cons a s ih => rw [xmlEscape_cons, List.append_assoc, gtFree_esc1, ih]

/-- One escaped octet of character data is read back as that octet. -/
theorem reads_esc1 (c : Bool) (a : UInt8) (X : Bytes) (R : List XItem) (rest' : Bytes) (hg : gtFree X = true)
    (h : Reads X (R, rest')) : Reads (esc1 c a ++ X) (addText [a] R, rest') := by
  have hge := gtFree_esc1 c a X
  unfold esc1 at hge ⊢
  split
  · rename_i e; have : a = 60 := by simpa using e
    subst this; exact reads_ref b!"lt;" _ X R rest' (ref_lt X) h
  split
  · rename_i e; have : a = 62 := by simpa using e
    subst this; exact reads_ref b!"gt;" _ X R rest' (ref_gt X) h
  split
  · rename_i e; have : a = 38 := by simpa using e
    subst this; exact reads_ref b!"amp;" _ X R rest' (ref_amp X) h
  split
  · rename_i e; have : a = 34 := by simpa using e
    subst this; exact reads_ref b!"quot;" _ X R rest' (ref_quot X) h
  split
  · rename_i e; have : a = 39 := by simpa using e
    subst this; exact reads_ref b!"apos;" _ X R rest' (ref_apos X) h
  split
  · rename_i e; have : a = 13 := by simpa using e
    subst this; exact reads_ref b!"#13;" _ X R rest' (ref_13 X) h
  split
  · rename_i e; simp only [Bool.and_eq_true, beq_iff_eq] at e; obtain ⟨e, _⟩ := e
    subst e; exact reads_ref b!"#10;" _ X R rest' (ref_10 X) h
  split
  · rename_i e; simp only [Bool.and_eq_true, beq_iff_eq] at e; obtain ⟨e, _⟩ := e
    subst e; exact reads_ref b!"#9;" _ X R rest' (ref_9 X) h
  · rename_i h1 h2 h3 h4 h5 h6 h7 h8
    simp only [h1, h2, h3, h4, h5, h6, h7, h8] at hge
    exact reads_plain a X R rest' (by simpa using h1) (by simpa using h3) (by simpa using h6)
      (by simpa [hg] using hge) h

/-- **Escaped character data is read back exactly**, joined to the character data that follows. -/
theorem reads_escape (c : Bool) (s X : Bytes) (R : List XItem) (rest' : Bytes) (hg : gtFree X = true)
    (h : Reads X (R, rest')) : Reads (xmlEscape c s ++ X) (addText s R, rest') := by
  induction s with
  | nil => simpa [xmlEscape, addText_nil] using h
  | cons a s ih =>
    rw [xmlEscape_cons, List.append_assoc]
    have := reads_esc1 c a (xmlEscape c s ++ X) (addText s R) rest' (by rw [gtFree_escape, hg]) ih
    rwa [addText_append] at this


/-! ### Attribute values -/

/-- `attValue` (double-quoted) reads `bs` as `r`, with any budget that exceeds the number of octets. -/
def AReads (bs : Bytes) (r : Bytes × Bytes) : Prop := ∀ f, bs.length < f → attValue 34 f bs = some r

theorem areads_end (rest : Bytes) : AReads (34 :: rest) ([], rest) := by
  intro f hf
  cases f with
  | zero => simp at hf
  | succ f => simp [attValue]

theorem areads_ref (body c Y V rest : Bytes) (hr : reference (body ++ Y) = some (c, Y)) (h : AReads Y (V, rest)) :
    AReads (38 :: (body ++ Y)) (c ++ V, rest) := by
  intro f hf
  cases f with
  | zero => simp at hf
  | succ f =>
    have hY := h f (by simp at hf; omega)
    simp [attValue, hr, hY]

/-- §3.3.3 for one literal octet. -/
def attNorm1 (a : UInt8) : UInt8 := if a == 10 || a == 9 then 32 else a

theorem areads_plain (a : UInt8) (Y V rest : Bytes) (h34 : a ≠ 34) (h60 : a ≠ 60) (h38 : a ≠ 38) (h13 : a ≠ 13)
    (h : AReads Y (V, rest)) : AReads (a :: Y) (attNorm1 a :: V, rest) := by
  intro f hf
  cases f with
  | zero => simp at hf
  | succ f =>
    have hY := h f (by simp at hf; omega)
    by_cases hw : (a == 10 || a == 9) = true
    · simp [attValue, h34, h60, h38, h13, hw, hY, attNorm1]
    · simp only [Bool.not_eq_true] at hw
      simp [attValue, h34, h60, h38, h13, hw, hY, attNorm1]

/-- What a reader gets for an attribute value the printer escaped: in canonical generation the
    value itself; otherwise the value with literal TAB and LF replaced by spaces (§3.3.3) — CR is
    always written as a character reference and kept. -/
def attNorm (canonical : Bool) (v : Bytes) : Bytes := if canonical then v else v.map attNorm1

theorem attNorm_cons (c : Bool) (a : UInt8) (v : Bytes) :
    attNorm c (a :: v) = (if c then a else attNorm1 a) :: attNorm c v := by
  cases c <;> simp [attNorm]

theorem areads_esc1 (c : Bool) (a : UInt8) (Y V rest : Bytes) (h : AReads Y (V, rest)) :
    AReads (esc1 c a ++ Y) ((if c then a else attNorm1 a) :: V, rest) := by
  unfold esc1
  split
  · rename_i e; have : a = 60 := by simpa using e
    subst this; have := areads_ref b!"lt;" _ Y V rest (ref_lt Y) h
    cases c <;> simpa [attNorm1] using this
  split
  · rename_i e; have : a = 62 := by simpa using e
    subst this; have := areads_ref b!"gt;" _ Y V rest (ref_gt Y) h
    cases c <;> simpa [attNorm1] using this
  split
  · rename_i e; have : a = 38 := by simpa using e
    subst this; have := areads_ref b!"amp;" _ Y V rest (ref_amp Y) h
    cases c <;> simpa [attNorm1] using this
  split
  · rename_i e; have : a = 34 := by simpa using e
    subst this; have := areads_ref b!"quot;" _ Y V rest (ref_quot Y) h
    cases c <;> simpa [attNorm1] using this
  split
  · rename_i e; have : a = 39 := by simpa using e
    subst this; have := areads_ref b!"apos;" _ Y V rest (ref_apos Y) h
    cases c <;> simpa [attNorm1] using this
  split
  · rename_i e; have : a = 13 := by simpa using e
    subst this; have := areads_ref b!"#13;" _ Y V rest (ref_13 Y) h
    cases c <;> simpa [attNorm1] using this
  split
  · rename_i e; simp only [Bool.and_eq_true, beq_iff_eq] at e; obtain ⟨e, ec⟩ := e
    subst e; subst ec; simpa using areads_ref b!"#10;" _ Y V rest (ref_10 Y) h
  split
  · rename_i e; simp only [Bool.and_eq_true, beq_iff_eq] at e; obtain ⟨e, ec⟩ := e
    subst e; subst ec; simpa using areads_ref b!"#9;" _ Y V rest (ref_9 Y) h
  · rename_i h1 h2 h3 h4 h5 h6 h7 h8
    have hp := areads_plain a Y V rest (by simpa using h4) (by simpa using h1) (by simpa using h3) (by simpa using h6) h
    cases c with
    | false => simpa using hp
    | true =>
      have h10 : a ≠ 10 := by simpa using h7
      have h9 : a ≠ 9 := by simpa using h8
      simpa [attNorm1, h10, h9] using hp

/-- **An escaped attribute value between double quotes is read back** as `attNorm` of the value. -/
theorem areads_escape (c : Bool) (v rest : Bytes) : AReads (xmlEscape c v ++ 34 :: rest) (attNorm c v, rest) := by
  induction v with
  | nil => simpa [xmlEscape, attNorm] using areads_end rest
  | cons a v ih =>
    rw [xmlEscape_cons, List.append_assoc, attNorm_cons]
    exact areads_esc1 c a _ _ rest ih

/-- A value written as it is (a namespace name from the tables): no quote, `<`, `&`, TAB, LF, CR. -/
def isPlainAtt (b : UInt8) : Bool := b != 34 && b != 60 && b != 38 && b != 13 && b != 10 && b != 9

theorem areads_raw (v rest : Bytes) (hv : v.all isPlainAtt = true) : AReads (v ++ 34 :: rest) (v, rest) := by
  induction v with
  | nil => exact areads_end rest
  | cons a v ih =>
    simp only [List.all_cons, Bool.and_eq_true] at hv
    have ha := hv.1
    simp only [isPlainAtt, Bool.and_eq_true, bne_iff_ne, ne_eq] at ha
    have := areads_plain a _ _ rest ha.1.1.1.1.1 ha.1.1.1.1.2 ha.1.1.1.2 ha.1.1.2 (ih hv.2)
    have h1 : attNorm1 a = a := by simp [attNorm1, ha.1.2, ha.2]
    rwa [h1] at this

end Wbxml.Lemmas.XmlSpec
