/-
  WBXML encoder proofs: whole documents. A successful `treeToWbxml` run on a tree whose root is an
  element over the tree's language writes `Spec.ser d` for a document `d` of the grammar
  (`treeToWbxml_doc`), every string-table index of `d` is the start of a table entry
  (`doc_refs`), and `d` is well-formed when no OPAQUE token was written (`doc_wf`).
-/
import Wbxml.Lemmas.EncWNode
import Wbxml.Lemmas.EncWHeader
namespace Wbxml.Lemmas.EncW
open Wbxml Wbxml.Model Wbxml.Spec Wbxml.Lemmas.ParseSer
open Wbxml.Model.Codec (mbEncode)

/-- The root is an element and every token name below it is a row of the language's tables. -/
def treeOver (lang : Lang) (t : Tree) : Bool :=
  match t.root with
  | some r => isElt r && nodeOver lang r
  | none => false

/-- What a successful run produces. -/
structure DocRes (cfg : X2WCfg) (lang : Lang) (r : Node) (bs : Bytes) (d : Doc) (st : WSt) : Prop where
  run : encNodeG (dcfgOf cfg lang) none true r (docStartW (dcfgOf cfg lang) r) = .ok st
  ser : bs = Spec.ser d
  hdr : d.hdr = hdrOf (dcfgOf cfg lang) st
  pre : d.pre = []
  post : d.post = []
  inv : StrInv st
  no : (dcfgOf cfg lang).useStrtbl = false → st.strtbl = []
  body : Seg (dcfgOf cfg lang) (docStartW (dcfgOf cfg lang) r) st [.elem d.root]
  view : ViewN (dcfgOf cfg lang) r (docStartW (dcfgOf cfg lang) r) st [.elem d.root]
  wfT : WfN (dcfgOf cfg lang) none r (docStartW (dcfgOf cfg lang) r) st [.elem d.root]
  viewT : ViewT (dcfgOf cfg lang) none r (docStartW (dcfgOf cfg lang) r) st [.elem d.root]
  treeT : TreeT (dcfgOf cfg lang) none r (docStartW (dcfgOf cfg lang) r) st [.elem d.root]

theorem treeToWbxml_doc (cfg : X2WCfg) (t : Tree) (bs : Bytes) (lang : Lang) (hlang : t.lang = some lang)
    (hl : langOk lang = true) (hover : treeOver lang t = true) (h : treeToWbxml cfg t = .ok bs) :
    ∃ r d st, t.root = some r ∧ DocRes cfg lang r bs d st := by
  obtain ⟨lang', r, st, hl', hr, hrun, hbs⟩ := treeToWbxml_ok h
  rw [hlang] at hl'; injection hl' with hl'; subst hl'
  simp only [treeOver, hr, Bool.and_eq_true] at hover
  have hinv0 := docStartW_inv (dcfgOf cfg lang) r
  obtain ⟨items, hseg, hshape, _, hview, hwfT, _, hviewT, htreeT⟩ := encNode_seg.1 (dcfgOf cfg lang) none true r _ rfl
    (by rw [dcfgOf_lang]; exact hl) (by rw [dcfgOf_lang]; exact hover.2) hinv0 st hrun
  obtain ⟨e, rfl⟩ := hshape hover.1
  have hinv := hseg.tbl.inv hinv0
  have hno : (dcfgOf cfg lang).useStrtbl = false → st.strtbl = [] := by
    intro hu; rw [hseg.tbl.no hu]; exact docStartW_noStrtbl _ _ hu
  refine ⟨r, { hdr := hdrOf (dcfgOf cfg lang) st, pre := [], root := e, post := [] }, st, hr,
    ⟨hrun, ?_, rfl, rfl, rfl, hinv, hno, hseg, hview, hwfT, hviewT, htreeT⟩⟩
  rw [hbs, fillHeaderW_ser _ _ hinv hno]
  have hout := hseg.out
  rw [(docStartW_fields _ r).1, List.nil_append, serItems_single, serItem_elem] at hout
  simp [Spec.ser, serBody, serPis, hout]

/-! ### The string table of the document -/

theorem DocRes.tblBytes {cfg lang r bs d st} (h : DocRes cfg lang r bs d st) :
    tblBytes d.hdr.strtbl = strtblBytes (finalTbl (dcfgOf cfg lang) st) := by
  rw [h.hdr]; exact tblBytes_map _

/-- The `i`-th entry of a table with running-sum offsets starts at the length of the entries before it. -/
theorem offsFrom_index (b : Nat) (l : List StrEntry) (h : OffsFrom b l) (e : StrEntry) (he : e ∈ l) :
    ∃ i, i < l.length ∧ e.offset = b + tblLen (l.take i) := by
  induction l generalizing b with
  | nil => cases he
  | cons x xs ih =>
    rcases List.mem_cons.mp he with rfl | hm
    · exact ⟨0, by simp, by simpa [tblLen] using h.1⟩
    · obtain ⟨i, hi, ho⟩ := ih _ h.2 hm
      exact ⟨i + 1, by simp; omega, by rw [ho]; simp only [List.take_succ_cons, tblLen]; omega⟩

theorem finalTbl_mem_of_body (c : WCfg) (st : WSt) (hno : c.useStrtbl = false → st.strtbl = []) (e : StrEntry)
    (he : e ∈ st.strtbl) : e ∈ finalTbl c st := by
  cases hu : c.useStrtbl with
  | false => rw [hno hu] at he; cases he
  | true => exact (finalTbl_prefix c st hu).subset he

theorem hdrPubid_mem (c : WCfg) (st : WSt) (idx : Nat) (h : hdrPubid c st = .str idx) :
    ∃ e ∈ finalTbl c st, e.offset = idx := by
  unfold hdrPubid at h
  unfold finalTbl
  cases hp : hdrPid c with
  | none => rw [hp] at h; cases h
  | some p =>
    rw [hp] at h
    simp only at h ⊢
    cases hu : c.useStrtbl with
    | true =>
      simp only [hu, ↓reduceIte] at h ⊢
      injection h with h
      obtain ⟨e, he, ho, _⟩ := strtblAdd_idx st p none
      exact ⟨e, he, ho.trans h⟩
    | false =>
      simp only [hu, Bool.false_eq_true, ↓reduceIte] at h ⊢
      injection h with h
      exact ⟨⟨p, 0, none⟩, List.mem_singleton.mpr rfl, h⟩

/-- Every index of the document is the offset of an entry of the final table. -/
theorem DocRes.refs {cfg lang r bs d st} (h : DocRes cfg lang r bs d st) :
    ∀ off ∈ refsDoc d, ∃ e ∈ finalTbl (dcfgOf cfg lang) st, e.offset = off := by
  intro off ho
  unfold refsDoc at ho
  rw [h.pre, h.post] at ho
  simp only [refsAttrs, List.append_nil, List.nil_append, List.mem_append] at ho
  rcases ho with ho | ho
  · have hp : d.hdr.pubid = hdrPubid (dcfgOf cfg lang) st := by rw [h.hdr]; rfl
    cases hpid : d.hdr.pubid with
    | num id => rw [hpid] at ho; cases ho
    | str idx =>
      rw [hpid] at ho
      simp only [List.mem_cons, List.mem_nil_iff, or_false] at ho
      subst ho
      exact hdrPubid_mem _ _ _ (hp ▸ hpid)
  · obtain ⟨e, he, heo⟩ := h.body.refs off (by rw [refsItems_single, refsItem_elem]; exact ho)
    exact ⟨e, finalTbl_mem_of_body _ _ h.no e he, heo⟩

/-! ### Well-formedness -/

theorem finalTbl_offset_lt (c : WCfg) (st : WSt) (hinv : StrInv st) (e : StrEntry) (he : e ∈ finalTbl c st) :
    e.offset < (strtblBytes (finalTbl c st)).length := by
  obtain ⟨pre, post, hs, ho⟩ := offsFrom_split 0 _ (finalTbl_offs c st hinv) e he
  rw [hs, ho]
  simp only [List.length_append, List.length_cons, List.length_nil]
  omega

/-- The header `wbxml_fill_header` writes is well-formed for every reader configuration whose
    effective character set is one in which the textual public identifier can be read. -/
theorem hdrOf_wf (c : WCfg) (st : WSt) (hinv : StrInv st) (hl : langOk c.lang = true) (pcfg : PCfg)
    (hcs : headerCharset pcfg (hdrOf c st) = 3 ∨ headerCharset pcfg (hdrOf c st) = 106)
    (hcsk : pcfg.charsets.contains (headerCharset pcfg (hdrOf c st)) = true)
    (hver : c.version < 256) (hsize : (strtblBytes (finalTbl c st)).length < 4294967295) :
    wfHeader pcfg (hdrOf c st) = true := by
  have htb : tblBytes (hdrOf c st).strtbl = strtblBytes (finalTbl c st) := tblBytes_map _
  simp only [wfHeader, Bool.and_eq_true, decide_eq_true_eq, Bool.or_eq_true, beq_iff_eq]
  refine ⟨⟨⟨hver, ?_⟩, Or.inr ⟨by simp [hdrOf], hcsk⟩⟩, by rw [htb]; omega⟩
  unfold wfPubid
  cases hp : (hdrOf c st).pubid with
  | num id =>
    have hp' : hdrPubid c st = .num id := hp
    unfold hdrPubid at hp'
    split at hp'
    · split at hp' <;> cases hp'
    · injection hp' with hp'
      have := langOk_pub hl
      simp only [Bool.and_eq_true, decide_eq_true_eq]
      split at hp' <;> omega
  | str idx =>
    have hp' : hdrPubid c st = .str idx := hp
    obtain ⟨e, he, heo⟩ := hdrPubid_mem _ _ _ hp'
    have := finalTbl_offset_lt c st hinv e he
    simp only [Bool.and_eq_true, decide_eq_true_eq, Bool.or_eq_true, bne_iff_ne, ne_eq, beq_iff_eq]
    exact ⟨by omega, Or.inr ⟨by rw [htb]; omega, hcs⟩⟩

/-- Well-formedness of the produced document for a reader configuration `pcfg` under which the
    header selects the tree's language and a character set in which strings can be delivered. -/
theorem DocRes.wf {cfg lang r bs d st} (h : DocRes cfg lang r bs d st) (hl : langOk lang = true)
    (pcfg : PCfg) (hlang : headerLang pcfg d.hdr = some lang)
    (hcs : headerCharset pcfg d.hdr = 3 ∨ headerCharset pcfg d.hdr = 106)
    (hcsk : pcfg.charsets.contains (headerCharset pcfg d.hdr) = true)
    (hver : cfg.version < 256) (hsize : bs.length < 4294967296)
    (hno : opqsDoc d = [] ∨ untypedLang lang.id = true) : d.WF pcfg := by
  have htb := h.tblBytes
  have hlen : (Spec.tblBytes d.hdr.strtbl).length < bs.length := by
    rw [h.ser, Spec.ser, serHeader]
    simp only [List.length_append, List.length_cons]
    omega
  have hidx : ∀ e ∈ finalTbl (dcfgOf cfg lang) st, e.offset < (Spec.tblBytes d.hdr.strtbl).length := by
    intro e he; rw [htb]; exact finalTbl_offset_lt _ _ h.inv e he
  unfold Doc.WF Doc.wf
  rw [hlang]
  simp only [Bool.and_eq_true]
  have hcompat : Compat (dcfgOf cfg lang) st.strtbl (headerCtx pcfg d.hdr lang) := by
    refine ⟨by simp [headerCtx], ?_, ?_⟩
    · simp only [csOk, headerCtx, Bool.or_eq_true, beq_iff_eq]; exact hcs
    · intro e he
      exact hidx e (finalTbl_mem_of_body _ _ h.no e he)
  refine ⟨?_, ⟨?_, ?_⟩, ?_⟩
  · -- header
    rw [h.hdr] at hcs hcsk ⊢
    refine hdrOf_wf _ st h.inv (by rw [dcfgOf_lang]; exact hl) pcfg hcs hcsk (by rw [dcfgOf_version]; exact hver) ?_
    rw [← htb]; omega
  · rw [h.pre]; rfl
  · rw [h.pre]
    have hbody : (serElem d.root).length ≤ bs.length := by
      rw [h.ser, Spec.ser, serBody]
      simp only [List.length_append]
      omega
    have := h.body.wf (headerCtx pcfg d.hdr lang) hcompat (by rw [dcfgOf_lang]; exact hl)
      (by rw [opqsItems_single, opqsItem_elem]
          rcases hno with hno | hu
          · unfold opqsDoc at hno
            rw [h.pre, h.post] at hno
            exact Or.inl (by simpa [opqsAttrs] using hno)
          · refine Or.inr ⟨by rw [dcfgOf_lang]; exact hu, ?_⟩
            intro x hx
            have := h.body.osz x (by rw [opqsItems_single, opqsItem_elem]; exact hx)
            rw [serItems_single, serItem_elem] at this
            omega) none none
    rw [(docStartW_fields _ r).2.1, (docStartW_fields _ r).2.2.1, wfItems_single, wfItem_elem] at this
    exact this
  · rw [h.post]; rfl

/-- **Well-formedness with typed content.** The produced document is well-formed for every reader
    configuration that selects the tree's language and a deliverable character set, under the four
    source hypotheses (each a recorded finding): `noCdataInTyped` (`cdata-in-typed-element`),
    `validDatetimeAttrs` (`invalid-datetime-attribute-accepted`), `b64TextDecodes` (D5: text that is
    not base64 becomes an empty OPAQUE) and `keyValueTextFirst` (DRMREL text behind a child element).
    `typedLangOk` is a table fact (true for every language of the library). -/
theorem DocRes.wfTyped {cfg lang r bs d st} (h : DocRes cfg lang r bs d st) (hl : langOk lang = true)
    (htl : typedLangOk lang = true)
    (h1 : noCdataInTyped lang false r = true) (h2 : validDatetimeAttrs lang r = true)
    (h3 : b64TextDecodes (dcfgOf cfg lang) none r = true)
    (h4 : keyValueTextFirst (dcfgOf cfg lang) none true r = true)
    (pcfg : PCfg) (hlang : headerLang pcfg d.hdr = some lang)
    (hcs : headerCharset pcfg d.hdr = 3 ∨ headerCharset pcfg d.hdr = 106)
    (hcsk : pcfg.charsets.contains (headerCharset pcfg d.hdr) = true)
    (hver : cfg.version < 256) (hsize : bs.length < 4294967296) : d.WF pcfg := by
  have htb := h.tblBytes
  have hlen : (Spec.tblBytes d.hdr.strtbl).length < bs.length := by
    rw [h.ser, Spec.ser, serHeader]
    simp only [List.length_append, List.length_cons]
    omega
  have hidx : ∀ e ∈ finalTbl (dcfgOf cfg lang) st, e.offset < (Spec.tblBytes d.hdr.strtbl).length := by
    intro e he; rw [htb]; exact finalTbl_offset_lt _ _ h.inv e he
  unfold Doc.WF Doc.wf
  rw [hlang]
  simp only [Bool.and_eq_true]
  have hcompat : Compat (dcfgOf cfg lang) st.strtbl (headerCtx pcfg d.hdr lang) := by
    refine ⟨by simp [headerCtx], ?_, ?_⟩
    · simp only [csOk, headerCtx, Bool.or_eq_true, beq_iff_eq]; exact hcs
    · intro e he
      exact hidx e (finalTbl_mem_of_body _ _ h.no e he)
  refine ⟨?_, ⟨?_, ?_⟩, ?_⟩
  · -- header
    rw [h.hdr] at hcs hcsk ⊢
    refine hdrOf_wf _ st h.inv (by rw [dcfgOf_lang]; exact hl) pcfg hcs hcsk (by rw [dcfgOf_version]; exact hver) ?_
    rw [← htb]; omega
  · rw [h.pre]; rfl
  · rw [h.pre]
    have hbody : (serElem d.root).length ≤ bs.length := by
      rw [h.ser, Spec.ser, serBody]
      simp only [List.length_append]
      omega
    have hpos : Pos (dcfgOf cfg lang) (headerCtx pcfg d.hdr lang) none
        (docStartW (dcfgOf cfg lang) r).curTag false true none none := by
      rw [(docStartW_fields _ r).2.2.2.1]; exact Pos.root _ _ true
    have := h.wfT false true (by rw [dcfgOf_lang]; exact htl) (by rw [dcfgOf_lang]; exact h1)
      (by rw [dcfgOf_lang]; exact h2) h3 h4 (headerCtx pcfg d.hdr lang) hcompat
      (by intro x hx
          have := h.body.osz x hx
          rw [serItems_single, serItem_elem] at this
          omega) none none hpos
    rw [(docStartW_fields _ r).2.1, (docStartW_fields _ r).2.2.1, wfItems_single, wfItem_elem] at this
    exact this
  · rw [h.post]; rfl

/-! ### The source hypotheses hold trivially in a language without typed content -/

theorem untyped_typedRow (id : Nat) (h : untypedLang id = true) (r : TagRow) : typedRow id r = false := by
  simp only [untypedLang, Bool.and_eq_true, Bool.not_eq_true'] at h
  simp [typedRow, h.1.1.1.1.1, h.1.1.1.1.2, h.1.1.1.2]

theorem untyped_kidsTy (l : Lang) (h : untypedLang l.id = true) (nm : Name) : kidsTy l false nm = false := by
  cases nm with
  | token r => exact untyped_typedRow _ h r
  | literal s => simp [kidsTy, untyped_typedRow _ h]

theorem untyped_kvPar (l : Lang) (h : untypedLang l.id = true) (p : Option Name) : kvPar l p = false := by
  simp only [untypedLang, Bool.and_eq_true, Bool.not_eq_true'] at h
  cases p with
  | none => rfl
  | some nm =>
    cases nm with
    | token r => simp [kvPar, isKvRow, h.1.1.1.1.2]
    | literal s => rfl

theorem untyped_dtAttrOk (l : Lang) (h : untypedLang l.id = true) (a : Attr) : dtAttrOk l a = true := by
  have := untyped_noTypedAttr _ h
  simp [dtAttrOk, dtAttrName, noTypedAttr_dt _ this]

theorem untyped_iconAttrOk (l : Lang) (h : untypedLang l.id = true) (na) (a : Attr) : iconAttrOk l na a = true := by
  simp only [untypedLang, Bool.and_eq_true, Bool.not_eq_true'] at h
  simp [iconAttrOk, iconValName, iconRow, h.2]

mutual
theorem untyped_node (c : WCfg) (h : untypedLang c.lang.id = true) : ∀ (n : Node) (parent : Option Name) (pre : Bool),
    noCdataInTyped c.lang false n = true ∧ validDatetimeAttrs c.lang n = true ∧
    b64TextDecodes c parent n = true ∧ keyValueTextFirst c parent pre n = true
  | .elt nm attrs kids, parent, pre => by
    have ih := untyped_nodes c h kids (some nm) true
    rw [noCdataInTyped, validDatetimeAttrs, b64TextDecodes, keyValueTextFirst, untyped_kidsTy _ h]
    refine ⟨ih.1, ?_, ?_, ih.2.2.2⟩
    · rw [Bool.and_eq_true]; exact ⟨List.all_eq_true.mpr (fun a _ => untyped_dtAttrOk _ h a), ih.2.1⟩
    · rw [Bool.and_eq_true]; exact ⟨List.all_eq_true.mpr (fun a _ => untyped_iconAttrOk _ h _ a), ih.2.2.1⟩
  | .text s, parent, pre => by
    rw [noCdataInTyped, validDatetimeAttrs, b64TextDecodes, keyValueTextFirst, untyped_kvPar _ h]
    simp
  | .cdata kids, parent, pre => by
    have ih := untyped_nodes c h kids none pre
    rw [noCdataInTyped, validDatetimeAttrs, b64TextDecodes, keyValueTextFirst]
    exact ⟨by simp [ih.1], ih.2.1, ih.2.2.1, ih.2.2.2⟩
  | .tree _ _ _, parent, pre => by
    rw [noCdataInTyped, validDatetimeAttrs, b64TextDecodes, keyValueTextFirst]
    simp
theorem untyped_nodes (c : WCfg) (h : untypedLang c.lang.id = true) : ∀ (l : List Node) (parent : Option Name) (pre : Bool),
    noCdataInTypedL c.lang false l = true ∧ validDatetimeAttrsL c.lang l = true ∧
    b64TextDecodesL c parent l = true ∧ keyValueTextFirstL c parent pre l = true
  | [], _, _ => by
    rw [noCdataInTypedL, validDatetimeAttrsL, b64TextDecodesL, keyValueTextFirstL]; simp
  | n :: rest, parent, pre => by
    have h1 := untyped_node c h n parent pre
    have h2 := untyped_nodes c h rest parent (pre && isTextN n)
    rw [noCdataInTypedL, validDatetimeAttrsL, b64TextDecodesL, keyValueTextFirstL]
    simp [h1.1, h1.2.1, h1.2.2.1, h1.2.2.2, h2.1, h2.2.1, h2.2.2.1, h2.2.2.2]
end

end Wbxml.Lemmas.EncW
