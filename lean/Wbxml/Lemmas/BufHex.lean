/-
  C19 — the raw in-place loops of `hex_to_binary` / `binary_to_hex`, and the base64 wrappers.
-/
import Wbxml.Lemmas.BufLoops
set_option linter.unusedSimpArgs false
namespace Wbxml.Model
open Wbxml Wbxml.Spec.Seq

/-! ### digit tables (complete, kernel evaluation) -/

set_option maxRecDepth 100000 in
theorem nibble_table : ∀ n : Fin 256, nibble (UInt8.ofNat n.val) = hexVal8 (UInt8.ofNat n.val) := by
  decide +kernel

theorem nibble_eq (c : UInt8) : nibble c = hexVal8 c := by
  have := nibble_table ⟨c.toNat, c.toNat_lt⟩
  simpa using this

set_option maxRecDepth 100000 in
theorem hexit_table : ∀ u : Bool, ∀ n : Fin 256,
    hexit u ((UInt8.ofNat n.val / 16) &&& 0xf) = hexDigit8 u (UInt8.ofNat n.val / 16) ∧
    hexit u (UInt8.ofNat n.val % 16) = hexDigit8 u (UInt8.ofNat n.val % 16) := by
  decide +kernel

theorem hexit_eq (u : Bool) (x : UInt8) :
    hexit u ((x / 16) &&& 0xf) = hexDigit8 u (x / 16) ∧ hexit u (x % 16) = hexDigit8 u (x % 16) := by
  have := hexit_table u ⟨x.toNat, x.toNat_lt⟩
  simpa using this

/-! ### hex_to_binary -/

namespace Buf

theorem nibLoop_spec (xs : Bytes) : ∀ (pre post : Bytes),
    nibLoop xs.length pre.length (pre ++ xs ++ post) = .ok (pre ++ xs.map hexVal8 ++ post) := by
  induction xs with
  | nil => intro pre post; simp [nibLoop]
  | cons x xs ih =>
    intro pre post
    have hm : pre ++ x :: xs ++ post = pre ++ x :: (xs ++ post) := by simp
    simp only [List.length_cons, nibLoop]
    rw [hm]
    simp only [Mem.load_mid pre _ x _ rfl, Mem.store_mid pre _ x (nibble x) _ rfl]
    have := ih (pre ++ [nibble x]) post
    simp only [List.length_append, List.length_cons, List.length_nil, List.append_assoc,
      List.singleton_append, Nat.zero_add] at this
    have e : pre ++ nibble x :: (xs ++ post) = pre ++ (nibble x :: xs ++ post) := by simp
    rw [e, this, nibble_eq]
    simp

/-- What the packing loop computes from the not-yet-read bytes. -/
def packN : Nat → Bytes → Bytes
  | k + 1, a :: b :: rest => (a * 16 ||| b) :: packN k rest
  | _, _ => []

theorem packN_hex (c t : Bytes) : packN (c.length / 2) (c.map hexVal8 ++ t) = hexToBin c := by
  fun_induction hexToBin c with
  | case1 a b rest ih =>
    have : (a :: b :: rest).length / 2 = rest.length / 2 + 1 := by simp only [List.length_cons]; omega
    rw [this]
    simp only [List.map_cons, List.cons_append, packN, ih]
  | case2 c hc =>
    cases c with
    | nil => simp [packN]
    | cons a r =>
      cases r with
      | nil => simp [packN]
      | cons b r' => exact absurd rfl (hc a b r')


theorem packLoop_spec (k : Nat) : ∀ (out stale unread : Bytes), stale.length = out.length → 2 * k ≤ unread.length →
    ∃ g, packLoop k out.length (out ++ stale ++ unread) = .ok (out ++ packN k unread ++ g)
      ∧ g.length + k = stale.length + unread.length := by
  induction k with
  | zero => intro out stale unread _ _; exact ⟨stale ++ unread, by simp [packLoop, packN], by simp⟩
  | succ k ih =>
    intro out stale unread hs hu
    obtain ⟨a, b, u', rfl⟩ : ∃ a b u', unread = a :: b :: u' := by
      cases unread with
      | nil => simp at hu
      | cons a r => cases r with
        | nil => simp at hu; omega
        | cons b u' => exact ⟨a, b, u', rfl⟩
    -- the cell to be overwritten is the first cell of stale ++ [a, b]
    obtain ⟨z0, zt, hz⟩ : ∃ z0 zt, stale ++ [a, b] = z0 :: zt := by
      cases stale with
      | nil => exact ⟨a, [b], rfl⟩
      | cons s0 st => exact ⟨s0, st ++ [a, b], rfl⟩
    have hzl : zt.length = out.length + 1 := by
      have := congrArg List.length hz; simp at this; omega
    have hm1 : out ++ stale ++ a :: b :: u' = (out ++ stale) ++ a :: (b :: u') := by simp
    have hm2 : out ++ stale ++ a :: b :: u' = (out ++ stale ++ [a]) ++ b :: u' := by simp
    have hm3 : out ++ stale ++ a :: b :: u' = out ++ z0 :: (zt ++ u') := by
      have : out ++ stale ++ a :: b :: u' = out ++ (stale ++ [a, b]) ++ u' := by simp
      rw [this, hz]; simp
    unfold packLoop
    have hl1 : Mem.load (out ++ stale ++ a :: b :: u') (out.length * 2) = .ok a := by
      rw [hm1]; exact Mem.load_mid _ _ _ _ (by simp; omega)
    have hl2 : Mem.load (out ++ stale ++ a :: b :: u') (out.length * 2 + 1) = .ok b := by
      rw [hm2]; exact Mem.load_mid _ _ _ _ (by simp; omega)
    have hst : Mem.store (out ++ stale ++ a :: b :: u') out.length (a * 16 ||| b)
        = .ok (out ++ (a * 16 ||| b) :: (zt ++ u')) := by
      rw [hm3]; exact Mem.store_mid _ _ _ _ _ rfl
    simp only [hl1, hl2, hst]
    obtain ⟨g, hg, hgl⟩ := ih (out ++ [a * 16 ||| b]) zt u' (by simp; omega) (by simp at hu; omega)
    refine ⟨g, ?_, ?_⟩
    · have e : out ++ (a * 16 ||| b) :: (zt ++ u') = (out ++ [a * 16 ||| b]) ++ zt ++ u' := by simp
      rw [e]
      have e2 : out.length + 1 = (out ++ [a * 16 ||| b]).length := by simp
      rw [e2, hg]
      simp [packN]
    · simp at hgl ⊢; omega

theorem hexToBinary_spec {b : Buf} {c : Bytes} (h : Rep b c) :
    ∃ b', b.hexToBinary = .ok (b', true) ∧ Rep b' (hexToBin c) := by
  rcases h.cases with ⟨rfl, rfl⟩ | ⟨j, rfl⟩
  · exact ⟨nullBuf, rfl, by simpa [hexToBin] using rep_null⟩
  · by_cases hc : c = []
    · subst hc
      exact ⟨canon [] j, by simp [hexToBinary, canon], by simpa [hexToBin] using rep_canon [] j⟩
    · have hl : c.length ≠ 0 := by simpa using hc
      have h1 := nibLoop_spec c [] (0 :: j)
      simp only [List.nil_append, List.length_nil] at h1
      obtain ⟨g, h2, hgl⟩ := packLoop_spec (c.length / 2) [] [] (c.map hexVal8 ++ 0 :: j) rfl (by simp; omega)
      simp only [List.nil_append, List.length_nil, packN_hex] at h2 hgl
      have hgne : g.length ≠ 0 := by simp at hgl; omega
      obtain ⟨g0, g', rfl⟩ : ∃ g0 g', g = g0 :: g' := by
        cases g with
        | nil => simp at hgne
        | cons g0 g' => exact ⟨g0, g', rfl⟩
      have hlen : (hexToBin c).length = c.length / 2 := by
        have key : ∀ (c : Bytes), (hexToBin c).length = c.length / 2 := by
          intro c
          fun_induction hexToBin c with
          | case1 a b rest ih => simp only [List.length_cons, ih]; omega
          | case2 c hc =>
            cases c with
            | nil => rfl
            | cons a r => cases r with
              | nil => simp [hexToBin]
              | cons b r' => exact absurd rfl (hc a b r')
        exact key c
      have h3 : Mem.store (hexToBin c ++ g0 :: g') (c.length / 2) 0 = .ok (hexToBin c ++ 0 :: g') :=
        Mem.store_mid _ _ _ _ _ hlen.symm
      refine ⟨canon (hexToBin c) g', ?_, rep_canon _ _⟩
      simp only [hexToBinary, canon, Bool.false_eq_true, if_false, hl, mem, h1, h2, h3]
      simp only [Except.ok.injEq, Prod.mk.injEq, Buf.mk.injEq, and_true, true_and, hlen]
      simp at hgl; omega

theorem hexToBinary_static {b : Buf} (hs : b.isStatic = true) : b.hexToBinary = .ok (b, false) := by
  simp [hexToBinary, hs]

/-! ### binary_to_hex -/

theorem hexLoop_spec (u : Bool) (k : Nat) : ∀ (keep gap done : Bytes), keep.length = k → gap.length = k →
    hexLoop u k (keep ++ gap ++ done) = .ok (binToHex u keep ++ done) := by
  induction k with
  | zero =>
    intro keep gap done hk hg
    have : keep = [] := List.eq_nil_of_length_eq_zero hk
    have : gap = [] := List.eq_nil_of_length_eq_zero hg
    subst_vars; simp [hexLoop, binToHex]
  | succ i ih =>
    intro keep gap done hk hg
    obtain ⟨keep', x, rfl⟩ : ∃ keep' x, keep = keep' ++ [x] := by
      rcases List.eq_nil_or_concat keep with rfl | ⟨k', x, hkx⟩
      · simp at hk
      · exact ⟨k', x, by rw [hkx, List.concat_eq_append]⟩
    obtain ⟨gap', g, rfl⟩ : ∃ gap' g, gap = gap' ++ [g] := by
      rcases List.eq_nil_or_concat gap with rfl | ⟨k', x, hkx⟩
      · simp at hg
      · exact ⟨k', x, by rw [hkx, List.concat_eq_append]⟩
    have hk' : keep'.length = i := by simp at hk; omega
    have hg' : gap'.length = i := by simp at hg; omega
    -- W = [x] ++ gap' = W' ++ [w]
    obtain ⟨W', w, hW⟩ : ∃ W' w, [x] ++ gap' = W' ++ [w] := by
      rcases List.eq_nil_or_concat ([x] ++ gap') with h0 | ⟨k', y, hky⟩
      · simp at h0
      · exact ⟨k', y, by rw [hky, List.concat_eq_append]⟩
    have hWl : W'.length = i := by have := congrArg List.length hW; simp at this; omega
    let h1 := hexit u ((x / 16) &&& 0xf)
    let h2 := hexit u (x % 16)
    have m0 : keep' ++ [x] ++ (gap' ++ [g]) ++ done = keep' ++ x :: (gap' ++ [g] ++ done) := by simp
    have m1 : keep' ++ [x] ++ (gap' ++ [g]) ++ done = (keep' ++ [x] ++ gap') ++ g :: done := by simp
    have m2 : (keep' ++ [x] ++ gap') ++ h2 :: done = keep' ++ x :: (gap' ++ h2 :: done) := by simp
    have m3 : (keep' ++ [x] ++ gap') ++ h2 :: done = (keep' ++ W') ++ w :: (h2 :: done) := by
      have : keep' ++ [x] ++ gap' = keep' ++ ([x] ++ gap') := by simp
      rw [this, hW]; simp
    unfold hexLoop
    have l1 : Mem.load (keep' ++ [x] ++ (gap' ++ [g]) ++ done) i = .ok x := by
      rw [m0]; exact Mem.load_mid _ _ _ _ hk'.symm
    have s1 : Mem.store (keep' ++ [x] ++ (gap' ++ [g]) ++ done) (i * 2 + 1) h2
        = .ok ((keep' ++ [x] ++ gap') ++ h2 :: done) := by
      rw [m1]; exact Mem.store_mid _ _ _ _ _ (by simp; omega)
    have l2 : Mem.load ((keep' ++ [x] ++ gap') ++ h2 :: done) i = .ok x := by
      rw [m2]; exact Mem.load_mid _ _ _ _ hk'.symm
    have s2 : Mem.store ((keep' ++ [x] ++ gap') ++ h2 :: done) (i * 2) h1
        = .ok ((keep' ++ W') ++ h1 :: (h2 :: done)) := by
      rw [m3]; exact Mem.store_mid _ _ _ _ _ (by simp; omega)
    simp only [l1]
    rw [show hexit u (x % 16) = h2 from rfl]
    simp only [s1, l2]
    rw [show hexit u ((x / 16) &&& 0xf) = h1 from rfl]
    simp only [s2]
    rw [ih keep' W' (h1 :: h2 :: done) hk' hWl]
    have := hexit_eq u x
    simp only [binToHex, List.flatMap_append, List.flatMap_cons, List.flatMap_nil, List.append_nil,
      List.append_assoc, List.cons_append, List.nil_append, h1, h2, this.1, this.2]

theorem binToHex_length (u : Bool) (c : Bytes) : (binToHex u c).length = c.length * 2 := by
  induction c with
  | nil => rfl
  | cons a r ih =>
    have : binToHex u (a :: r) = [hexDigit8 u (a / 16), hexDigit8 u (a % 16)] ++ binToHex u r := by
      simp [binToHex]
    rw [this, List.length_append, ih]; simp; omega

theorem binaryToHex_spec {b : Buf} {c : Bytes} (h : Rep b c) (u : Bool) :
    ∃ b', b.binaryToHex u = .ok (b', true) ∧ Rep b' (binToHex u c) := by
  rcases h.cases with ⟨rfl, rfl⟩ | ⟨j, rfl⟩
  · exact ⟨nullBuf, rfl, by simpa [binToHex] using rep_null⟩
  · by_cases hc : c = []
    · subst hc
      exact ⟨canon [] j, by simp [binaryToHex, canon], by simpa [binToHex] using rep_canon [] j⟩
    · have hl : c.length ≠ 0 := by simpa using hc
      obtain ⟨j', hg, hsz, _⟩ := growBuff_canon c j (c.length * 2)
      -- block = c ++ gap ++ done with |gap| = |c|
      obtain ⟨h3, l1, l2⟩ := Mem.split3 (0 :: j') 0 c.length (by simp; omega)
      simp only [List.take_zero, List.nil_append, List.drop_zero, Nat.zero_add] at h3 l2
      generalize hgap : (0 :: j').take c.length = gap at h3 l2
      generalize hdone : (0 :: j').drop c.length = done at h3
      have hdl : done.length = j'.length + 1 - c.length := by rw [← hdone]; simp
      obtain ⟨d0, done', rfl⟩ : ∃ d0 done', done = d0 :: done' := by
        cases done with
        | nil => simp at hdl; omega
        | cons d0 done' => exact ⟨d0, done', rfl⟩
      have hblock : c ++ 0 :: j' = c ++ gap ++ d0 :: done' := by rw [h3]; simp
      have hloop := hexLoop_spec u c.length c gap (d0 :: done') rfl l2
      have hst : Mem.store (binToHex u c ++ d0 :: done') (c.length * 2) 0 = .ok (binToHex u c ++ 0 :: done') :=
        Mem.store_mid _ _ _ _ _ (binToHex_length u c).symm
      refine ⟨canon (binToHex u c) done', ?_, rep_canon _ _⟩
      have hst' : (canon c j).isStatic = false := rfl
      have hlen' : (canon c j).len = c.length := rfl
      simp only [binaryToHex, hst', hlen', hl, Bool.false_eq_true, if_false, hg]
      simp only [canon, mem, hblock, hloop, hst]
      simp only [Except.ok.injEq, Prod.mk.injEq, Buf.mk.injEq, and_true, true_and, binToHex_length]
      have := congrArg List.length h3
      simp at this hdl; omega

theorem binaryToHex_static {b : Buf} (hs : b.isStatic = true) (u : Bool) : b.binaryToHex u = .ok (b, false) := by
  simp [binaryToHex, hs]

/-! ### base64 wrappers (contents-level codecs are `b64Enc` / `b64Dec`) -/

theorem basis64_ne_zero (n : Nat) : basis64 n ≠ 0 := by
  unfold basis64
  intro h
  split at h
  · have := congrArg UInt8.toNat h; simp at this; omega
  · split at h
    · have := congrArg UInt8.toNat h; simp at this; omega
    · split at h
      · have := congrArg UInt8.toNat h; simp at this; omega
      · split at h <;> simp at h

theorem b64Enc_no_nul (c : Bytes) : ∀ y ∈ b64Enc c, y ≠ 0 := by
  fun_induction b64Enc c with
  | case1 a b c rest ih =>
    intro y hy
    simp only [List.mem_cons] at hy
    rcases hy with rfl | rfl | rfl | rfl | hy
    · exact basis64_ne_zero _
    · exact basis64_ne_zero _
    · exact basis64_ne_zero _
    · exact basis64_ne_zero _
    · exact ih y hy
  | case2 a b =>
    intro y hy
    simp only [List.mem_cons, List.not_mem_nil, or_false] at hy
    rcases hy with rfl | rfl | rfl | rfl
    · exact basis64_ne_zero _
    · exact basis64_ne_zero _
    · exact basis64_ne_zero _
    · decide
  | case3 a =>
    intro y hy
    simp only [List.mem_cons, List.not_mem_nil, or_false] at hy
    rcases hy with rfl | rfl | rfl | rfl
    · exact basis64_ne_zero _
    · exact basis64_ne_zero _
    · decide
    · decide
  | case4 => intro y hy; simp at hy

theorem takeWhile_of_all (p : UInt8 → Bool) : ∀ l : Bytes, (∀ y ∈ l, p y = true) → l.takeWhile p = l := by
  intro l
  induction l with
  | nil => intro _; rfl
  | cons a l ih =>
    intro h
    rw [List.takeWhile_cons_of_pos (h a (by simp)), ih (fun y hy => h y (by simp [hy]))]

theorem cstr_b64Enc (c : Bytes) : cstr (b64Enc c) = b64Enc c := by
  unfold cstr
  apply takeWhile_of_all
  intro y hy
  have := b64Enc_no_nul c y hy
  simpa using this

theorem encodeBase64_spec {b : Buf} {c : Bytes} (h : Rep b c) :
    ∃ b', b.encodeBase64 = .ok (b', !c.isEmpty) ∧ Rep b' (if c.isEmpty then c else b64Enc c) := by
  unfold encodeBase64
  rw [h.dyn, getCstr_view h.view]
  by_cases hc : c = []
  · subst hc; exact ⟨b, by simp, by simpa using h⟩
  · have hl : c.length ≠ 0 := by simpa using hc
    have hne : c.isEmpty = false := by cases c <;> simp_all
    obtain ⟨b1, hb1, hr1, _⟩ := delete_rep h 0 c.length (by omega) hl (by omega)
    simp only [List.take_zero, Nat.zero_add, List.drop_length, List.append_nil] at hr1
    obtain ⟨b2, hb2, hr2⟩ := appendCstr_spec hr1 (some (b64Enc c))
    simp only [appendBytes, Option.map_some, List.nil_append, cstr_b64Enc] at hb2 hr2
    refine ⟨b2, ?_, by simpa [hne] using hr2⟩
    simp only [Bool.false_eq_true, if_false, hl, h.len, hb1, hb2, hne, Bool.not_false]

theorem encodeBase64_static {b : Buf} (hs : b.isStatic = true) : b.encodeBase64 = .ok (b, false) := by
  simp [encodeBase64, hs]

theorem decodeBase64_spec {b : Buf} {c : Bytes} (h : Rep b c) :
    ∃ b', b.decodeBase64 = .ok (b', !(b64Dec (Spec.Seq.noSpaces c)).isEmpty) ∧
      Rep b' (if (b64Dec (Spec.Seq.noSpaces c)).isEmpty then Spec.Seq.noSpaces c else b64Dec (Spec.Seq.noSpaces c)) := by
  unfold decodeBase64
  rw [h.dyn]
  obtain ⟨b1, hb1, hr1⟩ := noSpaces_spec h
  simp only [Bool.false_eq_true, if_false, hb1, getCstr_view hr1.view]
  generalize Spec.Seq.noSpaces c = s at hr1 ⊢
  by_cases hd : b64Dec s = []
  · exact ⟨b1, by simp [hd], by simpa [hd] using hr1⟩
  · have hdl : (b64Dec s).length ≠ 0 := by simpa using hd
    have hde : (b64Dec s).isEmpty = false := by cases hh : b64Dec s <;> simp_all
    have hs : s ≠ [] := by
      intro e; subst e; exact hd (by simp [b64Dec, b64DecQuads])
    have hsl : s.length ≠ 0 := by simpa using hs
    obtain ⟨b2, hb2, hr2, _⟩ := delete_rep hr1 0 s.length (by omega) hsl (by omega)
    simp only [List.take_zero, Nat.zero_add, List.drop_length, List.append_nil] at hr2
    obtain ⟨b3, hb3, hr3⟩ := appendData_spec hr2 (some (b64Dec s))
    simp only [appendBytes, List.nil_append] at hb3 hr3
    refine ⟨b3, ?_, by simpa [hde] using hr3⟩
    simp only [hdl, if_false, hr1.len, hb2, hb3, hde, Bool.not_false]

theorem decodeBase64_static {b : Buf} (hs : b.isStatic = true) : b.decodeBase64 = .ok (b, false) := by
  simp [decodeBase64, hs]

end Buf
end Wbxml.Model
