/-
  C02, tree-builder half: what `treeOfXml` (the model of `wbxml_tree_from_xml` with Expat as a
  parameter) delivers.

  * `BOk`: every node the builder has attached is well named (`nodeOk`), every embedded tree has a
    root, every error code is non-zero — a step invariant, for any event sequence whose element and
    attribute names are non-empty C strings.
  * `WfDoc`: Expat's contract for a document it accepted — prolog, one root element with balanced
    content, epilog. Over such a sequence the builder ends with a root (`run_doc`), unless it
    stopped with an error or asks for an embedded document.
-/
import Wbxml.Model.X2W
import Wbxml.Lemmas.X2WEnc
import Wbxml.Lemmas.Ident
namespace Wbxml.Lemmas.X2W
open Wbxml Wbxml.Model Wbxml.Lemmas.ParserSafe

/-! ### Hypotheses -/

/-- Every language of the main table has non-empty row names. -/
def MainOk (main : List Lang) : Prop := ∀ l ∈ main, langNames l = true

/-- The local part of an element name as the XML callbacks split it (behind the last `|`). -/
def localName (name : Bytes) : Bytes :=
  match lastIndexOf 124 name with
  | some i => name.drop (i + 1)
  | none => name

/-- Expat reports XML names: the local part of an element name and every attribute name is a
    non-empty C string (no leading NUL). -/
def xnameOk (name : Bytes) : Bool := !(cstrOf (localName name)).isEmpty
def xattrsOk (attrs : List (Bytes × Bytes)) : Bool := attrs.all (fun p => !(cstrOf p.1).isEmpty)

def isCharsEv : XEvent → Bool
  | .chars _ => true
  | _ => false

def isPrologEv : XEvent → Bool
  | .xmlDecl _ _ => true
  | .doctype _ _ => true
  | .pi => true
  | _ => false

def isPiEv : XEvent → Bool
  | .pi => true
  | _ => false

/-- Balanced element content: character data, processing instructions, CDATA sections (holding
    character data only) and elements whose end tag carries the name of the start tag. -/
inductive Content : List XEvent → Prop
  | nil : Content []
  | chars (s : Bytes) {rest : List XEvent} : Content rest → Content (.chars s :: rest)
  | pi {rest : List XEvent} : Content rest → Content (.pi :: rest)
  | cdata {inner rest : List XEvent} : inner.all isCharsEv = true → Content rest →
      Content (.startCdata :: (inner ++ .endCdata :: rest))
  | elt (name : Bytes) (attrs : List (Bytes × Bytes)) (i j : Nat) {inner rest : List XEvent} :
      xnameOk name = true → xattrsOk attrs = true → Content inner → Content rest →
      Content (.startElt name attrs i :: (inner ++ .endElt name j :: rest))

/-- The event sequence of a document Expat accepted. -/
def WfDoc (evs : List XEvent) : Prop :=
  ∃ pro name attrs i j inner epi,
    evs = pro ++ .startElt name attrs i :: (inner ++ .endElt name j :: epi) ∧
    pro.all isPrologEv = true ∧ xnameOk name = true ∧ xattrsOk attrs = true ∧ Content inner ∧
    epi.all isPiEv = true

/-- What is assumed of Expat: when it reports success the events form a document. -/
def EnvWf (env : List (Bytes × ExpatRun)) : Prop := ∀ p ∈ env, p.2.ok = true → WfDoc p.2.events

/-- Names in an event sequence are XML names (follows from `WfDoc`). -/
def evNamed : XEvent → Bool
  | .startElt name attrs _ => xnameOk name && xattrsOk attrs
  | _ => true

theorem content_named : ∀ {evs : List XEvent}, Content evs → evs.all evNamed = true := by
  intro evs h
  induction h with
  | nil => rfl
  | chars s _ ih => simpa [evNamed] using ih
  | pi _ ih => simpa [evNamed] using ih
  | @cdata inner rest hin _ ih =>
    simp only [List.all_cons, List.all_append, Bool.and_eq_true, evNamed, true_and]
    refine ⟨?_, ih⟩
    simp only [List.all_eq_true] at hin ⊢
    intro e he
    have := hin e he
    cases e <;> simp_all [isCharsEv, evNamed]
  | elt name attrs i j hn ha _ _ ih1 ih2 =>
    simp only [List.all_cons, List.all_append, Bool.and_eq_true, evNamed, true_and]
    exact ⟨⟨hn, ha⟩, ih1, ih2⟩

theorem wfDoc_named {evs : List XEvent} (h : WfDoc evs) : evs.all evNamed = true := by
  obtain ⟨pro, name, attrs, i, j, inner, epi, rfl, hp, hn, ha, hc, he⟩ := h
  simp only [List.all_cons, List.all_append, Bool.and_eq_true, evNamed, true_and]
  refine ⟨?_, ⟨hn, ha⟩, content_named hc, ?_⟩
  · simp only [List.all_eq_true] at hp ⊢
    intro e h; have := hp e h; cases e <;> simp_all [isPrologEv, evNamed]
  · simp only [List.all_eq_true] at he ⊢
    intro e h; have := he e h; cases e <;> simp_all [isPiEv, evNamed]

/-! ### Well-named nodes: list facts -/

theorem nodesOk_append : ∀ (a b : List Node), nodesOk (a ++ b) = (nodesOk a && nodesOk b)
  | [], b => by simp [nodesOk]
  | n :: a, b => by simp [nodesOk, nodesOk_append a b, Bool.and_assoc]

theorem nodesOk_dropLast : ∀ (l : List Node), nodesOk l = true → nodesOk l.dropLast = true
  | [], _ => rfl
  | [_], _ => rfl
  | a :: b :: r, h => by
    simp only [nodesOk, Bool.and_eq_true] at h
    simp only [List.dropLast_cons_cons, nodesOk, Bool.and_eq_true]
    exact ⟨h.1, nodesOk_dropLast (b :: r) (by simp only [nodesOk, Bool.and_eq_true]; exact h.2)⟩

theorem nodeOk_text (s : Bytes) : nodeOk (.text s) = true := by simp [nodeOk]

theorem addKid_ok (kids : List Node) (n : Node) (hk : nodesOk kids = true) (hn : nodeOk n = true) :
    nodesOk (addKid kids n) = true := by
  unfold addKid
  split
  · rw [nodesOk_append]
    simp [nodesOk_dropLast kids hk, nodesOk, nodeOk_text]
  · rw [nodesOk_append]
    simp [hk, nodesOk, hn]

/-! ### The builder's frames -/

def frameOk (f : XFrame) : Bool :=
  (match f.kind with
   | .elt n a => nameOk n && a.all (fun x => anameOk x.name)
   | .cdata => true) && nodesOk f.kids

theorem frameOk_close (f : XFrame) (h : frameOk f = true) : nodeOk f.close = true := by
  unfold frameOk at h
  unfold XFrame.close
  cases hk : f.kind with
  | elt n a =>
    simp only [hk, Bool.and_eq_true] at h
    simp only [nodeOk, Bool.and_eq_true]
    exact ⟨h.1, h.2⟩
  | cdata =>
    simp only [hk, Bool.true_and] at h
    simp only [nodeOk]
    exact h

theorem frameOk_addKid (f : XFrame) (n : Node) (h : frameOk f = true) (hn : nodeOk n = true) :
    frameOk { f with kids := addKid f.kids n } = true := by
  unfold frameOk at h ⊢
  simp only [Bool.and_eq_true] at h ⊢
  exact ⟨h.1, addKid_ok _ _ h.2 hn⟩

theorem frameOk_content (f : XFrame) (c : Option Bytes) (h : frameOk f = true) :
    frameOk { f with content := c } = true := h

/-- Invariant of the builder: attached nodes are well named, the language is a table entry, error
    codes are not `WBXML_OK`. -/
structure BOk (main : List Lang) (b : XBState) : Prop where
  stack : ∀ f ∈ b.stack, frameOk f = true
  root : ∀ r, b.root = some r → nodeOk r = true
  lang : ∀ l, b.lang = some l → l ∈ main
  err : ∀ e, b.error = some e → e ≠ 0

theorem bOk_init (main : List Lang) : BOk main {} :=
  ⟨(by intro f h; cases h), (by intro r h; cases h), (by intro l h; cases h), (by intro e h; cases h)⟩

theorem BOk.attach {main : List Lang} {b : XBState} (h : BOk main b) (n : Node) (hn : nodeOk n = true) :
    BOk main (b.attach n) := by
  unfold XBState.attach
  split
  · rename_i f rest hs
    refine ⟨?_, h.root, h.lang, h.err⟩
    intro g hg
    simp only [List.mem_cons] at hg
    rcases hg with rfl | hg
    · exact frameOk_addKid f n (h.stack f (by rw [hs]; simp)) hn
    · exact h.stack g (by rw [hs]; simp [hg])
  · split
    · refine ⟨h.stack, ?_, h.lang, h.err⟩
      intro r hr
      simp only [Option.some.injEq] at hr
      subst hr; exact hn
    · refine ⟨h.stack, h.root, h.lang, ?_⟩
      intro e he
      simp only [Option.some.injEq] at he
      subst he; decide

theorem BOk.setErr {main : List Lang} {b : XBState} (h : BOk main b) (e : Nat) (he : e ≠ 0) :
    BOk main { b with error := some e } :=
  ⟨h.stack, h.root, h.lang, by intro e' h'; simp only [Option.some.injEq] at h'; subst h'; exact he⟩

/-! ### Names found in the tables are the names looked up -/

theorem encTagLoop1_name (cur : Nat) (name : Bytes) : ∀ (l : List TagRow) (f : Bool) (r : TagRow),
    encTagLoop1 cur name l f = some r → r.name = name
  | [], _, _, h => by simp [encTagLoop1] at h
  | x :: xs, f, r, h => by
    unfold encTagLoop1 at h
    split at h
    · split at h
      · rename_i hn
        simp only [Option.some.injEq] at h
        subst h
        simpa using hn
      · exact encTagLoop1_name cur name xs true r h
    · split at h
      · cases h
      · exact encTagLoop1_name cur name xs false r h

theorem encTag_name (tags : List TagRow) (cur : Option Nat) (name : Bytes) (r : TagRow)
    (h : encTag tags cur name = some r) : r.name = name := by
  unfold encTag at h
  split at h
  · split at h
    · rename_i r' h1
      simp only [Option.some.injEq] at h
      subst h
      exact encTagLoop1_name _ _ _ _ _ h1
    · have := List.find?_some h
      simp only [Bool.and_eq_true] at this
      simpa using this.2
  · have := List.find?_some h
    simpa using this

theorem encAttrGo_name (name value : Bytes) : ∀ (rows : List AttrRow) (sc : AttrScan),
    (∀ r, sc.found = some r → r.name = name) → ∀ r n, encAttrGo name value rows sc = some (r, n) → r.name = name
  | [], sc, hsc, r, n, h => by
    simp only [encAttrGo, Option.map_eq_some_iff, Prod.mk.injEq] at h
    obtain ⟨r', hr', rfl, _⟩ := h
    exact hsc _ hr'
  | row :: rows, sc, hsc, r, n, h => by
    unfold encAttrGo at h
    split at h
    · rename_i hname
      have hrow : row.name = name := by simpa using hname
      split at h
      · refine encAttrGo_name name value rows _ ?_ r n h
        intro r' hr'
        split at hr'
        · simp only [Option.some.injEq] at hr'; subst hr'; exact hrow
        · exact hsc _ hr'
      · split at h
        · simp only [Option.some.injEq, Prod.mk.injEq] at h
          rw [← h.1]; exact hrow
        · split at h
          · refine encAttrGo_name name value rows _ ?_ r n h
            intro r' hr'
            simp only [Option.some.injEq] at hr'; subst hr'; exact hrow
          · exact encAttrGo_name name value rows sc hsc r n h
    · exact encAttrGo_name name value rows sc hsc r n h

theorem encAttr_name (attrs : List AttrRow) (name value : Bytes) (r : AttrRow) (n : Nat)
    (h : encAttr attrs name value = some (r, n)) : r.name = name :=
  encAttrGo_name name value attrs {} (by intro r h; cases h) r n h

theorem cstrOf_ne_nil_of (s : Bytes) (h : (cstrOf s).isEmpty = false) : s ≠ [] := by
  intro e; subst e; simp [cstrOf] at h

/-- The body of `xmlElt` once the name is split. -/
def xmlEltCore (lang : Lang) (nsName eltName : Bytes) (attrs : List (Bytes × Bytes)) : XFrame × Nat :=
  let page := match lang.ns with
    | some ns => pageOfNs ns nsName
    | none => 0
  let (tag, page) := match lang.tags with
    | some tags => (match encTag tags (some page) eltName with
      | some r => (Name.token r, r.page)
      | none => (Name.literal eltName, page))
    | none => (Name.literal eltName, page)
  let as := attrs.map fun (n, v) =>
    let n := if xmlNsUri.isPrefixOf n then b!"xml:" ++ n.drop xmlNsUri.length else n
    let an := match lang.attrs with
      | some t => (match encAttr t n v with
        | some (r, _) => AName.token r
        | none => AName.literal n)
      | none => AName.literal n
    ({ name := an, value := v } : Attr)
  ({ kind := .elt tag as, kids := [] }, page)

theorem xmlElt_eq (lang : Lang) (name : Bytes) (attrs : List (Bytes × Bytes)) :
    ∃ nsName, xmlElt lang name attrs = xmlEltCore lang nsName (localName name) attrs := by
  unfold xmlElt localName
  cases lastIndexOf 124 name with
  | none => exact ⟨[], rfl⟩
  | some i => exact ⟨name.take i, rfl⟩

theorem ne_nil_isEmpty {l : Bytes} (h : l ≠ []) : l.isEmpty = false := by
  cases l with
  | nil => exact absurd rfl h
  | cons _ _ => rfl

theorem xmlEltCore_ok (lang : Lang) (nsName eltName : Bytes) (attrs : List (Bytes × Bytes))
    (hloc : (cstrOf eltName).isEmpty = false) (ha : xattrsOk attrs = true) :
    frameOk (xmlEltCore lang nsName eltName attrs).1 = true := by
  unfold xmlEltCore
  simp only [frameOk, nodesOk, Bool.and_true, Bool.and_eq_true, List.all_map, List.all_eq_true]
  constructor
  · cases ht : lang.tags with
    | none => simp only [nameOk, hloc, Bool.not_false]
    | some tags =>
      simp only
      split
      · rename_i r he
        simp only [nameOk]
        rw [encTag_name _ _ _ _ he, ne_nil_isEmpty (cstrOf_ne_nil_of _ hloc)]
        rfl
      · simp only [nameOk, hloc, Bool.not_false]
  · intro p hp
    simp only [xattrsOk, List.all_eq_true] at ha
    have hp1 : (cstrOf p.1).isEmpty = false := by simpa using ha p hp
    obtain ⟨n, v⟩ := p
    simp only [Function.comp]
    have hn' : ∀ n', n' = (if xmlNsUri.isPrefixOf n = true then b!"xml:" ++ n.drop xmlNsUri.length else n) →
        (cstrOf n').isEmpty = false := by
      intro n' e
      subst e
      split
      · simp [cstrOf, cstrLen]
      · exact hp1
    have := hn' _ rfl
    cases hat : lang.attrs with
    | none => simp only [anameOk, this, Bool.not_false]
    | some t =>
      simp only
      split
      · rename_i r k he
        simp only [anameOk]
        rw [encAttr_name _ _ _ _ _ he, ne_nil_isEmpty (cstrOf_ne_nil_of _ this)]
        rfl
      · simp only [anameOk, this, Bool.not_false]

/-- `wbxml_tree_add_xml_elt_with_attrs` builds a well-named frame from an XML name. -/
theorem xmlElt_ok (lang : Lang) (name : Bytes) (attrs : List (Bytes × Bytes))
    (hn : xnameOk name = true) (ha : xattrsOk attrs = true) : frameOk (xmlElt lang name attrs).1 = true := by
  obtain ⟨nsName, e⟩ := xmlElt_eq lang name attrs
  rw [e]
  exact xmlEltCore_ok lang nsName _ attrs (by simpa [xnameOk] using hn) ha

/-! ### The end-element callback in two stages -/

/-- First stage of `wbxml_tree_clb_xml_end_element`: a binary-flagged element's cached base64 text is
    decoded and attached. -/
def decodeTop (b : XBState) : XBState :=
  match b.stack with
  | f :: rest =>
    (match f.kind, f.content with
     | .elt n _, some c =>
       if isBinaryName n then
         let txt := base64NoSpaces c
         let dec := Codec.b64Decode txt
         (match dec with
          | none => { b with error := some 19, stack := { f with content := none } :: rest }
          | some d => ({ b with stack := { f with content := none } :: rest } : XBState).attach (.text d))
       else b
     | _, _ => b)
  | [] => b

/-- Second stage: skipping bookkeeping, the embedded document, or leaving the element. -/
def endTail (main : List Lang) (input : Bytes) (sub : Bytes → Option (Except Nat Tree))
    (b : XBState) (name : Bytes) (idx : Nat) : XBState :=
  if b.error.isSome then b
  else if b.skipLvl > 1 then { b with skipLvl := b.skipLvl - 1 }
  else if b.skipLvl == 1 then
    if name == devinfName || name == mgmtName then
      let isMgmt := name == mgmtName
      match b.lang with
      | none => { b with error := some 101 }
      | some outer =>
        if isMgmt && outer.id != 2201 then { b with error := some 101 }
        else
          let subId : Option Nat :=
            if outer.id == 2001 then some 2002 else if outer.id == 2101 then some 2102
            else if outer.id == 2201 then (if isMgmt then some 2204 else some 2202) else none
          match subId with
          | none => { b with error := some 101 }
          | some sid =>
            match main.find? (fun (l : Lang) => l.id == sid) with
            | none => { b with error := some 101 }
            | some sl =>
              let doc := embeddedDoc input b.skipStart idx isMgmt sl
              match sub doc with
              | none => { b with need := some doc }
              | some (.error e) => { b with error := some e }
              | some (.ok t) =>
                let b := ({ b with skipLvl := 0 } : XBState).attach (.tree t.lang t.origCharset t.root)
                b
    else
      b
  else xPop b

theorem step_endElt (main : List Lang) (input : Bytes) (sub : Bytes → Option (Except Nat Tree))
    (b : XBState) (name : Bytes) (idx : Nat) (h : b.need = none) :
    xbuildStep main input sub b (.endElt name idx) = endTail main input sub (decodeTop b) name idx := by
  unfold xbuildStep
  have hn : ¬ (b.need.isSome = true) := by rw [h]; exact Bool.false_ne_true
  rw [if_neg hn]
  rfl

theorem step_need (main : List Lang) (input : Bytes) (sub : Bytes → Option (Except Nat Tree))
    (b : XBState) (e : XEvent) (h : b.need.isSome = true) : xbuildStep main input sub b e = b := by
  simp [xbuildStep, h]

/-! ### `BOk` is a step invariant -/

theorem BOk.congr {main : List Lang} {b b' : XBState} (h : BOk main b) (hs : b'.stack = b.stack)
    (hr : b'.root = b.root) (hl : b'.lang = b.lang) (he : b'.error = b.error) : BOk main b' :=
  ⟨hs ▸ h.stack, hr ▸ h.root, hl ▸ h.lang, he ▸ h.err⟩

theorem BOk.setStack {main : List Lang} {b : XBState} (h : BOk main b) (S : List XFrame)
    (hS : ∀ f ∈ S, frameOk f = true) : BOk main { b with stack := S } :=
  ⟨hS, h.root, h.lang, h.err⟩

/-- What the builder may assume of the trees of embedded documents. -/
def SubOk (sub : Bytes → Option (Except Nat Tree)) : Prop :=
  ∀ doc, (∀ t, sub doc = some (.ok t) → treeOk t = true) ∧ (∀ e, sub doc = some (.error e) → e ≠ 0)

theorem decodeTop_ok {main : List Lang} {b : XBState} (h : BOk main b) : BOk main (decodeTop b) := by
  unfold decodeTop
  split
  · rename_i f rest hs
    have hf : frameOk f = true := h.stack f (by rw [hs]; simp)
    have hrest : ∀ g ∈ rest, frameOk g = true := fun g hg => h.stack g (by rw [hs]; simp [hg])
    have hS : ∀ g ∈ ({ f with content := none } :: rest), frameOk g = true := by
      intro g hg
      simp only [List.mem_cons] at hg
      rcases hg with rfl | hg
      · exact hf
      · exact hrest g hg
    split
    · split
      · simp only
        split
        · exact (h.setStack _ hS).setErr 19 (by decide)
        · exact (h.setStack _ hS).attach _ (nodeOk_text _)
      · exact h
    · exact h
  · exact h

theorem xPop_ok {main : List Lang} {b : XBState} (h : BOk main b) : BOk main (xPop b) := by
  unfold xPop
  cases hs : b.stack with
  | nil => exact (h.setErr E.internal (by decide)).setStack [] (by intro f hf; cases hf)
  | cons f rest =>
    have hf : frameOk f = true := h.stack f (by rw [hs]; simp)
    have hrest : ∀ g ∈ rest, frameOk g = true := fun g hg => h.stack g (by rw [hs]; simp [hg])
    simp only
    cases hk : f.kind with
    | elt n a => exact (h.setStack rest hrest).attach _ (frameOk_close f hf)
    | cdata =>
      cases rest with
      | nil =>
        exact (h.setErr E.internal (by decide)).setStack [f] (by intro g hg; simp only [List.mem_singleton] at hg; subst hg; exact hf)
      | cons g rest' =>
        have hg : frameOk g = true := hrest g (by simp)
        have hrest' : ∀ x ∈ rest', frameOk x = true := fun x hx => hrest x (by simp [hx])
        simp only
        exact (h.setStack rest' hrest').attach _ (frameOk_close _ (frameOk_addKid g _ hg (frameOk_close f hf)))

theorem endTail_ok {main : List Lang} (input : Bytes) {sub : Bytes → Option (Except Nat Tree)} (hsub : SubOk sub)
    {b : XBState} (h : BOk main b) (name : Bytes) (idx : Nat) : BOk main (endTail main input sub b name idx) := by
  unfold endTail
  split
  · exact h
  · split
    · exact h.congr rfl rfl rfl rfl
    · split
      · split
        · simp only
          split
          · exact h.setErr _ (by decide)
          · split
            · exact h.setErr _ (by decide)
            · split
              · exact h.setErr _ (by decide)
              · split
                · exact h.setErr _ (by decide)
                · split
                  · exact h.congr rfl rfl rfl rfl
                  · rename_i e he
                    exact h.setErr e ((hsub _).2 e he)
                  · rename_i t ht
                    have hb0 : BOk main ({ b with skipLvl := 0 } : XBState) := h.congr rfl rfl rfl rfl
                    exact hb0.attach _ ((hsub _).1 t ht)
        · exact h
      · exact xPop_ok h

theorem step_ok {main : List Lang} (input : Bytes) {sub : Bytes → Option (Except Nat Tree)} (hsub : SubOk sub)
    {b : XBState} (h : BOk main b) (e : XEvent) (he : evNamed e = true) :
    BOk main (xbuildStep main input sub b e) := by
  by_cases hneed : b.need.isSome = true
  · rw [step_need _ _ _ _ _ hneed]; exact h
  have hnone : b.need = none := by cases hb : b.need with | none => rfl | some d => simp [hb] at hneed
  cases e with
  | endElt name idx =>
    rw [step_endElt _ _ _ _ _ _ hnone]
    exact endTail_ok input hsub (decodeTop_ok h) name idx
  | xmlDecl v enc =>
    unfold xbuildStep
    rw [if_neg hneed]
    simp only
    split
    · split
      · exact h.congr rfl rfl rfl rfl
      · exact h
    · exact h
  | doctype sysid pubid =>
    unfold xbuildStep
    rw [if_neg hneed]
    simp only
    split
    · rename_i l hl
      exact ⟨h.stack, h.root, (by intro l' e; simp only [Option.some.injEq] at e; subst e; exact Wbxml.Lemmas.Ident.searchTable_mem _ _ _ _ _ hl), h.err⟩
    · exact h
  | pi =>
    unfold xbuildStep
    rw [if_neg hneed]
    exact h
  | startCdata =>
    unfold xbuildStep
    rw [if_neg hneed]
    simp only
    split
    · exact h
    · refine h.setStack _ ?_
      intro f hf
      simp only [List.mem_cons] at hf
      rcases hf with rfl | hf
      · rfl
      · exact h.stack f hf
  | endCdata =>
    unfold xbuildStep
    rw [if_neg hneed]
    simp only
    split
    · exact h
    · split
      · exact h.setErr _ (by decide)
      · rename_i f rest hs
        have hf : frameOk f = true := h.stack f (by rw [hs]; simp)
        have hrest : ∀ g ∈ rest, frameOk g = true := fun g hg => h.stack g (by rw [hs]; simp [hg])
        exact (h.setStack rest hrest).attach _ (frameOk_close f hf)
  | chars s =>
    unfold xbuildStep
    rw [if_neg hneed]
    simp (config := { zeta := false }) only []
    split
    · exact h
    · extract_lets ty s' b1
      have hb1 : BOk main b1 := by
        unfold b1
        split
        · split
          · extract_lets fic
            split
            · exact h
            · split
              · exact h
              · refine h.setStack _ ?_
                intro f hf
                simp only [List.mem_cons] at hf
                rcases hf with rfl | hf
                · rfl
                · exact h.stack f hf
          · exact h
        · exact h
      split
      · rename_i f rest hs
        have hf : frameOk f = true := hb1.stack f (by rw [hs]; simp)
        have hrest : ∀ g ∈ rest, frameOk g = true := fun g hg => hb1.stack g (by rw [hs]; simp [hg])
        split
        · split
          · refine hb1.setStack _ ?_
            intro g hg
            simp only [List.mem_cons] at hg
            rcases hg with rfl | hg
            · exact hf
            · exact hrest g hg
          · exact hb1.attach _ (nodeOk_text _)
        · exact hb1.attach _ (nodeOk_text _)
      · exact hb1.setErr E.internal (by decide)
  | startElt name attrs idx =>
    simp only [evNamed, Bool.and_eq_true] at he
    unfold xbuildStep
    rw [if_neg hneed]
    simp (config := { zeta := false }) only []
    split
    · exact h
    · split
      · exact h.congr rfl rfl rfl rfl
      · extract_lets isRoot b1
        have hb1 : BOk main b1 := by
          unfold b1
          split
          · split
            · rename_i l hl
              exact ⟨h.stack, h.root, (by intro l' e; simp only [Option.some.injEq] at e; subst e; exact Wbxml.Lemmas.Ident.searchTable_mem _ _ _ _ _ hl), h.err⟩
            · exact h.setErr 101 (by decide)
          · exact h
        split
        · exact hb1
        · split
          · exact hb1.congr rfl rfl rfl rfl
          · split
            · exact hb1.setErr 15 (by decide)
            · rename_i lang _
              split
              · exact hb1.setErr 15 (by decide)
              · have hfr := xmlElt_ok lang name attrs he.1 he.2
                refine (hb1.setStack ((xmlElt lang name attrs).1 :: b1.stack) ?_).congr rfl rfl rfl rfl
                intro g hg
                simp only [List.mem_cons] at hg
                rcases hg with rfl | hg
                · exact hfr
                · exact hb1.stack g hg

theorem fold_ok {main : List Lang} (input : Bytes) {sub : Bytes → Option (Except Nat Tree)} (hsub : SubOk sub) :
    ∀ (evs : List XEvent) (b : XBState), BOk main b → evs.all evNamed = true →
      BOk main (evs.foldl (xbuildStep main input sub) b)
  | [], b, h, _ => h
  | e :: evs, b, h, he => by
    simp only [List.all_cons, Bool.and_eq_true] at he
    exact fold_ok input hsub evs _ (step_ok input hsub h e he.1) he.2

/-! ### Failure is sticky -/

/-- The builder has stopped: it asks for an embedded document, or holds an error. -/
def Failed (b : XBState) : Prop := b.need.isSome = true ∨ b.error.isSome = true

theorem attach_error (b : XBState) (n : Node) (h : b.error.isSome = true) : (b.attach n).error.isSome = true := by
  unfold XBState.attach
  split
  · exact h
  · split
    · exact h
    · rfl

theorem decodeTop_error (b : XBState) (h : b.error.isSome = true) : (decodeTop b).error.isSome = true := by
  unfold decodeTop
  split
  · split
    · split
      · simp only
        split
        · rfl
        · exact attach_error _ _ h
      · exact h
    · exact h
  · exact h

theorem decodeTop_need (b : XBState) : (decodeTop b).need = b.need := by
  unfold decodeTop
  split
  · split
    · split
      · simp only
        split
        · rfl
        · unfold XBState.attach; split
          · rfl
          · split <;> rfl
      · rfl
    · rfl
  · rfl

theorem step_failed (main : List Lang) (input : Bytes) (sub : Bytes → Option (Except Nat Tree))
    (b : XBState) (e : XEvent) (h : Failed b) : Failed (xbuildStep main input sub b e) := by
  by_cases hneed : b.need.isSome = true
  · rw [step_need _ _ _ _ _ hneed]; exact h
  have hnone : b.need = none := by cases hb : b.need with | none => rfl | some d => simp [hb] at hneed
  have herr : b.error.isSome = true := by rcases h with h | h; exact absurd h hneed; exact h
  right
  cases e with
  | endElt name idx =>
    rw [step_endElt _ _ _ _ _ _ hnone]
    unfold endTail
    rw [if_pos (decodeTop_error b herr)]
    exact decodeTop_error b herr
  | xmlDecl v enc =>
    unfold xbuildStep
    rw [if_neg hneed]
    simp only
    split
    · split <;> exact herr
    · exact herr
  | doctype sysid pubid =>
    unfold xbuildStep
    rw [if_neg hneed]
    simp only
    split <;> exact herr
  | pi => unfold xbuildStep; rw [if_neg hneed]; exact herr
  | startCdata => unfold xbuildStep; rw [if_neg hneed]; simp [herr]
  | endCdata => unfold xbuildStep; rw [if_neg hneed]; simp [herr]
  | chars s => unfold xbuildStep; rw [if_neg hneed]; simp [herr]
  | startElt name attrs idx => unfold xbuildStep; rw [if_neg hneed]; simp [herr]

theorem fold_failed (main : List Lang) (input : Bytes) (sub : Bytes → Option (Except Nat Tree)) :
    ∀ (evs : List XEvent) (b : XBState), Failed b → Failed (evs.foldl (xbuildStep main input sub) b)
  | [], _, h => h
  | e :: evs, b, h => fold_failed main input sub evs _ (step_failed main input sub b e h)

end Wbxml.Lemmas.X2W
