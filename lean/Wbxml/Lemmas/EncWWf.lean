/-
  WBXML encoder proofs: well-formedness (`Spec.wf*`) of the pieces the value encoder writes, under

    `langOk`   row-range facts of the language's tables (decidable; holds for every entry of the
               regenerated main table, `Props/C06.lean: main_langOk`),
    `Compat`   the reader's context agrees with the encoder: same language, a character set in
               which strings can be delivered, every string-table entry inside the table octets.
-/
import Wbxml.Lemmas.EncWValue
namespace Wbxml.Lemmas.EncW
open Wbxml Wbxml.Model Wbxml.Spec Wbxml.Lemmas.ParseSer

/-- `%Datetime` attribute start tokens (SI `created` / `si-expires`, EMN `timestamp`). -/
def dtRow (langId : Nat) (r : AttrRow) : Bool :=
  (langId == 1301 && r.page == 0 && (r.token == 0x0a || r.token == 0x10)) ||
  (langId == 1701 && r.page == 0 && r.token == 0x05)

/-- Table facts the encoder relies on: tokens inside their ranges, code pages are octets, extension
    tables only for Wireless Village, `%Datetime` start tokens carry no value prefix. -/
def langOk (l : Lang) : Bool :=
  (match l.tags with | some t => t.all tagRowRange | none => true) &&
  (match l.attrs with | some t => t.all attrRowRange && t.all (fun r => !dtRow l.id r || (r.value.getD []).isEmpty)
                      | none => true) &&
  (match l.values with | some t => t.all valRowRange | none => true) &&
  (match l.exts with | some _ => isWv l.id | none => true) &&
  (decide (0 < l.pub.wbxmlId) && decide (l.pub.wbxmlId < 4294967296))

theorem langOk_pub {l : Lang} (h : langOk l = true) : 0 < l.pub.wbxmlId ∧ l.pub.wbxmlId < 4294967296 := by
  simp only [langOk, Bool.and_eq_true, decide_eq_true_eq] at h
  exact h.2

theorem langOk_tags {l : Lang} (h : langOk l = true) {t} (ht : l.tags = some t) {r} (hr : r ∈ t) :
    tagRowRange r = true := by
  simp only [langOk, ht, Bool.and_eq_true, List.all_eq_true] at h
  exact h.1.1.1.1 r hr

theorem langOk_attrs {l : Lang} (h : langOk l = true) {t} (ht : l.attrs = some t) {r} (hr : r ∈ t) :
    attrRowRange r = true ∧ (dtRow l.id r = true → r.value.getD [] = []) := by
  simp only [langOk, ht, Bool.and_eq_true, List.all_eq_true] at h
  refine ⟨h.1.1.1.2.1 r hr, ?_⟩
  intro hd
  have := h.1.1.1.2.2 r hr
  simp only [hd, Bool.not_true, Bool.false_or, List.isEmpty_iff] at this
  exact this

theorem langOk_values {l : Lang} (h : langOk l = true) {t} (ht : l.values = some t) {r} (hr : r ∈ t) :
    valRowRange r = true := by
  simp only [langOk, ht, Bool.and_eq_true, List.all_eq_true] at h
  exact h.1.1.2 r hr

theorem langOk_exts {l : Lang} (h : langOk l = true) (he : l.exts.isSome = true) : isWv l.id = true := by
  simp only [langOk, Bool.and_eq_true] at h
  cases hx : l.exts with
  | none => simp [hx] at he
  | some x => simpa [hx] using h.1.2

theorem isWv_not_isWml (id : Nat) (h : isWv id = true) : isWml id = false := by
  simp only [isWv, Bool.or_eq_true, beq_iff_eq] at h
  rcases h with rfl | rfl <;> rfl

/-- The reader's context as far as the body needs it. -/
structure Compat (c : WCfg) (tbl : List StrEntry) (ctx : Ctx) : Prop where
  lang : ctx.lang = c.lang
  cs : csOk ctx = true
  offs : ∀ e ∈ tbl, e.offset < ctx.tbl.length

theorem Compat.mono {c : WCfg} {tbl tbl' : List StrEntry} {ctx : Ctx} (h : Compat c tbl' ctx) (hp : tbl <+: tbl') :
    Compat c tbl ctx := ⟨h.lang, h.cs, fun e he => h.offs e (hp.subset he)⟩

/-! ### Opaque data

  `Doc.WF` asks of every OPAQUE token that the language's typed-content rule be defined on it. For
  the languages below there is no such rule (content opaque = the octets, no typed attribute
  values), so any opaque shorter than 2^32 octets is well-formed; for the others (Wireless Village,
  DRMREL, SyncML, SI, EMN, OTA) the proofs ask for outputs without OPAQUE. -/

/-- Languages without typed content and without typed attribute values. -/
def untypedLang (id : Nat) : Bool :=
  !isWv id && !(id == 1801) && !isSyncml id && !(id == 1301) && !(id == 1701) && !(id == 1901)

/-- Languages without typed attribute values (`%Datetime` of SI / EMN, OTA opaque values). -/
def noTypedAttr (id : Nat) : Bool := !(id == 1301) && !(id == 1701) && !(id == 1901)

theorem untyped_noTypedAttr (id : Nat) (h : untypedLang id = true) : noTypedAttr id = true := by
  simp only [untypedLang, noTypedAttr, Bool.and_eq_true] at h ⊢
  exact ⟨⟨h.1.1.2, h.1.2⟩, h.2⟩

theorem noTypedAttr_dt (id : Nat) (h : noTypedAttr id = true) (r : AttrRow) : dtRow id r = false := by
  simp only [noTypedAttr, Bool.and_eq_true, Bool.not_eq_true'] at h
  simp [dtRow, h.1.1, h.1.2]

theorem untyped_content (id : Nat) (h : untypedLang id = true) (own : Option TagRow) (d : Bytes) :
    decodeOpaqueContent id own d = .ok d := by
  simp only [untypedLang, Bool.and_eq_true, Bool.not_eq_true', beq_eq_false_iff_ne, ne_eq] at h
  unfold decodeOpaqueContent
  simp [h.1.1.1.1.1, h.1.1.1.1.2, h.1.1.1.2]

/-- The condition under which the opaques `ds` of an output are known to be well-formed. -/
def OpqCond (c : WCfg) (ds : List Bytes) : Prop :=
  ds = [] ∨ (untypedLang c.lang.id = true ∧ ∀ d ∈ ds, d.length < 4294967296)

theorem OpqCond.nil (c : WCfg) : OpqCond c [] := Or.inl rfl

theorem OpqCond.left {c : WCfg} {a b : List Bytes} (h : OpqCond c (a ++ b)) : OpqCond c a := by
  rcases h with h | ⟨hu, hs⟩
  · exact Or.inl (List.append_eq_nil_iff.mp h).1
  · exact Or.inr ⟨hu, fun d hd => hs d (List.mem_append_left _ hd)⟩

theorem OpqCond.right {c : WCfg} {a b : List Bytes} (h : OpqCond c (a ++ b)) : OpqCond c b := by
  rcases h with h | ⟨hu, hs⟩
  · exact Or.inl (List.append_eq_nil_iff.mp h).2
  · exact Or.inr ⟨hu, fun d hd => hs d (List.mem_append_right _ hd)⟩

/-! ### Content leaves -/

theorem leaf_wf (c : WCfg) (tbl) (ctx : Ctx) (hc : Compat c tbl ctx) (hl : langOk c.lang = true)
    (own slot) (pg : Pages) (it : Item) (h : Leaf c tbl it) (hno : OpqCond c (opqsItem it)) :
    wfItem ctx own slot pg it = true := by
  cases h with
  | inl s hs => rw [wfItem_str]; simp [wfStr, hc.cs, hs]
  | ref off ho =>
    obtain ⟨e, he, rfl⟩ := ho
    rw [wfItem_str]; simp [wfStr, hc.cs, hc.offs e he]
  | ext v h1 h2 =>
    rw [wfItem_ext]
    have hwv : isWv ctx.lang.id = true := by rw [hc.lang]; exact langOk_exts hl h1
    have hx : ctx.lang.exts.isSome = true := by rw [hc.lang]; exact h1
    simp only [wfSw, wfExt, isWv_not_isWml _ hwv, hwv, hx, Bool.true_and, Bool.false_eq_true, ↓reduceIte,
      Bool.and_eq_true, decide_eq_true_eq, beq_self_eq_true]
    omega
  | opq d =>
    rw [opqsItem_opaque] at hno
    rcases hno with hno | ⟨hu, hs⟩
    · cases hno
    · rw [wfItem_opaque]
      have hu' : untypedLang ctx.lang.id = true := by rw [hc.lang]; exact hu
      simp [opaqueText, untyped_content _ hu', hs d (List.mem_singleton.mpr rfl)]

theorem leaves_wf (c : WCfg) (tbl) (ctx : Ctx) (hc : Compat c tbl ctx) (hl : langOk c.lang = true)
    (own slot) (pg : Pages) (items : List Item) (h : ∀ it ∈ items, Leaf c tbl it) (hno : OpqCond c (opqsItems items)) :
    wfItems ctx own slot pg items = true := by
  induction items with
  | nil => rw [wfItems]
  | cons it rest ih =>
    rw [opqsItems_cons] at hno
    have hit := h it List.mem_cons_self
    rw [wfItems_cons, leaf_wf c tbl ctx hc hl own slot pg it hit hno.left, Bool.true_and,
      leaf_page c tbl ctx own pg it hit]
    have : slotAfter slot it = slot := by cases hit <;> rfl
    rw [this]
    exact ih (fun x hx => h x (List.mem_cons_of_mem _ hx)) hno.right

/-! ### Attribute value pieces -/

theorem valRow_isSome (ctx : Ctx) (vals : List ValRow) (hv : ctx.lang.values = some vals) (r : ValRow) (hr : r ∈ vals)
    (hp : r.page < 256) : (valRow ctx (r.page % 256) r.token).isSome = true := by
  simp only [valRow, hv]
  rw [List.find?_isSome]
  exact ⟨r, hr, by simp [Nat.mod_eq_of_lt hp]⟩

theorem valTok_range (r : ValRow) (h : valRowRange r = true) : isAttrValueTok r.token = true ∧ r.page < 256 := by
  simp only [valRowRange, Bool.and_eq_true, decide_eq_true_eq, Bool.not_eq_true', isGlobal, globalTokens] at h
  obtain ⟨⟨⟨h1, h2⟩, h3⟩, h4⟩ := h
  refine ⟨?_, h3⟩
  simp only [isAttrValueTok, Bool.or_eq_true, Bool.and_eq_true, decide_eq_true_eq]
  have h5 : r.token ≠ 0xC0 ∧ r.token ≠ 0xC1 ∧ r.token ≠ 0xC2 ∧ r.token ≠ 0xC3 ∧ r.token ≠ 0xC4 := by
    refine ⟨?_, ?_, ?_, ?_, ?_⟩ <;> (intro e; rw [e] at h4; simp at h4)
  omega

theorem avalsOf_wf (c : WCfg) (tbl) (ctx : Ctx) (hc : Compat c tbl ctx) (hl : langOk c.lang = true)
    (l : List VElt) (h : ∀ e ∈ l, VOk c tbl e) (hne : ∀ e ∈ l, notExt e) (ap : Nat) :
    wfAVals ctx ap (avalsOf ap l).1 = true := by
  induction l generalizing ap with
  | nil => rfl
  | cons e es ih =>
    rw [avalsOf]
    simp only
    rw [wfAVals_append]
    have ih' := ih (fun x hx => h x (List.mem_cons_of_mem _ hx)) (fun x hx => hne x (List.mem_cons_of_mem _ hx))
    have hpage : (avalsText ctx ap (avalsOfVElt ap e).1).2 = (avalsOfVElt ap e).2 := by
      have := avalsOf_page ctx [e] ap
      simpa [avalsOf] using this
    rw [hpage, ih', Bool.and_true]
    have he := h e List.mem_cons_self
    cases e with
    | str s =>
      simp only [avalsOfVElt]
      split
      · simp only [wfAVals, wfAVal, wfStr, hc.cs, Bool.true_and, Bool.and_true]; exact he
      · rfl
    | ext r => exact absurd (hne _ List.mem_cons_self) (by simp [notExt])
    | ref o =>
      obtain ⟨x, hx, rfl⟩ := he
      simp [avalsOfVElt, wfAVals, wfAVal, wfStr, hc.cs, hc.offs x hx]
    | tok r =>
      obtain ⟨vals, hv, hr⟩ := he
      have hrange := valTok_range r (langOk_values hl hv hr)
      have hv' : ctx.lang.values = some vals := by rw [hc.lang]; exact hv
      simp only [avalsOfVElt, wfAVals, wfAVal, wfSw_swFor, swPage_swFor, hrange.1,
        valRow_isSome ctx vals hv' r hr hrange.2, Bool.and_self]

end Wbxml.Lemmas.EncW
