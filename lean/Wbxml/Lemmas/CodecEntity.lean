/- Lemmas about the entity → UTF-8 model (`Model/Codec/Entity.lean`). -/
import Wbxml.Model.Codec.Entity
import Wbxml.Spec.Utf8
import Wbxml.Lemmas.CodecBits
namespace Wbxml.Lemmas.Codec
open Wbxml Wbxml.Model.Codec Wbxml.Spec

theorem x80_or64 (x : Nat) : 0x80 ||| x % 64 = 0x80 + x % 64 :=
  or_mul_pow 2 (x % 64) 6 (Nat.mod_lt _ (by decide))
theorem xC0_or (y : Nat) (h : y < 32) : 0xC0 ||| y = 0xC0 + y := or_mul_pow 6 y 5 h
theorem xE0_or (y : Nat) (h : y < 16) : 0xE0 ||| y = 0xE0 + y := or_mul_pow 14 y 4 h
theorem xF0_or (y : Nat) (h : y < 8) : 0xF0 ||| y = 0xF0 + y := or_mul_pow 30 y 3 h
theorem xF8_or (y : Nat) (h : y < 4) : 0xF8 ||| y = 0xF8 + y := or_mul_pow 62 y 2 h
theorem xFC_or (y : Nat) (h : y < 2) : 0xFC ||| y = 0xFC + y := or_mul_pow 126 y 1 h

theorem cstr_cons_ne (b : UInt8) (t : Bytes) (h : b ≠ 0) : cstr (b :: t) = b :: cstr t := by
  simp [cstr, h]
theorem cstr_zero (t : Bytes) : cstr (0 :: t) = [] := by simp [cstr]

/-- `strlen` of an array of non-zero bytes followed by the terminator returns all of them. -/
theorem cstr_all_ne (l : Bytes) (h : ∀ b ∈ l, b ≠ 0) : cstr (l ++ [0]) = l := by
  induction l with
  | nil => simp [cstr]
  | cons a t ih =>
    have ha : a ≠ 0 := h a (by simp)
    rw [List.cons_append, cstr_cons_ne _ _ ha, ih (fun b hb => h b (by simp [hb]))]

/-- lead octet `m + y` and continuation octets, as the loop builds them -/
abbrev ob (n : Nat) : UInt8 := UInt8.ofNat n

theorem loop_2 (c : Nat) (h1 : 0x80 ≤ c) (h2 : c < 0x800) :
    entityLoop 5 c [] = .ok [ob (0xC0 + c / 64), ob (0x80 + c % 64)] := by
  have l5 : c ≥ 0x40 / 2 ^ (5 - 5) := by simp; omega
  have l4 : ¬ (c / 64 ≥ 0x40 / 2 ^ (5 - 4)) := by simp; omega
  simp only [entityLoop, l5, l4, ↓reduceIte, entityMasks, List.getElem?_cons_succ, List.getElem?_cons_zero, x80_or64]
  rw [xC0_or _ (by omega)]

theorem loop_3 (c : Nat) (h1 : 0x800 ≤ c) (h2 : c < 0x10000) :
    entityLoop 5 c [] = .ok [ob (0xE0 + c / 64 / 64), ob (0x80 + c / 64 % 64), ob (0x80 + c % 64)] := by
  have l5 : c ≥ 0x40 / 2 ^ (5 - 5) := by simp; omega
  have l4 : c / 64 ≥ 0x40 / 2 ^ (5 - 4) := by simp; omega
  have l3 : ¬ (c / 64 / 64 ≥ 0x40 / 2 ^ (5 - 3)) := by simp; omega
  simp only [entityLoop, l5, l4, l3, ↓reduceIte, entityMasks, List.getElem?_cons_succ, List.getElem?_cons_zero, x80_or64]
  rw [xE0_or _ (by omega)]

theorem loop_4 (c : Nat) (h1 : 0x10000 ≤ c) (h2 : c < 0x200000) :
    entityLoop 5 c [] = .ok [ob (0xF0 + c / 64 / 64 / 64), ob (0x80 + c / 64 / 64 % 64),
      ob (0x80 + c / 64 % 64), ob (0x80 + c % 64)] := by
  have l5 : c ≥ 0x40 / 2 ^ (5 - 5) := by simp; omega
  have l4 : c / 64 ≥ 0x40 / 2 ^ (5 - 4) := by simp; omega
  have l3 : c / 64 / 64 ≥ 0x40 / 2 ^ (5 - 3) := by simp; omega
  have l2 : ¬ (c / 64 / 64 / 64 ≥ 0x40 / 2 ^ (5 - 2)) := by simp; omega
  simp only [entityLoop, l5, l4, l3, l2, ↓reduceIte, entityMasks, List.getElem?_cons_succ, List.getElem?_cons_zero, x80_or64]
  rw [xF0_or _ (by omega)]

theorem loop_5 (c : Nat) (h1 : 0x200000 ≤ c) (h2 : c < 0x4000000) :
    entityLoop 5 c [] = .ok [ob (0xF8 + c / 64 / 64 / 64 / 64), ob (0x80 + c / 64 / 64 / 64 % 64),
      ob (0x80 + c / 64 / 64 % 64), ob (0x80 + c / 64 % 64), ob (0x80 + c % 64)] := by
  have l5 : c ≥ 0x40 / 2 ^ (5 - 5) := by simp; omega
  have l4 : c / 64 ≥ 0x40 / 2 ^ (5 - 4) := by simp; omega
  have l3 : c / 64 / 64 ≥ 0x40 / 2 ^ (5 - 3) := by simp; omega
  have l2 : c / 64 / 64 / 64 ≥ 0x40 / 2 ^ (5 - 2) := by simp; omega
  have l1 : ¬ (c / 64 / 64 / 64 / 64 ≥ 0x40 / 2 ^ (5 - 1)) := by simp; omega
  simp only [entityLoop, l5, l4, l3, l2, l1, ↓reduceIte, entityMasks, List.getElem?_cons_succ, List.getElem?_cons_zero, x80_or64]
  rw [xF8_or _ (by omega)]

theorem loop_6 (c : Nat) (h1 : 0x4000000 ≤ c) (h2 : c < 0x80000000) :
    entityLoop 5 c [] = .ok [ob (0xFC + c / 64 / 64 / 64 / 64 / 64), ob (0x80 + c / 64 / 64 / 64 / 64 % 64),
      ob (0x80 + c / 64 / 64 / 64 % 64), ob (0x80 + c / 64 / 64 % 64), ob (0x80 + c / 64 % 64), ob (0x80 + c % 64)] := by
  have l5 : c ≥ 0x40 / 2 ^ (5 - 5) := by simp; omega
  have l4 : c / 64 ≥ 0x40 / 2 ^ (5 - 4) := by simp; omega
  have l3 : c / 64 / 64 ≥ 0x40 / 2 ^ (5 - 3) := by simp; omega
  have l2 : c / 64 / 64 / 64 ≥ 0x40 / 2 ^ (5 - 2) := by simp; omega
  have l1 : c / 64 / 64 / 64 / 64 ≥ 0x40 / 2 ^ (5 - 1) := by simp; omega
  have l0 : ¬ (c / 64 / 64 / 64 / 64 / 64 ≥ 0x40 / 2 ^ (5 - 0)) := by simp; omega
  simp only [entityLoop, l5, l4, l3, l2, l1, l0, ↓reduceIte, entityMasks, List.getElem?_cons_zero, x80_or64]
  rw [xFC_or _ (by omega)]

/-- Neither out-of-bounds access of the loop is reachable: for every code the function accepts the
    loop ends with `0 ≤ index ≤ 4`. -/
theorem entityLoop_ok (c : Nat) (h1 : 0x80 ≤ c) (h2 : c < 0x80000000) :
    ∃ bs, entityLoop 5 c [] = .ok bs ∧ 2 ≤ bs.length ∧ bs.length ≤ 6 ∧ ∀ b ∈ bs, b ≠ 0 := by
  have nz : ∀ n, 0x80 ≤ n → n < 256 → ob n ≠ 0 := fun n a b => ofNat_ne_zero n (by omega) b
  by_cases c2 : c < 0x800
  · refine ⟨_, loop_2 c h1 c2, by simp, by simp, ?_⟩
    intro b hb; simp only [List.mem_cons, List.not_mem_nil, or_false] at hb
    rcases hb with rfl | rfl <;> exact nz _ (by omega) (by omega)
  by_cases c3 : c < 0x10000
  · refine ⟨_, loop_3 c (by omega) c3, by simp, by simp, ?_⟩
    intro b hb; simp only [List.mem_cons, List.not_mem_nil, or_false] at hb
    rcases hb with rfl | rfl | rfl <;> exact nz _ (by omega) (by omega)
  by_cases c4 : c < 0x200000
  · refine ⟨_, loop_4 c (by omega) c4, by simp, by simp, ?_⟩
    intro b hb; simp only [List.mem_cons, List.not_mem_nil, or_false] at hb
    rcases hb with rfl | rfl | rfl | rfl <;> exact nz _ (by omega) (by omega)
  by_cases c5 : c < 0x4000000
  · refine ⟨_, loop_5 c (by omega) c5, by simp, by simp, ?_⟩
    intro b hb; simp only [List.mem_cons, List.not_mem_nil, or_false] at hb
    rcases hb with rfl | rfl | rfl | rfl | rfl <;> exact nz _ (by omega) (by omega)
  · refine ⟨_, loop_6 c (by omega) h2, by simp, by simp, ?_⟩
    intro b hb; simp only [List.mem_cons, List.not_mem_nil, or_false] at hb
    rcases hb with rfl | rfl | rfl | rfl | rfl | rfl <;> exact nz _ (by omega) (by omega)

/-- For every accepted code ≥ 0x80 the delivered buffer is exactly what the loop built. -/
theorem entityBytes_of_loop (c : Nat) (h1 : 0x80 ≤ c) (h2 : c < 0x80000000) (bs : Bytes)
    (hl : entityLoop 5 c [] = .ok bs) (hz : ∀ b ∈ bs, b ≠ 0) : entityBytes c = .ok bs := by
  have a1 : ¬ (c ≥ 0x80000000) := by omega
  have a2 : ¬ (c < 0x80) := by omega
  simp only [entityBytes, a1, a2, ↓reduceIte, hl]
  show Except.ok (cstr (bs ++ [0])) = _
  rw [cstr_all_ne bs hz]

end Wbxml.Lemmas.Codec
