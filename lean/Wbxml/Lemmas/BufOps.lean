/-
  C19 — the operations built on `insert_data` / `delete` / the read accessors:
  insert*, append*, compare*, search*, contains_only_whitespaces, split_words, duplicate.
  Each lemma states the result in terms of the plain-sequence reference `Spec.Seq`.
-/
import Wbxml.Lemmas.BufCore
set_option linter.unusedSimpArgs false
namespace Wbxml.Model
open Wbxml Wbxml.Spec.Seq

/-! ### byte predicates of model and reference agree (complete tables, kernel evaluation) -/

set_option maxRecDepth 100000 in
theorem isSpace_ws_table : ∀ n : Fin 256, isSpace (UInt8.ofNat n.val) = ws (UInt8.ofNat n.val) := by
  decide +kernel

theorem isSpace_eq_ws (c : UInt8) : isSpace c = ws c := by
  have := isSpace_ws_table ⟨c.toNat, c.toNat_lt⟩
  simpa using this

theorem isSpace_fun : isSpace = ws := funext isSpace_eq_ws

theorem cstrOf_eq (s : Bytes) : bufCstrOf s = cstr s := rfl

namespace Buf

/-! ### arguments -/

/-- The buffer built for an argument denotes the argument's bytes and is well formed. -/
theorem ofArg_spec (a : Arg) :
    (a.bytes = none ∧ ofArg a = .ok none) ∨
    (∃ s bs, a.bytes = some bs ∧ ofArg a = .ok (some s) ∧ View s bs ∧ Inv s) := by
  cases a with
  | null => left; exact ⟨rfl, rfl⟩
  | dyn bs =>
    right
    obtain ⟨b, hb, hr⟩ := rep_create (some bs) bs.length
    refine ⟨b, bs, rfl, ?_, by simpa using hr.view, Or.inl hr.1⟩
    simp [ofArg, hb]
  | sta bs =>
    right
    have h := staCreate_inv bs
    refine ⟨staCreate bs, bs, rfl, rfl, ?_, Or.inr h.1⟩
    have := h.1.view
    rwa [h.2] at this

/-! ### insert / append family -/

theorem Rep.len {b : Buf} {c : Bytes} (h : Rep b c) : b.len = c.length := h.view.2

theorem insertData_spec {b : Buf} {c : Bytes} (h : Rep b c) (pos : Nat) (d : Bytes) :
    ∃ b', b.insertData pos d = .ok (b', (insertAt c pos d).2) ∧ Rep b' (insertAt c pos d).1 := by
  unfold insertAt
  by_cases hd : d = []
  · subst hd
    exact ⟨b, by simpa using insertData_refused (b := b) pos [] (Or.inl rfl), by simpa using h⟩
  · by_cases hp : pos > c.length
    · refine ⟨b, ?_, by simpa [hp] using h⟩
      have := insertData_refused (b := b) pos d (Or.inr (by rw [h.len]; exact hp))
      simpa [hp] using this
    · have hde : d.isEmpty = false := by cases d <;> simp_all
      obtain ⟨b', hb, hr⟩ := insertData_rep h pos d (by omega) hd
      exact ⟨b', by simpa [hde, hp] using hb, by simpa [hde, hp] using hr⟩

theorem insertData_at_end {b : Buf} {c : Bytes} (h : Rep b c) (d : Bytes) (hd : d ≠ []) :
    ∃ b', b.insertData b.len d = .ok (b', true) ∧ Rep b' (c ++ d) := by
  obtain ⟨b', hb, hr⟩ := insertData_rep h b.len d (by rw [h.len]; exact Nat.le_refl _) hd
  refine ⟨b', hb, ?_⟩
  rw [h.len] at hr
  simpa using hr

theorem appendData_spec {b : Buf} {c : Bytes} (h : Rep b c) (d : Option Bytes) :
    ∃ b', b.appendData d = .ok (b', (appendBytes c d).2) ∧ Rep b' (appendBytes c d).1 := by
  unfold appendData appendBytes
  rw [h.dyn]
  cases d with
  | none => exact ⟨b, by simp, h⟩
  | some d =>
    by_cases hd : d = []
    · subst hd; exact ⟨b, by simp, by simpa using h⟩
    · have : d.length ≠ 0 := by simpa using hd
      obtain ⟨b', hb, hr⟩ := insertData_at_end h d hd
      exact ⟨b', by simpa [this] using hb, hr⟩

theorem appendData_static {b : Buf} (hs : b.isStatic = true) (d : Option Bytes) :
    b.appendData d = .ok (b, false) := by simp [appendData, hs]

theorem insert_spec {to : Buf} {c : Bytes} (h : Rep to c) (a : Arg) (pos : Nat) :
    ∃ s, ofArg a = .ok s ∧ ∃ b', to.insert s pos = .ok (b', (insertArg c a.bytes pos).2)
      ∧ Rep b' (insertArg c a.bytes pos).1 := by
  rcases ofArg_spec a with ⟨hn, ho⟩ | ⟨s, bs, hb, ho, hv, _⟩
  · exact ⟨none, ho, to, by simp [insert, hn, insertArg], by simpa [hn, insertArg] using h⟩
  · refine ⟨some s, ho, ?_⟩
    obtain ⟨b', hb', hr⟩ := insertData_spec h pos bs
    refine ⟨b', ?_, by simpa [hb, insertArg] using hr⟩
    simp only [insert, h.dyn, Bool.false_eq_true, if_false, contents_view hv, hb, insertArg]
    exact hb'

theorem insert_static {to : Buf} (hs : to.isStatic = true) (s : Option Buf) (pos : Nat) :
    to.insert s pos = .ok (to, false) := by
  cases s <;> simp [insert, hs]

theorem insertCstr_spec {to : Buf} {c : Bytes} (h : Rep to c) (s : Option Bytes) (pos : Nat) :
    ∃ b', to.insertCstr s pos = .ok (b', (insertArg c (s.map cstr) pos).2)
      ∧ Rep b' (insertArg c (s.map cstr) pos).1 := by
  cases s with
  | none => exact ⟨to, rfl, h⟩
  | some s =>
    obtain ⟨b', hb', hr⟩ := insertData_spec h pos (cstr s)
    refine ⟨b', ?_, hr⟩
    simp only [insertCstr, h.dyn, Bool.false_eq_true, if_false, cstrOf_eq, Option.map_some, insertArg]
    exact hb'

theorem insertCstr_static {to : Buf} (hs : to.isStatic = true) (s : Option Bytes) (pos : Nat) :
    to.insertCstr s pos = .ok (to, false) := by
  cases s <;> simp [insertCstr, hs]

theorem append_spec {b : Buf} {c : Bytes} (h : Rep b c) (a : Arg) :
    ∃ s, ofArg a = .ok s ∧ ∃ b', b.append s = .ok (b', (appendBytes c a.bytes).2) ∧ Rep b' (appendBytes c a.bytes).1 := by
  rcases ofArg_spec a with ⟨hn, ho⟩ | ⟨s, bs, hb, ho, hv, _⟩
  · exact ⟨none, ho, b, by simp [append, h.dyn, hn, appendBytes], by simpa [hn, appendBytes] using h⟩
  · refine ⟨some s, ho, ?_⟩
    obtain ⟨b', hb', hr⟩ := appendData_spec h (some bs)
    refine ⟨b', ?_, by simpa [hb] using hr⟩
    simp only [append, h.dyn, Bool.false_eq_true, if_false, getCstr_view hv, hb]
    exact hb'

theorem append_static {b : Buf} (hs : b.isStatic = true) (s : Option Buf) :
    b.append s = .ok (b, false) := by simp [append, hs]

theorem appendCstr_spec {b : Buf} {c : Bytes} (h : Rep b c) (s : Option Bytes) :
    ∃ b', b.appendCstr s = .ok (b', (appendBytes c (s.map cstr)).2) ∧ Rep b' (appendBytes c (s.map cstr)).1 := by
  cases s with
  | none => exact ⟨b, by simp [appendCstr, h.dyn, appendBytes], by simpa [appendBytes] using h⟩
  | some s =>
    obtain ⟨b', hb', hr⟩ := appendData_spec h (some (cstr s))
    refine ⟨b', ?_, by simpa using hr⟩
    simp only [appendCstr, h.dyn, Bool.false_eq_true, if_false, cstrOf_eq, Option.map_some]
    exact hb'

theorem appendCstr_static {b : Buf} (hs : b.isStatic = true) (s : Option Bytes) :
    b.appendCstr s = .ok (b, false) := by simp [appendCstr, hs]

theorem appendChar_spec {b : Buf} {c : Bytes} (h : Rep b c) (ch : UInt8) :
    ∃ b', b.appendChar ch = .ok (b', true) ∧ Rep b' (c ++ [ch]) := by
  obtain ⟨b', hb, hr⟩ := insertData_at_end h [ch] (by simp)
  exact ⟨b', by simpa [appendChar, h.dyn] using hb, hr⟩

theorem appendChar_static {b : Buf} (hs : b.isStatic = true) (ch : UInt8) :
    b.appendChar ch = .ok (b, false) := by simp [appendChar, hs]

theorem mbOctets_ne_nil (v : Nat) : mbOctets v ≠ [] := by simp [mbOctets]

theorem appendMb_spec {b : Buf} {c : Bytes} (h : Rep b c) (v : Nat) :
    ∃ b', b.appendMb v = .ok (b', true) ∧ Rep b' (c ++ mbOctets v) := by
  obtain ⟨b', hb, hr⟩ := appendData_spec h (some (mbOctets v))
  refine ⟨b', ?_, by simpa [appendBytes] using hr⟩
  simpa [appendMb, h.dyn, appendBytes] using hb

theorem appendMb_static {b : Buf} (hs : b.isStatic = true) (v : Nat) :
    b.appendMb v = .ok (b, false) := by simp [appendMb, hs]

/-! ### delete against the reference -/

theorem delete_spec {b : Buf} {c : Bytes} (h : Rep b c) (pos n : Nat)
    (hc : ¬ (pos < c.length ∧ n ≠ 0 ∧ pos + n > c.length)) :
    ∃ b', b.delete pos n = .ok (b', (deleteAt c pos n).2) ∧ Rep b' (deleteAt c pos n).1 ∧ b'.malloced = b.malloced := by
  unfold deleteAt
  by_cases hr : pos ≥ c.length ∨ n = 0
  · refine ⟨b, ?_, ?_, rfl⟩
    · have := delete_refused (b := b) pos n (by rw [h.len]; exact hr)
      rcases hr with hr | hr <;> simpa [hr] using this
    · rcases hr with hr | hr <;> simpa [hr] using h
  · have hp : pos < c.length := by omega
    have hn : n ≠ 0 := by omega
    obtain ⟨b', hb, hr', hm⟩ := delete_rep h pos n hp hn (by omega)
    have h1 : ¬ pos ≥ c.length := by omega
    exact ⟨b', by simpa [h1, hn] using hb, by simpa [h1, hn] using hr', hm⟩

/-! ### duplicate -/

theorem duplicate_view {b : Buf} {c : Bytes} (h : View b c) :
    ∃ d, b.duplicate = .ok d ∧ Rep d c := by
  obtain ⟨d, hd, hr⟩ := rep_create (some c) b.len
  exact ⟨d, by simp [duplicate, getCstr_view h, hd], by simpa using hr⟩

theorem insertSelf_spec {b : Buf} {c : Bytes} (h : Rep b c) (pos : Nat) :
    ∃ b', b.insertSelf pos = .ok (b', (insertAt c pos c).2) ∧ Rep b' (insertAt c pos c).1 := by
  obtain ⟨d, hd, hr⟩ := duplicate_view h.view
  obtain ⟨b', hb', hr'⟩ := insertData_spec h pos c
  exact ⟨b', by simp only [insertSelf, h.dyn, Bool.false_eq_true, if_false, hd, contents_view hr.view]; exact hb', hr'⟩

theorem insertSelf_static {b : Buf} (hs : b.isStatic = true) (pos : Nat) :
    b.insertSelf pos = .ok (b, false) := by simp [insertSelf, hs]

theorem appendSelf_spec {b : Buf} {c : Bytes} (h : Rep b c) :
    ∃ b', b.appendSelf = .ok (b', true) ∧ Rep b' (c ++ c) := by
  obtain ⟨d, hd, hr⟩ := duplicate_view h.view
  obtain ⟨b', hb', hr'⟩ := appendData_spec h (some c)
  exact ⟨b', by simp only [appendSelf, h.dyn, Bool.false_eq_true, if_false, hd, getCstr_view hr.view]; exact hb', hr'⟩

theorem appendSelf_static {b : Buf} (hs : b.isStatic = true) : b.appendSelf = .ok (b, false) := by
  simp [appendSelf, hs]

/-! ### compare -/

theorem cmp_memcmp (c1 c2 : Bytes) :
    cmp c1 c2 =
      (let n := if c1.length < c2.length then c1.length else c2.length
       let r := memcmpSign (c1.take n) (c2.take n)
       if r = 0 then (if c1.length < c2.length then -1 else if c1.length > c2.length then 1 else 0) else r) := by
  induction c1 generalizing c2 with
  | nil => cases c2 <;> simp [cmp, memcmpSign]
  | cons a as ih =>
    cases c2 with
    | nil => simp [cmp, memcmpSign]
    | cons b bs =>
      have hmin : (if (a :: as).length < (b :: bs).length then (a :: as).length else (b :: bs).length)
          = (if as.length < bs.length then as.length else bs.length) + 1 := by
        simp only [List.length_cons]; split <;> split <;> omega
      simp only [hmin, List.take_succ_cons, memcmpSign, cmp]
      by_cases h1 : a < b
      · simp [h1]
      · by_cases h2 : b < a
        · simp [h1, h2]
        · simp only [h1, h2, if_false]
          rw [ih bs]
          simp only [List.length_cons, Nat.add_lt_add_iff_right, gt_iff_lt]

theorem compareCore_spec (c1 c2 : Bytes) (rd1 rd2 : Nat → Except Err Bytes)
    (h1 : ∀ n, n ≤ c1.length → n ≠ 0 → rd1 n = .ok (c1.take n))
    (h2 : ∀ n, n ≤ c2.length → n ≠ 0 → rd2 n = .ok (c2.take n)) :
    compareCore c1.length c2.length rd1 rd2 = .ok (cmp c1 c2) := by
  unfold compareCore
  generalize hn : (if c1.length < c2.length then c1.length else c2.length) = n
  have hle1 : n ≤ c1.length := by rw [← hn]; split <;> omega
  have hle2 : n ≤ c2.length := by rw [← hn]; split <;> omega
  by_cases h0 : n = 0
  · subst h0
    simp only [if_true]
    cases c1 with
    | nil => cases c2 <;> simp [cmp]
    | cons a as =>
      cases c2 with
      | nil => simp [cmp]
      | cons b bs => simp only [List.length_cons] at hn; split at hn <;> omega
  · simp only [h0, if_false, h1 n hle1 h0, h2 n hle2 h0]
    rw [cmp_memcmp c1 c2]
    simp only [hn]
    split <;> rename_i hr
    · split
      · rfl
      · split <;> rfl
    · rfl

theorem compare_spec {b : Buf} {c : Bytes} (h : View b c) (a : Arg) :
    ∃ o, ofArg a = .ok o ∧ b.compare o = .ok (cmpArg c a.bytes) := by
  rcases ofArg_spec a with ⟨hn, ho⟩ | ⟨s, bs, hb, ho, hv, _⟩
  · exact ⟨none, ho, by simp [compare, hn, cmpArg]⟩
  · refine ⟨some s, ho, ?_⟩
    simp only [compare, hb, h.2, hv.2, cmpArg]
    apply compareCore_spec
    · intro n hn h0; exact read_prefix_view h n (by rw [h.2]; exact hn) h0
    · intro n hn h0; exact read_prefix_view hv n (by rw [hv.2]; exact hn) h0

theorem compareCstr_spec {b : Buf} {c : Bytes} (h : View b c) (s : Option Bytes) :
    b.compareCstr s = .ok (cmpArg c (s.map cstr)) := by
  cases s with
  | none => rfl
  | some s =>
    simp only [compareCstr, h.2, cstrOf_eq, Option.map_some, cmpArg]
    apply compareCore_spec
    · intro n hn h0; exact read_prefix_view h n (by rw [h.2]; exact hn) h0
    · intro n _ _; rfl

/-! ### contains_only_whitespaces -/

theorem onlyWs_spec {b : Buf} {c : Bytes} (h : View b c) : b.onlyWs = .ok (c.all ws) := by
  simp [onlyWs, contents_view h, isSpace_fun]

end Buf
end Wbxml.Model
