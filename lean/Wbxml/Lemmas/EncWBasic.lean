/-
  WBXML encoder proofs, layer 0: the string table of `Model/EncWbxmlStrtbl.lean` as a sequence of
  NUL-terminated entries whose offsets are the running sums of `length + 1`, and the elementary
  state lemmas (`emit`, `strtblAdd`, `aliasWrite`, `strtblInitialize`).
-/
import Wbxml.Model.EncWbxml
namespace Wbxml.Lemmas.EncW
open Wbxml Wbxml.Model
open Wbxml.Model.Codec (mbEncode)

/-! ### `Except` plumbing -/

theorem ok_inj {α : Type} {a b : α} (h : (pure a : Except Err α) = .ok b) : a = b := by
  injection h

theorem bind_ok' {α β : Type} {x : Except Err α} {f : α → Except Err β} {b : β} (h : (x >>= f) = .ok b) :
    ∃ a, x = .ok a ∧ f a = .ok b := by
  cases x with
  | error e => cases h
  | ok a => exact ⟨a, rfl, h⟩

/-! ### `emit` -/

@[simp] theorem emit_out (st : WSt) (bs : Bytes) : (st.emit bs).out = st.out ++ bs := rfl
@[simp] theorem emit_tagPage (st : WSt) (bs : Bytes) : (st.emit bs).tagPage = st.tagPage := rfl
@[simp] theorem emit_attrPage (st : WSt) (bs : Bytes) : (st.emit bs).attrPage = st.attrPage := rfl
@[simp] theorem emit_curTag (st : WSt) (bs : Bytes) : (st.emit bs).curTag = st.curTag := rfl
@[simp] theorem emit_curAttr (st : WSt) (bs : Bytes) : (st.emit bs).curAttr = st.curAttr := rfl
@[simp] theorem emit_strtbl (st : WSt) (bs : Bytes) : (st.emit bs).strtbl = st.strtbl := rfl
@[simp] theorem emit_strtblLen (st : WSt) (bs : Bytes) : (st.emit bs).strtblLen = st.strtblLen := rfl
@[simp] theorem emit_inCdata (st : WSt) (bs : Bytes) : (st.emit bs).inCdata = st.inCdata := rfl
@[simp] theorem emit_cdata (st : WSt) (bs : Bytes) : (st.emit bs).cdata = st.cdata := rfl
@[simp] theorem emit_textNo (st : WSt) (bs : Bytes) : (st.emit bs).textNo = st.textNo := rfl

theorem emit_nil (st : WSt) : st.emit [] = st := by
  cases st; simp [WSt.emit]

theorem emit_emit (st : WSt) (a b : Bytes) : (st.emit a).emit b = st.emit (a ++ b) := by
  cases st; simp [WSt.emit]

/-! ### The string table as data -/

/-- Octet length of a table: every entry and its terminator. -/
def tblLen : List StrEntry → Nat
  | [] => 0
  | e :: es => e.str.length + 1 + tblLen es

/-- `offset e = base + Σ (len + 1)` of the entries in front of `e`. -/
def OffsFrom : Nat → List StrEntry → Prop
  | _, [] => True
  | b, e :: es => e.offset = b ∧ OffsFrom (b + (e.str.length + 1)) es

theorem tblLen_append (a b : List StrEntry) : tblLen (a ++ b) = tblLen a + tblLen b := by
  induction a with
  | nil => simp [tblLen]
  | cons e es ih => simp only [List.cons_append, tblLen, ih]; omega

theorem strtblBytes_nil : strtblBytes [] = [] := rfl

theorem strtblBytes_cons (e : StrEntry) (es : List StrEntry) :
    strtblBytes (e :: es) = e.str ++ [0] ++ strtblBytes es := by
  simp [strtblBytes]

theorem strtblBytes_append (a b : List StrEntry) : strtblBytes (a ++ b) = strtblBytes a ++ strtblBytes b := by
  simp [strtblBytes]

/-- The table octets are exactly `tblLen` long. -/
theorem strtblBytes_length (tbl : List StrEntry) : (strtblBytes tbl).length = tblLen tbl := by
  induction tbl with
  | nil => rfl
  | cons e es ih => rw [strtblBytes_cons]; simp only [List.length_append, ih, tblLen, List.length_cons, List.length_nil]

theorem offsFrom_append (b : Nat) (l : List StrEntry) (e : StrEntry) :
    OffsFrom b (l ++ [e]) ↔ OffsFrom b l ∧ e.offset = b + tblLen l := by
  induction l generalizing b with
  | nil => simp [OffsFrom, tblLen]
  | cons x xs ih =>
    simp only [List.cons_append, OffsFrom, ih, tblLen]
    constructor
    · rintro ⟨h1, h2, h3⟩; exact ⟨⟨h1, h2⟩, by omega⟩
    · rintro ⟨⟨h1, h2⟩, h3⟩; exact ⟨h1, h2, by omega⟩

/-- An entry of a table with running-sum offsets starts at its offset: the table octets split
    there, and the entry with its terminator follows. -/
theorem offsFrom_split (b : Nat) (l : List StrEntry) (h : OffsFrom b l) (e : StrEntry) (he : e ∈ l) :
    ∃ pre post, strtblBytes l = pre ++ (e.str ++ [0] ++ post) ∧ e.offset = b + pre.length := by
  induction l generalizing b with
  | nil => cases he
  | cons x xs ih =>
    rcases List.mem_cons.mp he with rfl | hm
    · exact ⟨[], strtblBytes xs, by rw [strtblBytes_cons]; rfl, by simpa using h.1⟩
    · obtain ⟨pre, post, hs, ho⟩ := ih _ h.2 hm
      refine ⟨x.str ++ [0] ++ pre, post, ?_, ?_⟩
      · rw [strtblBytes_cons, hs]; simp
      · rw [ho]; simp only [List.length_append, List.length_cons, List.length_nil]; omega

/-- The invariant of `encoder->strstbl` / `strstbl_len`. -/
structure StrInv (st : WSt) : Prop where
  offs : OffsFrom 0 st.strtbl
  len : st.strtblLen = tblLen st.strtbl
  noAlias : ∀ e ∈ st.strtbl, e.alias = none

theorem strInv_init : StrInv {} := ⟨trivial, rfl, by intro e he; cases he⟩

theorem StrInv.of_eq {st st' : WSt} (h : StrInv st) (h1 : st'.strtbl = st.strtbl) (h2 : st'.strtblLen = st.strtblLen) :
    StrInv st' := ⟨h1 ▸ h.offs, by rw [h2, h1]; exact h.len, h1 ▸ h.noAlias⟩

/-- Offsets of a table. -/
def offsOf (tbl : List StrEntry) : List Nat := tbl.map (·.offset)

/-! ### `wbxml_strtbl_add_element` -/

theorem strtblAdd_out (st : WSt) (s : Bytes) (a) : (strtblAdd st s a).1.out = st.out := by
  unfold strtblAdd; split <;> rfl
theorem strtblAdd_tagPage (st : WSt) (s : Bytes) (a) : (strtblAdd st s a).1.tagPage = st.tagPage := by
  unfold strtblAdd; split <;> rfl
theorem strtblAdd_attrPage (st : WSt) (s : Bytes) (a) : (strtblAdd st s a).1.attrPage = st.attrPage := by
  unfold strtblAdd; split <;> rfl
theorem strtblAdd_curTag (st : WSt) (s : Bytes) (a) : (strtblAdd st s a).1.curTag = st.curTag := by
  unfold strtblAdd; split <;> rfl
theorem strtblAdd_curAttr (st : WSt) (s : Bytes) (a) : (strtblAdd st s a).1.curAttr = st.curAttr := by
  unfold strtblAdd; split <;> rfl
theorem strtblAdd_inCdata (st : WSt) (s : Bytes) (a) : (strtblAdd st s a).1.inCdata = st.inCdata := by
  unfold strtblAdd; split <;> rfl
theorem strtblAdd_cdata (st : WSt) (s : Bytes) (a) : (strtblAdd st s a).1.cdata = st.cdata := by
  unfold strtblAdd; split <;> rfl
theorem strtblAdd_textNo (st : WSt) (s : Bytes) (a) : (strtblAdd st s a).1.textNo = st.textNo := by
  unfold strtblAdd; split <;> rfl

/-- The table only grows at its end. -/
theorem strtblAdd_prefix (st : WSt) (s : Bytes) (a) : st.strtbl <+: (strtblAdd st s a).1.strtbl := by
  unfold strtblAdd; split
  · exact List.prefix_refl _
  · exact List.prefix_append _ _

theorem strtblAdd_inv (st : WSt) (s : Bytes) (h : StrInv st) : StrInv (strtblAdd st s none).1 := by
  unfold strtblAdd; split
  · exact h
  · refine ⟨?_, ?_, ?_⟩
    · simp only
      rw [offsFrom_append]
      exact ⟨h.offs, by simp [h.len]⟩
    · simp only [tblLen_append, tblLen, h.len]; omega
    · intro e he
      simp only [List.mem_append, List.mem_singleton] at he
      rcases he with he | rfl
      · exact h.noAlias e he
      · rfl

/-- The reported index is the offset of an entry of the resulting table whose string is `s`. -/
theorem strtblAdd_idx (st : WSt) (s : Bytes) (a) :
    ∃ e ∈ (strtblAdd st s a).1.strtbl, e.offset = (strtblAdd st s a).2 ∧ e.str = s := by
  unfold strtblAdd; split
  · rename_i e he
    have := List.find?_some he
    exact ⟨e, List.mem_of_find?_eq_some he, rfl, by simpa using this⟩
  · exact ⟨⟨s, st.strtblLen, a⟩, by simp, rfl, rfl⟩

/-! ### `aliasWrite` -/

theorem aliasWrite_eq (st : WSt) (k : Nat) (s : Bytes) (h : ∀ e ∈ st.strtbl, e.alias = none) :
    st.aliasWrite k s = st := by
  unfold WSt.aliasWrite
  have : st.strtbl.map (fun e => if e.alias == some k then { e with str := s } else e) = st.strtbl := by
    conv => rhs; rw [← List.map_id st.strtbl]
    apply List.map_congr_left
    intro e he
    simp [h e he]
  rw [this]

/-! ### `wbxml_strtbl_initialize` -/

theorem keepRefs_inv (rs : List Ref) (st : WSt) (one : List Ref) (h : StrInv st) : StrInv (keepRefs rs st one).1 := by
  induction rs generalizing st one with
  | nil => exact h
  | cons r rs ih =>
    simp only [keepRefs]
    split
    · exact ih _ _ (strtblAdd_inv st r.str h)
    · exact ih _ _ h

theorem keepRefs_out (rs : List Ref) (st : WSt) (one : List Ref) :
    (keepRefs rs st one).1.out = st.out ∧ (keepRefs rs st one).1.tagPage = st.tagPage ∧
    (keepRefs rs st one).1.attrPage = st.attrPage ∧ (keepRefs rs st one).1.curTag = st.curTag ∧
    (keepRefs rs st one).1.cdata = st.cdata ∧ (keepRefs rs st one).1.inCdata = st.inCdata := by
  induction rs generalizing st one with
  | nil => exact ⟨rfl, rfl, rfl, rfl, rfl, rfl⟩
  | cons r rs ih =>
    simp only [keepRefs]
    split
    · have := ih (strtblAdd st r.str none).1 one
      rw [strtblAdd_out, strtblAdd_tagPage, strtblAdd_attrPage, strtblAdd_curTag, strtblAdd_cdata,
        strtblAdd_inCdata] at this
      exact this
    · exact ih _ _

theorem strtblInitialize_inv (lang : Lang) (root : Node) (st : WSt) (h : StrInv st) :
    StrInv (strtblInitialize lang root st) := by
  unfold strtblInitialize checkReferences
  exact keepRefs_inv _ _ _ (keepRefs_inv _ _ _ h)

theorem strtblInitialize_fields (lang : Lang) (root : Node) (st : WSt) :
    (strtblInitialize lang root st).out = st.out ∧ (strtblInitialize lang root st).tagPage = st.tagPage ∧
    (strtblInitialize lang root st).attrPage = st.attrPage ∧ (strtblInitialize lang root st).curTag = st.curTag ∧
    (strtblInitialize lang root st).cdata = st.cdata ∧ (strtblInitialize lang root st).inCdata = st.inCdata := by
  unfold strtblInitialize checkReferences
  have h1 := keepRefs_out (countRefs (collectNode lang root {}).cands) st []
  have h2 := keepRefs_out (countRefs (collectWords (keepRefs (countRefs (collectNode lang root {}).cands) st []).2))
    (keepRefs (countRefs (collectNode lang root {}).cands) st []).1 []
  obtain ⟨a1, a2, a3, a4, a5, a6⟩ := h1
  obtain ⟨b1, b2, b3, b4, b5, b6⟩ := h2
  exact ⟨b1.trans a1, b2.trans a2, b3.trans a3, b4.trans a4, b5.trans a5, b6.trans a6⟩

/-- State at the start of a document: invariant holds, nothing written, both pages 0. -/
theorem docStartW_inv (c : WCfg) (r : Node) : StrInv (docStartW c r) := by
  unfold docStartW; split
  · exact strtblInitialize_inv _ _ _ strInv_init
  · exact strInv_init

theorem docStartW_fields (c : WCfg) (r : Node) :
    (docStartW c r).out = [] ∧ (docStartW c r).tagPage = 0 ∧ (docStartW c r).attrPage = 0 ∧
    (docStartW c r).curTag = none ∧ (docStartW c r).cdata = none ∧ (docStartW c r).inCdata = false := by
  unfold docStartW; split
  · exact strtblInitialize_fields _ _ _
  · exact ⟨rfl, rfl, rfl, rfl, rfl, rfl⟩

theorem docStartW_noStrtbl (c : WCfg) (r : Node) (h : c.useStrtbl = false) : (docStartW c r).strtbl = [] := by
  unfold docStartW; simp [h]

end Wbxml.Lemmas.EncW
