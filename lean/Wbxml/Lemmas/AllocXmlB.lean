/-
  C16 — the XML output half on the ledger, part B: attributes (`xml_encode_attr` with the temporary
  copy of the value) and text nodes (`parse_text` + `xml_encode_text` with the temporary copy, its
  SyncML replacement and its base64 rewrite).
-/
import Wbxml.Lemmas.AllocXmlA
namespace Wbxml.Model.Alloc
open Wbxml
set_option linter.unusedSimpArgs false
set_option linter.unusedVariables false
set_option linter.unnecessarySimpa false

/-- Same struct, same settings, same string table. -/
def EncSame (e e' : AEnc) : Prop := e'.hdr = e.hdr ∧ e'.useStrtbl = e.useStrtbl ∧ e'.strstbl = e.strstbl

theorem EncSame.rfl {e : AEnc} : EncSame e e := ⟨Eq.refl _, Eq.refl _, Eq.refl _⟩
theorem EncSame.trans {e e1 e2 : AEnc} (a : EncSame e e1) (b : EncSame e1 e2) : EncSame e e2 :=
  ⟨b.1.trans a.1, b.2.1.trans a.2.1, b.2.2.trans a.2.2⟩

theorem XStep.same {e e' : AEnc} {s s' : Ledger} {ret : Nat} (x : XStep e s e' ret s') : EncSame e e' :=
  ⟨x.1.1, x.1.2.2.2, x.2.1⟩

theorem XStep.out {e e' : AEnc} {s s' : Ledger} {ret : Nat} (x : XStep e s e' ret s') : ∃ o, e'.output = some o ∧ o.ok :=
  x.ready.2

theorem XStep.build {e e' : AEnc} {s s' : Ledger} {ret : Nat} (same : EncSame e e') (c : Clean s s' e.owned e'.owned)
    (out : ∃ o, e'.output = some o ∧ o.ok) (hr : s.hits < s'.hits → ret ≠ OK) : XStep e s e' ret s' := by
  obtain ⟨o, ho, hk⟩ := out
  exact ⟨⟨same.1, c, fun o' ho' => by rw [ho] at ho'; cases ho'; exact hk, same.2.1⟩, same.2.2, by simp [ho], hr⟩

/-- The encoder is still ready after a run that only produced blocks. -/
theorem EncReady.keep {e : AEnc} {s s' : Ledger} {P : List Nat} (rdy : EncReady e s) (c : Clean s s' [] P) : EncReady e s' :=
  ⟨c.keeps rdy.1 (fun _ _ h => by cases h), rdy.2⟩

theorem eappend_ne : EAPPEND ≠ OK := by decide
theorem enomem_ne : ENOMEM ≠ OK := by decide

/-- `xml_encode_attr`: the temporary copy of the value is released on every exit. -/
theorem xmlAttr_spec (g : XGen) (e : AEnc) (name value : Bytes) (s : Ledger) (wf : s.WF) (rdy : EncReady e s) :
    Good (xmlAttr g e name value) s (fun r s' => XStep e s r.1 r.2 s') := by
  unfold xmlAttr
  simp only [bind_eq, pure_eq]
  refine Good.bind (appendAll_spec e EAPPEND eappend_ne _ s wf rdy) ?_
  intro r s1 x1
  obtain ⟨e1, ret⟩ := r
  simp only at x1 ⊢
  by_cases hret : ret = OK
  · subst hret
    simp only [bne_self_eq_false, Bool.false_eq_true, if_false]
    have hno1 : ¬ s.hits < s1.hits := fun hh => x1.2.2.2 hh rfl
    have hh1 := x1.clean.hits
    refine Good.bind (bufCreate_spec (some value) value.length s1 x1.clean.wf) ?_
    intro tmp s2 ⟨c2, h2, hs2, hk2⟩
    have hh2 := c2.hits
    cases tmp with
    | none =>
      simp only
      have c2' : Clean s1 s2 [] [] := by simpa [ownedBufOpt] using c2
      have cX2 : Clean s s2 e.owned e1.owned := by
        simpa using Clean.step_l e1.owned wf (by simpa using x1.clean) c2'
      exact good_ret.2 (XStep.build x1.same cX2 x1.out (fun _ => enomem_ne))
    | some tmp =>
      simp only
      have c2' : Clean s1 s2 [] tmp.owned := by simpa [ownedBufOpt] using c2
      have hno2 : ¬ s1.hits < s2.hits := by intro h; have := h2 h; simp at this
      have cX2 : Clean s s2 e.owned (e1.owned ++ tmp.owned) := Clean.step_l e1.owned wf (by simpa using x1.clean) c2'
      refine Good.bind (appendAll_spec e1 EAPPEND eappend_ne _ s2 c2.wf (x1.ready.keep c2')) ?_
      intro r3 s3 x3
      obtain ⟨e2, ret3⟩ := r3
      simp only at x3 ⊢
      have hh3 := x3.clean.hits
      have cX3 : Clean s s3 e.owned (e2.owned ++ tmp.owned) := Clean.step_r tmp.owned wf cX2 x3.clean
      refine Good.bind (bufDestroy_spec (some tmp) s3 x3.clean.wf (by simpa [ownedBufOpt] using cX3.owns.right)) ?_
      intro _ s4 ⟨d4, hd4, _⟩
      have d4' : Clean s3 s4 tmp.owned [] := d4
      have cX4 : Clean s s4 e.owned e2.owned := by simpa using Clean.step_l e2.owned wf cX3 d4'
      have same2 : EncSame e e2 := x1.same.trans x3.same
      by_cases hret3 : ret3 = OK
      · subst hret3
        simp only [bne_self_eq_false, Bool.false_eq_true, if_false]
        have hno3 : ¬ s2.hits < s3.hits := fun hh => x3.2.2.2 hh rfl
        refine (appendAll_spec e2 EAPPEND eappend_ne _ s4 d4.wf ⟨cX4.owns, x3.out⟩).mono ?_
        intro r5 s5 x5
        have hh5 := x5.clean.hits
        refine XStep.build (same2.trans x5.same) (Clean.trans_recycle wf cX4 x5.clean) x5.out (fun hh => ?_)
        by_cases hA : s4.hits < s5.hits
        · exact x5.2.2.2 hA
        · exfalso; omega
      · have hb : (ret3 != OK) = true := by simpa using hret3
        simp only [hb, if_true]
        exact good_ret.2 (XStep.build same2 cX4 x3.out (fun _ => eappend_ne))
  · have hb : (ret != OK) = true := by simpa using hret
    simp only [hb, if_true]
    exact good_ret.2 x1

theorem xmlAttrs_spec (g : XGen) (l : XLang) (attrs : List XAttr) (e : AEnc) (s : Ledger) (wf : s.WF) (rdy : EncReady e s) :
    Good (xmlAttrs g l e attrs) s (fun r s' => XStep e s r.1 r.2 s') := by
  induction attrs generalizing e s with
  | nil => simp only [xmlAttrs, pure_eq]; exact good_ret.2 (XStep.refl wf rdy OK)
  | cons a rest ih =>
    unfold xmlAttrs
    by_cases hat : l.hasAttrTable = true
    · simp only [hat, Bool.not_true, Bool.false_eq_true, if_false]
      cases hn : a.name with
      | none => simp only [pure_eq]; exact good_ret.2 (XStep.refl wf rdy ENULLATTR)
      | some n =>
        simp only [bind_eq, pure_eq]
        refine Good.bind (xmlAttr_spec g e n a.value s wf rdy) ?_
        intro r s1 x1
        obtain ⟨e1, ret⟩ := r
        simp only at x1 ⊢
        by_cases hret : ret = OK
        · subst hret
          simp only [bne_self_eq_false, Bool.false_eq_true, if_false]
          exact (ih e1 s1 x1.clean.wf x1.ready).mono fun r s2 x2 => XStep.trans wf x1 x2
        · have hb : (ret != OK) = true := by simpa using hret
          simp only [hb, if_true]
          exact good_ret.2 x1
    · have hat' : l.hasAttrTable = false := by simpa using hat
      simp only [hat', Bool.not_false, if_true]
      exact ih e s wf rdy

/-- `xml_encode_text` after the copy: the copy (or its replacement) is released on every exit. -/
theorem xmlTextTmp_spec (g : XGen) (l : XLang) (e : AEnc) (st : XSt) (tmp : ABuf) (s : Ledger) (wf : s.WF)
    (rdy : EncReady e s) (own : Owns s (e.owned ++ tmp.owned)) (hok : tmp.ok) (hst : tmp.isStatic = false) :
    Good (xmlTextTmp g l e st tmp) s (fun r s' =>
      EncSame e r.1 ∧ Clean s s' (e.owned ++ tmp.owned) r.1.owned ∧ (∃ o, r.1.output = some o ∧ o.ok) ∧
      (s.hits < s'.hits → r.2 ≠ OK)) := by
  unfold xmlTextTmp
  simp only [bind_eq, pure_eq]
  -- first replacement
  have hsw1 : Good (if (l.syncml && st.metType && tmp.bytes == devinfWbxml) = true then swapTmp tmp devinfXml else Prog.ret (some tmp)) s
      (fun r s' => Clean s s' tmp.owned (ownedBufOpt r) ∧ (s.hits < s'.hits → r = none) ∧ ∀ x, r = some x → x.ok ∧ x.isStatic = false) := by
    split
    · exact swapTmp_spec tmp devinfXml s wf own.right
    · exact good_ret.2 ⟨by simpa [ownedBufOpt] using Clean.id wf own.right, fun h => absurd h (Nat.lt_irrefl _),
        fun x hx => by cases hx; exact ⟨hok, hst⟩⟩
  refine Good.bind hsw1 ?_
  intro t1 s1 ⟨c1, h1, k1⟩
  have hh1 := c1.hits
  have cX1 : Clean s s1 (e.owned ++ tmp.owned) (e.owned ++ ownedBufOpt t1) := Clean.frame_l e.owned wf c1 own
  cases t1 with
  | none =>
    simp only [ownedBufOpt, List.append_nil] at cX1 ⊢
    exact good_ret.2 ⟨EncSame.rfl, cX1, rdy.2, fun _ => enomem_ne⟩
  | some t1 =>
    simp only [ownedBufOpt] at cX1 c1 ⊢
    have hno1 : ¬ s.hits < s1.hits := by intro h; have := h1 h; simp at this
    have hsw2 : Good (if (l.syncml12 && st.metType && t1.bytes == dmtndsWbxml) = true then swapTmp t1 dmtndsXml else Prog.ret (some t1)) s1
        (fun r s' => Clean s1 s' t1.owned (ownedBufOpt r) ∧ (s1.hits < s'.hits → r = none) ∧ ∀ x, r = some x → x.ok ∧ x.isStatic = false) := by
      split
      · exact swapTmp_spec t1 dmtndsXml s1 c1.wf cX1.owns.right
      · exact good_ret.2 ⟨by simpa [ownedBufOpt] using Clean.id c1.wf cX1.owns.right, fun h => absurd h (Nat.lt_irrefl _),
          fun x hx => by cases hx; exact k1 t1 rfl⟩
    refine Good.bind hsw2 ?_
    intro t2 s2 ⟨c2, h2, k2⟩
    have hh2 := c2.hits
    have cX2 : Clean s s2 (e.owned ++ tmp.owned) (e.owned ++ ownedBufOpt t2) := Clean.step_l e.owned wf cX1 c2
    cases t2 with
    | none =>
      simp only [ownedBufOpt, List.append_nil] at cX2 ⊢
      exact good_ret.2 ⟨EncSame.rfl, cX2, rdy.2, fun _ => enomem_ne⟩
    | some t2 =>
      simp only [ownedBufOpt] at cX2 c2 ⊢
      have hno2 : ¬ s1.hits < s2.hits := by intro h; have := h2 h; simp at this
      have hb64 : Good (if st.binary = true then bufEncodeB64 t2 else Prog.ret (t2, OK)) s2 (TmpStep t2 s2) := by
        split
        · exact bufEncodeB64_spec t2 s2 c2.wf cX2.owns.right (k2 t2 rfl).1 (k2 t2 rfl).2
        · exact good_ret.2 ⟨Clean.id c2.wf cX2.owns.right, (k2 t2 rfl).1, (k2 t2 rfl).2, fun h => absurd h (Nat.lt_irrefl _)⟩
      refine Good.bind hb64 ?_
      intro r3 s3 ⟨c3, k3, st3, h3⟩
      obtain ⟨t3, ret3⟩ := r3
      simp only at c3 k3 st3 h3 ⊢
      have hh3 := c3.hits
      have cX3 : Clean s s3 (e.owned ++ tmp.owned) (e.owned ++ t3.owned) := Clean.step_l e.owned wf cX2 c3
      by_cases hret3 : ret3 = OK
      · subst hret3
        simp only [bne_self_eq_false, Bool.false_eq_true, if_false]
        have hno3 : ¬ s2.hits < s3.hits := fun hh => h3 hh rfl
        refine Good.bind (appendAll_spec e EAPPEND eappend_ne _ s3 c3.wf ⟨cX3.owns.left, rdy.2⟩) ?_
        intro r4 s4 x4
        obtain ⟨e4, ret4⟩ := r4
        simp only at x4 ⊢
        have hh4 := x4.clean.hits
        have cX4 : Clean s s4 (e.owned ++ tmp.owned) (e4.owned ++ t3.owned) := Clean.step_r t3.owned wf cX3 x4.clean
        refine Good.bind (bufDestroy_spec (some t3) s4 x4.clean.wf (by simpa [ownedBufOpt] using cX4.owns.right)) ?_
        intro _ s5 ⟨d5, hd5, _⟩
        have d5' : Clean s4 s5 t3.owned [] := d5
        have cX5 : Clean s s5 (e.owned ++ tmp.owned) e4.owned := by simpa using Clean.step_l e4.owned wf cX4 d5'
        refine good_ret.2 ⟨x4.same, cX5, x4.out, fun hh => ?_⟩
        by_cases hret4 : ret4 = OK
        · subst hret4
          exfalso
          have : ¬ s3.hits < s4.hits := fun hA => x4.2.2.2 hA rfl
          omega
        · have hb : (ret4 != OK) = true := by simpa using hret4
          simp only [hb, if_true]
          exact eappend_ne
      · have hb : (ret3 != OK) = true := by simpa using hret3
        simp only [hb, if_true]
        refine Good.bind (bufDestroy_spec (some t3) s3 c3.wf (by simpa [ownedBufOpt] using cX3.owns.right)) ?_
        intro _ s4 ⟨d4, hd4, _⟩
        have d4' : Clean s3 s4 t3.owned [] := d4
        have cX4 : Clean s s4 (e.owned ++ tmp.owned) e.owned := by simpa using Clean.step_l e.owned wf cX3 d4'
        exact good_ret.2 ⟨EncSame.rfl, cX4, rdy.2, fun _ => hret3⟩

/-- `parse_text` + `xml_encode_text` for a text node whose content buffer is live tree memory. -/
theorem xmlText_spec (g : XGen) (l : XLang) (e : AEnc) (st : XSt) (content : ABuf) (s : Ledger) (wf : s.WF)
    (rdy : EncReady e s) (hc : content.hdr ∈ s.live) :
    Good (xmlText g l e st content) s (fun r s' => XStep e s r.1 r.2.2 s') := by
  unfold xmlText
  simp only [bind_eq, pure_eq]
  split
  · exact good_ret.2 (XStep.refl wf rdy OK)
  · generalize hstr : (if (!st.inCdata && !st.binary && g.gen != 2 && g.stripBlanks) = true
        then ({ content with bytes := stripBlanksB content.bytes } : ABuf) else content) = str
    have hsl : str.hdr ∈ s.live := by
      rw [← hstr]; split <;> exact hc
    split
    · refine Good.bind (bufCstr_spec str s hsl) ?_
      intro _ s0 ⟨e0, _⟩; have e0' := e0.symm; subst e0'
      refine Good.bind (appendAll_spec e EAPPEND eappend_ne _ s wf rdy) ?_
      intro r s1 x1
      exact good_ret.2 x1
    · refine Good.bind (bufDuplicate_spec (some str) s wf (fun x hx => by cases hx; exact hsl)) ?_
      intro tmp s1 ⟨c1, h1, k1, _⟩
      have hh1 := c1.hits
      have cX1 : Clean s s1 e.owned (e.owned ++ ownedBufOpt tmp) := by
        simpa using Clean.frame_l e.owned wf c1 (by simpa using rdy.1)
      cases tmp with
      | none =>
        simp only [ownedBufOpt, List.append_nil] at cX1 ⊢
        exact good_ret.2 (XStep.build EncSame.rfl cX1 rdy.2 (fun _ => enomem_ne))
      | some tmp =>
        simp only [ownedBufOpt] at cX1 ⊢
        have hno1 : ¬ s.hits < s1.hits := by intro h; have := h1 h; simp at this
        refine Good.bind (xmlTextTmp_spec g l e st tmp s1 c1.wf ⟨cX1.owns.left, rdy.2⟩ cX1.owns (k1 tmp rfl).2 (k1 tmp rfl).1) ?_
        intro r2 s2 ⟨same2, c2, out2, h2⟩
        have hh2 := c2.hits
        refine good_ret.2 (XStep.build same2 (Clean.trans_recycle wf cX1 c2) out2 (fun hh => h2 (by omega)))

end Wbxml.Model.Alloc
