/-
  C16 — parser main loop on the ledger, part B: `parse_pi` and the loop of processing instructions
  before the root.
-/
import Wbxml.Lemmas.AllocLoopA
namespace Wbxml.Model.Alloc
open Wbxml
set_option linter.unusedSimpArgs false
set_option linter.unusedVariables false
set_option linter.unnecessarySimpa false

/-- `parse_pi`: nothing stays allocated, whatever fails; a failed request is reported. -/
theorem parsePi_spec (a : AttrShape) (hst : a.start.wf) (s : Ledger) (wf : s.WF) :
    Good (parsePi a) s (fun ret s' => Clean s s' [] [] ∧ (s.hits < s'.hits → ret ≠ OK)) := by
  unfold parsePi
  simp only [bind_eq, pure_eq]
  refine Good.bind (parseAttrStart_spec a.start hst s wf) ?_
  intro r s1 ⟨c1, e1, k1, h1⟩
  obtain ⟨ret, name, start⟩ := r
  simp only at c1 e1 k1 h1 ⊢
  have hh1 := c1.hits
  by_cases hret : ret = OK
  · subst hret
    simp only [bne_self_eq_false, Bool.false_eq_true, if_false]
    have hno1 : ¬ s.hits < s1.hits := fun hh => h1 hh rfl
    refine Good.bind (bufCreate_spec start ATTR_BLOCK s1 c1.wf) ?_
    intro value s2 ⟨c2, h2, _, ok2⟩
    have hh2 := c2.hits
    have cX2 : Clean s s2 [] (ownedNameOpt name ++ ownedBufOpt value) := Clean.trans_prod c1 c2
    cases value with
    | none =>
      simp only
      have cX2' : Clean s s2 [] (ownedNameOpt name) := by simpa [ownedBufOpt] using cX2
      refine Good.bind (nameDestroy_spec name s2 c2.wf cX2'.owns) ?_
      intro _ s3 ⟨d3, hd3, _⟩
      exact good_ret.2 ⟨Clean.trans_recycle wf cX2' d3, fun _ => by simp [ENOMEM, OK]⟩
    | some value =>
      simp only [ownedBufOpt] at cX2 ⊢
      have hno2 : ¬ s1.hits < s2.hits := by intro h; have := h2 h; simp at this
      refine Good.bind (attrValueLoop_spec name a.pieces value s2 c2.wf cX2.owns (ok2 value rfl)) ?_
      intro r3 s3 ⟨c3, e3, k3, o3, h3⟩
      obtain ⟨ret3, v3⟩ := r3
      simp only at c3 e3 k3 o3 h3 ⊢
      have hh3 := c3.hits
      have cX3 := Clean.trans_recycle wf cX2 c3
      cases v3 with
      | none =>
        simp only at cX3 ⊢
        have hne : ret3 ≠ OK := by intro h; have := k3 h; simp at this
        exact good_ret.2 ⟨cX3, fun _ => hne⟩
      | some value3 =>
        simp only at cX3 ⊢
        have hr3 : ret3 = OK := by
          by_cases h : ret3 = OK
          · exact h
          · have := e3 h; simp at this
        have hno3 : ¬ s2.hits < s3.hits := fun hh => h3 hh hr3
        have hstep : Good (if value3.len > 0 then bufAppendChar value3 0 else Prog.ret (value3, true)) s3 (BufStep value3 s3) := by
          by_cases hl : value3.len > 0
          · simp only [hl, if_true]
            exact bufAppendChar_spec value3 0 s3 c3.wf cX3.owns.right (o3 value3 rfl)
          · simp only [hl, if_false, good_ret]
            exact BufStep.same c3.wf cX3.owns.right true
        refine Good.bind hstep ?_
        intro r4 s4 ⟨_, _, c4, h4, _⟩
        obtain ⟨value4, ok4⟩ := r4
        simp only at c4 h4 ⊢
        have hh4 := c4.hits
        have cX4 : Clean s s4 [] (ownedNameOpt name ++ value4.owned) := Clean.step_l _ wf cX3 c4
        -- the two releases every exit from here performs
        have hrel : ∀ (ret : Nat) (t : Ledger), t = s4 →
            Good (Prog.bind (nameDestroy name) (fun _ => Prog.bind (bufDestroy (some value4)) (fun _ => Prog.ret ret))) t
              (fun r s' => r = ret ∧ Clean s s' [] [] ∧ s'.hits = s4.hits) := by
          intro ret t et; subst et
          refine Good.bind (nameDestroy_spec name t c4.wf cX4.owns.left) ?_
          intro _ s5 ⟨d5, hd5, _⟩
          have cX5 : Clean s s5 [] value4.owned := by simpa using Clean.step_r value4.owned wf cX4 d5
          refine Good.bind (bufDestroy_spec (some value4) s5 d5.wf (by simpa [ownedBufOpt] using cX5.owns)) ?_
          intro _ s6 ⟨d6, hd6, _⟩
          have d6' : Clean s5 s6 value4.owned [] := d6
          exact good_ret.2 ⟨rfl, Clean.trans_recycle wf cX5 d6', by omega⟩
        cases ok4 with
        | false =>
          simp only [Bool.not_false, if_true]
          refine (hrel ENOMEM s4 rfl).mono ?_
          intro r t ⟨er, cl, _⟩
          subst er
          exact ⟨cl, fun _ => by simp [ENOMEM, OK]⟩
        | true =>
          simp only [Bool.not_true, Bool.false_eq_true, if_false]
          have hno4 : ¬ s3.hits < s4.hits := by intro h; have := h4 h; simp at this
          obtain ⟨n, hn⟩ : ∃ n, name = some n := by
            cases name with
            | none => simp at k1
            | some n => exact ⟨n, rfl⟩
          subst hn
          simp only [Option.map_some]
          refine Good.bind (deref_spec n.hdr s4 (cX4.owns.2 _ (by simp [ownedNameOpt, AName.owned]))) ?_
          intro _ s4' e4'; have e4'' := e4'.symm; subst e4''
          refine Good.bind (deref_spec value4.hdr s4 (cX4.owns.2 _ (by simp [ABuf.owned]))) ?_
          intro _ s4' e4'; have e4'' := e4'.symm; subst e4''
          refine (hrel OK s4 rfl).mono ?_
          intro r t ⟨er, cl, ht⟩
          subst er
          exact ⟨cl, fun hh => by exfalso; omega⟩
  · have hb : (ret != OK) = true := by simpa using hret
    simp only [hb, if_true]
    have := e1 hret; subst this
    exact good_ret.2 ⟨by simpa [ownedNameOpt] using c1, fun _ => hret⟩

theorem parsePis_spec (pis : List AttrShape) (hw : ∀ a ∈ pis, a.start.wf) (s : Ledger) (wf : s.WF) :
    Good (parsePis pis) s (fun ret s' => Clean s s' [] [] ∧ (s.hits < s'.hits → ret ≠ OK)) := by
  induction pis generalizing s with
  | nil => simp only [parsePis, pure_eq]; exact good_ret.2 ⟨Clean.rfl wf, fun h => absurd h (Nat.lt_irrefl _)⟩
  | cons a rest ih =>
    unfold parsePis
    simp only [bind_eq, pure_eq]
    refine Good.bind (parsePi_spec a (hw a (by simp)) s wf) ?_
    intro ret s1 ⟨c1, h1⟩
    have hh1 := c1.hits
    by_cases hret : ret = OK
    · subst hret
      simp only [bne_self_eq_false, Bool.false_eq_true, if_false]
      refine (ih (fun x hx => hw x (by simp [hx])) s1 c1.wf).mono ?_
      intro r s2 ⟨c2, h2⟩
      have hh2 := c2.hits
      refine ⟨Clean.trans_recycle wf c1 c2, fun hh => ?_⟩
      by_cases hA : s1.hits < s2.hits
      · exact h2 hA
      · exfalso; exact h1 (by omega) rfl
    · have hb : (ret != OK) = true := by simpa using hret
      simp only [hb, if_true]
      exact good_ret.2 ⟨c1, fun _ => hret⟩

end Wbxml.Model.Alloc
