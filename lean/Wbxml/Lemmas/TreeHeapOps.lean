/-
  C18 lemmas, part 5: every call of the tree API keeps the invariant.
-/
import Wbxml.Lemmas.TreeHeapForest
set_option linter.unusedSimpArgs false
set_option linter.unusedVariables false
namespace Wbxml.Model.TreeHeap
open Wbxml Wbxml.Model

/-! ### Small facts -/

theorem LinkF.congr {v v' : View} {par prv : Option Nat} {i : Nat} {f n : Option Nat}
    (h : v' i = v i) (l : LinkF v par prv i f n) : LinkF v' par prv i f n := by
  cases par with
  | none => obtain ⟨c, hc, r⟩ := l; exact ⟨c, by rw [h]; exact hc, r⟩
  | some p => obtain ⟨c, hc, r⟩ := l; exact ⟨c, by rw [h]; exact hc, r⟩

/-- Changing only the `first` pointer of a branch cell. -/
theorem LinkF.set_first {v v' : View} {par prv : Option Nat} {P : Nat} {f n : Option Nat} {cP : Cell} (k : Option Nat)
    (hv : v P = some cP) (hv' : v' P = some { cP with first := k }) (hb : cP.pay.isBranch = true)
    (l : LinkF v par prv P f n) : LinkF v' par prv P k n := by
  cases par with
  | none =>
    obtain ⟨c, hc, h1, h2, h3, h4, h5⟩ := l
    rw [hv] at hc; injection hc with hc; subst hc
    exact ⟨_, hv', h1, h2, rfl, h4, Or.inl hb⟩
  | some p =>
    obtain ⟨c, hc, h1, h2, h3, h4, h5⟩ := l
    rw [hv] at hc; injection hc with hc; subst hc
    exact ⟨_, hv', h1, h2, rfl, h4, Or.inl hb⟩

theorem BT.kidsOf_chainRemove (P n : Nat) : ∀ (G : BT), P ≠ n → P ∉ (BT.chainKids n G).ids →
    BT.kidsOf P (BT.chainRemove n G) = BT.kidsOf P G
  | .nil, _, _ => rfl
  | .node i ch nx, hne, hk => by
    by_cases e : i = n
    · subst e
      have h2 : BT.chainKids i (.node i ch nx) = ch := by simp [BT.chainKids]
      rw [h2] at hk
      have h1 : BT.chainRemove i (.node i ch nx) = nx := by simp [BT.chainRemove]
      have hne' : ¬ i = P := fun x => hne x.symm
      rw [h1]; simp [BT.kidsOf, hne', hk]
    · have h2 : BT.chainKids n (.node i ch nx) = BT.chainKids n nx := by simp [BT.chainKids, e]
      rw [h2] at hk
      have h1 : BT.chainRemove n (.node i ch nx) = .node i ch (BT.chainRemove n nx) := by simp [BT.chainRemove, e]
      rw [h1]
      simp only [BT.kidsOf, BT.kidsOf_chainRemove P n nx hne hk]

/-- A cell of a matched shape that is not a branch has no children. -/
theorem Match.leaf {v : View} : ∀ (t : BT) (par prv : Option Nat), Match v par prv t →
    ∀ i c, i ∈ t.tops → v i = some c → c.pay.isBranch = false → BT.chainKids i t = .nil
  | .nil, _, _, _, i, _, hi, _, _ => by simp [BT.tops] at hi
  | .node j ch nx, par, prv, ⟨⟨c', hc', _, _, hf, _, hb⟩, mc, mn⟩, i, c, hi, hc, hnb => by
    by_cases e : j = i
    · subst e
      rw [hc] at hc'; injection hc' with hc'; subst hc'
      have : BT.chainKids j (.node j ch nx) = ch := by simp [BT.chainKids]
      rw [this]
      rcases hb with hb | hb
      · rw [hnb] at hb; cases hb
      · exact BT.rid_none hb
    · simp only [BT.tops, List.mem_cons] at hi
      have hi' : i ∈ nx.tops := by
        rcases hi with h | h
        · exact absurd h.symm e
        · exact h
      have : BT.chainKids i (.node j ch nx) = BT.chainKids i nx := by simp [BT.chainKids, e]
      rw [this]
      exact Match.leaf nx _ _ mn i c hi' hc hnb

/-! ### Addresses of `replLast` -/

theorem BT.mem_replLast (n : Nat) : ∀ (K : BT) (j : Nat), j ∈ (BT.replLast n K).ids → j = n ∨ j ∈ K.ids
  | .nil, j, h => by simp [BT.replLast] at h
  | .node i ch .nil, j, h => by
    simp only [BT.replLast, BT.ids_node, BT.ids_nil, List.append_nil, List.mem_cons, List.not_mem_nil, or_false] at h
    exact Or.inl h
  | .node i ch (.node a c m), j, h => by
    have e : BT.replLast n (.node i ch (.node a c m)) = .node i ch (BT.replLast n (.node a c m)) := rfl
    rw [e] at h
    rcases BT.mem_node.mp h with h | h | h
    · exact Or.inr (BT.mem_node.mpr (Or.inl h))
    · exact Or.inr (BT.mem_node.mpr (Or.inr (Or.inl h)))
    · rcases BT.mem_replLast n (.node a c m) j h with h | h
      · exact Or.inl h
      · exact Or.inr (BT.mem_node.mpr (Or.inr (Or.inr h)))

theorem BT.nodup_replLast (n : Nat) : ∀ (K : BT), K.ids.Nodup → n ∉ K.ids → (BT.replLast n K).ids.Nodup
  | .nil, _, _ => by simp [BT.replLast]
  | .node i ch .nil, _, _ => by simp [BT.replLast]
  | .node i ch (.node a c m), hnd, hn => by
    have e : BT.replLast n (.node i ch (.node a c m)) = .node i ch (BT.replLast n (.node a c m)) := rfl
    rw [e]
    obtain ⟨hi1, hi2, hcn, hnn, hd⟩ := BT.nodup_node.mp hnd
    have hn' := fun h => hn (BT.mem_node.mpr h)
    refine BT.nodup_node.mpr ⟨hi1, ?_, hcn, BT.nodup_replLast n _ hnn (fun h => hn' (Or.inr (Or.inr h))), ?_⟩
    · intro h
      rcases BT.mem_replLast n _ i h with h | h
      · exact hn' (Or.inl h.symm)
      · exact hi2 h
    · intro x hx h
      rcases BT.mem_replLast n _ x h with h | h
      · subst h; exact hn' (Or.inr (Or.inl hx))
      · exact hd x hx h

/-- Everything but the last node (a leaf) survives `replLast`. -/
theorem BT.mem_replLast_of (n l : Nat) : ∀ (K : BT) (j : Nat), K.lastId = some l → BT.chainKids l K = .nil →
    K.ids.Nodup → j ∈ K.ids → j ≠ l → j ∈ (BT.replLast n K).ids
  | .nil, j, h, _, _, _, _ => by simp [BT.lastId] at h
  | .node i ch .nil, j, hl, hk, hnd, hj, hjl => by
    simp only [BT.lastId, Option.some.injEq] at hl; subst hl
    have : BT.chainKids i (.node i ch .nil) = ch := by simp [BT.chainKids]
    rw [this] at hk; subst hk
    rcases BT.mem_node.mp hj with h | h | h
    · exact absurd h hjl
    · simp at h
    · simp at h
  | .node i ch (.node a c m), j, hl, hk, hnd, hj, hjl => by
    have e : BT.replLast n (.node i ch (.node a c m)) = .node i ch (BT.replLast n (.node a c m)) := rfl
    rw [e]
    obtain ⟨hi1, hi2, hcn, hnn, hd⟩ := BT.nodup_node.mp hnd
    have hl' : (BT.node a c m).lastId = some l := by simpa [BT.lastId] using hl
    have hlm : l ∈ (BT.node a c m).ids := BT.tops_sub _ _ (BT.lastId_mem _ _ hl')
    have hil : i ≠ l := fun e => hi2 (e ▸ hlm)
    have hk' : BT.chainKids l (.node a c m) = .nil := by
      have : BT.chainKids l (.node i ch (.node a c m)) = BT.chainKids l (.node a c m) := by
        simp [BT.chainKids, hil]
      rw [← this]; exact hk
    rcases BT.mem_node.mp hj with h | h | h
    · exact BT.mem_node.mpr (Or.inl h)
    · exact BT.mem_node.mpr (Or.inr (Or.inl h))
    · exact BT.mem_node.mpr (Or.inr (Or.inr (BT.mem_replLast_of n l _ j hl' hk' hnn h hjl)))

/-- The `prev` of the last node is never the last node itself. -/
theorem BT.lastPrev_ne_last : ∀ (K : BT) (p : Nat), K.ids.Nodup → p ∉ K.ids → K.lastId ≠ BT.lastPrev (some p) K
  | .nil, p, _, _ => by simp [BT.lastId, BT.lastPrev]
  | .node i ch .nil, p, _, hp => by
    simp only [BT.lastId, BT.lastPrev]
    intro e; injection e with e; subst e
    exact hp (BT.mem_node.mpr (Or.inl rfl))
  | .node i ch (.node a c m), p, hnd, hp => by
    obtain ⟨hi1, hi2, hcn, hnn, hd⟩ := BT.nodup_node.mp hnd
    have e1 : (BT.node i ch (.node a c m)).lastId = (BT.node a c m).lastId := rfl
    have e2 : BT.lastPrev (some p) (.node i ch (.node a c m)) = BT.lastPrev (some i) (.node a c m) := rfl
    rw [e1, e2]
    exact BT.lastPrev_ne_last (.node a c m) i hnn hi2

/-- A chain whose last node has `prev = NULL` is a single node. -/
theorem BT.lastPrev_none : ∀ (K : BT), K ≠ .nil → BT.lastPrev none K = none → ∃ i ch, K = .node i ch .nil
  | .nil, h, _ => absurd rfl h
  | .node i ch .nil, _, _ => ⟨i, ch, rfl⟩
  | .node i ch (.node a c m), _, h => by
    have e2 : BT.lastPrev none (.node i ch (.node a c m)) = BT.lastPrev (some i) (.node a c m) := rfl
    rw [e2] at h
    rcases BT.lastPrev_in (.node a c m) i with h' | ⟨q, h', _⟩
    · rw [h'] at h; cases h
    · rw [h'] at h; cases h

/-- A chain whose last node has a previous sibling `q`: `q` is in the chain, is not the last node,
    and replacing the last node keeps the head. -/
theorem BT.lastPrev_some (n : Nat) : ∀ (K : BT) (q : Nat), BT.lastPrev none K = some q → K.ids.Nodup →
    q ∈ K.ids ∧ (BT.replLast n K).rid = K.rid ∧ K.lastId ≠ some q
  | .nil, q, h, _ => by simp [BT.lastPrev] at h
  | .node i ch .nil, q, h, _ => by simp [BT.lastPrev] at h
  | .node i ch (.node a c m), q, h, hnd => by
    obtain ⟨hi1, hi2, hcn, hnn, hd⟩ := BT.nodup_node.mp hnd
    have e2 : BT.lastPrev none (.node i ch (.node a c m)) = BT.lastPrev (some i) (.node a c m) := rfl
    have e1 : (BT.node i ch (.node a c m)).lastId = (BT.node a c m).lastId := rfl
    rw [e2] at h
    refine ⟨?_, rfl, ?_⟩
    · rcases BT.lastPrev_in (.node a c m) i with h' | ⟨q', h', hm⟩
      · rw [h'] at h; injection h with h; subst h; exact BT.mem_node.mpr (Or.inl rfl)
      · rw [h'] at h; injection h with h; subst h; exact BT.mem_node.mpr (Or.inr (Or.inr hm))
    · rw [e1, ← h]
      exact BT.lastPrev_ne_last (.node a c m) i hnn hi2

/-! ### Rebuilding the forest after a change below one parent -/

/-- What the calls that edit the children chain of `P` have in common: the new top `n` (with its
    sub-tree) leaves the top level, the chain of `P` becomes `k`. -/
theorem Forest.rebuild {s s' : St} {G : BT} (hF : Forest s G) {P n : Nat} (k : BT)
    (hn : n ∈ G.tops) (hroot : s.root ≠ some n) (hP : P ∈ G.ids) (hPn : P ≠ n)
    (hPk : P ∉ (BT.chainKids n G).ids)
    (hroot' : s'.root = s.root)
    (hout : ∀ i, i ∈ (BT.chainRemove n G).ids → i ≠ P → i ∉ (BT.kidsOf P G).ids → s'.cellAt i = s.cellAt i)
    (hPcell : ∃ cP, s.cellAt P = some cP ∧ cP.pay.isBranch = true ∧ s'.cellAt P = some { cP with first := k.rid })
    (hk : Match s'.cellAt (some P) none k)
    (hknd : k.ids.Nodup)
    (hksub : ∀ j, j ∈ k.ids → j ∈ (BT.chainRemove n G).ids → j ∈ (BT.kidsOf P G).ids)
    (hcover : ∀ i c, s'.cellAt i = some c →
      (i ∈ (BT.chainRemove n G).ids ∧ i ∉ (BT.kidsOf P G).ids) ∨ i ∈ k.ids) :
    Forest s' (BT.setKids P k (BT.chainRemove n G)) := by
  have hG1 : (BT.chainRemove n G).ids.Nodup := BT.nodup_chainRemove n G hF.nodup
  have hK : BT.kidsOf P (BT.chainRemove n G) = BT.kidsOf P G := BT.kidsOf_chainRemove P n G hPn hPk
  have hP1 : P ∈ (BT.chainRemove n G).ids := (BT.mem_chainRemove n G P hF.nodup hn).mpr ⟨hP, hPn, hPk⟩
  obtain ⟨cP, hcP, hbr, hcP'⟩ := hPcell
  refine ⟨?_, ?_, ?_, ?_⟩
  · apply Loc.setKids P k (BT.chainRemove n G) none none hG1 _ _ ((loc_some_iff _ k P none).mpr hk)
      (Loc.top_remove _ n G none hF.m)
    · intro i hi hiP hik par prv f nn l
      rw [hK] at hik
      exact LinkF.congr (hout i hi hiP hik) l
    · intro par prv f nn l
      exact LinkF.set_first k.rid hcP hcP' hbr l
  · apply BT.nodup_setKids P k _ hG1 hknd
    intro j hj hj1
    rw [hK]; exact hksub j hj hj1
  · intro i c hc
    rw [BT.mem_setKids P k _ i hG1, hK]
    rcases hcover i c hc with h | h
    · exact Or.inl h
    · exact Or.inr ⟨hP1, h⟩
  · intro r hr
    rw [hroot'] at hr
    rw [BT.tops_setKids]
    exact BT.tops_chainRemove n G r (hF.root r hr) (fun e => hroot (e ▸ hr))

end Wbxml.Model.TreeHeap
