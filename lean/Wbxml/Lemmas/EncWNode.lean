/-
  WBXML encoder proofs: the node walk. `parse_node` on a node (with its children and the element
  END) writes the serialisation of a list of content items of the grammar (`Seg`):

    * the bytes appended to the output are `Spec.serItems items`                      (`out`);
    * the tracked code pages are the pages a reader has after those items             (`pages`);
    * the string table only grows at its end and keeps its invariant                  (`tbl`);
    * every STR_T / literal index in `items` is the offset of a table entry            (`refs`);
    * if no OPAQUE token was written, `items` is well-formed for every reader context
      that agrees with the encoder (`wf`).
-/
import Wbxml.Lemmas.EncWPos
import Wbxml.Lemmas.RtExact
namespace Wbxml.Lemmas.EncW
open Wbxml Wbxml.Model Wbxml.Spec Wbxml.Lemmas.ParseSer Wbxml.Lemmas.Rt
open Wbxml.Model.Codec (mbEncode)

structure Seg (c : WCfg) (st st' : WSt) (items : List Item) : Prop where
  out : st'.out = st.out ++ serItems items
  pages : ∀ ctx own, (evItems ctx own ⟨st.tagPage, st.attrPage⟩ items).2 = ⟨st'.tagPage, st'.attrPage⟩
  tbl : TblExt c st st'
  refs : ∀ off ∈ refsItems items, ∃ e ∈ st'.strtbl, e.offset = off
  wf : ∀ ctx, Compat c st'.strtbl ctx → langOk c.lang = true → OpqCond c (opqsItems items) →
    ∀ own slot, wfItems ctx own slot ⟨st.tagPage, st.attrPage⟩ items = true
  /-- every opaque payload lies inside the bytes written -/
  osz : ∀ d ∈ opqsItems items, d.length ≤ (serItems items).length

theorem Seg.nil (c : WCfg) (st : WSt) : Seg c st st [] :=
  ⟨by rw [serItems_nil, List.append_nil], fun _ _ => by rw [evItems_nil], TblExt.refl _ _,
    (by intro o ho; rw [refsItems_nil] at ho; cases ho), fun _ _ _ _ _ _ => by rw [wfItems],
    (by intro d hd; rw [opqsItems_nil] at hd; cases hd)⟩

theorem Seg.append {c : WCfg} {st st1 st2 : WSt} {a b : List Item} (h1 : Seg c st st1 a) (h2 : Seg c st1 st2 b) :
    Seg c st st2 (a ++ b) := by
  refine ⟨?_, ?_, h1.tbl.trans h2.tbl, ?_, ?_, ?_⟩
  · rw [h2.out, h1.out, serItems_append, List.append_assoc]
  · intro ctx own; rw [evItems_append_pages, h1.pages, h2.pages]
  · intro off ho
    rw [refsItems_append, List.mem_append] at ho
    rcases ho with ho | ho
    · obtain ⟨e, he, heo⟩ := h1.refs off ho
      exact ⟨e, h2.tbl.pre.subset he, heo⟩
    · exact h2.refs off ho
  · intro ctx hc hl hno own slot
    rw [opqsItems_append] at hno
    rw [wfItems_append, h1.wf ctx (hc.mono h2.tbl.pre) hl hno.left own slot, Bool.true_and, h1.pages]
    exact h2.wf ctx hc hl hno.right own _
  · intro d hd
    rw [opqsItems_append, List.mem_append] at hd
    rw [serItems_append, List.length_append]
    rcases hd with hd | hd
    · have := h1.osz d hd; omega
    · have := h2.osz d hd; omega

/-- A state that differs only in fields the grammar does not see. -/
theorem Seg.congr_right {c : WCfg} {st st1 st2 : WSt} {a : List Item} (h : Seg c st st1 a)
    (ho : st2.out = st1.out) (htp : st2.tagPage = st1.tagPage) (hap : st2.attrPage = st1.attrPage)
    (ht : st2.strtbl = st1.strtbl) (hl : st2.strtblLen = st1.strtblLen) : Seg c st st2 a :=
  ⟨ho ▸ h.out, fun ctx own => by rw [htp, hap]; exact h.pages ctx own, h.tbl.trans (TblExt.of_eq ht hl),
    ht ▸ h.refs, ht ▸ h.wf, h.osz⟩

theorem Seg.congr_left {c : WCfg} {st0 st st1 : WSt} {a : List Item} (h : Seg c st st1 a)
    (ho : st.out = st0.out) (htp : st.tagPage = st0.tagPage) (hap : st.attrPage = st0.attrPage)
    (ht : st.strtbl = st0.strtbl) (hl : st.strtblLen = st0.strtblLen) : Seg c st0 st1 a :=
  ⟨ho ▸ h.out, fun ctx own => by rw [← htp, ← hap]; exact h.pages ctx own,
    (TblExt.of_eq ht hl).trans h.tbl, h.refs, fun ctx hc hlk hno own slot => by
      rw [← htp, ← hap]; exact h.wf ctx hc hlk hno own slot, h.osz⟩

theorem leaves_osz (c : WCfg) (tbl) (items : List Item) (h : ∀ it ∈ items, Leaf c tbl it) :
    ∀ d ∈ opqsItems items, d.length ≤ (serItems items).length := by
  induction items with
  | nil => intro d hd; rw [opqsItems_nil] at hd; cases hd
  | cons it rest ih =>
    intro d hd
    rw [opqsItems_cons, List.mem_append] at hd
    rw [serItems_cons, List.length_append]
    rcases hd with hd | hd
    · cases h it List.mem_cons_self with
      | inl s _ => rw [opqsItem_str] at hd; cases hd
      | ref o _ => rw [opqsItem_str] at hd; cases hd
      | ext v _ _ => rw [opqsItem_ext] at hd; cases hd
      | opq d' =>
        rw [opqsItem_opaque, List.mem_singleton] at hd
        subst hd
        rw [serItem_opaque]
        simp only [serOpaque, List.length_cons, List.length_append]
        omega
    · have := ih (fun x hx => h x (List.mem_cons_of_mem _ hx)) d hd
      omega

theorem opqsAVals_le (vs : List AVal) : ∀ d ∈ opqsAVals vs, d.length ≤ (serAVals vs).length := by
  induction vs with
  | nil => intro d hd; cases hd
  | cons v rest ih =>
    intro d hd
    simp only [opqsAVals, List.mem_append] at hd
    simp only [serAVals, List.length_append]
    rcases hd with hd | hd
    · cases v with
      | «opaque» d' =>
        simp only [opqsAVal, List.mem_singleton] at hd
        subst hd
        simp only [serAVal, serOpaque, List.length_cons, List.length_append]
        omega
      | tok sw t => cases hd
      | str s => cases hd
      | entity cd => cases hd
      | ext sw x => cases hd
    · have := ih d hd; omega

theorem opqsAttrs_le (as : List Attribute) : ∀ d ∈ opqsAttrs as, d.length ≤ (serAttrs as).length := by
  induction as with
  | nil => intro d hd; cases hd
  | cons a rest ih =>
    intro d hd
    simp only [opqsAttrs, List.mem_append] at hd
    simp only [serAttrs, List.length_append]
    rcases hd with hd | hd
    · have := opqsAVals_le a.vals d hd
      simp only [serAttr, List.length_append]
      omega
    · have := ih d hd; omega

/-- Leaves written without touching pages or table. -/
theorem Seg.leaves (c : WCfg) (st st' : WSt) (items : List Item) (hleaf : ∀ it ∈ items, Leaf c st.strtbl it)
    (ho : st'.out = st.out ++ serItems items) (htp : st'.tagPage = st.tagPage) (hap : st'.attrPage = st.attrPage)
    (ht : st'.strtbl = st.strtbl) (hl : st'.strtblLen = st.strtblLen) : Seg c st st' items := by
  refine ⟨ho, ?_, TblExt.of_eq ht hl, ?_, ?_, leaves_osz c st.strtbl items hleaf⟩
  · intro ctx own; rw [leaves_page c st.strtbl ctx own _ items hleaf, htp, hap]
  · rw [ht]; exact leaves_refs c st.strtbl items hleaf
  · intro ctx hc hlk hno own slot
    rw [ht] at hc
    exact leaves_wf c st.strtbl ctx hc hlk own slot _ items hleaf hno

theorem refsItems_single (it : Item) : refsItems [it] = refsItem it := by
  rw [refsItems_cons, refsItems_nil, List.append_nil]
theorem opqsItems_single (it : Item) : opqsItems [it] = opqsItem it := by
  rw [opqsItems_cons, opqsItems_nil, List.append_nil]
theorem serItems_single (it : Item) : serItems [it] = serItem it := by
  rw [serItems_cons, serItems_nil, List.append_nil]
theorem evItems_single_pages (ctx own pg) (it : Item) : (evItems ctx own pg [it]).2 = (evItem ctx own pg it).2 := by
  rw [evItems_cons, evItems_nil]
theorem evItems_single_events (ctx own pg) (it : Item) : (evItems ctx own pg [it]).1 = (evItem ctx own pg it).1 := by
  rw [evItems_cons, evItems_nil, List.append_nil]
theorem wfItems_single (ctx own slot pg) (it : Item) : wfItems ctx own slot pg [it] = wfItem ctx own slot pg it := by
  rw [wfItems_cons, wfItems, Bool.and_true]

/-- An element with content: start, children, END. -/
theorem Seg.elem_content (c : WCfg) (nm : Bytes) (src : List (Bytes × Bytes)) (st st1 st2 : WSt) (sw tag as) (items : List Item)
    (hs : StartRes c nm src st st1 true sw tag as) (hk : Seg c st1 st2 items) :
    Seg c st (st2.emit [0x01]) [.elem (.mk sw tag as (some items))] := by
  have hattrs : ∀ d ∈ opqsAttrs as, d.length ≤ (serElem (.mk sw tag as (some items))).length := by
    intro d hd
    have h1 := opqsAttrs_le as d hd
    rw [serElem_mk]
    cases as with
    | nil => cases hd
    | cons a rest =>
      simp only [List.isEmpty_cons, Bool.false_eq_true, ↓reduceIte, List.length_append]
      omega
  refine ⟨?_, ?_, hs.tbl.trans (hk.tbl.trans (TblExt.of_eq rfl rfl)), ?_, ?_, ?_⟩
  · rw [serItems_single, serItem_elem, serElem_mk, serContent_some, emit_out, hk.out, hs.out]
    simp
  · intro ctx own
    rw [evItems_single_pages, evItem_elem, evElem_mk, evContent_some]
    simp only [emit_tagPage, emit_attrPage]
    rw [← hs.tp, ← hs.ap ctx]
    exact hk.pages ctx _
  · intro off ho
    rw [refsItems_single, refsItem_elem, refsElem_mk, refsContent_some] at ho
    simp only [List.mem_append] at ho
    show ∃ e ∈ st2.strtbl, _
    rcases ho with ho | ho | ho
    · obtain ⟨e, he, heo⟩ := tagOk_refs c _ _ _ _ _ hs.tag off ho
      exact ⟨e, hk.tbl.pre.subset he, heo⟩
    · obtain ⟨e, he, heo⟩ := hs.refs off ho
      exact ⟨e, hk.tbl.pre.subset he, heo⟩
    · exact hk.refs off ho
  · intro ctx hc hl hno own slot
    have hc2 : Compat c st2.strtbl ctx := hc
    have hc1 : Compat c st1.strtbl ctx := hc2.mono hk.tbl.pre
    rw [opqsItems_single, opqsItem_elem, opqsElem_mk, opqsContent_some] at hno
    have hna : opqsAttrs as = [] := by
      rcases hno.left with h | ⟨hu, _⟩
      · exact h
      · exact hs.noopq (untyped_noTypedAttr _ hu)
    have htag := tagOk_wf c _ _ _ _ _ hs.tag ctx hc1 hl
    rw [wfItems_single, wfItem_elem, wfElem_mk, wfContent_some, htag.1, htag.2, hs.wf ctx hc1 hl hna]
    simp only [Bool.and_self, Bool.true_and]
    rw [← hs.tp, ← hs.ap ctx]
    exact hk.wf ctx hc2 hl hno.right _ _
  · intro d hd
    rw [opqsItems_single, opqsItem_elem, opqsElem_mk, opqsContent_some, List.mem_append] at hd
    rw [serItems_single, serItem_elem]
    rcases hd with hd | hd
    · exact hattrs d hd
    · have := hk.osz d hd
      rw [serElem_mk, serContent_some]
      simp only [List.length_append]
      omega

/-- An element without content. -/
theorem Seg.elem_empty (c : WCfg) (nm : Bytes) (src : List (Bytes × Bytes)) (st st1 : WSt) (sw tag as)
    (hs : StartRes c nm src st st1 false sw tag as) :
    Seg c st st1 [.elem (.mk sw tag as none)] := by
  refine ⟨?_, ?_, hs.tbl, ?_, ?_, ?_⟩
  · rw [serItems_single, serItem_elem, serElem_mk, serContent_none, hs.out]
    simp
  · intro ctx own
    rw [evItems_single_pages, evItem_elem, evElem_mk, evContent_none]
    simp only
    rw [← hs.tp, ← hs.ap ctx]
  · intro off ho
    rw [refsItems_single, refsItem_elem, refsElem_mk, refsContent_none] at ho
    simp only [List.mem_append, List.append_nil] at ho
    rcases ho with ho | ho
    · exact tagOk_refs c _ _ _ _ _ hs.tag off ho
    · exact hs.refs off ho
  · intro ctx hc hl hno own slot
    rw [opqsItems_single, opqsItem_elem, opqsElem_mk, opqsContent_none, List.append_nil] at hno
    have hna : opqsAttrs as = [] := by
      rcases hno with h | ⟨hu, _⟩
      · exact h
      · exact hs.noopq (untyped_noTypedAttr _ hu)
    have htag := tagOk_wf c _ _ _ _ _ hs.tag ctx hc hl
    rw [wfItems_single, wfItem_elem, wfElem_mk, htag.1, htag.2, hs.wf ctx hc hl hna, wfContent]
    rfl
  · intro d hd
    rw [opqsItems_single, opqsItem_elem, opqsElem_mk, opqsContent_none, List.append_nil] at hd
    rw [serItems_single, serItem_elem, serElem_mk]
    have h1 := opqsAttrs_le as d hd
    cases as with
    | nil => cases hd
    | cons a rest =>
      simp only [List.isEmpty_cons, Bool.false_eq_true, ↓reduceIte, List.length_append]
      omega


def isElt : Node → Bool
  | .elt _ _ _ => true
  | _ => false

/-! ### The source view (what C03 compares)

  `srcToks c n` is the XML-level view (`Tok`) of a node under the documented normalisations:
  element names and attribute names as XML names, attribute values as C strings with the trailing
  NUL the handlers get, attributes dropped for a language without attribute table, character data
  `normText` octet by octet. It is defined without any encoder state. -/

/-- Languages whose content the encoder never types: not Wireless Village, not DRMREL, no
    binary-flagged tags. -/
def plainLang (l : Lang) : Bool :=
  !isWv l.id && !(l.id == 1801) &&
  (match l.tags with | some t => t.all (fun r => r.opts &&& 1 == 0) | none => true)

mutual
/-- No CDATA section and no embedded document below. -/
def plainNode : Node → Bool
  | .elt _ _ kids => plainNodes kids
  | .text _ => true
  | .cdata _ => false
  | .tree _ _ _ => false
def plainNodes : List Node → Bool
  | [] => true
  | n :: r => plainNode n && plainNodes r
end

mutual
def srcToks (c : WCfg) : Node → List Tok
  | .elt name attrs kids => .start name.cName (srcAttrsView c attrs) :: (srcToksL c kids ++ [.stop name.cName])
  | .text s => (normText c s).map .ch
  | .cdata _ => []
  | .tree _ _ _ => []
def srcToksL (c : WCfg) : List Node → List Tok
  | [] => []
  | n :: r => srcToks c n ++ srcToksL c r
end

theorem evItems_append_events (c : Ctx) (own) (pg : Pages) (a b : List Item) :
    (evItems c own pg (a ++ b)).1 = (evItems c own pg a).1 ++ (evItems c own (evItems c own pg a).2 b).1 := by
  induction a generalizing pg with
  | nil => simp [evItems_nil]
  | cons x xs ih => simp only [List.cons_append, evItems_cons, ih, List.append_assoc]

theorem plainLang_found (c : WCfg) (name : Name) (st : WSt) (hn : nameOver c.lang name = true)
    (hp : plainLang c.lang = true) : isBinaryTag (foundOf c name st) = false := by
  cases hf : foundOf c name st with
  | none => rfl
  | some r =>
    obtain ⟨tags, ht, hm⟩ := foundOf_mem c name st hn r hf
    simp only [plainLang, ht, Bool.and_eq_true, List.all_eq_true, beq_iff_eq] at hp
    simp [isBinaryTag, hp.2 r hm]

/-- What a reader makes of the items written for a plain node is the source view. -/
def ViewN (c : WCfg) (n : Node) (st st' : WSt) (items : List Item) : Prop :=
  plainNode n = true → plainLang c.lang = true → noTypedAttr c.lang.id = true →
    st.inCdata = false → isBinaryTag st.curTag = false →
    st'.inCdata = false ∧ opqsItems items = [] ∧
    ∀ ctx : Ctx, Rd c st'.strtbl ctx → ∀ own,
      (evItems ctx own ⟨st.tagPage, st.attrPage⟩ items).1.flatMap toks = srcToks c n

def ViewL (c : WCfg) (l : List Node) (st st' : WSt) (items : List Item) : Prop :=
  plainNodes l = true → plainLang c.lang = true → noTypedAttr c.lang.id = true →
    st.inCdata = false → isBinaryTag st.curTag = false →
    st'.inCdata = false ∧ isBinaryTag st'.curTag = false ∧ opqsItems items = [] ∧
    ∀ ctx : Ctx, Rd c st'.strtbl ctx → ∀ own,
      (evItems ctx own ⟨st.tagPage, st.attrPage⟩ items).1.flatMap toks = srcToksL c l

/-! ### The typed source view (every language but Wireless Village / OTA settings)

  `vNode c parent cur tp n` is the XML-level view a reader has of what the encoder writes for the
  node `n` — typed content included: `%Datetime` attribute values (`vAttrValue`), text under a
  DRMREL `ds:KeyValue` and under a binary-flagged tag (`vText`), names as the reader's table
  resolves the token written (`nameView`: the first alias). It depends on the POSITION (name of the
  enclosing element, `current_tag`, tag code page in force — the page decides which row a literal
  name is resolved to) but on NO encoder option other than the language and the white-space policy
  and on no encoder state: it is defined by recursion over the source tree alone. -/

/-- `current_tag` after the tag of a node called `name`, given the tag page in force. -/
def foundAt (l : Lang) (tp : Nat) : Name → Option TagRow
  | .token r => some r
  | .literal s =>
    match l.tags with
    | some tags => encTag tags (some tp) (cstrOf s)
    | none => none

theorem foundOf_eq_foundAt (c : WCfg) (name : Name) (st : WSt) : foundOf c name st = foundAt c.lang st.tagPage name := by
  cases name <;> rfl

/-- The tag page in force after the tag. -/
def pageAfter (f : Option TagRow) (tp : Nat) : Nat :=
  match f with
  | some r => r.page % 256
  | none => tp

theorem tagLink_page (c : WCfg) (name : Name) (st : WSt) (sw tag) (h : TagLink c name st sw tag) :
    swPage sw st.tagPage = pageAfter (foundOf c name st) st.tagPage := by
  unfold TagLink at h
  cases hf : foundOf c name st with
  | some r => rw [hf] at h; rw [h.1, swPage_swFor]; rfl
  | none => rw [hf] at h; rw [h.1]; rfl

mutual
def vNode (c : WCfg) (parent : Option Name) (cur : Option TagRow) (tp : Nat) : Node → List Tok × Nat
  | .elt name attrs kids =>
    (.start (nameView c.lang (foundAt c.lang tp name) name.cName) (vAttrs c attrs) ::
      ((vNodes c (some name) (foundAt c.lang tp name) (pageAfter (foundAt c.lang tp name) tp) kids).1 ++
        [.stop (nameView c.lang (foundAt c.lang tp name) name.cName)]),
     (vNodes c (some name) (foundAt c.lang tp name) (pageAfter (foundAt c.lang tp name) tp) kids).2)
  | .text s => ((vText c parent cur s).map .ch, tp)
  | .cdata _ => ([], tp)
  | .tree _ _ _ => ([], tp)
def vNodes (c : WCfg) (parent : Option Name) (cur : Option TagRow) (tp : Nat) : List Node → List Tok × Nat
  | [] => ([], tp)
  | n :: r =>
    ((vNode c parent cur tp n).1 ++ (vNodes c parent none (vNode c parent cur tp n).2 r).1,
     (vNodes c parent none (vNode c parent cur tp n).2 r).2)
end

/-- What a reader at the same position (`Pos`) makes of the items written for a plain node is the
    typed source view; the tag page afterwards is the one the view computes. -/
def ViewT (c : WCfg) (parent : Option Name) (n : Node) (st st' : WSt) (items : List Item) : Prop :=
  plainNode n = true → isWv c.lang.id = false → (c.lang.id == 1901) = false → st.inCdata = false →
    st'.inCdata = false ∧ st'.tagPage = (vNode c parent st.curTag st.tagPage n).2 ∧
    ∀ ctx : Ctx, RdT c st'.strtbl ctx → ∀ (ty pre : Bool) (own slot : Option TagRow),
      Pos c ctx parent st.curTag ty pre own slot →
      (evItems ctx own ⟨st.tagPage, st.attrPage⟩ items).1.flatMap toks = (vNode c parent st.curTag st.tagPage n).1

def ViewTL (c : WCfg) (parent : Option Name) (l : List Node) (st st' : WSt) (items : List Item) : Prop :=
  plainNodes l = true → isWv c.lang.id = false → (c.lang.id == 1901) = false → st.inCdata = false →
    st'.inCdata = false ∧ st'.tagPage = (vNodes c parent st.curTag st.tagPage l).2 ∧
    ∀ ctx : Ctx, RdT c st'.strtbl ctx → ∀ (ty pre : Bool) (own slot : Option TagRow),
      Pos c ctx parent st.curTag ty pre own slot →
      (evItems ctx own ⟨st.tagPage, st.attrPage⟩ items).1.flatMap toks = (vNodes c parent st.curTag st.tagPage l).1

/-! ### The exact round-trip tree (every language but Wireless Village / OTA settings)

  `xNode c parent cur tp n` is the TREE a reader builds from what the encoder writes for the plain
  node `n` — same recursion, same position arguments as `vNode`, but it returns a `Node`: element
  names with their representation (`exactName`: the first row with the page and token of the row
  found, or a literal), attributes `xAttr` (`exactAName` of `startRow`, value `vAttrValue`),
  character data `vText`, children folded with `addN` (empty text dropped, adjacent text merged).
  The tag page is threaded through `vNode`'s second component. -/

mutual
def xNode (c : WCfg) (parent : Option Name) (cur : Option TagRow) (tp : Nat) : Node → Node
  | .elt name attrs kids =>
    .elt (exactName c.lang (foundAt c.lang tp name) name.cName) (xAttrs c attrs)
      (xKids c (some name) (foundAt c.lang tp name) (pageAfter (foundAt c.lang tp name) tp) kids [])
  | .text s => .text (vText c parent cur s)
  | .cdata kids => .cdata kids
  | .tree l cs r => .tree l cs r
def xKids (c : WCfg) (parent : Option Name) (cur : Option TagRow) (tp : Nat) : List Node → List Node → List Node
  | [], acc => acc
  | n :: r, acc => xKids c parent none (vNode c parent cur tp n).2 r (addN acc (xNode c parent cur tp n))
end

/-- The children a reader at the same position (`Pos`) reads off the items written for a plain node
    are the children so far plus the exact node `xNode`. -/
def TreeT (c : WCfg) (parent : Option Name) (n : Node) (st st' : WSt) (items : List Item) : Prop :=
  plainNode n = true → isWv c.lang.id = false → (c.lang.id == 1901) = false → st.inCdata = false →
    ∀ ctx : Ctx, RdT c st'.strtbl ctx → ∀ (ty pre : Bool) (own slot : Option TagRow),
      Pos c ctx parent st.curTag ty pre own slot → ∀ acc : List Node,
      kidsOfItems ctx own ⟨st.tagPage, st.attrPage⟩ items acc = addN acc (xNode c parent st.curTag st.tagPage n)

def TreeTL (c : WCfg) (parent : Option Name) (l : List Node) (st st' : WSt) (items : List Item) : Prop :=
  plainNodes l = true → isWv c.lang.id = false → (c.lang.id == 1901) = false → st.inCdata = false →
    ∀ ctx : Ctx, RdT c st'.strtbl ctx → ∀ (ty pre : Bool) (own slot : Option TagRow),
      Pos c ctx parent st.curTag ty pre own slot → ∀ acc : List Node,
      kidsOfItems ctx own ⟨st.tagPage, st.attrPage⟩ items acc = xKids c parent st.curTag st.tagPage l acc

/-- An element is well-formed for a reader at `Pos` when its attributes are and its content is for
    the reader position of the children. -/
theorem wfT_elem (c : WCfg) (name : Name) (src : List (Bytes × Bytes)) (st st1 : WSt) (hasC : Bool) (sw tag as)
    (hs : StartRes c name.cName src st st1 hasC sw tag as) (hlink : TagLink c name st sw tag)
    (hn : nameOver c.lang name = true) (hl : langOk c.lang = true)
    (ctx : Ctx) (hc1 : Compat c st1.strtbl ctx) (hattrs : wfAttrs ctx st.attrPage as = true)
    (parent : Option Name) (cur : Option TagRow) (ty pre : Bool) (own slot : Option TagRow)
    (hpos : Pos c ctx parent cur ty pre own slot) (content : Option (List Item))
    (hkids : ∀ own' slot', Pos c ctx (some name) (foundOf c name st) (kidsTy c.lang ty name) true own' slot' →
      wfContent ctx own' slot' ⟨swPage sw st.tagPage, (evAttrs ctx st.attrPage as).2⟩ content = true) :
    wfItems ctx own slot ⟨st.tagPage, st.attrPage⟩ [.elem (.mk sw tag as content)] = true := by
  have htag := tagOk_wf c _ _ _ _ _ hs.tag ctx hc1 hl
  rw [wfItems_single, wfItem_elem, wfElem_mk, htag.1, htag.2, hattrs]
  simp only [Bool.and_self, Bool.true_and]
  exact hkids _ _ (hpos.kids hc1.lang hl name hn st sw tag hlink)

/-- **Typed content included**: under the source hypotheses (each one a recorded finding, see
    `Lemmas/EncWTyped.lean`) the items written for a node are well-formed for every reader context
    that agrees with the encoder and stands at the same position (`Pos`). -/
def WfN (c : WCfg) (parent : Option Name) (n : Node) (st st' : WSt) (items : List Item) : Prop :=
  ∀ (ty pre : Bool), typedLangOk c.lang = true →
    noCdataInTyped c.lang ty n = true → validDatetimeAttrs c.lang n = true →
    b64TextDecodes c parent n = true → keyValueTextFirst c parent pre n = true →
    ∀ ctx, Compat c st'.strtbl ctx → (∀ d ∈ opqsItems items, d.length < 4294967296) →
    ∀ own slot, Pos c ctx parent st.curTag ty pre own slot →
      wfItems ctx own slot ⟨st.tagPage, st.attrPage⟩ items = true

def WfL (c : WCfg) (parent : Option Name) (l : List Node) (st st' : WSt) (items : List Item) : Prop :=
  ∀ (ty pre : Bool), typedLangOk c.lang = true →
    noCdataInTypedL c.lang ty l = true → validDatetimeAttrsL c.lang l = true →
    b64TextDecodesL c parent l = true → keyValueTextFirstL c parent pre l = true →
    ∀ ctx, Compat c st'.strtbl ctx → (∀ d ∈ opqsItems items, d.length < 4294967296) →
    ∀ own slot, Pos c ctx parent st.curTag ty pre own slot →
      wfItems ctx own slot ⟨st.tagPage, st.attrPage⟩ items = true

/-- **The node walk writes content items of the grammar** (`Seg`), for every node (any depth, any
    language whose tables satisfy `langOk`, any tree over that language) and every state that
    satisfies the string-table invariant; an element node yields exactly one element; `current_tag`
    is NULL after every node; and for plain nodes of plain languages a reader that resolves the
    encoder's table reads back the source view (`ViewN`). -/
theorem encNode_seg :
    (∀ (c : WCfg) (parent : Option Name) (encEnd : Bool) (n : Node) (st : WSt), encEnd = true →
      langOk c.lang = true → nodeOver c.lang n = true → StrInv st →
      ∀ st', encNodeG c parent encEnd n st = .ok st' →
        ∃ items, Seg c st st' items ∧ (isElt n = true → ∃ e, items = [.elem e]) ∧
          st'.curTag = none ∧ ViewN c n st st' items ∧ WfN c parent n st st' items ∧
          (isTextN n = true → ∀ slot, slotEnd slot items = slot) ∧ ViewT c parent n st st' items ∧
          TreeT c parent n st st' items) ∧
    (∀ (c : WCfg) (parent : Option Name) (l : List Node) (st : WSt),
      langOk c.lang = true → nodesOver c.lang l = true → StrInv st →
      ∀ st', encNodesW c parent l st = .ok st' →
        ∃ items, Seg c st st' items ∧ ViewL c l st st' items ∧ WfL c parent l st st' items ∧
          ViewTL c parent l st st' items ∧ TreeTL c parent l st st' items) := by
  apply encNodeG.mutual_induct
    (motive_1 := fun c parent encEnd n st => encEnd = true →
      langOk c.lang = true → nodeOver c.lang n = true → StrInv st →
      ∀ st', encNodeG c parent encEnd n st = .ok st' →
        ∃ items, Seg c st st' items ∧ (isElt n = true → ∃ e, items = [.elem e]) ∧
          st'.curTag = none ∧ ViewN c n st st' items ∧ WfN c parent n st st' items ∧
          (isTextN n = true → ∀ slot, slotEnd slot items = slot) ∧ ViewT c parent n st st' items ∧
          TreeT c parent n st st' items)
    (motive_2 := fun c parent l st =>
      langOk c.lang = true → nodesOver c.lang l = true → StrInv st →
      ∀ st', encNodesW c parent l st = .ok st' →
        ∃ items, Seg c st st' items ∧ ViewL c l st st' items ∧ WfL c parent l st st' items ∧
          ViewTL c parent l st st' items ∧ TreeTL c parent l st st' items)
  · -- element
    intro c parent encEnd name attrs kids st ih hend hl hover hinv st' h
    subst hend
    rw [nodeOver, Bool.and_eq_true, Bool.and_eq_true] at hover
    obtain ⟨⟨hname, hattrs⟩, hkids⟩ := hover
    simp only [encNodeG] at h
    obtain ⟨st1, h1, h⟩ := bind_ok' h
    obtain ⟨st2, h2, h⟩ := bind_ok' h
    have h3 := ok_inj h
    obtain ⟨sw, tag, as, hs, hlink, hwfA, hvA, hxA⟩ := encElementStartW_spec' c name attrs (!kids.isEmpty) st st1 hl hname hattrs h1
    have hpageT := tagLink_page c name st sw tag hlink
    have hcur := encElementStartW_cur c _ name attrs _ st st1 h1
    -- the reader's start and end events for this element
    have hname_view : ∀ ctx : Ctx, Rd c st1.strtbl ctx →
        (tagName ctx (swPage sw st.tagPage) tag).1.xmlName = name.cName :=
      fun ctx hr => tagOk_name c _ _ _ _ _ hs.tag ctx hr (nameOver_nulFree c name hname hr.ts)
    cases kids with
    | nil =>
      simp only [encNodesW] at h2
      have := ok_inj h2
      subst this
      simp only [List.isEmpty_nil, Bool.not_true, Bool.and_false, Bool.false_eq_true, ↓reduceIte] at h3 hs
      subst h3
      refine ⟨_, (Seg.elem_empty c _ _ st st1 sw tag as hs).congr_right rfl rfl rfl rfl rfl, fun _ => ⟨_, rfl⟩, rfl, ?_,
        ?_, fun h => (by cases h), ?_, ?_⟩
      rotate_left
      · intro ty pre htl _ h2 h3 _ ctx hc _ own slot hpos
        rw [validDatetimeAttrs, Bool.and_eq_true] at h2
        rw [b64TextDecodes, Bool.and_eq_true] at h3
        have hc1 : Compat c st1.strtbl ctx := hc
        exact wfT_elem c name _ st st1 _ sw tag as hs hlink hname hl ctx hc1 (hwfA ctx hc1 hl htl h2.1 h3.1)
          parent st.curTag ty pre own slot hpos none (fun _ _ _ => by rw [wfContent])
      · intro _ _ hno hcd
        refine ⟨by show st1.inCdata = false; rw [hcur.1, hcd], ?_, ?_⟩
        · show st1.tagPage = _
          rw [hs.tp, hpageT, foundOf_eq_foundAt]
          simp only [vNode, vNodes]
        · intro ctx hr ty pre own slot _
          have hr1 : RdT c st1.strtbl ctx := hr
          have hnm := tagLink_name c name st st1.strtbl sw tag hs.tag hlink hname ctx hr1.lang hl hr1.res
          rw [evItems_single_events, evItem_elem, evElem_mk, evContent_none]
          simp only [List.nil_append, List.flatMap_cons, List.flatMap_nil, toks, List.append_nil,
            hnm, hvA ctx hr1 hno, vNode, vNodes, foundOf_eq_foundAt]
          rfl
      · intro _ _ hno _ ctx hr ty pre own slot _ acc
        have hr1 : RdT c st1.strtbl ctx := hr
        have hnm := tagLink_exact c name st st1.strtbl sw tag hs.tag hlink hname ctx hr1.lang hl hr1.res
        rw [kidsOfItems_single, kidOfItem_elem, nodeOfElem_mk, kidsOfContent_none, hnm, hxA ctx hr1 hno,
          foundOf_eq_foundAt]
        simp only [xNode, xKids, addN]
      intro _ _ hnta hcd _
      refine ⟨by show st1.inCdata = false; rw [hcur.1, hcd], ?_, ?_⟩
      · rw [opqsItems_single, opqsItem_elem, opqsElem_mk, opqsContent_none, hs.noopq hnta]; rfl
      intro ctx hr own
      have hr1 : Rd c st1.strtbl ctx := hr
      rw [evItems_single_events, evItem_elem, evElem_mk, evContent_none]
      simp only [List.nil_append, List.flatMap_cons, List.flatMap_nil, toks, List.append_nil,
        hname_view ctx hr1, hs.attrsView ctx hr1, srcToks, srcToksL]
      rfl
    | cons k ks =>
      simp only [List.isEmpty_cons, Bool.not_false, Bool.and_self, ↓reduceIte] at h3 hs
      obtain ⟨items, hk, hkv, hkw, hkT, hkX⟩ := ih st1 hl hkids (hs.tbl.inv hinv) st2 h2
      subst h3
      refine ⟨_, (Seg.elem_content c _ _ st st1 st2 sw tag as items hs hk).congr_right rfl rfl rfl rfl rfl,
        fun _ => ⟨_, rfl⟩, rfl, ?_, ?_, fun h => (by cases h), ?_, ?_⟩
      rotate_left
      · intro ty pre htl h1' h2' h3' h4' ctx hc hsz own slot hpos
        rw [noCdataInTyped] at h1'
        rw [validDatetimeAttrs, Bool.and_eq_true] at h2'
        rw [b64TextDecodes, Bool.and_eq_true] at h3'
        rw [keyValueTextFirst] at h4'
        have hc2 : Compat c st2.strtbl ctx := hc
        have hc1 : Compat c st1.strtbl ctx := hc2.mono hk.tbl.pre
        refine wfT_elem c name _ st st1 _ sw tag as hs hlink hname hl ctx hc1 (hwfA ctx hc1 hl htl h2'.1 h3'.1)
          parent st.curTag ty pre own slot hpos (some items) ?_
        intro own' slot' hpos'
        rw [wfContent_some, ← hs.tp, ← hs.ap ctx]
        refine hkw _ true htl h1' h2'.2 h3'.2 h4' ctx hc2 ?_ own' slot' (by rw [hcur.2]; exact hpos')
        intro d hd
        exact hsz d (by rw [opqsItems_single, opqsItem_elem, opqsElem_mk, opqsContent_some]
                        exact List.mem_append_right _ hd)
      · intro hpn hnw hno hcd
        rw [plainNode] at hpn
        obtain ⟨hcd2, htp2, hviewT⟩ := hkT hpn hnw hno (by rw [hcur.1, hcd])
        rw [hcur.2, hs.tp, hpageT, foundOf_eq_foundAt] at htp2
        refine ⟨hcd2, ?_, ?_⟩
        · show st2.tagPage = _
          rw [htp2]
          simp only [vNode]
        · intro ctx hr ty pre own slot hpos
          have hr2 : RdT c st2.strtbl ctx := hr
          have hr1 : RdT c st1.strtbl ctx := hr2.mono hk.tbl.pre
          have hnm := tagLink_name c name st st1.strtbl sw tag hs.tag hlink hname ctx hr1.lang hl hr1.res
          have hposK := hpos.kids hr1.lang hl name hname st sw tag hlink
          have hbody := hviewT ctx hr2 _ true _ _ (by rw [hcur.2]; exact hposK)
          rw [hcur.2, hs.tp, hs.ap ctx, hpageT, foundOf_eq_foundAt] at hbody
          rw [evItems_single_events, evItem_elem, evElem_mk, evContent_some]
          rw [hpageT, foundOf_eq_foundAt] at hnm ⊢
          simp only [List.flatMap_cons, List.flatMap_append, List.flatMap_nil, toks, List.append_nil,
            hnm, hvA ctx hr1 hno, hbody, vNode]
          rfl
      · intro hpn hnw hno hcd ctx hr ty pre own slot hpos acc
        rw [plainNode] at hpn
        have hr2 : RdT c st2.strtbl ctx := hr
        have hr1 : RdT c st1.strtbl ctx := hr2.mono hk.tbl.pre
        have hnm := tagLink_exact c name st st1.strtbl sw tag hs.tag hlink hname ctx hr1.lang hl hr1.res
        have hposK := hpos.kids hr1.lang hl name hname st sw tag hlink
        have hbody := hkX hpn hnw hno (by rw [hcur.1, hcd]) ctx hr2 _ true _ _ (by rw [hcur.2]; exact hposK) []
        rw [hcur.2, hs.tp, hs.ap ctx, hpageT, foundOf_eq_foundAt] at hbody
        rw [kidsOfItems_single, kidOfItem_elem, nodeOfElem_mk, kidsOfContent_some, hnm, hxA ctx hr1 hno, hpageT,
          foundOf_eq_foundAt, hbody]
        simp only [xNode, addN]
      intro hpn hpl hnta hcd _
      rw [plainNode] at hpn
      obtain ⟨hcd2, _, hnoq, hview⟩ := hkv hpn hpl hnta (by rw [hcur.1, hcd])
        (by rw [hcur.2]; exact plainLang_found c name st hname hpl)
      refine ⟨hcd2, ?_, ?_⟩
      · rw [opqsItems_single, opqsItem_elem, opqsElem_mk, opqsContent_some, hs.noopq hnta, hnoq]; rfl
      intro ctx hr own
      have hr2 : Rd c st2.strtbl ctx := hr
      have hr1 : Rd c st1.strtbl ctx := hr2.mono hk.tbl.pre
      rw [evItems_single_events, evItem_elem, evElem_mk, evContent_some]
      have hbody := hview ctx hr2 (tagName ctx (swPage sw st.tagPage) tag).2
      rw [hs.tp, hs.ap ctx] at hbody
      simp only [List.flatMap_cons, List.flatMap_append, List.flatMap_nil, toks, List.append_nil,
        hname_view ctx hr1, hs.attrsView ctx hr1, hbody, srcToks]
      rfl
  · -- text
    intro c parent encEnd s st _ hl _ hinv st' h
    simp only [encNodeG] at h
    obtain ⟨st1, h1, h⟩ := bind_ok' h
    have h3 := ok_inj h
    subst h3
    obtain ⟨items, hleaf, ho, htp, hap, ht, hlen, hcdeq, hv, hout, hvT⟩ := encTextW_spec' c parent s st st1 hinv h1
    refine ⟨items, (Seg.leaves c st st1 items hleaf ho htp hap ht hlen).congr_right rfl rfl rfl rfl rfl,
      fun h => (by cases h), rfl, ?_, ?_, fun _ slot => slotEnd_leaves c st.strtbl slot items hleaf, ?_, ?_⟩
    rotate_left
    · intro ty pre htl _ _ h3 h4 ctx hc hsz own slot hpos
      have hc0 : Compat c st.strtbl ctx := by
        have : st1.strtbl = st.strtbl := ht
        exact ⟨hc.lang, hc.cs, fun e he => hc.offs e (by show e ∈ st1.strtbl; rw [this]; exact he)⟩
      exact text_wfT c parent s st items hleaf hout hl htl ty pre h3 h4 ctx hc0 hsz own slot hpos _
    · intro _ hnw _ hcd
      refine ⟨by show st1.inCdata = false; rw [hcdeq, hcd], by show st1.tagPage = _; rw [htp]; simp only [vNode], ?_⟩
      intro ctx hr ty pre own slot hpos
      have hres : Resolves ctx.tbl st.strtbl := by
        have : st1.strtbl = st.strtbl := ht
        intro e he; exact hr.res e (by show e ∈ st1.strtbl; rw [this]; exact he)
      rw [hvT hnw hl hr.tl hcd ctx hr.lang hres own (fun r hr0 => (hpos.cur r hr0).2) hpos.par _]
      simp only [vNode]
    · intro _ hnw _ hcd ctx hr ty pre own slot hpos acc
      have hres : Resolves ctx.tbl st.strtbl := by
        have : st1.strtbl = st.strtbl := ht
        intro e he; exact hr.res e (by show e ∈ st1.strtbl; rw [this]; exact he)
      have hv := hvT hnw hl hr.tl hcd ctx hr.lang hres own (fun r hr0 => (hpos.cur r hr0).2) hpos.par
        ⟨st.tagPage, st.attrPage⟩
      rw [kidsOfItems_of_view ctx own items _ acc
        (List.all_eq_true.mpr (fun it hit => leaf_of_Leaf (hleaf it hit))) _ hv]
      simp only [xNode, addN]
    intro _ hpl _ hcd hbin
    simp only [plainLang, Bool.and_eq_true, Bool.not_eq_true'] at hpl
    obtain ⟨hnoq, hv⟩ := hv hpl.1.1 hpl.1.2 hl hcd hbin
    refine ⟨by show st1.inCdata = false; rw [hcdeq, hcd], hnoq, ?_⟩
    intro ctx hr own
    have hres : Resolves ctx.tbl st.strtbl := by
      have : st1.strtbl = st.strtbl := ht
      intro e he; exact hr.res e (by show e ∈ st1.strtbl; rw [this]; exact he)
    rw [hv ctx hres own _, srcToks]
  · -- CDATA inside CDATA
    intro c parent encEnd kids st s hs _ _ _ _ st' h
    simp only [encNodeG, hs] at h
    cases h
  · -- CDATA
    intro c parent encEnd kids st hs ih _ hl hover hinv st' h
    rw [nodeOver] at hover
    simp only [encNodeG, hs] at h
    obtain ⟨st2, h2, h⟩ := bind_ok' h
    obtain ⟨items, hk, _, hkw, _⟩ := ih hl hover (hinv.of_eq rfl rfl) st2 h2
    have hk' : Seg c st st2 items := hk.congr_left rfl rfl rfl rfl rfl
    have hkw' : ∀ (ty pre : Bool), typedLangOk c.lang = true → noCdataInTyped c.lang ty (.cdata kids) = true →
        validDatetimeAttrs c.lang (.cdata kids) = true → b64TextDecodes c parent (.cdata kids) = true →
        keyValueTextFirst c parent pre (.cdata kids) = true →
        ∀ ctx, Compat c st2.strtbl ctx → (∀ d ∈ opqsItems items, d.length < 4294967296) →
        ∀ own slot, Pos c ctx parent st.curTag ty pre own slot →
          ty = false ∧ wfItems ctx own slot ⟨st.tagPage, st.attrPage⟩ items = true := by
      intro ty pre htl h1' h2' h3' h4' ctx hc hsz own slot hpos
      rw [noCdataInTyped, Bool.and_eq_true] at h1'
      rw [validDatetimeAttrs] at h2'
      rw [b64TextDecodes] at h3'
      rw [keyValueTextFirst] at h4'
      exact ⟨by simpa using h1'.1, hkw ty pre htl h1'.2 h2' h3' h4' ctx hc hsz own slot hpos.cdata⟩
    split at h
    · cases h
    · rename_i cd hcd
      have h3 := ok_inj h
      subst h3
      by_cases hlen : cd.length > 0
      · simp only [hlen, ↓reduceIte]
        have hop : Seg c st2 (({ st2 with inCdata := false } : WSt).emit (opaqueW cd)) [.opaque cd] :=
          Seg.leaves c st2 _ [.opaque cd]
            (by intro it hit; simp only [List.mem_cons, List.mem_nil_iff, or_false] at hit; subst hit; exact .opq cd)
            (by rw [serItems_single, serItem_opq]; rfl) rfl rfl rfl rfl
        refine ⟨_, (hk'.append hop).congr_right rfl rfl rfl rfl rfl, fun h => (by cases h), trivial,
          fun hp => (by simp [plainNode] at hp), ?_, fun h => (by cases h), fun hp => (by simp [plainNode] at hp),
          fun hp => (by simp [plainNode] at hp)⟩
        intro ty pre htl h1' h2' h3' h4' ctx hc hsz own slot hpos
        have hc2 : Compat c st2.strtbl ctx := hc
        obtain ⟨hty, hkids⟩ := hkw' ty pre htl h1' h2' h3' h4' ctx hc2
          (fun d hd => hsz d (by rw [opqsItems_append]; exact List.mem_append_left _ hd)) own slot hpos
        rw [wfItems_append, hkids, Bool.true_and]
        have hnext := hpos.next items false (fun h => by cases h)
        obtain ⟨hu1, hu2⟩ := hnext.unt hty
        refine opaque_wf_untyped ctx own _ _ cd ?_ (by rw [hc.lang]; exact hu1) (by rw [hc.lang]; exact hu2)
        exact hsz cd (by rw [opqsItems_append, opqsItems_single, opqsItem_opaque]
                         exact List.mem_append_right _ List.mem_cons_self)
      · simp only [hlen, ↓reduceIte]
        refine ⟨items, hk'.congr_right rfl rfl rfl rfl rfl, fun h => (by cases h), trivial,
          fun hp => (by simp [plainNode] at hp), ?_, fun h => (by cases h), fun hp => (by simp [plainNode] at hp),
          fun hp => (by simp [plainNode] at hp)⟩
        intro ty pre htl h1' h2' h3' h4' ctx hc hsz own slot hpos
        exact (hkw' ty pre htl h1' h2' h3' h4' ctx hc hsz own slot hpos).2
  · -- nested tree without language
    intro c parent encEnd cs root st _ _ _ _ st' h
    simp only [encNodeG] at h
    cases h
  · -- nested tree without root
    intro c parent encEnd cs st l _ _ _ _ st' h
    simp only [encNodeG] at h
    cases h
  · -- nested tree: one OPAQUE
    intro c parent encEnd cs st l r c' _ _ _ _ _ st' h
    simp only [encNodeG] at h
    obtain ⟨st2, _, h⟩ := bind_ok' h
    have h3 := ok_inj h
    subst h3
    have hop : Seg c st (st.emit (opaqueW (buildResultW (nestedCfg c l) st2))) [.opaque (buildResultW (nestedCfg c l) st2)] :=
      Seg.leaves c st _ [.opaque _]
        (by intro it hit; simp only [List.mem_cons, List.mem_nil_iff, or_false] at hit; subst hit; exact .opq _)
        (by rw [serItems_single, serItem_opq]; rfl) rfl rfl rfl rfl
    refine ⟨_, hop.congr_right rfl rfl rfl rfl rfl, fun h => (by cases h), rfl, fun hp => (by simp [plainNode] at hp),
      ?_, fun h => (by cases h), fun hp => (by simp [plainNode] at hp),
          fun hp => (by simp [plainNode] at hp)⟩
    intro ty pre htl h1' _ _ _ ctx hc hsz own slot hpos
    rw [noCdataInTyped] at h1'
    have hty : ty = false := by simpa using h1'
    obtain ⟨hu1, hu2⟩ := hpos.unt hty
    refine opaque_wf_untyped ctx own slot _ _ ?_ (by rw [hc.lang]; exact hu1) (by rw [hc.lang]; exact hu2)
    exact hsz _ (by rw [opqsItems_single, opqsItem_opaque]; exact List.mem_cons_self)
  · -- end of a sibling chain
    intro c parent st _ _ _ st' h
    simp only [encNodesW] at h
    have := ok_inj h
    subst this
    refine ⟨[], Seg.nil c st, ?_, fun _ _ _ _ _ _ _ _ _ _ _ _ _ => by rw [wfItems], ?_, ?_⟩
    · intro _ _ _ hcd hbin
      exact ⟨hcd, hbin, opqsItems_nil, fun ctx _ own => by rw [evItems_nil, srcToksL]; rfl⟩
    · intro _ _ _ hcd
      exact ⟨hcd, by simp only [vNodes], fun ctx _ _ _ own _ _ => by rw [evItems_nil]; simp only [vNodes]; rfl⟩
    · intro _ _ _ _ ctx _ _ _ own _ _ acc
      rw [kidsOfItems_nil]
      simp only [xKids]
  · -- a node and its later siblings
    intro c parent n rest st ih1 ih2 hl hover hinv st' h
    rw [nodesOver, Bool.and_eq_true] at hover
    simp only [encNodesW] at h
    obtain ⟨st1, h1, h⟩ := bind_ok' h
    obtain ⟨a, ha, _, hcur1, hva, hwa, hta, hvaT, hxa⟩ := ih1 rfl hl hover.1 hinv st1 h1
    obtain ⟨b, hb, hvb, hwb, hvbT, hxb⟩ := ih2 st1 hl hover.2 (ha.tbl.inv hinv) st' h
    refine ⟨a ++ b, ha.append hb, ?_, ?_, ?_, ?_⟩
    rotate_left
    · intro ty pre htl h1' h2' h3' h4' ctx hc hsz own slot hpos
      rw [noCdataInTypedL, Bool.and_eq_true] at h1'
      rw [validDatetimeAttrsL, Bool.and_eq_true] at h2'
      rw [b64TextDecodesL, Bool.and_eq_true] at h3'
      rw [keyValueTextFirstL, Bool.and_eq_true] at h4'
      rw [wfItems_append, hwa ty pre htl h1'.1 h2'.1 h3'.1 h4'.1 ctx (hc.mono hb.tbl.pre)
        (fun d hd => hsz d (by rw [opqsItems_append]; exact List.mem_append_left _ hd)) own slot hpos,
        Bool.true_and, ha.pages ctx own]
      refine hwb ty (pre && isTextN n) htl h1'.2 h2'.2 h3'.2 h4'.2 ctx hc
        (fun d hd => hsz d (by rw [opqsItems_append]; exact List.mem_append_right _ hd)) own _ ?_
      rw [hcur1]
      refine hpos.next a _ ?_
      intro hp
      rw [Bool.and_eq_true] at hp
      exact ⟨hp.1, hta hp.2 slot⟩
    · intro hpn hnw hno hcd
      rw [plainNodes, Bool.and_eq_true] at hpn
      obtain ⟨hcd1, htp1, hview1⟩ := hvaT hpn.1 hnw hno hcd
      obtain ⟨hcd2, htp2, hview2⟩ := hvbT hpn.2 hnw hno hcd1
      rw [hcur1, htp1] at htp2
      refine ⟨hcd2, by rw [htp2]; simp only [vNodes], ?_⟩
      intro ctx hr ty pre own slot hpos
      have hposN : Pos c ctx parent none ty false own (slotEnd slot a) := hpos.next a false (fun h => by cases h)
      have h2 := hview2 ctx hr ty false own _ (by rw [hcur1]; exact hposN)
      rw [hcur1, htp1] at h2
      rw [evItems_append_events, List.flatMap_append, hview1 ctx (hr.mono hb.tbl.pre) ty pre own slot hpos,
        ha.pages ctx own]
      have hpg : (⟨st1.tagPage, st1.attrPage⟩ : Pages) = ⟨(vNode c parent st.curTag st.tagPage n).2, st1.attrPage⟩ := by
        rw [htp1]
      rw [hpg, h2]
      simp only [vNodes]
    · intro hpn hnw hno hcd ctx hr ty pre own slot hpos acc
      rw [plainNodes, Bool.and_eq_true] at hpn
      obtain ⟨hcd1, htp1, _⟩ := hvaT hpn.1 hnw hno hcd
      have hposN : Pos c ctx parent none ty false own (slotEnd slot a) := hpos.next a false (fun h => by cases h)
      have h1 := hxa hpn.1 hnw hno hcd ctx (hr.mono hb.tbl.pre) ty pre own slot hpos acc
      have h2 := hxb hpn.2 hnw hno hcd1 ctx hr ty false own _ (by rw [hcur1]; exact hposN)
        (addN acc (xNode c parent st.curTag st.tagPage n))
      rw [hcur1, htp1] at h2
      have hpg : (⟨st1.tagPage, st1.attrPage⟩ : Pages) = ⟨(vNode c parent st.curTag st.tagPage n).2, st1.attrPage⟩ := by
        rw [htp1]
      rw [kidsOfItems_append, ha.pages ctx own, h1, hpg, h2]
      simp only [xKids]
    intro hpn hpl hnta hcd hbin
    rw [plainNodes, Bool.and_eq_true] at hpn
    obtain ⟨hcd1, hnoq1, hview1⟩ := hva hpn.1 hpl hnta hcd hbin
    obtain ⟨hcd2, hbin2, hnoq2, hview2⟩ := hvb hpn.2 hpl hnta hcd1 (by rw [hcur1]; rfl)
    refine ⟨hcd2, hbin2, by rw [opqsItems_append, hnoq1, hnoq2]; rfl, ?_⟩
    intro ctx hr own
    rw [evItems_append_events, List.flatMap_append, hview1 ctx (hr.mono hb.tbl.pre) own, ha.pages ctx own,
      hview2 ctx hr own, srcToksL]

end Wbxml.Lemmas.EncW
