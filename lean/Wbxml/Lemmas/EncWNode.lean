/-
  WBXML encoder proofs: the node walk. `parse_node` on a node (with its children and the element
  END) writes the serialisation of a list of content items of the grammar (`Seg`):

    * the bytes appended to the output are `Spec.serItems items`                      (`out`);
    * the tracked code pages are the pages a reader has after those items             (`pages`);
    * the string table only grows at its end and keeps its invariant                  (`tbl`);
    * every STR_T / literal index in `items` is the offset of a table entry            (`refs`);
    * if no OPAQUE token was written, `items` is well-formed for every reader context
      that agrees with the encoder (`wf`).
-/
import Wbxml.Lemmas.EncWText
namespace Wbxml.Lemmas.EncW
open Wbxml Wbxml.Model Wbxml.Spec Wbxml.Lemmas.ParseSer
open Wbxml.Model.Codec (mbEncode)

structure Seg (c : WCfg) (st st' : WSt) (items : List Item) : Prop where
  out : st'.out = st.out ++ serItems items
  pages : ∀ ctx own, (evItems ctx own ⟨st.tagPage, st.attrPage⟩ items).2 = ⟨st'.tagPage, st'.attrPage⟩
  tbl : TblExt c st st'
  refs : ∀ off ∈ refsItems items, ∃ e ∈ st'.strtbl, e.offset = off
  wf : ∀ ctx, Compat c st'.strtbl ctx → langOk c.lang = true → opqsItems items = [] →
    ∀ own slot, wfItems ctx own slot ⟨st.tagPage, st.attrPage⟩ items = true

theorem Seg.nil (c : WCfg) (st : WSt) : Seg c st st [] :=
  ⟨by rw [serItems_nil, List.append_nil], fun _ _ => by rw [evItems_nil], TblExt.refl _ _,
    (by intro o ho; rw [refsItems_nil] at ho; cases ho), fun _ _ _ _ _ _ => by rw [wfItems]⟩

theorem Seg.append {c : WCfg} {st st1 st2 : WSt} {a b : List Item} (h1 : Seg c st st1 a) (h2 : Seg c st1 st2 b) :
    Seg c st st2 (a ++ b) := by
  refine ⟨?_, ?_, h1.tbl.trans h2.tbl, ?_, ?_⟩
  · rw [h2.out, h1.out, serItems_append, List.append_assoc]
  · intro ctx own; rw [evItems_append_pages, h1.pages, h2.pages]
  · intro off ho
    rw [refsItems_append, List.mem_append] at ho
    rcases ho with ho | ho
    · obtain ⟨e, he, heo⟩ := h1.refs off ho
      exact ⟨e, h2.tbl.pre.subset he, heo⟩
    · exact h2.refs off ho
  · intro ctx hc hl hno own slot
    rw [opqsItems_append, List.append_eq_nil_iff] at hno
    rw [wfItems_append, h1.wf ctx (hc.mono h2.tbl.pre) hl hno.1 own slot, Bool.true_and, h1.pages]
    exact h2.wf ctx hc hl hno.2 own _

/-- A state that differs only in fields the grammar does not see. -/
theorem Seg.congr_right {c : WCfg} {st st1 st2 : WSt} {a : List Item} (h : Seg c st st1 a)
    (ho : st2.out = st1.out) (htp : st2.tagPage = st1.tagPage) (hap : st2.attrPage = st1.attrPage)
    (ht : st2.strtbl = st1.strtbl) (hl : st2.strtblLen = st1.strtblLen) : Seg c st st2 a :=
  ⟨ho ▸ h.out, fun ctx own => by rw [htp, hap]; exact h.pages ctx own, h.tbl.trans (TblExt.of_eq ht hl),
    ht ▸ h.refs, ht ▸ h.wf⟩

theorem Seg.congr_left {c : WCfg} {st0 st st1 : WSt} {a : List Item} (h : Seg c st st1 a)
    (ho : st.out = st0.out) (htp : st.tagPage = st0.tagPage) (hap : st.attrPage = st0.attrPage)
    (ht : st.strtbl = st0.strtbl) (hl : st.strtblLen = st0.strtblLen) : Seg c st0 st1 a :=
  ⟨ho ▸ h.out, fun ctx own => by rw [← htp, ← hap]; exact h.pages ctx own,
    (TblExt.of_eq ht hl).trans h.tbl, h.refs, fun ctx hc hlk hno own slot => by
      rw [← htp, ← hap]; exact h.wf ctx hc hlk hno own slot⟩

/-- Leaves written without touching pages or table. -/
theorem Seg.leaves (c : WCfg) (st st' : WSt) (items : List Item) (hleaf : ∀ it ∈ items, Leaf c st.strtbl it)
    (ho : st'.out = st.out ++ serItems items) (htp : st'.tagPage = st.tagPage) (hap : st'.attrPage = st.attrPage)
    (ht : st'.strtbl = st.strtbl) (hl : st'.strtblLen = st.strtblLen) : Seg c st st' items := by
  refine ⟨ho, ?_, TblExt.of_eq ht hl, ?_, ?_⟩
  · intro ctx own; rw [leaves_page c st.strtbl ctx own _ items hleaf, htp, hap]
  · rw [ht]; exact leaves_refs c st.strtbl items hleaf
  · intro ctx hc hlk hno own slot
    rw [ht] at hc
    exact leaves_wf c st.strtbl ctx hc hlk own slot _ items hleaf hno

/-- One element. -/
theorem Seg.elem (c : WCfg) (st st1 st2 : WSt) (hasContent : Bool) (sw tag as) (items : List Item)
    (hs : StartRes c st st1 hasContent sw tag as) (hk : Seg c st1 st2 items) :
    Seg c st (if hasContent then st2.emit [0x01] else st2)
      [.elem (.mk sw tag as (if hasContent then some items else none))] →
    True := fun _ => trivial

end Wbxml.Lemmas.EncW
