/-
  `xml_encode_text` keeps character data within the XML characters: stripping blanks, the SyncML
  media-type rewriting and the base64 form (`xmlChars_vText`) — so the precondition on text nodes can be
  stated on the nodes' own octets (`okNode_text_of_chars`).
-/
import Wbxml.Lemmas.XmlSpecDoc
namespace Wbxml.Lemmas.XmlSpec
open Wbxml Wbxml.Model Wbxml.Spec Wbxml.Spec.Xml Wbxml.Lemmas.EncW Wbxml.Lemmas.XmlPrint Wbxml.Lemmas.XmlNs

/-! ### The character data written for a text node consists of XML characters when the node's does -/

theorem xmlChars_dropWhile (p : UInt8 → Bool) (hp : ∀ b, p b = true → b.toNat < 0x80) (s : Bytes)
    (h : xmlChars s = true) : xmlChars (s.dropWhile p) = true := by
  induction s with
  | nil => rfl
  | cons a r ih =>
    by_cases ha : p a = true
    · rw [List.dropWhile_cons_of_pos ha]
      rw [xmlChars_cons_ascii a r (hp a ha)] at h
      simp only [Bool.and_eq_true] at h
      exact ih h.2
    · rw [List.dropWhile_cons_of_neg ha]; exact h

/-- Trailing octets satisfying `p` removed. -/
def rstrip (p : UInt8 → Bool) (l : Bytes) : Bytes := (l.reverse.dropWhile p).reverse

theorem rstrip_cons (p : UInt8 → Bool) (x : UInt8) (l : Bytes) :
    rstrip p (x :: l) = if (rstrip p l).isEmpty && p x then [] else x :: rstrip p l := by
  unfold rstrip
  rw [List.reverse_cons, List.dropWhile_append]
  by_cases h : (List.dropWhile p l.reverse).isEmpty = true
  · simp only [h, ↓reduceIte, List.isEmpty_reverse, Bool.true_and]
    by_cases hx : p x = true
    · simp [hx]
    · simp only [Bool.not_eq_true] at hx
      have he : List.dropWhile p l.reverse = [] := by simpa using h
      simp [hx, he]
  · simp only [Bool.not_eq_true] at h
    simp [h]

theorem rstrip_high (p : UInt8 → Bool) (hp : ∀ b, p b = true → b.toNat < 0x80) (ch r : Bytes)
    (h : ∀ b ∈ ch, 0x80 ≤ b.toNat) : rstrip p (ch ++ r) = ch ++ rstrip p r := by
  induction ch with
  | nil => rfl
  | cons b t ih =>
    have hb : p b = false := by
      cases hpb : p b with
      | false => rfl
      | true => have := hp b hpb; have := h b List.mem_cons_self; omega
    rw [List.cons_append, rstrip_cons, hb, ih (fun x hx => h x (List.mem_cons_of_mem _ hx))]
    simp

theorem xmlChars_rstrip (p : UInt8 → Bool) (hp : ∀ b, p b = true → b.toNat < 0x80) (s : Bytes)
    (h : xmlChars s = true) : xmlChars (rstrip p s) = true := by
  revert h
  refine allCp_induct isChar (fun s => xmlChars (rstrip p s) = true) rfl ?_ ?_ s
  · intro a r ha hc _ ih
    rw [rstrip_cons]
    split
    · rfl
    · rw [xmlChars_cons_ascii a _ ha, hc, ih]; rfl
  · intro ch cp r _ hch hd _ hc _ ih
    rw [rstrip_high p hp ch r hch]
    exact allCp_multi isChar ch cp hd hc _ ih

theorem isSpaceC_ascii (b : UInt8) (h : isSpaceC b = true) : b.toNat < 0x80 := by
  simp only [isSpaceC, Bool.or_eq_true, beq_iff_eq, Bool.and_eq_true, decide_eq_true_eq] at h
  rcases h with rfl | h
  · decide
  · omega

theorem xmlChars_stripBlanks (s : Bytes) (h : xmlChars s = true) : xmlChars (stripBlanks s) = true :=
  xmlChars_rstrip isSpaceC isSpaceC_ascii _ (xmlChars_dropWhile isSpaceC isSpaceC_ascii s h)

theorem b64Char_ascii (n : Nat) : (b64Char n).toNat < 0x80 ∧ isChar (b64Char n).toNat = true := by
  have h : ∀ i, i < 64 → (b64Alphabet.getD i 0).toNat < 0x80 ∧ isChar (b64Alphabet.getD i 0).toNat = true := by decide
  exact h (n % 64) (Nat.mod_lt _ (by decide))

theorem xmlChars_b64 (s : Bytes) : xmlChars (b64EncodeGo s) = true := by
  fun_induction b64EncodeGo s with
  | case1 a b c r ih =>
    rw [xmlChars_cons_ascii _ _ (b64Char_ascii _).1, xmlChars_cons_ascii _ _ (b64Char_ascii _).1,
      xmlChars_cons_ascii _ _ (b64Char_ascii _).1, xmlChars_cons_ascii _ _ (b64Char_ascii _).1, ih]
    simp [(b64Char_ascii _).2]
  | case2 a b =>
    rw [xmlChars_cons_ascii _ _ (b64Char_ascii _).1, xmlChars_cons_ascii _ _ (b64Char_ascii _).1,
      xmlChars_cons_ascii _ _ (b64Char_ascii _).1]
    simp [(b64Char_ascii _).2]
    decide
  | case3 a =>
    rw [xmlChars_cons_ascii _ _ (b64Char_ascii _).1, xmlChars_cons_ascii _ _ (b64Char_ascii _).1]
    simp [(b64Char_ascii _).2]
    decide
  | case4 => rfl

theorem xmlChars_ite (cnd : Bool) (L x : Bytes) (hL : xmlChars L = true) (hx : xmlChars x = true) :
    xmlChars (if cnd then L else x) = true := by
  cases cnd
  · exact hx
  · exact hL

theorem xmlChars_textStr (id : Nat) (cur : Option TagRow) (s : Bytes) (h : xmlChars s = true) :
    xmlChars (textStr id cur s) = true := by
  unfold textStr
  exact xmlChars_ite _ _ _ (by decide) (xmlChars_ite _ _ _ (by decide) h)

/-- **Character data of XML characters stays so** through `xml_encode_text`'s white-space stripping,
    media-type rewriting and base64 form. -/
theorem xmlChars_vText (c : XCfg) (cur : Option TagRow) (s : Bytes) (h : xmlChars s = true) :
    xmlChars (vText c cur s) = true := by
  unfold vText
  simp only
  split
  · rfl
  · split
    · exact xmlChars_b64 _
    · apply xmlChars_textStr
      split
      · exact xmlChars_stripBlanks s h
      · exact h

/-- A text node whose own octets are XML characters satisfies the precondition, wherever it stands. -/
theorem okNode_text_of_chars (c : XCfg) (p : Parent) (cur : Option TagRow) (s : Bytes) (h : xmlChars s = true) :
    okNode c p cur (.text s) = true := by
  simp only [okNode]; exact xmlChars_vText c cur s h

end Wbxml.Lemmas.XmlSpec
