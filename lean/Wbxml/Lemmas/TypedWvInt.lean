/-
  Lemmas for the Wireless-Village integer codec (C12).
-/
import Wbxml.Model.Typed.WvInt
namespace Wbxml.Lemmas.Typed
open Wbxml Wbxml.Model.Typed

/-- The number a big-endian octet string denotes (specification side: no width limit). -/
def beNat (bs : Bytes) : Nat := bs.foldl (fun a c => a * 256 + c.toNat) 0

def beFrom (acc : Nat) (bs : Bytes) : Nat := bs.foldl (fun a c => a * 256 + c.toNat) acc

theorem beNat_eq (bs : Bytes) : beNat bs = beFrom 0 bs := rfl

theorem beFrom_ge (acc : Nat) (bs : Bytes) : acc ≤ beFrom acc bs := by
  induction bs generalizing acc with
  | nil => simp [beFrom]
  | cons c cs ih =>
    have := ih (acc * 256 + c.toNat)
    simp only [beFrom, List.foldl_cons] at this ⊢
    omega

/-! ### parser: the accumulation loop computes the value or reports overflow, nothing else -/

theorem wvIntAcc_spec (acc : Nat) (bs : Bytes) (h : acc < 4294967296) :
    wvIntAcc acc bs = if beFrom acc bs < 4294967296 then .ok (beFrom acc bs) else .error (.code 80) := by
  induction bs generalizing acc with
  | nil => simp [wvIntAcc, beFrom, h]
  | cons c cs ih =>
    have hc : c.toNat < 256 := c.toNat_lt
    have hge := beFrom_ge (acc * 256 + c.toNat) cs
    simp only [wvIntAcc, beFrom, List.foldl_cons] at hge ⊢
    by_cases hbig : acc > 0x00FFFFFF
    · have : ¬ (List.foldl (fun a c => a * 256 + c.toNat) (acc * 256 + c.toNat) cs < 4294967296) := by omega
      simp [hbig, this]
    · have hlt : acc * 256 + c.toNat < 4294967296 := by omega
      have hmod : (acc * 256 + c.toNat) % 4294967296 = acc * 256 + c.toNat := Nat.mod_eq_of_lt hlt
      simp only [hbig, if_false, hmod]
      rw [ih (acc * 256 + c.toNat) hlt]
      rfl

/-! ### `%u` -/

theorem decNat_lt {n : Nat} (h : n < 10) : decNat n = [digitChar n] := by
  rw [decNat]; simp [h]

theorem decNat_ge {n : Nat} (h : 10 ≤ n) : decNat n = decNat (n / 10) ++ [digitChar n] := by
  rw [decNat]; simp [show ¬ n < 10 by omega]

theorem digitChar_toNat (n : Nat) : (digitChar n).toNat = 48 + n % 10 := by
  unfold digitChar
  rw [UInt8.toNat_ofNat']
  omega

theorem isDigit_tbl : ∀ k, k < 10 → isDigit (UInt8.ofNat (48 + k)) = true := by decide

theorem isDigit_digitChar (n : Nat) : isDigit (digitChar n) = true :=
  isDigit_tbl (n % 10) (Nat.mod_lt _ (by decide))

theorem decVal_append (s : Bytes) (c : UInt8) : decVal (s ++ [c]) = decVal s * 10 + (c.toNat - 48) := by
  simp [decVal, List.foldl_append]

/-- Reading back what `%u` printed gives the number. -/
theorem decVal_decNat (n : Nat) : decVal (decNat n) = n := by
  induction n using Nat.strongRecOn with
  | _ n ih =>
    by_cases h : n < 10
    · rw [decNat_lt h]
      simp [decVal, digitChar_toNat]; omega
    · rw [decNat_ge (by omega), decVal_append, ih (n / 10) (by omega), digitChar_toNat]
      omega

theorem all_isDigit_decNat (n : Nat) : (decNat n).all isDigit = true := by
  induction n using Nat.strongRecOn with
  | _ n ih =>
    by_cases h : n < 10
    · rw [decNat_lt h]; simp [isDigit_digitChar]
    · rw [decNat_ge (by omega)]; simp [ih (n / 10) (by omega), isDigit_digitChar]

theorem decNat_ne_nil (n : Nat) : decNat n ≠ [] := by
  by_cases h : n < 10
  · rw [decNat_lt h]; simp
  · rw [decNat_ge (by omega)]; simp

theorem not_x_of_isDigit (c : UInt8) (h : isDigit c = true) : (c == 0x78 || c == 0x58) = false := by
  cases hx : (c == 0x78 || c == 0x58)
  · rfl
  · exfalso
    simp only [Bool.or_eq_true, beq_iff_eq] at hx
    rcases hx with rfl | rfl <;> revert h <;> decide

/-- A decimal numeral (all digits, non-empty) denotes its value for the encoder. -/
theorem wvIntNumeral_digits (s : Bytes) (hne : s ≠ []) (hd : s.all isDigit = true) :
    wvIntNumeral s = some (decVal s) := by
  match s, hne with
  | [c0], _ =>
    simp only [List.all_cons, List.all_nil, Bool.and_true] at hd
    simp [wvIntNumeral, hd]
  | c0 :: c1 :: rest, _ =>
    have h0 : isDigit c0 = true := by simp [List.all_cons] at hd; exact hd.1
    have h1 : isDigit c1 = true := by simp [List.all_cons] at hd; exact hd.2.1
    have hx := not_x_of_isDigit c1 h1
    simp only [wvIntNumeral, h0, Bool.not_true, Bool.false_eq_true, if_false, hx, hd, if_true]

/-! ### encoder: minimal big-endian octets -/

theorem ofNat_toNat_mod (x : Nat) : (UInt8.ofNat (x % 256)).toNat = x % 256 := by
  rw [UInt8.toNat_ofNat']; omega

/-- The octets the encoder emits denote the number. -/
theorem beNat_wvIntOctets (n : Nat) (h : n < 4294967296) : beNat (wvIntOctets n) = n := by
  simp only [wvIntOctets, beLoop]
  split
  · split
    · split
      · split
        · simp [beNat]; omega
        · simp [beNat]; omega
      · simp [beNat]; omega
    · simp [beNat]; omega
  · simp [beNat]; omega

/-- … with no leading zero octet and at most four octets. -/
theorem wvIntOctets_minimal (n : Nat) (h : n < 4294967296) :
    (wvIntOctets n).length ≤ 4 ∧ (wvIntOctets n).head? ≠ some 0 := by
  simp only [wvIntOctets, beLoop]
  have key : ∀ x : Nat, x % 256 ≠ 0 → UInt8.ofNat (x % 256) ≠ 0 := by
    intro x hx hz
    have := congrArg UInt8.toNat hz
    rw [ofNat_toNat_mod] at this
    exact hx (by simpa using this)
  split
  · split
    · split
      · split
        · refine ⟨by simp, ?_⟩
          simp only [List.head?_cons, ne_eq, Option.some.injEq]
          exact key _ (by omega)
        · refine ⟨by simp, ?_⟩
          simp only [List.head?_cons, ne_eq, Option.some.injEq]
          exact key _ (by omega)
      · refine ⟨by simp, ?_⟩
        simp only [List.head?_cons, ne_eq, Option.some.injEq]
        exact key _ (by omega)
    · refine ⟨by simp, ?_⟩
      simp only [List.head?_cons, ne_eq, Option.some.injEq]
      exact key _ (by omega)
  · simp

end Wbxml.Lemmas.Typed
