/-
  Round trip (C03), part 3: the second trip. `wbxml_tree_to_xml` prints the round-trip tree, Expat
  reads the text back, `wbxml_tree_from_xml` (`treeOfXml`, Expat's events as a parameter) builds a
  tree from the events.

  Expat is not modelled. What a conforming, namespace-aware XML reader reports for the printer's
  output of a plain tree is DEFINED here (`Reads`, `xmlEventsOf`) — start/end events with the
  printed element names and attributes (attribute-value normalisation of literal TAB / LF, the
  `xml:` prefix reported as the XML namespace URI), character data as printed (`printedText`), in
  any chunking, no CDATA — and `ReadsBack` is the ASSUMPTION that the recorded Expat run for the
  printed text is such an event sequence. Under it the XML-side builder is followed step by step
  (`xrun_kids`, `xrun_doc`): the tree it builds is `readNode`, a function of the printed tree.
-/
import Wbxml.Lemmas.RtNorm
import Wbxml.Lemmas.X2WTree
namespace Wbxml.Lemmas.Rt
open Wbxml Wbxml.Model Wbxml.Spec Wbxml.Lemmas.EncW Wbxml.Lemmas.X2W

/-! ### What a conforming reader reports for the printer's output -/

/-- Character data as `xml_encode_text` writes it outside CDATA sections and binary-flagged
    elements, before escaping (which a reader undoes): in compact / indented mode white-space-only
    text is skipped and blanks are trimmed unless white space is kept; canonical mode writes the
    text as it is. (Languages other than SyncML: no media-type rewriting.) -/
def printedText (c : XCfg) (s : Bytes) : Bytes :=
  if (c.gen != 2) && c.ignoreEmpty && s.all isSpaceC then []
  else if (c.gen != 2) && c.removeBlanks then stripBlanks s else s

/-- XML 1.0 §3.3.3: a literal TAB or LF in an attribute value is reported as a space. The printer
    escapes them only in canonical mode. -/
def attrNormalize (canonical : Bool) (v : Bytes) : Bytes :=
  if canonical then v else v.map (fun b => if b == 9 || b == 10 then 32 else b)

def xmlPrefix : Bytes := b!"xml:"

/-- A namespace-aware reader reports the reserved `xml:` prefix as the XML namespace URI. -/
def nsAttrName (n : Bytes) : Bytes :=
  if xmlPrefix.isPrefixOf n then xmlNsUri ++ n.drop xmlPrefix.length else n

/-- The attributes a reader reports for a printed start tag (`xml_encode_attr` prints name and
    value as C strings; nothing is printed for a language without attribute table). -/
def xmlAttrsOf (c : XCfg) (attrs : List Attr) : List (Bytes × Bytes) :=
  if c.lang.attrs.isSome then
    attrs.map (fun a => (nsAttrName (cstrOf a.name.xmlName), attrNormalize (c.gen == 2) (cstrOf a.value)))
  else []

/-- `Reads c kids evs`: `evs` is what a conforming reader may report for the printed child list
    `kids` (elements and text only; language without namespace table; generation mode ≠ indent):
    byte indices are arbitrary, character data arrives in any number of non-empty pieces. -/
inductive Reads (c : XCfg) : List Node → List XEvent → Prop
  | nil : Reads c [] []
  | elt (name : Name) (attrs : List Attr) (kids rest : List Node) (body es : List XEvent) (i j : Nat) :
      Reads c kids body → Reads c rest es →
      Reads c (.elt name attrs kids :: rest)
        (.startElt name.xmlName (xmlAttrsOf c attrs) i :: (body ++ .endElt name.xmlName j :: es))
  | text (s : Bytes) (rest : List Node) (pieces : List Bytes) (es : List XEvent) :
      pieces.flatten = printedText c s → (∀ p ∈ pieces, p ≠ []) → Reads c rest es →
      Reads c (.text s :: rest) (pieces.map XEvent.chars ++ es)

mutual
/-- The canonical reading: one `chars` event per printed non-empty text node, byte indices 0. -/
def xmlEventsOfNode (c : XCfg) : Node → List XEvent
  | .elt name attrs kids =>
    .startElt name.xmlName (xmlAttrsOf c attrs) 0 :: (xmlEventsOfNodes c kids ++ [.endElt name.xmlName 0])
  | .text s => if (printedText c s).isEmpty then [] else [.chars (printedText c s)]
  | .cdata _ => []
  | .tree _ _ _ => []
def xmlEventsOfNodes (c : XCfg) : List Node → List XEvent
  | [] => []
  | k :: r => xmlEventsOfNode c k ++ xmlEventsOfNodes c r
end

/-- What the reader reports for `xml_fill_header`'s document type declaration. -/
def docTypeOf (lang : Lang) : XEvent :=
  .doctype (some (lang.pub.dtd.getD []))
    (match lang.pub.xmlId with
     | some p => if p.isEmpty then none else some p
     | none => none)

def xmlDeclEv : XEvent := .xmlDecl (some b!"1.0") none

/-- The canonical event sequence of the printed tree: XML declaration (version only), document
    type, the root element. -/
def xmlEventsOf (c : XCfg) (t : Tree) : List XEvent :=
  match t.root with
  | some r => xmlDeclEv :: docTypeOf c.lang :: xmlEventsOfNode c r
  | none => []

/-- `evs` is a conforming reading of the printed tree. The reading model is the one of a language
    without namespace table (no `xmlns` attribute is printed, names are reported without namespace
    part) and of compact or canonical generation (no indentation white space is printed); both
    conditions are part of the definition so that the assumption cannot be made outside its scope. -/
def ReadsDoc (c : XCfg) (t : Tree) (evs : List XEvent) : Prop :=
  c.lang.ns = none ∧ c.gen ≠ 1 ∧
  ∃ r body, t.root = some r ∧ Reads c [r] body ∧ evs = xmlDeclEv :: docTypeOf c.lang :: body

mutual
theorem reads_canonical_node (c : XCfg) : ∀ (k : Node) (rest : List Node) (es : List XEvent), plainNode k = true →
    Reads c rest es → Reads c (k :: rest) (xmlEventsOfNode c k ++ es)
  | .elt name attrs kids, rest, es, hp, hr => by
    rw [plainNode] at hp
    rw [xmlEventsOfNode]
    have hk := reads_canonical_nodes c kids hp
    have := Reads.elt name attrs kids rest _ es 0 0 hk hr
    simpa using this
  | .text s, rest, es, _, hr => by
    rw [xmlEventsOfNode]
    split
    · rename_i he
      have := Reads.text (c := c) s rest [] es (by simp [List.isEmpty_iff.mp he]) (by intro p hp; cases hp) hr
      simpa using this
    · rename_i he
      have := Reads.text (c := c) s rest [printedText c s] es (by simp)
        (by intro p hp; simp only [List.mem_singleton] at hp; subst hp; intro h; rw [h] at he; exact he rfl) hr
      simpa using this
  | .cdata _, _, _, hp, _ => by rw [plainNode] at hp; cases hp
  | .tree _ _ _, _, _, hp, _ => by rw [plainNode] at hp; cases hp
theorem reads_canonical_nodes (c : XCfg) : ∀ (ks : List Node), plainNodes ks = true → Reads c ks (xmlEventsOfNodes c ks)
  | [], _ => by rw [xmlEventsOfNodes]; exact Reads.nil
  | k :: r, hp => by
    rw [plainNodes, Bool.and_eq_true] at hp
    rw [xmlEventsOfNodes]
    exact reads_canonical_node c k r _ hp.1 (reads_canonical_nodes c r hp.2)
end

/-- The canonical event sequence is a conforming reading. -/
theorem readsDoc_canonical (c : XCfg) (t : Tree) (r : Node) (hr : t.root = some r) (hp : plainNode r = true)
    (hns : c.lang.ns = none) (hg : c.gen ≠ 1) : ReadsDoc c t (xmlEventsOf c t) := by
  refine ⟨hns, hg, r, xmlEventsOfNode c r, hr, ?_, by simp only [xmlEventsOf, hr]⟩
  have := reads_canonical_node c r [] [] hp Reads.nil
  simpa using this


/-! ### The tree the XML-side builder makes of a reading -/

mutual
/-- What `wbxml_tree_from_xml` builds from a conforming reading of the printed node: names and
    attributes through `xmlElt` (table look-up by name), character data as printed, empty text
    dropped and adjacent text merged by `addKid`. -/
def readNode (lang : Lang) (c : XCfg) : Node → Node
  | .elt name attrs kids =>
    XFrame.close { (xmlElt lang name.xmlName (xmlAttrsOf c attrs)).1 with kids := readKidsAcc lang c kids [] }
  | .text s => .text (printedText c s)
  | .cdata kids => .cdata kids
  | .tree l cs r => .tree l cs r
def readKidsAcc (lang : Lang) (c : XCfg) : List Node → List Node → List Node
  | [], acc => acc
  | k :: rest, acc => readKidsAcc lang c rest (addN acc (readNode lang c k))
end

theorem readNode_elt (lang c name attrs kids) : readNode lang c (.elt name attrs kids) =
    XFrame.close { (xmlElt lang name.xmlName (xmlAttrsOf c attrs)).1 with kids := readKidsAcc lang c kids [] } := by
  rw [readNode]
theorem readNode_text (lang c s) : readNode lang c (.text s) = .text (printedText c s) := by rw [readNode]
theorem readKidsAcc_nil (lang c acc) : readKidsAcc lang c [] acc = acc := by rw [readKidsAcc]
theorem readKidsAcc_cons (lang c k rest acc) :
    readKidsAcc lang c (k :: rest) acc = readKidsAcc lang c rest (addN acc (readNode lang c k)) := by rw [readKidsAcc]

/-! ### Steps of the XML-side builder in the plain situation -/

variable (main : List Lang) (input : Bytes) (sub : Bytes → Option (Except Nat Tree))

/-- No request pending, no error, not skipping, the language known. -/
structure XAt (lang : Lang) (b : XBState) : Prop where
  need : b.need = none
  err : b.error = none
  skip : b.skipLvl = 0
  lang : b.lang = some lang

/-- An open element frame under which character data becomes a plain text child. -/
structure FrameOk (f : XFrame) : Prop where
  kind : ∃ n a, f.kind = .elt n a ∧ (n.xmlName == dataName) = false ∧ isBinaryName n = false
  content : f.content = none

/-- Element names the XML callbacks take as they are: no `|` (namespace separator), not `Data`. -/
def eltNameOk (n : Bytes) : Bool := (lastIndexOf 124 n).isNone && !(n == dataName)

theorem eltNameOk_notSkip (n : Bytes) (h : eltNameOk n = true) : (n == devinfName || n == mgmtName) = false := by
  simp only [eltNameOk, Bool.and_eq_true, Option.isNone_iff_eq_none] at h
  have h1 : (lastIndexOf 124 devinfName).isSome = true := by decide
  have h2 : (lastIndexOf 124 mgmtName).isSome = true := by decide
  cases hd : n == devinfName with
  | true => rw [beq_iff_eq] at hd; rw [hd] at h; rw [h.1] at h1; cases h1
  | false =>
    cases hm : n == mgmtName with
    | true => rw [beq_iff_eq] at hm; rw [hm] at h; rw [h.1] at h2; cases h2
    | false => rfl

theorem xstep_start {lang : Lang} {b : XBState} (h : XAt lang b) (hroot : b.stack = [] → b.root = none)
    (name : Bytes) (attrs : List (Bytes × Bytes)) (idx : Nat) (hn : eltNameOk name = true) :
    xbuildStep main input sub b (.startElt name attrs idx) =
      { b with stack := (xmlElt lang name attrs).1 :: b.stack, curPage := (xmlElt lang name attrs).2 } := by
  have hneed : ¬ (b.need.isSome = true) := by rw [h.need]; exact Bool.false_ne_true
  have herr : ¬ (b.error.isSome = true) := by rw [h.err]; exact Bool.false_ne_true
  unfold xbuildStep
  rw [if_neg hneed]
  simp (config := { zeta := false }) only []
  rw [if_neg herr, if_neg (by rw [h.skip]; exact Nat.lt_irrefl 0)]
  extract_lets isRoot b1
  have hb1 : b1 = b := by
    unfold b1
    rw [h.lang]
    simp
  rw [hb1, if_neg herr, eltNameOk_notSkip name hn]
  simp only [Bool.false_and, Bool.false_eq_true, ↓reduceIte, h.lang]
  split
  · rename_i hst hr
    rw [hroot hst] at hr; cases hr
  · rfl

theorem xattach_cons {b : XBState} {f : XFrame} {rest : List XFrame} (hs : b.stack = f :: rest) (n : Node) :
    b.attach n = { b with stack := { f with kids := addKid f.kids n } :: rest } := by
  unfold XBState.attach; rw [hs]

theorem xstep_chars {lang : Lang} {b : XBState} {f : XFrame} {rest : List XFrame} (h : XAt lang b)
    (hs : b.stack = f :: rest) (hf : FrameOk f) (s : Bytes) :
    xbuildStep main input sub b (.chars s) = { b with stack := { f with kids := addKid f.kids (.text s) } :: rest } := by
  obtain ⟨⟨n, a, hk, hnd, hbin⟩, _⟩ := hf
  have hneed : ¬ (b.need.isSome = true) := by rw [h.need]; exact Bool.false_ne_true
  have herr : b.error.isSome = false := by rw [h.err]; rfl
  have hty : syncmlDataType (xStackFrames (f :: rest)) = .normal := by
    show syncmlDataType ({ kind := f.kind, kids := f.kids } :: xStackFrames rest) = .normal
    exact syncml_normal (f := { kind := f.kind, kids := f.kids }) hk hnd
  unfold xbuildStep
  rw [if_neg hneed]
  simp (config := { zeta := false }) only []
  rw [if_neg (by rw [herr, h.skip]; simp)]
  simp only [hs, hty, SyncType.isCdata, Bool.false_eq_true, ↓reduceIte, hk, hbin]
  have : (SyncType.normal == SyncType.vobject) = false := rfl
  simp only [this, Bool.false_and, Bool.false_eq_true, ↓reduceIte]
  rw [xattach_cons hs, hk]

theorem xstep_end {lang : Lang} {b : XBState} {f : XFrame} {rest : List XFrame} (h : XAt lang b)
    (hs : b.stack = f :: rest) (hf : FrameOk f) (name : Bytes) (idx : Nat) :
    xbuildStep main input sub b (.endElt name idx) = ({ b with stack := rest } : XBState).attach f.close := by
  obtain ⟨⟨n, a, hk, _, _⟩, hc⟩ := hf
  rw [step_endElt _ _ _ _ _ _ h.need]
  have hd : decodeTop b = b := by
    unfold decodeTop
    rw [hs]
    simp only [hk, hc]
  rw [hd]
  unfold endTail
  rw [if_neg (by rw [h.err]; exact Bool.false_ne_true), if_neg (by rw [h.skip]; exact Nat.not_lt_zero 1),
    if_neg (by rw [h.skip]; decide)]
  unfold xPop
  rw [hs]
  simp only [hk]


/-! ### The frame `wbxml_tree_add_xml_elt_with_attrs` makes -/

/-- `xmlElt` undoes the reader's reporting of the `xml:` prefix. -/
def unNs (n : Bytes) : Bytes := if xmlNsUri.isPrefixOf n then b!"xml:" ++ n.drop xmlNsUri.length else n

theorem xmlEltCore_shape (lang : Lang) (nsName eltName : Bytes) (attrs : List (Bytes × Bytes)) :
    ∃ tag as, (xmlEltCore lang nsName eltName attrs).1 = { kind := .elt tag as, kids := [] } ∧
      tag.xmlName = eltName ∧ (∀ r, tag = .token r → ∃ tags, lang.tags = some tags ∧ r ∈ tags) ∧
      as.map attrView = attrs.map (fun p => (unNs p.1, p.2)) := by
  have hattrs : ∀ (l : List (Bytes × Bytes)),
      (l.map fun (p : Bytes × Bytes) =>
        let n := if xmlNsUri.isPrefixOf p.1 then b!"xml:" ++ p.1.drop xmlNsUri.length else p.1
        let an := match lang.attrs with
          | some t => (match encAttr t n p.2 with
            | some (r, _) => AName.token r
            | none => AName.literal n)
          | none => AName.literal n
        ({ name := an, value := p.2 } : Attr)).map attrView = l.map (fun p => (unNs p.1, p.2)) := by
    intro l
    rw [List.map_map]
    apply List.map_congr_left
    intro p _
    simp only [Function.comp, attrView, unNs]
    cases hat : lang.attrs with
    | none => rfl
    | some t =>
      simp only
      split
      · rename_i r k he
        simp only [AName.xmlName, encAttr_name _ _ _ _ _ he]
      · rfl
  unfold xmlEltCore
  cases ht : lang.tags with
  | none => exact ⟨_, _, rfl, rfl, (by intro r h; cases h), hattrs attrs⟩
  | some tags =>
    simp only
    split
    · rename_i r he
      refine ⟨_, _, rfl, EncW.encTag_name _ _ _ _ he, ?_, hattrs attrs⟩
      intro r' h; injection h with h; subst h
      exact ⟨tags, rfl, EncW.encTag_mem _ _ _ _ he⟩
    · exact ⟨_, _, rfl, rfl, (by intro r h; cases h), hattrs attrs⟩

theorem localName_of_ok (n : Bytes) (h : eltNameOk n = true) : localName n = n := by
  simp only [eltNameOk, Bool.and_eq_true, Option.isNone_iff_eq_none] at h
  unfold localName; rw [h.1]

theorem xmlElt_shape (lang : Lang) (name : Bytes) (attrs : List (Bytes × Bytes)) (hn : eltNameOk name = true) :
    ∃ tag as, (xmlElt lang name attrs).1 = { kind := .elt tag as, kids := [] } ∧
      tag.xmlName = name ∧ (∀ r, tag = .token r → ∃ tags, lang.tags = some tags ∧ r ∈ tags) ∧
      as.map attrView = attrs.map (fun p => (unNs p.1, p.2)) := by
  obtain ⟨nsName, e⟩ := xmlElt_eq lang name attrs
  rw [e, localName_of_ok name hn]
  exact xmlEltCore_shape lang nsName name attrs

theorem plainLang_notBinary (lang : Lang) (hpl : plainLang lang = true) (tag : Name)
    (h : ∀ r, tag = .token r → ∃ tags, lang.tags = some tags ∧ r ∈ tags) : isBinaryName tag = false := by
  cases tag with
  | literal s => rfl
  | token r =>
    obtain ⟨tags, ht, hm⟩ := h r rfl
    simp only [plainLang, ht, Bool.and_eq_true, List.all_eq_true, beq_iff_eq] at hpl
    simp [isBinaryName, hpl.2 r hm]

theorem xmlElt_frameOk (lang : Lang) (hpl : plainLang lang = true) (name : Bytes) (attrs : List (Bytes × Bytes))
    (hn : eltNameOk name = true) (kids : List Node) :
    FrameOk { (xmlElt lang name attrs).1 with kids := kids } := by
  obtain ⟨tag, as, he, hx, hrow, _⟩ := xmlElt_shape lang name attrs hn
  rw [he]
  refine ⟨⟨tag, as, rfl, ?_, plainLang_notBinary lang hpl tag hrow⟩, rfl⟩
  rw [hx]
  simp only [eltNameOk, Bool.and_eq_true, Bool.not_eq_true'] at hn
  exact hn.2

theorem xmlElt_kids (lang : Lang) (name : Bytes) (attrs : List (Bytes × Bytes)) (hn : eltNameOk name = true) :
    (xmlElt lang name attrs).1.kids = [] := by
  obtain ⟨tag, as, he, _⟩ := xmlElt_shape lang name attrs hn
  rw [he]

theorem xmlElt_close_isText (lang : Lang) (name : Bytes) (attrs : List (Bytes × Bytes)) (hn : eltNameOk name = true)
    (kids : List Node) : isText (XFrame.close { (xmlElt lang name attrs).1 with kids := kids }) = false := by
  obtain ⟨tag, as, he, _⟩ := xmlElt_shape lang name attrs hn
  rw [he]; rfl

/-! ### Pieces of character data -/

theorem addKid_addKid_text (k0 : List Node) (p q : Bytes) :
    addKid (addKid k0 (.text p)) (.text q) = addKid k0 (.text (p ++ q)) := by
  cases hl : lastText k0 with
  | false => rw [addKid_text_after _ _ hl, addKid_text_merge, addKid_text_after _ _ hl]
  | true =>
    obtain ⟨pre, t, rfl⟩ := lastText_split k0 hl
    rw [addKid_text_merge, addKid_text_merge, addKid_text_merge, List.append_assoc]

theorem addKid_pieces : ∀ (pieces : List Bytes) (k0 : List Node), (∀ p ∈ pieces, p ≠ []) →
    pieces.foldl (fun k p => addKid k (.text p)) k0 = addChars k0 pieces.flatten
  | [], k0, _ => by simp [addChars]
  | p :: ps, k0, h => by
    have hp : p ≠ [] := h p (by simp)
    rw [List.foldl_cons, addKid_pieces ps _ (fun x hx => h x (List.mem_cons_of_mem _ hx)), List.flatten_cons]
    unfold addChars
    have hne : (p ++ ps.flatten).isEmpty = false := by
      cases p with
      | nil => exact absurd rfl hp
      | cons _ _ => rfl
    rw [hne]
    simp only [Bool.false_eq_true, ↓reduceIte]
    split
    · rename_i he
      rw [List.isEmpty_iff.mp he, List.append_nil]
    · exact addKid_addKid_text k0 p _

theorem xrun_pieces {lang : Lang} : ∀ (pieces : List Bytes) (b : XBState) (f : XFrame) (rest : List XFrame),
    XAt lang b → b.stack = f :: rest → FrameOk f →
    (pieces.map XEvent.chars).foldl (xbuildStep main input sub) b =
      { b with stack := { f with kids := pieces.foldl (fun k p => addKid k (.text p)) f.kids } :: rest }
  | [], b, f, rest, _, hs, _ => by
    simp only [List.map_nil, List.foldl_nil]
    cases b; simp only at hs; subst hs; rfl
  | p :: ps, b, f, rest, h, hs, hf => by
    rw [List.map_cons, List.foldl_cons, xstep_chars main input sub h hs hf,
      xrun_pieces ps ({ b with stack := { f with kids := addKid f.kids (.text p) } :: rest } : XBState)
        { f with kids := addKid f.kids (.text p) } rest ⟨h.need, h.err, h.skip, h.lang⟩ rfl
        ⟨hf.kind, hf.content⟩]
    rfl

/-! ### The builder over a conforming reading -/

mutual
/-- Elements and text only; element names without `|`, none called `Data`. -/
def readable : Node → Bool
  | .elt name _ kids => eltNameOk name.xmlName && readableL kids
  | .text _ => true
  | .cdata _ => false
  | .tree _ _ _ => false
def readableL : List Node → Bool
  | [] => true
  | k :: r => readable k && readableL r
end

theorem xrun_kids {lang : Lang} {c : XCfg} (hpl : plainLang lang = true) {ks : List Node} {evs : List XEvent}
    (hr : Reads c ks evs) : readableL ks = true → ∀ (b : XBState) (f : XFrame) (rest : List XFrame),
      XAt lang b → b.stack = f :: rest → FrameOk f →
      ∃ cp, evs.foldl (xbuildStep main input sub) b =
        { b with stack := { f with kids := readKidsAcc lang c ks f.kids } :: rest, curPage := cp } := by
  induction hr with
  | nil =>
    intro _ b f rest _ hs _
    refine ⟨b.curPage, ?_⟩
    rw [List.foldl_nil, readKidsAcc_nil]
    cases b; simp only at hs; subst hs; rfl
  | elt name attrs kids more body es i j _ _ ihb ihe =>
    intro hrd b f rest h hs hf
    rw [readableL, readable, Bool.and_eq_true, Bool.and_eq_true] at hrd
    obtain ⟨⟨hn, hkids⟩, hmore⟩ := hrd
    rw [List.foldl_cons, List.foldl_append, List.foldl_cons,
      xstep_start main input sub h (by intro h0; rw [hs] at h0; cases h0) _ _ _ hn]
    obtain ⟨cp1, e1⟩ := ihb hkids
      ({ b with stack := (xmlElt lang name.xmlName (xmlAttrsOf c attrs)).1 :: b.stack,
                curPage := (xmlElt lang name.xmlName (xmlAttrsOf c attrs)).2 } : XBState)
      (xmlElt lang name.xmlName (xmlAttrsOf c attrs)).1 b.stack ⟨h.need, h.err, h.skip, h.lang⟩ rfl
      (xmlElt_frameOk lang hpl _ _ hn _)
    rw [e1, xmlElt_kids lang _ _ hn]
    rw [xstep_end main input sub (lang := lang)
      (b := { ({ b with stack := (xmlElt lang name.xmlName (xmlAttrsOf c attrs)).1 :: b.stack,
                        curPage := (xmlElt lang name.xmlName (xmlAttrsOf c attrs)).2 } : XBState) with
              stack := { (xmlElt lang name.xmlName (xmlAttrsOf c attrs)).1 with
                         kids := readKidsAcc lang c kids [] } :: b.stack,
              curPage := cp1 })
      ⟨h.need, h.err, h.skip, h.lang⟩ rfl (xmlElt_frameOk lang hpl _ _ hn _)]
    have hatt : (({ b with stack := b.stack, curPage := cp1 } : XBState).attach
          (XFrame.close { (xmlElt lang name.xmlName (xmlAttrsOf c attrs)).1 with kids := readKidsAcc lang c kids [] })) =
        { b with stack := { f with kids := addN f.kids (readNode lang c (.elt name attrs kids)) } :: rest,
                 curPage := cp1 } := by
      rw [xattach_cons (b := { b with stack := b.stack, curPage := cp1 }) hs, readNode_elt]
      have hnt := xmlElt_close_isText lang name.xmlName (xmlAttrsOf c attrs) hn (readKidsAcc lang c kids [])
      generalize XFrame.close { (xmlElt lang name.xmlName (xmlAttrsOf c attrs)).1 with
        kids := readKidsAcc lang c kids [] } = nd at hnt ⊢
      cases nd with
      | text s => cases hnt
      | elt _ _ _ => rfl
      | cdata _ => rfl
      | tree _ _ _ => rfl
    show ∃ cp, List.foldl _ (({ b with stack := b.stack, curPage := cp1 } : XBState).attach _) es = _
    rw [hatt]
    obtain ⟨cp2, e3⟩ := ihe hmore
      ({ b with stack := { f with kids := addN f.kids (readNode lang c (.elt name attrs kids)) } :: rest,
                curPage := cp1 } : XBState)
      { f with kids := addN f.kids (readNode lang c (.elt name attrs kids)) } rest
      ⟨h.need, h.err, h.skip, h.lang⟩ rfl ⟨hf.kind, hf.content⟩
    exact ⟨cp2, by rw [e3, readKidsAcc_cons]⟩
  | text s more pieces es hflat hne _ ihe =>
    intro hrd b f rest h hs hf
    rw [readableL, Bool.and_eq_true] at hrd
    rw [List.foldl_append, xrun_pieces main input sub pieces b f rest h hs hf, addKid_pieces pieces _ hne, hflat]
    obtain ⟨cp2, e3⟩ := ihe hrd.2
      ({ b with stack := { f with kids := addChars f.kids (printedText c s) } :: rest } : XBState)
      { f with kids := addChars f.kids (printedText c s) } rest
      ⟨h.need, h.err, h.skip, h.lang⟩ rfl ⟨hf.kind, hf.content⟩
    exact ⟨cp2, by rw [e3, readKidsAcc_cons, readNode_text]; rfl⟩


/-! ### The whole document -/

theorem xstep_xmlDecl (b : XBState) (h : b.need = none) (v : Bytes) :
    xbuildStep main input sub b (.xmlDecl (some v) none) = b := by
  unfold xbuildStep
  rw [if_neg (by rw [h]; exact Bool.false_ne_true)]

theorem xstep_doctype (b : XBState) (h : b.need = none) (sysid pubid : Option Bytes) (l : Lang)
    (hl : searchTable main pubid sysid none = some l) :
    xbuildStep main input sub b (.doctype sysid pubid) = { b with lang := some l } := by
  unfold xbuildStep
  rw [if_neg (by rw [h]; exact Bool.false_ne_true)]
  simp only [hl]

/-- The document type the printer writes selects the language again. -/
def docTypeFinds (main : List Lang) (lang : Lang) : Bool :=
  match docTypeOf lang with
  | .doctype sysid pubid =>
    (match searchTable main pubid sysid none with
     | some l => decide (l = lang)
     | none => false)
  | _ => false

theorem docTypeFinds_spec (main : List Lang) (lang : Lang) (h : docTypeFinds main lang = true) :
    ∃ sysid pubid, docTypeOf lang = .doctype sysid pubid ∧ searchTable main pubid sysid none = some lang := by
  unfold docTypeFinds at h
  unfold docTypeOf at h ⊢
  refine ⟨_, _, rfl, ?_⟩
  simp only at h
  split at h
  · rename_i l hl
    rw [hl, of_decide_eq_true h]
  · cases h

/-- **The XML-side builder over a conforming reading of the printed tree** builds `readNode` of
    its root, with the language the document type selects. -/
theorem xrun_doc {lang : Lang} {c : XCfg} (hpl : plainLang lang = true) (hc : c.lang = lang)
    (hdt : docTypeFinds main lang = true) (t : Tree) (r : Node) (hroot : t.root = some r)
    (hre : readable r = true) (helt : isElt r = true) (evs : List XEvent) (hr : ReadsDoc c t evs) :
    ∃ cp, evs.foldl (xbuildStep main input sub) {} =
      { lang := some lang, root := some (readNode lang c r), curPage := cp } := by
  obtain ⟨_, _, r0, body, hr0, hreads, hevs⟩ := hr
  rw [hroot] at hr0; injection hr0 with hr0; subst hr0
  obtain ⟨sysid, pubid, hd, hfind⟩ := docTypeFinds_spec main lang hdt
  subst hevs
  rw [hc, hd]
  rw [List.foldl_cons, List.foldl_cons]
  unfold xmlDeclEv
  rw [xstep_xmlDecl main input sub {} rfl, xstep_doctype main input sub {} rfl sysid pubid lang hfind]
  cases hreads with
  | text s rest pieces es _ _ _ => cases helt
  | elt name attrs kids rest body' es i j hk hrest =>
    cases hrest
    rw [readable, Bool.and_eq_true] at hre
    have h1 : XAt lang ({ lang := some lang } : XBState) := ⟨rfl, rfl, rfl, rfl⟩
    rw [List.foldl_cons, List.foldl_append, List.foldl_cons, List.foldl_nil,
      xstep_start main input sub h1 (fun _ => rfl) _ _ _ hre.1]
    obtain ⟨cp1, e1⟩ := xrun_kids main input sub hpl hk hre.2
      ({ lang := some lang, stack := [(xmlElt lang name.xmlName (xmlAttrsOf c attrs)).1],
         curPage := (xmlElt lang name.xmlName (xmlAttrsOf c attrs)).2 } : XBState)
      (xmlElt lang name.xmlName (xmlAttrsOf c attrs)).1 [] ⟨rfl, rfl, rfl, rfl⟩ rfl
      (xmlElt_frameOk lang hpl _ _ hre.1 _)
    refine ⟨cp1, ?_⟩
    have e1' : List.foldl (xbuildStep main input sub)
        ({ ({ lang := some lang } : XBState) with
            stack := (xmlElt lang name.xmlName (xmlAttrsOf c attrs)).1 :: ({ lang := some lang } : XBState).stack,
            curPage := (xmlElt lang name.xmlName (xmlAttrsOf c attrs)).2 }) body' = _ := e1
    rw [e1', xmlElt_kids lang _ _ hre.1,
      xstep_end main input sub (lang := lang)
        (b := { ({ lang := some lang, stack := [(xmlElt lang name.xmlName (xmlAttrsOf c attrs)).1],
                   curPage := (xmlElt lang name.xmlName (xmlAttrsOf c attrs)).2 } : XBState) with
                stack := [{ (xmlElt lang name.xmlName (xmlAttrsOf c attrs)).1 with
                            kids := readKidsAcc lang c kids [] }],
                curPage := cp1 })
        ⟨rfl, rfl, rfl, rfl⟩ rfl (xmlElt_frameOk lang hpl _ _ hre.1 _), readNode_elt]
    rfl

/-- **`ReadsBack`: the assumption about Expat.** The run recorded for the text `xml` reports
    success and an event sequence that is a conforming reading (`ReadsDoc`) of the printed tree
    `t` under the printer's options `c`. Expat is not modelled: this is exactly what the C05 check
    (recorded Expat runs of the printer's output against the tree) validates on the implementation
    side. -/
def ReadsBack (env : List (Bytes × ExpatRun)) (xml : Bytes) (c : XCfg) (t : Tree) : Prop :=
  ∃ k run, env.find? (fun p => p.1 == xml) = some (k, run) ∧ run.ok = true ∧ ReadsDoc c t run.events

/-- `wbxml_tree_from_xml` on a text for which `ReadsBack` holds. -/
theorem treeOfXml_readsBack {lang : Lang} {c : XCfg} (main : List Lang) (hpl : plainLang lang = true) (hc : c.lang = lang)
    (hdt : docTypeFinds main lang = true) (t : Tree) (r : Node) (hroot : t.root = some r)
    (hre : readable r = true) (helt : isElt r = true) (env : List (Bytes × ExpatRun)) (xml : Bytes)
    (hne : xml ≠ []) (hrb : ReadsBack env xml c t) (f : Nat) :
    treeOfXml main env (f + 1) xml = .ok { lang := some lang, origCharset := 0, root := some (readNode lang c r) } := by
  obtain ⟨k, run, hfind, hok, hrd⟩ := hrb
  rw [treeOfXml]
  have he : xml.isEmpty = false := by cases xml with | nil => exact absurd rfl hne | cons _ _ => rfl
  simp only [he, Bool.false_eq_true, ↓reduceIte, hfind]
  obtain ⟨cp, e⟩ := xrun_doc main xml _ hpl hc hdt t r hroot hre helt run.events hrd
  rw [e]
  simp only [hok, Bool.not_true, Bool.false_eq_true, ↓reduceIte]


/-! ### The tree read back equals the printed tree up to `normNode` -/

theorem dropWhile_nil_iff (p : UInt8 → Bool) : ∀ (l : Bytes), l.dropWhile p = [] ↔ ∀ x ∈ l, p x = true
  | [] => by simp
  | a :: l => by
    by_cases ha : p a = true
    · rw [List.dropWhile_cons_of_pos ha, dropWhile_nil_iff p l]
      simp [ha]
    · rw [List.dropWhile_cons_of_neg ha]
      simp [ha]

theorem strip_allSpace (s : Bytes) (h : s.all isSpaceC = true) : stripBlanks s = [] := by
  unfold stripBlanks
  have : s.dropWhile isSpaceC = [] := by
    rw [dropWhile_nil_iff]
    exact List.all_eq_true.mp h
  rw [this]; rfl

theorem strip_all (s : Bytes) : (stripBlanks s).all isSpaceC = s.all isSpaceC := by
  cases hs : s.all isSpaceC with
  | true => rw [strip_allSpace s hs]; rfl
  | false =>
    cases hh : (stripBlanks s).head? with
    | some x => exact all_false_of_head _ x hh ((trim_strip s).1 x hh)
    | none =>
      exfalso
      rw [List.head?_eq_none_iff] at hh
      unfold stripBlanks at hh
      rw [List.reverse_eq_nil_iff, dropWhile_nil_iff] at hh
      have hA : ∀ x ∈ s.dropWhile isSpaceC, isSpaceC x = true := fun x hx => hh x (List.mem_reverse.mpr hx)
      cases hd : s.dropWhile isSpaceC with
      | nil =>
        rw [dropWhile_nil_iff] at hd
        rw [List.all_eq_true.mpr hd] at hs; cases hs
      | cons a l =>
        have h1 := dropWhile_head s a (by rw [hd]; rfl)
        have h2 := hA a (by rw [hd]; simp)
        rw [h1] at h2; cases h2

/-- The printer's white-space handling is absorbed by the encoder's: canonical output, or every
    kind of white space the printer removes is removed by the encoder as well. -/
def flagsOk (c : XCfg) (wc : WCfg) : Bool :=
  (c.gen == 2) || ((!c.ignoreEmpty || wc.ignoreEmpty || wc.removeBlanks) && (!c.removeBlanks || wc.removeBlanks))

theorem normText_printed (c : XCfg) (wc : WCfg) (hs : isSyncml wc.lang.id = false) (hf : flagsOk c wc = true) (s : Bytes) :
    normText wc (printedText c s) = normText wc s := by
  unfold printedText
  cases hg : c.gen == 2 with
  | true =>
    have hne : (c.gen != 2) = false := by simp [bne, hg]
    simp only [hne, Bool.false_and, Bool.false_eq_true, ↓reduceIte]
  | false =>
    simp only [flagsOk, hg, Bool.false_or, Bool.and_eq_true, Bool.or_eq_true, Bool.not_eq_true'] at hf
    have hne : (c.gen != 2) = true := by simp [bne, hg]
    simp only [hne, Bool.true_and]
    split
    · rename_i h1
      rw [Bool.and_eq_true] at h1
      rw [normText_nil wc hs]
      unfold normText
      rcases hf.1 with (hi | hi) | hr
      · rw [h1.1] at hi; cases hi
      · simp [hi, h1.2]
      · cases hi : wc.ignoreEmpty with
        | true => simp [h1.2]
        | false =>
          simp only [Bool.false_and, Bool.false_eq_true, ↓reduceIte, hr, strip_allSpace s h1.2]
          rw [syncmlTypeText_of_not _ _ hs]; rfl
    · split
      · rename_i h2
        have hr : wc.removeBlanks = true := by
          rcases hf.2 with h | h
          · rw [h2] at h; cases h
          · exact h
        unfold normText
        rw [strip_all, hr]
        simp only [↓reduceIte, strip_of_trim _ (trim_strip s)]
      · rfl

theorem normKidsAcc_append (wc : WCfg) : ∀ (A B acc : List Node),
    normKidsAcc wc (A ++ B) acc = normKidsAcc wc B (normKidsAcc wc A acc)
  | [], B, acc => by rw [List.nil_append, normKidsAcc_nil]
  | a :: A, B, acc => by rw [List.cons_append, normKidsAcc_cons, normKidsAcc_cons, normKidsAcc_append wc A B]

theorem normKidsAcc_snoc (wc : WCfg) (A : List Node) (x : Node) :
    normKidsAcc wc (A ++ [x]) [] = addN (normKidsAcc wc A []) (normNode wc x) := by
  rw [normKidsAcc_append, normKidsAcc_cons, normKidsAcc_nil]

/-- Attributes survive printing and reading: the name does not start with the XML namespace URI
    (the reader's spelling of the `xml:` prefix), and the value has no TAB / LF unless the output
    is canonical (they are written unescaped otherwise, and read back as spaces). -/
def attrReadable (c : XCfg) (a : Attr) : Bool :=
  !(xmlNsUri.isPrefixOf (cstrOf a.name.xmlName)) &&
  ((c.gen == 2) || (cstrOf a.value).all (fun b => !(b == 9 || b == 10)))

mutual
def attrsReadable (c : XCfg) : Node → Bool
  | .elt _ attrs kids => attrs.all (attrReadable c) && attrsReadableL c kids
  | .text _ => true
  | .cdata _ => true
  | .tree _ _ _ => true
def attrsReadableL (c : XCfg) : List Node → Bool
  | [] => true
  | k :: r => attrsReadable c k && attrsReadableL c r
end

theorem unNs_nsAttrName (m : Bytes) (h : xmlNsUri.isPrefixOf m = false) : unNs (nsAttrName m) = m := by
  unfold nsAttrName
  split
  · rename_i hp
    rw [List.isPrefixOf_iff_prefix] at hp
    obtain ⟨t, rfl⟩ := hp
    unfold unNs
    have h1 : xmlNsUri.isPrefixOf (xmlNsUri ++ (xmlPrefix ++ t).drop xmlPrefix.length) = true := by
      rw [List.isPrefixOf_iff_prefix]; exact List.prefix_append _ _
    rw [h1]
    simp only [↓reduceIte, List.drop_left]
    rfl
  · unfold unNs; rw [h]; rfl

theorem attrNormalize_id (canonical : Bool) (v : Bytes)
    (h : (canonical || v.all (fun b => !(b == 9 || b == 10))) = true) : attrNormalize canonical v = v := by
  unfold attrNormalize
  cases canonical with
  | true => rfl
  | false =>
    simp only [Bool.false_or, List.all_eq_true, Bool.not_eq_true'] at h
    simp only [Bool.false_eq_true, ↓reduceIte]
    conv => rhs; rw [← List.map_id v]
    apply List.map_congr_left
    intro b hb
    rw [h b hb]; rfl

def normOfView (p : Bytes × Bytes) : Attr := { name := .literal (cstrOf p.1), value := withNul (cstrOf p.2) }

theorem normAttr_view (a : Attr) : normAttr a = normOfView (attrView a) := rfl

theorem normAttrs_read (c : XCfg) (wc : WCfg) (hl : wc.lang = c.lang) (attrs as : List Attr)
    (hv : as.map attrView = (xmlAttrsOf c attrs).map (fun p => (unNs p.1, p.2)))
    (hok : attrs.all (attrReadable c) = true) : normAttrs wc as = normAttrs wc attrs := by
  unfold normAttrs
  rw [hl]
  unfold xmlAttrsOf at hv
  split
  · rename_i hsome
    rw [if_pos hsome] at hv
    have : as.map normAttr = (as.map attrView).map normOfView := by rw [List.map_map]; rfl
    rw [this, hv, List.map_map, List.map_map]
    apply List.map_congr_left
    intro a ha
    rw [List.all_eq_true] at hok
    have h1 := hok a ha
    simp only [attrReadable, Bool.and_eq_true, Bool.not_eq_true'] at h1
    simp only [Function.comp, normOfView, normAttr]
    rw [unNs_nsAttrName _ h1.1, attrNormalize_id _ _ h1.2, cstrOf_idem, cstrOf_idem]
  · rfl

mutual
theorem norm_read_node (lang : Lang) (c : XCfg) (wc : WCfg) (hl : wc.lang = c.lang) (hs : isSyncml wc.lang.id = false)
    (hf : flagsOk c wc = true) : ∀ (n : Node), nfNode n = true → readable n = true → attrsReadable c n = true →
    normNode wc (readNode lang c n) = normNode wc n
  | .elt name attrs kids, hnf, hre, har => by
    rw [nfNode] at hnf
    rw [readable, Bool.and_eq_true] at hre
    rw [attrsReadable, Bool.and_eq_true] at har
    obtain ⟨tag, as, he, hx, _, hv⟩ := xmlElt_shape lang name.xmlName (xmlAttrsOf c attrs) hre.1
    rw [readNode_elt, he]
    show normNode wc (.elt tag as (readKidsAcc lang c kids [])) = _
    rw [normNode_elt, normNode_elt,
      norm_read_kids lang c wc hl hs hf kids [] hnf hre.2 har.2 (fun h => by cases h),
      normKidsAcc_nil, normAttrs_read c wc hl attrs as hv har.1]
    simp only [normName, hx]
  | .text s, _, _, _ => by
    rw [readNode_text, normNode_text, normNode_text, normText_printed c wc hs hf]
  | .cdata kids, hnf, _, _ => by rw [nfNode] at hnf; cases hnf
  | .tree l cs r, hnf, _, _ => by rw [nfNode] at hnf; cases hnf
theorem norm_read_kids (lang : Lang) (c : XCfg) (wc : WCfg) (hl : wc.lang = c.lang) (hs : isSyncml wc.lang.id = false)
    (hf : flagsOk c wc = true) : ∀ (ks A : List Node), nfKids ks = true → readableL ks = true →
    attrsReadableL c ks = true → (lastText A = true → headText ks = false) →
    normKidsAcc wc (readKidsAcc lang c ks A) [] = normKidsAcc wc ks (normKidsAcc wc A [])
  | [], A, _, _, _, _ => by rw [readKidsAcc_nil, normKidsAcc_nil]
  | k :: rest, A, hnf, hre, har, hinv => by
    rw [nfKids_cons] at hnf
    simp only [Bool.and_eq_true, Bool.not_eq_true'] at hnf
    rw [readableL, Bool.and_eq_true] at hre
    rw [attrsReadableL, Bool.and_eq_true] at har
    rw [readKidsAcc_cons, normKidsAcc_cons]
    cases k with
    | text s =>
      have hlast : lastText A = false := by
        cases hA : lastText A with
        | false => rfl
        | true => have := hinv hA; simp [headText, isText] at this
      have hrest : headText rest = false := by simpa [isText] using hnf.1.2
      rw [readNode_text, normNode_text]
      rw [norm_read_kids lang c wc hl hs hf rest _ hnf.2 hre.2 har.2 (fun _ => hrest)]
      congr 1
      simp only [addN, addChars]
      split
      · rename_i he
        have hp := List.isEmpty_iff.mp he
        have : normText wc s = [] := by rw [← normText_printed c wc hs hf, hp, normText_nil wc hs]
        rw [this]; rfl
      · rw [addKid_text_after _ _ hlast, normKidsAcc_snoc, normNode_text, normText_printed c wc hs hf]
        rfl
    | elt nm a ks =>
      have hnt : isText (readNode lang c (.elt nm a ks)) = false := by
        rw [readable, Bool.and_eq_true] at hre
        rw [readNode_elt]; exact xmlElt_close_isText lang _ _ hre.1.1 _
      have hadd : addN A (readNode lang c (.elt nm a ks)) = A ++ [readNode lang c (.elt nm a ks)] := by
        generalize readNode lang c (.elt nm a ks) = nd at hnt ⊢
        cases nd with
        | text s => cases hnt
        | elt x y z => exact addKid_not_text A (.elt x y z) rfl
        | cdata x => exact addKid_not_text A (.cdata x) rfl
        | tree x y z => exact addKid_not_text A (.tree x y z) rfl
      rw [hadd, norm_read_kids lang c wc hl hs hf rest _ hnf.2 hre.2 har.2
        (fun h => by rw [lastText_snoc, hnt] at h; cases h),
        normKidsAcc_snoc, norm_read_node lang c wc hl hs hf (.elt nm a ks) hnf.1.1 hre.1 har.1]
    | cdata ks => have := hnf.1.1; rw [nfNode] at this; cases this
    | tree l cs r => have := hnf.1.1; rw [nfNode] at this; cases this
end


/-! ### The hypotheses only look at the view -/

mutual
theorem normNode_canon (wc : WCfg) : ∀ (n : Node), normNode wc (canon n) = normNode wc n
  | .elt name attrs kids => by
    rw [canon_elt, normNode_elt, normNode_elt, normKidsAcc_canonL wc kids []]
    have : normAttrs wc (attrs.map canonAttr) = normAttrs wc attrs := by
      unfold normAttrs
      split
      · rw [List.map_map]; rfl
      · rfl
    rw [this]
    rfl
  | .text s => by rw [canon_text]
  | .cdata kids => by rw [canon]
  | .tree l cs r => by rw [canon]
theorem normKidsAcc_canonL (wc : WCfg) : ∀ (ks acc : List Node),
    normKidsAcc wc (canonL ks) acc = normKidsAcc wc ks acc
  | [], acc => by rw [canonL_nil]
  | k :: r, acc => by
    rw [canonL_cons, normKidsAcc_cons, normKidsAcc_cons, normNode_canon wc k, normKidsAcc_canonL wc r]
end

mutual
theorem readable_canon : ∀ (n : Node), readable (canon n) = readable n
  | .elt name attrs kids => by rw [canon_elt, readable, readable, readableL_canon kids]; rfl
  | .text s => by rw [canon_text]
  | .cdata kids => by rw [canon]
  | .tree l cs r => by rw [canon]
theorem readableL_canon : ∀ (ks : List Node), readableL (canonL ks) = readableL ks
  | [] => by rw [canonL_nil]
  | k :: r => by rw [canonL_cons, readableL, readableL, readable_canon k, readableL_canon r]
end

mutual
theorem attrsReadable_canon (c : XCfg) : ∀ (n : Node), attrsReadable c (canon n) = attrsReadable c n
  | .elt name attrs kids => by
    rw [canon_elt, attrsReadable, attrsReadable, attrsReadableL_canon c kids, List.all_map]
    rfl
  | .text s => by rw [canon_text]
  | .cdata kids => by rw [canon]
  | .tree l cs r => by rw [canon]
theorem attrsReadableL_canon (c : XCfg) : ∀ (ks : List Node), attrsReadableL c (canonL ks) = attrsReadableL c ks
  | [] => by rw [canonL_nil]
  | k :: r => by rw [canonL_cons, attrsReadableL, attrsReadableL, attrsReadable_canon c k, attrsReadableL_canon c r]
end

theorem isElt_nodeOfElem (c : Ctx) (pg : Pages) (e : Elem) : isElt (nodeOfElem c pg e) = true := by
  cases e with
  | mk sw tag attrs content => rw [nodeOfElem_mk]; rfl

/-- The options `wbxml_tree_to_xml` hands to the printer. -/
def xcfgOf (cfg : W2XCfg) (lang : Lang) : XCfg :=
  { lang := lang, gen := cfg.gen, delta := if cfg.gen == 1 then cfg.indent else 1,
    ignoreEmpty := !cfg.keepWs, removeBlanks := !cfg.keepWs }

theorem treeToXml_ne_nil (cfg : W2XCfg) (fuel : Nat) (t : Tree) (xml : Bytes) (h : treeToXml cfg fuel t = .ok xml) :
    xml ≠ [] := by
  unfold treeToXml at h
  split at h
  · cases h
  · cases h
  · rename_i lang root _ _
    dsimp only at h
    obtain ⟨st, _, h⟩ := bind_ok' h
    have h' := ok_inj h
    rw [← h']
    unfold xmlHeader
    simp

end Wbxml.Lemmas.Rt
