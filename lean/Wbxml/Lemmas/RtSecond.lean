/-
  Round trip (C03), part 3: the second trip. `wbxml_tree_to_xml` prints the round-trip tree, Expat
  reads the text back, `wbxml_tree_from_xml` (`treeOfXml`, Expat's events as a parameter) builds a
  tree from the events.

  Expat is not modelled. What a conforming, namespace-aware XML reader reports for the printer's
  output of a plain tree is DEFINED here (`Reads`, `xmlEventsOf`) — start/end events with the
  printed element names and attributes (attribute-value normalisation of literal TAB / LF, the
  `xml:` prefix reported as the XML namespace URI), character data as printed (`printedText`), in
  any chunking, no CDATA — and `ReadsBack` is the ASSUMPTION that the recorded Expat run for the
  printed text is such an event sequence. Under it the XML-side builder is followed step by step
  (`xrun_kids`, `xrun_doc`): the tree it builds is `readNode`, a function of the printed tree.
-/
import Wbxml.Lemmas.RtNorm
import Wbxml.Lemmas.X2WTree
import Wbxml.Lemmas.XmlPrint
namespace Wbxml.Lemmas.Rt
open Wbxml Wbxml.Model Wbxml.Spec Wbxml.Lemmas.EncW Wbxml.Lemmas.X2W

/-! ### What a conforming reader reports for the printer's output -/

/-- Character data as `xml_encode_text` writes it outside CDATA sections and binary-flagged
    elements, before escaping (which a reader undoes): in compact / indented mode white-space-only
    text is skipped and blanks are trimmed unless white space is kept; canonical mode writes the
    text as it is. (Languages other than SyncML: no media-type rewriting.) -/
def printedText (c : XCfg) (s : Bytes) : Bytes :=
  if (c.gen != 2) && c.ignoreEmpty && s.all isSpaceC then []
  else if (c.gen != 2) && c.removeBlanks then stripBlanks s else s

/-- XML 1.0 §3.3.3: a literal TAB or LF in an attribute value is reported as a space. The printer
    escapes them only in canonical mode. -/
def attrNormalize (canonical : Bool) (v : Bytes) : Bytes :=
  if canonical then v else v.map (fun b => if b == 9 || b == 10 then 32 else b)

def xmlPrefix : Bytes := b!"xml:"

/-- A namespace-aware reader reports the reserved `xml:` prefix as the XML namespace URI. -/
def nsAttrName (n : Bytes) : Bytes :=
  if xmlPrefix.isPrefixOf n then xmlNsUri ++ n.drop xmlPrefix.length else n

/-- The attributes a reader reports for a printed start tag (`xml_encode_attr` prints name and
    value as C strings; nothing is printed for a language without attribute table). -/
def xmlAttrsOf (c : XCfg) (attrs : List Attr) : List (Bytes × Bytes) :=
  if c.lang.attrs.isSome then
    attrs.map (fun a => (nsAttrName (cstrOf a.name.xmlName), attrNormalize (c.gen == 2) (cstrOf a.value)))
  else []

/-- `Reads c kids evs`: `evs` is what a conforming reader may report for the printed child list
    `kids` (elements and text only; language without namespace table; generation mode ≠ indent):
    byte indices are arbitrary, character data arrives in any number of non-empty pieces. -/
inductive Reads (c : XCfg) : List Node → List XEvent → Prop
  | nil : Reads c [] []
  | elt (name : Name) (attrs : List Attr) (kids rest : List Node) (body es : List XEvent) (i j : Nat) :
      Reads c kids body → Reads c rest es →
      Reads c (.elt name attrs kids :: rest)
        (.startElt name.xmlName (xmlAttrsOf c attrs) i :: (body ++ .endElt name.xmlName j :: es))
  | text (s : Bytes) (rest : List Node) (pieces : List Bytes) (es : List XEvent) :
      pieces.flatten = printedText c s → (∀ p ∈ pieces, p ≠ []) → Reads c rest es →
      Reads c (.text s :: rest) (pieces.map XEvent.chars ++ es)

mutual
/-- The canonical reading: one `chars` event per printed non-empty text node, byte indices 0. -/
def xmlEventsOfNode (c : XCfg) : Node → List XEvent
  | .elt name attrs kids =>
    .startElt name.xmlName (xmlAttrsOf c attrs) 0 :: (xmlEventsOfNodes c kids ++ [.endElt name.xmlName 0])
  | .text s => if (printedText c s).isEmpty then [] else [.chars (printedText c s)]
  | .cdata _ => []
  | .tree _ _ _ => []
def xmlEventsOfNodes (c : XCfg) : List Node → List XEvent
  | [] => []
  | k :: r => xmlEventsOfNode c k ++ xmlEventsOfNodes c r
end

/-- What the reader reports for `xml_fill_header`'s document type declaration. -/
def docTypeOf (lang : Lang) : XEvent :=
  .doctype (some (lang.pub.dtd.getD []))
    (match lang.pub.xmlId with
     | some p => if p.isEmpty then none else some p
     | none => none)

def xmlDeclEv : XEvent := .xmlDecl (some b!"1.0") none

/-- The canonical event sequence of the printed tree: XML declaration (version only), document
    type, the root element. -/
def xmlEventsOf (c : XCfg) (t : Tree) : List XEvent :=
  match t.root with
  | some r => xmlDeclEv :: docTypeOf c.lang :: xmlEventsOfNode c r
  | none => []

/-- `evs` is a conforming reading of the printed tree. The reading model is the one of a language
    without namespace table (no `xmlns` attribute is printed, names are reported without namespace
    part) and of compact or canonical generation (no indentation white space is printed); both
    conditions are part of the definition so that the assumption cannot be made outside its scope. -/
def ReadsDoc (c : XCfg) (t : Tree) (evs : List XEvent) : Prop :=
  c.lang.ns = none ∧ c.gen ≠ 1 ∧
  ∃ r body, t.root = some r ∧ Reads c [r] body ∧ evs = xmlDeclEv :: docTypeOf c.lang :: body

mutual
theorem reads_canonical_node (c : XCfg) : ∀ (k : Node) (rest : List Node) (es : List XEvent), plainNode k = true →
    Reads c rest es → Reads c (k :: rest) (xmlEventsOfNode c k ++ es)
  | .elt name attrs kids, rest, es, hp, hr => by
    rw [plainNode] at hp
    rw [xmlEventsOfNode]
    have hk := reads_canonical_nodes c kids hp
    have := Reads.elt name attrs kids rest _ es 0 0 hk hr
    simpa using this
  | .text s, rest, es, _, hr => by
    rw [xmlEventsOfNode]
    split
    · rename_i he
      have := Reads.text (c := c) s rest [] es (by simp [List.isEmpty_iff.mp he]) (by intro p hp; cases hp) hr
      simpa using this
    · rename_i he
      have := Reads.text (c := c) s rest [printedText c s] es (by simp)
        (by intro p hp; simp only [List.mem_singleton] at hp; subst hp; intro h; rw [h] at he; exact he rfl) hr
      simpa using this
  | .cdata _, _, _, hp, _ => by rw [plainNode] at hp; cases hp
  | .tree _ _ _, _, _, hp, _ => by rw [plainNode] at hp; cases hp
theorem reads_canonical_nodes (c : XCfg) : ∀ (ks : List Node), plainNodes ks = true → Reads c ks (xmlEventsOfNodes c ks)
  | [], _ => by rw [xmlEventsOfNodes]; exact Reads.nil
  | k :: r, hp => by
    rw [plainNodes, Bool.and_eq_true] at hp
    rw [xmlEventsOfNodes]
    exact reads_canonical_node c k r _ hp.1 (reads_canonical_nodes c r hp.2)
end

/-- The canonical event sequence is a conforming reading. -/
theorem readsDoc_canonical (c : XCfg) (t : Tree) (r : Node) (hr : t.root = some r) (hp : plainNode r = true)
    (hns : c.lang.ns = none) (hg : c.gen ≠ 1) : ReadsDoc c t (xmlEventsOf c t) := by
  refine ⟨hns, hg, r, xmlEventsOfNode c r, hr, ?_, by simp only [xmlEventsOf, hr]⟩
  have := reads_canonical_node c r [] [] hp Reads.nil
  simpa using this


/-! ### The tree the XML-side builder makes of a reading -/

mutual
/-- What `wbxml_tree_from_xml` builds from a conforming reading of the printed node: names and
    attributes through `xmlElt` (table look-up by name), character data as printed, empty text
    dropped and adjacent text merged by `addKid`. -/
def readNode (lang : Lang) (c : XCfg) : Node → Node
  | .elt name attrs kids =>
    XFrame.close { (xmlElt lang name.xmlName (xmlAttrsOf c attrs)).1 with kids := readKidsAcc lang c kids [] }
  | .text s => .text (printedText c s)
  | .cdata kids => .cdata kids
  | .tree l cs r => .tree l cs r
def readKidsAcc (lang : Lang) (c : XCfg) : List Node → List Node → List Node
  | [], acc => acc
  | k :: rest, acc => readKidsAcc lang c rest (addN acc (readNode lang c k))
end

theorem readNode_elt (lang c name attrs kids) : readNode lang c (.elt name attrs kids) =
    XFrame.close { (xmlElt lang name.xmlName (xmlAttrsOf c attrs)).1 with kids := readKidsAcc lang c kids [] } := by
  rw [readNode]
theorem readNode_text (lang c s) : readNode lang c (.text s) = .text (printedText c s) := by rw [readNode]
theorem readKidsAcc_nil (lang c acc) : readKidsAcc lang c [] acc = acc := by rw [readKidsAcc]
theorem readKidsAcc_cons (lang c k rest acc) :
    readKidsAcc lang c (k :: rest) acc = readKidsAcc lang c rest (addN acc (readNode lang c k)) := by rw [readKidsAcc]

/-! ### Steps of the XML-side builder in the plain situation -/

variable (main : List Lang) (input : Bytes) (sub : Bytes → Option (Except Nat Tree))

/-- No request pending, no error, not skipping, the language known. -/
structure XAt (lang : Lang) (b : XBState) : Prop where
  need : b.need = none
  err : b.error = none
  skip : b.skipLvl = 0
  lang : b.lang = some lang

/-- An open element frame under which character data becomes a plain text child. -/
structure FrameOk (f : XFrame) : Prop where
  kind : ∃ n a, f.kind = .elt n a ∧ (n.xmlName == dataName) = false ∧ isBinaryName n = false
  content : f.content = none

/-- Element names the XML callbacks take as they are: no `|` (namespace separator), not `Data`,
    no NUL. -/
def eltNameOk (n : Bytes) : Bool := (lastIndexOf 124 n).isNone && !(n == dataName) && nulFree n

theorem eltNameOk_notSkip (n : Bytes) (h : eltNameOk n = true) : (n == devinfName || n == mgmtName) = false := by
  simp only [eltNameOk, Bool.and_eq_true, Option.isNone_iff_eq_none] at h
  have h1 : (lastIndexOf 124 devinfName).isSome = true := by decide
  have h2 : (lastIndexOf 124 mgmtName).isSome = true := by decide
  cases hd : n == devinfName with
  | true => rw [beq_iff_eq] at hd; rw [hd] at h; rw [h.1.1] at h1; cases h1
  | false =>
    cases hm : n == mgmtName with
    | true => rw [beq_iff_eq] at hm; rw [hm] at h; rw [h.1.1] at h2; cases h2
    | false => rfl

theorem xstep_start {lang : Lang} {b : XBState} (h : XAt lang b) (hroot : b.stack = [] → b.root = none)
    (name : Bytes) (attrs : List (Bytes × Bytes)) (idx : Nat) (hn : eltNameOk name = true) :
    xbuildStep main input sub b (.startElt name attrs idx) =
      { b with stack := (xmlElt lang name attrs).1 :: b.stack, curPage := (xmlElt lang name attrs).2 } := by
  have hneed : ¬ (b.need.isSome = true) := by rw [h.need]; exact Bool.false_ne_true
  have herr : ¬ (b.error.isSome = true) := by rw [h.err]; exact Bool.false_ne_true
  unfold xbuildStep
  rw [if_neg hneed]
  simp (config := { zeta := false }) only []
  rw [if_neg herr, if_neg (by rw [h.skip]; exact Nat.lt_irrefl 0)]
  extract_lets isRoot b1
  have hb1 : b1 = b := by
    unfold b1
    rw [h.lang]
    simp
  rw [hb1, if_neg herr, eltNameOk_notSkip name hn]
  simp only [Bool.false_and, Bool.false_eq_true, ↓reduceIte, h.lang]
  split
  · rename_i hst hr
    rw [hroot hst] at hr; cases hr
  · rfl

theorem xattach_cons {b : XBState} {f : XFrame} {rest : List XFrame} (hs : b.stack = f :: rest) (n : Node) :
    b.attach n = { b with stack := { f with kids := addKid f.kids n } :: rest } := by
  unfold XBState.attach; rw [hs]

theorem xstep_chars {lang : Lang} {b : XBState} {f : XFrame} {rest : List XFrame} (h : XAt lang b)
    (hs : b.stack = f :: rest) (hf : FrameOk f) (s : Bytes) :
    xbuildStep main input sub b (.chars s) = { b with stack := { f with kids := addKid f.kids (.text s) } :: rest } := by
  obtain ⟨⟨n, a, hk, hnd, hbin⟩, _⟩ := hf
  have hneed : ¬ (b.need.isSome = true) := by rw [h.need]; exact Bool.false_ne_true
  have herr : b.error.isSome = false := by rw [h.err]; rfl
  have hty : syncmlDataType (xStackFrames (f :: rest)) = .normal := by
    show syncmlDataType ({ kind := f.kind, kids := f.kids } :: xStackFrames rest) = .normal
    exact syncml_normal (f := { kind := f.kind, kids := f.kids }) hk hnd
  unfold xbuildStep
  rw [if_neg hneed]
  simp (config := { zeta := false }) only []
  rw [if_neg (by rw [herr, h.skip]; simp)]
  simp only [hs, hty, SyncType.isCdata, Bool.false_eq_true, ↓reduceIte, hk, hbin]
  have : (SyncType.normal == SyncType.vobject) = false := rfl
  simp only [this, Bool.false_and, Bool.false_eq_true, ↓reduceIte]
  rw [xattach_cons hs, hk]

theorem xstep_end {lang : Lang} {b : XBState} {f : XFrame} {rest : List XFrame} (h : XAt lang b)
    (hs : b.stack = f :: rest) (hf : FrameOk f) (name : Bytes) (idx : Nat) :
    xbuildStep main input sub b (.endElt name idx) = ({ b with stack := rest } : XBState).attach f.close := by
  obtain ⟨⟨n, a, hk, _, _⟩, hc⟩ := hf
  rw [step_endElt _ _ _ _ _ _ h.need]
  have hd : decodeTop b = b := by
    unfold decodeTop
    rw [hs]
    simp only [hk, hc]
  rw [hd]
  unfold endTail
  rw [if_neg (by rw [h.err]; exact Bool.false_ne_true), if_neg (by rw [h.skip]; exact Nat.not_lt_zero 1),
    if_neg (by rw [h.skip]; decide)]
  unfold xPop
  rw [hs]
  simp only [hk]


/-! ### The frame `wbxml_tree_add_xml_elt_with_attrs` makes -/

/-- `xmlElt` undoes the reader's reporting of the `xml:` prefix. -/
def unNs (n : Bytes) : Bytes := if xmlNsUri.isPrefixOf n then b!"xml:" ++ n.drop xmlNsUri.length else n

theorem xmlEltCore_shape (lang : Lang) (nsName eltName : Bytes) (attrs : List (Bytes × Bytes)) :
    ∃ tag as, (xmlEltCore lang nsName eltName attrs).1 = { kind := .elt tag as, kids := [] } ∧
      tag.xmlName = eltName ∧ (∀ r, tag = .token r → ∃ tags, lang.tags = some tags ∧ r ∈ tags) ∧
      as.map attrView = attrs.map (fun p => (unNs p.1, p.2)) := by
  have hattrs : ∀ (l : List (Bytes × Bytes)),
      (l.map fun (p : Bytes × Bytes) =>
        let n := if xmlNsUri.isPrefixOf p.1 then b!"xml:" ++ p.1.drop xmlNsUri.length else p.1
        let an := match lang.attrs with
          | some t => (match encAttr t n p.2 with
            | some (r, _) => AName.token r
            | none => AName.literal n)
          | none => AName.literal n
        ({ name := an, value := p.2 } : Attr)).map attrView = l.map (fun p => (unNs p.1, p.2)) := by
    intro l
    rw [List.map_map]
    apply List.map_congr_left
    intro p _
    simp only [Function.comp, attrView, unNs]
    cases hat : lang.attrs with
    | none => rfl
    | some t =>
      simp only
      split
      · rename_i r k he
        simp only [AName.xmlName, encAttr_name _ _ _ _ _ he]
      · rfl
  unfold xmlEltCore
  cases ht : lang.tags with
  | none => exact ⟨_, _, rfl, rfl, (by intro r h; cases h), hattrs attrs⟩
  | some tags =>
    simp only
    split
    · rename_i r he
      refine ⟨_, _, rfl, EncW.encTag_name _ _ _ _ he, ?_, hattrs attrs⟩
      intro r' h; injection h with h; subst h
      exact ⟨tags, rfl, EncW.encTag_mem _ _ _ _ he⟩
    · exact ⟨_, _, rfl, rfl, (by intro r h; cases h), hattrs attrs⟩

theorem localName_of_ok (n : Bytes) (h : eltNameOk n = true) : localName n = n := by
  simp only [eltNameOk, Bool.and_eq_true, Option.isNone_iff_eq_none] at h
  unfold localName; rw [h.1.1]

theorem xmlElt_shape (lang : Lang) (name : Bytes) (attrs : List (Bytes × Bytes)) (hn : eltNameOk name = true) :
    ∃ tag as, (xmlElt lang name attrs).1 = { kind := .elt tag as, kids := [] } ∧
      tag.xmlName = name ∧ (∀ r, tag = .token r → ∃ tags, lang.tags = some tags ∧ r ∈ tags) ∧
      as.map attrView = attrs.map (fun p => (unNs p.1, p.2)) := by
  obtain ⟨nsName, e⟩ := xmlElt_eq lang name attrs
  rw [e, localName_of_ok name hn]
  exact xmlEltCore_shape lang nsName name attrs

theorem plainLang_notBinary (lang : Lang) (hpl : plainLang lang = true) (tag : Name)
    (h : ∀ r, tag = .token r → ∃ tags, lang.tags = some tags ∧ r ∈ tags) : isBinaryName tag = false := by
  cases tag with
  | literal s => rfl
  | token r =>
    obtain ⟨tags, ht, hm⟩ := h r rfl
    simp only [plainLang, ht, Bool.and_eq_true, List.all_eq_true, beq_iff_eq] at hpl
    simp [isBinaryName, hpl.2 r hm]

theorem xmlElt_frameOk (lang : Lang) (hpl : plainLang lang = true) (name : Bytes) (attrs : List (Bytes × Bytes))
    (hn : eltNameOk name = true) (kids : List Node) :
    FrameOk { (xmlElt lang name attrs).1 with kids := kids } := by
  obtain ⟨tag, as, he, hx, hrow, _⟩ := xmlElt_shape lang name attrs hn
  rw [he]
  refine ⟨⟨tag, as, rfl, ?_, plainLang_notBinary lang hpl tag hrow⟩, rfl⟩
  rw [hx]
  simp only [eltNameOk, Bool.and_eq_true, Bool.not_eq_true'] at hn
  exact hn.1.2

theorem xmlElt_kids (lang : Lang) (name : Bytes) (attrs : List (Bytes × Bytes)) (hn : eltNameOk name = true) :
    (xmlElt lang name attrs).1.kids = [] := by
  obtain ⟨tag, as, he, _⟩ := xmlElt_shape lang name attrs hn
  rw [he]

theorem xmlElt_close_isText (lang : Lang) (name : Bytes) (attrs : List (Bytes × Bytes)) (hn : eltNameOk name = true)
    (kids : List Node) : isText (XFrame.close { (xmlElt lang name attrs).1 with kids := kids }) = false := by
  obtain ⟨tag, as, he, _⟩ := xmlElt_shape lang name attrs hn
  rw [he]; rfl

/-! ### Pieces of character data -/

theorem addKid_addKid_text (k0 : List Node) (p q : Bytes) :
    addKid (addKid k0 (.text p)) (.text q) = addKid k0 (.text (p ++ q)) := by
  cases hl : lastText k0 with
  | false => rw [addKid_text_after _ _ hl, addKid_text_merge, addKid_text_after _ _ hl]
  | true =>
    obtain ⟨pre, t, rfl⟩ := lastText_split k0 hl
    rw [addKid_text_merge, addKid_text_merge, addKid_text_merge, List.append_assoc]

theorem addKid_pieces : ∀ (pieces : List Bytes) (k0 : List Node), (∀ p ∈ pieces, p ≠ []) →
    pieces.foldl (fun k p => addKid k (.text p)) k0 = addChars k0 pieces.flatten
  | [], k0, _ => by simp [addChars]
  | p :: ps, k0, h => by
    have hp : p ≠ [] := h p (by simp)
    rw [List.foldl_cons, addKid_pieces ps _ (fun x hx => h x (List.mem_cons_of_mem _ hx)), List.flatten_cons]
    unfold addChars
    have hne : (p ++ ps.flatten).isEmpty = false := by
      cases p with
      | nil => exact absurd rfl hp
      | cons _ _ => rfl
    rw [hne]
    simp only [Bool.false_eq_true, ↓reduceIte]
    split
    · rename_i he
      rw [List.isEmpty_iff.mp he, List.append_nil]
    · exact addKid_addKid_text k0 p _

theorem xrun_pieces {lang : Lang} : ∀ (pieces : List Bytes) (b : XBState) (f : XFrame) (rest : List XFrame),
    XAt lang b → b.stack = f :: rest → FrameOk f →
    (pieces.map XEvent.chars).foldl (xbuildStep main input sub) b =
      { b with stack := { f with kids := pieces.foldl (fun k p => addKid k (.text p)) f.kids } :: rest }
  | [], b, f, rest, _, hs, _ => by
    simp only [List.map_nil, List.foldl_nil]
    cases b; simp only at hs; subst hs; rfl
  | p :: ps, b, f, rest, h, hs, hf => by
    rw [List.map_cons, List.foldl_cons, xstep_chars main input sub h hs hf,
      xrun_pieces ps ({ b with stack := { f with kids := addKid f.kids (.text p) } :: rest } : XBState)
        { f with kids := addKid f.kids (.text p) } rest ⟨h.need, h.err, h.skip, h.lang⟩ rfl
        ⟨hf.kind, hf.content⟩]
    rfl

/-! ### The builder over a conforming reading -/

mutual
/-- Elements and text only; element names without `|`, none called `Data`. -/
def readable : Node → Bool
  | .elt name _ kids => eltNameOk name.xmlName && readableL kids
  | .text _ => true
  | .cdata _ => false
  | .tree _ _ _ => false
def readableL : List Node → Bool
  | [] => true
  | k :: r => readable k && readableL r
end

theorem xrun_kids {lang : Lang} {c : XCfg} (hpl : plainLang lang = true) {ks : List Node} {evs : List XEvent}
    (hr : Reads c ks evs) : readableL ks = true → ∀ (b : XBState) (f : XFrame) (rest : List XFrame),
      XAt lang b → b.stack = f :: rest → FrameOk f →
      ∃ cp, evs.foldl (xbuildStep main input sub) b =
        { b with stack := { f with kids := readKidsAcc lang c ks f.kids } :: rest, curPage := cp } := by
  induction hr with
  | nil =>
    intro _ b f rest _ hs _
    refine ⟨b.curPage, ?_⟩
    rw [List.foldl_nil, readKidsAcc_nil]
    cases b; simp only at hs; subst hs; rfl
  | elt name attrs kids more body es i j _ _ ihb ihe =>
    intro hrd b f rest h hs hf
    rw [readableL, readable, Bool.and_eq_true, Bool.and_eq_true] at hrd
    obtain ⟨⟨hn, hkids⟩, hmore⟩ := hrd
    rw [List.foldl_cons, List.foldl_append, List.foldl_cons,
      xstep_start main input sub h (by intro h0; rw [hs] at h0; cases h0) _ _ _ hn]
    obtain ⟨cp1, e1⟩ := ihb hkids
      ({ b with stack := (xmlElt lang name.xmlName (xmlAttrsOf c attrs)).1 :: b.stack,
                curPage := (xmlElt lang name.xmlName (xmlAttrsOf c attrs)).2 } : XBState)
      (xmlElt lang name.xmlName (xmlAttrsOf c attrs)).1 b.stack ⟨h.need, h.err, h.skip, h.lang⟩ rfl
      (xmlElt_frameOk lang hpl _ _ hn _)
    rw [e1, xmlElt_kids lang _ _ hn]
    rw [xstep_end main input sub (lang := lang)
      (b := { ({ b with stack := (xmlElt lang name.xmlName (xmlAttrsOf c attrs)).1 :: b.stack,
                        curPage := (xmlElt lang name.xmlName (xmlAttrsOf c attrs)).2 } : XBState) with
              stack := { (xmlElt lang name.xmlName (xmlAttrsOf c attrs)).1 with
                         kids := readKidsAcc lang c kids [] } :: b.stack,
              curPage := cp1 })
      ⟨h.need, h.err, h.skip, h.lang⟩ rfl (xmlElt_frameOk lang hpl _ _ hn _)]
    have hatt : (({ b with stack := b.stack, curPage := cp1 } : XBState).attach
          (XFrame.close { (xmlElt lang name.xmlName (xmlAttrsOf c attrs)).1 with kids := readKidsAcc lang c kids [] })) =
        { b with stack := { f with kids := addN f.kids (readNode lang c (.elt name attrs kids)) } :: rest,
                 curPage := cp1 } := by
      rw [xattach_cons (b := { b with stack := b.stack, curPage := cp1 }) hs, readNode_elt]
      have hnt := xmlElt_close_isText lang name.xmlName (xmlAttrsOf c attrs) hn (readKidsAcc lang c kids [])
      generalize XFrame.close { (xmlElt lang name.xmlName (xmlAttrsOf c attrs)).1 with
        kids := readKidsAcc lang c kids [] } = nd at hnt ⊢
      cases nd with
      | text s => cases hnt
      | elt _ _ _ => rfl
      | cdata _ => rfl
      | tree _ _ _ => rfl
    show ∃ cp, List.foldl _ (({ b with stack := b.stack, curPage := cp1 } : XBState).attach _) es = _
    rw [hatt]
    obtain ⟨cp2, e3⟩ := ihe hmore
      ({ b with stack := { f with kids := addN f.kids (readNode lang c (.elt name attrs kids)) } :: rest,
                curPage := cp1 } : XBState)
      { f with kids := addN f.kids (readNode lang c (.elt name attrs kids)) } rest
      ⟨h.need, h.err, h.skip, h.lang⟩ rfl ⟨hf.kind, hf.content⟩
    exact ⟨cp2, by rw [e3, readKidsAcc_cons]⟩
  | text s more pieces es hflat hne _ ihe =>
    intro hrd b f rest h hs hf
    rw [readableL, Bool.and_eq_true] at hrd
    rw [List.foldl_append, xrun_pieces main input sub pieces b f rest h hs hf, addKid_pieces pieces _ hne, hflat]
    obtain ⟨cp2, e3⟩ := ihe hrd.2
      ({ b with stack := { f with kids := addChars f.kids (printedText c s) } :: rest } : XBState)
      { f with kids := addChars f.kids (printedText c s) } rest
      ⟨h.need, h.err, h.skip, h.lang⟩ rfl ⟨hf.kind, hf.content⟩
    exact ⟨cp2, by rw [e3, readKidsAcc_cons, readNode_text]; rfl⟩


/-! ### The whole document -/

theorem xstep_xmlDecl (b : XBState) (h : b.need = none) (v : Bytes) :
    xbuildStep main input sub b (.xmlDecl (some v) none) = b := by
  unfold xbuildStep
  rw [if_neg (by rw [h]; exact Bool.false_ne_true)]

theorem xstep_doctype (b : XBState) (h : b.need = none) (sysid pubid : Option Bytes) (l : Lang)
    (hl : searchTable main pubid sysid none = some l) :
    xbuildStep main input sub b (.doctype sysid pubid) = { b with lang := some l } := by
  unfold xbuildStep
  rw [if_neg (by rw [h]; exact Bool.false_ne_true)]
  simp only [hl]

/-- The document type the printer writes selects the language again. -/
def docTypeFinds (main : List Lang) (lang : Lang) : Bool :=
  match docTypeOf lang with
  | .doctype sysid pubid =>
    (match searchTable main pubid sysid none with
     | some l => decide (l = lang)
     | none => false)
  | _ => false

theorem docTypeFinds_spec (main : List Lang) (lang : Lang) (h : docTypeFinds main lang = true) :
    ∃ sysid pubid, docTypeOf lang = .doctype sysid pubid ∧ searchTable main pubid sysid none = some lang := by
  unfold docTypeFinds at h
  unfold docTypeOf at h ⊢
  refine ⟨_, _, rfl, ?_⟩
  simp only at h
  split at h
  · rename_i l hl
    rw [hl, of_decide_eq_true h]
  · cases h

/-- **The XML-side builder over a conforming reading of the printed tree** builds `readNode` of
    its root, with the language the document type selects. -/
theorem xrun_doc {lang : Lang} {c : XCfg} (hpl : plainLang lang = true) (hc : c.lang = lang)
    (hdt : docTypeFinds main lang = true) (t : Tree) (r : Node) (hroot : t.root = some r)
    (hre : readable r = true) (helt : isElt r = true) (evs : List XEvent) (hr : ReadsDoc c t evs) :
    ∃ cp, evs.foldl (xbuildStep main input sub) {} =
      { lang := some lang, root := some (readNode lang c r), curPage := cp } := by
  obtain ⟨_, _, r0, body, hr0, hreads, hevs⟩ := hr
  rw [hroot] at hr0; injection hr0 with hr0; subst hr0
  obtain ⟨sysid, pubid, hd, hfind⟩ := docTypeFinds_spec main lang hdt
  subst hevs
  rw [hc, hd]
  rw [List.foldl_cons, List.foldl_cons]
  unfold xmlDeclEv
  rw [xstep_xmlDecl main input sub {} rfl, xstep_doctype main input sub {} rfl sysid pubid lang hfind]
  cases hreads with
  | text s rest pieces es _ _ _ => cases helt
  | elt name attrs kids rest body' es i j hk hrest =>
    cases hrest
    rw [readable, Bool.and_eq_true] at hre
    have h1 : XAt lang ({ lang := some lang } : XBState) := ⟨rfl, rfl, rfl, rfl⟩
    rw [List.foldl_cons, List.foldl_append, List.foldl_cons, List.foldl_nil,
      xstep_start main input sub h1 (fun _ => rfl) _ _ _ hre.1]
    obtain ⟨cp1, e1⟩ := xrun_kids main input sub hpl hk hre.2
      ({ lang := some lang, stack := [(xmlElt lang name.xmlName (xmlAttrsOf c attrs)).1],
         curPage := (xmlElt lang name.xmlName (xmlAttrsOf c attrs)).2 } : XBState)
      (xmlElt lang name.xmlName (xmlAttrsOf c attrs)).1 [] ⟨rfl, rfl, rfl, rfl⟩ rfl
      (xmlElt_frameOk lang hpl _ _ hre.1 _)
    refine ⟨cp1, ?_⟩
    have e1' : List.foldl (xbuildStep main input sub)
        ({ ({ lang := some lang } : XBState) with
            stack := (xmlElt lang name.xmlName (xmlAttrsOf c attrs)).1 :: ({ lang := some lang } : XBState).stack,
            curPage := (xmlElt lang name.xmlName (xmlAttrsOf c attrs)).2 }) body' = _ := e1
    rw [e1', xmlElt_kids lang _ _ hre.1,
      xstep_end main input sub (lang := lang)
        (b := { ({ lang := some lang, stack := [(xmlElt lang name.xmlName (xmlAttrsOf c attrs)).1],
                   curPage := (xmlElt lang name.xmlName (xmlAttrsOf c attrs)).2 } : XBState) with
                stack := [{ (xmlElt lang name.xmlName (xmlAttrsOf c attrs)).1 with
                            kids := readKidsAcc lang c kids [] }],
                curPage := cp1 })
        ⟨rfl, rfl, rfl, rfl⟩ rfl (xmlElt_frameOk lang hpl _ _ hre.1 _), readNode_elt]
    rfl

/-- **`ReadsBack`: the assumption about Expat.** The run recorded for the text `xml` reports
    success and an event sequence that is a conforming reading (`ReadsDoc`) of the printed tree
    `t` under the printer's options `c`. Expat is not modelled: this is exactly what the C05 check
    (recorded Expat runs of the printer's output against the tree) validates on the implementation
    side. -/
def ReadsBack (env : List (Bytes × ExpatRun)) (xml : Bytes) (c : XCfg) (t : Tree) : Prop :=
  ∃ k run, env.find? (fun p => p.1 == xml) = some (k, run) ∧ run.ok = true ∧ ReadsDoc c t run.events

/-- `ReadsBack` is satisfiable for every plain tree (language without namespace table, generation
    mode ≠ indent): by the run that reports the canonical event sequence `xmlEventsOf c t`. -/
theorem readsBack_canonical (xml : Bytes) (c : XCfg) (t : Tree) (r : Node) (hr : t.root = some r)
    (hp : plainNode r = true) (hns : c.lang.ns = none) (hg : c.gen ≠ 1) :
    ReadsBack [(xml, { ok := true, events := xmlEventsOf c t })] xml c t := by
  refine ⟨xml, { ok := true, events := xmlEventsOf c t }, ?_, rfl, readsDoc_canonical c t r hr hp hns hg⟩
  simp [List.find?]

/-- `wbxml_tree_from_xml` on a text for which `ReadsBack` holds. -/
theorem treeOfXml_readsBack {lang : Lang} {c : XCfg} (main : List Lang) (hpl : plainLang lang = true) (hc : c.lang = lang)
    (hdt : docTypeFinds main lang = true) (t : Tree) (r : Node) (hroot : t.root = some r)
    (hre : readable r = true) (helt : isElt r = true) (env : List (Bytes × ExpatRun)) (xml : Bytes)
    (hne : xml ≠ []) (hrb : ReadsBack env xml c t) (f : Nat) :
    treeOfXml main env (f + 1) xml = .ok { lang := some lang, origCharset := 0, root := some (readNode lang c r) } := by
  obtain ⟨k, run, hfind, hok, hrd⟩ := hrb
  rw [treeOfXml]
  have he : xml.isEmpty = false := by cases xml with | nil => exact absurd rfl hne | cons _ _ => rfl
  simp only [he, Bool.false_eq_true, ↓reduceIte, hfind]
  obtain ⟨cp, e⟩ := xrun_doc main xml _ hpl hc hdt t r hroot hre helt run.events hrd
  rw [e]
  simp only [hok, Bool.not_true, Bool.false_eq_true, ↓reduceIte]


/-! ### The tree read back equals the printed tree up to `normNode` -/

theorem dropWhile_nil_iff (p : UInt8 → Bool) : ∀ (l : Bytes), l.dropWhile p = [] ↔ ∀ x ∈ l, p x = true
  | [] => by simp
  | a :: l => by
    by_cases ha : p a = true
    · rw [List.dropWhile_cons_of_pos ha, dropWhile_nil_iff p l]
      simp [ha]
    · rw [List.dropWhile_cons_of_neg ha]
      simp [ha]

theorem strip_allSpace (s : Bytes) (h : s.all isSpaceC = true) : stripBlanks s = [] := by
  unfold stripBlanks
  have : s.dropWhile isSpaceC = [] := by
    rw [dropWhile_nil_iff]
    exact List.all_eq_true.mp h
  rw [this]; rfl

theorem strip_all (s : Bytes) : (stripBlanks s).all isSpaceC = s.all isSpaceC := by
  cases hs : s.all isSpaceC with
  | true => rw [strip_allSpace s hs]; rfl
  | false =>
    cases hh : (stripBlanks s).head? with
    | some x => exact all_false_of_head _ x hh ((trim_strip s).1 x hh)
    | none =>
      exfalso
      rw [List.head?_eq_none_iff] at hh
      unfold stripBlanks at hh
      rw [List.reverse_eq_nil_iff, dropWhile_nil_iff] at hh
      have hA : ∀ x ∈ s.dropWhile isSpaceC, isSpaceC x = true := fun x hx => hh x (List.mem_reverse.mpr hx)
      cases hd : s.dropWhile isSpaceC with
      | nil =>
        rw [dropWhile_nil_iff] at hd
        rw [List.all_eq_true.mpr hd] at hs; cases hs
      | cons a l =>
        have h1 := dropWhile_head s a (by rw [hd]; rfl)
        have h2 := hA a (by rw [hd]; simp)
        rw [h1] at h2; cases h2

/-- The printer's white-space handling is absorbed by the encoder's: canonical output, or every
    kind of white space the printer removes is removed by the encoder as well. -/
def flagsOk (c : XCfg) (wc : WCfg) : Bool :=
  (c.gen == 2) || ((!c.ignoreEmpty || wc.ignoreEmpty || wc.removeBlanks) && (!c.removeBlanks || wc.removeBlanks))

theorem normText_printed (c : XCfg) (wc : WCfg) (hs : isSyncml wc.lang.id = false) (hf : flagsOk c wc = true) (s : Bytes) :
    normText wc (printedText c s) = normText wc s := by
  unfold printedText
  cases hg : c.gen == 2 with
  | true =>
    have hne : (c.gen != 2) = false := by simp [bne, hg]
    simp only [hne, Bool.false_and, Bool.false_eq_true, ↓reduceIte]
  | false =>
    simp only [flagsOk, hg, Bool.false_or, Bool.and_eq_true, Bool.or_eq_true, Bool.not_eq_true'] at hf
    have hne : (c.gen != 2) = true := by simp [bne, hg]
    simp only [hne, Bool.true_and]
    split
    · rename_i h1
      rw [Bool.and_eq_true] at h1
      rw [normText_nil wc hs]
      unfold normText
      rcases hf.1 with (hi | hi) | hr
      · rw [h1.1] at hi; cases hi
      · simp [hi, h1.2]
      · cases hi : wc.ignoreEmpty with
        | true => simp [h1.2]
        | false =>
          simp only [Bool.false_and, Bool.false_eq_true, ↓reduceIte, hr, strip_allSpace s h1.2]
          rw [syncmlTypeText_of_not _ _ hs]; rfl
    · split
      · rename_i h2
        have hr : wc.removeBlanks = true := by
          rcases hf.2 with h | h
          · rw [h2] at h; cases h
          · exact h
        unfold normText
        rw [strip_all, hr]
        simp only [↓reduceIte, strip_of_trim _ (trim_strip s)]
      · rfl

theorem normKidsAcc_append (wc : WCfg) : ∀ (A B acc : List Node),
    normKidsAcc wc (A ++ B) acc = normKidsAcc wc B (normKidsAcc wc A acc)
  | [], B, acc => by rw [List.nil_append, normKidsAcc_nil]
  | a :: A, B, acc => by rw [List.cons_append, normKidsAcc_cons, normKidsAcc_cons, normKidsAcc_append wc A B]

theorem normKidsAcc_snoc (wc : WCfg) (A : List Node) (x : Node) :
    normKidsAcc wc (A ++ [x]) [] = addN (normKidsAcc wc A []) (normNode wc x) := by
  rw [normKidsAcc_append, normKidsAcc_cons, normKidsAcc_nil]

/-- Attributes survive printing and reading: the name does not start with the XML namespace URI
    (the reader's spelling of the `xml:` prefix), and the value has no TAB / LF unless the output
    is canonical (they are written unescaped otherwise, and read back as spaces). -/
def attrReadable (c : XCfg) (a : Attr) : Bool :=
  !(xmlNsUri.isPrefixOf (cstrOf a.name.xmlName)) &&
  ((c.gen == 2) || (cstrOf a.value).all (fun b => !(b == 9 || b == 10)))

mutual
def attrsReadable (c : XCfg) : Node → Bool
  | .elt _ attrs kids => attrs.all (attrReadable c) && attrsReadableL c kids
  | .text _ => true
  | .cdata _ => true
  | .tree _ _ _ => true
def attrsReadableL (c : XCfg) : List Node → Bool
  | [] => true
  | k :: r => attrsReadable c k && attrsReadableL c r
end

theorem unNs_nsAttrName (m : Bytes) (h : xmlNsUri.isPrefixOf m = false) : unNs (nsAttrName m) = m := by
  unfold nsAttrName
  split
  · rename_i hp
    rw [List.isPrefixOf_iff_prefix] at hp
    obtain ⟨t, rfl⟩ := hp
    unfold unNs
    have h1 : xmlNsUri.isPrefixOf (xmlNsUri ++ (xmlPrefix ++ t).drop xmlPrefix.length) = true := by
      rw [List.isPrefixOf_iff_prefix]; exact List.prefix_append _ _
    rw [h1]
    simp only [↓reduceIte, List.drop_left]
    rfl
  · unfold unNs; rw [h]; rfl

theorem attrNormalize_id (canonical : Bool) (v : Bytes)
    (h : (canonical || v.all (fun b => !(b == 9 || b == 10))) = true) : attrNormalize canonical v = v := by
  unfold attrNormalize
  cases canonical with
  | true => rfl
  | false =>
    simp only [Bool.false_or, List.all_eq_true, Bool.not_eq_true'] at h
    simp only [Bool.false_eq_true, ↓reduceIte]
    conv => rhs; rw [← List.map_id v]
    apply List.map_congr_left
    intro b hb
    rw [h b hb]; rfl

def normOfView (p : Bytes × Bytes) : Attr := { name := .literal (cstrOf p.1), value := withNul (cstrOf p.2) }

theorem normAttr_view (a : Attr) : normAttr a = normOfView (attrView a) := rfl

theorem normAttrs_read (c : XCfg) (wc : WCfg) (hl : wc.lang = c.lang) (attrs as : List Attr)
    (hv : as.map attrView = (xmlAttrsOf c attrs).map (fun p => (unNs p.1, p.2)))
    (hok : attrs.all (attrReadable c) = true) : normAttrs wc as = normAttrs wc attrs := by
  unfold normAttrs
  rw [hl]
  unfold xmlAttrsOf at hv
  split
  · rename_i hsome
    rw [if_pos hsome] at hv
    have : as.map normAttr = (as.map attrView).map normOfView := by rw [List.map_map]; rfl
    rw [this, hv, List.map_map, List.map_map]
    apply List.map_congr_left
    intro a ha
    rw [List.all_eq_true] at hok
    have h1 := hok a ha
    simp only [attrReadable, Bool.and_eq_true, Bool.not_eq_true'] at h1
    simp only [Function.comp, normOfView, normAttr]
    rw [unNs_nsAttrName _ h1.1, attrNormalize_id _ _ h1.2, cstrOf_idem, cstrOf_idem]
  · rfl

mutual
theorem norm_read_node (lang : Lang) (c : XCfg) (wc : WCfg) (hl : wc.lang = c.lang) (hs : isSyncml wc.lang.id = false)
    (hf : flagsOk c wc = true) : ∀ (n : Node), nfNode n = true → readable n = true → attrsReadable c n = true →
    normNode wc (readNode lang c n) = normNode wc n
  | .elt name attrs kids, hnf, hre, har => by
    rw [nfNode] at hnf
    rw [readable, Bool.and_eq_true] at hre
    rw [attrsReadable, Bool.and_eq_true] at har
    obtain ⟨tag, as, he, hx, _, hv⟩ := xmlElt_shape lang name.xmlName (xmlAttrsOf c attrs) hre.1
    rw [readNode_elt, he]
    show normNode wc (.elt tag as (readKidsAcc lang c kids [])) = _
    rw [normNode_elt, normNode_elt,
      norm_read_kids lang c wc hl hs hf kids [] hnf hre.2 har.2 (fun h => by cases h),
      normKidsAcc_nil, normAttrs_read c wc hl attrs as hv har.1]
    simp only [normName, hx]
  | .text s, _, _, _ => by
    rw [readNode_text, normNode_text, normNode_text, normText_printed c wc hs hf]
  | .cdata kids, hnf, _, _ => by rw [nfNode] at hnf; cases hnf
  | .tree l cs r, hnf, _, _ => by rw [nfNode] at hnf; cases hnf
theorem norm_read_kids (lang : Lang) (c : XCfg) (wc : WCfg) (hl : wc.lang = c.lang) (hs : isSyncml wc.lang.id = false)
    (hf : flagsOk c wc = true) : ∀ (ks A : List Node), nfKids ks = true → readableL ks = true →
    attrsReadableL c ks = true → (lastText A = true → headText ks = false) →
    normKidsAcc wc (readKidsAcc lang c ks A) [] = normKidsAcc wc ks (normKidsAcc wc A [])
  | [], A, _, _, _, _ => by rw [readKidsAcc_nil, normKidsAcc_nil]
  | k :: rest, A, hnf, hre, har, hinv => by
    rw [nfKids_cons] at hnf
    simp only [Bool.and_eq_true, Bool.not_eq_true'] at hnf
    rw [readableL, Bool.and_eq_true] at hre
    rw [attrsReadableL, Bool.and_eq_true] at har
    rw [readKidsAcc_cons, normKidsAcc_cons]
    cases k with
    | text s =>
      have hlast : lastText A = false := by
        cases hA : lastText A with
        | false => rfl
        | true => have := hinv hA; simp [headText, isText] at this
      have hrest : headText rest = false := by simpa [isText] using hnf.1.2
      rw [readNode_text, normNode_text]
      rw [norm_read_kids lang c wc hl hs hf rest _ hnf.2 hre.2 har.2 (fun _ => hrest)]
      congr 1
      simp only [addN, addChars]
      split
      · rename_i he
        have hp := List.isEmpty_iff.mp he
        have : normText wc s = [] := by rw [← normText_printed c wc hs hf, hp, normText_nil wc hs]
        rw [this]; rfl
      · rw [addKid_text_after _ _ hlast, normKidsAcc_snoc, normNode_text, normText_printed c wc hs hf]
        rfl
    | elt nm a ks =>
      have hnt : isText (readNode lang c (.elt nm a ks)) = false := by
        rw [readable, Bool.and_eq_true] at hre
        rw [readNode_elt]; exact xmlElt_close_isText lang _ _ hre.1.1 _
      have hadd : addN A (readNode lang c (.elt nm a ks)) = A ++ [readNode lang c (.elt nm a ks)] := by
        generalize readNode lang c (.elt nm a ks) = nd at hnt ⊢
        cases nd with
        | text s => cases hnt
        | elt x y z => exact addKid_not_text A (.elt x y z) rfl
        | cdata x => exact addKid_not_text A (.cdata x) rfl
        | tree x y z => exact addKid_not_text A (.tree x y z) rfl
      rw [hadd, norm_read_kids lang c wc hl hs hf rest _ hnf.2 hre.2 har.2
        (fun h => by rw [lastText_snoc, hnt] at h; cases h),
        normKidsAcc_snoc, norm_read_node lang c wc hl hs hf (.elt nm a ks) hnf.1.1 hre.1 har.1]
    | cdata ks => have := hnf.1.1; rw [nfNode] at this; cases this
    | tree l cs r => have := hnf.1.1; rw [nfNode] at this; cases this
end


/-! ### The hypotheses only look at the view -/

mutual
theorem normNode_canon (wc : WCfg) : ∀ (n : Node), normNode wc (canon n) = normNode wc n
  | .elt name attrs kids => by
    rw [canon_elt, normNode_elt, normNode_elt, normKidsAcc_canonL wc kids []]
    have : normAttrs wc (attrs.map canonAttr) = normAttrs wc attrs := by
      unfold normAttrs
      split
      · rw [List.map_map]; rfl
      · rfl
    rw [this]
    rfl
  | .text s => by rw [canon_text]
  | .cdata kids => by rw [canon]
  | .tree l cs r => by rw [canon]
theorem normKidsAcc_canonL (wc : WCfg) : ∀ (ks acc : List Node),
    normKidsAcc wc (canonL ks) acc = normKidsAcc wc ks acc
  | [], acc => by rw [canonL_nil]
  | k :: r, acc => by
    rw [canonL_cons, normKidsAcc_cons, normKidsAcc_cons, normNode_canon wc k, normKidsAcc_canonL wc r]
end

mutual
theorem readable_canon : ∀ (n : Node), readable (canon n) = readable n
  | .elt name attrs kids => by rw [canon_elt, readable, readable, readableL_canon kids]; rfl
  | .text s => by rw [canon_text]
  | .cdata kids => by rw [canon]
  | .tree l cs r => by rw [canon]
theorem readableL_canon : ∀ (ks : List Node), readableL (canonL ks) = readableL ks
  | [] => by rw [canonL_nil]
  | k :: r => by rw [canonL_cons, readableL, readableL, readable_canon k, readableL_canon r]
end

mutual
theorem attrsReadable_canon (c : XCfg) : ∀ (n : Node), attrsReadable c (canon n) = attrsReadable c n
  | .elt name attrs kids => by
    rw [canon_elt, attrsReadable, attrsReadable, attrsReadableL_canon c kids, List.all_map]
    rfl
  | .text s => by rw [canon_text]
  | .cdata kids => by rw [canon]
  | .tree l cs r => by rw [canon]
theorem attrsReadableL_canon (c : XCfg) : ∀ (ks : List Node), attrsReadableL c (canonL ks) = attrsReadableL c ks
  | [] => by rw [canonL_nil]
  | k :: r => by rw [canonL_cons, attrsReadableL, attrsReadableL, attrsReadable_canon c k, attrsReadableL_canon c r]
end

theorem isElt_nodeOfElem (c : Ctx) (pg : Pages) (e : Elem) : isElt (nodeOfElem c pg e) = true := by
  cases e with
  | mk sw tag attrs content => rw [nodeOfElem_mk]; rfl

/-- The options `wbxml_tree_to_xml` hands to the printer. -/
def xcfgOf (cfg : W2XCfg) (lang : Lang) : XCfg :=
  { lang := lang, gen := cfg.gen, delta := if cfg.gen == 1 then cfg.indent else 1,
    ignoreEmpty := !cfg.keepWs, removeBlanks := !cfg.keepWs }

theorem treeToXml_ne_nil (cfg : W2XCfg) (fuel : Nat) (t : Tree) (xml : Bytes) (h : treeToXml cfg fuel t = .ok xml) :
    xml ≠ [] := by
  unfold treeToXml at h
  split at h
  · cases h
  · cases h
  · rename_i lang root _ _
    dsimp only at h
    obtain ⟨st, _, h⟩ := bind_ok' h
    have h' := ok_inj h
    rw [← h']
    unfold xmlHeader
    simp


/-! ### The tree read back is a tree over the language again -/

theorem encAttr_mem (t : List AttrRow) (name value : Bytes) (r : AttrRow) (n : Nat)
    (h : encAttr t name value = some (r, n)) : r ∈ t :=
  EncW.encAttrGo_mem name value t t {} (fun _ hr => hr) (by intro r h; cases h) r n h

theorem xmlEltCore_attrs (lang : Lang) (nsName eltName : Bytes) (attrs : List (Bytes × Bytes)) :
    ∃ tag as, (xmlEltCore lang nsName eltName attrs).1 = { kind := .elt tag as, kids := [] } ∧
      ∀ a ∈ as, (∃ p ∈ attrs, a.value = p.2) ∧
        (∀ r, a.name = .token r → ∃ t, lang.attrs = some t ∧ r ∈ t) := by
  have hattrs : ∀ a ∈ (attrs.map fun (p : Bytes × Bytes) =>
        let n := if xmlNsUri.isPrefixOf p.1 then b!"xml:" ++ p.1.drop xmlNsUri.length else p.1
        let an := match lang.attrs with
          | some t => (match encAttr t n p.2 with
            | some (r, _) => AName.token r
            | none => AName.literal n)
          | none => AName.literal n
        ({ name := an, value := p.2 } : Attr)),
      (∃ p ∈ attrs, a.value = p.2) ∧ (∀ r, a.name = .token r → ∃ t, lang.attrs = some t ∧ r ∈ t) := by
    intro a ha
    rw [List.mem_map] at ha
    obtain ⟨p, hp, rfl⟩ := ha
    refine ⟨⟨p, hp, rfl⟩, ?_⟩
    intro r hr
    simp only at hr
    cases hat : lang.attrs with
    | none => rw [hat] at hr; cases hr
    | some t =>
      rw [hat] at hr
      simp only at hr
      split at hr
      · rename_i r' k he
        injection hr with hr; subst hr
        exact ⟨t, rfl, encAttr_mem _ _ _ _ _ he⟩
      · cases hr
  unfold xmlEltCore
  cases ht : lang.tags with
  | none => exact ⟨_, _, rfl, hattrs⟩
  | some tags =>
    simp only
    split
    · exact ⟨_, _, rfl, hattrs⟩
    · exact ⟨_, _, rfl, hattrs⟩

mutual
/-- Attribute values shorter than 2^32 octets (`WB_ULONG` lengths). -/
def valuesShort : Node → Bool
  | .elt _ attrs kids => attrs.all (fun a => decide (a.value.length < 4294967296)) && valuesShortL kids
  | .text _ => true
  | .cdata _ => true
  | .tree _ _ _ => true
def valuesShortL : List Node → Bool
  | [] => true
  | k :: r => valuesShort k && valuesShortL r
end

mutual
theorem valuesShort_canon : ∀ (n : Node), valuesShort (canon n) = valuesShort n
  | .elt name attrs kids => by
    rw [canon_elt, valuesShort, valuesShort, valuesShortL_canon kids, List.all_map]; rfl
  | .text s => by rw [canon_text]
  | .cdata kids => by rw [canon]
  | .tree l cs r => by rw [canon]
theorem valuesShortL_canon : ∀ (ks : List Node), valuesShortL (canonL ks) = valuesShortL ks
  | [] => by rw [canonL_nil]
  | k :: r => by rw [canonL_cons, valuesShortL, valuesShortL, valuesShort_canon k, valuesShortL_canon r]
end

theorem attrNormalize_length (canonical : Bool) (v : Bytes) : (attrNormalize canonical v).length = v.length := by
  unfold attrNormalize; split <;> simp

theorem cstrOf_length_le (v : Bytes) : (cstrOf v).length ≤ v.length := by
  unfold cstrOf; rw [List.length_take]; omega

theorem nodesOver_iff (lang : Lang) : ∀ (l : List Node), nodesOver lang l = true ↔ ∀ k ∈ l, nodeOver lang k = true
  | [] => by rw [nodesOver]; simp
  | k :: r => by rw [nodesOver, Bool.and_eq_true, nodesOver_iff lang r]; simp

theorem plainNodes_iff : ∀ (l : List Node), plainNodes l = true ↔ ∀ k ∈ l, plainNode k = true
  | [] => by rw [plainNodes]; simp
  | k :: r => by rw [plainNodes, Bool.and_eq_true, plainNodes_iff r]; simp

theorem noDataNodes_iff : ∀ (l : List Node), noDataNodes l = true ↔ ∀ k ∈ l, noDataNode k = true
  | [] => by rw [noDataNodes]; simp
  | k :: r => by rw [noDataNodes, Bool.and_eq_true, noDataNodes_iff r]; simp

/-- What the second encoding needs of the tree read back: over the language, plain, no `Data`. -/
def GoodRead (lang : Lang) (k : Node) : Prop :=
  nodeOver lang k = true ∧ plainNode k = true ∧ noDataNode k = true

theorem goodRead_text (lang : Lang) (s : Bytes) : GoodRead lang (.text s) := by
  refine ⟨?_, ?_, ?_⟩
  · rw [nodeOver]
  · rw [plainNode]
  · rw [noDataNode]

mutual
theorem good_readNode (lang : Lang) (c : XCfg) : ∀ (n : Node), readable n = true → valuesShort n = true →
    GoodRead lang (readNode lang c n)
  | .elt name attrs kids, hre, hv => by
    rw [readable, Bool.and_eq_true] at hre
    rw [valuesShort, Bool.and_eq_true] at hv
    have hK := good_readKids lang c kids [] hre.2 hv.2 (fun _ h => by cases h)
    obtain ⟨nsName, e⟩ := xmlElt_eq lang name.xmlName (xmlAttrsOf c attrs)
    obtain ⟨tag, as, he, hx, hrow, _⟩ := xmlElt_shape lang name.xmlName (xmlAttrsOf c attrs) hre.1
    obtain ⟨tag', as', he', hattrs⟩ := xmlEltCore_attrs lang nsName (localName name.xmlName) (xmlAttrsOf c attrs)
    rw [← e, he] at he'
    injection he' with hk _
    injection hk with h1 h2
    subst h1 h2
    rw [readNode_elt, he]
    show GoodRead lang (.elt tag as (readKidsAcc lang c kids []))
    have hnok := hre.1
    simp only [eltNameOk, Bool.and_eq_true, Bool.not_eq_true'] at hnok
    refine ⟨?_, ?_, ?_⟩
    · rw [nodeOver, Bool.and_eq_true, Bool.and_eq_true]
      refine ⟨⟨?_, ?_⟩, (nodesOver_iff lang _).mpr (fun k hk => (hK k hk).1)⟩
      · cases tag with
        | literal s => rfl
        | token r =>
          obtain ⟨tags, ht, hm⟩ := hrow r rfl
          simp only [nameOver, ht, List.contains_iff_mem]; exact hm
      · rw [List.all_eq_true]
        intro a ha
        obtain ⟨⟨p, hp, hpv⟩, htok⟩ := hattrs a ha
        have hlen : a.value.length < 4294967296 := by
          rw [hpv]
          unfold xmlAttrsOf at hp
          split at hp
          · rw [List.mem_map] at hp
            obtain ⟨a0, ha0, rfl⟩ := hp
            have := List.all_eq_true.mp hv.1 a0 ha0
            simp only [decide_eq_true_eq] at this
            simp only [attrNormalize_length]
            have := cstrOf_length_le a0.value
            omega
          · cases hp
        simp only [attrOver, hlen, decide_true, Bool.true_and]
        cases han : a.name with
        | literal s => rfl
        | token r =>
          obtain ⟨t, ht, hm⟩ := htok r han
          simp only [ht, List.contains_iff_mem]; exact hm
    · rw [plainNode]; exact (plainNodes_iff _).mpr (fun k hk => (hK k hk).2.1)
    · rw [noDataNode, Bool.and_eq_true]
      refine ⟨?_, (noDataNodes_iff _).mpr (fun k hk => (hK k hk).2.2)⟩
      have hc : tag.cName = name.xmlName := by
        cases tag with
        | token r => exact hx
        | literal s =>
          have hs : s = name.xmlName := hx
          show cstrOf s = _
          rw [hs]; exact cstrOf_of_nulFree _ hnok.2
      rw [hc, hnok.1.2]; rfl
  | .text s, _, _ => by rw [readNode_text]; exact goodRead_text lang _
  | .cdata kids, hre, _ => by rw [readable] at hre; cases hre
  | .tree l cs r, hre, _ => by rw [readable] at hre; cases hre
theorem good_readKids (lang : Lang) (c : XCfg) : ∀ (ks acc : List Node), readableL ks = true → valuesShortL ks = true →
    (∀ k ∈ acc, GoodRead lang k) → ∀ k ∈ readKidsAcc lang c ks acc, GoodRead lang k
  | [], acc, _, _, h => by rw [readKidsAcc_nil]; exact h
  | k :: rest, acc, hre, hv, h => by
    rw [readableL, Bool.and_eq_true] at hre
    rw [valuesShortL, Bool.and_eq_true] at hv
    rw [readKidsAcc_cons]
    exact good_readKids lang c rest _ hre.2 hv.2
      (addN_all acc _ (goodRead_text lang) h (good_readNode lang c k hre.1 hv.1))
end

theorem isElt_readNode (lang : Lang) (c : XCfg) (n : Node) (hre : readable n = true) (helt : isElt n = true) :
    isElt (readNode lang c n) = true := by
  cases n with
  | elt name attrs kids =>
    rw [readable, Bool.and_eq_true] at hre
    obtain ⟨tag, as, he, _⟩ := xmlElt_shape lang name.xmlName (xmlAttrsOf c attrs) hre.1
    rw [readNode_elt, he]; rfl
  | text s => cases helt
  | cdata ks => cases helt
  | tree l cs r => cases helt


/-- The table hypotheses of `rt_preserves_partial` in one decidable predicate. -/
def rtLangOk (l : Lang) : Bool :=
  langOk l && plainLang l && noTypedAttr l.id && valSemOk l && attrSemOk l && tagSemOk l && attrNameSemOk l

theorem rtLangOk_spec (l : Lang) (h : rtLangOk l = true) :
    langOk l = true ∧ plainLang l = true ∧ noTypedAttr l.id = true ∧ valSemOk l = true ∧ attrSemOk l = true ∧
    tagSemOk l = true ∧ attrNameSemOk l = true := by
  simp only [rtLangOk, Bool.and_eq_true] at h
  obtain ⟨⟨⟨⟨⟨⟨h1, h2⟩, h3⟩, h4⟩, h5⟩, h6⟩, h7⟩ := h
  exact ⟨h1, h2, h3, h4, h5, h6, h7⟩


/-! ### What the printer writes for a plain tree: the text `ReadsBack` is about

  `wbxml_tree_to_xml` in compact or canonical mode, for a language without namespace table, writes
  the header followed by `renderNode` of the root — start tags with the attributes
  (` name="escaped value"`), `/>` for an element without children, escaped character data
  (`printedText`), end tags, and nothing else. A conforming reader of that text reports
  `xmlEventsOf`; this is the content of the assumption `ReadsBack`. -/

mutual
def renderNode (c : XCfg) : Node → Bytes
  | .elt name attrs kids =>
    [60] ++ name.xmlName ++ (if c.lang.attrs.isSome then attrs.flatMap (XmlPrint.attrBytes (c.gen == 2)) else []) ++
      (if kids.isEmpty then b!"/>" else [62] ++ renderNodes c kids ++ (b!"</" ++ name.xmlName ++ [62]))
  | .text s => xmlEscape (c.gen == 2) (printedText c s)
  | .cdata _ => []
  | .tree _ _ _ => []
def renderNodes (c : XCfg) : List Node → Bytes
  | [] => []
  | k :: r => renderNode c k ++ renderNodes c r
end

mutual
/-- No binary-flagged (base64-carried) element name in the tree. -/
def noBinaryNames : Node → Bool
  | .elt name _ kids => !isBinaryTag (XmlPrint.tagOf name) && noBinaryNamesL kids
  | .text _ => true
  | .cdata _ => true
  | .tree _ _ _ => true
def noBinaryNamesL : List Node → Bool
  | [] => true
  | k :: r => noBinaryNames k && noBinaryNamesL r
end

theorem xmlText_plain (c : XCfg) (hs : isSyncml c.lang.id = false) (s : Bytes) (st : XSt)
    (hcd : st.inCdata = false) (hb : isBinaryTag st.curTag = false) :
    ∃ ic, xmlText c s st = .ok { st with out := st.out ++ xmlEscape (c.gen == 2) (printedText c s), inContent := ic } := by
  have h2201 : (c.lang.id == 2201) = false := by
    cases h : c.lang.id == 2201 with
    | false => rfl
    | true => simp only [isSyncml, h, Bool.or_true] at hs; cases hs
  unfold xmlText printedText
  simp only [hcd, hb, Bool.not_false, Bool.true_and, hs, h2201, Bool.false_and, Bool.false_eq_true, ↓reduceIte]
  split
  · refine ⟨st.inContent, ?_⟩
    simp only [xmlEscape, List.flatMap_nil, List.append_nil]
    cases st; simp only at hcd; subst hcd; rfl
  · exact ⟨true, rfl⟩

theorem render_run (c : XCfg) (hg : c.gen ≠ 1) (hns : c.lang.ns = none) (hs : isSyncml c.lang.id = false) :
    ∀ (f : Nat),
      (∀ (p : Parent) (n : Node) (st st' : XSt), plainNode n = true → noBinaryNames n = true →
        st.inCdata = false → isBinaryTag st.curTag = false → xmlNode c p f n st = .ok st' →
        st'.out = st.out ++ renderNode c n ∧ st'.inCdata = false ∧ st'.curTag = none) ∧
      (∀ (p : Parent) (ks : List Node) (st st' : XSt), plainNodes ks = true → noBinaryNamesL ks = true →
        st.inCdata = false → isBinaryTag st.curTag = false → xmlNodes c p f ks st = .ok st' →
        st'.out = st.out ++ renderNodes c ks ∧ st'.inCdata = false ∧ isBinaryTag st'.curTag = false)
  | 0 => ⟨fun _ _ _ _ _ _ _ _ h => (by rw [xmlNode] at h; cases h),
          fun _ _ _ _ _ _ _ _ h => (by rw [xmlNodes] at h; cases h)⟩
  | f + 1 => by
    obtain ⟨ihN, ihL⟩ := render_run c hg hns hs f
    have hg1 : (c.gen == 1) = false := by simpa using hg
    constructor
    · intro p n st st' hp hnb hcd hb h
      cases n with
      | elt name attrs kids =>
        rw [plainNode] at hp
        rw [noBinaryNames, Bool.and_eq_true, Bool.not_eq_true'] at hnb
        simp only [xmlNode] at h
        obtain ⟨st2, h2, h3⟩ := bind_ok' h
        have h3 := ok_inj h3
        rw [XmlPrint.xmlTag_out] at h2
        have hnsd : XmlPrint.nsDecl c p name = [] := by
          unfold XmlPrint.nsDecl; rw [hns]
        simp only [hg1, Bool.false_eq_true, ↓reduceIte, List.append_nil, hnsd] at h2
        -- attributes
        have hattr : ∀ (s0 : XSt), (if c.lang.attrs.isSome = true then attrs.foldl (fun st a => xmlAttr c a st) s0 else s0) =
            { s0 with out := s0.out ++ (if c.lang.attrs.isSome then attrs.flatMap (XmlPrint.attrBytes (c.gen == 2)) else []) } := by
          intro s0
          split
          · rw [XmlPrint.xmlAttrs_out]
          · simp
        rw [hattr] at h2
        unfold xmlEndAttrs at h2
        simp only [hg1, Bool.false_and, Bool.false_eq_true, ↓reduceIte, List.append_nil] at h2
        cases hk : kids.isEmpty with
        | true =>
          have hkn : kids = [] := List.isEmpty_iff.mp hk
          subst hkn
          simp only [List.isEmpty_nil, ↓reduceIte] at h2 h3
          cases f with
          | zero => rw [xmlNodes] at h2; cases h2
          | succ f =>
            rw [xmlNodes] at h2
            have h2 := ok_inj h2
            subst h2 h3
            refine ⟨?_, hcd, rfl⟩
            rw [renderNode]
            simp only [List.isEmpty_nil, ↓reduceIte, List.append_assoc]
        | false =>
          simp only [hk, Bool.false_eq_true, ↓reduceIte] at h2 h3
          have key := fun a b => ihL _ kids _ st2 hp hnb.2 a b h2
          obtain ⟨ho, hc2, _⟩ := key hcd hnb.1
          subst h3
          unfold xmlEndTag
          simp only [hg1, Bool.false_and, Bool.false_eq_true, ↓reduceIte, List.append_nil]
          refine ⟨?_, hc2, trivial⟩
          rw [ho, renderNode]
          simp only [hk, Bool.false_eq_true, ↓reduceIte, List.append_assoc]
      | text s =>
        simp only [xmlNode] at h
        obtain ⟨st2, h2, h3⟩ := bind_ok' h
        have h3 := ok_inj h3
        obtain ⟨ic, ht⟩ := xmlText_plain c hs s st hcd hb
        rw [ht] at h2
        have h2 := ok_inj h2
        subst h2 h3
        exact ⟨by rw [renderNode], hcd, rfl⟩
      | cdata ks => rw [plainNode] at hp; cases hp
      | tree l cs r => rw [plainNode] at hp; cases hp
    · intro p ks st st' hp hnb hcd hb h
      cases ks with
      | nil =>
        rw [xmlNodes] at h
        have h := ok_inj h
        subst h
        exact ⟨by rw [renderNodes, List.append_nil], hcd, hb⟩
      | cons k rest =>
        rw [plainNodes, Bool.and_eq_true] at hp
        rw [noBinaryNamesL, Bool.and_eq_true] at hnb
        simp only [xmlNodes] at h
        obtain ⟨st1, h1, h2⟩ := bind_ok' h
        obtain ⟨ho1, hc1, hcur1⟩ := ihN p k st st1 hp.1 hnb.1 hcd hb h1
        obtain ⟨ho2, hc2, hb2⟩ := ihL p rest st1 st' hp.2 hnb.2 hc1 (by rw [hcur1]; rfl) h2
        exact ⟨by rw [ho2, ho1, renderNodes, List.append_assoc], hc2, hb2⟩

/-- **What is printed.** `wbxml_tree_to_xml` (compact or canonical, language without namespace
    table, not SyncML, plain tree without binary-flagged names) writes the header and `renderNode`
    of the root. -/
theorem treeToXml_render (cfg : W2XCfg) (fuel : Nat) (t : Tree) (lang : Lang) (r : Node) (xml : Bytes)
    (hlang : t.lang = some lang) (hroot : t.root = some r) (hg : cfg.gen ≠ 1) (hns : lang.ns = none)
    (hs : isSyncml lang.id = false) (hp : plainNode r = true) (hnb : noBinaryNames r = true)
    (h : treeToXml cfg fuel t = .ok xml) : xml = xmlHeader lang cfg.gen ++ renderNode (xcfgOf cfg lang) r := by
  unfold treeToXml at h
  rw [hlang, hroot] at h
  dsimp only at h
  obtain ⟨st, h1, h2⟩ := bind_ok' h
  have h2 := ok_inj h2
  obtain ⟨ho, _, _⟩ := (render_run (xcfgOf cfg lang) hg hns hs fuel).1 .none r {} st hp hnb rfl rfl h1
  rw [← h2, ho]
  rfl


/-! ### The printed text only depends on the view; round-trip trees have no binary names -/

mutual
theorem renderNode_canon (c : XCfg) : ∀ (n : Node), renderNode c (canon n) = renderNode c n
  | .elt name attrs kids => by
    rw [canon_elt, renderNode, renderNode, renderNodes_canonL c kids]
    have h1 : (canonL kids).isEmpty = kids.isEmpty := by cases kids <;> simp [canonL_nil, canonL_cons]
    have h2 : (attrs.map canonAttr).flatMap (XmlPrint.attrBytes (c.gen == 2)) =
        attrs.flatMap (XmlPrint.attrBytes (c.gen == 2)) := by
      rw [List.flatMap_map]; rfl
    rw [h1, h2]
    rfl
  | .text s => by rw [canon_text]
  | .cdata kids => by rw [canon]
  | .tree l cs r => by rw [canon]
theorem renderNodes_canonL (c : XCfg) : ∀ (ks : List Node), renderNodes c (canonL ks) = renderNodes c ks
  | [] => by rw [canonL_nil]
  | k :: r => by rw [canonL_cons, renderNodes, renderNodes, renderNode_canon c k, renderNodes_canonL c r]
end

mutual
theorem plain_of_nf : ∀ (n : Node), nfNode n = true → plainNode n = true
  | .elt name attrs kids, h => by rw [nfNode] at h; rw [plainNode]; exact plainL_of_nf kids h
  | .text s, _ => by rw [plainNode]
  | .cdata kids, h => by rw [nfNode] at h; cases h
  | .tree l cs r, h => by rw [nfNode] at h; cases h
theorem plainL_of_nf : ∀ (ks : List Node), nfKids ks = true → plainNodes ks = true
  | [], _ => by rw [plainNodes]
  | k :: r, h => by
    rw [nfKids_cons] at h
    simp only [Bool.and_eq_true] at h
    rw [plainNodes, plain_of_nf k h.1.1, plainL_of_nf r h.2]; rfl
end

theorem noBinaryNamesL_iff : ∀ (l : List Node), noBinaryNamesL l = true ↔ ∀ k ∈ l, noBinaryNames k = true
  | [] => by rw [noBinaryNamesL]; simp
  | k :: r => by rw [noBinaryNamesL, Bool.and_eq_true, noBinaryNamesL_iff r]; simp

theorem tagName_notBinary (c : Ctx) (hpl : plainLang c.lang = true) (tp : Nat) (tag : Tag) :
    isBinaryTag (XmlPrint.tagOf (tagName c tp tag).1) = false := by
  cases tag with
  | lit off => rfl
  | tok t =>
    simp only [tagName]
    cases hr : tagRow c tp t with
    | none => rfl
    | some r =>
      simp only [XmlPrint.tagOf]
      unfold tagRow at hr
      cases ht : c.lang.tags with
      | none => rw [ht] at hr; cases hr
      | some tags =>
        rw [ht] at hr
        have hm := List.mem_of_find?_eq_some hr
        simp only [plainLang, ht, Bool.and_eq_true, List.all_eq_true, beq_iff_eq] at hpl
        simp [isBinaryTag, hpl.2 r hm]

mutual
theorem noBinary_nodeOfElem (c : Ctx) (hpl : plainLang c.lang = true) : ∀ (e : Elem) (pg : Pages),
    noBinaryNames (nodeOfElem c pg e) = true
  | .mk sw tag attrs content, pg => by
    rw [nodeOfElem_mk, noBinaryNames, tagName_notBinary c hpl]
    exact (noBinaryNamesL_iff _).mpr (noBinary_kidsOfContent c hpl content _ _ [] (fun _ h => by cases h))
theorem noBinary_kidsOfContent (c : Ctx) (hpl : plainLang c.lang = true) : ∀ (content : Option (List Item))
    (own : Option TagRow) (pg : Pages) (acc : List Node), (∀ k ∈ acc, noBinaryNames k = true) →
    ∀ k ∈ kidsOfContent c own pg content acc, noBinaryNames k = true
  | none, own, pg, acc, h => by rw [kidsOfContent_none]; exact h
  | some items, own, pg, acc, h => by rw [kidsOfContent_some]; exact noBinary_kidsOfItems c hpl items own pg acc h
theorem noBinary_kidsOfItems (c : Ctx) (hpl : plainLang c.lang = true) : ∀ (items : List Item)
    (own : Option TagRow) (pg : Pages) (acc : List Node), (∀ k ∈ acc, noBinaryNames k = true) →
    ∀ k ∈ kidsOfItems c own pg items acc, noBinaryNames k = true
  | [], own, pg, acc, h => by rw [kidsOfItems_nil]; exact h
  | it :: more, own, pg, acc, h => by
    rw [kidsOfItems_cons]; exact noBinary_kidsOfItems c hpl more own _ _ (noBinary_kidOfItem c hpl it own pg acc h)
theorem noBinary_kidOfItem (c : Ctx) (hpl : plainLang c.lang = true) : ∀ (it : Item)
    (own : Option TagRow) (pg : Pages) (acc : List Node), (∀ k ∈ acc, noBinaryNames k = true) →
    ∀ k ∈ kidOfItem c own pg it acc, noBinaryNames k = true
  | .elem e, own, pg, acc, h => by
    rw [kidOfItem_elem]
    exact addKid_all acc _ (fun s => by rw [noBinaryNames]) h (noBinary_nodeOfElem c hpl e pg)
  | .str s, own, pg, acc, h => by
    rw [kidOfItem_str]; unfold addChars; split
    · exact h
    · exact addKid_all acc _ (fun s => by rw [noBinaryNames]) h (by rw [noBinaryNames])
  | .entity code, own, pg, acc, h => by
    rw [kidOfItem_entity]; unfold addChars; split
    · exact h
    · exact addKid_all acc _ (fun s => by rw [noBinaryNames]) h (by rw [noBinaryNames])
  | .opaque d, own, pg, acc, h => by
    rw [kidOfItem_opaque]; unfold addChars; split
    · exact h
    · exact addKid_all acc _ (fun s => by rw [noBinaryNames]) h (by rw [noBinaryNames])
  | .ext sw x, own, pg, acc, h => by
    rw [kidOfItem_ext]; unfold addChars; split
    · exact h
    · exact addKid_all acc _ (fun s => by rw [noBinaryNames]) h (by rw [noBinaryNames])
  | .pi p, own, pg, acc, h => by rw [kidOfItem_pi]; exact h
end

theorem noBinary_rootOfDoc (cfg : PCfg) (d : Doc) (l : Lang) (hpl : plainLang l = true) :
    noBinaryNames (rootOfDoc cfg d l) = true :=
  noBinary_nodeOfElem (headerCtx cfg d.hdr l) hpl _ _

/-- Two trees with the same view are printed alike. -/
theorem printed_congr (cfg : W2XCfg) (lang : Lang) (ta tb : Tree) (ra rb : Node) (fa fb : Nat) (xa xb : Bytes)
    (hla : ta.lang = some lang) (hlb : tb.lang = some lang) (hra : ta.root = some ra) (hrb : tb.root = some rb)
    (hg : cfg.gen ≠ 1) (hns : lang.ns = none) (hs : isSyncml lang.id = false)
    (hpa : plainNode ra = true) (hpb : plainNode rb = true) (hna : noBinaryNames ra = true)
    (hnb : noBinaryNames rb = true) (hc : canon ra = canon rb)
    (ha : treeToXml cfg fa ta = .ok xa) (hb : treeToXml cfg fb tb = .ok xb) : xa = xb := by
  rw [treeToXml_render cfg fa ta lang ra xa hla hra hg hns hs hpa hna ha,
    treeToXml_render cfg fb tb lang rb xb hlb hrb hg hns hs hpb hnb hb,
    ← renderNode_canon _ ra, ← renderNode_canon _ rb, hc]

end Wbxml.Lemmas.Rt
