/-
  Parser safety, part 6: the shape of the event sequence of a successful run (start, balanced
  body, end) and the invariants of the WBXML tree builder over such a sequence. Result: the tree
  handed to the XML generator has a root, and so has every embedded document in it — the two
  `Err.ub` flags of `Model/EncXml.lean` ("tree without root", "nested tree without root") are
  unreachable from `wbxml2xml`.
-/
import Wbxml.Lemmas.ParserSafeTree
namespace Wbxml.Lemmas.ParserSafe
open Wbxml Wbxml.Model

-- The error-code constants are literals (none of them is 0 = `WBXML_OK`).
attribute [local simp] E.badDatetime E.internal E.langTableUndefined E.tagTableUndefined E.b64Enc
  E.wvDatetimeFormat E.noCharsetConv E.charsetStrLen E.charsetNotFound E.attrTableUndefined
  E.attrValueTableUndefined E.badOpaqueLength E.emptyWbxml E.endOfBuffer E.extValueTableUndefined
  E.invalidStrtblIndex E.nullStringTable E.stringExpected E.strtblLength E.unknownAttrValue
  E.unknownExtensionToken E.unknownPublicId E.unvalidMbUint32 E.wvIntegerOverflow E.invalidUnicode

theorem bind_eq_ok2 {β γ : Type} {m : Except Err β} {k : β → Except Err γ} {c : γ}
    (h : m >>= k = .ok c) : ∃ b, m = .ok b ∧ k b = .ok c := by
  cases hm : m with
  | error e => rw [hm] at h; cases h
  | ok b => rw [hm] at h; exact ⟨b, rfl, h⟩

/-! ### Partial-correctness predicate -/

def OkE {β : Type} (P : β → Prop) (m : Except Err β) : Prop := ∀ b, m = .ok b → P b

theorem OkE.bind {β γ : Type} {P : β → Prop} {Q : γ → Prop} {m : Except Err β} {k : β → Except Err γ}
    (hm : OkE P m) (hk : ∀ b, P b → OkE Q (k b)) : OkE Q (m >>= k) := by
  intro c hc
  cases hmm : m with
  | error e => rw [hmm] at hc; cases hc
  | ok b => rw [hmm] at hc; exact hk b (hm b hmm) c hc

theorem OkE.pure {β : Type} {P : β → Prop} {b : β} (h : P b) : OkE P (pure b : Except Err β) := by
  intro b' hb; cases hb; exact h

theorem OkE.error {β : Type} {P : β → Prop} {e : Err} : OkE P (.error e : Except Err β) := by
  intro b hb; cases hb

theorem OkE.triv {β : Type} (m : Except Err β) : OkE (fun _ => True) m := fun _ _ => True.intro

theorem OkE.optSwitch {γ : Type} {Q : γ → Prop} (ts : Bool) (s : PState) {jp : PState → Except Err γ}
    (hjp : ∀ s1, OkE Q (jp s1)) :
    OkE Q (if isToken s 0x00 = true then parseSwitchPage ts s >>= jp else Pure.pure s >>= jp) := by
  split
  · exact OkE.bind (OkE.triv _) fun s1 _ => hjp s1
  · exact hjp s

/-! ### The shape of the event sequence -/

/-- A sequence of complete content items: character data, processing instructions, and elements
    whose start and end events enclose such a sequence. -/
inductive Bal : List Event → Prop
  | nil : Bal []
  | chars (s : Bytes) {es : List Event} : Bal es → Bal (.chars s :: es)
  | pi (t d : Bytes) {es : List Event} : Bal es → Bal (.pi t d :: es)
  | elt (n : Name) (attrs : List Attr) (n' : Name) {body es : List Event} :
      Bal body → Bal es → Bal (.startElt n attrs :: (body ++ .endElt n' :: es))

theorem Bal.append {a b : List Event} (ha : Bal a) (hb : Bal b) : Bal (a ++ b) := by
  induction ha with
  | nil => exact hb
  | chars s _ ih => exact Bal.chars s ih
  | pi t d _ ih => exact Bal.pi t d ih
  | elt n attrs n' hbody _ _ ih =>
    rw [List.cons_append, List.append_assoc, List.cons_append]
    exact Bal.elt n attrs n' hbody ih

def OnlyPi (es : List Event) : Prop := ∀ e ∈ es, ∃ t d, e = Event.pi t d

theorem parsePi_event (s : PState) : OkE (fun p => ∃ t d, p.1 = Event.pi t d) (parsePi s) := by
  unfold parsePi
  refine OkE.bind (OkE.triv _) ?_; intro s1 _
  refine OkE.bind (OkE.triv _) ?_; rintro ⟨⟨name, pre⟩, s2⟩ _
  refine OkE.bind (OkE.triv _) ?_; rintro ⟨v, s3⟩ _
  refine OkE.bind (OkE.triv _) ?_; intro s4 _
  exact OkE.pure ⟨_, _, rfl⟩

theorem piLoop_events : ∀ (f : Nat) (ev : List Event) (s : PState),
    OkE (fun p => ∃ pis, p.1 = ev ++ pis ∧ OnlyPi pis) (piLoop f ev s)
  | 0, _, _ => by simp only [piLoop]; exact OkE.error
  | f + 1, ev, s => by
    simp only [piLoop]
    split
    · refine OkE.bind (parsePi_event s) ?_
      rintro ⟨e, s1⟩ ⟨t, d, he⟩
      intro b hb
      obtain ⟨pis, h1, h2⟩ := piLoop_events f _ s1 b hb
      refine ⟨e :: pis, by rw [h1]; simp, ?_⟩
      intro x hx
      rcases List.mem_cons.1 hx with hx | hx
      · exact ⟨t, d, hx ▸ he⟩
      · exact h2 x hx
    · exact OkE.pure ⟨[], by simp, fun _ h => by cases h⟩

/-- The events of an element: start, a balanced body, end; and of the content loop: a balanced
    sequence. -/
theorem elem_content_events : ∀ (f : Nat),
    (∀ (ev : List Event) (s : PState),
        OkE (fun p => ∃ n attrs body, p.1 = ev ++ (Event.startElt n attrs :: (body ++ [Event.endElt n])) ∧ Bal body)
          (parseElement f ev s)) ∧
    (∀ (ev : List Event) (s : PState),
        OkE (fun p => ∃ body, p.1 = ev ++ body ∧ Bal body) (contentLoop f ev s))
  | 0 => ⟨fun _ _ => by rw [parseElement]; exact OkE.error, fun _ _ => by rw [contentLoop]; exact OkE.error⟩
  | f + 1 => by
    obtain ⟨ihE, ihC⟩ := elem_content_events f
    constructor
    · intro ev s
      rw [parseElement]
      refine OkE.optSwitch true s ?_
      intro s1
      refine OkE.bind (OkE.triv _) ?_; rintro ⟨⟨tag, name⟩, s2⟩ _
      dsimp only
      refine OkE.bind (OkE.triv _) ?_; rintro ⟨attrs, s4⟩ _
      dsimp only
      refine OkE.bind (P := fun p => ∃ body, p.1 = ev ++ (Event.startElt name attrs :: body) ∧ Bal body) ?_ ?_
      · split
        · refine OkE.bind (ihC _ s4) ?_
          rintro ⟨ev', s5⟩ ⟨body, h1, h2⟩
          refine OkE.bind (OkE.triv _) ?_; intro s6 _
          refine OkE.pure ⟨body, ?_, h2⟩
          rw [h1]; simp
        · exact OkE.pure ⟨[], by simp, Bal.nil⟩
      · rintro ⟨ev', s5⟩ ⟨body, h1, h2⟩
        refine OkE.pure ⟨name, attrs, body, ?_, h2⟩
        dsimp only at h1 ⊢
        rw [h1]; simp
    · intro ev s
      rw [contentLoop]
      have step : ∀ (ev' pre : List Event) (s1 : PState), ev' = ev ++ pre → Bal pre →
          OkE (fun p => ∃ body, p.1 = ev ++ body ∧ Bal body) (contentLoop f ev' s1) := by
        intro ev' pre s1 he hp b hb
        obtain ⟨body, h1, h2⟩ := ihC ev' s1 b hb
        exact ⟨pre ++ body, by rw [h1, he]; simp, hp.append h2⟩
      have stepc : ∀ (bs : Bytes) (s1 : PState),
          OkE (fun p => ∃ body, p.1 = ev ++ body ∧ Bal body)
            (contentLoop f (if bs.isEmpty = true then ev else ev ++ [Event.chars bs]) s1) := by
        intro bs s1
        split
        · exact step ev [] s1 (by simp) Bal.nil
        · exact step _ [Event.chars bs] s1 rfl (Bal.chars bs Bal.nil)
      split
      · exact OkE.pure ⟨[], by simp, Bal.nil⟩
      · split
        · exact OkE.error
        · split
          · refine OkE.bind (OkE.triv _) ?_; rintro ⟨r, s1⟩ _
            dsimp only
            cases r with
            | none => exact step ev [] s1 (by simp) Bal.nil
            | some b => exact stepc b s1
          · split
            · refine OkE.bind (OkE.triv _) ?_; rintro ⟨b, s1⟩ _
              exact stepc b s1
            · split
              · refine OkE.bind (OkE.triv _) ?_; rintro ⟨b, s1⟩ _
                exact stepc b s1
              · split
                · refine OkE.bind (OkE.triv _) ?_; rintro ⟨d, s1⟩ _
                  dsimp only
                  split
                  · exact OkE.error
                  · refine OkE.bind (OkE.triv _) ?_; intro d' _
                    exact stepc d' s1
                · split
                  · refine OkE.bind (parsePi_event s) ?_; rintro ⟨e, s1⟩ ⟨t, d, he⟩
                    dsimp only at he ⊢
                    exact step _ [e] s1 rfl (he ▸ Bal.pi t d Bal.nil)
                  · split
                    · refine OkE.bind (OkE.triv _) ?_; intro s1 _
                      exact step ev [] s1 (by simp) Bal.nil
                    · refine OkE.bind (ihE ev s) ?_
                      rintro ⟨ev', s1⟩ ⟨n, attrs, body, h1, h2⟩
                      dsimp only at h1 ⊢
                      exact step ev' _ s1 h1 (Bal.elt n attrs n h2 Bal.nil)

/-- The event list of a successful run: `startDoc`, leading PIs, the root element (start, balanced
    body, end), trailing PIs, `endDoc`. -/
theorem parse_events_shape {cfg : PCfg} {bs : Bytes} (h : (parse cfg bs).result = .ok ()) :
    ∃ cs l pis1 n attrs body pis2, (parse cfg bs).events =
        Event.startDoc cs l :: (pis1 ++ (Event.startElt n attrs :: (body ++ Event.endElt n :: (pis2 ++ [Event.endDoc]))))
      ∧ OnlyPi pis1 ∧ Bal body ∧ OnlyPi pis2 := by
  rcases parse_anatomy cfg bs with ⟨c, _, h', _⟩ | ⟨s, l, c, _, _, h', _⟩ | ⟨s, l, ev, s', hh, hb, _, hev, _⟩
  · rw [h'] at h; cases h
  · rw [h'] at h; cases h
  · unfold parseBody at hb
    obtain ⟨⟨ev1, s1⟩, h1, hb⟩ := bind_eq_ok2 hb
    obtain ⟨⟨ev2, s2⟩, h2, h3⟩ := bind_eq_ok2 hb
    dsimp only at h2 h3
    obtain ⟨pis1, e1, p1⟩ := piLoop_events _ _ _ _ h1
    obtain ⟨n, attrs, body, e2, p2⟩ := (elem_content_events _).1 _ _ _ h2
    obtain ⟨pis2, e3, p3⟩ := piLoop_events _ _ _ _ h3
    dsimp only at e1 e2 e3
    refine ⟨s.charset, l.id, pis1, n, attrs, body, pis2, ?_, p1, p2, p3⟩
    rw [hev, e3, e2, e1]
    simp

/-! ### Well-formed nodes: every embedded document that has a language has a root -/

def Good (n : Node) : Prop := ∃ f, okNode f n = true
def GoodL (ns : List Node) : Prop := ∀ n ∈ ns, Good n

theorem okList_of_goodL : ∀ (ns : List Node), GoodL ns → ∃ f, okList f ns = true
  | [], _ => ⟨1, rfl⟩
  | n :: rest, h => by
    obtain ⟨f1, h1⟩ := h n (by simp)
    obtain ⟨f2, h2⟩ := okList_of_goodL rest (fun x hx => h x (by simp [hx]))
    refine ⟨max f1 f2 + 1, ?_⟩
    simp only [okList, Bool.and_eq_true]
    exact ⟨(ok_mono f1).1 n _ (Nat.le_max_left _ _) h1, (ok_mono f2).2 rest _ (Nat.le_max_right _ _) h2⟩

theorem goodL_of_okList : ∀ (f : Nat) (ns : List Node), okList f ns = true → GoodL ns
  | 0, _, h => by simp [okList] at h
  | _ + 1, [], _ => fun _ h => by cases h
  | f + 1, n :: rest, h => by
    simp only [okList, Bool.and_eq_true] at h
    intro x hx
    rcases List.mem_cons.1 hx with hx | hx
    · exact hx ▸ ⟨f, h.1⟩
    · exact goodL_of_okList f rest h.2 x hx

theorem Good.text (s : Bytes) : Good (.text s) := ⟨1, rfl⟩
theorem Good.elt (n : Name) (a : List Attr) {kids : List Node} (h : GoodL kids) : Good (.elt n a kids) := by
  obtain ⟨f, hf⟩ := okList_of_goodL kids h
  exact ⟨f + 1, by simpa [okNode] using hf⟩
theorem Good.cdata {kids : List Node} (h : GoodL kids) : Good (.cdata kids) := by
  obtain ⟨f, hf⟩ := okList_of_goodL kids h
  exact ⟨f + 1, by simpa [okNode] using hf⟩
theorem Good.tree_none (cs : Nat) (r : Option Node) : Good (.tree none cs r) := ⟨1, rfl⟩
theorem Good.tree_some (l : Lang) (cs : Nat) {r : Node} (h : Good r) : Good (.tree (some l) cs (some r)) := by
  obtain ⟨f, hf⟩ := h
  exact ⟨f + 1, by simpa [okNode] using hf⟩

/-- A tree as `treeOfWbxml` delivers it: no language (never printed), or a well-formed root. -/
def GoodT (t : Tree) : Prop := t.lang = none ∨ ∃ r, t.root = some r ∧ Good r

theorem GoodT.node {t : Tree} (h : GoodT t) : Good (.tree t.lang t.origCharset t.root) := by
  rcases h with h | ⟨r, hr, hg⟩
  · rw [h]; exact Good.tree_none _ _
  · rw [hr]
    cases hl : t.lang with
    | none => exact Good.tree_none _ _
    | some l => exact Good.tree_some l _ hg

/-! ### Classes of nodes the tree builder stays inside

The builder only ever makes text nodes, elements and CDATA nodes out of children it already holds,
and attaches what the embedded-document parser hands back. Any predicate `P` closed under the first
three is therefore an invariant of the builder as soon as the embedded documents satisfy it. Used
twice: `Good` (no rootless embedded document) and the bound on the nesting of embedded documents. -/

structure Closed (P : Node → Prop) : Prop where
  text : ∀ s, P (.text s)
  elt : ∀ n a kids, (∀ k ∈ kids, P k) → P (.elt n a kids)
  cdata : ∀ kids, (∀ k ∈ kids, P k) → P (.cdata kids)

def AllP (P : Node → Prop) (ns : List Node) : Prop := ∀ n ∈ ns, P n

theorem good_closed : Closed Good := ⟨Good.text, fun n a _ h => Good.elt n a h, fun _ h => Good.cdata h⟩

theorem Closed.addKid {P : Node → Prop} (hP : Closed P) {kids : List Node} {n : Node}
    (hk : AllP P kids) (hn : P n) : AllP P (addKid kids n) := by
  unfold Model.addKid
  split
  · intro x hx
    rcases List.mem_append.1 hx with hx | hx
    · exact hk x (List.dropLast_subset _ hx)
    · simp only [List.mem_singleton] at hx
      exact hx ▸ hP.text _
  · intro x hx
    rcases List.mem_append.1 hx with hx | hx
    · exact hk x hx
    · simp only [List.mem_singleton] at hx
      exact hx ▸ hn

theorem Closed.close {P : Node → Prop} (hP : Closed P) {f : Frame} (h : AllP P f.kids) : P f.close := by
  unfold Frame.close
  split
  · exact hP.elt _ _ _ h
  · exact hP.cdata _ h

/-! ### Tree-builder invariants -/

structure GoodB (P : Node → Prop) (b : BState) : Prop where
  frames : ∀ fr ∈ b.stack, AllP P fr.kids
  root : ∀ r, b.root = some r → P r

def IsElt (f : Frame) : Prop := ∃ n a, f.kind = .elt n a
def IsCd (f : Frame) : Prop := f.kind = .cdata

/-- The open frames above `S`: one element frame, possibly with a CDATA frame on top. -/
def Shape (S st : List Frame) : Prop :=
  (∃ e, IsElt e ∧ st = e :: S) ∨ (∃ c e, IsCd c ∧ IsElt e ∧ st = c :: e :: S)

structure Inv (P : Node → Prop) (S : List Frame) (r0 : Option Node) (b : BState) : Prop where
  err : b.error = none
  shape : Shape S b.stack
  good : GoodB P b
  root : b.root = r0

variable (main : List Lang) (emb : Nat → Bytes → Option Tree) {P : Node → Prop}

theorem step_err {b : BState} (h : b.error ≠ none) (e : Event) : buildStep main emb b e = b := by
  unfold buildStep
  cases he : b.error with
  | none => exact absurd he h
  | some c => simp

theorem run_err {b : BState} (h : b.error ≠ none) (es : List Event) :
    es.foldl (buildStep main emb) b = b := by
  induction es with
  | nil => rfl
  | cons e es ih => rw [List.foldl_cons, step_err main emb h, ih]

theorem step_pi (b : BState) (t d : Bytes) : buildStep main emb b (.pi t d) = b := by
  unfold buildStep; split <;> rfl

theorem run_onlyPi {b : BState} {es : List Event} (h : ∀ e ∈ es, ∃ t d, e = Event.pi t d) :
    es.foldl (buildStep main emb) b = b := by
  induction es with
  | nil => rfl
  | cons e es ih =>
    obtain ⟨t, d, he⟩ := h e (by simp)
    rw [List.foldl_cons, he, step_pi, ih (fun x hx => h x (by simp [hx]))]

theorem attach_cons {b : BState} {f : Frame} {rest : List Frame} (h : b.stack = f :: rest) (n : Node) :
    b.attach n = { b with stack := { f with kids := addKid f.kids n } :: rest } := by
  unfold BState.attach; rw [h]

theorem attach_inv {S : List Frame} {r0 : Option Node} {b : BState} (h : Inv P S r0 b) {n : Node} (hP : Closed P) (hn : P n) :
    Inv P S r0 (b.attach n) := by
  obtain ⟨herr, hshape, hgood, hroot⟩ := h
  rcases hshape with ⟨e, he, hs⟩ | ⟨c, e, hc, he, hs⟩
  · rw [attach_cons hs]
    refine ⟨herr, Or.inl ⟨{ e with kids := addKid e.kids n }, he, rfl⟩, ⟨?_, hgood.root⟩, hroot⟩
    intro fr hfr
    rcases List.mem_cons.1 hfr with hfr | hfr
    · rw [hfr]; exact hP.addKid (hgood.frames e (by rw [hs]; simp)) hn
    · exact hgood.frames fr (by rw [hs]; simp [hfr])
  · rw [attach_cons hs]
    refine ⟨herr, Or.inr ⟨{ c with kids := addKid c.kids n }, e, hc, he, rfl⟩, ⟨?_, hgood.root⟩, hroot⟩
    intro fr hfr
    rcases List.mem_cons.1 hfr with hfr | hfr
    · rw [hfr]; exact hP.addKid (hgood.frames c (by rw [hs]; simp)) hn
    · exact hgood.frames fr (by rw [hs]; exact List.mem_cons_of_mem _ hfr)

/-- What the embedded-document parser hands back is well formed. -/
def EmbGood (P : Node → Prop) : Prop := ∀ cs s t, emb cs s = some t → P (.tree t.lang t.origCharset t.root)

theorem step_chars_inv (hP : Closed P) (hemb : EmbGood emb P) {S : List Frame} {r0 : Option Node} {b : BState}
    (h : Inv P S r0 b) (s : Bytes) : Inv P S r0 (buildStep main emb b (.chars s)) := by
  unfold buildStep
  rw [if_neg (by rw [h.err]; simp)]
  have hcd : Inv P S r0 (match b.stack with
      | f :: _ =>
        (match f.kind with
         | .cdata => b.attach (.text s)
         | _ => ({ b with stack := { kind := .cdata, kids := [] } :: b.stack } : BState).attach (.text s))
      | [] => b.attach (.text s)) := by
    split
    · rename_i f tl hst
      split
      · exact attach_inv h hP (hP.text s)
      · rename_i hk
        -- the top frame is an element: open a CDATA frame above it
        have hsh : Shape S ({ kind := FrameKind.cdata, kids := [] } :: b.stack) := by
          rcases h.shape with ⟨e, he, hs⟩ | ⟨c, e, hc, he, hs⟩
          · exact Or.inr ⟨{ kind := FrameKind.cdata, kids := [] }, e, rfl, he, by rw [hs]⟩
          · rw [hs] at hst
            cases hst
            exact absurd hc (by intro hc'; exact hk hc')
        refine attach_inv (b := { b with stack := { kind := FrameKind.cdata, kids := [] } :: b.stack })
          ⟨h.err, hsh, ⟨?_, h.good.root⟩, h.root⟩ hP (hP.text s)
        intro fr hfr
        rcases List.mem_cons.1 hfr with hfr | hfr
        · rw [hfr]; intro x hx; cases hx
        · exact h.good.frames fr hfr
    · exact attach_inv h hP (hP.text s)
  cases syncmlDataType b.stack with
  | normal => exact attach_inv h hP (hP.text s)
  | wbxml =>
    dsimp only
    split
    · rename_i t ht
      exact attach_inv h hP (hemb _ _ _ ht)
    · exact attach_inv h hP (hP.text s)
  | clear => exact hcd
  | vobject => exact hcd

theorem Shape.ne_nil {S st : List Frame} (h : Shape S st) : st ≠ [] := by
  rcases h with ⟨e, _, hs⟩ | ⟨c, e, _, _, hs⟩ <;> simp [hs]

theorem leaveCdata_elt {b : BState} {e : Frame} {rest : List Frame} (hs : b.stack = e :: rest) (he : IsElt e) :
    b.leaveCdata = b := by
  obtain ⟨n, a, hk⟩ := he
  unfold BState.leaveCdata
  rw [hs]
  cases rest with
  | nil => rfl
  | cons g r => simp only [hk]

theorem leaveCdata_cd {b : BState} {c e : Frame} {rest : List Frame} (hs : b.stack = c :: e :: rest) (hc : IsCd c) :
    b.leaveCdata = { b with stack := { e with kids := addKid e.kids c.close } :: rest } := by
  unfold BState.leaveCdata
  rw [hs]
  have hc' : c.kind = FrameKind.cdata := hc
  simp only [hc']

/-- Leaving the CDATA section (if one is open) keeps the invariant; the element frame is on top
    afterwards. -/
theorem leaveCdata_inv (hP : Closed P) {S : List Frame} {r0 : Option Node} {b : BState} (h : Inv P S r0 b) :
    Inv P S r0 b.leaveCdata := by
  rcases h.shape with ⟨e, he, hs⟩ | ⟨c, e, hc, he, hs⟩
  · rw [leaveCdata_elt hs he]; exact h
  · rw [leaveCdata_cd hs hc]
    refine ⟨h.err, Or.inl ⟨{ e with kids := addKid e.kids c.close }, he, rfl⟩, ⟨?_, h.good.root⟩, h.root⟩
    intro fr hfr
    rcases List.mem_cons.1 hfr with hfr | hfr
    · rw [hfr]
      exact hP.addKid (h.good.frames e (by rw [hs]; simp)) (hP.close (h.good.frames c (by rw [hs]; simp)))
    · exact h.good.frames fr (by rw [hs]; exact List.mem_cons_of_mem _ (List.mem_cons_of_mem _ hfr))

theorem step_startElt {b : BState} (herr : b.error = none) (hs : b.leaveCdata.stack ≠ []) (n : Name) (a : List Attr) :
    buildStep main emb b (.startElt n a) =
      { b.leaveCdata with stack := { kind := FrameKind.elt n a, kids := [] } :: b.leaveCdata.stack } := by
  unfold buildStep
  rw [herr]
  simp only [Option.isSome_none, Bool.false_eq_true, if_false]
  split
  · rename_i hst _
    exact absurd hst hs
  · rfl

theorem step_endElt_elt {b : BState} (herr : b.error = none) {e : Frame} {rest : List Frame}
    (hs : b.stack = e :: rest) (he : IsElt e) (n : Name) :
    buildStep main emb b (.endElt n) = ({ b with stack := rest } : BState).attach e.close := by
  obtain ⟨n', a', hk⟩ := he
  unfold buildStep
  rw [herr]
  simp only [Option.isSome_none, Bool.false_eq_true, if_false]
  rw [hs]
  simp only [hk]

theorem step_endElt_cd {b : BState} (herr : b.error = none) {c e : Frame} {rest : List Frame}
    (hs : b.stack = c :: e :: rest) (hc : IsCd c) (n : Name) :
    buildStep main emb b (.endElt n) =
      ({ b with stack := rest } : BState).attach ({ e with kids := addKid e.kids c.close } : Frame).close := by
  unfold buildStep
  rw [herr]
  simp only [Option.isSome_none, Bool.false_eq_true, if_false]
  rw [hs]
  have hc' : c.kind = FrameKind.cdata := hc
  simp only [hc']

/-- Closing the element whose frames sit above `S` (with `S` itself of the right shape, or empty at
    the root) re-establishes the invariant one level down. -/
theorem step_endElt_inv (hP : Closed P) {S0 : List Frame} {r0 : Option Node} {S : List Frame} {b : BState}
    (h : Inv P S r0 b) (hS : Shape S0 S) (n : Name) : Inv P S0 r0 (buildStep main emb b (.endElt n)) := by
  rcases h.shape with ⟨e, he, hs⟩ | ⟨c, e, hc, he, hs⟩
  · rw [step_endElt_elt main emb h.err hs he]
    refine attach_inv (b := { b with stack := S }) ⟨h.err, hS, ⟨?_, h.good.root⟩, h.root⟩ hP
      (hP.close (h.good.frames e (by rw [hs]; simp)))
    intro fr hfr
    exact h.good.frames fr (by rw [hs]; simp [hfr])
  · rw [step_endElt_cd main emb h.err hs hc]
    refine attach_inv (b := { b with stack := S }) ⟨h.err, hS, ⟨?_, h.good.root⟩, h.root⟩ hP (hP.close ?_)
    · intro fr hfr
      exact h.good.frames fr (by rw [hs]; exact List.mem_cons_of_mem _ (List.mem_cons_of_mem _ hfr))
    · exact hP.addKid (h.good.frames e (by rw [hs]; simp))
        (hP.close (h.good.frames c (by rw [hs]; simp)))

/-! ### The builder over a whole run -/

/-- Running the builder over a balanced sequence inside an open element: an error, or the same
    frames below, well-formed children, the root slot untouched. -/
theorem bal_run (hP : Closed P) (hemb : EmbGood emb P) {es : List Event} (hb : Bal es) :
    ∀ (S : List Frame) (r0 : Option Node) (b : BState), Inv P S r0 b →
      (es.foldl (buildStep main emb) b).error ≠ none ∨ Inv P S r0 (es.foldl (buildStep main emb) b) := by
  induction hb with
  | nil => intro S r0 b h; exact Or.inr h
  | chars s _ ih =>
    intro S r0 b h
    rw [List.foldl_cons]
    exact ih S r0 _ (step_chars_inv main emb hP hemb h s)
  | pi t d _ ih =>
    intro S r0 b h
    rw [List.foldl_cons, step_pi]
    exact ih S r0 b h
  | elt n attrs n' _ _ ihb ihe =>
    intro S r0 b0 h0
    -- the element start first leaves an open CDATA section
    have h := leaveCdata_inv hP h0
    rw [List.foldl_cons, List.foldl_append, List.foldl_cons,
      step_startElt main emb h0.err h.shape.ne_nil]
    generalize b0.leaveCdata = b at h ⊢
    have h1 : Inv P b.stack r0 { b with stack := { kind := FrameKind.elt n attrs, kids := [] } :: b.stack } := by
      refine ⟨h.err, Or.inl ⟨_, ⟨n, attrs, rfl⟩, rfl⟩, ⟨?_, h.good.root⟩, h.root⟩
      intro fr hfr
      rcases List.mem_cons.1 hfr with hfr | hfr
      · rw [hfr]; intro x hx; cases hx
      · exact h.good.frames fr hfr
    rcases ihb b.stack r0 _ h1 with herr | h2
    · rw [step_err main emb herr, run_err main emb herr]
      exact Or.inl herr
    · exact ihe S r0 _ (step_endElt_inv main emb hP h2 h.shape n')

/-- The builder over the events of a whole successful run, from the initial state: an error, or a
    well-formed root. -/
theorem build_root (hP : Closed P) (hemb : EmbGood emb P) {cs l : Nat} {pis1 pis2 body : List Event} {n : Name} {attrs : List Attr}
    (h1 : OnlyPi pis1) (hb : Bal body) (h2 : OnlyPi pis2) :
    let b := (Event.startDoc cs l :: (pis1 ++ (Event.startElt n attrs ::
        (body ++ Event.endElt n :: (pis2 ++ [Event.endDoc]))))).foldl (buildStep main emb) {}
    b.error ≠ none ∨ ∃ r, b.root = some r ∧ P r := by
  intro b
  -- startDoc
  have e0 : buildStep main emb {} (Event.startDoc cs l) =
      { charset := cs, lang := main.find? (fun x => x.id == l) } := rfl
  -- startElt on the empty stack with no root
  have e1 : buildStep main emb { charset := cs, lang := main.find? (fun x => x.id == l) } (Event.startElt n attrs) =
      { charset := cs, lang := main.find? (fun x => x.id == l),
        stack := [{ kind := FrameKind.elt n attrs, kids := [] }] } := rfl
  have hb0 : b = (pis2 ++ [Event.endDoc]).foldl (buildStep main emb)
      (buildStep main emb (body.foldl (buildStep main emb)
        { charset := cs, lang := main.find? (fun x => x.id == l),
          stack := [{ kind := FrameKind.elt n attrs, kids := [] }] }) (Event.endElt n)) := by
    show List.foldl _ _ _ = _
    rw [List.foldl_cons, e0, List.foldl_append, run_onlyPi main emb h1, List.foldl_cons, e1,
      List.foldl_append, List.foldl_cons]
  have hinv : Inv P [] none
      { charset := cs, lang := main.find? (fun x => x.id == l),
        stack := [{ kind := FrameKind.elt n attrs, kids := [] }] } := by
    refine ⟨rfl, Or.inl ⟨_, ⟨n, attrs, rfl⟩, rfl⟩, ⟨?_, (fun r hr => by cases hr)⟩, rfl⟩
    intro fr hfr
    simp only [List.mem_singleton] at hfr
    rw [hfr]; intro x hx; cases hx
  -- the tail (trailing PIs, endDoc) changes nothing
  have tail : ∀ b' : BState, (pis2 ++ [Event.endDoc]).foldl (buildStep main emb) b' = b' := by
    intro b'
    rw [List.foldl_append, run_onlyPi main emb h2]
    show buildStep main emb b' Event.endDoc = b'
    unfold buildStep; split <;> rfl
  rw [hb0, tail]
  rcases bal_run main emb hP hemb hb [] none _ hinv with herr | h3
  · rw [step_err main emb herr]; exact Or.inl herr
  · -- close the root element
    rcases h3.shape with ⟨e, he, hs⟩ | ⟨c, e, hc, he, hs⟩
    · rw [step_endElt_elt main emb h3.err hs he]
      refine Or.inr ⟨e.close, ?_, hP.close (h3.good.frames e (by rw [hs]; simp))⟩
      show (BState.attach _ _).root = _
      unfold BState.attach
      simp only [h3.root]
    · rw [step_endElt_cd main emb h3.err hs hc]
      refine Or.inr ⟨({ e with kids := addKid e.kids c.close } : Frame).close, ?_,
        hP.close (f := { e with kids := addKid e.kids c.close })
          (hP.addKid (h3.good.frames e (by rw [hs]; simp)) (hP.close (h3.good.frames c (by rw [hs]; simp))))⟩
      show (BState.attach _ _).root = _
      unfold BState.attach
      simp only [h3.root]

/-- **Every tree delivered by `treeOfWbxml` is well formed** (it has a root, and so has every
    embedded document), for any fuel. -/
theorem treeOfWbxml_good : ∀ (f lang cs : Nat) (bs : Bytes) (t : Tree),
    treeOfWbxml main f lang cs bs = .ok t → GoodT t
  | 0, _, _, _, _, h => by simp [treeOfWbxml] at h
  | f + 1, lang, cs, bs, t, h => by
    rw [treeOfWbxml] at h
    have hemb : EmbGood (fun (cs : Nat) (bs : Bytes) =>
        match treeOfWbxml main f 0 cs bs with
        | .ok t => some t
        | .error _ => none) Good := by
      intro cs' s t' ht'
      dsimp only at ht'
      split at ht'
      · rename_i t'' heq
        cases ht'
        exact (treeOfWbxml_good f 0 cs' s _ heq).node
      · cases ht'
    split at h
    · cases h
    · rename_i hres
      obtain ⟨cs0, l0, pis1, n, attrs, body, pis2, hev, p1, p2, p3⟩ := parse_events_shape hres
      rw [hev] at h
      have := build_root main _ good_closed hemb (cs := cs0) (l := l0) (n := n) (attrs := attrs) p1 p2 p3
      dsimp only at this
      split at h
      · cases h
      · rename_i herr
        cases h
        rcases this with he | ⟨r, hr, hg⟩
        · exact absurd herr he
        · exact Or.inr ⟨r, hr, hg⟩

/-! ### Nesting of embedded documents is bounded by the tree stage's fuel

`treeOfWbxml` hands the embedded-document parser the fuel `f - 1` and keeps the payload as text when
the nested run fails for ANY reason, fuel included. So the tree it returns never nests embedded
documents deeper than `f - 1` levels: deeper nesting is cut off by the model (text fallback), where
the C code would recurse on. `embDepthN` counts `.tree` nodes along a path. -/

mutual
def embDepthN : Node → Nat
  | .elt _ _ kids => embDepthL kids
  | .text _ => 0
  | .cdata kids => embDepthL kids
  | .tree _ _ none => 1
  | .tree _ _ (some r) => embDepthN r + 1
def embDepthL : List Node → Nat
  | [] => 0
  | n :: rest => max (embDepthN n) (embDepthL rest)
end

/-- Nesting depth of embedded documents in a tree (0 = none). -/
def embDepthT (t : Tree) : Nat :=
  match t.root with
  | some r => embDepthN r
  | none => 0

theorem embDepthL_le {D : Nat} : ∀ {ns : List Node}, (∀ k ∈ ns, embDepthN k ≤ D) → embDepthL ns ≤ D
  | [], _ => by simp only [embDepthL]; omega
  | n :: rest, h => by
    simp only [embDepthL]
    have h1 := h n (by simp)
    have h2 := embDepthL_le (ns := rest) (fun k hk => h k (by simp [hk]))
    omega

theorem depthLe_closed (D : Nat) : Closed (fun n => embDepthN n ≤ D) :=
  ⟨fun _ => by simp only [embDepthN]; omega,
   fun _ _ _ h => by simp only [embDepthN]; exact embDepthL_le h,
   fun _ h => by simp only [embDepthN]; exact embDepthL_le h⟩

theorem embDepthN_tree (t : Tree) : embDepthN (.tree t.lang t.origCharset t.root) = embDepthT t + 1 := by
  unfold embDepthT
  cases t.root <;> simp only [embDepthN]

/-- **The tree stage nests embedded documents at most `f - 1` deep.** -/
theorem treeOfWbxml_embDepth : ∀ (f lang cs : Nat) (bs : Bytes) (t : Tree),
    treeOfWbxml main f lang cs bs = .ok t → embDepthT t + 1 ≤ f
  | 0, _, _, _, _, h => by simp [treeOfWbxml] at h
  | f + 1, lang, cs, bs, t, h => by
    rw [treeOfWbxml] at h
    have hemb : EmbGood (fun (cs : Nat) (bs : Bytes) =>
        match treeOfWbxml main f 0 cs bs with
        | .ok t => some t
        | .error _ => none) (fun n => embDepthN n ≤ f) := by
      intro cs' s t' ht'
      dsimp only at ht'
      split at ht'
      · rename_i t'' heq
        cases ht'
        rw [embDepthN_tree]
        exact treeOfWbxml_embDepth f 0 cs' s _ heq
      · cases ht'
    split at h
    · cases h
    · rename_i hres
      obtain ⟨cs0, l0, pis1, n, attrs, body, pis2, hev, p1, p2, p3⟩ := parse_events_shape hres
      rw [hev] at h
      have := build_root main _ (depthLe_closed f) hemb (cs := cs0) (l := l0) (n := n) (attrs := attrs) p1 p2 p3
      dsimp only at this
      split at h
      · cases h
      · rename_i herr
        cases h
        rcases this with he | ⟨r, hr, hg⟩
        · exact absurd herr he
        · have e : ∀ (t : Tree), t.root = some r → embDepthT t + 1 ≤ f + 1 := by
            intro t ht
            simp only [embDepthT, ht]
            exact Nat.succ_le_succ hg
          exact e _ hr

/-! ### XML generation never reaches its `ub` flag on a well-formed tree -/

/-- Like `Ok`, but fuel exhaustion is allowed. -/
def OkF {β : Type} (P : β → Prop) : Except Err β → Prop
  | .ok b => P b
  | .error (.code c) => c ≠ 0
  | .error .fuel => True
  | .error _ => False

theorem OkF.bind {β γ : Type} {P : β → Prop} {Q : γ → Prop} {m : Except Err β} {k : β → Except Err γ}
    (hm : OkF P m) (hk : ∀ b, P b → OkF Q (k b)) : OkF Q (m >>= k) := by
  cases m with
  | error e => cases e <;> first | exact hm | exact True.intro
  | ok b => exact hk b hm

theorem OkF.of_ok {β : Type} {P : β → Prop} {m : Except Err β} (h : Ok P m) : OkF (fun _ => True) m := by
  cases m with
  | error e => cases e <;> first | exact h | exact True.intro
  | ok b => exact True.intro

theorem OkF.not_ub {β : Type} {P : β → Prop} {m : Except Err β} (h : OkF P m) (w : String) : m ≠ .error (.ub w) := by
  intro hm; subst hm; exact h

theorem OkF.cases {β : Type} {P : β → Prop} {m : Except Err β} (h : OkF P m) :
    (∃ b, m = .ok b) ∨ (∃ c, c ≠ 0 ∧ m = .error (.code c)) ∨ m = .error .fuel := by
  cases m with
  | ok b => exact Or.inl ⟨b, rfl⟩
  | error e =>
    cases e with
    | code c => exact Or.inr (Or.inl ⟨c, h, rfl⟩)
    | fuel => exact Or.inr (Or.inr rfl)
    | ub w => exact absurd h (fun h => h)
    | crash w => exact absurd h (fun h => h)

theorem OkF.not_crash {β : Type} {P : β → Prop} {m : Except Err β} (h : OkF P m) (w : String) : m ≠ .error (.crash w) := by
  intro hm; subst hm; exact h

theorem xml_noub : ∀ (f : Nat),
    (∀ (g : Nat) (c : XCfg) (p : Parent) (n : Node) (st : XSt), okNode g n = true →
        OkF (fun _ => True) (xmlNode c p f n st)) ∧
    (∀ (g : Nat) (c : XCfg) (p : Parent) (ns : List Node) (st : XSt), okList g ns = true →
        OkF (fun _ => True) (xmlNodes c p f ns st))
  | 0 => ⟨fun _ _ _ _ _ _ => by rw [xmlNode]; exact True.intro, fun _ _ _ _ _ _ => by rw [xmlNodes]; exact True.intro⟩
  | f + 1 => by
    obtain ⟨ihN, ihL⟩ := xml_noub f
    constructor
    · intro g c p n st h
      cases g with
      | zero => simp [okNode] at h
      | succ g =>
      cases n with
      | elt name attrs kids =>
        simp only [okNode] at h
        simp only [xmlNode]
        refine OkF.bind (ihL g c _ kids _ h) ?_
        intro st' _; exact True.intro
      | text s =>
        simp only [xmlNode]
        refine OkF.bind (OkF.of_ok (xmlText_safe c s st)) ?_
        intro st' _; exact True.intro
      | cdata kids =>
        simp only [okNode] at h
        simp only [xmlNode]
        refine OkF.bind (ihL g c _ kids _ h) ?_
        intro st' _; exact True.intro
      | tree lang cs root =>
        cases lang with
        | none => simp only [xmlNode]; exact (by decide : (12 : Nat) ≠ 0)
        | some l =>
          cases root with
          | none => simp [okNode] at h
          | some r =>
            simp only [okNode] at h
            simp only [xmlNode]
            refine OkF.bind (ihN g _ _ r _ h) ?_
            intro st' _; exact True.intro
    · intro g c p ns st h
      cases g with
      | zero => simp [okList] at h
      | succ g =>
      cases ns with
      | nil => simp only [xmlNodes]; exact True.intro
      | cons n rest =>
        simp only [xmlNodes]
        simp only [okList, Bool.and_eq_true] at h
        refine OkF.bind (ihN g c p n st h.1) ?_
        intro st' _
        exact ihL g c p rest st' h.2

/-- `wbxml_tree_to_xml` on a well-formed tree: success, an error code, or (only) fuel. -/
theorem treeToXml_noub (cfg : W2XCfg) (fuel : Nat) (t : Tree) (h : GoodT t) :
    OkF (fun _ => True) (treeToXml cfg fuel t) := by
  unfold treeToXml
  split
  · exact (by decide : (12 : Nat) ≠ 0)
  · rename_i lang hl hr
    rcases h with h | ⟨r, h, _⟩
    · rw [hl] at h; cases h
    · rw [hr] at h; cases h
  · rename_i lang root hl hr
    rcases h with h | ⟨r, h, g, hok⟩
    · rw [hl] at h; cases h
    · rw [hr] at h; cases h
      refine OkF.bind ((xml_noub fuel).1 g _ _ _ _ hok) ?_
      intro st _
      exact True.intro

/-! ### The structural generator budget `Tree.xmlFuel` suffices for every well-formed tree -/

theorem Good.rooted {n : Node} (h : Good n) : rootedN n = true := (exists_ok_iff_rooted n).1 h

theorem good_iff_rooted (n : Node) : Good n ↔ rootedN n = true := exists_ok_iff_rooted n

/-- A well-formed node passes `okNode` at its own structural budget. -/
theorem Good.okNode_xmlFuel {n : Node} (h : Good n) : okNode n.xmlFuel n = true :=
  Lemmas.ParserSafe.okNode_xmlFuel n h.rooted

theorem GoodL.okList_xmlFuelL {ns : List Node} (h : GoodL ns) : okList (Node.xmlFuelL ns) ns = true := by
  obtain ⟨f, hf⟩ := okList_of_goodL ns h
  exact okList_xmlFuelL_of_ok hf

/-- `wbxml_tree_to_xml` with the budget `wbxml2xml` supplies (`t.xmlFuel`) on a well-formed tree:
    success or a non-zero error code. Never `fuel`, `ub`, `crash`. -/
theorem treeToXml_xmlFuel_safe (cfg : W2XCfg) (t : Tree) (h : GoodT t) : Safe (treeToXml cfg t.xmlFuel t) := by
  refine treeToXml_safe cfg _ t ?_
  rcases h with h | ⟨r, hr, hg⟩
  · exact Or.inl h
  · refine Or.inr ⟨r, hr, ?_⟩
    have : t.xmlFuel = r.xmlFuel := by simp only [Tree.xmlFuel, hr]
    rw [this]
    exact hg.okNode_xmlFuel

/-- **`wbxml2xml` is total**: success or a non-zero error code, for every option tuple (arbitrary
    language tables included) and every input. -/
theorem wbxml2xml_safe (cfg : W2XCfg) (bs : Bytes) : Safe (wbxml2xml cfg bs) := by
  rcases wbxml2xml_anatomy cfg bs with ⟨_, h⟩ | ⟨c, hc0, _, h⟩ | ⟨t, ht, h⟩
  · rw [h]; exact (by decide : (12 : Nat) ≠ 0)
  · rw [h]; exact hc0
  · rw [h]; exact treeToXml_xmlFuel_safe cfg t (treeOfWbxml_good cfg.main _ _ _ _ _ ht)

end Wbxml.Lemmas.ParserSafe
