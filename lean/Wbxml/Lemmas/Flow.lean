/-
  Lemmas about the flow-mode state machine (`Model/Flow.lean`), for an arbitrary per-item encoder.
-/
import Wbxml.Model.Flow
namespace Wbxml.Model.Flow
open Wbxml Wbxml.Model

variable {σ : Type}

/-! ## Batch encoding -/

theorem batch_nil (e : Enc σ) (st : σ) : batch e st [] = .ok ([], st) := rfl

theorem batch_cons_ok (e : Enc σ) (st : σ) (it : Item) (rest : List Item) {b st1} (h : e.item st it = .ok (b, st1)) :
    batch e st (it :: rest) =
      match batch e st1 rest with
      | .error err => .error err
      | .ok (b', st2) => .ok (b ++ b', st2) := by
  simp only [batch, h]
  cases batch e st1 rest with
  | error err => rfl
  | ok r => cases r; rfl

theorem batch_cons_err (e : Enc σ) (st : σ) (it : Item) (rest : List Item) {err} (h : e.item st it = .error err) :
    batch e st (it :: rest) = .error err := by
  simp only [batch, h]

/-- Batch encoding of a concatenation: encode the first part, continue from the state reached. -/
theorem batch_append (e : Enc σ) (st : σ) (a b : List Item) :
    batch e st (a ++ b) =
      match batch e st a with
      | .error err => .error err
      | .ok (ba, s1) =>
        match batch e s1 b with
        | .error err => .error err
        | .ok (bb, s2) => .ok (ba ++ bb, s2) := by
  induction a generalizing st with
  | nil =>
    simp only [List.nil_append, batch_nil]
    cases batch e st b with
    | error err => rfl
    | ok r => cases r; simp
  | cons it rest ih =>
    simp only [List.cons_append]
    cases h : e.item st it with
    | error err => simp only [batch_cons_err e st it _ h]
    | ok r =>
      obtain ⟨b0, st1⟩ := r
      rw [batch_cons_ok e st it _ h, batch_cons_ok e st it _ h, ih st1]
      cases batch e st1 rest with
      | error err => rfl
      | ok r1 =>
        obtain ⟨b1, st2⟩ := r1
        simp only
        cases batch e st2 b with
        | error err => rfl
        | ok r2 => obtain ⟨b2, st3⟩ := r2; simp [List.append_assoc]

/-- One more item after a sequence that encodes to `(out, st)`. -/
theorem batch_snoc (e : Enc σ) (items : List Item) (it : Item) {out st}
    (h : batch e e.init items = .ok (out, st)) :
    batch e e.init (items ++ [it]) =
      match e.item st it with
      | .error err => .error err
      | .ok (b, st') => .ok (out ++ b, st') := by
  rw [batch_append, h]
  simp only
  cases hi : e.item st it with
  | error err => simp only [batch_cons_err e st it [] hi]
  | ok r =>
    obtain ⟨b, st'⟩ := r
    simp only [batch_cons_ok e st it [] hi, batch_nil, List.append_nil]

/-! ## The invariant tying the encoder object to the remaining items -/

/-- The output buffer and the encoding state are exactly what batch encoding of the remaining items
    gives; the recorded point is what batch encoding of the items before the most recent node
    gives. -/
structure Inv (e : Enc σ) (s : FState σ) (v : Surv) : Prop where
  full : batch e e.init v.items = .ok (s.output, s.st)
  mark_le : v.mark ≤ v.items.length
  pre : batch e e.init (v.items.take v.mark) = .ok (s.output.take s.preLast.len, s.preLast.st)
  len_le : s.preLast.len ≤ s.output.length

theorem inv_init (e : Enc σ) : Inv e (FState.init e) { items := [], mark := 0 } :=
  { full := rfl, mark_le := Nat.le_refl 0, pre := rfl, len_le := Nat.le_refl 0 }

/-- The header field is not part of the invariant: setting it keeps everything else. -/
theorem encodeStep_error (e : Enc σ) (s : FState σ) (it : Item) {err}
    (h : e.item s.st it = .error err) :
    (encodeStep e s it).1.output = s.output ∧ (encodeStep e s it).1.st = s.st ∧
    (encodeStep e s it).1.preLast = s.preLast ∧ (encodeStep e s it).2 = some err := by
  simp only [encodeStep, h, and_self]

theorem encodeStep_ok (e : Enc σ) (s : FState σ) (it : Item) {bs st'}
    (h : e.item s.st it = .ok (bs, st')) :
    (encodeStep e s it).1.output = s.output ++ bs ∧ (encodeStep e s it).1.st = st' ∧
    (encodeStep e s it).1.preLast = (if it.isNode then { len := s.output.length, st := s.st } else s.preLast) ∧
    (encodeStep e s it).2 = none := by
  simp only [encodeStep, h, and_self]

theorem inv_step (e : Enc σ) (s : FState σ) (v : Surv) (op : Op) (hinv : Inv e s v) :
    Inv e (step e s op).1 (survStep e v op) := by
  cases hop : op.item? with
  | some it =>
    simp only [step, survStep, hop]
    have hb := batch_snoc e v.items it hinv.full
    cases hi : e.item s.st it with
    | error err =>
      obtain ⟨ho, hs, hp, _⟩ := encodeStep_error e s it hi
      rw [hi] at hb
      simp only [hb]
      exact { full := by rw [ho, hs]; exact hinv.full
              mark_le := hinv.mark_le
              pre := by rw [ho, hp]; exact hinv.pre
              len_le := by rw [ho, hp]; exact hinv.len_le }
    | ok r =>
      obtain ⟨bs, st'⟩ := r
      obtain ⟨ho, hs, hp, _⟩ := encodeStep_ok e s it hi
      rw [hi] at hb
      simp only [hb]
      cases hn : it.isNode with
      | true =>
        simp only [hn, if_true] at hp ⊢
        exact { full := by rw [ho, hs]; exact hb
                mark_le := by simp
                pre := by
                  rw [ho, hp]
                  simp only [List.take_left']
                  simpa using hinv.full
                len_le := by rw [ho, hp]; simp }
      | false =>
        simp only [hn, Bool.false_eq_true, if_false] at hp ⊢
        have hml := hinv.mark_le
        have hll := hinv.len_le
        exact { full := by rw [ho, hs]; exact hb
                mark_le := by simp only [List.length_append, List.length_cons, List.length_nil]; omega
                pre := by
                  rw [ho, hp, List.take_append_of_le_length hml, List.take_append_of_le_length hll]
                  exact hinv.pre
                len_le := by rw [ho, hp]; simp only [List.length_append]; omega }
  | none =>
    cases op with
    | deleteLast =>
      simp only [step, survStep, Op.item?, deleteStep]
      have hml := hinv.mark_le
      have hll := hinv.len_le
      exact { full := hinv.pre
              mark_le := by simp only [List.length_take]; omega
              pre := by simp only [List.take_take, Nat.min_self]; exact hinv.pre
              len_le := by simp only [List.length_take]; omega }
    | getOutput => simpa only [step, survStep, Op.item?] using hinv
    | encodeNode n => simp [Op.item?] at hop
    | encodeNodeNoEnd n => simp [Op.item?] at hop
    | encodeEltStart n hc => simp [Op.item?] at hop
    | encodeEltEnd n hc => simp [Op.item?] at hop

theorem inv_run (e : Enc σ) (ops : List Op) (s : FState σ) (v : Surv) (hinv : Inv e s v) :
    Inv e (run e s ops) (remaining e v ops) := by
  induction ops generalizing s v with
  | nil => exact hinv
  | cons op ops ih => exact ih _ _ (inv_step e s v op hinv)

/-! ## The header -/

theorem step_header (e : Enc σ) (s : FState σ) (op : Op) :
    (step e s op).1.header = if op.isNodeCall then some (s.header.getD e.header) else s.header := by
  cases hop : op.item? with
  | some it =>
    simp only [step, hop, encodeStep, Op.isNodeCall]
    cases e.item s.st it with
    | error err => rfl
    | ok r => rfl
  | none =>
    cases op <;> simp_all [step, Op.item?, deleteStep, Op.isNodeCall]

theorem run_header (e : Enc σ) (ops : List Op) (s : FState σ) :
    (run e s ops).header = if nodeCalled ops then some (s.header.getD e.header) else s.header := by
  induction ops generalizing s with
  | nil => simp [run, nodeCalled]
  | cons op ops ih =>
    simp only [run, ih, step_header, nodeCalled, List.any_cons]
    by_cases h1 : op.isNodeCall = true <;> by_cases h2 : ops.any Op.isNodeCall = true <;> simp [h1, h2]

theorem run_header_init (e : Enc σ) (ops : List Op) :
    (run e (FState.init e) ops).header = if nodeCalled ops then some e.header else none := by
  rw [run_header]; simp [FState.init]

/-! ## `run`, `trace`, prefixes -/

theorem run_append (e : Enc σ) (s : FState σ) (a b : List Op) :
    run e s (a ++ b) = run e (run e s a) b := by
  induction a generalizing s with
  | nil => rfl
  | cons op a ih => simp only [List.cons_append, run, ih]

theorem remaining_append (e : Enc σ) (v : Surv) (a b : List Op) :
    remaining e v (a ++ b) = remaining e (remaining e v a) b := by
  induction a generalizing v with
  | nil => rfl
  | cons op a ih => simp only [List.cons_append, remaining, ih]

theorem trace_length (e : Enc σ) (s : FState σ) (ops : List Op) : (trace e s ops).length = ops.length := by
  induction ops generalizing s with
  | nil => rfl
  | cons op ops ih => simp only [trace, List.length_cons, ih]

/-- What the caller sees after the `i`-th call is the result of the state after the first `i+1`
    operations. -/
theorem trace_getElem? (e : Enc σ) (s : FState σ) (ops : List Op) (i : Nat) (h : i < ops.length) :
    (trace e s ops)[i]? = some ((step e (run e s (ops.take i)) ops[i]).2, (run e s (ops.take (i + 1))).result) := by
  induction ops generalizing s i with
  | nil => simp at h
  | cons op ops ih =>
    cases i with
    | zero => simp [trace, run]
    | succ i =>
      simp only [List.length_cons, Nat.add_lt_add_iff_right] at h
      simp only [trace, List.getElem?_cons_succ, List.take_succ_cons, run, List.getElem_cons_succ]
      exact ih _ i h

/-! ## Deleting the last node -/

/-- Two encoder objects with the same output buffer and the same encoding state encode the next
    item identically (the header and the recorded point play no part). -/
theorem encodeStep_congr (e : Enc σ) (s t : FState σ) (it : Item)
    (ho : s.output = t.output) (hs : s.st = t.st) :
    (encodeStep e s it).1.output = (encodeStep e t it).1.output ∧
    (encodeStep e s it).1.st = (encodeStep e t it).1.st ∧
    (encodeStep e s it).2 = (encodeStep e t it).2 := by
  cases hi : e.item s.st it with
  | error err =>
    have hi' : e.item t.st it = .error err := by rw [← hs]; exact hi
    obtain ⟨a1, a2, _, a4⟩ := encodeStep_error e s it hi
    obtain ⟨b1, b2, _, b4⟩ := encodeStep_error e t it hi'
    rw [a1, a2, a4, b1, b2, b4]; exact ⟨ho, hs, rfl⟩
  | ok r =>
    obtain ⟨bs, st'⟩ := r
    have hi' : e.item t.st it = .ok (bs, st') := by rw [← hs]; exact hi
    obtain ⟨a1, a2, _, a4⟩ := encodeStep_ok e s it hi
    obtain ⟨b1, b2, _, b4⟩ := encodeStep_ok e t it hi'
    rw [a1, a2, a4, b1, b2, b4, ho]; exact ⟨rfl, rfl, rfl⟩

/-- A node that was encoded, then deleted: output buffer and encoding state are those before it. -/
theorem delete_after_node (e : Enc σ) (s : FState σ) (n : Node) (encEnd : Bool)
    (hok : (encodeStep e s (.node n encEnd)).2 = none) :
    (deleteStep (encodeStep e s (.node n encEnd)).1).output = s.output ∧
    (deleteStep (encodeStep e s (.node n encEnd)).1).st = s.st := by
  cases hi : e.item s.st (.node n encEnd) with
  | error err =>
    obtain ⟨_, _, _, h4⟩ := encodeStep_error e s _ hi
    rw [h4] at hok; cases hok
  | ok r =>
    obtain ⟨bs, st'⟩ := r
    obtain ⟨h1, _, h3, _⟩ := encodeStep_ok e s _ hi
    simp only [deleteStep, h1, h3, Item.isNode, if_true, List.take_left', and_self]

/-- Encoding operations only (no `deleteLast`). -/
def Op.isEncode (op : Op) : Bool := op.item?.isSome || (match op with | .getOutput => true | _ => false)

/-- Same output buffer and encoding state ⇒ the same bytes are appended by any sequence of encoding
    calls (return codes included). -/
theorem run_encode_congr (e : Enc σ) (ops : List Op) (s t : FState σ)
    (hall : ∀ op ∈ ops, op.isEncode = true)
    (ho : s.output = t.output) (hs : s.st = t.st) :
    (run e s ops).output = (run e t ops).output ∧ (run e s ops).st = (run e t ops).st ∧
    (trace e s ops).map (·.1) = (trace e t ops).map (·.1) := by
  induction ops generalizing s t with
  | nil => exact ⟨ho, hs, rfl⟩
  | cons op ops ih =>
    have hop := hall op (List.mem_cons_self ..)
    have hrest : ∀ o ∈ ops, o.isEncode = true := fun o ho' => hall o (List.mem_cons_of_mem _ ho')
    cases hi : op.item? with
    | some it =>
      obtain ⟨c1, c2, c3⟩ := encodeStep_congr e s t it ho hs
      have := ih (encodeStep e s it).1 (encodeStep e t it).1 hrest c1 c2
      simp only [run, trace, step, hi, List.map_cons]
      exact ⟨this.1, this.2.1, by rw [c3, this.2.2]⟩
    | none =>
      cases op with
      | getOutput =>
        have := ih s t hrest ho hs
        simp only [run, trace, step, Op.item?, List.map_cons]
        exact ⟨this.1, this.2.1, by rw [this.2.2]⟩
      | deleteLast => simp [Op.isEncode, Op.item?] at hop
      | encodeNode n => simp [Op.item?] at hi
      | encodeNodeNoEnd n => simp [Op.item?] at hi
      | encodeEltStart n hc => simp [Op.item?] at hi
      | encodeEltEnd n hc => simp [Op.item?] at hi

end Wbxml.Model.Flow
