/-
  C16 — the XML output half on the ledger, part A: the shape of an encoder step (`XStep`), runs of
  `wbxml_buffer_append_*` calls on a buffer and on `encoder->output`, and the two operations on the
  temporary copy of a text (`wbxml_buffer_encode_base64`, the SyncML `<Type>` replacement).
-/
import Wbxml.Model.AllocXml
import Wbxml.Lemmas.AllocFrame
import Wbxml.Lemmas.AllocWords
namespace Wbxml.Model.Alloc
open Wbxml
set_option linter.unusedSimpArgs false
set_option linter.unusedVariables false
set_option linter.unnecessarySimpa false

/-- A block that is live and not consumed stays live and is none of the blocks produced. -/
theorem Clean.outside {s s' : Ledger} {A B : List Nat} (c : Clean s s' A B) (wf : s.WF) {i : Nat}
    (hl : i ∈ s.live) (hn : i ∉ A) : i ∈ s'.live ∧ i ∉ B := by
  refine ⟨(c.live i).2 (Or.inl ⟨hl, hn⟩), fun hm => ?_⟩
  rcases c.fresh i hm with h | h
  · exact hn h
  · have := wf i hl; omega

/-- The encoder owns its blocks and has a well-formed output buffer. -/
def EncReady (e : AEnc) (s : Ledger) : Prop := Owns s e.owned ∧ ∃ o, e.output = some o ∧ o.ok

theorem EncReady.out_owns {e : AEnc} {s : Ledger} {o : ABuf} (rdy : EncReady e s) (ho : e.output = some o) :
    Owns s o.owned := by
  obtain ⟨own, _⟩ := rdy
  refine ⟨?_, fun i hi => own.2 i ?_⟩
  · have := own.1
    simp only [AEnc.owned_eq, ho, ownedBufOpt, List.nodup_cons, List.nodup_append] at this
    exact this.2.2.1
  · simp only [AEnc.owned_eq, ho, ownedBufOpt, List.mem_cons, List.mem_append]; exact Or.inr (Or.inr hi)

/-- One step of the XML walk on the encoder: the same struct and string table, the output buffer
    possibly moved; a delivered failure is reported by the code. -/
def XStep (e : AEnc) (s : Ledger) (e' : AEnc) (ret : Nat) (s' : Ledger) : Prop :=
  EncStep e s e' s' ∧ e'.strstbl = e.strstbl ∧ e'.output.isSome ∧ (s.hits < s'.hits → ret ≠ OK)

theorem XStep.clean {e e' : AEnc} {s s' : Ledger} {ret : Nat} (h : XStep e s e' ret s') : Clean s s' e.owned e'.owned := h.1.2.1

theorem XStep.ready {e e' : AEnc} {s s' : Ledger} {ret : Nat} (h : XStep e s e' ret s') : EncReady e' s' := by
  obtain ⟨⟨_, c, k, _⟩, _, hs, _⟩ := h
  refine ⟨c.owns, ?_⟩
  cases ho : e'.output with
  | none => simp [ho] at hs
  | some o => exact ⟨o, rfl, k o ho⟩

theorem XStep.refl {e : AEnc} {s : Ledger} (wf : s.WF) (rdy : EncReady e s) (ret : Nat) : XStep e s e ret s := by
  obtain ⟨own, o, ho, hk⟩ := rdy
  exact ⟨⟨rfl, Clean.id wf own, fun o' ho' => by rw [ho] at ho'; cases ho'; exact hk, rfl⟩, rfl, by simp [ho],
    fun h => absurd h (Nat.lt_irrefl _)⟩

/-- A step that returned `WBXML_OK`, then another one. -/
theorem XStep.trans {e e1 e2 : AEnc} {s s1 s2 : Ledger} {ret : Nat} (wf : s.WF)
    (h1 : XStep e s e1 OK s1) (h2 : XStep e1 s1 e2 ret s2) : XStep e s e2 ret s2 := by
  obtain ⟨⟨a1, c1, _, u1⟩, t1, _, r1⟩ := h1
  obtain ⟨⟨a2, c2, k2, u2⟩, t2, o2, r2⟩ := h2
  refine ⟨⟨a2.trans a1, Clean.trans_recycle wf c1 c2, k2, u2.trans u1⟩, t2.trans t1, o2, fun hh => ?_⟩
  by_cases hA : s1.hits < s2.hits
  · exact r2 hA
  · exfalso
    have := c1.hits; have := c2.hits
    exact r1 (by omega) rfl

/-- The code of a step may be replaced by any other error code. -/
theorem XStep.recode {e e' : AEnc} {s s' : Ledger} {ret ret' : Nat} (h : XStep e s e' ret s') (hr : ret ≠ OK → ret' ≠ OK) :
    XStep e s e' ret' s' :=
  ⟨h.1, h.2.1, h.2.2.1, fun hh => hr (h.2.2.2 hh)⟩

theorem XStep.outside {e e' : AEnc} {s s' : Ledger} {ret : Nat} (h : XStep e s e' ret s') (wf : s.WF) {i : Nat}
    (hl : i ∈ s.live) (hn : i ∉ e.owned) : i ∈ s'.live ∧ i ∉ e'.owned :=
  h.clean.outside wf hl hn

/-! ### Runs of appends -/

theorem bufAppendAll_spec (chunks : List Bytes) (b : ABuf) (s : Ledger) (wf : s.WF) (own : Owns s b.owned) (hok : b.ok) :
    Good (bufAppendAll b chunks) s (BufStep b s) := by
  induction chunks generalizing b s with
  | nil => simp only [bufAppendAll, pure_eq, good_ret]; exact BufStep.same wf own true
  | cons chunk rest ih =>
    unfold bufAppendAll
    simp only [bind_eq, pure_eq]
    refine Good.bind (bufAppendData_spec b (some chunk) s wf own hok) ?_
    intro r s1 hr
    obtain ⟨b1, ok⟩ := r
    obtain ⟨eh, es, c1, h1, k1⟩ := hr
    simp only at eh es c1 h1 k1 ⊢
    cases ok with
    | false =>
      simp only [Bool.not_false, if_true]
      exact good_ret.2 ⟨eh, es, c1, fun _ => rfl, k1⟩
    | true =>
      simp only [Bool.not_true, Bool.false_eq_true, if_false]
      refine (ih b1 s1 c1.wf c1.owns (k1 hok)).mono ?_
      intro r s2 ⟨eh2, es2, c2, h2, k2⟩
      refine ⟨eh2.trans eh, es2.trans es, Clean.trans_recycle wf c1 c2, fun hh => ?_, fun hk => k2 (k1 hk)⟩
      by_cases hA : s1.hits < s2.hits
      · exact h2 hA
      · exfalso
        have b1' := h1; simp at b1'
        have := c1.hits; have := c2.hits
        omega

theorem appendAll_spec (e : AEnc) (err : Nat) (herr : err ≠ OK) (chunks : List Bytes) (s : Ledger) (wf : s.WF)
    (rdy : EncReady e s) : Good (appendAll e err chunks) s (fun r s' => XStep e s r.1 r.2 s') := by
  have ⟨own, o, ho, hk⟩ := rdy
  unfold appendAll
  simp only [ho, bind_eq, pure_eq]
  refine Good.bind (bufAppendAll_spec chunks o s wf (rdy.out_owns ho) hk) ?_
  intro r s1 hr
  obtain ⟨o1, ok⟩ := r
  obtain ⟨eh, es, c1, h1, k1⟩ := hr
  simp only at eh es c1 h1 k1 ⊢
  refine good_ret.2 ⟨⟨rfl, enc_output_step wf ho own c1, fun o' ho' => by cases ho'; exact k1 hk, rfl⟩, rfl, rfl, fun hh => ?_⟩
  have := h1 hh
  subst this
  simpa using herr

/-! ### The temporary copy of a text -/

/-- What an operation on the temporary copy guarantees: still one dynamic, well-formed buffer that
    the caller owns; a delivered failure is reported. -/
def TmpStep (tmp : ABuf) (s : Ledger) (r : ABuf × Nat) (s' : Ledger) : Prop :=
  Clean s s' tmp.owned r.1.owned ∧ r.1.ok ∧ r.1.isStatic = false ∧ (s.hits < s'.hits → r.2 ≠ OK)

/-- `wbxml_buffer_encode_base64`: the block of `wbxml_base64_encode` is released on every exit. -/
theorem bufEncodeB64_spec (tmp : ABuf) (s : Ledger) (wf : s.WF) (own : Owns s tmp.owned) (hok : tmp.ok)
    (hst : tmp.isStatic = false) : Good (bufEncodeB64 tmp) s (TmpStep tmp s) := by
  unfold bufEncodeB64
  simp only [bind_eq, pure_eq]
  refine Good.bind (deref_spec tmp.hdr s (own.2 _ (by simp [ABuf.owned]))) ?_
  intro _ s0 e0; have e0' := e0.symm; subst e0'
  have henc : Good (b64Encode tmp.len) s (fun r s' => Clean s s' [] r.toList ∧ (s.hits < s'.hits → r = none)) := by
    unfold b64Encode
    split
    · exact good_ret.2 ⟨Clean.rfl wf, fun _ => rfl⟩
    · exact malloc_spec s wf
  refine Good.bind henc ?_
  intro r s1 ⟨c1, h1⟩
  have hh1 := c1.hits
  have cX1 : Clean s s1 tmp.owned (tmp.owned ++ r.toList) := by
    have := Clean.frame_l tmp.owned wf c1 (by simpa using own)
    simpa using this
  cases r with
  | none =>
    simp only [Option.toList, List.append_nil] at cX1 ⊢
    exact good_ret.2 ⟨cX1, hok, hst, fun _ => by simp [EB64ENC, OK]⟩
  | some x =>
    simp only [Option.toList] at cX1 ⊢
    have hno1 : ¬ s.hits < s1.hits := by intro h; have := h1 h; simp at this
    have hown0 : ({ tmp with bytes := [] } : ABuf).owned = tmp.owned := rfl
    have hok0 : ({ tmp with bytes := [] } : ABuf).ok := by
      intro hs hd
      exact ⟨(hok hs hd).1, rfl⟩
    refine Good.bind (bufAppendData_spec { tmp with bytes := [] } (some (Spec.Seq.cstr (Codec.b64Encode tmp.bytes))) s1 c1.wf
      (by rw [hown0]; exact cX1.owns.left) hok0) ?_
    intro r3 s2 ⟨_, es3, c3, h3, k3⟩
    obtain ⟨b3, ok⟩ := r3
    simp only at c3 h3 es3 k3 ⊢
    rw [hown0] at c3
    have hh3 := c3.hits
    have cX2 : Clean s s2 tmp.owned (b3.owned ++ [x]) := Clean.step_r [x] wf cX1 c3
    refine Good.bind (free_spec (some x) s2 c3.wf (by intro a ha; cases ha; exact cX2.owns.2 x (by simp))) ?_
    intro _ s3 ⟨d4, hd4, _⟩
    have d4' : Clean s2 s3 [x] [] := by simpa using d4
    have cX3 : Clean s s3 tmp.owned b3.owned := by simpa using Clean.step_l b3.owned wf cX2 d4'
    refine good_ret.2 ⟨cX3, k3 hok0, by simpa [hst] using es3, fun hh => ?_⟩
    cases ok with
    | false => simp [ENOMEM, OK]
    | true =>
      exfalso
      have a3 : ¬ s1.hits < s2.hits := by intro h; have := h3 h; simp at this
      omega

/-- The replacement of a SyncML `<Type>` text: the old copy is released whether or not the new
    one can be made. -/
theorem swapTmp_spec (tmp : ABuf) (new : Bytes) (s : Ledger) (wf : s.WF) (own : Owns s tmp.owned) :
    Good (swapTmp tmp new) s (fun r s' => Clean s s' tmp.owned (ownedBufOpt r) ∧ (s.hits < s'.hits → r = none) ∧
      ∀ x, r = some x → x.ok ∧ x.isStatic = false) := by
  unfold swapTmp
  simp only [bind_eq]
  refine Good.bind (bufDestroy_spec (some tmp) s wf (by simpa [ownedBufOpt] using own)) ?_
  intro _ s1 ⟨d1, hd1, _⟩
  have d1' : Clean s s1 tmp.owned [] := d1
  refine (bufCreate_spec (some new) new.length s1 d1.wf).mono ?_
  intro r s2 ⟨c2, h2, hs2, hk2⟩
  have hh2 := c2.hits
  refine ⟨by simpa using Clean.step_l [] wf (by simpa using d1') c2, fun hh => h2 (by omega), fun x hx => ⟨hk2 x hx, hs2 x hx⟩⟩

end Wbxml.Model.Alloc
