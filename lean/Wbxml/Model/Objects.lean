/-
  C15 — object life cycle.

  Part 1: the *structural reading* of the regenerated field facts (`Gen.Fields`): which functions are
  setters, the writer set of every field, settings vs derived fields, what create / reinit / reset
  assign.  Everything here is a small executable Bool/List function so that the obligations of
  `Props/C15.lean` are closed by `decide` over the complete (finite) field and function tables of
  the tree under test, and so that the driver can replay them field by field.

  Part 2: the *life-cycle machine*: an object is a store `F → V`; a run is an ARBITRARY function of
  the whole store (settings and derived fields) whose stores to settings are discarded (no
  non-setter function stores to a setting — that is the definition of "setting"); `reinit` applies
  the assignments of the re-initialisation function.  Histories are lists of operations; the
  theorems about them are in `Lemmas/Objects.lean`.

  Core Lean only.
-/
import Wbxml.Gen.Fields
namespace Wbxml.Model.Objects
open Wbxml.Gen.Fields

/-! ## Part 1 — structural facts -/

/-- Pure look-ups in the constant language tables (`wbxml_tables_get_*`); a setter may call them. -/
def isLookup (name : String) : Bool := name.toList.take 17 == "wbxml_tables_get_".toList

def fieldNames (o : Obj) : List String := o.fields.map (·.1)

def findFn (o : Obj) (name : String) : Option Fn := o.fns.find? (fun f => f.name == name)

def storesOf (o : Obj) (name : String) : List Store :=
  match findFn o name with
  | some f => f.stores
  | none => []

def createStores (o : Obj) : List Store := storesOf o o.create

def reinitStores (o : Obj) : List Store :=
  match o.reinit with
  | some r => storesOf o r
  | none => []

/-- A store a setter may make: a plain assignment, through the first parameter, of a parameter, a
    literal or a table look-up of parameters/literals. -/
def storeSetterLike (s : Store) : Bool :=
  s.base == "param0" && s.op == "=" && (s.vkind == "param" || s.vkind == "literal" || s.vkind == "lookup")

/-- `setterN o k f`: `f` is a setter, justified by a call chain of depth ≤ k.
    Public, takes the object first, makes only setter-like stores, never writes the whole object,
    and calls only table look-ups or setters; create / reinit / destroy are never setters. -/
def setterN (o : Obj) : Nat → Fn → Bool
  | 0, _ => false
  | k + 1, f =>
    f.isPublic && f.firstParamIsObj && f.wholeObject.isEmpty
      && f.name != o.create && some f.name != o.reinit && f.name != o.destroy
      && f.stores.all storeSetterLike
      && f.calls.all (fun c => isLookup c ||
          (match findFn o c with
           | some g => setterN o k g
           | none => false))

def isSetter (o : Obj) (f : Fn) : Bool := setterN o o.fns.length f

def setterNames (o : Obj) : List String := (o.fns.filter (fun f => isSetter o f && !f.stores.isEmpty)).map (·.name)

/-- Does `f` store to `field` of an object that existed before the call?  (Stores through a local
    that only ever holds objects allocated in the same function initialise a *new* object.) -/
def fnWrites (f : Fn) (field : String) : Bool :=
  !f.wholeObject.isEmpty || f.stores.any (fun s => s.field == field && s.base != "fresh")

/-- Writer set of a field: every function of the file, other than create, that stores to it. -/
def writers (o : Obj) (field : String) : List String :=
  (o.fns.filter (fun f => f.name != o.create && fnWrites f field)).map (·.name)

/-- Structural definition: a field whose writers are all setters. -/
def settingByWriters (o : Obj) (field : String) : Bool :=
  (o.fns.filter (fun f => f.name != o.create && fnWrites f field)).all (isSetter o)

def settings (o : Obj) : List String := (fieldNames o).filter (settingByWriters o)
def derived (o : Obj) : List String := (fieldNames o).filter (fun f => !settingByWriters o f)

/-- Machine-level classification of an arbitrary name: everything that is not a derived field. -/
def isSetting (o : Obj) (f : String) : Bool := !(derived o).contains f

/-- The value `stores` assign to `field` on every path: all stores to it must be plain and
    unconditional; the last one wins. -/
def assignedValue (stores : List Store) (field : String) : Option String :=
  let ss := stores.filter (fun s => s.field == field)
  match ss.getLast? with
  | none => none
  | some l => if ss.all (fun s => s.op == "=" && !s.cond) then some l.value else none

def initValue (o : Obj) (field : String) : Option String := assignedValue (createStores o) field

/-- Only stores through the first parameter count for the re-initialisation function. -/
def reinitValue (o : Obj) (field : String) : Option String :=
  assignedValue ((reinitStores o).filter (fun s => s.base == "param0")) field

def initOf (o : Obj) (field : String) : String :=
  match initValue o field with
  | some v => v
  | none => "<uninitialised>"

/-- reinit / reset gives `field` the value create gives it. -/
def restores (o : Obj) (field : String) : Bool :=
  match reinitValue o field, initValue o field with
  | some a, some b => a == b
  | _, _ => false

/-- Derived fields the re-initialisation function does not restore. -/
def stickyList (o : Obj) : List String := (derived o).filter (fun f => !restores o f)
def isSticky (o : Obj) (f : String) : Bool := (stickyList o).contains f

def reinitComplete (o : Obj) : Bool := (derived o).all (restores o)

/-- create initialises every field (the object comes from `malloc`). -/
def createComplete (o : Obj) : Bool := (fieldNames o).all (fun f => (initValue o f).isSome)

/-- The re-initialisation function stores to nothing but derived fields. -/
def reinitKeepsSettings (o : Obj) : Bool :=
  (reinitStores o).all (fun s => (derived o).contains s.field)

/-- Fields the destroy function hands to a `*_destroy` call (owned heap objects). -/
def owned (o : Obj) : List String :=
  match findFn o o.destroy with
  | some f => f.destroys
  | none => []

/-- Every owned field that reinit overwrites has its old value destroyed in reinit (directly or through a
    temporary): nothing leaks across runs. -/
def reinitFreesOwned (o : Obj) : Bool :=
  (reinitStores o).all (fun s => !(owned o).contains s.field || s.destroyedFirst)

def hasSetter (o : Obj) (field : String) : Bool :=
  o.fns.any (fun f => isSetter o f && f.stores.any (fun s => s.field == field))

/-- (caller, setter) pairs where a function that is not itself a setter calls a setter on an object
    that existed before the call (calls on a local, freshly created object configure a new object). -/
def setterCallsFromNonSetters (o : Obj) : List (String × String) :=
  o.fns.flatMap (fun f =>
    if isSetter o f then []
    else ((f.objCalls.filter (fun c => c.2 != "fresh" &&
            (match findFn o c.1 with
             | some g => isSetter o g && !g.stores.isEmpty
             | none => false))).map (fun c => (f.name, c.1))).eraseDups)

/-- What the model predicts is left of a set of dirty fields after reinit / reset:
    dirty fields that are not restored, plus fields that reinit itself moves away from the
    creation value.  Struct order. -/
def leftAfterReinit (o : Obj) (dirty : List String) : List String :=
  (fieldNames o).filter (fun f =>
    match o.reinit with
    | none => dirty.contains f
    | some _ =>
      match reinitValue o f with
      | some v => !(initValue o f == some v)
      | none =>
        -- not (unconditionally, plainly) assigned: stays dirty; a conditional/compound store makes it suspicious too
        dirty.contains f || ((reinitStores o).any (fun s => s.field == f)))


/-! ## Part 1b — entry points as transitions: what a call may leave changed

  A *run* is a sequence of calls of public entry points between two resets (set_tree +
  encode_tree_to_wbxml; encode_tree + get_output; encode_node … delete_last_node … get_output).
  What such a call may leave changed in the object is read off the tables: the stores of every
  function reachable from the entry point along calls that pass the object on (`objCalls` whose
  first argument is not a freshly created object) — minus the fields the entry point itself puts
  back on every path (`Fn.brackets`: a save / restore bracket such as `wbxml_encoder_encode_tree`
  makes around `lang`). -/

/-- Functions of the file that `name` calls on an object that existed before the call. -/
def calleesOnObj (o : Obj) (name : String) : List String :=
  match findFn o name with
  | some f => ((f.objCalls.filter (fun c => c.2 != "fresh")).map (·.1)).filter (fun c => (findFn o c).isSome)
  | none => []

/-- Everything reachable from `acc` in at most `k` rounds. -/
def reachN (o : Obj) : Nat → List String → List String
  | 0, acc => acc
  | k + 1, acc =>
    let next := ((acc.flatMap (calleesOnObj o)).filter (fun c => !acc.contains c)).eraseDups
    if next.isEmpty then acc else reachN o k (acc ++ next)

/-- Functions reachable from the given roots along calls that pass the object on (the call graph of
    the file has `o.fns.length` nodes, so that many rounds close it). -/
def reach (o : Obj) (roots : List String) : List String := reachN o o.fns.length roots

/-- The fields `name` itself stores to, of an object that existed before the call. -/
def ownWritten (o : Obj) (name : String) : List String :=
  match findFn o name with
  | some f => if !f.wholeObject.isEmpty then fieldNames o else (f.stores.filter (fun s => s.base != "fresh")).map (·.field)
  | none => []

/-- Does `name` itself store to `field` of an existing object? -/
def ownWrites (o : Obj) (name field : String) : Bool := (ownWritten o name).contains field

/-- The fields some function reachable from `roots` stores to (with repetitions). -/
def writtenFields (o : Obj) (roots : List String) : List String := (reach o roots).flatMap (ownWritten o)

/-- `name` puts the entry value of `field` back on every path to a return: it saves the field before
    it stores to it or passes the object on, and on every path the last thing it does to the object is
    the store of the saved value (`Fn.brackets`: the translator's walk over the structured body — a
    restore in each branch of an early return counts, an early return without it does not). -/
def restoresSaved (o : Obj) (name field : String) : Bool :=
  match findFn o name with
  | some f => f.brackets.contains field
  | none => false

/-- The fields a call of entry point `e` may leave different from what it found: what `e` or anything
    reachable from it stores to — except the fields `e` brackets (whatever its callees do to them in
    between, `e` puts the saved entry value back on every path). -/
def netWritten (o : Obj) (e : String) : List String :=
  (ownWritten o e ++ writtenFields o (calleesOnObj o e)).filter
    (fun f => !(ownWrites o e f && restoresSaved o e f))

/-- The fields a run made of calls of the entry points `k` may leave changed (with repetitions). -/
def runWritten (o : Obj) (k : List String) : List String := k.flatMap (netWritten o)

/-- A run made of calls of the entry points `k` leaves `field` as it found it. -/
def keepsNet (o : Obj) (k : List String) (field : String) : Bool := !(runWritten o k).contains field

/-- Fields a run of kind `k` may leave changed (struct order): the model's prediction for OBS `dirty`. -/
def netFields (o : Obj) (k : List String) : List String := (fieldNames o).filter (fun f => !keepsNet o k f)

/-- None of the fields `l` may be left changed by a run of kind `k` (one pass over what the run writes). -/
def keepsAll (o : Obj) (k : List String) (l : List String) : Bool := (runWritten o k).all (fun f => !l.contains f)

/-- Must the user call the setters of the sticky fields again after a run of kind `k` (and reset)?
    Only if such a run may leave one of them changed. -/
def reapplyAfter (o : Obj) (k : List String) : Bool := (stickyList o).any (fun f => !keepsNet o k f)

/-- The re-initialisation function does not store to a sticky field at all. -/
def reinitLeavesSticky (o : Obj) : Bool := (reinitStores o).all (fun s => !(stickyList o).contains s.field)

/-- The encoder's run kinds, as lists of the public entry points called between two resets. -/
def encTreeRunW : List String := ["wbxml_encoder_set_tree", "wbxml_encoder_encode_tree_to_wbxml"]
def encTreeRunX : List String := ["wbxml_encoder_set_tree", "wbxml_encoder_encode_tree_to_xml"]
def encFlowRun : List String := ["wbxml_encoder_encode_tree", "wbxml_encoder_get_output", "wbxml_encoder_get_output_len"]
def encNodeRun : List String :=
  ["wbxml_encoder_encode_node", "wbxml_encoder_encode_node_with_elt_end", "wbxml_encoder_encode_raw_elt_start",
   "wbxml_encoder_encode_raw_elt_end", "wbxml_encoder_delete_last_node", "wbxml_encoder_delete_output_bytes",
   "wbxml_encoder_get_output", "wbxml_encoder_get_output_len"]

/-! ## Part 2 — the life-cycle machine -/

/-- An object class. `body` is the per-document function: ARBITRARY, it sees every field. -/
structure Machine (F V D R : Type) where
  setting : F → Bool
  sticky : F → Bool
  init : F → V
  reinitAssign : F → Option V
  body : (F → V) → D → (F → V) × R

variable {F V D R : Type} [DecidableEq F]

def upd (m : F → V) (f : F) (v : V) : F → V := fun g => if g = f then v else m g

namespace Machine
variable (M : Machine F V D R)

/-- What the re-initialisation function does to a store. -/
def reinit (m : F → V) : F → V := fun f =>
  match M.reinitAssign f with
  | some v => v
  | none => m f

/-- One run: the arbitrary body, with its stores to settings discarded. -/
def run (m : F → V) (d : D) : (F → V) × R :=
  let p := M.body m d
  (fun f => if M.setting f then m f else p.1 f, p.2)

/-- Fields whose value is the user's: settings, and (where they exist) the settable fields that the
    run also derives and reset does not restore. -/
def user (f : F) : Bool := M.setting f || M.sticky f

/-- A newly created object on which the user has made the settings `s`. -/
def created (s : F → V) : F → V := fun f => if M.user f then s f else M.init f

/-- The user calls a setter. -/
def setUser (s : F → V) (f : F) (v : V) : F → V := if M.user f then upd s f v else s

/-- The user calls the setters of all sticky fields again. -/
def reapply (s m : F → V) : F → V := fun f => if M.sticky f then s f else m f

/-- The reset function does what the property needs. -/
structure Sound : Prop where
  keeps : ∀ f, M.setting f = true → M.reinitAssign f = none
  restores : ∀ f, M.setting f = false → M.sticky f = false → M.reinitAssign f = some (M.init f)
  sticky_derived : ∀ f, M.sticky f = true → M.setting f = false

/-- Parser / converter style: re-initialisation happens inside every run. -/
inductive POp (F V D : Type) where
  | set (f : F) (v : V)
  | doc (d : D)

def pstep (m : F → V) : POp F V D → (F → V) × Option R
  | .set f v => (M.setUser m f v, none)
  | .doc d => let p := M.run (M.reinit m) d; (p.1, some p.2)

/-- Run a history on ONE object: final store and the results of the documents, in order. -/
def pexec (m : F → V) : List (POp F V D) → (F → V) × List R
  | [] => (m, [])
  | op :: rest =>
    let p := M.pstep m op
    let q := pexec p.1 rest
    (q.1, match p.2 with
          | some r => r :: q.2
          | none => q.2)

/-- The reference: every document on a FRESH object with the settings current at that point. -/
def pfresh (s : F → V) : List (POp F V D) → List R
  | [] => []
  | .set f v :: rest => pfresh (M.setUser s f v) rest
  | .doc d :: rest => (M.run (M.reinit (M.created s)) d).2 :: pfresh s rest

/-- The user's settings after a history (documents do not matter). -/
def userAfter (s : F → V) : List (POp F V D) → (F → V)
  | [] => s
  | .set f v :: rest => userAfter (M.setUser s f v) rest
  | .doc _ :: rest => userAfter s rest

/-- Encoder style: explicit reset between runs. -/
inductive EOp (F V D : Type) where
  | set (f : F) (v : V)
  | enc (d : D)

/-- ONE object: run, reset, and the user re-applies the sticky settings. -/
def eexec (m s : F → V) : List (EOp F V D) → (F → V) × List R
  | [] => (m, [])
  | .set f v :: rest => eexec (M.setUser m f v) (M.setUser s f v) rest
  | .enc d :: rest =>
    let p := M.run m d
    let q := eexec (M.reapply s (M.reinit p.1)) s rest
    (q.1, p.2 :: q.2)

/-- ONE object: run, reset — nothing re-applied. -/
def eexecPlain (m : F → V) : List (EOp F V D) → (F → V) × List R
  | [] => (m, [])
  | .set f v :: rest => eexecPlain (M.setUser m f v) rest
  | .enc d :: rest =>
    let p := M.run m d
    let q := eexecPlain (M.reinit p.1) rest
    (q.1, p.2 :: q.2)

def efresh (s : F → V) : List (EOp F V D) → List R
  | [] => []
  | .set f v :: rest => efresh (M.setUser s f v) rest
  | .enc d :: rest => (M.run (M.created s) d).2 :: efresh s rest

end Machine

/-- The machine of an object class of the tree under test, for an arbitrary per-document body. -/
def machineOf (o : Obj) (body : (String → String) → D → (String → String) × R) : Machine String String D R :=
  { setting := isSetting o
    sticky := isSticky o
    init := initOf o
    reinitAssign := reinitValue o
    body := body }


/-! ### Histories that mix run kinds (encoder: tree runs, flow-style runs, node-wise runs)

  The machine's documents are pairs (run kind, document): `M : Machine F V (K × D) R`.  `keeps k f`
  says that a run of kind `k` leaves field `f` as it found it (read off the tables: nothing the
  entry points of `k` reach stores to `f`, or the entry point puts the saved entry value back).
  The body is still ARBITRARY — it may fail at any point and leave anything in the other fields. -/

/-- One run of kind `k`: the arbitrary body; its stores to settings and to the fields that runs of
    this kind leave alone are discarded. -/
def Machine.runK {K : Type} (M : Machine F V (K × D) R) (keeps : K → F → Bool) (m : F → V) (k : K) (d : D) :
    (F → V) × R :=
  let p := M.run m (k, d)
  (fun f => if keeps k f then m f else p.1 f, p.2)

inductive Machine.KOp (F V D K : Type) where
  | set (f : F) (v : V)
  | run (k : K) (d : D)

/-- ONE object: run, reset, and — only after the run kinds `re` names — the user calls the setters
    of the sticky fields again. -/
def Machine.kexec {K : Type} (M : Machine F V (K × D) R) (keeps : K → F → Bool) (re : K → Bool)
    (m s : F → V) : List (Machine.KOp F V D K) → (F → V) × List R
  | [] => (m, [])
  | .set f v :: rest => Machine.kexec M keeps re (M.setUser m f v) (M.setUser s f v) rest
  | .run k d :: rest =>
    let p := M.runK keeps m k d
    let m1 := M.reinit p.1
    let q := Machine.kexec M keeps re (if re k then M.reapply s m1 else m1) s rest
    (q.1, p.2 :: q.2)

/-- ONE object: run, reset — nothing is ever re-applied. -/
def Machine.kexecPlain {K : Type} (M : Machine F V (K × D) R) (keeps : K → F → Bool)
    (m : F → V) : List (Machine.KOp F V D K) → (F → V) × List R
  | [] => (m, [])
  | .set f v :: rest => Machine.kexecPlain M keeps (M.setUser m f v) rest
  | .run k d :: rest =>
    let p := M.runK keeps m k d
    let q := Machine.kexecPlain M keeps (M.reinit p.1) rest
    (q.1, p.2 :: q.2)

/-- The reference: every run on a NEW object with the settings current at that point. -/
def Machine.kfresh {K : Type} (M : Machine F V (K × D) R) (keeps : K → F → Bool)
    (s : F → V) : List (Machine.KOp F V D K) → List R
  | [] => []
  | .set f v :: rest => Machine.kfresh M keeps (M.setUser s f v) rest
  | .run k d :: rest => (M.runK keeps (M.created s) k d).2 :: Machine.kfresh M keeps s rest

/-- The run kinds that occur in a history. -/
def Machine.kindsOf {K : Type} : List (Machine.KOp F V D K) → List K
  | [] => []
  | .set _ _ :: rest => Machine.kindsOf rest
  | .run k _ :: rest => k :: Machine.kindsOf rest

/-- The machine of an object class whose runs are lists of entry points, for an arbitrary body per
    (entry points, document). -/
def machineOfK (o : Obj) (body : List String → (String → String) → D → (String → String) × R) :
    Machine String String (List String × D) R :=
  machineOf o (fun m kd => body kd.1 m kd.2)

end Wbxml.Model.Objects
