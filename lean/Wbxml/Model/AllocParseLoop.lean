/-
  C16 — the main loop of the WBXML parser on the ledger: `wbxml_parser_parse` (document buffer,
  `parse_strtbl`, `check_public_id`, `parse_body`), `parse_pi`, `parse_element` WITH content and its
  recursion through `parse_content`, the per-item buffers (`parse_string`, `parse_entity`,
  `parse_opaque` with the base64 typed decoding, `parse_extension` for the WML variables), and the
  glue of `wbxml_tree_from_wbxml` (parser create / parse / tree destroy on error / parser destroy).
  The content handler is the tree builder of `Model/AllocTree.lean`, so the call-backs allocate on the
  same ledger, in the order the C code interleaves them with the parser's own requests.

  As in `Model/AllocParse.lean`, what a function *decides from the bytes* is the input: a document
  is given by the outcome of its header fields, the shape of its string table and public id, the
  processing instructions before the root, the root's start tag and the flat list of body items
  that follows it (element starts with their attributes and content flag, END, strings, entities,
  opaque data, extensions, PIs, malformed items).  The recursion of `parse_element` →
  `parse_content` → `parse_element` is kept as the explicit stack of the open elements' tags (the
  `element` locals of the C frames, innermost first): an error return unwinds it, each frame
  destroying its tag (`wbxml_tag_destroy(element); return ret;`).

  Outside the model: an embedded document (`WBXML_SYNCML_DATA_TYPE_WBXML`, a nested
  `wbxml_tree_from_wbxml` inside `characters`), the Wireless-Village typed decoders and extension
  values, the SI/EMN date-time attribute branch, charsets other than US-ASCII / UTF-8 (no `iconv`
  in this build: they are errors decided from the bytes).
-/
import Wbxml.Model.AllocParse
import Wbxml.Model.AllocTree
namespace Wbxml.Model.Alloc
open Wbxml

/-- `WBXML_PARSER_MALLOC_BLOCK`, `WBXML_PARSER_STRING_TABLE_MALLOC_BLOCK`. -/
def PARSER_BLOCK : Nat := 5000
def STRTBL_BLOCK : Nat := 200

def EB64ENC : Nat := 18            -- WBXML_ERROR_B64_ENC
def EEMPTY : Nat := 44             -- WBXML_ERROR_EMPTY_WBXML
def EEOB : Nat := 45               -- WBXML_ERROR_END_OF_BUFFER
def EPUBID : Nat := 64             -- WBXML_ERROR_UNKNOWN_PUBLIC_ID

/-- `WBXMLParser *`: the struct, `parser->wbxml`, `parser->strstbl`. -/
structure APars where
  hdr : Nat
  wbxml : Option ABuf
  strtbl : Option ABuf
  deriving Repr, Inhabited

def APars.owned (p : APars) : List Nat := p.hdr :: (ownedBufOpt p.wbxml ++ ownedBufOpt p.strtbl)

/-- What a content item that yields character data turns out to be. -/
inductive Content where
  /-- `parse_string` (inline string / string-table reference: `.sta`), `parse_entity` and
      `parse_opaque` without typed decoding (`.dyn`), or a malformed item (`.err`) -/
  | ref (p : Piece)
  /-- `parse_extension`, WML variable `$(var:suffix)`: `var` is the inline string or the
      string-table reference -/
  | ext (var : Piece) (suffix : Bytes)
  /-- `parse_opaque` followed by `decode_base64_value` (SyncML `NextNonce`, DRMREL `KeyValue`);
      `encoded` = the base64 text of `bytes` -/
  | opqB64 (bytes encoded : Bytes)
  deriving Repr, DecidableEq, Inhabited

/-- One item of the body after the root's start tag, as `parse_content` classifies it. -/
inductive Item where
  | elem (t : TagShape) (attrs : List AttrShape) (hasContent : Bool)
  | stop                                         -- END
  | content (c : Content) (cdataType : Bool)     -- `cdataType`: see `clbCharacters`
  | pi (a : AttrShape)
  | skip                                         -- switchPage, reserved extension token: OK, no content
  | err (code : Nat)
  deriving Repr, Inhabited

inductive StrtblShape where
  | none                       -- length 0
  | err (code : Nat)           -- bad length
  | tbl (bytes : Bytes)
  deriving Repr, DecidableEq, Inhabited

inductive PubidShape where
  | known                      -- token (or forced language) found in the tables
  | unknown
  /-- textual public id: the string-table reference and whether the tables know the text -/
  | strRef (p : Piece) (found : Bool)
  deriving Repr, DecidableEq, Inhabited

inductive RootShape where
  | elem (t : TagShape) (attrs : List AttrShape) (hasContent : Bool)
  | err (code : Nat)
  deriving Repr, Inhabited

structure Doc where
  wbxml : Bytes
  /-- `OK`, or the error of the version / public id / charset fields (nothing is allocated for them) -/
  hdrErr : Nat
  strtbl : StrtblShape
  pubid : PubidShape
  pre : List AttrShape         -- processing instructions before the root
  root : RootShape
  body : List Item
  deriving Repr, Inhabited

/-! ### Per-item buffers -/

/-- `parse_extension` for the WML / WTA variables: (code, result). -/
def parseExtWml (var : Piece) (suffix : Bytes) : Prog (Nat × Option ABuf) := do
  let (ret, v) ← parseAttrValue var            -- parse_termstr / get_strtbl_reference
  match v with
  | none => pure (ret, none)                   -- the error exits (a result comes with WBXML_OK only)
  | some v => do
    let ext ← malloc
    match ext with
    | none => do bufDestroy (some v); pure (ENOMEM, none)
    | some x => do
      deref (some x); deref (some v.hdr)       -- memcpy(ext + len, wbxml_buffer_get_cstr(var_value), …)
      bufDestroy (some v)
      let text := b!"$(" ++ v.bytes ++ suffix ++ b!")"
      let r ← bufCreate (some text) text.length
      free (some x)
      match r with
      | none => pure (ENOMEM, none)
      | some r => pure (OK, some r)

/-- `wbxml_base64_encode(buffer, len)`: NULL for an empty input, without a request. -/
def b64Encode (len : Nat) : Prog Ptr := if len = 0 then pure none else malloc

/-- `parse_opaque` + `decode_opaque_content` → `decode_base64_value`: (code, result); the opaque
    buffer is destroyed when the decoding fails. -/
def parseOpaqueB64 (bytes encoded : Bytes) : Prog (Nat × Option ABuf) := do
  let b ← bufCreate (some bytes) bytes.length
  match b with
  | none => pure (ENOMEM, none)
  | some b => do
    deref (some b.hdr)
    let r ← b64Encode b.len
    match r with
    | none => do bufDestroy (some b); pure (EB64ENC, none)
    | some r => do
      -- wbxml_buffer_delete(*data, 0, len): inside the block
      let (b, ok) ← bufAppendData { b with bytes := [] } (some encoded)
      free (some r)
      if !ok then do bufDestroy (some b); pure (ENOMEM, none)
      else pure (OK, some b)

/-- The content items of `parse_content` that yield a buffer: (code, `*result`). -/
def parseContent : Content → Prog (Nat × Option ABuf)
  | .ref p => parseAttrValue p
  | .ext var suffix => parseExtWml var suffix
  | .opqB64 bytes encoded => parseOpaqueB64 bytes encoded

/-- The `characters` call-back of `parse_element`: only for a non-empty content. -/
def deliverChars (c : TCtx) (content : Option ABuf) (cd : Bool) : Prog TCtx :=
  match content with
  | none => pure c
  | some b => do
    deref (some b.hdr)
    if b.len = 0 then pure c else clbCharacters c b.bytes cd

/-! ### `parse_pi` -/

/-- `parse_pi`: like `parse_attribute` up to the terminator, then the (empty) call-back and the
    release of name and value. -/
def parsePi (a : AttrShape) : Prog Nat := do
  let (ret, name, start) ← parseAttrStart a.start
  if ret != OK then pure ret
  else do
    let value ← bufCreate start ATTR_BLOCK
    match value with
    | none => do
      nameDestroy name
      pure ENOMEM
    | some value => do
      let (ret, value) ← attrValueLoop name value a.pieces
      match value with
      | none => pure ret
      | some value => do
        let (value, ok) ← (if value.len > 0 then bufAppendChar value 0 else pure (value, true))
        if !ok then do
          nameDestroy name
          bufDestroy (some value)
          pure ENOMEM
        else do
          deref (name.map (·.hdr)); deref (some value.hdr)    -- pi_clb(get_xml_name(attr_name), get_cstr(attr_value))
          nameDestroy name
          bufDestroy (some value)
          pure OK

/-- `while (is_token(parser, WBXML_PI)) parse_pi(parser)` before the root. -/
def parsePis : List AttrShape → Prog Nat
  | [] => pure OK
  | a :: rest => do
    let ret ← parsePi a
    if ret != OK then pure ret else parsePis rest

/-! ### `parse_element` -/

/-- The start of `parse_element`: tag, attribute table, `start_element` call-back, release of the
    table.  (code, `element`, context); `element` is NULL exactly on the error exits, where
    everything allocated here has been released. -/
def startElement (c : TCtx) (t : TagShape) (attrs : List AttrShape) : Prog (Nat × Option AName × TCtx) := do
  let (ret, element) ← parseStag t
  if ret != OK then pure (ret, none, c)
  else do
    deref (element.map (·.hdr))
    let (ret, tbl, entries) ← attrTableLoop element none [] attrs
    if ret != OK then pure (ret, none, c)
    else match element with
      | none => ub "parse_stag returned OK without a tag"
      | some e => do
        let c ← clbStartElement c e entries
        freeAttrsTable tbl entries
        pure (OK, some e, c)

/-- The end of `parse_element`: `end_element` call-back, `wbxml_tag_destroy(element)`. -/
def closeElement (c : TCtx) (e : AName) : Prog TCtx := do
  let c ← clbEndElement c
  nameDestroy (some e)
  pure c

/-- An error return through the open `parse_element` frames: each destroys its tag. -/
def unwind (st : List AName) : Prog Unit := forM_ st (fun e => nameDestroy (some e))

/-- The reads of `parser->wbxml` at the head of every loop iteration (`is_token`). -/
def touch (p : APars) : Prog Unit := do
  deref (some p.hdr)
  deref (p.wbxml.map (·.hdr))

/-- `while (is_token(parser, WBXML_PI)) parse_pi(parser)` after the root: stops at anything else. -/
def trailingPis (c : TCtx) : List Item → Prog (Nat × TCtx)
  | .pi a :: rest => do
    let ret ← parsePi a
    if ret != OK then pure (ret, c) else trailingPis c rest
  | _ => pure (OK, c)

/-- The content loops of the open elements (`st`, innermost first) over the rest of the body.
    (code, context); on every return all tags of `st` have been destroyed. -/
def parseLoop (p : APars) : List AName → TCtx → List Item → Prog (Nat × TCtx)
  | [], c, items => trailingPis c items
  | e :: st, c, [] => do
    touch p
    unwind (e :: st)                               -- parse_content: WBXML_ERROR_END_OF_BUFFER
    pure (EEOB, c)
  | e :: st, c, it :: rest => do
    touch p
    match it with
    | .stop => do
      let c ← closeElement c e
      parseLoop p st c rest
    | .elem t attrs hasContent => do
      let (ret, elt, c) ← startElement c t attrs
      match elt with
      | none => do unwind (e :: st); pure (ret, c)
      | some x =>
        if hasContent then parseLoop p (x :: e :: st) c rest
        else do
          let c ← closeElement c x
          parseLoop p (e :: st) c rest
    | .content ci cd => do
      let (ret, content) ← parseContent ci
      if ret != OK then do unwind (e :: st); pure (ret, c)
      else do
        let c ← deliverChars c content cd
        bufDestroy content
        parseLoop p (e :: st) c rest
    | .pi a => do
      let ret ← parsePi a
      if ret != OK then do unwind (e :: st); pure (ret, c)
      else parseLoop p (e :: st) c rest
    | .skip => parseLoop p (e :: st) c rest
    | .err code => do unwind (e :: st); pure (code, c)

/-- `parse_body`: `*pi element *pi`. -/
def parseBody (p : APars) (c : TCtx) (d : Doc) : Prog (Nat × TCtx) := do
  let ret ← parsePis d.pre
  if ret != OK then pure (ret, c)
  else match d.root with
    | .err code => pure (code, c)
    | .elem t attrs hasContent => do
      touch p
      let (ret, elt, c) ← startElement c t attrs
      match elt with
      | none => pure (ret, c)
      | some x =>
        if hasContent then parseLoop p [x] c d.body
        else do
          let c ← closeElement c x
          parseLoop p [] c d.body

/-! ### `wbxml_parser_parse` -/

/-- The four terminating NUL bytes `parse_strtbl` appends to a table that lacks one. -/
def appendNuls : Nat → ABuf → Prog (Nat × ABuf)
  | 0, t => pure (OK, t)
  | n + 1, t => do
    let (t, ok) ← bufAppendChar t 0
    if !ok then pure (ENOMEM, t) else appendNuls n t

/-- `parse_strtbl`: (code, `parser->strstbl`) — the buffer stays the parser's on an error. -/
def parseStrtbl : StrtblShape → Prog (Nat × Option ABuf)
  | .none => pure (OK, none)
  | .err c => pure (c, none)
  | .tbl bytes =>
    if bytes.isEmpty then pure (OK, none)
    else do
      let t ← bufCreate (some bytes) STRTBL_BLOCK
      match t with
      | none => pure (ENOMEM, none)
      | some t => do
        deref (some t.hdr)                           -- wbxml_buffer_get_char(strstbl, len - 1, &end_char)
        if bytes.getLast? == some 0 then pure (OK, some t)
        else do
          let (ret, t) ← appendNuls 4 t
          pure (ret, some t)

/-- `check_public_id`: a failed read of a textual public id is "not found". -/
def checkPublicId : PubidShape → Prog Bool
  | .known => pure true
  | .unknown => pure false
  | .strRef p found => do
    let (_, b) ← parseAttrValue p                    -- get_strtbl_reference
    match b with
    | none => pure false                             -- its error exits (a result comes with WBXML_OK only)
    | some x => do
      deref (some x.hdr)                             -- WBXML_STRCASECMP(…, wbxml_buffer_get_cstr(public_id))
      bufDestroy (some x)
      pure found

/-- `wbxml_tree_clb_wbxml_start_document`: `tree->lang`, `tree->orig_charset`. -/
def clbStartDocument (c : TCtx) : Prog TCtx :=
  if c.error != OK then pure c
  else do
    deref (some c.tree)
    pure c

/-- `wbxml_parser_parse(parser, wbxml, wbxml_len)` on the fresh parser `hdr` of
    `wbxml_tree_from_wbxml` (`wbxml_parser_reinit` finds no buffers to destroy):
    (code, parser, context). -/
def parserParse (hdr : Nat) (c : TCtx) (d : Doc) : Prog (Nat × APars × TCtx) := do
  deref (some hdr)
  if d.wbxml.isEmpty then pure (EEMPTY, ⟨hdr, none, none⟩, c)
  else do
    let w ← bufCreate (some d.wbxml) PARSER_BLOCK
    match w with
    | none => pure (ENOMEM, ⟨hdr, none, none⟩, c)
    | some w =>
      if d.hdrErr != OK then pure (d.hdrErr, ⟨hdr, some w, none⟩, c)
      else do
        let (ret, t) ← parseStrtbl d.strtbl
        let p : APars := ⟨hdr, some w, t⟩
        if ret != OK then pure (ret, p, c)
        else do
          let found ← checkPublicId d.pubid
          if !found then pure (EPUBID, p, c)
          else do
            let c ← clbStartDocument c
            let (ret, c) ← parseBody p c d
            pure (ret, p, c)

/-- `wbxml_parser_destroy(parser)`. -/
def parserDestroy (p : APars) : Prog Unit := do
  deref (some p.hdr)
  bufDestroy p.wbxml
  bufDestroy p.strtbl
  free (some p.hdr)

/-- `wbxml_tree_from_wbxml(wbxml, wbxml_len, lang, charset, &tree)`: (code, `*tree`). -/
def treeFromWbxml (d : Doc) : Prog (Nat × Option TCtx) := do
  let h ← malloc                                     -- wbxml_parser_create
  match h with
  | none => pure (ENOMEM, none)
  | some h => do
    let c ← treeCreate
    match c with
    | none => do
      parserDestroy ⟨h, none, none⟩
      pure (ENOMEM, none)
    | some c => do
      let (ret, p, c) ← parserParse h c d
      if ret != OK || c.error != OK then do
        treeDestroy c
        parserDestroy p
        pure ((if ret != OK then ret else c.error), none)
      else do
        parserDestroy p
        pure (OK, some c)

end Wbxml.Model.Alloc
