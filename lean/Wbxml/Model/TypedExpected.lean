/- PINNED (committed once): the elements and attributes libwbxml 0.11.10 (with the fixes recorded in known_findings.json)
   singles out for typed handling, with their intended names and kinds. Props/C08 compares the regenerated Gen.Typed with it. -/
import Wbxml.Prim.Basic
namespace Wbxml.Model.TypedExpected

/-- kinds: 0 raw, 1 integer, 2 WV date-time, 3 base64-carried binary, 4 %Datetime attribute -/
structure TypedRow where
  isAttr : Bool
  lang : Nat
  page : Nat
  token : Nat
  name : Bytes
  dec : Nat
  enc : Nat
  deriving Repr, DecidableEq

def rows : List TypedRow := [
  ⟨true, 1301, 0, 10, [99,114,101,97,116,101,100], 4, 4⟩ /- created dec=datetime enc=datetime -/,
  ⟨true, 1301, 0, 16, [115,105,45,101,120,112,105,114,101,115], 4, 4⟩ /- si-expires dec=datetime enc=datetime -/,
  ⟨true, 1701, 0, 5, [116,105,109,101,115,116,97,109,112], 4, 4⟩ /- timestamp dec=datetime enc=datetime -/,
  ⟨false, 1801, 0, 12, [100,115,58,75,101,121,86,97,108,117,101], 3, 3⟩ /- ds:KeyValue dec=b64 enc=b64 -/,
  ⟨false, 2001, 1, 16, [78,101,120,116,78,111,110,99,101], 3, 0⟩ /- NextNonce dec=b64 enc=raw -/,
  ⟨false, 2101, 1, 16, [78,101,120,116,78,111,110,99,101], 3, 0⟩ /- NextNonce dec=b64 enc=raw -/,
  ⟨false, 2201, 1, 16, [78,101,120,116,78,111,110,99,101], 3, 0⟩ /- NextNonce dec=b64 enc=raw -/,
  ⟨false, 2301, 0, 11, [67,111,100,101], 1, 1⟩ /- Code dec=int enc=int -/,
  ⟨false, 2301, 0, 15, [67,111,110,116,101,110,116,83,105,122,101], 1, 1⟩ /- ContentSize dec=int enc=int -/,
  ⟨false, 2301, 0, 17, [68,97,116,101,84,105,109,101], 2, 2⟩ /- DateTime dec=date enc=date -/,
  ⟨false, 2301, 0, 26, [77,101,115,115,97,103,101,67,111,117,110,116], 1, 1⟩ /- MessageCount dec=int enc=int -/,
  ⟨false, 2301, 0, 60, [86,97,108,105,100,105,116,121], 1, 1⟩ /- Validity dec=int enc=int -/,
  ⟨false, 2301, 1, 28, [75,101,101,112,65,108,105,118,101,84,105,109,101], 1, 1⟩ /- KeepAliveTime dec=int enc=int -/,
  ⟨false, 2301, 1, 37, [83,101,97,114,99,104,70,105,110,100,105,110,103,115], 1, 1⟩ /- SearchFindings dec=int enc=int -/,
  ⟨false, 2301, 1, 38, [83,101,97,114,99,104,73,68], 1, 1⟩ /- SearchID dec=int enc=int -/,
  ⟨false, 2301, 1, 39, [83,101,97,114,99,104,73,110,100,101,120], 1, 1⟩ /- SearchIndex dec=int enc=int -/,
  ⟨false, 2301, 1, 40, [83,101,97,114,99,104,76,105,109,105,116], 1, 1⟩ /- SearchLimit dec=int enc=int -/,
  ⟨false, 2301, 1, 50, [84,105,109,101,84,111,76,105,118,101], 1, 1⟩ /- TimeToLive dec=int enc=int -/,
  ⟨false, 2301, 3, 5, [65,99,99,101,112,116,101,100,67,104,97,114,115,101,116], 1, 1⟩ /- AcceptedCharset dec=int enc=int -/,
  ⟨false, 2301, 3, 6, [65,99,99,101,112,116,101,100,67,111,110,116,101,110,116,76,101,110,103,116,104], 1, 1⟩ /- AcceptedContentLength dec=int enc=int -/,
  ⟨false, 2301, 3, 12, [77,117,108,116,105,84,114,97,110,115], 1, 1⟩ /- MultiTrans dec=int enc=int -/,
  ⟨false, 2301, 3, 13, [80,97,114,115,101,114,83,105,122,101], 1, 1⟩ /- ParserSize dec=int enc=int -/,
  ⟨false, 2301, 3, 14, [83,101,114,118,101,114,80,111,108,108,77,105,110], 1, 1⟩ /- ServerPollMin dec=int enc=int -/,
  ⟨false, 2301, 3, 18, [84,67,80,80,111,114,116], 1, 1⟩ /- TCPPort dec=int enc=int -/,
  ⟨false, 2301, 3, 19, [85,68,80,80,111,114,116], 1, 1⟩ /- UDPPort dec=int enc=int -/,
  ⟨false, 2301, 5, 5, [65,99,99,117,114,97,99,121], 1, 0⟩ /- Accuracy dec=int enc=raw -/,
  ⟨false, 2301, 5, 9, [65,108,116,105,116,117,100,101], 1, 0⟩ /- Altitude dec=int enc=raw -/,
  ⟨false, 2301, 5, 50, [67,112,114,105,111,114,105,116,121], 1, 0⟩ /- Cpriority dec=int enc=raw -/,
  ⟨false, 2301, 6, 26, [68,101,108,105,118,101,114,121,84,105,109,101], 2, 2⟩ /- DeliveryTime dec=date enc=date -/,
  ⟨false, 2301, 9, 8, [72,105,115,116,111,114,121,80,101,114,105,111,100], 1, 1⟩ /- HistoryPeriod dec=int enc=int -/,
  ⟨false, 2301, 9, 10, [77,97,120,87,97,116,99,104,101,114,76,105,115,116], 1, 1⟩ /- MaxWatcherList dec=int enc=int -/,
  ⟨false, 2302, 0, 11, [67,111,100,101], 1, 1⟩ /- Code dec=int enc=int -/,
  ⟨false, 2302, 0, 15, [67,111,110,116,101,110,116,83,105,122,101], 1, 1⟩ /- ContentSize dec=int enc=int -/,
  ⟨false, 2302, 0, 17, [68,97,116,101,84,105,109,101], 2, 2⟩ /- DateTime dec=date enc=date -/,
  ⟨false, 2302, 0, 26, [77,101,115,115,97,103,101,67,111,117,110,116], 1, 1⟩ /- MessageCount dec=int enc=int -/,
  ⟨false, 2302, 0, 60, [86,97,108,105,100,105,116,121], 1, 1⟩ /- Validity dec=int enc=int -/,
  ⟨false, 2302, 1, 28, [75,101,101,112,65,108,105,118,101,84,105,109,101], 1, 1⟩ /- KeepAliveTime dec=int enc=int -/,
  ⟨false, 2302, 1, 37, [83,101,97,114,99,104,70,105,110,100,105,110,103,115], 1, 1⟩ /- SearchFindings dec=int enc=int -/,
  ⟨false, 2302, 1, 38, [83,101,97,114,99,104,73,68], 1, 1⟩ /- SearchID dec=int enc=int -/,
  ⟨false, 2302, 1, 39, [83,101,97,114,99,104,73,110,100,101,120], 1, 1⟩ /- SearchIndex dec=int enc=int -/,
  ⟨false, 2302, 1, 40, [83,101,97,114,99,104,76,105,109,105,116], 1, 1⟩ /- SearchLimit dec=int enc=int -/,
  ⟨false, 2302, 1, 50, [84,105,109,101,84,111,76,105,118,101], 1, 1⟩ /- TimeToLive dec=int enc=int -/,
  ⟨false, 2302, 3, 5, [65,99,99,101,112,116,101,100,67,104,97,114,115,101,116], 1, 1⟩ /- AcceptedCharset dec=int enc=int -/,
  ⟨false, 2302, 3, 6, [65,99,99,101,112,116,101,100,67,111,110,116,101,110,116,76,101,110,103,116,104], 1, 1⟩ /- AcceptedContentLength dec=int enc=int -/,
  ⟨false, 2302, 3, 12, [77,117,108,116,105,84,114,97,110,115], 1, 1⟩ /- MultiTrans dec=int enc=int -/,
  ⟨false, 2302, 3, 13, [80,97,114,115,101,114,83,105,122,101], 1, 1⟩ /- ParserSize dec=int enc=int -/,
  ⟨false, 2302, 3, 14, [83,101,114,118,101,114,80,111,108,108,77,105,110], 1, 1⟩ /- ServerPollMin dec=int enc=int -/,
  ⟨false, 2302, 3, 18, [84,67,80,80,111,114,116], 1, 1⟩ /- TCPPort dec=int enc=int -/,
  ⟨false, 2302, 3, 19, [85,68,80,80,111,114,116], 1, 1⟩ /- UDPPort dec=int enc=int -/,
  ⟨false, 2302, 5, 5, [65,99,99,117,114,97,99,121], 1, 0⟩ /- Accuracy dec=int enc=raw -/,
  ⟨false, 2302, 5, 9, [65,108,116,105,116,117,100,101], 1, 0⟩ /- Altitude dec=int enc=raw -/,
  ⟨false, 2302, 5, 50, [67,112,114,105,111,114,105,116,121], 1, 0⟩ /- Cpriority dec=int enc=raw -/,
  ⟨false, 2302, 6, 26, [68,101,108,105,118,101,114,121,84,105,109,101], 2, 2⟩ /- DeliveryTime dec=date enc=date -/,
  ⟨false, 2302, 9, 8, [72,105,115,116,111,114,121,80,101,114,105,111,100], 1, 1⟩ /- HistoryPeriod dec=int enc=int -/,
  ⟨false, 2302, 9, 10, [77,97,120,87,97,116,99,104,101,114,76,105,115,116], 1, 1⟩ /- MaxWatcherList dec=int enc=int -/
]

end Wbxml.Model.TypedExpected
