/-
  Model of the table look-ups of `wbxml_tables.c` (encoder side) and of the linear scans in
  `wbxml_parser.c` (decoder side). Parametric in the table; `Props/C08*.lean` instantiates them
  with the regenerated `Gen.Tables`.
-/
import Wbxml.Prim.Basic
namespace Wbxml.Model

/-! ### Decoder side: the `while (name != NULL && (token != t || page != p)) index++` scans -/

/-- `parse_tag`: first row with this (page, token). -/
def decTag (tags : List TagRow) (page token : Nat) : Option TagRow :=
  tags.find? (fun r => r.token == token && r.page == page)

/-- `parse_attr_start`: first row with this (page, token). -/
def decAttr (attrs : List AttrRow) (page token : Nat) : Option AttrRow :=
  attrs.find? (fun r => r.token == token && r.page == page)

/-- `parse_attr_value`: first row with this (page, token). -/
def decVal (vals : List ValRow) (page token : Nat) : Option ValRow :=
  vals.find? (fun r => r.token == token && r.page == page)

/-- `parse_extension` (Wireless Village): first row with this token. The C loop index is a
    `WB_UTINY`; the table must therefore have fewer than 256 rows (checked in `extTableOK`). -/
def decExt (exts : List ExtRow) (token : Nat) : Option ExtRow :=
  exts.find? (fun r => r.token == token)

/-! ### Encoder side -/

/-- First loop of `wbxml_tables_get_tag_from_xml`: scan the rows of the current page, stopping at
    the first row of another page once the current page has been seen. -/
def encTagLoop1 (cur : Nat) (name : Bytes) : List TagRow → Bool → Option TagRow
  | [], _ => none
  | r :: rs, found =>
    if r.page == cur then
      if r.name == name then some r else encTagLoop1 cur name rs true
    else if found then none
    else encTagLoop1 cur name rs false

/-- `wbxml_tables_get_tag_from_xml(lang, cur_code_page, name)`; `cur = none` models `-1`. -/
def encTag (tags : List TagRow) (cur : Option Nat) (name : Bytes) : Option TagRow :=
  match cur with
  | some c =>
    match encTagLoop1 c name tags false with
    | some r => some r
    | none => tags.find? (fun r => !(r.page == c) && r.name == name)
  | none => tags.find? (fun r => r.name == name)

def isPrefixOf (p s : Bytes) : Bool := p.isPrefixOf s

/-- State of the scan in `wbxml_tables_get_attr_from_xml`. -/
structure AttrScan where
  found : Option AttrRow := none
  comp : Nat := 0

/-- `wbxml_tables_get_attr_from_xml(lang, name, value)` for a non-NULL value: returns the row and
    the number of value bytes it covers (`value_left = value + comp`; an exact match covers all). -/
def encAttrGo (name value : Bytes) : List AttrRow → AttrScan → Option (AttrRow × Nat)
  | [], st => st.found.map (fun r => (r, st.comp))
  | r :: rs, st =>
    if r.name == name then
      match r.value with
      | none =>
        -- row with NULL value: remembered only if nothing better was found so far
        encAttrGo name value rs (if st.found.isNone then { st with found := some r } else st)
      | some v =>
        if v == value then some (r, value.length)
        else if v.length < value.length && st.comp < v.length && isPrefixOf v value then
          encAttrGo name value rs { found := some r, comp := v.length }
        else encAttrGo name value rs st
    else encAttrGo name value rs st

def encAttr (attrs : List AttrRow) (name value : Bytes) : Option (AttrRow × Nat) :=
  encAttrGo name value attrs {}

/-- `wbxml_tables_get_ext_from_xml`. -/
def encExt (exts : List ExtRow) (name : Bytes) : Option ExtRow :=
  exts.find? (fun r => r.name == name)

/-- `wbxml_tables_get_xmlns`. -/
def nsOfPage (ns : List NsRow) (page : Nat) : Option Bytes :=
  (ns.find? (fun r => r.page == page)).map (·.ns)

/-- `wbxml_tables_get_code_page` (0 when not found). -/
def pageOfNs (ns : List NsRow) (name : Bytes) : Nat :=
  match ns.find? (fun r => r.ns == name) with
  | some r => r.page
  | none => 0

/-! ### Global tokens -/

def globalTokens : List Nat :=
  [0x00, 0x01, 0x02, 0x03, 0x04, 0x40, 0x41, 0x42, 0x43, 0x44,
   0x80, 0x81, 0x82, 0x83, 0x84, 0xC0, 0xC1, 0xC2, 0xC3, 0xC4]

def isGlobal (t : Nat) : Bool := globalTokens.contains t

/-! ### Row-wise consistency predicates (Bool, so they can be decided by kernel evaluation and
    evaluated item by item when a proof obligation breaks) -/

def tagRowRange (r : TagRow) : Bool := 0x05 ≤ r.token && r.token ≤ 0x3F && r.page < 256 && !isGlobal r.token
def attrRowRange (r : AttrRow) : Bool := 0x05 ≤ r.token && r.token ≤ 0x7F && r.page < 256 && !isGlobal r.token
def valRowRange (r : ValRow) : Bool := 0x85 ≤ r.token && r.token ≤ 0xFF && r.page < 256 && !isGlobal r.token

/-- decode (page, token) → first name → encode in that page → same (page, token). -/
def tagDecEnc (tags : List TagRow) (r : TagRow) : Bool :=
  match decTag tags r.page r.token with
  | some d => match encTag tags (some r.page) d.name with
    | some e => e.page == r.page && e.token == r.token
    | none => false
  | none => false

/-- encode name (from its own page, from no page, from any other page) → (page, token) → decode →
    a row whose name re-encodes to the same (page, token). -/
def tagEncDecFrom (tags : List TagRow) (cur : Option Nat) (r : TagRow) : Bool :=
  match encTag tags cur r.name with
  | some e => match decTag tags e.page e.token with
    | some d => d.page == e.page && d.token == e.token &&
        (match encTag tags (some e.page) d.name with
         | some e' => e'.page == e.page && e'.token == e.token
         | none => false)
    | none => false
  | none => false

def tagEncDec (tags : List TagRow) (r : TagRow) : Bool :=
  tagEncDecFrom tags (some r.page) r && tagEncDecFrom tags none r

def attrDecEnc (attrs : List AttrRow) (r : AttrRow) : Bool :=
  match decAttr attrs r.page r.token with
  | some d =>
    match d.value with
    | some v =>
      (match encAttr attrs d.name v with
       | some (e, n) => n == v.length &&
           (match decAttr attrs e.page e.token with
            | some d' => d'.name == d.name && d'.value == d.value
            | none => false)
       | none => false)
    | none =>
      -- value-less start token: encoding the name with an unrelated value falls back to it
      (match encAttr attrs d.name [] with
       | some (e, n) => n == 0 &&
           (match decAttr attrs e.page e.token with
            | some d' => d'.name == d.name && (d'.value == none || d'.value == some [])
            | none => false)
       | none => false)
  | none => false

def valDec (vals : List ValRow) (r : ValRow) : Bool :=
  match decVal vals r.page r.token with
  | some d => d.page == r.page && d.token == r.token
  | none => false

/-- Extension values: token → name → token. -/
def extDecEnc (exts : List ExtRow) (r : ExtRow) : Bool :=
  match decExt exts r.token with
  | some d => (match encExt exts d.name with
    | some e => e.token == r.token
    | none => false)
  | none => false

def extEncDec (exts : List ExtRow) (r : ExtRow) : Bool :=
  match encExt exts r.name with
  | some e => (match decExt exts e.token with
    | some d => (match encExt exts d.name with
      | some e' => e'.token == e.token
      | none => false)
    | none => false)
  | none => false

/-- Namespace ↔ page: each namespace maps to one page and back to itself, and each page that has
    a namespace maps back to a row of that page. -/
def nsRowOK (ns : List NsRow) (r : NsRow) : Bool :=
  nsOfPage ns (pageOfNs ns r.ns) == some r.ns &&
  (match nsOfPage ns r.page with
   | some n => pageOfNs ns n == r.page
   | none => false)

def tagTableOK (t : List TagRow) : Bool :=
  t.all tagRowRange && t.all (tagDecEnc t) && t.all (tagEncDec t)
def attrTableOK (t : List AttrRow) : Bool :=
  t.all attrRowRange && t.all (attrDecEnc t)
def valTableRange (t : List ValRow) : Bool := t.all valRowRange
def valTableOK (t : List ValRow) : Bool := t.all (valDec t)
def extTableOK (t : List ExtRow) : Bool :=
  decide (t.length < 256) && t.all (extDecEnc t) && t.all (extEncDec t)
def nsTableOK (t : List NsRow) : Bool := t.all (nsRowOK t)

end Wbxml.Model
