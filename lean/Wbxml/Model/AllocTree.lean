/-
  C16 — the tree-building half of `wbxml_tree_from_wbxml` in the ledger monad: the call-backs of
  `wbxml_tree_clb_wbxml.c` (`start_element`, `end_element`, `characters`) with the context
  `WBXMLTreeClbCtx`, and the functions of `wbxml_tree.c` they use (`wbxml_tree_create`,
  `wbxml_tree_add_node`, `wbxml_tree_add_elt`, `wbxml_tree_add_elt_with_attrs` with
  `wbxml_tree_node_add_attrs` and `wbxml_tree_extract_node`, `wbxml_tree_add_text`,
  `wbxml_tree_add_cdata`, `wbxml_tree_destroy`).

  The call-backs only ever touch the *rightmost path* of the tree: a node is appended as the last
  child of `current` (or of its parent, when `current` is a CDATA section), `current` moves to the
  new node or up to a parent.  So the tree under construction is kept as

    * `frames` — the open path, innermost (`current`) first, the root last; each frame with the
      list of its *closed* children (`Kid`), in order; the next frame inward is its last child;
    * a `Kid` — a child whose subtree is complete: its own `ANode` and the blocks of all its
      descendants (`below`; released en bloc by `wbxml_tree_node_destroy_all`, whose walk is the
      subject of the tree-heap lemmas of C14);
    * `root` — the root when `current` is NULL although the tree is not empty.

  What `wbxml_tree_node_get_syncml_data_type` decides by reading the tree (it allocates nothing) is
  an input of the `characters` event (`cdataType`), as the token shapes are for the parser
  functions.  The embedded-document case of `characters` (`WBXML_SYNCML_DATA_TYPE_WBXML`: a nested
  `wbxml_tree_from_wbxml`) is outside this model.
-/
import Wbxml.Model.AllocCont
namespace Wbxml.Model.Alloc
open Wbxml

def EINTERNAL : Nat := 13          -- WBXML_ERROR_INTERNAL

inductive NKind where
  | elt | text | cdata
  deriving Repr, DecidableEq, Inhabited

/-- A closed child. `sig` is a canonical description of the subtree (printed by the driver only). -/
structure Kid where
  kind : NKind
  node : ANode
  below : List Nat
  sig : String
  deriving Repr, Inhabited

def Kid.owned (k : Kid) : List Nat := k.node.owned ++ k.below

/-- An open node with its closed children. -/
structure Frame where
  kind : NKind
  node : ANode
  kids : List Kid
  deriving Repr, Inhabited

def Frame.owned (f : Frame) : List Nat := f.node.owned ++ f.kids.flatMap Kid.owned

def hexDigit (n : Nat) : Char := if n < 10 then Char.ofNat (48 + n) else Char.ofNat (87 + n)

def hexStr (bs : Bytes) : String :=
  if bs.isEmpty then "-" else String.ofList (bs.flatMap fun b => [hexDigit (b.toNat / 16), hexDigit (b.toNat % 16)])

def nameSig (t : AName) : String :=
  match t.v with
  | .token r => s!"T{r}"
  | .literal none => "LN"
  | .literal (some b) => s!"L{hexStr b.bytes}"

def attrSig (a : AAttr) : String :=
  s!"({match a.name with | none => "N" | some t => nameSig t};{match a.value with | none => "N" | some b => hexStr b.bytes})"

/-- The part of a node's description before its children. -/
def headSig (kind : NKind) (n : ANode) : String :=
  match kind with
  | .elt => s!"E{match n.name with | none => "N" | some t => nameSig t}{match n.attrs with | none => "" | some l => "".intercalate (l.items.map attrSig)}"
  | .text => s!"T{match n.content with | none => "N" | some b => hexStr b.bytes}"
  | .cdata => "C"

def Frame.close (f : Frame) : Kid :=
  ⟨f.kind, f.node, f.kids.flatMap Kid.owned,
   s!"({headSig f.kind f.node}{"".intercalate (f.kids.map (·.sig))})"⟩

/-- `WBXMLTreeClbCtx` together with the tree it points to. -/
structure TCtx where
  tree : Nat
  root : Option Kid
  frames : List Frame
  error : Nat
  deriving Repr, Inhabited

def ownedKidOpt : Option Kid → List Nat
  | none => []
  | some k => k.owned

def TCtx.owned (c : TCtx) : List Nat := c.tree :: (ownedKidOpt c.root ++ c.frames.flatMap Frame.owned)

/-- `current = current->parent`: the head frame becomes the last closed child of the next one (or the
    closed root when it was the root: `current` is then NULL). -/
def popFrame (c : TCtx) : TCtx :=
  match c.frames with
  | [] => c
  | [f] => { c with root := some f.close, frames := [] }
  | f :: g :: rest => { c with frames := { g with kids := g.kids ++ [f.close] } :: rest }

/-- `current = NULL` while the tree keeps everything: close the whole open path. -/
def closeAll : Nat → TCtx → TCtx
  | 0, c => c
  | n + 1, c => if c.frames.isEmpty then c else closeAll n (popFrame c)

def dropCurrent (c : TCtx) : TCtx := closeAll c.frames.length c

/-- The sibling walk of `wbxml_tree_add_node`: `while (tmp->next != NULL) tmp = tmp->next`. -/
def walkKids : List Kid → Prog Unit
  | [] => pure ()
  | k :: rest => do deref (some k.node.hdr); walkKids rest

/-- `wbxml_tree_add_node(tree, current, node)` for an element or CDATA node (never joined with a
    sibling); on success the node is the new head frame (the caller stores it in `current`). -/
def addOpen (c : TCtx) (kind : NKind) (node : ANode) : Prog (TCtx × Bool) := do
  deref (some node.hdr)                       -- node->parent = parent
  match c.frames with
  | [] => do
    deref (some c.tree)                       -- tree->root
    if c.root.isSome then pure (c, false)
    else pure ({ c with frames := [⟨kind, node, []⟩] }, true)
  | f :: rest => do
    deref (some f.node.hdr)                   -- parent->children
    walkKids f.kids
    deref (some node.hdr)                     -- node->type; node->prev = tmp
    pure ({ c with frames := ⟨kind, node, []⟩ :: f :: rest }, true)

/-- `wbxml_tree_add_node(tree, current, node)` for a text node: joined with a preceding text sibling
    (`wbxml_buffer_append`; the new node takes over the joined buffer and the old node is destroyed). -/
def addText (c : TCtx) (node : ANode) : Prog (TCtx × Bool) := do
  deref (some node.hdr)
  let mk (n : ANode) : Kid := ⟨.text, n, [], s!"({headSig .text n})"⟩
  match c.frames with
  | [] => do
    deref (some c.tree)
    if c.root.isSome then pure (c, false)
    else pure ({ c with root := some (mk node) }, true)
  | f :: rest => do
    deref (some f.node.hdr)
    walkKids f.kids
    match f.kids.getLast? with
    | none => pure ({ c with frames := { f with kids := [mk node] } :: rest }, true)
    | some last => do
      deref (some node.hdr); deref (some last.node.hdr)        -- node->type, tmp->type
      if last.kind = .text then
        match last.node.content with
        | none => pure (c, false)                              -- wbxml_buffer_append(NULL, …)
        | some dest => do
          let (dest, ok) ← bufAppend dest node.content
          let last := { last with node := { last.node with content := some dest } }
          if !ok then pure ({ c with frames := { f with kids := f.kids.dropLast ++ [last] } :: rest }, false)
          else do
            deref (some last.node.hdr)                         -- tmp->prev
            (match f.kids.dropLast.getLast? with
             | none => pure ()                                 -- parent->children = node
             | some prev => deref (some prev.node.hdr))        -- tmp->prev->next = node
            bufDestroy node.content
            let node := { node with content := some dest }
            nodeDestroy (some { last.node with content := none })
            pure ({ c with frames := { f with kids := f.kids.dropLast ++ [mk node] } :: rest }, true)
      else do
        deref (some last.node.hdr)                             -- tmp->next = node
        pure ({ c with frames := { f with kids := f.kids ++ [mk node] } :: rest }, true)

/-- `wbxml_tree_add_elt(tree, current, tag)`. -/
def treeAddElt (c : TCtx) (tag : AName) : Prog (TCtx × Bool) := do
  let n ← nodeCreate
  match n with
  | none => pure (c, false)
  | some n => do
    let nm ← nameDuplicate (some tag)
    match nm with
    | none => do nodeDestroy (some n); pure (c, false)
    | some nm => do
      let n := { n with name := some nm }
      let (c, ok) ← addOpen c .elt n
      if !ok then do nodeDestroy (some n); pure (c, false)
      else pure (c, true)

/-- `wbxml_tree_node_add_attrs(node, attrs)`. -/
def nodeAddAttrs (n : ANode) : List AAttr → Prog (ANode × Nat)
  | [] => pure (n, OK)
  | a :: rest => do
    let (n, ret) ← nodeAddAttr n a
    if ret != OK then pure (n, ENOMEM) else nodeAddAttrs n rest

/-- `wbxml_tree_extract_node(tree, node)` for the node just added (the head frame, no children). -/
def extractHead (c : TCtx) : Prog TCtx :=
  match c.frames with
  | [] => pure c
  | f :: rest => do
    deref (some f.node.hdr)
    match rest with
    | [] => do deref (some c.tree); pure { c with frames := [] }          -- tree->root = node->next
    | g :: _ => do
      deref (some g.node.hdr)                                             -- node->parent->children
      match g.kids.getLast? with
      | none => pure ()
      | some last => deref (some last.node.hdr)                           -- node->prev->next
      pure { c with frames := rest }

/-- `wbxml_tree_add_elt_with_attrs(tree, current, tag, attrs)`. -/
def treeAddEltWithAttrs (c : TCtx) (tag : AName) (attrs : List AAttr) : Prog (TCtx × Bool) := do
  let (c, ok) ← treeAddElt c tag
  if !ok then pure (c, false)
  else if attrs.isEmpty then pure (c, true)
  else match c.frames with
    | [] => ub "no current node after wbxml_tree_add_elt"
    | f :: rest => do
      let (n, ret) ← nodeAddAttrs f.node attrs
      let c := { c with frames := { f with node := n } :: rest }
      if ret != OK then do
        let c ← extractHead c
        nodeDestroy (some n)
        pure (c, false)
      else pure (c, true)

/-- `wbxml_tree_clb_wbxml_start_element(ctx, element, attrs)`. -/
def clbStartElement (c : TCtx) (tag : AName) (attrs : List AAttr) : Prog TCtx :=
  if c.error != OK then pure c
  else do
    let c ← (match c.frames with
      | f :: _ => do
        deref (some f.node.hdr)
        if f.kind = .cdata then pure (popFrame c) else pure c
      | [] => pure c)
    let (c, ok) ← treeAddEltWithAttrs c tag attrs
    if !ok then pure { dropCurrent c with error := ENOMEM }
    else pure c

/-- `wbxml_tree_clb_wbxml_end_element(ctx, element)`. -/
def clbEndElement (c : TCtx) : Prog TCtx :=
  if c.error != OK then pure c
  else match c.frames with
    | [] => pure { c with error := EINTERNAL }
    | [f] => do
      deref (some f.node.hdr); deref (some c.tree)       -- current->parent == NULL; tree->root
      pure c
    | f :: _ :: _ => do
      deref (some f.node.hdr)
      let c := if f.kind = .cdata then popFrame c else c
      match c.frames with
      | [] => pure c
      | g :: _ => do
        deref (some g.node.hdr)
        pure (popFrame c)

/-- `wbxml_tree_add_cdata(tree, current)`. -/
def treeAddCdata (c : TCtx) : Prog (TCtx × Bool) := do
  let n ← nodeCreate
  match n with
  | none => pure (c, false)
  | some n => do
    let (c, ok) ← addOpen c .cdata n
    if !ok then do nodeDestroy (some n); pure (c, false)
    else pure (c, true)

/-- `wbxml_tree_add_text(tree, current, text, len)`. -/
def treeAddText (c : TCtx) (text : Bytes) : Prog (TCtx × Bool) := do
  let n ← nodeCreate
  match n with
  | none => pure (c, false)
  | some n => do
    let b ← bufCreate (some text) text.length
    match b with
    | none => do nodeDestroy (some n); pure (c, false)
    | some b => do
      let n := { n with content := some b }
      let (c, ok) ← addText c n
      if !ok then do nodeDestroy (some n); pure (c, false)
      else pure (c, true)

/-- `wbxml_tree_clb_wbxml_characters(ctx, ch, start, length)`; `cdataType` = the SyncML data type of
    `current` asks for a CDATA section. -/
def clbCharacters (c : TCtx) (text : Bytes) (cdataType : Bool) : Prog TCtx :=
  if c.error != OK then pure c
  else do
    let needCdata := cdataType && (match c.frames with | f :: _ => f.kind != .cdata | [] => false)
    let (c, ok) ← (if needCdata then treeAddCdata c else pure (c, true))
    if !ok then pure { dropCurrent c with error := ENOMEM }
    else do
      let (c, ok) ← treeAddText c text
      if !ok then pure { c with error := ENOMEM } else pure c

/-- The events the WBXML parser delivers. The tag and the attributes stay the parser's. -/
inductive TEvent where
  | start (tag : AName) (attrs : List AAttr)
  | stop
  | chars (text : Bytes) (cdataType : Bool)
  deriving Repr, Inhabited

def TEvent.owned : TEvent → List Nat
  | .start tag attrs => tag.owned ++ attrs.flatMap AAttr.owned
  | _ => []

def clbEvent (c : TCtx) : TEvent → Prog TCtx
  | .start tag attrs => clbStartElement c tag attrs
  | .stop => clbEndElement c
  | .chars text cd => clbCharacters c text cd

def clbEvents (c : TCtx) : List TEvent → Prog TCtx
  | [] => pure c
  | e :: rest => do
    let c ← clbEvent c e
    clbEvents c rest

/-- `wbxml_tree_node_destroy_all` on a closed subtree, then the node itself. -/
def kidDestroy (k : Kid) : Prog Unit := do
  forM_ k.below (fun b => free (some b))
  nodeDestroy (some k.node)

def frameDestroy (f : Frame) : Prog Unit := do
  forM_ f.kids kidDestroy
  nodeDestroy (some f.node)

/-- `wbxml_tree_destroy(tree)`. -/
def treeDestroy (c : TCtx) : Prog Unit := do
  deref (some c.tree)
  (match c.root with
   | none => pure ()
   | some k => kidDestroy k)
  forM_ c.frames frameDestroy
  free (some c.tree)

/-- `wbxml_tree_create(lang, charset)` and the context of `wbxml_tree_from_wbxml`. -/
def treeCreate : Prog (Option TCtx) := do
  let t ← malloc
  match t with
  | none => pure none
  | some t => pure (some ⟨t, none, [], OK⟩)

/-- The tree side of `wbxml_tree_from_wbxml` for the events of a parse: create the tree, deliver the
    events, destroy the tree when a call-back reported an error. -/
def treeFromEvents (events : List TEvent) : Prog (Nat × Option TCtx) := do
  let c ← treeCreate
  match c with
  | none => pure (ENOMEM, none)
  | some c => do
    let c ← clbEvents c events
    if c.error != OK then do
      treeDestroy c
      pure (c.error, none)
    else pure (OK, some c)

end Wbxml.Model.Alloc
