/-
  Model of `wbxml_tree_from_xml` + `wbxml_tree_clb_xml.c`: the tree built from Expat's events.
  Expat itself is a parameter: the events (and Expat's verdict) for a byte string are inputs,
  recorded from the real Expat by harness/expat_rec.c. Embedded DevInf / DM-DDF sub-documents are
  re-parsed from a byte range of the original input: the model constructs those bytes and asks
  for their events (`need`), so all of libwbxml's own logic stays inside the model.
-/
import Wbxml.Model.Tree
import Wbxml.Model.Tables
import Wbxml.Model.Codec.Base64
namespace Wbxml.Model

inductive XEvent where
  | xmlDecl (version : Option Bytes) (encoding : Option Bytes)
  | doctype (sysid : Option Bytes) (pubid : Option Bytes)
  | startElt (name : Bytes) (attrs : List (Bytes × Bytes)) (byteIndex : Nat)
  | endElt (name : Bytes) (byteIndex : Nat)
  | startCdata
  | endCdata
  | chars (s : Bytes)
  | pi
  deriving Repr, Inhabited

/-- What Expat said about a byte string: well-formed with these events, or not. -/
structure ExpatRun where
  ok : Bool
  events : List XEvent
  deriving Repr, Inhabited

def lastIndexOf (b : UInt8) (s : Bytes) : Option Nat :=
  let rec go (i : Nat) (best : Option Nat) : Bytes → Option Nat
    | [] => best
    | c :: r => go (i + 1) (if c == b then some i else best) r
  go 0 none s

/-- `strncasecmp(a, b, n) == 0` where `n = strlen a`: `a` is a case-insensitive prefix of `b`. -/
def casePrefix (a b : Bytes) : Bool := (b.take a.length).map lowerByte == a.map lowerByte

/-- `wbxml_tables_search_table(main, public_id, system_id, root)`. -/
def searchTable (main : List Lang) (pubid sysid root : Option Bytes) : Option Lang :=
  let byPub := match pubid with
    | some p => main.find? (fun (l : Lang) => match l.pub.xmlId with | some x => caseEq x p | none => false)
    | none => none
  match byPub with
  | some l => some l
  | none =>
    let bySys := match sysid with
      | some s => main.find? (fun (l : Lang) => l.pub.dtd == some s)
      | none => none
    match bySys with
    | some l => some l
    | none =>
      match root with
      | none => none
      | some r =>
        if (lastIndexOf 124 r).isSome then
          -- a namespace is present: match the first namespace row of each language; the root-name
          -- scan that follows shares the loop index and therefore finds nothing
          main.find? (fun (l : Lang) => match l.ns with
            | some (n :: _) => casePrefix n.ns r
            | _ => false)
        else
          main.find? (fun (l : Lang) => l.pub.root == some r)

def charsetNames : List (Nat × Bytes) := [
  (3, b!"US-ASCII"), (4, b!"ISO-8859-1"), (5, b!"ISO-8859-2"), (6, b!"ISO-8859-3"), (7, b!"ISO-8859-4"),
  (8, b!"ISO-8859-5"), (9, b!"ISO-8859-6"), (10, b!"ISO-8859-7"), (11, b!"ISO-8859-8"), (12, b!"ISO-8859-9"),
  (17, b!"Shift_JIS"), (106, b!"UTF-8"), (1000, b!"ISO-10646-UCS-2"), (1015, b!"UTF-16"), (2026, b!"Big5")]

/-- `wbxml_charset_get_mib`. -/
def charsetMib (name : Bytes) : Option Nat :=
  (charsetNames.find? (fun p => caseEq p.2 name)).map (·.1)

structure XFrame where
  kind : FrameKind
  kids : List Node
  content : Option Bytes := none      -- `node->content` of a binary-flagged element
  deriving Inhabited

def XFrame.close (f : XFrame) : Node :=
  match f.kind with
  | .elt n a => .elt n a f.kids
  | .cdata => .cdata f.kids

structure XBState where
  stack : List XFrame := []
  root : Option Node := none
  lang : Option Lang := none
  charset : Nat := 0
  curPage : Nat := 0
  error : Option Nat := none
  skipLvl : Nat := 0
  skipStart : Nat := 0
  need : Option Bytes := none
  deriving Inhabited

def XBState.attach (b : XBState) (n : Node) : XBState :=
  match b.stack with
  | f :: rest => { b with stack := { f with kids := addKid f.kids n } :: rest }
  | [] =>
    match b.root with
    | none => { b with root := some n }
    | some _ => { b with error := some E.internal }

def devinfName : Bytes := b!"syncml:devinf|DevInf"
def mgmtName : Bytes := b!"syncml:dmddf1.2|MgmtTree"

def xmlNsUri : Bytes := b!"http://www.w3.org/XML/1998/namespace|"

def isBinaryName : Name → Bool
  | .token r => r.opts &&& 1 != 0
  | .literal _ => false

def base64NoSpaces (s : Bytes) : Bytes := s.filter (fun b => !(b == 32 || (9 ≤ b.toNat && b.toNat ≤ 13)))

/-- `wbxml_tree_add_xml_elt_with_attrs`: element name split at the last `|`, namespace → code
    page, tag looked up in that page first; attributes through `encAttr`. Returns the frame and
    the new `cur_code_page`. -/
def xmlElt (lang : Lang) (name : Bytes) (attrs : List (Bytes × Bytes)) : XFrame × Nat :=
  let (nsName, eltName) := match lastIndexOf 124 name with
    | some i => (name.take i, name.drop (i + 1))
    | none => ([], name)
  let page := match lang.ns with
    | some ns => pageOfNs ns nsName
    | none => 0
  let (tag, page) := match lang.tags with
    | some tags => (match encTag tags (some page) eltName with
      | some r => (Name.token r, r.page)
      | none => (Name.literal eltName, page))
    | none => (Name.literal eltName, page)
  let as := attrs.map fun (n, v) =>
    -- the reserved `xml:` attributes come from the namespace-aware parser as "<XML namespace URI>|lang"
    let n := if xmlNsUri.isPrefixOf n then b!"xml:" ++ n.drop xmlNsUri.length else n
    let an := match lang.attrs with
      | some t => (match encAttr t n v with
        | some (r, _) => AName.token r
        | none => AName.literal n)
      | none => AName.literal n
    ({ name := an, value := v } : Attr)
  ({ kind := .elt tag as, kids := [] }, page)

/-- View of the XML builder's stack for the SyncML data-type look-up. -/
def xStackFrames (s : List XFrame) : List Frame := s.map fun f => { kind := f.kind, kids := f.kids }

/-- Leave the element on top of the stack (`current = current->parent`, after stepping out of a
    CDATA node first). -/
def xPop (b : XBState) : XBState :=
  match b.stack with
  | [] => { b with error := some E.internal }
  | f :: rest =>
    match f.kind, rest with
    | .cdata, g :: rest' =>
      let b1 : XBState := { b with stack := { g with kids := addKid g.kids f.close } :: rest' }
      (match b1.stack with
       | g' :: rest'' => ({ b1 with stack := rest'' } : XBState).attach g'.close
       | [] => b1)
    | .cdata, [] => { b with error := some E.internal }
    | .elt _ _, _ => ({ b with stack := rest } : XBState).attach f.close

/-- The embedded document the C code builds from the skipped byte range. -/
def embeddedDoc (input : Bytes) (start stop : Nat) (isMgmt : Bool) (lang : Lang) : Bytes :=
  b!"<!DOCTYPE " ++ lang.pub.root.getD [] ++ b!" PUBLIC \"" ++ lang.pub.xmlId.getD [] ++ b!"\" \"" ++
    lang.pub.dtd.getD [] ++ b!"\">\n" ++ (input.drop start).take (stop - start) ++
    (if isMgmt then b!"</MgmtTree>" else b!"</DevInf>")

/-- One Expat event through the callbacks. `sub` maps the bytes of an embedded document to the
    tree libwbxml builds from it (`none` = the events for those bytes were not supplied). -/
def xbuildStep (main : List Lang) (input : Bytes) (sub : Bytes → Option (Except Nat Tree))
    (b : XBState) (e : XEvent) : XBState :=
  if b.need.isSome then b else
  match e with
  | .xmlDecl version encoding =>
    (match version, encoding with
     | some _, some enc => (match charsetMib enc with
       | some m => { b with charset := m }
       | none => b)
     | _, _ => b)
  | .doctype sysid pubid =>
    (match searchTable main pubid sysid none with
     | some l => { b with lang := some l }
     | none => b)
  | .startElt name attrs idx =>
    if b.error.isSome then b
    else if b.skipLvl > 0 then { b with skipLvl := b.skipLvl + 1 }
    else
      let isRoot := b.stack.isEmpty && b.root.isNone
      -- `current == NULL` also holds after the root element was closed… which Expat never reports
      let b := if isRoot && b.lang.isNone then
          (match searchTable main none none (some name) with
           | some l => { b with lang := some l }
           | none => { b with error := some 101 })
        else b
      if b.error.isSome then b
      else if (name == devinfName || name == mgmtName) && !isRoot then
        { b with skipStart := idx, skipLvl := 1 }
      else
        match b.lang with
        | none => { b with error := some 15 }   -- unreachable: the language is set at the root
        | some lang =>
          match b.stack, b.root with
          | [], some _ => { b with error := some 15 }
          | _, _ =>
            let (f, page) := xmlElt lang name attrs
            { b with stack := f :: b.stack, curPage := page }
  | .endElt name idx =>
    -- binary-flagged element: decode the cached base64 text before anything else
    let b := match b.stack with
      | f :: rest =>
        (match f.kind, f.content with
         | .elt n _, some c =>
           if isBinaryName n then
             let txt := base64NoSpaces c
             -- wbxml_base64_decode result ≤ 0 ⇒ error; modelled by the caller-supplied decoder below
             let dec := Codec.b64Decode txt
             (match dec with
              | none => { b with error := some 19, stack := { f with content := none } :: rest }
              | some d => ({ b with stack := { f with content := none } :: rest } : XBState).attach (.text d))
           else b
         | _, _ => b)
      | [] => b
    if b.error.isSome then b
    else if b.skipLvl > 1 then { b with skipLvl := b.skipLvl - 1 }
    else if b.skipLvl == 1 then
      if name == devinfName || name == mgmtName then
        let isMgmt := name == mgmtName
        match b.lang with
        | none => { b with error := some 101 }
        | some outer =>
          if isMgmt && outer.id != 2201 then { b with error := some 101 }
          else
            let subId : Option Nat :=
              if outer.id == 2001 then some 2002 else if outer.id == 2101 then some 2102
              else if outer.id == 2201 then (if isMgmt then some 2204 else some 2202) else none
            match subId with
            | none => { b with error := some 101 }
            | some sid =>
              match main.find? (fun (l : Lang) => l.id == sid) with
              | none => { b with error := some 101 }
              | some sl =>
                let doc := embeddedDoc input b.skipStart idx isMgmt sl
                match sub doc with
                | none => { b with need := some doc }
                | some (.error e) => { b with error := some e }
                | some (.ok t) =>
                  -- the TREE node becomes `current`, then the common tail steps to its parent
                  let b := ({ b with skipLvl := 0 } : XBState).attach (.tree t.lang t.origCharset t.root)
                  b
      else
        -- end of a skipped node that is not DevInf/MgmtTree cannot happen (skipping starts there)
        b
    else xPop b
  | .startCdata =>
    if b.error.isSome || b.skipLvl > 0 then b
    else { b with stack := { kind := .cdata, kids := [] } :: b.stack }
  | .endCdata =>
    if b.error.isSome || b.skipLvl > 0 then b
    else
      match b.stack with
      | [] => { b with error := some E.internal }
      | f :: rest => ({ b with stack := rest } : XBState).attach f.close
  | .chars s =>
    if b.error.isSome || b.skipLvl > 0 then b
    else
      let ty := syncmlDataType (xStackFrames b.stack)
      -- vObject types turn a lone LF into CRLF; `text/clear` only gets the CDATA treatment
      let s := if ty == .vobject && s == [10] then [13, 10] else s
      let b := if ty.isCdata then
          (match b.stack with
           | f :: _ =>
             let firstIsCdata := match f.kids.head? with | some (.cdata _) => true | _ => false
             (match f.kind with
              | .cdata => b
              | _ => if firstIsCdata then b else { b with stack := { kind := .cdata, kids := [] } :: b.stack })
           | [] => b)
        else b
      match b.stack with
      | f :: rest =>
        (match f.kind with
         | .elt n _ =>
           if isBinaryName n then
             { b with stack := { f with content := some ((f.content.getD []) ++ s) } :: rest }
           else b.attach (.text s)
         | .cdata => b.attach (.text s))
      | [] => { b with error := some E.internal }
  | .pi => b

/-- Result of `wbxml_tree_from_xml`: a tree, an error code, or a request for the Expat events of
    an embedded document. -/
inductive X2TRes where
  | ok (t : Tree)
  | err (code : Nat)
  | need (doc : Bytes)
  deriving Inhabited

/-- `wbxml_tree_from_xml(xml)` given Expat's runs for `xml` and for every embedded document
    (`env`). `fuel` bounds the nesting of embedded documents. -/
def treeOfXml (main : List Lang) (env : List (Bytes × ExpatRun)) : Nat → Bytes → X2TRes
  | 0, _ => .err 13
  | f + 1, xml =>
    if xml.isEmpty then .err 12 else
    match env.find? (fun p => p.1 == xml) with
    | none => .need xml
    | some (_, run) =>
      let sub := fun (doc : Bytes) =>
        match treeOfXml main env f doc with
        | .ok t => some (Except.ok t)
        | .err e => some (Except.error e)
        | .need _ => none
      let b := run.events.foldl (xbuildStep main xml sub) {}
      match b.need with
      | some d =>
        -- which document is missing: the embedded one, or one nested inside it
        (match treeOfXml main env f d with
         | .need d' => .need d'
         | _ => .need d)
      | none =>
        if !run.ok then .err 104
        else match b.error with
          | some e => .err e
          | none => .ok { lang := b.lang, origCharset := b.charset, root := b.root }

end Wbxml.Model
