/-
  Model of the WBXML multi-byte integer (`mb_u_int32`) writer and reader.

    writer: `wbxml_buffer_append_mb_uint_32`  (src/wbxml_buffers.c)
    reader: `parse_mb_uint32`                 (src/wbxml_parser.c)

  Notation: the C masks and shifts by powers of two are written arithmetically
  (`x & 0x7f` = `x % 128`, `x >> 7` = `x / 128`, `x << 7` = `x * 128`); the C `|` stays `|||`.
  `WB_ULONG` is 32 bits wide: truncation is written `% 2^32` exactly where the C code truncates.
-/
import Wbxml.Prim.Basic
namespace Wbxml.Model.Codec
open Wbxml

/-- The `for (i = 3; value > 0 && i >= 0; i--)` loop of the writer: `slots` = `i + 1` octets still
    free in front of `acc` (= `octets[i+1 .. 4]`). -/
def mbEncodeLoop : (slots : Nat) → (value : Nat) → (acc : Bytes) → Bytes
  | 0, _, acc => acc
  | s + 1, v, acc =>
    if v > 0 then mbEncodeLoop s (v / 128) (UInt8.ofNat (0x80 ||| v % 128) :: acc) else acc

/-- `wbxml_buffer_append_mb_uint_32(buffer, value)`: the octets appended to the buffer.
    The parameter is a 32-bit `WB_ULONG` (a wider argument is truncated by the call). -/
def mbEncode (value : Nat) : Bytes :=
  let v := value % 2 ^ 32
  mbEncodeLoop 4 (v / 128) [UInt8.ofNat (v % 128)]

/-- The `for (byte_pos = 0; byte_pos < 5; byte_pos++)` loop of `parse_mb_uint32`; `left` = octets
    the loop may still read, `acc` = the 32-bit accumulator `uint`, the list = `data + pos`.
    `wbxml_buffer_get_char` is bounds-checked: end of buffer is error 45 (`END_OF_BUFFER`).
    Leaving the loop after five octets that all carry the continuation flag is error 70
    (`UNVALID_MBUINT32`) — the sixth octet is not even looked at. -/
def mbDecodeLoop : (left : Nat) → (acc : Nat) → Bytes → Except Err (Nat × Bytes)
  | 0, _, _ => .error (.code 70)
  | _ + 1, _, [] => .error (.code 45)
  | l + 1, acc, b :: rest =>
    let acc' := (acc * 128 % 2 ^ 32) ||| (b.toNat % 128)
    if b.toNat / 128 % 2 = 0 then .ok (acc', rest) else mbDecodeLoop l acc' rest

/-- `parse_mb_uint32`: value and the remaining bytes (`pos` advanced past the integer). -/
def mbDecode (bs : Bytes) : Except Err (Nat × Bytes) := mbDecodeLoop 5 0 bs

end Wbxml.Model.Codec
