/-
  Model of `wbxml_base64_encode` / `wbxml_base64_decode` (src/wbxml_base64.c).

  Notation: masks and shifts by powers of two are written arithmetically on the byte values
  (`x >> 2` = `x / 4`, `(x & 0x3) << 4` = `x % 4 * 16`, `(x & 0xF0) >> 4` = `x / 16`,
  `(x & 0xC0) >> 6` = `x / 64` for a byte `x`), the C `|` stays `|||`, the `(WB_UTINY)` casts of the
  decoder are `UInt8.ofNat` (reduction mod 256).
-/
import Wbxml.Prim.Basic
namespace Wbxml.Model.Codec
open Wbxml

/-- `static const char basis_64[]` (64 characters; index 64 would be the terminating NUL). -/
def basis64 : List UInt8 :=
  b!"ABCDEFGHIJKLMNOPQRSTUVWXYZabcdefghijklmnopqrstuvwxyz0123456789+/"

/-- `basis_64[i]`: an index beyond the array is flagged, not defined away. -/
def b64Char (i : Nat) : Except Err UInt8 :=
  match basis64[i]? with
  | some c => .ok c
  | none => .error (.ub "basis_64 index out of range")

/-- The encoder's main loop (`for (i = 0; i < len - 2; i += 3)`) and its tail (`if (i < len)`),
    on the remaining input `buffer + i`. -/
def b64EncodeE : Bytes → Except Err Bytes
  | a :: b :: c :: rest => do
    let c0 ← b64Char (a.toNat / 4 % 64)
    let c1 ← b64Char (a.toNat % 4 * 16 ||| b.toNat / 16)
    let c2 ← b64Char (b.toNat % 16 * 4 ||| c.toNat / 64)
    let c3 ← b64Char (c.toNat % 64)
    let r ← b64EncodeE rest
    pure (c0 :: c1 :: c2 :: c3 :: r)
  | [a, b] => do
    let c0 ← b64Char (a.toNat / 4 % 64)
    let c1 ← b64Char (a.toNat % 4 * 16 ||| b.toNat / 16)
    let c2 ← b64Char (b.toNat % 16 * 4)
    pure [c0, c1, c2, 61]
  | [a] => do
    let c0 ← b64Char (a.toNat / 4 % 64)
    let c1 ← b64Char (a.toNat % 4 * 16)
    pure [c0, c1, 61, 61]
  | [] => pure []

/-- The characters `wbxml_base64_encode(buffer, len)` writes before the terminating NUL.
    (`Lemmas.Codec.b64EncodeE_ok`: the table index is always in range, so the `[]` branch is dead.)
    For `len ≤ 0` the C function returns NULL instead — see `b64EncodeApi`. -/
def b64Encode (bs : Bytes) : Bytes :=
  match b64EncodeE bs with
  | .ok r => r
  | .error _ => []

/-- `wbxml_base64_encode` as the caller sees it: `none` = NULL (empty input). -/
def b64EncodeApi (bs : Bytes) : Option Bytes := if bs = [] then none else some (b64Encode bs)

/-- `static const unsigned char pr2six[256]`. -/
def pr2sixTbl : List Nat := [
  64, 64, 64, 64, 64, 64, 64, 64, 64, 64, 64, 64, 64, 64, 64, 64,
  64, 64, 64, 64, 64, 64, 64, 64, 64, 64, 64, 64, 64, 64, 64, 64,
  64, 64, 64, 64, 64, 64, 64, 64, 64, 64, 64, 62, 64, 64, 64, 63,
  52, 53, 54, 55, 56, 57, 58, 59, 60, 61, 64, 64, 64, 64, 64, 64,
  64,  0,  1,  2,  3,  4,  5,  6,  7,  8,  9, 10, 11, 12, 13, 14,
  15, 16, 17, 18, 19, 20, 21, 22, 23, 24, 25, 64, 64, 64, 64, 64,
  64, 26, 27, 28, 29, 30, 31, 32, 33, 34, 35, 36, 37, 38, 39, 40,
  41, 42, 43, 44, 45, 46, 47, 48, 49, 50, 51, 64, 64, 64, 64, 64,
  64, 64, 64, 64, 64, 64, 64, 64, 64, 64, 64, 64, 64, 64, 64, 64,
  64, 64, 64, 64, 64, 64, 64, 64, 64, 64, 64, 64, 64, 64, 64, 64,
  64, 64, 64, 64, 64, 64, 64, 64, 64, 64, 64, 64, 64, 64, 64, 64,
  64, 64, 64, 64, 64, 64, 64, 64, 64, 64, 64, 64, 64, 64, 64, 64,
  64, 64, 64, 64, 64, 64, 64, 64, 64, 64, 64, 64, 64, 64, 64, 64,
  64, 64, 64, 64, 64, 64, 64, 64, 64, 64, 64, 64, 64, 64, 64, 64,
  64, 64, 64, 64, 64, 64, 64, 64, 64, 64, 64, 64, 64, 64, 64, 64,
  64, 64, 64, 64, 64, 64, 64, 64, 64, 64, 64, 64, 64, 64, 64, 64]

set_option maxRecDepth 8192 in
theorem pr2sixTbl_length : pr2sixTbl.length = 256 := by decide

/-- `pr2six[c]` for an `unsigned char` index: always inside the 256-entry table. -/
def pr2six (c : UInt8) : Nat :=
  pr2sixTbl[c.toNat]'(by rw [pr2sixTbl_length]; exact c.toNat_lt)

/-- The decoder's output loop on the `nprbytes` scanned characters (`while (nprbytes > 4)` and the
    three trailing `if`s); with a single remaining character nothing is written. -/
def b64DecodeLoop : Bytes → Bytes
  | a :: b :: c :: d :: e :: rest =>
    UInt8.ofNat (pr2six a * 4 ||| pr2six b / 16) ::
    UInt8.ofNat (pr2six b * 16 ||| pr2six c / 4) ::
    UInt8.ofNat (pr2six c * 64 ||| pr2six d) :: b64DecodeLoop (e :: rest)
  | [a, b, c, d] =>
    [UInt8.ofNat (pr2six a * 4 ||| pr2six b / 16), UInt8.ofNat (pr2six b * 16 ||| pr2six c / 4),
     UInt8.ofNat (pr2six c * 64 ||| pr2six d)]
  | [a, b, c] =>
    [UInt8.ofNat (pr2six a * 4 ||| pr2six b / 16), UInt8.ofNat (pr2six b * 16 ||| pr2six c / 4)]
  | [a, b] => [UInt8.ofNat (pr2six a * 4 ||| pr2six b / 16)]
  | [_] => []
  | [] => []

/-- The scan `while (bufin != end && pr2six[*bufin] <= 63) bufin++` (with `len ≥ 0`). -/
def b64Scan (s : Bytes) : Bytes := s.takeWhile (fun c => pr2six c ≤ 63)

/-- The return value the C function computes *independently* of what it wrote:
    `((nprbytes + 3) / 4) * 3 - ((4 - remaining) & 3)` where `remaining` is `nprbytes` after the
    `while (nprbytes > 4)` loop. -/
def b64DecodeCount (nprbytes : Nat) : Nat :=
  let remaining := if nprbytes ≤ 4 then nprbytes else (nprbytes - 1) % 4 + 1
  (nprbytes + 3) / 4 * 3 - (4 - remaining) % 4

/-- The bytes `wbxml_base64_decode(buffer, len, &result)` has stored in `*result`, `[0, return value)`.
    A return value larger than the number of bytes written would expose uninitialised memory
    (`Lemmas.Codec.b64DecodeCount_eq`: it never is). -/
def b64DecodeE (s : Bytes) : Except Err Bytes :=
  let p := b64Scan s
  let out := b64DecodeLoop p
  let n := b64DecodeCount p.length
  if n ≤ out.length then .ok (out.take n) else .error (.ub "base64_decode: count exceeds bytes written")

/-- `wbxml_base64_decode` as its callers use it: a return value of 0 (nothing decodable; `*result`
    is then an allocated one-byte block the caller must still free) is treated as failure. -/
def b64Decode (s : Bytes) : Option Bytes :=
  match b64DecodeE s with
  | .ok [] => none
  | .ok r => some r
  | .error _ => none

end Wbxml.Model.Codec
