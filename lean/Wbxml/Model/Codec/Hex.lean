/-
  Model of `wbxml_buffer_binary_to_hex` / `wbxml_buffer_hex_to_binary` (src/wbxml_buffers.c),
  contents to contents, for a dynamic buffer freshly holding the given bytes.
-/
import Wbxml.Prim.Basic
namespace Wbxml.Model.Codec
open Wbxml

/-- `"0123456789ABCDEF"` / `"0123456789abcdef"`. -/
def hexitsUpper : List UInt8 := b!"0123456789ABCDEF"
def hexitsLower : List UInt8 := b!"0123456789abcdef"

/-- `hexits[i]` with the out-of-range read flagged. -/
def hexit (upper : Bool) (i : Nat) : Except Err UInt8 :=
  match (if upper then hexitsUpper else hexitsLower)[i]? with
  | some c => .ok c
  | none => .error (.ub "hexits index out of range")

/-- `data[i*2] = hexits[(data[i] / 16) & 0xf]; data[i*2+1] = hexits[data[i] % 16]` for every `i`. -/
def hexEncodeE (upper : Bool) : Bytes → Except Err Bytes
  | [] => pure []
  | b :: rest => do
    let h ← hexit upper (b.toNat / 16 % 16)
    let l ← hexit upper (b.toNat % 16)
    let r ← hexEncodeE upper rest
    pure (h :: l :: r)

/-- `wbxml_buffer_binary_to_hex(buffer, uppercase)`: new contents (an empty buffer is left alone).
    (`Lemmas.Codec.hexEncodeE_ok`: the index is always in range, the `[]` branch is dead.) -/
def hexEncode (upper : Bool) (bs : Bytes) : Bytes :=
  match hexEncodeE upper bs with
  | .ok r => r
  | .error _ => []

/-- First loop of `hex_to_binary`: every character becomes its digit value, anything that is not a
    hexadecimal digit becomes 0. -/
def hexNibble (c : UInt8) : Nat :=
  if 48 ≤ c.toNat ∧ c.toNat ≤ 57 then c.toNat - 48
  else if 97 ≤ c.toNat ∧ c.toNat ≤ 102 then c.toNat - 97 + 10
  else if 65 ≤ c.toNat ∧ c.toNat ≤ 70 then c.toNat - 65 + 10
  else 0

/-- Second loop: `data[i] = (WB_UTINY)(data[i*2] * 16 | data[i*2+1])` for `i < len / 2`
    (a trailing odd character is dropped). -/
def hexPairs : Bytes → Bytes
  | a :: b :: rest => UInt8.ofNat (hexNibble a * 16 ||| hexNibble b) :: hexPairs rest
  | _ => []

/-- `wbxml_buffer_hex_to_binary(buffer)`: new contents; `.ok` = the function returned TRUE.
    An empty buffer is returned unchanged before `buffer->data` (possibly NULL) is touched
    (fix 53438d2; `hexPairs [] = []`). -/
def hexDecode (s : Bytes) : Except Err Bytes := .ok (hexPairs s)

end Wbxml.Model.Codec
