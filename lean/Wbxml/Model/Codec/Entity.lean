/-
  Model of the UCS-4 → UTF-8 generation in `parse_entity` (src/wbxml_parser.c), i.e. what the
  function stores in `*result` once `parse_entcode` has delivered `code`.

  Notation: `code & 0x3F` = `code % 64`, `code >>= 6` = `code / 64`; the C `|` stays `|||`
  (in `masks[index] | code` the operands overlap whenever the loop leaves too many bits in `code`).
-/
import Wbxml.Prim.Basic
namespace Wbxml.Model.Codec
open Wbxml

/-- `WB_UTINY masks[5]`. -/
def entityMasks : List Nat := [0xFC, 0xF8, 0xF0, 0xE0, 0xC0]

/-- `wbxml_buffer_create_from_cstr(p)`: the bytes up to the first NUL (`strlen`). The callers below
    always pass a NUL-terminated array (`entity[1]` resp. `entity[6]` is never written). -/
def cstr (bs : Bytes) : Bytes := bs.takeWhile (· ≠ 0)

/-- The `while` loop and the lead-octet store; `index` as in the C code, `tail` = `entity[index+1..5]`.

        while (code >= (WB_ULONG)(0x40 >> (5 - index))) {
            entity[index] = 0x80 | (code & 0x3F);  code >>= 6;  index--;
        }
        entity[index] = masks[index] | code;

    (`0x40 >> (5 - index)` = `2^(index+1)` for `index ≤ 5`.)  Writing `entity[-1]` or reading
    `masks[5]` would be out of bounds: both are flagged and proved unreachable for `code ≥ 0x80`. -/
def entityLoop : (index : Nat) → (code : Nat) → (tail : Bytes) → Except Err Bytes
  | index, code, tail =>
    if code ≥ 0x40 / 2 ^ (5 - index) then
      match index with
      | 0 => .error (.ub "parse_entity: entity[-1] written")
      | i + 1 => entityLoop i (code / 64) (UInt8.ofNat (0x80 ||| code % 64) :: tail)
    else
      match entityMasks[index]? with
      | some m => .ok (UInt8.ofNat (m ||| code) :: tail)
      | none => .error (.ub "parse_entity: masks[5] read")

/-- `parse_entity` after `parse_entcode`: the content of the result buffer, or the error code.
    122 = `WBXML_ERROR_INVALID_UNICODE`. Code 0 yields the C string `""`, i.e. an empty buffer. -/
def entityBytes (code : Nat) : Except Err Bytes :=
  if code ≥ 0x80000000 then .error (.code 122)
  else if code < 0x80 then .ok (cstr [UInt8.ofNat code, 0])
  else do
    let e ← entityLoop 5 code []
    pure (cstr (e ++ [0]))

end Wbxml.Model.Codec
