/-
  C18 — the node API of `src/wbxml_tree.c` over an index-linked heap.

  A `WBXMLTreeNode *` is an index into `St.heap` (`none` = NULL).  Freed cells stay in the heap with
  `live = false` (their stale link fields are kept, as in C memory), so use-after-free, double free
  and wild pointers are `Err.ub` results instead of being impossible by construction.  Every C
  statement that reads or writes through a node pointer is a `deref` / `upd` here, in the order of
  the C source.  Allocation never fails in this model (failure schedules: C16).

  `WBXMLTree` = the fields `root`, `lang`, `charset`, `curPage` of `St`.  A nested document
  (`WBXML_TREE_TREE_NODE`) carries its `WBXMLTree` as a plain value: the API under test never
  reaches inside it.
-/
import Wbxml.Model.Tree
import Wbxml.Model.Tables
namespace Wbxml.Model.TreeHeap
open Wbxml Wbxml.Model

/-- What a node carries besides its links (`type`, `name`, `attrs`, `content`, `tree`). -/
inductive Pay where
  | elt (name : Name) (attrs : List Attr)
  | text (s : Bytes)
  | cdata
  | tree (lang : Option Lang) (cs : Nat) (root : Option Node)
  deriving Inhabited

def Pay.isText : Pay → Bool
  | .text _ => true
  | _ => false

/-- May carry children in a document (element, CDATA section). -/
def Pay.isBranch : Pay → Bool
  | .elt _ _ => true
  | .cdata => true
  | _ => false

/-- `WBXMLTreeNode`. -/
structure Cell where
  pay : Pay
  parent : Option Nat := none
  first : Option Nat := none      -- `children`
  next : Option Nat := none
  prev : Option Nat := none
  live : Bool := true
  deriving Inhabited

/-- `WBXMLTree` and the heap its nodes live in. -/
structure St where
  heap : List Cell := []
  root : Option Nat := none
  lang : Option Lang := none
  charset : Nat := 0
  curPage : Nat := 0
  deriving Inhabited

/-- `wbxml_tree_create(lang, orig_charset)`. -/
def create (main : List Lang) (lang : Nat) (cs : Nat) : St :=
  { lang := main.find? (fun l => l.id == lang), charset := cs }

/-- The live cell at an address, if any. -/
def St.cellAt (s : St) (i : Nat) : Option Cell :=
  match s.heap[i]? with
  | some c => if c.live then some c else none
  | none => none

/-- `*p` for a non-NULL node pointer. -/
def St.deref (s : St) (i : Nat) : Except Err Cell :=
  match s.heap[i]? with
  | none => .error (.ub "wild tree node pointer")
  | some c => if c.live then .ok c else .error (.ub "tree node used after free")

/-- `p->field = …` (one or more fields of one node). -/
def St.upd (s : St) (i : Nat) (f : Cell → Cell) : Except Err St :=
  match s.deref i with
  | .error e => .error e
  | .ok c => .ok { s with heap := s.heap.set i (f c) }

/-- `if (q != NULL) q->field = …`. -/
def St.updOpt (s : St) (o : Option Nat) (f : Cell → Cell) : Except Err St :=
  match o with
  | some i => s.upd i f
  | none => .ok s

/-- `wbxml_tree_node_create(type)` + payload: a fresh cell with all four links NULL. -/
def St.alloc (s : St) (p : Pay) : Nat × St :=
  (s.heap.length, { s with heap := s.heap ++ [{ pay := p }] })

/-- `wbxml_tree_node_destroy(node)`: name, attributes, content and nested tree go with the node;
    the links of other nodes are not touched. -/
def St.free (s : St) (i : Nat) : Except Err St :=
  s.upd i (fun c => { c with live := false })

/-- `while (tmp->next != NULL) tmp = tmp->next;` -/
def St.lastSib (s : St) : Nat → Nat → Except Err Nat
  | 0, _ => .error .fuel
  | f + 1, i =>
    match s.deref i with
    | .error e => .error e
    | .ok c =>
      match c.next with
      | none => .ok i
      | some n => lastSib s f n

def Pay.textOf : Pay → Bytes
  | .text s => s
  | _ => []

/-- The normal case of `wbxml_tree_add_node`: `node->prev = tmp; tmp->next = node;`. -/
def linkAppend (s : St) (node t : Nat) : Except Err St := do
  let s ← s.upd node (fun c => { c with prev := some t })
  s.upd t (fun c => { c with next := some node })

/-- The text-merge case of `wbxml_tree_add_node` after `wbxml_buffer_append(tmp->content,
    node->content)` succeeded: `node` takes the place of `tmp` (the last child, a text node), gets
    the joined content, and `tmp` is destroyed. -/
def linkMerge (s : St) (p node t : Nat) (tc nc : Cell) : Except Err St := do
  let s ← (match tc.prev with
    | none => s.upd p (fun c => { c with first := some node })
    | some q => do
      let s ← s.upd q (fun c => { c with next := some node })
      s.upd node (fun c => { c with prev := some q }))
  -- node->content = tmp->content; tmp->content = NULL; wbxml_tree_node_destroy(tmp)
  let s ← s.upd node (fun c => { c with pay := .text (tc.pay.textOf ++ nc.pay.textOf) })
  s.free t

/-- `wbxml_tree_add_node(tree, parent, node)` (tree and node non-NULL). -/
def addNode (s : St) (parent : Option Nat) (node : Nat) : Except Err (Bool × St) := do
  -- node->parent = parent
  let s ← s.upd node (fun c => { c with parent := parent })
  match parent with
  | none =>
    match s.root with
    | some _ => pure (false, s)
    | none => pure (true, { s with root := some node })
  | some p =>
    let pc ← s.deref p
    match pc.first with
    | none =>
      let s ← s.upd p (fun c => { c with first := some node })
      pure (true, s)
    | some fc =>
      let t ← s.lastSib s.heap.length fc
      let tc ← s.deref t
      let nc ← s.deref node
      if nc.pay.isText && tc.pay.isText then do
        let s ← linkMerge s p node t tc nc
        pure (true, s)
      else do
        let s ← linkAppend s node t
        pure (true, s)

/-- `wbxml_tree_node_add_child(parent, node)`: like `addNode` under a parent but WITHOUT the text
    merge (not part of the histories of C18; kept for the comparison in `Props/C18`). -/
def addChild (s : St) (p : Nat) (node : Nat) : Except Err St := do
  let s ← s.upd node (fun c => { c with parent := some p })
  let pc ← s.deref p
  match pc.first with
  | none => s.upd p (fun c => { c with first := some node })
  | some fc =>
    let t ← s.lastSib s.heap.length fc
    let s ← s.upd node (fun c => { c with prev := some t })
    s.upd t (fun c => { c with next := some node })

/-- `wbxml_tree_extract_node(tree, node)` (both non-NULL). `fixed = false` is the code as pinned
    (`tree->root = node->next` for every parent-less node), `fixed = true` the repaired code
    (only when `node` is the root). -/
def extractNodeG (fixed : Bool) (s : St) (node : Nat) : Except Err St := do
  let nc ← s.deref node
  let s ← (match nc.parent with
    | some p => do
      let pc ← s.deref p
      -- if (node->parent->children == node) node->parent->children = node->next;
      let s ← s.updOpt (if pc.first = some node then some p else none) (fun c => { c with first := nc.next })
      s.upd node (fun c => { c with parent := none })
    | none =>
      if fixed && s.root != some node then pure s
      else pure { s with root := nc.next })
  -- if (node->next != NULL) node->next->prev = node->prev;
  let s ← s.updOpt nc.next (fun c => { c with prev := nc.prev })
  -- if (node->prev != NULL) node->prev->next = node->next;
  let s ← s.updOpt nc.prev (fun c => { c with next := nc.next })
  s.upd node (fun c => { c with next := none, prev := none })

/-- Which of the two behaviours the pinned working tree has (see DESIGN_NOTES/C18.md). -/
def extractFixed : Bool := true

def extractNode (s : St) (node : Nat) : Except Err St := extractNodeG extractFixed s node

/-- Common tail of the `wbxml_tree_add_*` functions: create, `add_node`, destroy on refusal. -/
def addFresh (s : St) (parent : Option Nat) (p : Pay) : Except Err (Option Nat × St) := do
  let (n, s) := s.alloc p
  let (ok, s) ← addNode s parent n
  if ok then pure (some n, s)
  else
    let s ← s.free n
    pure (none, s)

/-- `wbxml_tree_add_elt(tree, parent, tag)`. -/
def addElt (s : St) (parent : Option Nat) (name : Name) : Except Err (Option Nat × St) :=
  addFresh s parent (.elt name [])

def Pay.addAttrs (p : Pay) (attrs : List Attr) : Pay :=
  match p with
  | .elt n a => .elt n (a ++ attrs)
  | p => p

/-- `wbxml_tree_node_add_attrs(node, attrs)`: duplicates appended in order. -/
def addAttrs (s : St) (node : Nat) (attrs : List Attr) : Except Err St :=
  s.upd node (fun c => { c with pay := c.pay.addAttrs attrs })

/-- `wbxml_tree_add_elt_with_attrs(tree, parent, tag, attrs)`. -/
def addEltWithAttrs (s : St) (parent : Option Nat) (name : Name) (attrs : List Attr) :
    Except Err (Option Nat × St) := do
  let (r, s) ← addElt s parent name
  match r with
  | none => pure (none, s)
  | some n =>
    if attrs.isEmpty then pure (some n, s)
    else
      let s ← addAttrs s n attrs
      pure (some n, s)

/-- `wbxml_tree_add_text(tree, parent, text, len)`. -/
def addText (s : St) (parent : Option Nat) (t : Bytes) : Except Err (Option Nat × St) :=
  addFresh s parent (.text t)

/-- `wbxml_tree_add_cdata(tree, parent)`. -/
def addCdata (s : St) (parent : Option Nat) : Except Err (Option Nat × St) :=
  addFresh s parent .cdata

/-- `wbxml_tree_add_tree(tree, parent, new_tree)`: the node is added empty, then given the tree
    (which it owns from then on; on refusal the caller keeps `new_tree`). -/
def addTree (s : St) (parent : Option Nat) (t : Tree) : Except Err (Option Nat × St) := do
  let (r, s) ← addFresh s parent (.tree none 0 none)
  match r with
  | none => pure (none, s)
  | some n =>
    let s ← s.upd n (fun c => { c with pay := .tree t.lang t.origCharset t.root })
    pure (some n, s)

/-- `strrchr(name, '|')`: (namespace, element name); no separator ⇒ empty namespace. -/
def splitNs (name : Bytes) : Bytes × Bytes :=
  if name.contains 124 then
    let rev := name.reverse
    (((rev.dropWhile (· != 124)).drop 1).reverse, (rev.takeWhile (· != 124)).reverse)
  else ([], name)

/-- The tag `wbxml_tree_add_xml_elt` gives to an XML name, and the code page it leaves in
    `tree->cur_code_page`.  This is the very function the XML front end calls for every start tag. -/
def xmlEltName (lang : Lang) (name : Bytes) : Name × Nat :=
  let (ns, elt) := splitNs name
  let page := match lang.ns with
    | some t => pageOfNs t ns
    | none => 0
  match lang.tags with
  | some tags =>
    (match encTag tags (some page) elt with
     | some r => (.token r, r.page)
     | none => (.literal elt, page))
  | none => (.literal elt, page)

/-- `wbxml_tree_add_xml_elt(tree, parent, name)`; `tree->lang` is dereferenced unchecked. -/
def addXmlElt (s : St) (parent : Option Nat) (name : Bytes) : Except Err (Option Nat × St) :=
  match s.lang with
  | none => .error (.ub "wbxml_tree_add_xml_elt: tree->lang is NULL")
  | some lang =>
    let (nm, page) := xmlEltName lang name
    addFresh { s with curPage := page } parent (.elt nm [])

/-- `wbxml_tree_node_add_xml_attr(lang, node, name, value)`: the attribute as stored. -/
def xmlAttr (lang : Lang) (nv : Bytes × Bytes) : Attr :=
  let nm : AName := match lang.attrs with
    | some t => (match encAttr t nv.1 nv.2 with
      | some (r, _) => .token r
      | none => .literal nv.1)
    | none => .literal nv.1
  { name := nm, value := nv.2 }

/-- `wbxml_tree_add_xml_elt_with_attrs(tree, parent, name, attrs)`. -/
def addXmlEltWithAttrs (s : St) (parent : Option Nat) (name : Bytes) (attrs : List (Bytes × Bytes)) :
    Except Err (Option Nat × St) := do
  let (r, s) ← addXmlElt s parent name
  match r, s.lang with
  | some n, some lang =>
    if attrs.isEmpty then pure (some n, s)
    else
      let s ← addAttrs s n (attrs.map (xmlAttr lang))
      pure (some n, s)
  | _, _ => pure (r, s)

/-- `wbxml_tree_add_xml_elt_with_attrs_and_text(tree, parent, name, attrs, text, len)`. -/
def addXmlEltWithAttrsAndText (s : St) (parent : Option Nat) (name : Bytes) (attrs : List (Bytes × Bytes))
    (text : Bytes) : Except Err (Option Nat × St) := do
  let (r, s) ← addXmlEltWithAttrs s parent name attrs
  match r with
  | none => pure (none, s)
  | some n =>
    if text.isEmpty then pure (some n, s)
    else
      let (_, s) ← addText s (some n) text
      pure (some n, s)

/-- The `while (!end_of_walk)` loop of `wbxml_tree_node_destroy_all`: `cur` is `current_node`,
    `prev` is `previous_node`, `stop` is `parent_node` (the parent of the sub-tree's root). -/
def destroyLoop (stop : Option Nat) : Nat → St → Option Nat → Option Nat → Except Err St
  | 0, _, _, _ => .error .fuel
  | f + 1, s, some c, _ =>
    -- go deeper
    match s.deref c with
    | .error e => .error e
    | .ok cc => destroyLoop stop f s cc.first (some c)
  | f + 1, s, none, prev =>
    match prev with
    | none => .ok s
    | some p =>
      match s.deref p with
      | .error e => .error e
      | .ok pc =>
        if pc.parent = stop then .ok s
        else
          match s.free p with
          | .error e => .error e
          | .ok s' => destroyLoop stop f s' pc.next pc.parent

/-- `wbxml_tree_node_destroy_all(node)` (node non-NULL). -/
def destroyAll (s : St) (node : Nat) : Except Err St := do
  let nc ← s.deref node
  let s ← destroyLoop nc.parent (2 * s.heap.length + 2) s (some node) none
  s.free node

/-- `wbxml_tree_destroy(tree)` as far as the nodes go. -/
def destroyTree (s : St) : Except Err St :=
  match s.root with
  | none => pure s
  | some r => do
    let s ← destroyAll s r
    pure { s with root := none }

/-! ### Abstraction: the plain tree a sub-graph of the heap denotes (walks `children` / `next`) -/

def mkNode (p : Pay) (kids : List Node) : Node :=
  match p with
  | .elt n a => .elt n a kids
  | .text t => .text t
  | .cdata => .cdata kids
  | .tree l cs r => .tree l cs r

mutual
/-- The node at `i` with everything below it. -/
def absNode (s : St) : Nat → Nat → Except Err Node
  | 0, _ => .error .fuel
  | f + 1, i =>
    match s.deref i with
    | .error e => .error e
    | .ok c =>
      match absList s f c.first with
      | .error e => .error e
      | .ok ks => .ok (mkNode c.pay ks)
/-- The sibling chain starting at a pointer. -/
def absList (s : St) : Nat → Option Nat → Except Err (List Node)
  | 0, _ => .error .fuel
  | _ + 1, none => .ok []
  | f + 1, some i =>
    match absNode s f i with
    | .error e => .error e
    | .ok n =>
      match s.deref i with
      | .error e => .error e
      | .ok c =>
        match absList s f c.next with
        | .error e => .error e
        | .ok rest => .ok (n :: rest)
end

def St.fuel (s : St) : Nat := 2 * s.heap.length + 2

/-- `abs` of the whole `WBXMLTree`. -/
def absTree (s : St) : Except Err Tree :=
  match s.root with
  | none => .ok { lang := s.lang, origCharset := s.charset, root := none }
  | some r =>
    match absNode s s.fuel r with
    | .error e => .error e
    | .ok n => .ok { lang := s.lang, origCharset := s.charset, root := some n }

/-- The children of the node at `p` as a plain list. -/
def kidsAbs (s : St) (p : Nat) : Except Err (List Node) :=
  match s.deref p with
  | .error e => .error e
  | .ok c => absList s s.fuel c.first

/-- The addresses of a sibling chain and everything below it, in document order. -/
def idsList (s : St) : Nat → Option Nat → Except Err (List Nat)
  | 0, _ => .error .fuel
  | _ + 1, none => .ok []
  | f + 1, some i =>
    match s.deref i with
    | .error e => .error e
    | .ok c =>
      match idsList s f c.first with
      | .error e => .error e
      | .ok a =>
        match idsList s f c.next with
        | .error e => .error e
        | .ok b => .ok (i :: (a ++ b))

/-- Addresses strictly below `node`. -/
def below (s : St) (node : Nat) : Except Err (List Nat) :=
  match s.deref node with
  | .error e => .error e
  | .ok c => idsList s s.fuel c.first

/-- "Adjacent text siblings have been merged": no live text node whose `next` is a live text node. -/
def NoAdjText (s : St) : Prop :=
  ∀ i j ci cj, s.cellAt i = some ci → ci.next = some j → s.cellAt j = some cj →
    ¬ (ci.pay.isText = true ∧ cj.pay.isText = true)

/-! ### Histories -/

/-- One call of the tree API. Node arguments are addresses (what the call returned earlier). -/
inductive Op where
  | addElt (parent : Option Nat) (name : Name)
  | addEltAttrs (parent : Option Nat) (name : Name) (attrs : List Attr)
  | addXmlElt (parent : Option Nat) (name : Bytes)
  | addXmlEltAttrs (parent : Option Nat) (name : Bytes) (attrs : List (Bytes × Bytes))
  | addXmlEltAttrsText (parent : Option Nat) (name : Bytes) (attrs : List (Bytes × Bytes)) (text : Bytes)
  | addText (parent : Option Nat) (t : Bytes)
  | addCdata (parent : Option Nat)
  | addTree (parent : Option Nat) (t : Tree)
  | addNode (parent : Option Nat) (node : Nat)
  | extract (node : Nat)
  | destroy (node : Nat)

def Op.isExtract : Op → Bool
  | .extract _ => true
  | _ => false

/-- What a call answers: a node pointer (or NULL), a truth value, an error code. -/
inductive Ret where
  | node (r : Option Nat)
  | bool (b : Bool)
  | code (c : Nat)
  | unit
  | skipped
  deriving DecidableEq, Repr

/-- A parent argument the document model allows: NULL, or a live element / CDATA node. -/
def parentOK (s : St) : Option Nat → Bool
  | none => true
  | some p => match s.cellAt p with
    | some c => c.pay.isBranch
    | none => false

/-- `node` is live and linked nowhere (freshly extracted): not the root, no parent, no siblings. -/
def isDetached (s : St) (node : Nat) : Bool :=
  match s.cellAt node with
  | some c => c.parent.isNone && c.next.isNone && c.prev.isNone && s.root != some node
  | none => false

/-- `parent` is neither `node` nor below it (inserting there would tie a cycle). -/
def notBelow (s : St) (node : Nat) : Option Nat → Bool
  | none => true
  | some p =>
    p != node &&
    (match below s node with
     | .ok l => !l.contains p
     | .error _ => false)

/-- The calls the histories of C18 range over: arguments are live nodes used as the headers
    document (a parent that can have children, re-insertion and destruction of detached nodes
    only, no insertion of a node below itself).  Everything else is skipped on both sides of the
    correspondence. -/
def pre (s : St) : Op → Bool
  | .addElt p _ => parentOK s p
  | .addEltAttrs p _ _ => parentOK s p
  | .addXmlElt p _ => parentOK s p && s.lang.isSome
  | .addXmlEltAttrs p _ _ => parentOK s p && s.lang.isSome
  | .addXmlEltAttrsText p _ _ _ => parentOK s p && s.lang.isSome
  | .addText p _ => parentOK s p
  | .addCdata p => parentOK s p
  | .addTree p _ => parentOK s p
  | .addNode p n => parentOK s p && isDetached s n && notBelow s n p
  | .extract n => (s.cellAt n).isSome
  | .destroy n => isDetached s n

def wrapN (r : Except Err (Option Nat × St)) : Except Err (Ret × St) :=
  match r with
  | .error e => .error e
  | .ok (n, s) => .ok (.node n, s)

/-- Run one call. -/
def step (s : St) : Op → Except Err (Ret × St)
  | .addElt p n => wrapN (addElt s p n)
  | .addEltAttrs p n a => wrapN (addEltWithAttrs s p n a)
  | .addXmlElt p n => wrapN (addXmlElt s p n)
  | .addXmlEltAttrs p n a => wrapN (addXmlEltWithAttrs s p n a)
  | .addXmlEltAttrsText p n a t => wrapN (addXmlEltWithAttrsAndText s p n a t)
  | .addText p t => wrapN (addText s p t)
  | .addCdata p => wrapN (addCdata s p)
  | .addTree p t => wrapN (addTree s p t)
  | .addNode p n =>
    match addNode s p n with
    | .error e => .error e
    | .ok (b, s) => .ok (.bool b, s)
  | .extract n =>
    match extractNode s n with
    | .error e => .error e
    | .ok s => .ok (.code 0, s)
  | .destroy n =>
    match destroyAll s n with
    | .error e => .error e
    | .ok s => .ok (.unit, s)

/-- One call of a history: calls outside `pre` are skipped. -/
def stepChecked (s : St) (op : Op) : Except Err (Ret × St) :=
  if pre s op then step s op else .ok (.skipped, s)

/-- A whole history. -/
def run (s : St) : List Op → Except Err St
  | [] => .ok s
  | op :: rest =>
    match stepChecked s op with
    | .error e => .error e
    | .ok (_, s') => run s' rest

end Wbxml.Model.TreeHeap
