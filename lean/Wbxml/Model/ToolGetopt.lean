/-
  C20 — model of the command-line tools, part 2: option scanning.

  Two scanners exist. Which one a build uses is decided by `tools/getopt.h`:
  * `attScan`  — `wbxml_getopt` of `tools/attgetopt.c`, mirrored statement for statement with its
    two pieces of state (`optind`, the function-static `sp`) and with every raw `argv[optind][j]`
    read made visible (`Err.ub` when the index leaves the string or `optind ≥ argc`).
  * `gnuScan`  — what `getopt(3)` of glibc does for a short-option string in its default (permuting)
    mode. libc is a parameter of the model (DESIGN §7); this is its assumed behaviour, written as a
    specification, and it is the scanner of the stock Linux build (`FOUND_POSIX_GETOPT`).

  Both deliver a `ScanRes`: the events `main`'s `while ((opt = getopt(..)) != EOF)` loop sees, and
  the `optind` / `argv` it finds afterwards.
-/
import Wbxml.Model.Tool
namespace Wbxml.Model.Tool
open Wbxml

/-- One non-EOF return of getopt: the option character returned (`'?'` = 63 for errors), `optarg`
    (`none` = NULL) and the lines getopt itself printed on stderr during that call. -/
structure Ev where
  opt : UInt8
  arg : Option Bytes
  err : List Bytes
  deriving Repr, DecidableEq, Inhabited

structure ScanRes where
  evs : List Ev
  optind : Nat
  argv : Argv
  deriving Repr, DecidableEq, Inhabited

/-- `strchr(opts, c)` followed by `*++cp == ':'`: `none` = not found, `some takesArg`. -/
def optLookup : Bytes → UInt8 → Option Bool
  | [], _ => none
  | o :: rest, c => if o == c then some (rest.head? == some 58) else optLookup rest c

/-! ### attgetopt.c -/

/-- `w[j]` for a C string `w`: the terminating NUL sits at `j = length`. -/
def wchar (w : Bytes) (j : Nat) : Except Err UInt8 :=
  match w[j]? with
  | some c => .ok c
  | none => if j = w.length then .ok 0
            else .error (.ub "read past the terminating NUL of an argv string")

/-- `argv[i]` dereferenced (`argv[argc]` is NULL). -/
def argvAt (argv : Argv) (i : Nat) : Except Err Bytes :=
  match argv[i]? with
  | some w => .ok w
  | none => .error (.ub "argv[i] dereferenced with i >= argc")

structure GState where
  optind : Nat
  sp : Nat
  deriving Repr, DecidableEq, Inhabited

inductive Step where
  | eof (st : GState)
  | ev (e : Ev) (st : GState)
  deriving Repr, DecidableEq, Inhabited

def attIllegal (argv0 : Bytes) (c : UInt8) : Bytes := argv0 ++ b!": illegal option -- " ++ [c]
def attNeedsArg (argv0 : Bytes) (c : UInt8) : Bytes := argv0 ++ b!": option requires an argument -- " ++ [c]

/-- `if (argv[optind][++sp] == '\0') { optind++; sp = 1; }` given the character read. -/
def advance (st : GState) (nxt : UInt8) : GState :=
  if nxt == 0 then ⟨st.optind + 1, 1⟩ else ⟨st.optind, st.sp + 1⟩

/-- The three outcomes after `c` has been classified (`look` = result of the `strchr`/`':'` test). -/
def attDecide (argv : Argv) (st : GState) (w argv0 : Bytes) (c nxt : UInt8) (look : Option Bool) :
    Except Err Step :=
  match look with
  | none =>
    -- illegal option: message, advance, return '?'
    .ok (.ev ⟨63, none, [attIllegal argv0 c]⟩ (advance st nxt))
  | some false =>
    -- plain option: advance, optarg = NULL
    .ok (.ev ⟨c, none, []⟩ (advance st nxt))
  | some true =>
    if nxt != 0 then
      -- optarg = &argv[optind++][sp+1]; sp = 1
      .ok (.ev ⟨c, some (w.drop (st.sp + 1)), []⟩ ⟨st.optind + 1, 1⟩)
    else if st.optind + 1 ≥ argv.length then
      -- `++optind >= argc`: message, sp = 1, return '?'
      .ok (.ev ⟨63, none, [attNeedsArg argv0 c]⟩ ⟨st.optind + 1, 1⟩)
    else
      -- optarg = argv[optind++] (after the ++optind above); sp = 1
      match argvAt argv (st.optind + 1) with
      | .error e => .error e
      | .ok a => .ok (.ev ⟨c, some a, []⟩ ⟨st.optind + 2, 1⟩)

/-- From `c = argv[optind][sp]` to the `return`. The read of `argv[optind][sp+1]` happens in every
    branch of the C code (`[++sp]` or `[sp+1]`), `argv[0]` is read only for messages (it exists
    whenever `argv[optind]` does). -/
def attBody (opts : Bytes) (argv : Argv) (st : GState) : Except Err Step :=
  match argvAt argv st.optind with
  | .error e => .error e
  | .ok w =>
  match wchar w st.sp with
  | .error e => .error e
  | .ok c =>
    if c == 0 then .error (.ub "strchr matched the terminator of opts; *++cp reads past it")
    else
    match argvAt argv 0 with
    | .error e => .error e
    | .ok argv0 =>
    match wchar w (st.sp + 1) with
    | .error e => .error e
    | .ok nxt => attDecide argv st w argv0 c nxt (if c == 58 then none else optLookup opts c)

/-- One call of `wbxml_getopt(argc, argv, opts)`. -/
def attStep (opts : Bytes) (argv : Argv) (st : GState) : Except Err Step :=
  if st.sp == 1 then
    if st.optind ≥ argv.length then .ok (.eof st)
    else
      match argvAt argv st.optind with
      | .error e => .error e
      | .ok w =>
        match wchar w 0 with
        | .error e => .error e
        | .ok c0 =>
          if c0 != 45 then .ok (.eof st)
          else
            match wchar w 1 with
            | .error e => .error e
            | .ok c1 => if c1 == 0 then .ok (.eof st) else attBody opts argv st
  else
    -- `else if (!strcmp(argv[optind], "--")) { optind++; return EOF; }` (sp is left as it is)
    match argvAt argv st.optind with
    | .error e => .error e
    | .ok w => if w == b!"--" then .ok (.eof ⟨st.optind + 1, st.sp⟩) else attBody opts argv st

/-- `main`'s loop around `wbxml_getopt`, run to EOF. -/
def attLoop (opts : Bytes) (argv : Argv) : Nat → GState → List Ev → Except Err ScanRes
  | 0, _, _ => .error .fuel
  | n + 1, st, acc =>
    match attStep opts argv st with
    | .error e => .error e
    | .ok (.eof st') => .ok ⟨acc.reverse, st'.optind, argv⟩
    | .ok (.ev e st') => attLoop opts argv n st' (e :: acc)

/-- Characters (plus terminators) from `argv[i]` to the end. -/
def remChars (argv : Argv) (i : Nat) : Nat := ((argv.drop i).map (fun w => w.length + 1)).sum

def attFuel (argv : Argv) : Nat := remChars argv 0 + 2

/-- `optind = 1`, `sp = 1` are the initial values of the global and the static. -/
def attScan (opts : Bytes) (argv : Argv) : Except Err ScanRes :=
  attLoop opts argv (attFuel argv) ⟨1, 1⟩ []

/-! ### glibc getopt (short options, default permuting mode, `opterr = 1`, no POSIXLY_CORRECT) -/

def gnuInvalid (argv0 : Bytes) (c : UInt8) : Bytes := argv0 ++ b!": invalid option -- '" ++ [c] ++ b!"'"
def gnuNeedsArg (argv0 : Bytes) (c : UInt8) : Bytes := argv0 ++ b!": option requires an argument -- '" ++ [c] ++ b!"'"

/-- The characters of one option word after its `-`; `next` = the words that follow it.
    Returns the events and whether the following word was consumed as an option argument. -/
def gnuCluster (opts argv0 : Bytes) : Bytes → List Bytes → List Ev × Bool
  | [], _ => ([], false)
  | c :: cs, next =>
    match (if c == 58 || c == 59 then none else optLookup opts c) with
    | none =>
      let r := gnuCluster opts argv0 cs next
      (⟨63, none, [gnuInvalid argv0 c]⟩ :: r.1, r.2)
    | some false =>
      let r := gnuCluster opts argv0 cs next
      (⟨c, none, []⟩ :: r.1, r.2)
    | some true =>
      match cs, next with
      | _ :: _, _ => ([⟨c, some cs, []⟩], false)
      | [], [] => ([⟨63, none, [gnuNeedsArg argv0 c]⟩], false)
      | [], a :: _ => ([⟨c, some a, []⟩], true)

structure GnuAcc where
  evs : List Ev
  optWords : List Bytes
  nonOpts : List Bytes
  deriving Repr, DecidableEq, Inhabited

/-- An option element: starts with `-` and is not exactly `-`. -/
def isOptWord (w : Bytes) : Bool :=
  match w with
  | 45 :: _ :: _ => true
  | _ => false

/-- Walk over `argv[1..]`. `skip` = this word was already taken as the previous option's argument. -/
def gnuWords (opts argv0 : Bytes) : List Bytes → Bool → GnuAcc
  | [], _ => ⟨[], [], []⟩
  | w :: rest, true =>
    let r := gnuWords opts argv0 rest false
    ⟨r.evs, w :: r.optWords, r.nonOpts⟩
  | w :: rest, false =>
    if w == b!"--" then ⟨[], [w], rest⟩
    else if isOptWord w then
      let c := gnuCluster opts argv0 (w.drop 1) rest
      let r := gnuWords opts argv0 rest c.2
      ⟨c.1 ++ r.evs, w :: r.optWords, r.nonOpts⟩
    else
      let r := gnuWords opts argv0 rest false
      ⟨r.evs, r.optWords, w :: r.nonOpts⟩

/-- Result of running getopt to −1: options (and `--`) permuted in front of the non-options,
    `optind` at the first non-option. `argc < 1` returns −1 at once with `optind = 1`. -/
def gnuScan (opts : Bytes) (argv : Argv) : ScanRes :=
  match argv with
  | [] => ⟨[], 1, []⟩
  | argv0 :: rest =>
    let r := gnuWords opts argv0 rest false
    ⟨r.evs, 1 + r.optWords.length, argv0 :: (r.optWords ++ r.nonOpts)⟩

end Wbxml.Model.Tool
