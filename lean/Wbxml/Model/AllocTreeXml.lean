/-
  C16 — the Expat-driven tree building of `wbxml_tree_from_xml` on the ledger: the call-backs of
  `wbxml_tree_clb_xml.c` (`start_element`, `end_element`, `start_cdata`, `end_cdata`, `characters`;
  `xml_decl`, `doctype_decl` and `pi` allocate nothing) and the functions of `wbxml_tree.c` they use
  that `Model/AllocTree.lean` does not have yet: `wbxml_tree_add_xml_elt`,
  `wbxml_tree_add_xml_elt_with_attrs`, `wbxml_tree_node_add_xml_attr(s)`, and
  `wbxml_buffer_decode_base64` for the content of a binary element.

  Expat itself is outside: `XML_ParserCreateNS` / `XML_Parse` / `XML_ParserFree` allocate with libc
  `malloc`, which is neither failed nor on the ledger.  What Expat and the language tables decide is
  the input: the list of call-back events, and per event
    * start:  whether a language table is known once the root element is seen (`langOk`), the tag as a
              table row or a literal name, per attribute the name as a row or a literal, the part of
              the name after the XML namespace URI (for `xml:lang` …), the value;
    * characters: the bytes and what `wbxml_tree_node_get_syncml_data_type` says (it only reads);
  and for the whole run `binRow`: which rows of the tag table have `WBXML_TAG_OPTION_BINARY` (the test
  is made on `current` itself, which stops moving once `ctx->error` is set).  What the cached base64
  text of a binary element decodes to is computed (`Codec.b64Decode`, the model of `wbxml_base64_decode`):
  after a failed append the cache is not the text of the document.
  Not part of an event list: an element `syncml:devinf|DevInf` / `syncml:dmddf1.2|MgmtTree` below the
  root (the embedded-document conversion at its end tag: a nested `wbxml_tree_from_xml`); with it goes
  the skip-level counter, which only such an element raises and which allocates nothing.
-/
import Wbxml.Model.AllocTree
import Wbxml.Spec.Seq
import Wbxml.Model.Codec.Base64
namespace Wbxml.Model.Alloc
open Wbxml

def EB64DEC : Nat := 19            -- WBXML_ERROR_B64_DEC
def EXMLLANG : Nat := 101          -- WBXML_ERROR_UNKNOWN_XML_LANGUAGE
def EXMLPARSE : Nat := 104         -- WBXML_ERROR_XML_PARSING_FAILED

/-- What the table lookup makes of a name. -/
inductive XName where
  | token (row : Nat)
  | literal (name : Bytes)
  deriving Repr, DecidableEq, Inhabited

structure XAttrIn where
  /-- the name starts with the XML namespace URI: what follows the URI (`|lang`) -/
  xmlNs : Option Bytes
  name : XName
  value : Bytes
  deriving Repr, DecidableEq, Inhabited

/-- `WBXMLSyncMLDataType` as far as `characters` distinguishes it. -/
inductive DataType where
  | normal
  | clear                            -- text/clear: a missing CDATA section is added
  | vobject                          -- vCard / vCalendar / vObject: also LF → CRLF
  deriving Repr, DecidableEq, Inhabited

inductive XEvent where
  | start (langOk : Bool) (tag : XName) (attrs : List XAttrIn)
  | stop
  | startCdata
  | endCdata
  | chars (text : Bytes) (dt : DataType)
  deriving Repr, Inhabited

/-! ### `wbxml_tree_add_xml_elt_with_attrs` -/

/-- `wbxml_tag_create_token` / `wbxml_tag_create_literal`, `wbxml_attribute_name_create_*`. -/
def xnameCreate : XName → Prog (Option AName)
  | .token r => nameCreateToken r
  | .literal v => nameCreateLiteral (some v)

/-- `wbxml_tree_add_xml_elt(tree, parent, name)`: tag first, then the node. -/
def treeAddXmlElt (c : TCtx) (tag : XName) : Prog (TCtx × Bool) := do
  let t ← xnameCreate tag
  match t with
  | none => pure (c, false)
  | some t => do
    let n ← nodeCreate
    match n with
    | none => do nameDestroy (some t); pure (c, false)
    | some n => do
      let n := { n with name := some t }
      let (c, ok) ← addOpen c .elt n
      if !ok then do nodeDestroy (some n); pure (c, false)
      else pure (c, true)

/-- The name of an attribute in `wbxml_tree_node_add_xml_attr`; for a name in the XML namespace the
    temporary buffer `"xml:" + local name` is made first.  NULL: the name could not be made (every
    temporary released). -/
def xmlAttrName (a : XAttrIn) : Prog (Option AName) :=
  match a.xmlNs with
  | some rest => do
    let xn ← bufCreate (some b!"xml:") 4                      -- wbxml_buffer_create_from_cstr("xml:")
    match xn with
    | none => pure none                                       -- wbxml_buffer_destroy(NULL)
    | some xn => do
      let (xn, ok) ← bufAppendData xn (some rest)             -- wbxml_buffer_append_cstr
      if !ok then do bufDestroy (some xn); pure none
      else do
        let nm ← (match a.name with
          | .token r => nameCreateToken r
          | .literal _ => do
            let s ← bufCstr xn
            nameCreateLiteral s)
        bufDestroy (some xn)
        pure nm
  | none => xnameCreate a.name

/-- `wbxml_tree_node_add_xml_attr(lang_table, node, name, value)`. -/
def nodeAddXmlAttr (n : ANode) (a : XAttrIn) : Prog (ANode × Nat) := do
  deref (some n.hdr)
  let l ← (match n.attrs with
    | some l => pure (some l)
    | none => listCreate)
  match l with
  | none => pure (n, ENOMEM)
  | some l => do
    let n := { n with attrs := some l }
    let attr ← attrCreate
    match attr with
    | none => pure (n, ENOMEM)
    | some attr => do
      let nm ← xmlAttrName a
      match nm with
      | none => do attrDestroy (some attr); pure (n, ENOMEM)
      | some nm => do
        let attr := { attr with name := some nm }
        let v ← bufCreate (some a.value) a.value.length
        match v with
        | none => do attrDestroy (some attr); pure (n, ENOMEM)
        | some v => do
          let attr := { attr with value := some v }
          let (l, ok) ← listAppend l attr
          if !ok then do attrDestroy (some attr); pure (n, ENOMEM)
          else pure ({ n with attrs := some l }, OK)

/-- `wbxml_tree_node_add_xml_attrs`. -/
def nodeAddXmlAttrs (n : ANode) : List XAttrIn → Prog (ANode × Nat)
  | [] => pure (n, OK)
  | a :: rest => do
    let (n, ret) ← nodeAddXmlAttr n a
    if ret != OK then pure (n, ENOMEM) else nodeAddXmlAttrs n rest

/-- `wbxml_tree_add_xml_elt_with_attrs(tree, parent, name, attrs)`. -/
def treeAddXmlEltWithAttrs (c : TCtx) (tag : XName) (attrs : List XAttrIn) : Prog (TCtx × Bool) := do
  let (c, ok) ← treeAddXmlElt c tag
  if !ok then pure (c, false)
  else if attrs.isEmpty then pure (c, true)
  else match c.frames with
    | [] => ub "no current node after wbxml_tree_add_xml_elt"
    | f :: rest => do
      let (n, ret) ← nodeAddXmlAttrs f.node attrs
      let c := { c with frames := { f with node := n } :: rest }
      if ret != OK then do
        let c ← extractHead c
        nodeDestroy (some n)
        pure (c, false)
      else pure (c, true)

/-! ### The call-backs -/

/-- `wbxml_tree_clb_xml_start_element` (no embedded element: see the head of the file). -/
def clbXmlStart (c : TCtx) (langOk : Bool) (tag : XName) (attrs : List XAttrIn) : Prog TCtx :=
  if c.error != OK then pure c
  else if c.frames.isEmpty && !langOk then pure { c with error := EXMLLANG }
  else do
    let (c, ok) ← treeAddXmlEltWithAttrs c tag attrs
    if !ok then pure { dropCurrent c with error := ENOMEM }
    else pure c

/-- `node->type == WBXML_TREE_ELEMENT_NODE && node->name->type == WBXML_VALUE_TOKEN &&
    node->name->u.token->options & WBXML_TAG_OPTION_BINARY` for `current`. -/
def frameBinary (binRow : Nat → Bool) (f : Frame) : Bool :=
  f.kind == .elt && (match f.node.name with
    | some t => (match t.v with | .token r => binRow r | .literal _ => false)
    | none => false)

/-- `wbxml_buffer_decode_base64(buffer)`: (buffer, code). -/
def bufDecodeB64 (b : ABuf) : Prog (ABuf × Nat) := do
  deref (some b.hdr)
  if b.isStatic then pure (b, EINTERNAL)
  else do
    -- wbxml_buffer_no_spaces: in place
    let b := { b with bytes := b.bytes.filter (fun ch => !Spec.Seq.ws ch) }
    let r ← malloc                       -- wbxml_base64_decode: the result block, also for an empty text
    match r with
    | none => pure (b, EB64DEC)          -- length 0; wbxml_free(NULL)
    | some r =>
      match Codec.b64Decode b.bytes with
      | none => do                       -- nothing decodable
        free (some r)
        pure (b, EB64DEC)
      | some decoded => do
        -- wbxml_buffer_delete(buffer, 0, len), wbxml_buffer_append_data(buffer, result, len)
        let (b, ok) ← bufAppendData { b with bytes := [] } (some decoded)
        free (some r)
        pure (b, if ok then OK else ENOMEM)

/-- The head of `wbxml_tree_clb_xml_end_element`: the cached base64 text of a binary element is
    decoded and becomes a text node; the cache is destroyed.  It runs whatever `ctx->error` is.
    (The model takes the buffer off the node first; the C code does `node->content = NULL` last, and
    nothing in between reaches the buffer through the node.) -/
def xmlBinaryEnd (binRow : Nat → Bool) (c : TCtx) : Prog TCtx :=
  match c.frames with
  | [] => pure c
  | f :: rest =>
    if !frameBinary binRow f then pure c
    else do
      deref (some f.node.hdr)
      match f.node.content with
      | none => pure c
      | some content => do
        let c0 : TCtx := { c with frames := { f with node := { f.node with content := none } } :: rest }
        let (content, ret) ← bufDecodeB64 content
        let c1 ← (if ret != OK then pure { c0 with error := ret }
          else do
            let _ ← bufCstr content
            let (c1, ok) ← treeAddText c0 content.bytes
            if !ok then pure { c1 with error := EINTERNAL } else pure c1)
        bufDestroy (some content)
        pure c1

/-- `wbxml_tree_clb_xml_end_element`: after the binary step, `current` moves up exactly as in the
    WBXML call-back. -/
def clbXmlEnd (binRow : Nat → Bool) (c : TCtx) : Prog TCtx := do
  let c ← xmlBinaryEnd binRow c
  clbEndElement c

/-- `wbxml_tree_clb_xml_start_cdata`. -/
def clbXmlStartCdata (c : TCtx) : Prog TCtx :=
  if c.error != OK then pure c
  else do
    let (c, ok) ← treeAddCdata c
    if !ok then pure { dropCurrent c with error := EINTERNAL } else pure c

/-- `wbxml_tree_clb_xml_end_cdata`. -/
def clbXmlEndCdata (c : TCtx) : Prog TCtx :=
  if c.error != OK then pure c
  else match c.frames with
    | [] => pure { c with error := EINTERNAL }
    | [f] => do
      deref (some f.node.hdr); deref (some c.tree)
      pure c
    | f :: _ :: _ => do
      deref (some f.node.hdr)
      pure (popFrame c)

/-- The cache of a binary element in `characters`: `node->content` is created or extended. -/
def xmlBinaryChars (c : TCtx) (f : Frame) (rest : List Frame) (text : Bytes) : Prog TCtx := do
  deref (some f.node.hdr)
  match f.node.content with
  | none => do
    let b ← bufCreate (some text) 1
    match b with
    | none => pure { c with error := ENOMEM }
    | some b => pure { c with frames := { f with node := { f.node with content := some b } } :: rest }
  | some b => do
    let (b, ok) ← bufAppendData b (some text)
    let c := { c with frames := { f with node := { f.node with content := some b } } :: rest }
    if !ok then pure { c with error := ENOMEM } else pure c

/-- `wbxml_tree_clb_xml_characters`. -/
def clbXmlChars (binRow : Nat → Bool) (c : TCtx) (text : Bytes) (dt : DataType) : Prog TCtx :=
  if c.error != OK then pure c
  else do
    let text := if dt == .vobject && text == [0x0A] then [0x0D, 0x0A] else text
    -- a missing CDATA section: not inside one, and the first child is not one
    let needCdata := dt != .normal && (match c.frames with
      | f :: _ => f.kind != .cdata && !(match f.kids with | k :: _ => k.kind == .cdata | [] => false)
      | [] => false)
    let (c, ok) ← (if needCdata then treeAddCdata c else pure (c, true))
    if !ok then pure { dropCurrent c with error := EINTERNAL }
    else match c.frames with
      | f :: rest =>
        if frameBinary binRow f then xmlBinaryChars c f rest text
        else do
          let (c, ok) ← treeAddText c text
          if !ok then pure { c with error := EINTERNAL } else pure c
      | [] => do
        let (c, ok) ← treeAddText c text
        if !ok then pure { c with error := EINTERNAL } else pure c

def clbXmlEvent (binRow : Nat → Bool) (c : TCtx) : XEvent → Prog TCtx
  | .start langOk tag attrs => clbXmlStart c langOk tag attrs
  | .stop => clbXmlEnd binRow c
  | .startCdata => clbXmlStartCdata c
  | .endCdata => clbXmlEndCdata c
  | .chars text dt => clbXmlChars binRow c text dt

def clbXmlEvents (binRow : Nat → Bool) (c : TCtx) : List XEvent → Prog TCtx
  | [] => pure c
  | e :: rest => do
    let c ← clbXmlEvent binRow c e
    clbXmlEvents binRow c rest

/-- `wbxml_tree_from_xml(xml, xml_len, &tree)` around the events Expat delivers; `parseOk` = the
    result of `XML_Parse` (the events are those delivered before it stopped). -/
def treeFromXml (binRow : Nat → Bool) (events : List XEvent) (parseOk : Bool) : Prog (Nat × Option TCtx) := do
  let c ← treeCreate
  match c with
  | none => pure (ENOMEM, none)                       -- XML_ParserFree: not on the ledger
  | some c => do
    let c ← clbXmlEvents binRow c events
    if !parseOk then do
      treeDestroy c
      pure (EXMLPARSE, none)
    else if c.error != OK then do
      treeDestroy c
      pure (c.error, none)
    else pure (OK, some c)

end Wbxml.Model.Alloc
