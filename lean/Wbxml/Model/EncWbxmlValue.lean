/-
  WBXML output path of `src/wbxml_encoder.c`, part 2: `wbxml_encode_value_element_buffer` (content text
  and attribute values), its language specific pre-passes and `wbxml_encode_value_element_list`.

  The `buffer` argument of the C function is a C string: callers pass
  `wbxml_buffer_get_cstr(node->content)` or a pointer into an attribute value, so everything here
  works on the bytes before the first NUL (`cstrOf`), whatever the length of the buffer was.
-/
import Wbxml.Model.EncWbxmlStrtbl
import Wbxml.Model.Codec.Base64
import Wbxml.Model.Typed.WvDate
namespace Wbxml.Model
open Wbxml.Model.Codec (mbEncode b64DecodeE)
open Wbxml.Model.Typed (encodeDatetime encodeWvInt encodeWvDate wvEncKind WvKind WvItem)

/-! ### Emission primitives -/

/-- `wbxml_encode_opaque_data`: OPAQUE, length, bytes. -/
def opaqueW (d : Bytes) : Bytes := 0xC3 :: (mbEncode d.length ++ d)

/-- `wbxml_encode_inline_string`: STR_I, bytes, NUL. -/
def inlineW (s : Bytes) : Bytes := 0x03 :: (s ++ [0])

/-- `wbxml_encode_tableref`: STR_T, offset. -/
def tablerefW (offset : Nat) : Bytes := 0x83 :: mbEncode offset

/-- `wbxml_encode_inline_integer_extension_token(encoder, WBXML_EXT_T_0, value)`; `value` is a
    `WB_UTINY` parameter. -/
def extW (token : Nat) : Bytes := 0x80 :: mbEncode (token % 256)

/-- `wbxml_encode_attr_token`: SWITCH_PAGE iff the attribute code page changes, then the token
    (used for attribute starts and for attribute value tokens alike). -/
def attrTokenW (token page : Nat) (st : WSt) : WSt :=
  let st := if st.attrPage != page % 256 then { st.emit [0x00, UInt8.ofNat page] with attrPage := page % 256 } else st
  st.emit [UInt8.ofNat token]

/-! ### Value elements -/

/-- `WBXMLValueElement`. -/
inductive VElt where
  | str (s : Bytes)          -- WBXML_VALUE_ELEMENT_STRING
  | ext (r : ExtRow)         -- WBXML_VALUE_ELEMENT_EXTENSION
  | tok (r : ValRow)         -- WBXML_VALUE_ELEMENT_ATTR_TOKEN
  | ref (offset : Nat)       -- WBXML_VALUE_ELEMENT_TABLEREF
  deriving Repr, DecidableEq, Inhabited

def VElt.weight : VElt → Nat
  | .str s => s.length + 1
  | _ => 1

/-- Fuel that suffices for one pass of `splitPass` with a non-empty needle: every round removes at
    least one unit of weight from the part of the list still to be visited. -/
def splitFuel (l : List VElt) : Nat := (l.map VElt.weight).sum + 1

/-- The `for (i = 0; i < wbxml_list_len(lresult); i++)` loop for one needle (an attribute value
    token, or a string table element): `done` is the part of the list already passed, the third
    argument the part from index `i` on. A string element containing the needle at `index` is cut
    down to its first `index` bytes, `mk` is inserted behind it and, when bytes remain behind the
    occurrence, a new string element with them behind that; the loop then goes on with the inserted
    elements, so later occurrences are found as well.

    With an **empty** needle and a non-empty string the remainder is the whole string again: the C
    loop never ends (and allocates on every round). The model runs out of fuel there. -/
def splitPass (needle : Bytes) (mk : VElt) : Nat → List VElt → List VElt → Except Err (List VElt)
  | 0, _, _ => .error .fuel
  | _ + 1, done, [] => .ok done
  | f + 1, done, e :: rest =>
    match e with
    | .str s =>
      match findSub needle s 0 with
      | none => splitPass needle mk f (done ++ [e]) rest
      | some idx =>
        if idx + needle.length < s.length then do
          -- wbxml_buffer_create_from_cstr(cstr + index + strlen(needle))
          let tail ← ptrAdd "value element remainder" s (idx + needle.length)
          splitPass needle mk f (done ++ [.str (s.take idx), mk]) (.str tail :: rest)
        else
          -- wbxml_buffer_delete(str, index, len - index) refuses index = len (nothing to remove then)
          splitPass needle mk f (done ++ [.str (s.take idx), mk]) rest
    | _ => splitPass needle mk f (done ++ [e]) rest

/-- "Search for Attribute Value Tokens": one pass per row of the value table, in table order. -/
def splitByValues : List ValRow → List VElt → Except Err (List VElt)
  | [], l => .ok l
  | r :: rs, l => do
    let l ← splitPass r.name (.tok r) (splitFuel l) [] l
    splitByValues rs l

/-- "Search for String Table References": one pass per string table element, in table order. -/
def splitByStrtbl : List StrEntry → List VElt → Except Err (List VElt)
  | [], l => .ok l
  | e :: es, l => do
    let l ← splitPass e.str (.ref e.offset) (splitFuel l) [] l
    splitByStrtbl es l

/-- "Search for Extension Tokens", one row: only a string element that *is* the extension name
    (names shorter than 2 are skipped) is replaced. The C code re-uses `index` from the previous
    search here; in content context no search has run before, so it is still 0: nothing remains
    behind the token and the string element is emptied. -/
def extPass (r : ExtRow) (l : List VElt) : List VElt :=
  l.flatMap fun e =>
    match e with
    | .str s => if r.name.length ≥ 2 && s == r.name then [.str [], .ext r] else [e]
    | _ => [e]

def splitByExts (exts : List ExtRow) (l : List VElt) : List VElt := exts.foldl (fun l r => extPass r l) l

/-- `wbxml_encode_value_element_list`, one element. -/
def emitVElt (st : WSt) : VElt → WSt
  | .str s => if s.length > 0 then st.emit (inlineW s) else st
  | .ref off => st.emit (tablerefW off)
  | .ext r => st.emit (extW r.token)
  | .tok r => attrTokenW r.token r.page st

def emitVElts (st : WSt) (l : List VElt) : WSt := l.foldl emitVElt st

/-! ### Language specific encodings -/

/-- `wbxml_encode_wv_content`: `none` = `WBXML_NOT_ENCODED`. -/
def wvContentW (c : WCfg) (s : Bytes) (st : WSt) : Except Err (Option WSt) :=
  let kind := match st.curTag with
    | some t => wvEncKind t.page t.token
    | none => WvKind.other
  match kind with
  | .integer => do
    match ← encodeWvInt s with
    | some item => pure (some (st.emit item))
    | none => pure none
  | .dateTime => do
    let item ← encodeWvDate s
    pure (some (st.emit item.bytes))
  | .other =>
    -- booleans and strings: an EXACT extension token, else nothing
    match c.lang.exts with
    | none => pure none
    | some exts =>
      match encExt exts s with
      | some r => pure (some (st.emit (extW r.token)))
      | none => pure none

/-- The base64 text the two routines below decode: a copy of the C string with every `isspace` byte
    removed (`wbxml_buffer_create_from_cstr`, `wbxml_buffer_no_spaces`) — line-wrapped or indented
    base64 denotes the same bytes (before the fix the decoder stopped at the first white space). -/
def b64TextW (s : Bytes) : Bytes := s.filter (fun b => !isSpaceC b)

/-- `wbxml_encode_drmrel_content`: text directly under a `ds:KeyValue` token element is sent as the
    bytes its base64 form denotes (white space removed first; `wbxml_base64_decode(cstr, -1, …)` never
    reports failure: what cannot be decoded yields fewer, possibly zero, bytes).
    `parent` is `current_text_parent->name`. -/
def drmrelContentW (parent : Option Name) (s : Bytes) (st : WSt) : Except Err (Option WSt) :=
  match parent with
  | some (.token r) =>
    if r.page == 0 && r.token == 0x0C then do
      let d ← b64DecodeE (b64TextW s)
      pure (some (st.emit (opaqueW d)))
    else pure none
  | _ => pure none

/-- `wbxml_encode_ota_nokia_icon`: the `VALUE` of a `PARM` that also has `NAME="ICON"`.
    `nodeAttrs` = `encoder->current_node->attrs` (`none`: no current node). -/
def otaIconW (nodeAttrs : Option (List Attr)) (s : Bytes) (st : WSt) : Except Err (Option WSt) :=
  match st.curTag, nodeAttrs with
  | some _, some attrs =>
    if attrs.any (fun a => a.name.cName == b!"NAME" && cstrOf a.value == b!"ICON") then do
      let d ← b64DecodeE (b64TextW s)
      pure (some (st.emit (opaqueW d)))
    else pure none
  | _, _ => pure none

/-- "Encoder Language Specific Attribute Values": `some st` = the value has been encoded. -/
def attrSpecialW (c : WCfg) (nodeAttrs : Option (List Attr)) (s : Bytes) (st : WSt) : Except Err (Option WSt) :=
  if c.lang.id == 1301 then
    -- SI 1.0: `created`, `si-expires`
    match st.curAttr with
    | none => pure none
    | some a =>
      if a.page == 0 && (a.token == 0x0a || a.token == 0x10) then do
        let item ← encodeDatetime s
        pure (some (st.emit item))
      else pure none
  else if c.lang.id == 1701 then
    -- EMN 1.0: `timestamp`
    match st.curAttr with
    | none => pure none
    | some a =>
      if a.page == 0 && a.token == 0x05 then do
        let item ← encodeDatetime s
        pure (some (st.emit item))
      else pure none
  else if c.lang.id == 1901 then
    -- OTA settings: the ICON value (after fix 8c66acc with the NULL test the two branches above have)
    match st.curAttr with
    | none => pure none
    | some a => if a.page == 0 && a.token == 0x11 then otaIconW nodeAttrs s st else pure none
  else pure none

/-- SyncML: the two `+xml` media types are sent as their `+wbxml` forms (`strcasecmp`, any element). -/
def syncmlTypeText (langId : Nat) (s : Bytes) : Bytes :=
  if isSyncml langId then
    let s1 := if caseEq s b!"application/vnd.syncml-devinf+xml" then b!"application/vnd.syncml-devinf+wbxml" else s
    if caseEq s b!"application/vnd.syncml.dmtnds+xml" then b!"application/vnd.syncml.dmtnds+wbxml" else s1
  else s

/-! ### `wbxml_encode_value_element_buffer` -/

/-- Attribute value context. `s` = the C string at `buffer`. -/
def encAttrValueW (c : WCfg) (nodeAttrs : Option (List Attr)) (s : Bytes) (st : WSt) : Except Err WSt :=
  if s.isEmpty then pure st else do
    match ← attrSpecialW c nodeAttrs s st with
    | some st => pure st
    | none =>
      let l : List VElt := [.str s]
      let l ← (match c.lang.values with
        | some vals => splitByValues vals l
        | none => pure l)
      let l ← (if c.useStrtbl then splitByStrtbl st.strtbl l else pure l)
      pure (emitVElts st l)

/-- Content context, outside CDATA (inside, `parse_text` does not come here). -/
def encContentValueW (c : WCfg) (parent : Option Name) (s : Bytes) (st : WSt) : Except Err WSt :=
  if s.isEmpty then pure st else do
    let r1 ← (if isWv c.lang.id then wvContentW c s st else pure none)
    match r1 with
    | some st => pure st
    | none =>
      let r2 ← (if c.lang.id == 1801 then drmrelContentW parent s st else pure none)
      match r2 with
      | some st => pure st
      | none =>
        let l : List VElt := [.str (syncmlTypeText c.lang.id s)]
        let l := match c.lang.exts with
          | some exts => splitByExts exts l
          | none => l
        let l ← (if c.useStrtbl then splitByStrtbl st.strtbl l else pure l)
        pure (emitVElts st l)

end Wbxml.Model
