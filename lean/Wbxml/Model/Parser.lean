/-
  Executable model of `src/wbxml_parser.c` (the SAX-like WBXML parser), decision for decision.

  Conventions (DESIGN.md §2.2):
  * suffix cursor: `rest` is `data + pos`, `rest.length` is `len - pos`; the private copy of the
    input is NUL-terminated one byte past `len`, which `cstrLen` models;
  * a blind `parser->pos++` is `skip1`, which yields `Err.ub` on an empty `rest` — the safety
    theorems (`Props/C01`, `Props/C13`) show these are never reached;
  * recursion takes fuel; `Props` prove `rest.length + 1` is never exhausted.
-/
import Wbxml.Prim.Basic
namespace Wbxml.Model

/-! ### Error codes (checked against `Gen.Consts` in `Props/Consts.lean`) -/
namespace E
def badDatetime := 11
def internal := 13
def langTableUndefined := 14
def tagTableUndefined := 17
def b64Enc := 18
def wvDatetimeFormat := 20
def noCharsetConv := 30
def charsetStrLen := 31
def charsetNotFound := 35
def attrTableUndefined := 10
def attrValueTableUndefined := 40
def badOpaqueLength := 43
def emptyWbxml := 44
def endOfBuffer := 45
def extValueTableUndefined := 47
def invalidStrtblIndex := 48
def nullStringTable := 52
def stringExpected := 53
def strtblLength := 54
def unknownAttrValue := 61
def unknownExtensionToken := 62
def unknownPublicId := 64
def unvalidMbUint32 := 70
def wvIntegerOverflow := 80
def invalidUnicode := 122
end E

/-! ### Events delivered to the content handler -/

/-- `WBXMLTag`: a token bound to a table row, or a literal name. -/
inductive Name where
  | token (r : TagRow)
  | literal (s : Bytes)
  deriving Repr, DecidableEq, Inhabited

/-- `WBXMLAttributeName`. -/
inductive AName where
  | token (r : AttrRow)
  | literal (s : Bytes)
  deriving Repr, DecidableEq, Inhabited

/-- `WBXMLAttribute`; `value` is the value buffer exactly as handed over (a non-empty value
    carries one trailing NUL inside its length). -/
structure Attr where
  name : AName
  value : Bytes
  deriving Repr, DecidableEq, Inhabited

inductive Event where
  | startDoc (charset : Nat) (lang : Nat)
  | endDoc
  | startElt (n : Name) (attrs : List Attr)
  | endElt (n : Name)
  | chars (s : Bytes)
  | pi (target : Bytes) (data : Bytes)
  deriving Repr, DecidableEq, Inhabited

def Name.xmlName : Name → Bytes
  | .token r => r.name
  | .literal s => s

def AName.xmlName : AName → Bytes
  | .token r => r.name
  | .literal s => s

/-! ### Parser configuration and state -/

structure PCfg where
  main : List Lang
  langForced : Nat := 0      -- WBXML_LANG_UNKNOWN = 0
  metaCharset : Nat := 0     -- WBXML_CHARSET_UNKNOWN = 0
  charsets : List Nat := [3, 4, 5, 6, 7, 8, 9, 10, 11, 12, 17, 106, 1000, 1015, 2026]

structure PState where
  rest : Bytes
  strtbl : Option Bytes := none
  lang : Option Lang := none
  charset : Nat := 0
  version : Nat := 0
  tagPage : Nat := 0
  attrPage : Nat := 0
  curTag : Option TagRow := none
  deriving Repr, Inhabited

macro "PRes(" t:term ")" : term => `(Except Err ($t × PState))

def unknownStr : Bytes := b!"unknown"

/-! ### Raw accessors -/

/-- `wbxml_buffer_get_char(parser->wbxml, parser->pos + k, &c)`. -/
def peekAt (s : PState) (k : Nat) : Option UInt8 := s.rest[k]?

/-- `is_token(parser, t)`. -/
def isToken (s : PState) (t : UInt8) : Bool := s.rest.head? == some t

/-- blind `parser->pos++`. -/
def skip1 (what : String) (s : PState) : Except Err PState :=
  match s.rest with
  | [] => .error (.ub s!"pos++ past the end: {what}")
  | _ :: r => .ok { s with rest := r }

/-- `parse_uint8`. -/
def parseU8 (s : PState) : PRes(UInt8) :=
  match s.rest with
  | [] => .error (.code E.endOfBuffer)
  | b :: r => .ok (b, { s with rest := r })

/-- Loop of `parse_mb_uint32`: at most `n` more octets, 32-bit accumulator. -/
def mbLoop : Nat → Nat → Bytes → Except Err (Nat × Bytes)
  | 0, _, _ => .error (.code E.unvalidMbUint32)
  | n + 1, acc, rest =>
    match rest with
    | [] => .error (.code E.endOfBuffer)
    | b :: r =>
      let acc' := ((acc <<< 7) % 4294967296) ||| (b.toNat &&& 0x7F)
      if b.toNat &&& 0x80 == 0 then .ok (acc', r) else mbLoop n acc' r

/-- `parse_mb_uint32`. -/
def parseMb (s : PState) : PRes(Nat) := do
  let (v, r) ← mbLoop 5 0 s.rest
  pure (v, { s with rest := r })

/-- `strlen` of a pointer into a buffer whose storage is NUL-terminated after its contents. -/
def cstrLen : Bytes → Nat
  | [] => 0
  | b :: r => if b == 0 then 0 else cstrLen r + 1

/-- `search_null_block(buf, len, 2, &pos)`: first *aligned* pair of NUL bytes. -/
def searchNull2 : Bytes → Bool
  | a :: b :: r => if a == 0 && b == 0 then true else searchNull2 r
  | _ => false

/-- `wbxml_charset_conv_term(in, &max_len, charset, &out, UTF-8)` on the bytes available from the
    pointer (`avail`, NUL-terminated after them): the string and the number of input bytes used. -/
def convTerm (charset : Nat) (avail : Bytes) : Except Err (Bytes × Nat) :=
  if charset == 1000 || charset == 1015 then
    -- UCS-2 / UTF-16: an aligned double NUL must exist, then no converter is compiled in
    if searchNull2 avail then .error (.code E.noCharsetConv) else .error (.code E.charsetStrLen)
  else
    let n := cstrLen avail
    if n + 1 > avail.length then .error (.code E.charsetStrLen)
    else if charset == 3 || charset == 106 then .ok (avail.take n, n + 1)
    else .error (.code E.noCharsetConv)

/-- `parse_termstr`. -/
def parseTermstr (s : PState) : PRes(Bytes) := do
  let (str, used) ← convTerm s.charset s.rest
  pure (str, { s with rest := s.rest.drop used })

/-- `get_strtbl_reference`. -/
def strtblRef (s : PState) (index : Nat) : Except Err Bytes :=
  match s.strtbl with
  | none => if index == 0 then .ok (b!"xmlns") else .error (.code E.nullStringTable)
  | some tbl =>
    if index ≥ tbl.length then .error (.code E.invalidStrtblIndex)
    else do
      let (str, _) ← convTerm s.charset (tbl.drop index)
      pure str

/-! ### Header -/

/-- `wbxml_tables_get_wbxml_publicid(main, lang)`. -/
def publicIdOfLang (main : List Lang) (lang : Nat) : Nat :=
  match main.find? (fun l => l.id == lang) with
  | some l => l.pub.wbxmlId
  | none => 1

def lowerByte (b : UInt8) : UInt8 := if 65 ≤ b.toNat ∧ b.toNat ≤ 90 then b + 32 else b

/-- `strcasecmp(a, b) == 0` in the C locale. -/
def caseEq (a b : Bytes) : Bool := a.map lowerByte == b.map lowerByte

/-- `check_public_id`: `pubId` is `parser->public_id` (after the forced override), `pubIdx` the
    string-table index (`none` = -1). Returns the selected language entry. -/
def checkPublicId (cfg : PCfg) (s : PState) (pubId : Nat) (pubIdx : Option Nat) : Option Lang :=
  if cfg.langForced == 0 && pubId == 1 && pubIdx.isNone then none
  else if cfg.langForced != 0 then
    -- case 1; a failed scan leaves the shared index at the end of the table: cases 2 and 3 find nothing
    cfg.main.find? (fun l => l.id == cfg.langForced)
  else if pubId != 1 then
    cfg.main.find? (fun l => l.pub.wbxmlId == pubId)
  else
    match pubIdx with
    | none => none
    | some i =>
      match strtblRef s i with
      | .error _ => none
      | .ok str => cfg.main.find? (fun l => match l.pub.xmlId with
          | some x => caseEq x str
          | none => false)

/-- `parse_strtbl`: returns the private copy (padded with four NULs when unterminated). -/
def parseStrtbl (s : PState) : Except Err PState :=
  match mbLoop 5 0 s.rest with
  | .error _ => .error (.code E.endOfBuffer)
  | .ok (len, r) =>
    if len == 0 then .ok { s with rest := r }
    else if len > r.length then .error (.code E.strtblLength)
    else
      let tbl := r.take len
      let tbl := if tbl.getLast? == some 0 then tbl else tbl ++ [0, 0, 0, 0]
      .ok { s with rest := r.drop len, strtbl := some tbl }

/-! ### Typed content -/

def b64Alphabet : Bytes := b!"ABCDEFGHIJKLMNOPQRSTUVWXYZabcdefghijklmnopqrstuvwxyz0123456789+/"

def b64Char (n : Nat) : UInt8 := b64Alphabet.getD (n % 64) 0

/-- `wbxml_base64_encode` (non-empty input). -/
def b64EncodeGo : Bytes → Bytes
  | a :: b :: c :: r =>
    b64Char (a.toNat >>> 2) :: b64Char (((a.toNat &&& 3) <<< 4) ||| (b.toNat >>> 4)) ::
    b64Char (((b.toNat &&& 0xF) <<< 2) ||| (c.toNat >>> 6)) :: b64Char (c.toNat &&& 0x3F) :: b64EncodeGo r
  | [a, b] =>
    [b64Char (a.toNat >>> 2), b64Char (((a.toNat &&& 3) <<< 4) ||| (b.toNat >>> 4)),
     b64Char ((b.toNat &&& 0xF) <<< 2), 61]
  | [a] => [b64Char (a.toNat >>> 2), b64Char ((a.toNat &&& 3) <<< 4), 61, 61]
  | [] => []

/-- `decode_base64_value`: base64 of the bytes; the empty buffer is an error. -/
def decodeBase64Value (d : Bytes) : Except Err Bytes :=
  if d.isEmpty then .error (.code E.b64Enc) else .ok (b64EncodeGo d)

def hexUpper (n : Nat) : UInt8 := if n < 10 then UInt8.ofNat (48 + n) else UInt8.ofNat (55 + n)

/-- `wbxml_buffer_binary_to_hex(buf, TRUE)` on the contents. -/
def binToHexUpper (d : Bytes) : Bytes := d.flatMap (fun b => [hexUpper (b.toNat / 16), hexUpper (b.toNat % 16)])

/-- `insert_cstr(buf, c, pos)`: fails (returns the buffer unchanged) when `pos > len`. -/
def insertAt (d : Bytes) (c : UInt8) (pos : Nat) : Bytes := d.take pos ++ c :: d.drop pos

/-- `decode_datetime` (SI / EMN `%Datetime`). -/
def decodeDatetime (d : Bytes) : Except Err Bytes :=
  let h := binToHexUpper d
  let len := h.length
  if len < 8 || len > 14 || len == 9 || len == 11 || len == 13 then .error (.code E.badDatetime)
  else
    let h := insertAt h 45 4
    let h := insertAt h 45 7
    let h := insertAt h 84 10
    let h := if len > 10 then insertAt h 58 13 else h
    let h := if len > 12 then insertAt h 58 16 else h
    let h := if len == 8 then h ++ b!"00:00:00" else if len == 10 then h ++ b!":00:00"
             else if len == 12 then h ++ b!":00" else h
    .ok (h ++ [90])

def natDigits (n : Nat) : Bytes := (toString n).toUTF8.toList

def pad2 (n : Nat) : Bytes := if n < 10 then 48 :: natDigits n else natDigits n

/-- `decode_wv_integer`: big-endian accumulation; a significant octet that the next shift would
    drop is an overflow (error 80); printed with `%u`. -/
def wvIntLoop : Bytes → Nat → Except Err Nat
  | [], acc => .ok acc
  | b :: r, acc => if acc > 0x00ffffff then .error (.code E.wvIntegerOverflow)
                   else wvIntLoop r ((acc <<< 8) ||| b.toNat)

def decodeWvInteger (d : Bytes) : Except Err Bytes := do
  let v ← wvIntLoop d 0
  pure (natDigits v)

def pad4 (n : Nat) : Bytes :=
  if n < 10 then [48, 48, 48] ++ natDigits n else if n < 100 then [48, 48] ++ natDigits n
  else if n < 1000 then 48 :: natDigits n else natDigits n

/-- `decode_wv_datetime`. -/
def decodeWvDatetime (d : Bytes) : Except Err Bytes :=
  match d with
  | [b0, b1, b2, b3, b4, b5] =>
    let b0 := b0.toNat; let b1 := b1.toNat; let b2 := b2.toNat
    let b3 := b3.toNat; let b4 := b4.toNat
    let year := ((b0 &&& 0x3F) <<< 6) + ((b1 >>> 2) &&& 0x3F)
    let month := ((b1 &&& 0x03) <<< 2) ||| ((b2 >>> 6) &&& 0x03)
    let day := (b2 >>> 1) &&& 0x1F
    let hour := ((b2 &&& 0x01) <<< 4) ||| ((b3 >>> 4) &&& 0x0F)
    let minute := ((b3 &&& 0x0F) <<< 2) ||| ((b4 >>> 6) &&& 0x03)
    let second := b4 &&& 0x3F
    let core := pad4 year ++ pad2 month ++ pad2 day ++ [84] ++ pad2 hour ++ pad2 minute ++
      (if second != 0 then pad2 second else [])
    if b5 == 0 then .ok (core ++ [90])
    else if b5.toNat < 65 || b5.toNat > 90 || b5 == 74 then .ok core
    else .ok (core ++ [b5])
  | _ => .error (.code E.wvDatetimeFormat)

inductive WvType | integer | datetime | string
  deriving DecidableEq, Repr

/-- The `switch` ladder of `decode_wv_content`. -/
def wvDataType (page token : Nat) : WvType :=
  match page with
  | 0x00 => if token == 0x0B || token == 0x0F || token == 0x1A || token == 0x3C then .integer
            else if token == 0x11 then .datetime else .string
  | 0x01 => if token == 0x1C || token == 0x25 || token == 0x26 || token == 0x27 || token == 0x28 || token == 0x32
            then .integer else .string
  | 0x03 => if token == 0x05 || token == 0x06 || token == 0x0C || token == 0x0D || token == 0x0E ||
               token == 0x12 || token == 0x13 then .integer else .string
  | 0x05 => if token == 0x05 || token == 0x09 || token == 0x32 then .integer else .string
  | 0x06 => if token == 0x1A then .datetime else .string
  | 0x09 => if token == 0x08 || token == 0x0A then .integer else .string
  | _ => .string

def isWv (lang : Nat) : Bool := lang == 2301 || lang == 2302
def isWml (lang : Nat) : Bool := lang == 1101 || lang == 1102 || lang == 1103 || lang == 1104 || lang == 1202
def isSyncml (lang : Nat) : Bool := lang == 2001 || lang == 2101 || lang == 2201

/-- `decode_opaque_content`. -/
def decodeOpaqueContent (langId : Nat) (cur : Option TagRow) (d : Bytes) : Except Err Bytes :=
  if isWv langId then
    match cur with
    | none => .ok d
    | some t =>
      match wvDataType t.page t.token with
      | .integer => decodeWvInteger d
      | .datetime => decodeWvDatetime d
      | .string => .ok d
  else if langId == 1801 then
    match cur with
    | some t => if t.page == 0 && t.token == 0x0C then decodeBase64Value d else .ok d
    | none => .ok d
  else if isSyncml langId then
    match cur with
    | some t => if t.page == 1 && t.token == 0x10 then decodeBase64Value d else .ok d
    | none => .ok d
  else .ok d

/-- `decode_opaque_attr_value`. -/
def decodeOpaqueAttrValue (langId : Nat) (d : Bytes) : Except Err Bytes :=
  if langId == 1901 then decodeBase64Value d else .ok d

/-- UTF-8 generation of `parse_entity` for `0x80 ≤ code < 2^31`: shift-by-6 loop writing
    `entity[index]` downwards from 5, then the lead byte `masks[index] | code`. -/
def entityLoop : Nat → Nat → Nat → Bytes → Bytes
  | 0, code, index, acc => UInt8.ofNat (([0xFC, 0xF8, 0xF0, 0xE0, 0xC0].getD index 0) ||| code) :: acc
  | f + 1, code, index, acc =>
    if code ≥ (0x40 >>> (5 - index)) then
      entityLoop f (code >>> 6) (index - 1) (UInt8.ofNat (0x80 ||| (code &&& 0x3F)) :: acc)
    else UInt8.ofNat (([0xFC, 0xF8, 0xF0, 0xE0, 0xC0].getD index 0) ||| code) :: acc

/-- `parse_entity` after the entcode has been read. A code below 0x80 goes through
    `wbxml_buffer_create_from_cstr`, so code 0 yields the empty string. -/
def entityBytes (code : Nat) : Except Err Bytes :=
  if code ≥ 0x80000000 then .error (.code E.invalidUnicode)
  else if code < 0x80 then (if code == 0 then .ok [] else .ok [UInt8.ofNat code])
  else
    let bs := entityLoop 6 code 5 []
    -- the result is built with `create_from_cstr`: it stops at the first NUL (never present here)
    .ok (bs.take (cstrLen bs))

/-! ### Body -/

/-- `parse_switch_page`. `tagSpace = true` ⇒ `WBXML_TAG_TOKEN`. -/
def parseSwitchPage (tagSpace : Bool) (s : PState) : Except Err PState := do
  let s ← skip1 "SWITCH_PAGE" s
  let (p, s) ← parseU8 s
  pure (if tagSpace then { s with tagPage := p.toNat } else { s with attrPage := p.toNat })

def isExtToken (b : UInt8) : Bool :=
  b == 0x40 || b == 0x41 || b == 0x42 || b == 0x80 || b == 0x81 || b == 0x82 || b == 0xC0 || b == 0xC1 || b == 0xC2

/-- `is_extension`. -/
def isExtension (s : PState) : Bool :=
  if isToken s 0x00 then
    match peekAt s 2 with
    | some b => isExtToken b
    | none => false
  else
    match peekAt s 0 with
    | some b => isExtToken b
    | none => false

def isString (s : PState) : Bool := isToken s 0x03 || isToken s 0x83

/-- `is_literal`. -/
def isLiteral (s : PState) : Bool :=
  isToken s 0x04 || isToken s 0x84 || isToken s 0x44 || isToken s 0xC4

/-- `is_attr_value`. -/
def isAttrValue (s : PState) : Bool :=
  match peekAt s 0 with
  | none => false
  | some cur =>
    let sw := if isToken s 0x00 then
        (match peekAt s 2 with
         | none => some false          -- returns FALSE at once
         | some nb => if nb.toNat &&& 0x80 == 0x80 then some true else none)
      else none
    match sw with
    | some r => r
    | none =>
      (cur.toNat &&& 0x80 == 0x80) || isString s || isExtension s || isToken s 0x02 || isToken s 0xC3

/-- `parse_extension`; `tagSpace` tells which code page a preceding SWITCH_PAGE changes. -/
def parseExtension (tagSpace : Bool) (s : PState) : PRes(Option Bytes) := do
  let s ← if isToken s 0x00 then parseSwitchPage tagSpace s else pure s
  let (tok, s) ← parseU8 s
  match s.lang with
  | none => .error (.code E.langTableUndefined)
  | some lang =>
    if isWml lang.id then
      if tok == 0xC0 || tok == 0xC1 || tok == 0xC2 then pure (none, s)
      else
        let suffix : Option Bytes :=
          if tok == 0x40 || tok == 0x80 then some (b!":escape")
          else if tok == 0x41 || tok == 0x81 then some (b!":unesc")
          else if tok == 0x42 || tok == 0x82 then some (b!":noesc")
          else none
        match suffix with
        | none => .error (.code E.unknownExtensionToken)
        | some suf =>
          if tok == 0x40 || tok == 0x41 || tok == 0x42 then do
            let (v, s) ← parseTermstr s
            pure (some (b!"$(" ++ v ++ suf ++ b!")"), s)
          else do
            let (idx, s) ← parseMb s
            let v ← strtblRef s idx
            pure (some (b!"$(" ++ v ++ suf ++ b!")"), s)
    else if isWv lang.id then
      if tok != 0x80 then pure (none, s)
      else do
        let (v, s) ← parseMb s
        match lang.exts with
        | none => .error (.code E.extValueTableUndefined)
        | some exts =>
          match exts.find? (fun r => r.token == v) with
          | none => pure (none, s)
          | some r => pure (some r.name, s)
    else pure (none, s)

/-- `parse_entity`. -/
def parseEntity (s : PState) : PRes(Bytes) := do
  let s ← skip1 "ENTITY" s
  let (code, s) ← parseMb s
  let bs ← entityBytes code
  pure (bs, s)

/-- `parse_string`. -/
def parseString (s : PState) : PRes(Bytes) :=
  if isToken s 0x03 then do
    let s ← skip1 "STR_I" s
    parseTermstr s
  else if isToken s 0x83 then do
    let s ← skip1 "STR_T" s
    let (idx, s) ← parseMb s
    let v ← strtblRef s idx
    pure (v, s)
  else .error (.code E.stringExpected)

/-- `parse_opaque`. -/
def parseOpaque (s : PState) : PRes(Bytes) := do
  let s ← skip1 "OPAQUE" s
  let (len, s) ← parseMb s
  if len > s.rest.length then .error (.code E.badOpaqueLength)
  else pure (s.rest.take len, { s with rest := s.rest.drop len })

/-- `parse_literal`: token byte, index, string; returns the tag mask byte. -/
def parseLiteral (s : PState) : PRes(UInt8 × Bytes) := do
  let (tok, s) ← parseU8 s
  let (idx, s) ← parseMb s
  let str ← strtblRef s idx
  if tok == 0x04 then pure ((0x3F, str), s)
  else if tok == 0x44 then pure ((0x40, str), s)
  else if tok == 0x84 then pure ((0x80, str), s)
  else if tok == 0xC4 then pure ((0xC0, str), s)
  else .error (.code E.internal)

/-- `parse_attr_start`: the attribute name and the value prefix of its row. -/
def parseAttrStart (s : PState) : PRes(AName × Option Bytes) :=
  if isToken s 0x04 then do
    let ((_, str), s) ← parseLiteral s
    pure ((.literal str, none), s)
  else do
    let s ← if isToken s 0x00 then parseSwitchPage false s else pure s
    let (tag, s) ← parseU8 s
    match s.lang with
    | none => .error (.code E.langTableUndefined)
    | some lang =>
      match lang.attrs with
      | none => .error (.code E.attrTableUndefined)
      | some attrs =>
        match attrs.find? (fun r => r.token == tag.toNat && r.page == s.attrPage) with
        | none => pure ((.literal unknownStr, none), s)
        | some r => pure ((.token r, r.value), s)

/-- `parse_attr_value`. -/
def parseAttrValue (s : PState) : PRes(Option Bytes) :=
  if isExtension s then parseExtension false s
  else if isToken s 0x02 then do
    let (b, s) ← parseEntity s
    pure (some b, s)
  else if isString s then do
    let (b, s) ← parseString s
    pure (some b, s)
  else if isToken s 0xC3 then do
    let (d, s) ← parseOpaque s
    match s.lang with
    | none => .error (.ub "langTable NULL in decode_opaque_attr_value")
    | some lang =>
      let d ← decodeOpaqueAttrValue lang.id d
      pure (some d, s)
  else do
    let s ← if isToken s 0x00 then parseSwitchPage false s else pure s
    let (tag, s) ← parseU8 s
    match s.lang with
    | none => .error (.code E.langTableUndefined)
    | some lang =>
      match lang.values with
      | none => .error (.code E.attrValueTableUndefined)
      | some vals =>
        match vals.find? (fun r => r.token == tag.toNat && r.page == s.attrPage) with
        | none => .error (.code E.unknownAttrValue)
        | some r => pure (some r.name, s)

/-- `while (is_attr_value) …` of `parse_attribute`. Each round consumes at least one byte.
    A NULL piece (ignored extension) is appended as nothing (`wbxml_buffer_append(dest, NULL)` is TRUE). -/
def attrValueLoop : Nat → Bytes → PState → PRes(Bytes)
  | 0, _, _ => .error .fuel
  | f + 1, acc, s =>
    if isAttrValue s then do
      let (v, s) ← parseAttrValue s
      attrValueLoop f (acc ++ v.getD []) s
    else pure (acc, s)

/-- `parse_attribute`. -/
def parseAttribute (s : PState) : PRes(Attr) := do
  let ((name, prefix?), s) ← parseAttrStart s
  let (v, s) ← attrValueLoop (s.rest.length + 1) (prefix?.getD []) s
  let v ← (if !v.isEmpty then
      match name, s.lang with
      | .token r, some lang =>
        if lang.id == 1301 && r.page == 0 && (r.token == 0x0a || r.token == 0x10) then decodeDatetime v
        else if lang.id == 1701 && r.page == 0 && r.token == 0x05 then decodeDatetime v
        else .ok v
      | .token _, none => .error (.ub "langTable NULL in parse_attribute")
      | _, _ => .ok v
    else .ok v)
  let v := if v.isEmpty then v else v ++ [0]
  pure ({ name := name, value := v }, s)

/-- `do { parse_attribute } while (!is_token(END))`. -/
def attrsLoop : Nat → List Attr → PState → PRes(List Attr)
  | 0, _, _ => .error .fuel
  | f + 1, acc, s => do
    let (a, s) ← parseAttribute s
    if isToken s 0x01 then pure (acc ++ [a], s) else attrsLoop f (acc ++ [a]) s

/-- `while (!is_token(END)) parse_attr_value` of `parse_pi`. -/
def piValueLoop : Nat → Bytes → PState → PRes(Bytes)
  | 0, _, _ => .error .fuel
  | f + 1, acc, s =>
    if isToken s 0x01 then pure (acc, s)
    else do
      let (v, s) ← parseAttrValue s
      piValueLoop f (acc ++ v.getD []) s

/-- `parse_pi`. -/
def parsePi (s : PState) : PRes(Event) := do
  let s ← skip1 "PI" s
  let ((name, prefix?), s) ← parseAttrStart s
  let (v, s) ← piValueLoop (s.rest.length + 1) (prefix?.getD []) s
  let s ← skip1 "END of PI" s
  let v := if v.isEmpty then v else v ++ [0]
  pure (.pi name.xmlName v, s)

/-- `parse_tag`: the element name for a token byte under the current tag page. -/
def parseTag (s : PState) : PRes(UInt8 × Name) := do
  let (tag, s) ← parseU8 s
  let token := tag.toNat &&& 0x3F
  match s.lang with
  | none => .error (.code E.langTableUndefined)
  | some lang =>
    match lang.tags with
    | none => .error (.code E.tagTableUndefined)
    | some tags =>
      match tags.find? (fun r => r.token == token && r.page == s.tagPage) with
      | none => pure ((tag, .literal unknownStr), s)
      | some r => pure ((tag, .token r), s)

/-- `parse_stag`. -/
def parseStag (s : PState) : PRes(UInt8 × Name) :=
  if isLiteral s then do
    let ((mask, str), s) ← parseLiteral s
    -- wbxml_tag_create_literal(cstr): the name is a C string
    pure ((mask, .literal (str.take (cstrLen str))), s)
  else parseTag s

mutual
/-- `parse_element`. Events are appended to `ev`. -/
def parseElement : Nat → List Event → PState → PRes(List Event)
  | 0, _, _ => .error .fuel
  | f + 1, ev, s => do
    let s ← if isToken s 0x00 then parseSwitchPage true s else pure s
    let ((tag, name), s) ← parseStag s
    let s := match name with
      | .token r => { s with curTag := some r }
      | .literal _ => s
    let (attrs, s) ← (if tag.toNat &&& 0x80 != 0 then do
        let (as, s) ← attrsLoop (s.rest.length + 1) [] s
        let s ← skip1 "END of attributes" s
        pure (as, s)
      else pure ([], s))
    let ev := ev ++ [.startElt name attrs]
    let (ev, s) ← (if tag.toNat &&& 0x40 != 0 then do
        let (ev, s) ← contentLoop f ev s
        let s ← skip1 "END of element" s
        pure (ev, s)
      else pure (ev, s))
    pure (ev ++ [.endElt name], { s with curTag := none })

/-- `while (!is_token(END)) { parse_content; characters callback }`. -/
def contentLoop : Nat → List Event → PState → PRes(List Event)
  | 0, _, _ => .error .fuel
  | f + 1, ev, s =>
    if isToken s 0x01 then pure (ev, s)
    else
      -- parse_content
      match peekAt s 0 with
      | none => .error (.code E.endOfBuffer)
      | some _ =>
        if isExtension s then do
          let (r, s) ← parseExtension true s
          contentLoop f (match r with | some b => if b.isEmpty then ev else ev ++ [.chars b] | none => ev) s
        else if isToken s 0x02 then do
          let (b, s) ← parseEntity s
          contentLoop f (if b.isEmpty then ev else ev ++ [.chars b]) s
        else if isString s then do
          let (b, s) ← parseString s
          contentLoop f (if b.isEmpty then ev else ev ++ [.chars b]) s
        else if isToken s 0xC3 then do
          let (d, s) ← parseOpaque s
          match s.lang with
          | none => .error (.ub "langTable NULL in decode_opaque_content")
          | some lang =>
            let d ← decodeOpaqueContent lang.id s.curTag d
            contentLoop f (if d.isEmpty then ev else ev ++ [.chars d]) s
        else if isToken s 0x43 then do
          let (e, s) ← parsePi s
          contentLoop f (ev ++ [e]) s
        else if isToken s 0x00 then do
          let s ← parseSwitchPage true s
          contentLoop f ev s
        else do
          let (ev, s) ← parseElement f ev s
          contentLoop f ev s
end

/-- `while (is_token(PI)) parse_pi`. -/
def piLoop : Nat → List Event → PState → PRes(List Event)
  | 0, _, _ => .error .fuel
  | f + 1, ev, s =>
    if isToken s 0x43 then do
      let (e, s) ← parsePi s
      piLoop f (ev ++ [e]) s
    else pure (ev, s)

/-- `parse_body`. -/
def parseBody (ev : List Event) (s : PState) : PRes(List Event) := do
  let (ev, s) ← piLoop (s.rest.length + 1) ev s
  -- each nesting level spends two units (element, content loop) and at least one byte
  let (ev, s) ← parseElement (2 * s.rest.length + 2) ev s
  piLoop (s.rest.length + 1) ev s

/-- Result of a parser run: the events delivered before the run ended, and the verdict. -/
structure ParseOut where
  events : List Event
  result : Except Err Unit
  consumed : Nat := 0

/-- `wbxml_parser_parse`. Events delivered before an error are still observable (the callbacks
    have run), which is why the error case keeps the events of the header stage. The body's own
    partial events are recomputed by `parseBodyPartial` in the driver when needed. -/
def parseHeader (cfg : PCfg) (wbxml : Bytes) : Except Err (PState × Lang) :=
  if wbxml.isEmpty then .error (.code E.emptyWbxml)
  else do
    let s : PState := { rest := wbxml }
    -- parse_version
    let (ver, s) ← parseU8 s
    let s := { s with version := ver.toNat }
    -- parse_publicid
    let (pubId, pubIdx, s) ← (match s.rest with
      | [] => .error (.code E.endOfBuffer)
      | b :: r =>
        if b == 0 then do
          let (i, s) ← parseMb { s with rest := r }
          -- stored in a signed 32-bit field where -1 means "none"
          pure (1, if i == 4294967295 then none else some i, s)
        else do
          let (p, s) ← parseMb s
          pure (p, none, s) : Except Err (Nat × Option Nat × PState))
    let pubId := if cfg.langForced != 0 then publicIdOfLang cfg.main cfg.langForced else pubId
    -- parse_charset
    let s ← (if s.version != 0 then do
        let (cs, s) ← parseMb s
        let cs := if cs == 0 then (if cfg.metaCharset != 0 then cfg.metaCharset else 106) else cs
        if cfg.charsets.contains cs then pure { s with charset := cs }
        else .error (.code E.charsetNotFound)
      else pure s : Except Err PState)
    let s := if s.charset == 0 then
        { s with charset := if cfg.metaCharset != 0 then cfg.metaCharset else 106 } else s
    let s ← parseStrtbl s
    match checkPublicId cfg s pubId pubIdx with
    | none => .error (.code E.unknownPublicId)
    | some lang => pure ({ s with lang := some lang }, lang)

def parse (cfg : PCfg) (wbxml : Bytes) : ParseOut :=
  match parseHeader cfg wbxml with
  | .error e => { events := [], result := .error e }
  | .ok (s, lang) =>
    let ev := [Event.startDoc s.charset lang.id]
    match parseBody ev s with
    | .error e => { events := ev, result := .error e }
    | .ok (ev, s') => { events := ev ++ [.endDoc], result := .ok (), consumed := wbxml.length - s'.rest.length }

end Wbxml.Model
