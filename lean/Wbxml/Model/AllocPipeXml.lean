/-
  C16 — the conversions that involve XML on the ledger: WBXML → tree → XML, XML → tree → WBXML and
  XML → tree → XML.  First the WBXML → tree → XML conversion: `wbxml_tree_from_wbxml` on the document,
  `wbxml_tree_to_xml` on the tree it returns, `wbxml_tree_destroy` — what `wbxml_conv_wbxml2xml_run`
  does between the creation and the destruction of the converter object.

  The printer reads the tree as an `XNode` (`xtree`: a function of the tree; its text buffers are
  the tree's own content buffers) and the language table as an `XLang` (decided by the document's
  public identifier); `Model/AllocXml.lean` takes both as parameters, for every tree.
-/
import Wbxml.Model.AllocParseLoop
import Wbxml.Model.AllocXml
import Wbxml.Model.AllocTreeXml
namespace Wbxml.Model.Alloc
open Wbxml

def wbxml2xml (d : Doc) (g : XGen) (l : XLang) (xtree : TCtx → XNode) : Prog (Nat × Option (Nat × Bytes)) := do
  let (ret, c) ← treeFromWbxml d
  match c with
  | none => pure (ret, none)
  | some c => do
    let r ← treeToXml g l (xtree c)
    treeDestroy c
    pure r

/-- XML → tree → WBXML: `wbxml_tree_from_xml` (Expat's call-backs), `wbxml_tree_to_wbxml` on the tree,
    `wbxml_tree_destroy` — `wbxml_conv_xml2wbxml_run`.  `texts` / `body`: the encoder's view of the
    tree, as in `wbxml2wbxml`. -/
def xml2wbxml (binRow : Nat → Bool) (events : List XEvent) (parseOk : Bool) (useStrtbl : Bool)
    (texts : TCtx → List ABuf) (body : TCtx → List Bytes) (version publicId : Nat) : Prog (Nat × Option (Nat × Bytes)) := do
  let (ret, c) ← treeFromXml binRow events parseOk
  match c with
  | none => pure (ret, none)
  | some c => do
    let r ← treeToWbxml useStrtbl (texts c) (body c) version publicId
    treeDestroy c
    pure r

/-- XML → tree → XML (`wbxml_tree_from_xml`, `wbxml_tree_to_xml`, `wbxml_tree_destroy`). -/
def xml2xml (binRow : Nat → Bool) (events : List XEvent) (parseOk : Bool) (g : XGen) (l : XLang) (xtree : TCtx → XNode) :
    Prog (Nat × Option (Nat × Bytes)) := do
  let (ret, c) ← treeFromXml binRow events parseOk
  match c with
  | none => pure (ret, none)
  | some c => do
    let r ← treeToXml g l (xtree c)
    treeDestroy c
    pure r

end Wbxml.Model.Alloc
