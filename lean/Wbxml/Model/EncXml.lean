/-
  Model of the XML generation half of `wbxml_encoder.c` (parse_node → xml_encode_*), of
  `wbxml_tree_from_wbxml`/`wbxml_tree_to_xml` and of `wbxml_conv_wbxml2xml_run`.
-/
import Wbxml.Model.Tree
namespace Wbxml.Model

/-- `WBXMLGenXMLParams` / `WBXMLConvWBXML2XML`. -/
structure W2XCfg where
  main : List Lang
  lang : Nat := 0          -- forced language (0 = none)
  charset : Nat := 0       -- fallback charset (0 = none)
  gen : Nat := 1           -- 0 compact, 1 indent, 2 canonical
  indent : UInt8 := 0
  keepWs : Bool := false

/-- The fields of `WBXMLEncoder` that XML generation reads and writes. -/
structure XSt where
  out : Bytes := []
  indent : UInt8 := 0
  inContent : Bool := false
  inCdata : Bool := false
  curTag : Option TagRow := none
  deriving Inhabited

structure XCfg where
  lang : Lang
  gen : Nat
  delta : UInt8
  ignoreEmpty : Bool
  removeBlanks : Bool

def isSpaceC (b : UInt8) : Bool := b == 32 || (9 ≤ b.toNat && b.toNat ≤ 13)

def stripBlanks (s : Bytes) : Bytes :=
  ((s.dropWhile isSpaceC).reverse.dropWhile isSpaceC).reverse

def spaces (n : Nat) : Bytes := List.replicate n 32

/-- `xml_encode_text_entities`. -/
def xmlEscape (canonical : Bool) (s : Bytes) : Bytes :=
  s.flatMap fun ch =>
    if ch == 60 then b!"&lt;"
    else if ch == 62 then b!"&gt;"
    else if ch == 38 then b!"&amp;"
    else if ch == 34 then b!"&quot;"
    else if ch == 39 then b!"&apos;"
    else if ch == 13 then b!"&#13;"
    else if ch == 10 && canonical then b!"&#10;"
    else if ch == 9 && canonical then b!"&#9;"
    else [ch]

def newLine : Bytes := [10]

/-- Text written inside a CDATA section: as is, except that `]]>` is split over two sections. -/
def cdataText : Bytes → Bytes
  | 93 :: 93 :: 62 :: r => b!"]]]]><![CDATA[>" ++ cdataText r
  | b :: r => b :: cdataText r
  | [] => []

/-- The nearest ancestor with a code page, as `xml_encode_tag` finds it walking up `parent` links:
    nothing (`none`: the root, or only literal elements / CDATA nodes above), or a token element
    (`elt (.token r)`). `elt (.literal _)` and `other` are no longer produced by `xmlNode`. -/
inductive Parent where
  | none
  | elt (n : Name)
  | other

/-- The scope handed to the children of an element called `name` whose own scope is `parent`. -/
def childScope (parent : Parent) (name : Name) : Parent :=
  match name with
  | .token _ => .elt name
  | .literal _ => parent

def nsOfPageX (ns : List NsRow) (page : Nat) : Option Bytes :=
  (ns.find? (fun r => r.page == page)).map (·.ns)

def haveChildElt (kids : List Node) : Bool :=
  kids.any fun k => match k with | .elt _ _ _ => true | _ => false

/-- `xml_encode_tag`. -/
def xmlTag (c : XCfg) (parent : Parent) (name : Name) (st : XSt) : XSt :=
  let st := { st with curTag := match name with | .token r => some r | .literal _ => none }
  let out := st.out ++ (if c.gen == 1 then spaces (st.indent.toNat * c.delta.toNat) else [])
  let out := out ++ [60] ++ name.xmlName
  -- only token names have a code page; the root, or a token element whose token parent lives on
  -- another page, declares the namespace of its page
  let nsPage : Option Nat :=
    match c.lang.ns, name, parent with
    | some _, .token r, .none => some r.page
    | some _, .token r, .elt (.token pr) => if pr.page != r.page then some r.page else none
    | _, _, _ => none
  let out := match nsPage, c.lang.ns with
    | some p, some ns => (match nsOfPageX ns p with
      | some n => out ++ b!" xmlns=\"" ++ n ++ [34]
      | none => out)
    | _, _ => out
  { st with out := out }

def cstrOf (b : Bytes) : Bytes := b.take (cstrLen b)

/-- `xml_encode_attr`: the value is read as a C string. -/
def xmlAttr (c : XCfg) (a : Attr) (st : XSt) : XSt :=
  { st with out := st.out ++ [32] ++ cstrOf a.name.xmlName ++ b!"=\"" ++
      xmlEscape (c.gen == 2) (cstrOf a.value) ++ [34] }

/-- `xml_encode_end_attrs`. -/
def xmlEndAttrs (c : XCfg) (kids : List Node) (st : XSt) : XSt :=
  if kids.isEmpty then
    { st with out := st.out ++ b!"/>" ++ (if c.gen == 1 then newLine else []) }
  else
    let st := { st with out := st.out ++ [62] }
    if c.gen == 1 && haveChildElt kids then
      { st with out := st.out ++ newLine, indent := st.indent + 1 }
    else st

/-- `xml_encode_end_tag`. -/
def xmlEndTag (c : XCfg) (name : Name) (kids : List Node) (st : XSt) : XSt :=
  let st := if c.gen == 1 && haveChildElt kids then
      let st := if st.inContent then { st with out := st.out ++ newLine } else st
      let st := { st with indent := st.indent - 1 }
      { st with out := st.out ++ spaces (st.indent.toNat * c.delta.toNat) }
    else st
  { st with out := st.out ++ b!"</" ++ name.xmlName ++ [62] ++ (if c.gen == 1 then newLine else []),
            inContent := false }

def isBinaryTag (t : Option TagRow) : Bool :=
  match t with
  | some r => r.opts &&& 1 != 0
  | none => false

/-- `parse_text` + `xml_encode_text` for XML output. -/
def xmlText (c : XCfg) (s : Bytes) (st : XSt) : Except Err XSt :=
  let skipWs := !st.inCdata && !isBinaryTag st.curTag && c.gen != 2
  if skipWs && c.ignoreEmpty && s.all isSpaceC then .ok st
  else
    let s := if skipWs && c.removeBlanks then stripBlanks s else s
    if st.inCdata then .ok { st with out := st.out ++ cdataText s, inContent := true }
    else
      let isType := match st.curTag with
        | some r => r.page == 1 && r.token == 0x13
        | none => false
      let s := if isSyncml c.lang.id && isType && s == b!"application/vnd.syncml-devinf+wbxml"
               then b!"application/vnd.syncml-devinf+xml" else s
      let s := if c.lang.id == 2201 && isType && s == b!"application/vnd.syncml.dmtnds+wbxml"
               then b!"application/vnd.syncml.dmtnds+xml" else s
      if isBinaryTag st.curTag then
        if s.isEmpty then .error (.code E.b64Enc)
        else .ok { st with out := st.out ++ xmlEscape (c.gen == 2) (b64EncodeGo s), inContent := true }
      else .ok { st with out := st.out ++ xmlEscape (c.gen == 2) s, inContent := true }

/-- `xml_fill_header`. -/
def xmlHeader (lang : Lang) (gen : Nat) : Bytes :=
  let nl := if gen == 1 then newLine else []
  b!"<?xml version=\"1.0\"?>" ++ nl ++ b!"<!DOCTYPE " ++ lang.pub.root.getD [] ++
    (match lang.pub.xmlId with
     | some p => if p.isEmpty then b!" SYSTEM" else b!" PUBLIC \"" ++ p ++ b!"\""
     | none => b!" SYSTEM") ++
    b!" \"" ++ lang.pub.dtd.getD [] ++ b!"\">" ++ nl

mutual
/-- `parse_node` on one node (without its `next` chain). `fuel` bounds the nesting of embedded
    documents and elements. -/
def xmlNode (c : XCfg) (parent : Parent) : Nat → Node → XSt → Except Err XSt
  | 0, _, _ => .error .fuel
  | f + 1, n, st =>
    match n with
    | .elt name attrs kids => do
      let st := xmlTag c parent name st
      let st := if c.lang.attrs.isSome then attrs.foldl (fun st a => xmlAttr c a st) st else st
      let st := xmlEndAttrs c kids st
      -- the namespace in scope below a literal element (no code page, declares nothing) is still the
      -- one of the nearest token element above it
      let st ← xmlNodes c (childScope parent name) f kids st
      let st := if kids.isEmpty then st else xmlEndTag c name kids st
      pure { st with curTag := none }
    | .text s => do
      let st ← xmlText c s st
      pure { st with curTag := none }
    | .cdata kids => do
      let st := { st with inCdata := true, out := st.out ++ b!"<![CDATA[" }
      let st ← xmlNodes c parent f kids st      -- a CDATA node has no code page either
      pure { st with inCdata := false, out := st.out ++ b!"]]>", curTag := none }
    | .tree lang _ root =>
      -- xml_encode_tree: a duplicated encoder without header, appended as a C string
      match lang with
      | none => .error (.code 12)
      | some l =>
        match root with
        | none => .error (.ub "nested tree without root")
        | some r => do
          let c' : XCfg := { c with lang := l }
          let st' ← xmlNode c' .none f r { indent := st.indent }
          pure { st with out := st.out ++ cstrOf st'.out, curTag := none }

def xmlNodes (c : XCfg) (parent : Parent) : Nat → List Node → XSt → Except Err XSt
  | 0, _, _ => .error .fuel
  | _ + 1, [], st => .ok st
  | f + 1, n :: rest, st => do
    let st ← xmlNode c parent f n st
    xmlNodes c parent f rest st
end

/-- `wbxml_tree_to_xml` + `wbxml_encoder_encode_tree_to_xml` for a whole tree. -/
def treeToXml (cfg : W2XCfg) (fuel : Nat) (t : Tree) : Except Err Bytes :=
  match t.lang, t.root with
  | none, _ => .error (.code 12)
  | some lang, none => .error (.ub "tree without root")
  | some lang, some root => do
    let c : XCfg := { lang := lang, gen := cfg.gen, delta := if cfg.gen == 1 then cfg.indent else 1,
                      ignoreEmpty := !cfg.keepWs, removeBlanks := !cfg.keepWs }
    let st ← xmlNode c .none fuel root {}
    pure (xmlHeader lang cfg.gen ++ st.out)

/-- `wbxml_tree_from_wbxml`: parse, then fold the events through the tree builder. Embedded
    documents recurse with the language not forced and the outer charset as meta charset. -/
def treeOfWbxml (main : List Lang) : Nat → Nat → Nat → Bytes → Except Err Tree
  | 0, _, _, _ => .error .fuel
  | f + 1, lang, charset, wbxml =>
    let out := parse { main := main, langForced := lang, metaCharset := charset } wbxml
    let embedded := fun (cs : Nat) (bs : Bytes) =>
      match treeOfWbxml main f 0 cs bs with
      | .ok t => some t
      | .error _ => none
    -- events are delivered to the callbacks as they occur; once the context holds an error
    -- every later callback returns immediately
    let b := out.events.foldl (buildStep main embedded) {}
    match out.result with
    | .error e => .error e
    | .ok _ =>
      match b.error with
      | some e => .error (.code e)
      | none => .ok { lang := b.lang, origCharset := b.charset, root := b.root }

mutual
/-- Recursion budget that `xmlNode` needs for a node: one unit per nesting level and per sibling
    (`parse_node` recurses into `children` and walks `next`). The C code has no budget — it just
    recurses; the model's fuel is a termination device and `wbxml2xml` supplies exactly this amount,
    computed from the tree itself, so that it can never be the reason for a result. -/
def Node.xmlFuel : Node → Nat
  | .elt _ _ kids => Node.xmlFuelL kids + 1
  | .text _ => 1
  | .cdata kids => Node.xmlFuelL kids + 1
  | .tree _ _ none => 1
  | .tree _ _ (some r) => r.xmlFuel + 1
def Node.xmlFuelL : List Node → Nat
  | [] => 1
  | n :: rest => max n.xmlFuel (Node.xmlFuelL rest) + 1
end

def Tree.xmlFuel (t : Tree) : Nat :=
  match t.root with
  | some r => r.xmlFuel
  | none => 1

/-- `wbxml_conv_wbxml2xml_run`. -/
def wbxml2xml (cfg : W2XCfg) (wbxml : Bytes) : Except Err Bytes :=
  if wbxml.isEmpty then .error (.code 12)
  else do
    let t ← treeOfWbxml cfg.main (wbxml.length + 1) cfg.lang cfg.charset wbxml
    treeToXml cfg t.xmlFuel t

end Wbxml.Model
