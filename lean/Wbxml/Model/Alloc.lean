/-
  C16 — the ledger monad.

  Every allocation of the library goes through the four functions of `src/wbxml_mem.c`.  A model
  function is a program `Prog α` over exactly those four primitives (plus `deref`, the place where
  the C code reads or writes through a pointer to an allocated object).  `run` interprets a program
  against a `Ledger`:

    * `next`   — number of allocation requests made so far (request numbers start at 1);
    * `sched`  — the failure schedule: the request numbers that are answered with NULL
                 (`failAt k = [k]`; pairs `[k1, k2]` in the thorough tier);
    * `live`   — the ids of the live blocks.  The id of a block is the number of the request that
                 produced it, so ids are never reused and a stale pointer is recognisable;
    * `hits`   — how many scheduled failures have been delivered.

  A *fault* — `free`/`realloc` of a block that is not live (double free, free of an unknown
  pointer), a dereference of NULL or of a freed block — ends the run with `Err.ub`.  `free NULL` is
  allowed.  `realloc(p, n)` is one request: on success the old block is released and a new id is
  handed out (so a pointer kept to the old block is stale, as in C when the block moves); on
  failure the old block stays live and NULL is returned.

  `Prog` is a first-order syntax (a free monad) so that facts true of *every* model function —
  the schedule is only read, `next` and `hits` never decrease, live ids never exceed `next`, a run
  that was delivered no failure is the un-failed run — are proved once, by induction on the
  program (`Lemmas/AllocCore.lean`).
-/
import Wbxml.Prim.Basic
namespace Wbxml.Model.Alloc
open Wbxml

structure Ledger where
  next : Nat := 0
  sched : List Nat := []
  live : List Nat := []
  hits : Nat := 0
  deriving Repr, DecidableEq, Inhabited

/-- A pointer to an allocated block: `none` is NULL. -/
abbrev Ptr := Option Nat

inductive Prog (α : Type) : Type where
  | ret (a : α)
  | malloc (k : Ptr → Prog α)
  | realloc (p : Ptr) (k : Ptr → Prog α)
  | free (p : Ptr) (k : Prog α)
  | deref (p : Ptr) (k : Prog α)
  | ub (what : String)

namespace Prog

def bind : Prog α → (α → Prog β) → Prog β
  | ret a, f => f a
  | malloc k, f => malloc (fun p => bind (k p) f)
  | realloc p k, f => realloc p (fun q => bind (k q) f)
  | free p k, f => free p (bind k f)
  | deref p k, f => deref p (bind k f)
  | ub w, _ => ub w

instance : Monad Prog where
  pure := ret
  bind := bind

end Prog

/-- `wbxml_malloc` (also `wbxml_strdup`: one request, one block). -/
def malloc : Prog Ptr := .malloc .ret
/-- `wbxml_realloc(p, _)`. -/
def realloc (p : Ptr) : Prog Ptr := .realloc p .ret
/-- `wbxml_free(p)`. -/
def free (p : Ptr) : Prog Unit := .free p (.ret ())
/-- The code reads or writes `*p`. -/
def deref (p : Ptr) : Prog Unit := .deref p (.ret ())
/-- `if (c) … *p …` -/
def derefWhen (c : Bool) (p : Ptr) : Prog Unit := if c then deref p else pure ()
/-- Any other undefined behaviour of the C code. -/
def ub (what : String) : Prog α := .ub what

/-- Does request number `n` fail? -/
def Ledger.fails (s : Ledger) (n : Nat) : Bool := s.sched.contains n

/-- Release block `a`. -/
def Ledger.release (s : Ledger) (a : Nat) : Ledger := { s with live := s.live.filter (· != a) }

def run : Prog α → Ledger → Except Err α × Ledger
  | .ret a, s => (.ok a, s)
  | .malloc k, s =>
    let n := s.next + 1
    if s.fails n then run (k none) { s with next := n, hits := s.hits + 1 }
    else run (k (some n)) { s with next := n, live := s.live ++ [n] }
  | .realloc p k, s =>
    let n := s.next + 1
    if s.fails n then run (k none) { s with next := n, hits := s.hits + 1 }
    else match p with
      | none => run (k (some n)) { s with next := n, live := s.live ++ [n] }
      | some a =>
        if a ∈ s.live then run (k (some n)) { s with next := n, live := s.live.filter (· != a) ++ [n] }
        else (.error (.ub "realloc of a block that is not live"), { s with next := n })
  | .free none k, s => run k s
  | .free (some a) k, s =>
    if a ∈ s.live then run k (s.release a)
    else (.error (.ub "free of a block that is not live (double free / unknown pointer)"), s)
  | .deref none _, s => (.error (.ub "NULL pointer dereferenced"), s)
  | .deref (some a) k, s =>
    if a ∈ s.live then run k s else (.error (.ub "block used after free"), s)
  | .ub w, s => (.error (.ub w), s)

/-- The single-failure schedule. -/
def failAt (k : Nat) : List Nat := [k]

/-- A ledger with nothing allocated and the given schedule. -/
def Ledger.start (sched : List Nat) : Ledger := { sched := sched }

/-- Every live id has been handed out (`≤ next`): fresh ids are new. -/
def Ledger.WF (s : Ledger) : Prop := ∀ i ∈ s.live, i ≤ s.next

/-- `f(x)` for every `x` of a list, in order. -/
def forM_ (xs : List ι) (f : ι → Prog Unit) : Prog Unit :=
  match xs with
  | [] => pure ()
  | x :: rest => do f x; forM_ rest f

/-- What "an error" means for the C return conventions used by the modelled functions. -/
class IsErr (α : Type) where
  isErr : α → Bool

instance : IsErr (Option β) := ⟨Option.isNone⟩          -- NULL
instance : IsErr Bool := ⟨fun b => !b⟩                  -- FALSE
instance : IsErr Nat := ⟨fun c => c != 0⟩               -- WBXMLError ≠ WBXML_OK

/-- `WBXML_OK`, `WBXML_ERROR_NOT_ENOUGH_MEMORY`, `WBXML_ERROR_ENCODER_APPEND_DATA` (wbxml_errors.h). -/
def OK : Nat := 0
def ENOMEM : Nat := 15
def EAPPEND : Nat := 90

end Wbxml.Model.Alloc
