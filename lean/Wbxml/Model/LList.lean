/-
  C19 — concrete model of `src/wbxml_lists.c`: a singly linked list in a heap of cells.

  Pointers are indices into `heap` (`none` = NULL); freed cells stay in the heap with
  `live = false`, so use-after-free, double free and NULL dereference are `Err.ub` results rather
  than being impossible by construction.  Items are `void *`: numbers here, 0 = NULL.
-/
import Wbxml.Prim.Basic
import Wbxml.Spec.Seq
namespace Wbxml.Model
open Wbxml.Spec.Seq (LOp LOut)

/-- `WBXMLListElt`. -/
structure Cell where
  item : Nat
  next : Option Nat
  live : Bool
  deriving Repr, DecidableEq, Inhabited

/-- `struct WBXMLList_s` plus the heap its cells live in. -/
structure LList where
  heap : List Cell
  head : Option Nat
  tail : Option Nat
  len : Nat
  deriving Repr, DecidableEq, Inhabited

namespace LList

/-- `wbxml_list_create_real`. -/
def create : LList := ⟨[], none, none, 0⟩

/-- `*p` for a cell pointer. -/
def deref (l : LList) (p : Option Nat) : Except Err Cell :=
  match p with
  | none => .error (.ub "NULL list element dereferenced")
  | some a =>
    match l.heap[a]? with
    | none => .error (.ub "wild list element pointer")
    | some c => if c.live then .ok c else .error (.ub "list element used after free")

/-- `wbxml_elt_create_real(item)` for a non-NULL item: a fresh cell, `next = NULL`. -/
def newCell (l : LList) (item : Nat) : LList × Nat :=
  ({ l with heap := l.heap ++ [⟨item, none, true⟩] }, l.heap.length)

/-- `p->next = n`. -/
def setNext (l : LList) (p : Option Nat) (n : Option Nat) : Except Err LList :=
  match l.deref p, p with
  | .error e, _ => .error e
  | .ok c, some a => .ok { l with heap := l.heap.set a { c with next := n } }
  | .ok _, none => .error (.ub "NULL list element dereferenced")

/-- `wbxml_free(elt)`. -/
def free (l : LList) (p : Option Nat) : Except Err LList :=
  match l.deref p, p with
  | .error e, _ => .error e
  | .ok c, some a => .ok { l with heap := l.heap.set a { c with live := false } }
  | .ok _, none => .error (.ub "NULL list element dereferenced")

/-- `wbxml_list_append`. -/
def append (l : LList) (item : Nat) : Except Err (LList × Bool) :=
  if item = 0 then .ok (l, false)
  else match l.head with
    | none =>
      let (l, a) := l.newCell item
      .ok ({ l with head := some a, tail := some a, len := l.len + 1 }, true)
    | some _ =>
      let (l1, a) := l.newCell item
      match l1.setNext l1.tail (some a) with
      | .error e => .error e
      | .ok l2 => .ok ({ l2 with tail := some a, len := l2.len + 1 }, true)

/-- `for (i = 0; i < pos; i++) { prev = elt; elt = elt->next; }` -/
def advance (l : LList) : Nat → Option Nat → Option Nat → Except Err (Option Nat × Option Nat)
  | 0, prev, elt => .ok (prev, elt)
  | k + 1, _, elt =>
    match l.deref elt with
    | .error e => .error e
    | .ok c => advance l k elt c.next

/-- `wbxml_list_insert`. -/
def insert (l : LList) (item : Nat) (pos : Nat) : Except Err (LList × Bool) :=
  if item = 0 then .ok (l, false)
  else
    let (l1, a) := l.newCell item
    if l1.len = 0 then .ok ({ l1 with head := some a, tail := some a, len := l1.len + 1 }, true)
    else if pos = 0 then
      match l1.setNext (some a) l1.head with
      | .error e => .error e
      | .ok l2 => .ok ({ l2 with head := some a, len := l2.len + 1 }, true)
    else if pos ≥ l1.len then
      match l1.setNext l1.tail (some a) with
      | .error e => .error e
      | .ok l2 => .ok ({ l2 with tail := some a, len := l2.len + 1 }, true)
    else
      match l1.advance pos none l1.head with
      | .error e => .error e
      | .ok (prev, elt) =>
        match l1.setNext prev (some a) with
        | .error e => .error e
        | .ok l2 => match l2.setNext (some a) elt with
          | .error e => .error e
          | .ok l3 => .ok ({ l3 with len := l3.len + 1 }, true)

/-- `wbxml_list_get`: `none` = NULL. -/
def get (l : LList) (idx : Nat) : Except Err (Option Nat) :=
  if idx ≥ l.len then .ok none
  else match l.advance idx none l.head with
    | .error e => .error e
    | .ok (_, elt) => match l.deref elt with
      | .error e => .error e
      | .ok c => .ok (some c.item)

/-- `wbxml_list_extract_first`. -/
def extractFirst (l : LList) : Except Err (LList × Option Nat) :=
  if l.len = 0 then .ok (l, none)
  else match l.deref l.head with
    | .error e => .error e
    | .ok c =>
      let l1 := { l with head := c.next, tail := if c.next = none then none else l.tail }
      match l1.free l.head with
      | .error e => .error e
      | .ok l2 => .ok ({ l2 with len := l2.len - 1 }, some c.item)

/-- `while (elt != NULL) { next = elt->next; destroy(elt); elt = next; }` -/
def destroyLoop (l : LList) : Nat → Option Nat → Except Err LList
  | 0, _ => .error .fuel
  | f + 1, elt =>
    match elt with
    | none => .ok l
    | some _ =>
      match l.deref elt with
      | .error e => .error e
      | .ok c => match l.free elt with
        | .error e => .error e
        | .ok l1 => destroyLoop l1 f c.next

/-- `wbxml_list_destroy(list, NULL)`: every cell of the chain is freed exactly once. -/
def destroy (l : LList) : Except Err LList := l.destroyLoop (l.len + 1) l.head

/-- Items met when following `next` from `p` (observation used by the driver). -/
def walkFrom (l : LList) : Nat → Option Nat → Except Err (List Nat)
  | 0, _ => .error .fuel
  | f + 1, p =>
    match p with
    | none => .ok []
    | some _ => match l.deref p with
      | .error e => .error e
      | .ok c => match walkFrom l f c.next with
        | .error e => .error e
        | .ok r => .ok (c.item :: r)

def walk (l : LList) : Except Err (List Nat) := l.walkFrom (l.heap.length + 1) l.head

/-- Address of the last cell reached from `p`. -/
def lastFrom (l : LList) : Nat → Option Nat → Option Nat
  | 0, _ => none
  | f + 1, p =>
    match p with
    | none => none
    | some a => match l.deref p with
      | .error _ => none
      | .ok c => if c.next = none then some a else lastFrom l f c.next

/-- What the harness checks by hand: walk length = `len`, `tail` is the last cell. -/
def wellFormed (l : LList) : Bool :=
  match l.walk with
  | .error _ => false
  | .ok items => items.length == l.len && l.tail == l.lastFrom (l.heap.length + 1) l.head

def step (l : LList) : LOp → Except Err (LList × LOut)
  | .len => .ok (l, .nat l.len)
  | .append it => match l.append it with
    | .ok (l, b) => .ok (l, .bool b) | .error e => .error e
  | .insert it pos => match l.insert it pos with
    | .ok (l, b) => .ok (l, .bool b) | .error e => .error e
  | .get idx => match l.get idx with
    | .ok r => .ok (l, .item r) | .error e => .error e
  | .extractFirst => match l.extractFirst with
    | .ok (l, r) => .ok (l, .item r) | .error e => .error e

def run (l : LList) : List LOp → Except Err (LList × List LOut)
  | [] => .ok (l, [])
  | op :: ops => match l.step op with
    | .error e => .error e
    | .ok (l, o) => match run l ops with
      | .error e => .error e
      | .ok (l, os) => .ok (l, o :: os)

end LList
end Wbxml.Model
