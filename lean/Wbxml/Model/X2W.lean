/-
  Model of `wbxml_conv_xml2wbxml_run`: `wbxml_tree_from_xml` (Expat as a parameter) followed by
  `wbxml_tree_to_wbxml`.
-/
import Wbxml.Model.TreeOfXml
import Wbxml.Model.EncWbxml
namespace Wbxml.Model

inductive X2WRes where
  | ok (wbxml : Bytes)
  | err (e : Err)
  | need (doc : Bytes)

/-- `wbxml_conv_xml2wbxml_run(conv, xml, …)`; `env` holds Expat's runs for `xml` and for every
    embedded document the conversion re-parses. -/
def xml2wbxml (main : List Lang) (cfg : X2WCfg) (env : List (Bytes × ExpatRun)) (xml : Bytes) : X2WRes :=
  if xml.isEmpty then .err (.code 12)
  else
    match treeOfXml main env (env.length + 2) xml with
    | .need d => .need d
    | .err c => .err (.code c)
    | .ok t =>
      match treeToWbxml cfg t with
      | .ok w => .ok w
      | .error e => .err e

end Wbxml.Model
