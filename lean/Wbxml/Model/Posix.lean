/-
  C14 — committed constants: what the property's rule ("the library calls nothing that is not
  re-entrant and owns no writable process-wide memory") is measured against.

  * `Posix.functions`               POSIX.1-2017 (IEEE Std 1003.1-2017) XSH chapter 3, the system interfaces
  * `Posix.needNotBeThreadSafe`     XSH §2.9.1, the functions that "need not be thread-safe"
  * `Posix.processStateMutators`    thread-safe but mutating process-wide state
  * `toolchainSymbols` / prefixes   what compiler, C runtime and sanitizers reference on their own
  * `readOnlySection`, `crtObjectAllowlist`  where a library object may live

  Symbol names are compared as base-256 `Nat` keys (`sym!"strtok"` is the literal
  `0x737472746f6b`), so that the kernel decides membership with GMP arithmetic; the regenerated
  `Gen.Globals` carries names as byte lists and `keyOf` maps them to the same keys.
  Written from the standard's text, not from the C sources: nothing here is regenerated.
-/
import Wbxml.Prim.Basic
namespace Wbxml.Model.Posix
open Wbxml

/-- `sym!"abc"` is the big-endian base-256 number of the ASCII string (a `Nat` literal). -/
syntax "sym!" str : term
open Lean in
macro_rules
  | `(sym! $s) => do
    let n := s.getString.toUTF8.toList.foldl (fun a b => a * 256 + b.toNat) 0
    `(($(Syntax.mkNumLit (toString n)) : Nat))

/-- The key of a symbol name given as bytes (what `sym!` computes at elaboration time). -/
def keyOf (name : Bytes) : Nat := name.foldl (fun a b => a * 256 + b.toNat) 0

/-- POSIX.1-2017 XSH §2.9.1 Thread-Safety: "All functions defined by this volume of POSIX.1-2017 shall be
    thread-safe, except that the following functions need not be thread-safe." (the list, verbatim, in the standard's order) -/
def needNotBeThreadSafe : List Nat := [
  sym!"asctime", sym!"basename", sym!"catgets", sym!"crypt", sym!"ctime", sym!"dbm_clearerr",
  sym!"dbm_close", sym!"dbm_delete", sym!"dbm_error", sym!"dbm_fetch", sym!"dbm_firstkey", sym!"dbm_nextkey",
  sym!"dbm_open", sym!"dbm_store", sym!"dirname", sym!"dlerror", sym!"drand48", sym!"encrypt",
  sym!"endgrent", sym!"endpwent", sym!"endutxent", sym!"ftw", sym!"getc_unlocked", sym!"getchar_unlocked",
  sym!"getdate", sym!"getenv", sym!"getgrent", sym!"getgrgid", sym!"getgrnam", sym!"gethostent",
  sym!"getlogin", sym!"getnetbyaddr", sym!"getnetbyname", sym!"getnetent", sym!"getopt", sym!"getprotobyname",
  sym!"getprotobynumber", sym!"getprotoent", sym!"getpwent", sym!"getpwnam", sym!"getpwuid", sym!"getservbyname",
  sym!"getservbyport", sym!"getservent", sym!"getutxent", sym!"getutxid", sym!"getutxline", sym!"gmtime",
  sym!"hcreate", sym!"hdestroy", sym!"hsearch", sym!"inet_ntoa", sym!"l64a", sym!"lgamma",
  sym!"lgammaf", sym!"lgammal", sym!"localeconv", sym!"localtime", sym!"lrand48", sym!"mblen",
  sym!"mbtowc", sym!"mrand48", sym!"nftw", sym!"nl_langinfo", sym!"ptsname", sym!"putc_unlocked",
  sym!"putchar_unlocked", sym!"putenv", sym!"pututxline", sym!"rand", sym!"readdir", sym!"setenv",
  sym!"setgrent", sym!"setkey", sym!"setlocale", sym!"setpwent", sym!"setutxent", sym!"strerror",
  sym!"strsignal", sym!"strtok", sym!"system", sym!"ttyname", sym!"unsetenv", sym!"wcstombs",
  sym!"wctomb"
]

/-- Same section: `ctermid`, `tmpnam` need not be thread-safe when passed NULL; `wcrtomb`, `wcsrtombs` (and, by their
    own pages, the other restartable conversions) when passed a NULL `mbstate_t`. The symbol table cannot see the
    argument, so these alarm too. -/
def conditionallyNotThreadSafe : List Nat := [
  sym!"ctermid", sym!"tmpnam", sym!"wcrtomb", sym!"wcsrtombs", sym!"wcsnrtombs", sym!"mbrlen",
  sym!"mbrtowc", sym!"mbsrtowcs", sym!"mbsnrtowcs"
]

/-- POSIX functions the GNU C Library manual marks MT-Unsafe although §2.9.1 does not exempt them. -/
def implementationNotThreadSafe : List Nat := [
  sym!"erand48", sym!"jrand48", sym!"nrand48", sym!"getlogin_r", sym!"glob", sym!"wordexp",
  sym!"sleep"
]

/-- Thread-safe in the data-race sense but they change (or expose for change) process-wide state that other threads'
    conversions could observe or be killed by: PRNG seeds and the shared `random` state, cwd, umask, limits, signal
    dispositions and timers, credentials, time zone, exit handlers / termination / exec / fork, syslog state,
    network-database cursors, and the mutable POSIX objects (`environ`, `optind`, `signgam`, `tzname` …). -/
def processStateMutators : List Nat := [
  sym!"srand", sym!"srand48", sym!"seed48", sym!"lcong48", sym!"srandom", sym!"initstate",
  sym!"setstate", sym!"random", sym!"chdir", sym!"fchdir", sym!"umask", sym!"nice",
  sym!"setpriority", sym!"setrlimit", sym!"ulimit", sym!"signal", sym!"sigaction", sym!"sigset",
  sym!"sighold", sym!"sigrelse", sym!"sigignore", sym!"sigpause", sym!"siginterrupt", sym!"sigprocmask",
  sym!"sigaltstack", sym!"alarm", sym!"setitimer", sym!"setuid", sym!"setgid", sym!"seteuid",
  sym!"setegid", sym!"setreuid", sym!"setregid", sym!"setpgid", sym!"setpgrp", sym!"setsid",
  sym!"tzset", sym!"atexit", sym!"exit", sym!"_exit", sym!"_Exit", sym!"abort",
  sym!"fork", sym!"execl", sym!"execle", sym!"execlp", sym!"execv", sym!"execve",
  sym!"execvp", sym!"fexecve", sym!"kill", sym!"killpg", sym!"openlog", sym!"closelog",
  sym!"setlogmask", sym!"sethostent", sym!"endhostent", sym!"setnetent", sym!"endnetent", sym!"setprotoent",
  sym!"endprotoent", sym!"setservent", sym!"endservent", sym!"environ", sym!"optarg", sym!"opterr",
  sym!"optind", sym!"optopt", sym!"signgam", sym!"getdate_err", sym!"daylight", sym!"timezone",
  sym!"tzname"
]

/-- POSIX.1-2017 system interfaces starting with `_`. -/
def fn_us : List Nat := [
  sym!"_Exit", sym!"_exit", sym!"_longjmp", sym!"_setjmp", sym!"_tolower", sym!"_toupper"
]

/-- POSIX.1-2017 system interfaces starting with `a`. -/
def fn_a : List Nat := [
  sym!"a64l", sym!"abort", sym!"abs", sym!"accept", sym!"access", sym!"acos",
  sym!"acosf", sym!"acosh", sym!"acoshf", sym!"acoshl", sym!"acosl", sym!"aio_cancel",
  sym!"aio_error", sym!"aio_fsync", sym!"aio_read", sym!"aio_return", sym!"aio_suspend", sym!"aio_write",
  sym!"alarm", sym!"alphasort", sym!"asctime", sym!"asctime_r", sym!"asin", sym!"asinf",
  sym!"asinh", sym!"asinhf", sym!"asinhl", sym!"asinl", sym!"assert", sym!"atan",
  sym!"atan2", sym!"atan2f", sym!"atan2l", sym!"atanf", sym!"atanh", sym!"atanhf",
  sym!"atanhl", sym!"atanl", sym!"atexit", sym!"atof", sym!"atoi", sym!"atol",
  sym!"atoll"
]

/-- POSIX.1-2017 system interfaces starting with `b`. -/
def fn_b : List Nat := [
  sym!"basename", sym!"bind", sym!"bsearch", sym!"btowc"
]

/-- POSIX.1-2017 system interfaces starting with `c`. -/
def fn_c : List Nat := [
  sym!"cabs", sym!"cabsf", sym!"cabsl", sym!"cacos", sym!"cacosf", sym!"cacosh",
  sym!"cacoshf", sym!"cacoshl", sym!"cacosl", sym!"calloc", sym!"carg", sym!"cargf",
  sym!"cargl", sym!"casin", sym!"casinf", sym!"casinh", sym!"casinhf", sym!"casinhl",
  sym!"casinl", sym!"catan", sym!"catanf", sym!"catanh", sym!"catanhf", sym!"catanhl",
  sym!"catanl", sym!"catclose", sym!"catgets", sym!"catopen", sym!"cbrt", sym!"cbrtf",
  sym!"cbrtl", sym!"ccos", sym!"ccosf", sym!"ccosh", sym!"ccoshf", sym!"ccoshl",
  sym!"ccosl", sym!"ceil", sym!"ceilf", sym!"ceill", sym!"cexp", sym!"cexpf",
  sym!"cexpl", sym!"cfgetispeed", sym!"cfgetospeed", sym!"cfsetispeed", sym!"cfsetospeed", sym!"chdir",
  sym!"chmod", sym!"chown", sym!"cimag", sym!"cimagf", sym!"cimagl", sym!"clearerr",
  sym!"clock", sym!"clock_getcpuclockid", sym!"clock_getres", sym!"clock_gettime", sym!"clock_nanosleep", sym!"clock_settime",
  sym!"clog", sym!"clogf", sym!"clogl", sym!"close", sym!"closedir", sym!"closelog",
  sym!"confstr", sym!"conj", sym!"conjf", sym!"conjl", sym!"connect", sym!"copysign",
  sym!"copysignf", sym!"copysignl", sym!"cos", sym!"cosf", sym!"cosh", sym!"coshf",
  sym!"coshl", sym!"cosl", sym!"cpow", sym!"cpowf", sym!"cpowl", sym!"cproj",
  sym!"cprojf", sym!"cprojl", sym!"creal", sym!"crealf", sym!"creall", sym!"creat",
  sym!"crypt", sym!"csin", sym!"csinf", sym!"csinh", sym!"csinhf", sym!"csinhl",
  sym!"csinl", sym!"csqrt", sym!"csqrtf", sym!"csqrtl", sym!"ctan", sym!"ctanf",
  sym!"ctanh", sym!"ctanhf", sym!"ctanhl", sym!"ctanl", sym!"ctermid", sym!"ctime",
  sym!"ctime_r"
]

/-- POSIX.1-2017 system interfaces starting with `d`. -/
def fn_d : List Nat := [
  sym!"daylight", sym!"dbm_clearerr", sym!"dbm_close", sym!"dbm_delete", sym!"dbm_error", sym!"dbm_fetch",
  sym!"dbm_firstkey", sym!"dbm_nextkey", sym!"dbm_open", sym!"dbm_store", sym!"difftime", sym!"dirfd",
  sym!"dirname", sym!"div", sym!"dlclose", sym!"dlerror", sym!"dlopen", sym!"dlsym",
  sym!"dprintf", sym!"drand48", sym!"dup", sym!"dup2", sym!"duplocale"
]

/-- POSIX.1-2017 system interfaces starting with `e`. -/
def fn_e : List Nat := [
  sym!"encrypt", sym!"endgrent", sym!"endhostent", sym!"endnetent", sym!"endprotoent", sym!"endpwent",
  sym!"endservent", sym!"endutxent", sym!"environ", sym!"erand48", sym!"erf", sym!"erfc",
  sym!"erfcf", sym!"erfcl", sym!"erff", sym!"erfl", sym!"errno", sym!"execl",
  sym!"execle", sym!"execlp", sym!"execv", sym!"execve", sym!"execvp", sym!"exit",
  sym!"exp", sym!"exp2", sym!"exp2f", sym!"exp2l", sym!"expf", sym!"expl",
  sym!"expm1", sym!"expm1f", sym!"expm1l"
]

/-- POSIX.1-2017 system interfaces starting with `f`. -/
def fn_f : List Nat := [
  sym!"FD_CLR", sym!"FD_ISSET", sym!"FD_SET", sym!"FD_ZERO", sym!"fabs", sym!"fabsf",
  sym!"fabsl", sym!"faccessat", sym!"fattach", sym!"fchdir", sym!"fchmod", sym!"fchmodat",
  sym!"fchown", sym!"fchownat", sym!"fclose", sym!"fcntl", sym!"fdatasync", sym!"fdetach",
  sym!"fdim", sym!"fdimf", sym!"fdiml", sym!"fdopen", sym!"fdopendir", sym!"feclearexcept",
  sym!"fegetenv", sym!"fegetexceptflag", sym!"fegetround", sym!"feholdexcept", sym!"feof", sym!"feraiseexcept",
  sym!"ferror", sym!"fesetenv", sym!"fesetexceptflag", sym!"fesetround", sym!"fetestexcept", sym!"feupdateenv",
  sym!"fexecve", sym!"fflush", sym!"ffs", sym!"fgetc", sym!"fgetpos", sym!"fgets",
  sym!"fgetwc", sym!"fgetws", sym!"fileno", sym!"flockfile", sym!"floor", sym!"floorf",
  sym!"floorl", sym!"fma", sym!"fmaf", sym!"fmal", sym!"fmax", sym!"fmaxf",
  sym!"fmaxl", sym!"fmemopen", sym!"fmin", sym!"fminf", sym!"fminl", sym!"fmod",
  sym!"fmodf", sym!"fmodl", sym!"fmtmsg", sym!"fnmatch", sym!"fopen", sym!"fork",
  sym!"fpathconf", sym!"fpclassify", sym!"fprintf", sym!"fputc", sym!"fputs", sym!"fputwc",
  sym!"fputws", sym!"fread", sym!"free", sym!"freeaddrinfo", sym!"freelocale", sym!"freopen",
  sym!"frexp", sym!"frexpf", sym!"frexpl", sym!"fscanf", sym!"fseek", sym!"fseeko",
  sym!"fsetpos", sym!"fstat", sym!"fstatat", sym!"fstatvfs", sym!"fsync", sym!"ftell",
  sym!"ftello", sym!"ftok", sym!"ftruncate", sym!"ftrylockfile", sym!"ftw", sym!"funlockfile",
  sym!"futimens", sym!"fwide", sym!"fwprintf", sym!"fwrite", sym!"fwscanf"
]

/-- POSIX.1-2017 system interfaces starting with `g`. -/
def fn_g : List Nat := [
  sym!"gai_strerror", sym!"getaddrinfo", sym!"getc", sym!"getc_unlocked", sym!"getchar", sym!"getchar_unlocked",
  sym!"getcwd", sym!"getdate", sym!"getdate_err", sym!"getdelim", sym!"getegid", sym!"getenv",
  sym!"geteuid", sym!"getgid", sym!"getgrent", sym!"getgrgid", sym!"getgrgid_r", sym!"getgrnam",
  sym!"getgrnam_r", sym!"getgroups", sym!"gethostent", sym!"gethostid", sym!"gethostname", sym!"getitimer",
  sym!"getline", sym!"getlogin", sym!"getlogin_r", sym!"getmsg", sym!"getnameinfo", sym!"getnetbyaddr",
  sym!"getnetbyname", sym!"getnetent", sym!"getopt", sym!"getpeername", sym!"getpgid", sym!"getpgrp",
  sym!"getpid", sym!"getpmsg", sym!"getppid", sym!"getpriority", sym!"getprotobyname", sym!"getprotobynumber",
  sym!"getprotoent", sym!"getpwent", sym!"getpwnam", sym!"getpwnam_r", sym!"getpwuid", sym!"getpwuid_r",
  sym!"getrlimit", sym!"getrusage", sym!"gets", sym!"getservbyname", sym!"getservbyport", sym!"getservent",
  sym!"getsid", sym!"getsockname", sym!"getsockopt", sym!"getsubopt", sym!"gettimeofday", sym!"getuid",
  sym!"getutxent", sym!"getutxid", sym!"getutxline", sym!"getwc", sym!"getwchar", sym!"glob",
  sym!"globfree", sym!"gmtime", sym!"gmtime_r", sym!"grantpt"
]

/-- POSIX.1-2017 system interfaces starting with `h`. -/
def fn_h : List Nat := [
  sym!"hcreate", sym!"hdestroy", sym!"hsearch", sym!"htonl", sym!"htons", sym!"hypot",
  sym!"hypotf", sym!"hypotl"
]

/-- POSIX.1-2017 system interfaces starting with `i`. -/
def fn_i : List Nat := [
  sym!"iconv", sym!"iconv_close", sym!"iconv_open", sym!"if_freenameindex", sym!"if_indextoname", sym!"if_nameindex",
  sym!"if_nametoindex", sym!"ilogb", sym!"ilogbf", sym!"ilogbl", sym!"imaxabs", sym!"imaxdiv",
  sym!"inet_addr", sym!"inet_ntoa", sym!"inet_ntop", sym!"inet_pton", sym!"initstate", sym!"insque",
  sym!"ioctl", sym!"isalnum", sym!"isalnum_l", sym!"isalpha", sym!"isalpha_l", sym!"isascii",
  sym!"isastream", sym!"isatty", sym!"isblank", sym!"isblank_l", sym!"iscntrl", sym!"iscntrl_l",
  sym!"isdigit", sym!"isdigit_l", sym!"isfinite", sym!"isgraph", sym!"isgraph_l", sym!"isgreater",
  sym!"isgreaterequal", sym!"isinf", sym!"isless", sym!"islessequal", sym!"islessgreater", sym!"islower",
  sym!"islower_l", sym!"isnan", sym!"isnormal", sym!"isprint", sym!"isprint_l", sym!"ispunct",
  sym!"ispunct_l", sym!"isspace", sym!"isspace_l", sym!"isunordered", sym!"isupper", sym!"isupper_l",
  sym!"iswalnum", sym!"iswalnum_l", sym!"iswalpha", sym!"iswalpha_l", sym!"iswblank", sym!"iswblank_l",
  sym!"iswcntrl", sym!"iswcntrl_l", sym!"iswctype", sym!"iswctype_l", sym!"iswdigit", sym!"iswdigit_l",
  sym!"iswgraph", sym!"iswgraph_l", sym!"iswlower", sym!"iswlower_l", sym!"iswprint", sym!"iswprint_l",
  sym!"iswpunct", sym!"iswpunct_l", sym!"iswspace", sym!"iswspace_l", sym!"iswupper", sym!"iswupper_l",
  sym!"iswxdigit", sym!"iswxdigit_l", sym!"isxdigit", sym!"isxdigit_l"
]

/-- POSIX.1-2017 system interfaces starting with `j`. -/
def fn_j : List Nat := [
  sym!"j0", sym!"j1", sym!"jn", sym!"jrand48"
]

/-- POSIX.1-2017 system interfaces starting with `k`. -/
def fn_k : List Nat := [
  sym!"kill", sym!"killpg"
]

/-- POSIX.1-2017 system interfaces starting with `l`. -/
def fn_l : List Nat := [
  sym!"l64a", sym!"labs", sym!"lchown", sym!"lcong48", sym!"ldexp", sym!"ldexpf",
  sym!"ldexpl", sym!"ldiv", sym!"lfind", sym!"lgamma", sym!"lgammaf", sym!"lgammal",
  sym!"link", sym!"linkat", sym!"lio_listio", sym!"listen", sym!"llabs", sym!"lldiv",
  sym!"llrint", sym!"llrintf", sym!"llrintl", sym!"llround", sym!"llroundf", sym!"llroundl",
  sym!"localeconv", sym!"localtime", sym!"localtime_r", sym!"lockf", sym!"log", sym!"log10",
  sym!"log10f", sym!"log10l", sym!"log1p", sym!"log1pf", sym!"log1pl", sym!"log2",
  sym!"log2f", sym!"log2l", sym!"logb", sym!"logbf", sym!"logbl", sym!"logf",
  sym!"logl", sym!"longjmp", sym!"lrand48", sym!"lrint", sym!"lrintf", sym!"lrintl",
  sym!"lround", sym!"lroundf", sym!"lroundl", sym!"lsearch", sym!"lseek", sym!"lstat"
]

/-- POSIX.1-2017 system interfaces starting with `m`. -/
def fn_m : List Nat := [
  sym!"malloc", sym!"mblen", sym!"mbrlen", sym!"mbrtowc", sym!"mbsinit", sym!"mbsnrtowcs",
  sym!"mbsrtowcs", sym!"mbstowcs", sym!"mbtowc", sym!"memccpy", sym!"memchr", sym!"memcmp",
  sym!"memcpy", sym!"memmove", sym!"memset", sym!"mkdir", sym!"mkdirat", sym!"mkdtemp",
  sym!"mkfifo", sym!"mkfifoat", sym!"mknod", sym!"mknodat", sym!"mkstemp", sym!"mktime",
  sym!"mlock", sym!"mlockall", sym!"mmap", sym!"modf", sym!"modff", sym!"modfl",
  sym!"mprotect", sym!"mq_close", sym!"mq_getattr", sym!"mq_notify", sym!"mq_open", sym!"mq_receive",
  sym!"mq_send", sym!"mq_setattr", sym!"mq_timedreceive", sym!"mq_timedsend", sym!"mq_unlink", sym!"mrand48",
  sym!"msgctl", sym!"msgget", sym!"msgrcv", sym!"msgsnd", sym!"msync", sym!"munlock",
  sym!"munlockall", sym!"munmap"
]

/-- POSIX.1-2017 system interfaces starting with `n`. -/
def fn_n : List Nat := [
  sym!"nan", sym!"nanf", sym!"nanl", sym!"nanosleep", sym!"nearbyint", sym!"nearbyintf",
  sym!"nearbyintl", sym!"newlocale", sym!"nextafter", sym!"nextafterf", sym!"nextafterl", sym!"nexttoward",
  sym!"nexttowardf", sym!"nexttowardl", sym!"nftw", sym!"nice", sym!"nl_langinfo", sym!"nl_langinfo_l",
  sym!"nrand48", sym!"ntohl", sym!"ntohs"
]

/-- POSIX.1-2017 system interfaces starting with `o`. -/
def fn_o : List Nat := [
  sym!"open", sym!"open_memstream", sym!"open_wmemstream", sym!"openat", sym!"opendir", sym!"openlog",
  sym!"optarg", sym!"opterr", sym!"optind", sym!"optopt"
]

/-- POSIX.1-2017 system interfaces starting with `p`. -/
def fn_p : List Nat := [
  sym!"pathconf", sym!"pause", sym!"pclose", sym!"perror", sym!"pipe", sym!"poll",
  sym!"popen", sym!"posix_fadvise", sym!"posix_fallocate", sym!"posix_madvise", sym!"posix_mem_offset", sym!"posix_memalign",
  sym!"posix_openpt", sym!"posix_spawn", sym!"posix_spawn_file_actions_addclose", sym!"posix_spawn_file_actions_adddup2", sym!"posix_spawn_file_actions_addopen", sym!"posix_spawn_file_actions_destroy",
  sym!"posix_spawn_file_actions_init", sym!"posix_spawnattr_destroy", sym!"posix_spawnattr_getflags", sym!"posix_spawnattr_getpgroup", sym!"posix_spawnattr_getschedparam", sym!"posix_spawnattr_getschedpolicy",
  sym!"posix_spawnattr_getsigdefault", sym!"posix_spawnattr_getsigmask", sym!"posix_spawnattr_init", sym!"posix_spawnattr_setflags", sym!"posix_spawnattr_setpgroup", sym!"posix_spawnattr_setschedparam",
  sym!"posix_spawnattr_setschedpolicy", sym!"posix_spawnattr_setsigdefault", sym!"posix_spawnattr_setsigmask", sym!"posix_spawnp", sym!"posix_trace_attr_destroy", sym!"posix_trace_attr_getclockres",
  sym!"posix_trace_attr_getcreatetime", sym!"posix_trace_attr_getgenversion", sym!"posix_trace_attr_getinherited", sym!"posix_trace_attr_getlogfullpolicy", sym!"posix_trace_attr_getlogsize", sym!"posix_trace_attr_getmaxdatasize",
  sym!"posix_trace_attr_getmaxsystemeventsize", sym!"posix_trace_attr_getmaxusereventsize", sym!"posix_trace_attr_getname", sym!"posix_trace_attr_getstreamfullpolicy", sym!"posix_trace_attr_getstreamsize", sym!"posix_trace_attr_init",
  sym!"posix_trace_attr_setinherited", sym!"posix_trace_attr_setlogfullpolicy", sym!"posix_trace_attr_setlogsize", sym!"posix_trace_attr_setmaxdatasize", sym!"posix_trace_attr_setname", sym!"posix_trace_attr_setstreamfullpolicy",
  sym!"posix_trace_attr_setstreamsize", sym!"posix_trace_clear", sym!"posix_trace_close", sym!"posix_trace_create", sym!"posix_trace_create_withlog", sym!"posix_trace_event",
  sym!"posix_trace_eventid_equal", sym!"posix_trace_eventid_get_name", sym!"posix_trace_eventid_open", sym!"posix_trace_eventset_add", sym!"posix_trace_eventset_del", sym!"posix_trace_eventset_empty",
  sym!"posix_trace_eventset_fill", sym!"posix_trace_eventset_ismember", sym!"posix_trace_eventtypelist_getnext_id", sym!"posix_trace_eventtypelist_rewind", sym!"posix_trace_flush", sym!"posix_trace_get_attr",
  sym!"posix_trace_get_filter", sym!"posix_trace_get_status", sym!"posix_trace_getnext_event", sym!"posix_trace_open", sym!"posix_trace_rewind", sym!"posix_trace_set_filter",
  sym!"posix_trace_shutdown", sym!"posix_trace_start", sym!"posix_trace_stop", sym!"posix_trace_timedgetnext_event", sym!"posix_trace_trid_eventid_open", sym!"posix_trace_trygetnext_event",
  sym!"posix_typed_mem_get_info", sym!"posix_typed_mem_open", sym!"pow", sym!"powf", sym!"powl", sym!"pread",
  sym!"printf", sym!"pselect", sym!"psiginfo", sym!"psignal", sym!"pthread_atfork", sym!"pthread_attr_destroy",
  sym!"pthread_attr_getdetachstate", sym!"pthread_attr_getguardsize", sym!"pthread_attr_getinheritsched", sym!"pthread_attr_getschedparam", sym!"pthread_attr_getschedpolicy", sym!"pthread_attr_getscope",
  sym!"pthread_attr_getstack", sym!"pthread_attr_getstacksize", sym!"pthread_attr_init", sym!"pthread_attr_setdetachstate", sym!"pthread_attr_setguardsize", sym!"pthread_attr_setinheritsched",
  sym!"pthread_attr_setschedparam", sym!"pthread_attr_setschedpolicy", sym!"pthread_attr_setscope", sym!"pthread_attr_setstack", sym!"pthread_attr_setstacksize", sym!"pthread_barrier_destroy",
  sym!"pthread_barrier_init", sym!"pthread_barrier_wait", sym!"pthread_barrierattr_destroy", sym!"pthread_barrierattr_getpshared", sym!"pthread_barrierattr_init", sym!"pthread_barrierattr_setpshared",
  sym!"pthread_cancel", sym!"pthread_cleanup_pop", sym!"pthread_cleanup_push", sym!"pthread_cond_broadcast", sym!"pthread_cond_destroy", sym!"pthread_cond_init",
  sym!"pthread_cond_signal", sym!"pthread_cond_timedwait", sym!"pthread_cond_wait", sym!"pthread_condattr_destroy", sym!"pthread_condattr_getclock", sym!"pthread_condattr_getpshared",
  sym!"pthread_condattr_init", sym!"pthread_condattr_setclock", sym!"pthread_condattr_setpshared", sym!"pthread_create", sym!"pthread_detach", sym!"pthread_equal",
  sym!"pthread_exit", sym!"pthread_getconcurrency", sym!"pthread_getcpuclockid", sym!"pthread_getschedparam", sym!"pthread_getspecific", sym!"pthread_join",
  sym!"pthread_key_create", sym!"pthread_key_delete", sym!"pthread_kill", sym!"pthread_mutex_consistent", sym!"pthread_mutex_destroy", sym!"pthread_mutex_getprioceiling",
  sym!"pthread_mutex_init", sym!"pthread_mutex_lock", sym!"pthread_mutex_setprioceiling", sym!"pthread_mutex_timedlock", sym!"pthread_mutex_trylock", sym!"pthread_mutex_unlock",
  sym!"pthread_mutexattr_destroy", sym!"pthread_mutexattr_getprioceiling", sym!"pthread_mutexattr_getprotocol", sym!"pthread_mutexattr_getpshared", sym!"pthread_mutexattr_getrobust", sym!"pthread_mutexattr_gettype",
  sym!"pthread_mutexattr_init", sym!"pthread_mutexattr_setprioceiling", sym!"pthread_mutexattr_setprotocol", sym!"pthread_mutexattr_setpshared", sym!"pthread_mutexattr_setrobust", sym!"pthread_mutexattr_settype",
  sym!"pthread_once", sym!"pthread_rwlock_destroy", sym!"pthread_rwlock_init", sym!"pthread_rwlock_rdlock", sym!"pthread_rwlock_timedrdlock", sym!"pthread_rwlock_timedwrlock",
  sym!"pthread_rwlock_tryrdlock", sym!"pthread_rwlock_trywrlock", sym!"pthread_rwlock_unlock", sym!"pthread_rwlock_wrlock", sym!"pthread_rwlockattr_destroy", sym!"pthread_rwlockattr_getpshared",
  sym!"pthread_rwlockattr_init", sym!"pthread_rwlockattr_setpshared", sym!"pthread_self", sym!"pthread_setcancelstate", sym!"pthread_setcanceltype", sym!"pthread_setconcurrency",
  sym!"pthread_setschedparam", sym!"pthread_setschedprio", sym!"pthread_setspecific", sym!"pthread_sigmask", sym!"pthread_spin_destroy", sym!"pthread_spin_init",
  sym!"pthread_spin_lock", sym!"pthread_spin_trylock", sym!"pthread_spin_unlock", sym!"pthread_testcancel", sym!"ptsname", sym!"putc",
  sym!"putc_unlocked", sym!"putchar", sym!"putchar_unlocked", sym!"putenv", sym!"putmsg", sym!"putpmsg",
  sym!"puts", sym!"pututxline", sym!"putwc", sym!"putwchar", sym!"pwrite"
]

/-- POSIX.1-2017 system interfaces starting with `q`. -/
def fn_q : List Nat := [
  sym!"qsort"
]

/-- POSIX.1-2017 system interfaces starting with `r`. -/
def fn_r : List Nat := [
  sym!"raise", sym!"rand", sym!"rand_r", sym!"random", sym!"read", sym!"readdir",
  sym!"readdir_r", sym!"readlink", sym!"readlinkat", sym!"readv", sym!"realloc", sym!"realpath",
  sym!"recv", sym!"recvfrom", sym!"recvmsg", sym!"regcomp", sym!"regerror", sym!"regexec",
  sym!"regfree", sym!"remainder", sym!"remainderf", sym!"remainderl", sym!"remove", sym!"remque",
  sym!"remquo", sym!"remquof", sym!"remquol", sym!"rename", sym!"renameat", sym!"rewind",
  sym!"rewinddir", sym!"rint", sym!"rintf", sym!"rintl", sym!"rmdir", sym!"round",
  sym!"roundf", sym!"roundl"
]

/-- POSIX.1-2017 system interfaces starting with `s`. -/
def fn_s : List Nat := [
  sym!"scalbln", sym!"scalblnf", sym!"scalblnl", sym!"scalbn", sym!"scalbnf", sym!"scalbnl",
  sym!"scandir", sym!"scanf", sym!"sched_get_priority_max", sym!"sched_get_priority_min", sym!"sched_getparam", sym!"sched_getscheduler",
  sym!"sched_rr_get_interval", sym!"sched_setparam", sym!"sched_setscheduler", sym!"sched_yield", sym!"seed48", sym!"seekdir",
  sym!"select", sym!"sem_close", sym!"sem_destroy", sym!"sem_getvalue", sym!"sem_init", sym!"sem_open",
  sym!"sem_post", sym!"sem_timedwait", sym!"sem_trywait", sym!"sem_unlink", sym!"sem_wait", sym!"semctl",
  sym!"semget", sym!"semop", sym!"send", sym!"sendmsg", sym!"sendto", sym!"setbuf",
  sym!"setegid", sym!"setenv", sym!"seteuid", sym!"setgid", sym!"setgrent", sym!"sethostent",
  sym!"setitimer", sym!"setjmp", sym!"setkey", sym!"setlocale", sym!"setlogmask", sym!"setnetent",
  sym!"setpgid", sym!"setpgrp", sym!"setpriority", sym!"setprotoent", sym!"setpwent", sym!"setregid",
  sym!"setreuid", sym!"setrlimit", sym!"setservent", sym!"setsid", sym!"setsockopt", sym!"setstate",
  sym!"setuid", sym!"setutxent", sym!"setvbuf", sym!"shm_open", sym!"shm_unlink", sym!"shmat",
  sym!"shmctl", sym!"shmdt", sym!"shmget", sym!"shutdown", sym!"sigaction", sym!"sigaddset",
  sym!"sigaltstack", sym!"sigdelset", sym!"sigemptyset", sym!"sigfillset", sym!"sighold", sym!"sigignore",
  sym!"siginterrupt", sym!"sigismember", sym!"siglongjmp", sym!"signal", sym!"signbit", sym!"signgam",
  sym!"sigpause", sym!"sigpending", sym!"sigprocmask", sym!"sigqueue", sym!"sigrelse", sym!"sigset",
  sym!"sigsetjmp", sym!"sigsuspend", sym!"sigtimedwait", sym!"sigwait", sym!"sigwaitinfo", sym!"sin",
  sym!"sinf", sym!"sinh", sym!"sinhf", sym!"sinhl", sym!"sinl", sym!"sleep",
  sym!"snprintf", sym!"sockatmark", sym!"socket", sym!"socketpair", sym!"sprintf", sym!"sqrt",
  sym!"sqrtf", sym!"sqrtl", sym!"srand", sym!"srand48", sym!"srandom", sym!"sscanf",
  sym!"stat", sym!"statvfs", sym!"stderr", sym!"stdin", sym!"stdout", sym!"stpcpy",
  sym!"stpncpy", sym!"strcasecmp", sym!"strcasecmp_l", sym!"strcat", sym!"strchr", sym!"strcmp",
  sym!"strcoll", sym!"strcoll_l", sym!"strcpy", sym!"strcspn", sym!"strdup", sym!"strerror",
  sym!"strerror_l", sym!"strerror_r", sym!"strfmon", sym!"strfmon_l", sym!"strftime", sym!"strftime_l",
  sym!"strlen", sym!"strncasecmp", sym!"strncasecmp_l", sym!"strncat", sym!"strncmp", sym!"strncpy",
  sym!"strndup", sym!"strnlen", sym!"strpbrk", sym!"strptime", sym!"strrchr", sym!"strsignal",
  sym!"strspn", sym!"strstr", sym!"strtod", sym!"strtof", sym!"strtoimax", sym!"strtok",
  sym!"strtok_r", sym!"strtol", sym!"strtold", sym!"strtoll", sym!"strtoul", sym!"strtoull",
  sym!"strtoumax", sym!"strxfrm", sym!"strxfrm_l", sym!"swab", sym!"swprintf", sym!"swscanf",
  sym!"symlink", sym!"symlinkat", sym!"sync", sym!"sysconf", sym!"syslog", sym!"system"
]

/-- POSIX.1-2017 system interfaces starting with `t`. -/
def fn_t : List Nat := [
  sym!"tan", sym!"tanf", sym!"tanh", sym!"tanhf", sym!"tanhl", sym!"tanl",
  sym!"tcdrain", sym!"tcflow", sym!"tcflush", sym!"tcgetattr", sym!"tcgetpgrp", sym!"tcgetsid",
  sym!"tcsendbreak", sym!"tcsetattr", sym!"tcsetpgrp", sym!"tdelete", sym!"telldir", sym!"tempnam",
  sym!"tfind", sym!"tgamma", sym!"tgammaf", sym!"tgammal", sym!"time", sym!"timer_create",
  sym!"timer_delete", sym!"timer_getoverrun", sym!"timer_gettime", sym!"timer_settime", sym!"times", sym!"timezone",
  sym!"tmpfile", sym!"tmpnam", sym!"toascii", sym!"tolower", sym!"tolower_l", sym!"toupper",
  sym!"toupper_l", sym!"towctrans", sym!"towctrans_l", sym!"towlower", sym!"towlower_l", sym!"towupper",
  sym!"towupper_l", sym!"trunc", sym!"truncate", sym!"truncf", sym!"truncl", sym!"tsearch",
  sym!"ttyname", sym!"ttyname_r", sym!"twalk", sym!"tzname", sym!"tzset"
]

/-- POSIX.1-2017 system interfaces starting with `u`. -/
def fn_u : List Nat := [
  sym!"ulimit", sym!"umask", sym!"uname", sym!"ungetc", sym!"ungetwc", sym!"unlink",
  sym!"unlinkat", sym!"unlockpt", sym!"unsetenv", sym!"uselocale", sym!"utime", sym!"utimensat",
  sym!"utimes"
]

/-- POSIX.1-2017 system interfaces starting with `v`. -/
def fn_v : List Nat := [
  sym!"va_arg", sym!"va_copy", sym!"va_end", sym!"va_start", sym!"vdprintf", sym!"vfprintf",
  sym!"vfscanf", sym!"vfwprintf", sym!"vfwscanf", sym!"vprintf", sym!"vscanf", sym!"vsnprintf",
  sym!"vsprintf", sym!"vsscanf", sym!"vswprintf", sym!"vswscanf", sym!"vwprintf", sym!"vwscanf"
]

/-- POSIX.1-2017 system interfaces starting with `w`. -/
def fn_w : List Nat := [
  sym!"wait", sym!"waitid", sym!"waitpid", sym!"wcpcpy", sym!"wcpncpy", sym!"wcrtomb",
  sym!"wcscasecmp", sym!"wcscasecmp_l", sym!"wcscat", sym!"wcschr", sym!"wcscmp", sym!"wcscoll",
  sym!"wcscoll_l", sym!"wcscpy", sym!"wcscspn", sym!"wcsdup", sym!"wcsftime", sym!"wcslen",
  sym!"wcsncasecmp", sym!"wcsncasecmp_l", sym!"wcsncat", sym!"wcsncmp", sym!"wcsncpy", sym!"wcsnlen",
  sym!"wcsnrtombs", sym!"wcspbrk", sym!"wcsrchr", sym!"wcsrtombs", sym!"wcsspn", sym!"wcsstr",
  sym!"wcstod", sym!"wcstof", sym!"wcstoimax", sym!"wcstok", sym!"wcstol", sym!"wcstold",
  sym!"wcstoll", sym!"wcstombs", sym!"wcstoul", sym!"wcstoull", sym!"wcstoumax", sym!"wcswidth",
  sym!"wcsxfrm", sym!"wcsxfrm_l", sym!"wctob", sym!"wctomb", sym!"wctrans", sym!"wctrans_l",
  sym!"wctype", sym!"wctype_l", sym!"wcwidth", sym!"wmemchr", sym!"wmemcmp", sym!"wmemcpy",
  sym!"wmemmove", sym!"wmemset", sym!"wordexp", sym!"wordfree", sym!"wprintf", sym!"write",
  sym!"writev", sym!"wscanf"
]

/-- POSIX.1-2017 system interfaces starting with `y`. -/
def fn_y : List Nat := [
  sym!"y0", sym!"y1", sym!"yn"
]

/-- Every function, macro and external object specified in POSIX.1-2017 XSH chapter 3 (System Interfaces). -/
def functions : List Nat :=
  fn_us ++ fn_a ++ fn_b ++ fn_c ++ fn_d ++ fn_e ++ fn_f ++ fn_g ++ fn_h ++ fn_i ++ fn_j ++ fn_k ++ fn_l ++ fn_m ++ fn_n ++ fn_o ++ fn_p ++ fn_q ++ fn_r ++ fn_s ++ fn_t ++ fn_u ++ fn_v ++ fn_w ++ fn_y

/-! ### Toolchain, C runtime and sanitizer symbols -/

/-- Symbols that compiler-generated code, glibc header macros and the C runtime reference without the
    programmer writing a call: the GOT, stack protector, `errno`/`<ctype.h>` accessors (thread-local
    tables), `assert`, libgcc arithmetic helpers, TLS and profiling glue. -/
def toolchainSymbols : List Nat := [
  sym!"_GLOBAL_OFFSET_TABLE_", sym!"__stack_chk_fail", sym!"__stack_chk_guard", sym!"__errno_location",
  sym!"__ctype_b_loc", sym!"__ctype_tolower_loc", sym!"__ctype_toupper_loc", sym!"__ctype_get_mb_cur_max",
  sym!"__assert_fail", sym!"__assert", sym!"__assert_perror_fail", sym!"__gmon_start__", sym!"__dso_handle",
  sym!"__tls_get_addr", sym!"_ITM_registerTMCloneTable", sym!"_ITM_deregisterTMCloneTable", sym!"mcount", sym!"_mcount",
  sym!"__fentry__", sym!"__divti3", sym!"__modti3", sym!"__udivti3", sym!"__umodti3", sym!"__udivmodti4",
  sym!"__multi3", sym!"__mulodi4", sym!"__muloti4", sym!"__popcountdi2", sym!"__popcountsi2", sym!"__clzdi2",
  sym!"__ctzdi2", sym!"__ffsdi2", sym!"__bswapsi2", sym!"__bswapdi2", sym!"__fpclassify", sym!"__fpclassifyf",
  sym!"__isinf", sym!"__isnan", sym!"__finite", sym!"__signbit", sym!"__signbitf"
]

/-- Name prefixes of sanitizer / coverage / profiling runtimes (an instrumented build references these). -/
def toolchainPrefixes : List Bytes := [
  b!"__asan_", b!"__ubsan_", b!"__tsan_", b!"__msan_", b!"__lsan_", b!"__hwasan_", b!"__sanitizer_",
  b!"__sancov_", b!"__gcov_", b!"__llvm_profile_", b!"__llvm_gcov_", b!"__afl_", b!"__cyg_profile_"
]

/-- Expat's API: every entry point takes the parser object it works on (per-parser-object state). -/
def expatPrefix : Bytes := b!"XML_"

/-! ### Alias normalisation: glibc header redirections keep the thread-safety of the function they stand for -/

def stripPrefix? (p s : Bytes) : Option Bytes := if p.isPrefixOf s then some (s.drop p.length) else none
def stripSuffix? (p s : Bytes) : Option Bytes :=
  if p.isSuffixOf s then some (s.take (s.length - p.length)) else none

/-- `__isoc99_sscanf`, `__isoc23_strtol` → the ISO function; `__sprintf_chk` (`_FORTIFY_SOURCE`) → `sprintf`;
    `fopen64`, `readdir64` (LFS) → `fopen`, `readdir`; `__xpg_basename`, `__xpg_strerror_r` → base name.
    The result is classified instead of the alias, so `__strtok_r_chk`-style additions stay quiet and an
    alias of an unsafe function (`readdir64`, `__wctomb_chk`) still alarms. -/
def canon (s : Bytes) : Bytes :=
  let s := match stripPrefix? (b!"__isoc99_") s with | some r => r | none => s
  let s := match stripPrefix? (b!"__isoc23_") s with | some r => r | none => s
  let s := match stripPrefix? (b!"__xpg_") s with | some r => r | none => s
  let s := match stripPrefix? (b!"__") s with
    | some r => (match stripSuffix? (b!"_chk") r with | some m => m | none => s)
    | none => s
  match stripSuffix? (b!"64") s with | some r => r | none => s

/-! ### The classification of an undefined (external) symbol of the library -/

inductive ExtClass where
  | posixSafe | expat | toolchain
  | notThreadSafe | conditionalNotThreadSafe | implNotThreadSafe | mutator | unknown
  deriving Repr, DecidableEq, Inhabited

def ExtClass.ok : ExtClass → Bool
  | .posixSafe | .expat | .toolchain => true
  | _ => false

def ExtClass.toString : ExtClass → String
  | .posixSafe => "posix-thread-safe" | .expat => "expat-per-parser" | .toolchain => "toolchain"
  | .notThreadSafe => "POSIX-2.9.1-need-not-be-thread-safe"
  | .conditionalNotThreadSafe => "POSIX-2.9.1-not-thread-safe-with-NULL-state"
  | .implNotThreadSafe => "glibc-MT-Unsafe"
  | .mutator => "process-state-mutator"
  | .unknown => "unknown-external"

def isToolchain (s : Bytes) : Bool :=
  toolchainSymbols.contains (keyOf s) || toolchainPrefixes.any (fun p => p.isPrefixOf s)

/-- The bad lists win over every allowlist; the alias is normalised before looking it up. -/
def classify (s : Bytes) : ExtClass :=
  let k := keyOf (canon s)
  if needNotBeThreadSafe.contains k then .notThreadSafe
  else if conditionallyNotThreadSafe.contains k then .conditionalNotThreadSafe
  else if implementationNotThreadSafe.contains k then .implNotThreadSafe
  else if processStateMutators.contains k then .mutator
  else if isToolchain s then .toolchain
  else if expatPrefix.isPrefixOf s then .expat
  else if functions.contains k then .posixSafe
  else .unknown

def externOK (s : Bytes) : Bool := (classify s).ok

/-! ### Where a library object may live -/

/-- Section-name prefixes of memory that is read-only once the program runs: code, constants, and
    `.data.rel.ro*` (constants containing addresses: written by the dynamic loader during relocation,
    then remapped read-only — RELRO — before any library code runs; in a static non-PIE link they are
    plain constants). The ELF flags of `.data.rel.ro` in a relocatable object are `WA`, so the decision is by name. -/
def readOnlySectionPrefixes : List Bytes := [
  b!".rodata", b!".data.rel.ro", b!".text", b!".eh_frame", b!".gcc_except_table", b!".note", b!".comment"
]

/-- `.rodata`, `.rodata.str1.1`, `.rodata.cst16`, `.data.rel.ro.local` … but not `.rodata_but_not` (a section
    name either equals the prefix or continues with a dot). -/
def readOnlySection (sec : Bytes) : Bool :=
  readOnlySectionPrefixes.any (fun p => sec == p || (p ++ b!".").isPrefixOf sec)

/-- Object symbols that the C runtime / instrumentation, not the library's source, may place in writable
    sections of a library object file (none is expected in the plain build this check dumps). -/
def crtObjectAllowlist : List Nat := [
  sym!"__dso_handle", sym!"__TMC_END__", sym!"__data_start", sym!"data_start", sym!"__bss_start", sym!"_edata", sym!"_end",
  sym!"completed.0", sym!"__frame_dummy_init_array_entry", sym!"__do_global_dtors_aux_fini_array_entry",
  sym!"__FRAME_END__", sym!"_IO_stdin_used", sym!"__abi_tag"
]

/-- An object symbol is harmless when its section is read-only or it is a C-runtime/sanitizer object. -/
def objectOK (sec name : Bytes) : Bool :=
  readOnlySection sec || crtObjectAllowlist.contains (keyOf name) || toolchainPrefixes.any (fun p => p.isPrefixOf name)

/-- A section that is both allocated and writable (ELF flags `W` and `A`) and not empty must be a
    `.data.rel.ro*` section; this also catches anonymous writable data that has no symbol. -/
def writableSectionOK (sec : Bytes) : Bool := readOnlySection sec

def strOf (b : Bytes) : String := String.ofList (b.map fun c => Char.ofNat c.toNat)

end Wbxml.Model.Posix
