/-
  WBXML output path of `src/wbxml_encoder.c`, part 3: tags, attributes, text, the node walk
  (`parse_node`), nested documents, the header and `wbxml_tree_to_wbxml`.

  Public entry points
    `encNodeG`     one node with its children (`parse_node` without the `next` chain), general form
    `encNodeW`     … with no parent element and the element end encoded
    `encNodesW`    a `next` chain of nodes
    `fillHeaderW`  `wbxml_fill_header`
    `encodeDocW`   `wbxml_encoder_encode_tree_to_wbxml` for an encoder with the given options
    `treeToWbxml`  `wbxml_tree_to_wbxml`
  Flow mode (`wbxml_encoder_encode_node*`, `output_header`, `delete_last_node`) is modelled elsewhere on
  top of `encNodeG` / `fillHeaderW`.
-/
import Wbxml.Model.EncWbxmlValue
namespace Wbxml.Model
open Wbxml.Model.Codec (mbEncode)

/-! ### Tags -/

/-- `wbxml_encode_tag_token`: SWITCH_PAGE iff the tag code page changes, then the token. -/
def tagTokenW (token page : Nat) (st : WSt) : WSt :=
  let st := if st.tagPage != page % 256 then { st.emit [0x00, UInt8.ofNat page] with tagPage := page % 256 } else st
  st.emit [UInt8.ofNat token]

/-- `wbxml_encode_tag_literal`: the name goes to the string table; `mask` carries the content /
    attribute bits. -/
def tagLiteralW (c : WCfg) (name : Bytes) (mask : Nat) (st : WSt) : Except Err WSt :=
  if !c.useStrtbl then .error (.code EW.strtblDisabled)
  else
    let (st, idx) := strtblAdd st name none
    pure (st.emit (UInt8.ofNat (0x04 ||| mask) :: mbEncode idx))

/-- `wbxml_encode_tag`. A literal node name is looked up in the tag table, current tag page first;
    `current_tag` becomes the row used (or NULL). -/
def encTagW (c : WCfg) (name : Name) (hasContent hasAttrs : Bool) (st : WSt) : Except Err WSt :=
  let found : Option TagRow := match name with
    | .token r => some r
    | .literal s =>
      match c.lang.tags with
      | some tags => encTag tags (some st.tagPage) (cstrOf s)
      | none => none
  let st := { st with curTag := found }
  let token : Nat := match found with
    | some r => r.token % 256
    | none => 0
  let page : Nat := match found with
    | some r => r.page % 256
    | none => 0
  let token := token ||| (if hasContent then 0x40 else 0) ||| (if hasAttrs then 0x80 else 0)
  if token &&& 0x3F == 0 then tagLiteralW c name.cName token st
  else pure (tagTokenW token page st)

/-! ### Attributes -/

/-- `wbxml_encode_attr_start_literal`. -/
def attrLiteralW (c : WCfg) (name : Bytes) (st : WSt) : Except Err WSt :=
  if !c.useStrtbl then .error (.code EW.strtblDisabled)
  else
    let (st, idx) := strtblAdd st name none
    pure (st.emit (0x04 :: mbEncode idx))

/-- `wbxml_encode_attr_start`: emits the attribute start and returns what is left of the value
    (`none` = the `value` out-parameter is NULL). `v` is the value read as a C string. -/
def attrStartW (c : WCfg) (a : Attr) (v : Bytes) (st : WSt) : Except Err (Option Bytes × WSt) :=
  match a.name with
  | .token r =>
    let st := { st with curAttr := some r }
    match r.value with
    | none => pure (some v, attrTokenW r.token r.page st)
    | some p =>
      -- strncmp(value, xmlValue, strlen(xmlValue)) == 0
      if p.isPrefixOf v then
        -- NB: the *buffer* length decides whether a rest exists, the rest itself is a C string
        if a.value.length > p.length then do
          let rest ← ptrAdd "attribute value + strlen(xmlValue)" v p.length
          pure (some rest, attrTokenW r.token r.page st)
        else pure (none, attrTokenW r.token r.page st)
      else do
        -- the value does not start with the token's value prefix: literal name, whole value
        let st ← attrLiteralW c r.name { st with curAttr := none }
        pure (some v, st)
  | .literal s =>
    -- the name is read through the wrong union member (`name->u.token->xmlName` on a
    -- `WBXMLBuffer *`): that is the buffer's `data` pointer — NULL for an empty buffer, for which
    -- the table look-up answers NULL at once
    let hit := if s.isEmpty then AttrHit.none else attrLookup c.lang (cstrOf s) v
    match hit with
    | .none => do
      let st ← attrLiteralW c (cstrOf s) { st with curAttr := none }
      pure (some v, st)
    | .exact r => pure (none, attrTokenW r.token r.page { st with curAttr := some r })
    | .part r comp => do
      let rest ← ptrAdd "xml_value + found_comp" v comp
      pure (some rest, attrTokenW r.token r.page { st with curAttr := some r })

/-- `parse_attribute` + `wbxml_encode_attr`. `nodeAttrs` = the attribute list of `current_node`. -/
def encAttrW (c : WCfg) (nodeAttrs : Option (List Attr)) (a : Attr) (st : WSt) : Except Err WSt :=
  match c.lang.attrs with
  | none => pure st                       -- no attribute table: attributes are dropped
  | some _ => do
    let (rest, st) ← attrStartW c a (cstrOf a.value) st
    let st ← (match rest with
      | some s => encAttrValueW c nodeAttrs s st
      | none => pure st)
    pure { st with curAttr := none }

def encAttrsW (c : WCfg) (nodeAttrs : Option (List Attr)) : List Attr → WSt → Except Err WSt
  | [], st => pure st
  | a :: rest, st => do
    let st ← encAttrW c nodeAttrs a st
    encAttrsW c nodeAttrs rest st

/-- `parse_element`: tag, attributes, END of the attribute list. `nodeAttrs`: see `encAttrW`
    (`parse_node` passes the element's own list; the raw element entry point of flow mode has no
    current node). -/
def encElementStartW (c : WCfg) (nodeAttrs : Option (List Attr)) (name : Name) (attrs : List Attr)
    (hasContent : Bool) (st : WSt) : Except Err WSt := do
  let hasAttrs := !attrs.isEmpty && c.lang.attrs.isSome
  let st ← encTagW c name hasContent hasAttrs st
  let st ← encAttrsW c nodeAttrs attrs st
  pure (if hasAttrs then st.emit [0x01] else st)

/-! ### Text -/

/-- `parse_text`. `parent` = `node->parent->name` (only a token name matters). The text node's
    number identifies its content buffer for the string table (see `StrEntry.alias`). -/
def encTextW (c : WCfg) (parent : Option Name) (s : Bytes) (st : WSt) : Except Err WSt :=
  let k := st.textNo
  let st := { st with textNo := k + 1 }
  if isBinaryTag st.curTag then
    -- binary-flagged element: the raw bytes as one OPAQUE (also inside CDATA)
    pure (st.emit (opaqueW s))
  else if !st.inCdata && c.ignoreEmpty && s.all isSpaceC then pure st
  else
    -- strip blanks, in place
    let strip := !st.inCdata && c.removeBlanks
    let s := if strip then stripBlanks s else s
    let st := if strip then st.aliasWrite k s else st
    if st.inCdata then
      match st.cdata with
      | none => .error (.code EW.internal)
      | some cd =>
        -- SyncML: a text that is exactly "\n" gets a "\r" in front, in place
        let fix := isSyncml c.lang.id && s == [0x0a]
        let s := if fix then [0x0d, 0x0a] else s
        let st := if fix then st.aliasWrite k s else st
        pure { st with cdata := some (cd ++ s) }
    else encContentValueW c parent (cstrOf s) st

/-! ### Header -/

/-- `wbxml_fill_header`: the header bytes; adding the textual public identifier changes the table. -/
def fillHeaderW (c : WCfg) (st : WSt) : Bytes × WSt :=
  let ver : UInt8 := UInt8.ofNat c.version
  -- no charset field in a WBXML 1.0 header
  let csField : Bytes := if c.version == 0 then [] else [0x6A]
  -- an anonymous document says "unknown"
  let pubId := if c.anonymous then 1 else c.lang.pub.wbxmlId
  let pid : Option Bytes :=
    if (c.textualPublicId || pubId == 1) && !c.anonymous then c.lang.pub.xmlId else none
  match pid with
  | some p =>
    if c.useStrtbl then
      let (st, idx) := strtblAdd st p none
      ([ver, 0x00] ++ mbEncode idx ++ csField ++ mbEncode st.strtblLen ++ strtblBytes st.strtbl, st)
    else
      ([ver, 0x00] ++ mbEncode 0 ++ csField ++ mbEncode (p.length + 1) ++ p ++ [0], st)
  | none =>
    ([ver] ++ mbEncode pubId ++ csField ++ mbEncode st.strtblLen ++
      (if c.useStrtbl then strtblBytes st.strtbl else []), st)

/-- `wbxml_build_result` (batch mode). -/
def buildResultW (c : WCfg) (st : WSt) : Bytes := (fillHeaderW c st).1 ++ st.out

/-! ### Documents -/

/-- The `switch (lang->langID)` of `encoder_encode_tree`: no string table for Wireless Village and
    OTA settings. -/
def deriveCfg (c : WCfg) : WCfg :=
  if isWv c.lang.id || c.lang.id == 1901 then { c with useStrtbl := false } else c

/-- State at the start of `parse_node(root)`: the string table initialised from the tree. -/
def docStartW (c : WCfg) (root : Node) : WSt :=
  if c.useStrtbl then strtblInitialize c.lang root {} else {}

/-- `encoder_duplicate` + `encoder_encode_tree` for a nested tree of language `lang`: only the
    white-space options, `use_strtbl` and the version are inherited. -/
def nestedCfg (c : WCfg) (lang : Lang) : WCfg :=
  deriveCfg { lang := lang, ignoreEmpty := c.ignoreEmpty, removeBlanks := c.removeBlanks,
              useStrtbl := c.useStrtbl, version := c.version }

/-! ### `parse_node` -/

mutual
/-- `parse_node(encoder, node, enc_end)` without the `next` chain. `parent` = name of the parent
    node when it has one (`current_text_parent`). `current_tag` is NULL again after *every* node, so
    only a first child is encoded with its parent's tag as current tag. -/
def encNodeG (c : WCfg) (parent : Option Name) (encEnd : Bool) : Node → WSt → Except Err WSt
  | .elt name attrs kids, st => do
    let st ← encElementStartW c (some attrs) name attrs (!kids.isEmpty) st
    let st ← encNodesW c (some name) kids st
    let st := if encEnd && !kids.isEmpty then st.emit [0x01] else st
    pure { st with curTag := none }
  | .text s, st => do
    let st ← encTextW c parent s st
    pure { st with curTag := none }
  | .cdata kids, st =>
    -- parse_cdata
    match st.cdata with
    | some _ => .error (.code EW.internal)
    | none => do
      let st ← encNodesW c none kids { st with inCdata := true, cdata := some [] }
      let st := { st with inCdata := false }
      match st.cdata with
      | none => .error (.code EW.internal)
      | some cd =>
        let st := if cd.length > 0 then st.emit (opaqueW cd) else st
        pure { st with cdata := none, curTag := none }
  | .tree lang _ root, st =>
    -- wbxml_encode_tree: a complete document from a duplicated encoder, as one OPAQUE
    match lang with
    | none => .error (.code EW.badParameter)
    | some l =>
      match root with
      | none => .error (.ub "nested tree without root node (NULL dereferenced)")
      | some r => do
        let c' := nestedCfg c l
        let st' ← encNodeG c' none true r (docStartW c' r)
        pure { st.emit (opaqueW (buildResultW c' st')) with curTag := none }

/-- A `next` chain. -/
def encNodesW (c : WCfg) (parent : Option Name) : List Node → WSt → Except Err WSt
  | [], st => pure st
  | n :: rest, st => do
    let st ← encNodeG c parent true n st
    encNodesW c parent rest st
end

/-- One node with its children, element end included, no parent. -/
def encNodeW (c : WCfg) (st : WSt) (n : Node) : Except Err WSt := encNodeG c none true n st

/-- `wbxml_encoder_encode_tree_to_wbxml` on an encoder whose options are `c` (language taken from
    the tree), tree root `root`. -/
def encodeDocW (c : WCfg) (root : Option Node) : Except Err Bytes :=
  match root with
  | none => .error (.ub "tree without root node (NULL dereferenced)")
  | some r => do
    let c := deriveCfg c
    let st ← encNodeW c (docStartW c r) r
    pure (buildResultW c st)

/-- `wbxml_tree_to_wbxml(tree, &wbxml, &len, params)` with a non-NULL `params`. (A NULL block
    behaves like `{ version := 3, keepWs := false, useStrtbl := true, anonymous := false }`.) -/
def treeToWbxml (cfg : X2WCfg) (t : Tree) : Except Err Bytes :=
  match t.lang with
  | none => .error (.code EW.badParameter)
  | some lang =>
    encodeDocW { lang := lang, ignoreEmpty := !cfg.keepWs, removeBlanks := !cfg.keepWs,
                 useStrtbl := cfg.useStrtbl, version := cfg.version, anonymous := cfg.anonymous } t.root

end Wbxml.Model
