/-
  C16 — the five functions named by the property as they were BEFORE the `fix:` commits
  (libwbxml 0.11.10 as pinned), in the ledger monad.  They exist to state, and let the kernel check,
  the concrete `(function, k)` witnesses of the violations (`Props/C16.lean`, `*_old_*`); the
  correspondence run uses them only when replaying `corpus/c16/unfixed.json` against an unfixed tree.

    * `grow_buff`            stored the failed `realloc`'s NULL into `data` (block leaked, `malloced`
                             already raised, later writes go through NULL)        — fixed by 32260ba
    * `wbxml_tree_node_add_attr` destroyed the caller's attribute, not its copy   — fixed by b625298
    * `encoder_encode_tree`  destroyed the caller's encoder                       — fixed by 6d1daef
    * `parse_element`        assigned the failed `realloc` to the table pointer   — fixed by 0e63106
    * `parse_attr_start`     returned OK after a failed literal name allocation   — fixed by df9d875
-/
import Wbxml.Model.AllocParse
import Wbxml.Model.AllocEnc
namespace Wbxml.Model.Alloc.Old
open Wbxml Wbxml.Model.Alloc

/-- `grow_buff` (old). -/
def growBuff (b : ABuf) (size : Nat) : Prog (ABuf × Bool) := do
  deref (some b.hdr)
  if b.isStatic then pure (b, false)
  else
    let size := size + 1
    if b.len + size > b.malloced then
      let m := if b.malloced * 2 < b.len + size then b.len + size else b.malloced * 2
      let q ← realloc b.dataId
      match q with
      | none => pure ({ b with dataId := none, malloced := m }, false)
      | some q => pure ({ b with dataId := some q, malloced := m }, true)
    else pure (b, true)

def insertData (b : ABuf) (pos : Nat) (d : Bytes) : Prog (ABuf × Bool) := do
  deref (some b.hdr)
  if b.isStatic || d.length = 0 || pos > b.len then pure (b, false)
  else
    let (b1, grown) ← growBuff b d.length
    if !grown then pure (b1, false)
    else do
      deref b1.dataId
      pure ({ b1 with bytes := b1.bytes.take pos ++ d ++ b1.bytes.drop pos }, true)

def bufAppendData (b : ABuf) (d : Option Bytes) : Prog (ABuf × Bool) := do
  deref (some b.hdr)
  if b.isStatic then pure (b, false)
  else match d with
    | none => pure (b, true)
    | some d => if d.length = 0 then pure (b, true) else insertData b b.len d

/-- create "ab"; append "cdef" (needs a larger block); destroy. -/
def growScenario : Prog Bool := do
  let b ← bufCreate (some b!"ab") 0
  match b with
  | none => pure false
  | some b => do
    let (b, ok) ← bufAppendData b (some b!"cdef")
    bufDestroy (some b)
    pure ok

/-- … and a caller that goes on using the buffer after the failed append (as `xml_encode_*` do when
    they ignore a result): a second, small append finds room according to `malloced`. -/
def growScenario2 : Prog Bool := do
  let b ← bufCreate (some b!"ab") 0
  match b with
  | none => pure false
  | some b => do
    let (b, _) ← bufAppendData b (some b!"cdef")
    let (b, ok) ← bufAppendData b (some b!"x")
    bufDestroy (some b)
    pure ok

/-- The same two scenarios with the repaired `grow_buff`. -/
def growScenarioNew : Prog Bool := do
  let b ← Alloc.bufCreate (some b!"ab") 0
  match b with
  | none => pure false
  | some b => do
    let (b, ok) ← Alloc.bufAppendData b (some b!"cdef")
    bufDestroy (some b)
    pure ok

/-- `wbxml_tree_node_add_attr` (old): `wbxml_attribute_destroy(attr)` on a failed append. -/
def nodeAddAttr (n : ANode) (attr : AAttr) : Prog (ANode × Nat) := do
  deref (some n.hdr)
  let l ← (match n.attrs with
    | some l => pure (some l)
    | none => listCreate)
  match l with
  | none => pure (n, ENOMEM)
  | some l => do
    let n1 := { n with attrs := some l }
    let c ← attrDuplicate (some attr)
    match c with
    | none => pure (n1, ENOMEM)
    | some c => do
      let (l2, ok) ← listAppend l c
      if !ok then do
        attrDestroy (some attr)
        pure (n1, ENOMEM)
      else pure ({ n1 with attrs := some l2 }, OK)

/-- What `wbxml_tree_add_elt_with_attrs` + `parse_element` do around it: the parser owns `attr`
    and frees it (`free_attrs_table`) whatever the call-back did; the node is destroyed with the tree. -/
def addAttrScenario (addAttr : ANode → AAttr → Prog (ANode × Nat)) : Prog Nat := do
  let n ← nodeCreate
  match n with
  | none => pure ENOMEM
  | some n => do
    let nm ← nameCreateToken 7
    let v ← bufCreate (some b!"v") ATTR_BLOCK
    let a ← attrCreate
    match a with
    | none => do nameDestroy nm; bufDestroy v; nodeDestroy (some n); pure ENOMEM
    | some a => do
      let a := { a with name := nm, value := v }
      let (n, ret) ← addAttr n a
      attrDestroy (some a)
      nodeDestroy (some n)
      pure ret

/-- `encoder_encode_tree` (old): `wbxml_encoder_destroy(encoder)` when the output buffer cannot be made. -/
def encodeTree (e : AEnc) (texts : List ABuf) (body : List Bytes) : Prog (AEnc × Nat) := do
  let (e, ok) ← encInitOutput e
  if !ok then do
    encDestroy (some e)
    pure (e, ENOMEM)
  else do
    let (e, ret) ← (if e.useStrtbl then strtblInitialize e texts else pure (e, OK))
    if ret != OK then pure (e, ret)
    else encodeBody e body

def treeToWbxml (useStrtbl : Bool) (texts : List ABuf) (body : List Bytes) (version publicId : Nat) :
    Prog (Nat × Option (Nat × Bytes)) := do
  let e ← encCreate
  match e with
  | none => pure (ENOMEM, none)
  | some e => do
    let e := { e with useStrtbl := useStrtbl }
    let (e, ret) ← encodeTree e texts body
    if ret != OK then do
      encDestroy (some e)
      pure (ret, none)
    else do
      let (ret, out) ← buildResult e version publicId
      encDestroy (some e)
      pure (ret, out)

/-- `parse_attr_start` (old): the `LITERAL` case ends with `return WBXML_OK`. -/
def parseAttrStart (st : AttrStart) : Prog (Nat × Option AName × Option Bytes) :=
  match st with
  | .literal nm => do
    let (ret, lit) ← parseLiteralRef nm
    if ret != OK then pure (ret, none, none)
    else match lit with
      | none => ub "parse_literal returned OK without a result"
      | some lit => do
        let cstr ← bufCstr lit
        let name ← nameCreateLiteral cstr
        bufDestroy (some lit)
        pure (OK, name, none)
  | st => Alloc.parseAttrStart st

/-- `parse_attribute` on top of the old `parse_attr_start`. -/
def parseAttribute (a : AttrShape) : Prog (Nat × Option AAttr) := do
  let (ret, name, start) ← parseAttrStart a.start
  if ret != OK then pure (ret, none)
  else do
    let value ← bufCreate start ATTR_BLOCK
    match value with
    | none => do
      nameDestroy name
      pure (ENOMEM, none)
    | some value => do
      let (ret, value) ← attrValueLoop name value a.pieces
      match value with
      | none => pure (ret, none)
      | some value => do
        derefWhen (value.len > 0) (name.map (·.hdr))
        let (value, ok) ← (if value.len > 0 then bufAppendChar value 0 else pure (value, true))
        if !ok then do
          nameDestroy name
          bufDestroy (some value)
          pure (ENOMEM, none)
        else do
          let attr ← attrCreate
          match attr with
          | none => do
            nameDestroy name
            bufDestroy (some value)
            pure (ENOMEM, none)
          | some attr => pure (OK, some { attr with name := name, value := some value })

/-- The attribute loop of `parse_element` (old): `attrs = wbxml_realloc(attrs, …)`. -/
def attrTableLoop (element : Option AName) (tbl : Ptr) (entries : List AAttr) :
    List AttrShape → Prog (Nat × Ptr × List AAttr)
  | [] => pure (OK, tbl, entries)
  | a :: rest => do
    let (ret, attr) ← Alloc.parseAttribute a
    if ret != OK then do
      nameDestroy element
      freeAttrsTable tbl entries
      pure (ret, none, [])
    else match attr with
      | none => ub "parse_attribute returned OK without an attribute"
      | some attr => do
        let q ← realloc tbl
        match q with
        | none => do
          nameDestroy element
          attrDestroy (some attr)
          freeAttrsTable none entries          -- `attrs` is NULL by now
          pure (ENOMEM, none, [])
        | some q => do
          deref (some q)
          attrTableLoop element (some q) (entries ++ [attr]) rest

def parseElement (t : TagShape) (attrs : List AttrShape) : Prog Nat := do
  let (ret, element) ← parseStag t
  if ret != OK then pure ret
  else do
    deref (element.map (·.hdr))
    let (ret, tbl, entries) ← attrTableLoop element none [] attrs
    if ret != OK then pure ret
    else do
      freeAttrsTable tbl entries
      nameDestroy element
      pure OK

end Wbxml.Model.Alloc.Old
