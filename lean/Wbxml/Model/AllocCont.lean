/-
  C16 — the container core in the ledger monad: `wbxml_buffers.c` (create / grow_buff /
  insert_data / append / duplicate / destroy), `wbxml_lists.c` (create / append / insert /
  extract_first / destroy), `wbxml_elt.c` (tag, attribute name, attribute: create / duplicate /
  destroy) and the tree-node pieces of `wbxml_tree.c` that own them (`wbxml_tree_node_create`,
  `wbxml_tree_node_add_attr`, `wbxml_tree_node_destroy`).

  A C object is a value that carries the ids of the blocks it is made of (`hdr` = the struct,
  `dataId` = `buffer->data`, cell ids of a list …).  C functions that modify an object in place
  return the modified value.  What the bytes *are* is C19's subject (`Model/Buf.lean`); here a
  buffer keeps its contents as a plain byte string and the two numbers (`len`, `malloced`) that
  decide when `grow_buff` calls `realloc`.  Every function is modelled decision for decision as
  far as allocation, release and pointer use are concerned; the behaviour is that of the tree
  after the `fix:` commits of C16 (the pre-fix variants are in `Model/AllocOld.lean`).
-/
import Wbxml.Model.Alloc
namespace Wbxml.Model.Alloc
open Wbxml

/-! ### Buffers -/

/-- `WBXMLBuffer *` (non-NULL). -/
structure ABuf where
  hdr : Nat
  dataId : Ptr
  bytes : Bytes
  malloced : Nat
  isStatic : Bool
  deriving Repr, DecidableEq, Inhabited

namespace ABuf
def len (b : ABuf) : Nat := b.bytes.length
/-- Blocks the buffer owns (a static buffer only its struct: `data` aliases foreign bytes). -/
def owned (b : ABuf) : List Nat := b.hdr :: (if b.isStatic then [] else b.dataId.toList)
end ABuf

def ownedBufOpt : Option ABuf → List Nat
  | none => []
  | some b => b.owned

/-- `wbxml_buffer_create_real(data, len, malloc_block)`; `src = none` is a NULL `data`. -/
def bufCreate (src : Option Bytes) (block : Nat) : Prog (Option ABuf) := do
  let h ← malloc
  match h with
  | none => pure none
  | some h =>
    match src with
    | none => pure (some ⟨h, none, [], 0, false⟩)
    | some d =>
      if d.length = 0 then pure (some ⟨h, none, [], 0, false⟩)
      else
        let malloced := if d.length + 1 > block + 1 then d.length + 1 + block else block + 1
        let p ← malloc
        match p with
        | none => do free (some h); pure none
        | some p => pure (some ⟨h, some p, d, malloced, false⟩)

/-- `wbxml_buffer_sta_create_real(data, len)`. -/
def bufStaCreate (d : Bytes) : Prog (Option ABuf) := do
  let h ← malloc
  match h with
  | none => pure none
  | some h => pure (some ⟨h, none, d, 0, true⟩)

/-- `wbxml_buffer_destroy(buffer)`. -/
def bufDestroy (b : Option ABuf) : Prog Unit :=
  match b with
  | none => pure ()
  | some b => do
    deref (some b.hdr)
    if !b.isStatic then free b.dataId
    free (some b.hdr)

/-- `grow_buff(buffer, size)`: the old block and `malloced` are kept when `realloc` fails. -/
def growBuff (b : ABuf) (size : Nat) : Prog (ABuf × Bool) := do
  deref (some b.hdr)
  if b.isStatic then pure (b, false)
  else
    let size := size + 1
    if b.len + size > b.malloced then
      let m := if b.malloced * 2 < b.len + size then b.len + size else b.malloced * 2
      let q ← realloc b.dataId
      match q with
      | none => pure (b, false)
      | some q => pure ({ b with dataId := some q, malloced := m }, true)
    else pure (b, true)

/-- `insert_data(buffer, pos, data, len)`: after `grow_buff`, `memmove`/`memcpy`/terminator go
    through `buffer->data`. -/
def insertData (b : ABuf) (pos : Nat) (d : Bytes) : Prog (ABuf × Bool) := do
  deref (some b.hdr)
  if b.isStatic || d.length = 0 || pos > b.len then pure (b, false)
  else
    let (b1, grown) ← growBuff b d.length
    if !grown then pure (b1, false)
    else do
      deref b1.dataId
      pure ({ b1 with bytes := b1.bytes.take pos ++ d ++ b1.bytes.drop pos }, true)

/-- `wbxml_buffer_append_data_real(buffer, data, len)`. -/
def bufAppendData (b : ABuf) (d : Option Bytes) : Prog (ABuf × Bool) := do
  deref (some b.hdr)
  if b.isStatic then pure (b, false)
  else match d with
    | none => pure (b, true)
    | some d => if d.length = 0 then pure (b, true) else insertData b b.len d

/-- `wbxml_buffer_get_cstr(buffer)` with `wbxml_buffer_len(buffer)`: the literal `""` for an empty
    buffer, otherwise `buffer->data` — which is the NULL pointer (`none`) only for a dynamic buffer
    that lost its block. -/
def bufCstr (b : ABuf) : Prog (Option Bytes) := do
  deref (some b.hdr)
  if b.len = 0 then pure (some [])
  else if b.isStatic then pure (some b.bytes)
  else if b.dataId.isNone then pure none
  else pure (some b.bytes)

/-- `wbxml_buffer_append(dest, buff)`. -/
def bufAppend (dest : ABuf) (src : Option ABuf) : Prog (ABuf × Bool) := do
  deref (some dest.hdr)
  if dest.isStatic then pure (dest, false)
  else match src with
    | none => pure (dest, true)
    | some s => do
      let d ← bufCstr s
      bufAppendData dest d

/-- `wbxml_buffer_append_char`. -/
def bufAppendChar (b : ABuf) (ch : UInt8) : Prog (ABuf × Bool) := do
  deref (some b.hdr)
  if b.isStatic then pure (b, false) else insertData b b.len [ch]

/-- `wbxml_buffer_insert_cstr(to, str, pos)` (the bytes before the terminator are passed). -/
def bufInsertCstr (b : ABuf) (str : Bytes) (pos : Nat) : Prog (ABuf × Bool) := do
  deref (some b.hdr)
  if b.isStatic then pure (b, false) else insertData b pos str

/-- `wbxml_buffer_duplicate(buff)`. -/
def bufDuplicate (b : Option ABuf) : Prog (Option ABuf) :=
  match b with
  | none => pure none
  | some b => do
    let d ← bufCstr b
    bufCreate d b.len

/-! ### Lists -/

/-- `WBXMLList *` (non-NULL): the cells in order, each with its block id and its item. -/
structure AList (ι : Type) where
  hdr : Nat
  cells : List (Nat × ι)
  deriving Repr, DecidableEq, Inhabited

namespace AList
def len (l : AList ι) : Nat := l.cells.length
def items (l : AList ι) : List ι := l.cells.map (·.2)
/-- Blocks the list owns, given what each item owns (`fun _ => []` for borrowed items). -/
def owned (ownItem : ι → List Nat) (l : AList ι) : List Nat :=
  l.hdr :: l.cells.flatMap (fun c => c.1 :: ownItem c.2)
end AList

/-- `wbxml_list_create_real()`. -/
def listCreate : Prog (Option (AList ι)) := do
  let h ← malloc
  match h with
  | none => pure none
  | some h => pure (some ⟨h, []⟩)

/-- `wbxml_list_append(list, item)` for non-NULL arguments. -/
def listAppend (l : AList ι) (item : ι) : Prog (AList ι × Bool) := do
  deref (some l.hdr)
  let c ← malloc
  match c with
  | none => pure (l, false)
  | some c => pure ({ l with cells := l.cells ++ [(c, item)] }, true)

/-- `wbxml_list_insert(list, item, pos)` for non-NULL arguments. -/
def listInsert (l : AList ι) (item : ι) (pos : Nat) : Prog (AList ι × Bool) := do
  let c ← malloc
  match c with
  | none => pure (l, false)
  | some c => do
    deref (some l.hdr)
    pure ({ l with cells := l.cells.take pos ++ [(c, item)] ++ l.cells.drop pos }, true)

/-- `wbxml_list_extract_first(list)`. -/
def listExtractFirst (l : AList ι) : Prog (AList ι × Option ι) := do
  deref (some l.hdr)
  match l.cells with
  | [] => pure (l, none)
  | (c, it) :: rest => do
    deref (some c)
    free (some c)
    pure ({ l with cells := rest }, some it)

/-- `wbxml_elt_destroy` over the chain: destructor on the item, then the cell. -/
def cellsDestroy (cells : List (Nat × ι)) (d : ι → Prog Unit) : Prog Unit :=
  match cells with
  | [] => pure ()
  | (c, it) :: rest => do
    deref (some c)
    d it
    free (some c)
    cellsDestroy rest d

/-- `wbxml_list_destroy(list, destructor)`; a NULL destructor is `fun _ => pure ()`. -/
def listDestroy (l : Option (AList ι)) (d : ι → Prog Unit) : Prog Unit :=
  match l with
  | none => pure ()
  | some l => do
    deref (some l.hdr)
    cellsDestroy l.cells d
    free (some l.hdr)

/-! ### Tags, attribute names, attributes (`wbxml_elt.c`) -/

/-- The union of `WBXMLTag` / `WBXMLAttributeName`: a table row or a literal buffer (may be NULL). -/
inductive NameV where
  | token (row : Nat)
  | literal (b : Option ABuf)
  deriving Repr, DecidableEq, Inhabited

/-- `WBXMLTag *` and `WBXMLAttributeName *` (the two families of functions are line-for-line
    parallel in `wbxml_elt.c`; one model serves both). -/
structure AName where
  hdr : Nat
  v : NameV
  deriving Repr, DecidableEq, Inhabited

def AName.owned (t : AName) : List Nat :=
  t.hdr :: (match t.v with | .token _ => [] | .literal b => ownedBufOpt b)

def ownedNameOpt : Option AName → List Nat
  | none => []
  | some t => t.owned

/-- `wbxml_tag_destroy` / `wbxml_attribute_name_destroy`. -/
def nameDestroy (t : Option AName) : Prog Unit :=
  match t with
  | none => pure ()
  | some t => do
    deref (some t.hdr)
    match t.v with
    | .literal b => do bufDestroy b; free (some t.hdr)
    | .token _ => free (some t.hdr)

/-- `wbxml_tag_create(type)` / `wbxml_attribute_name_create(type)` followed by the caller's store
    of the token pointer (`wbxml_*_create_token`, `parse_tag`, `parse_attr_start`). -/
def nameCreateToken (row : Nat) : Prog (Option AName) := do
  let h ← malloc
  match h with
  | none => pure none
  | some h => pure (some ⟨h, .token row⟩)

/-- `wbxml_tag_create_literal(value)` / `wbxml_attribute_name_create_literal(value)`. -/
def nameCreateLiteral (value : Option Bytes) : Prog (Option AName) := do
  let h ← malloc
  match h with
  | none => pure none
  | some h =>
    match value with
    | none => pure (some ⟨h, .literal none⟩)
    | some v => do
      let b ← bufCreate (some v) v.length
      match b with
      | none => do nameDestroy (some ⟨h, .literal none⟩); pure none
      | some b => pure (some ⟨h, .literal (some b)⟩)

/-- `wbxml_tag_duplicate` / `wbxml_attribute_name_duplicate`: NULL when the literal cannot be copied. -/
def nameDuplicate (t : Option AName) : Prog (Option AName) :=
  match t with
  | none => pure none
  | some t => do
    deref (some t.hdr)
    let h ← malloc
    match h with
    | none => pure none
    | some h =>
      match t.v with
      | .token r => pure (some ⟨h, .token r⟩)
      | .literal b => do
        let b' ← bufDuplicate b
        if b'.isNone && b.isSome then do free (some h); pure none
        else pure (some ⟨h, .literal b'⟩)

/-- `WBXMLAttribute *`. -/
structure AAttr where
  hdr : Nat
  name : Option AName
  value : Option ABuf
  deriving Repr, DecidableEq, Inhabited

def AAttr.owned (a : AAttr) : List Nat := a.hdr :: (ownedNameOpt a.name ++ ownedBufOpt a.value)

def ownedAttrOpt : Option AAttr → List Nat
  | none => []
  | some a => a.owned

/-- `wbxml_attribute_create()`. -/
def attrCreate : Prog (Option AAttr) := do
  let h ← malloc
  match h with
  | none => pure none
  | some h => pure (some ⟨h, none, none⟩)

/-- `wbxml_attribute_destroy(attr)`. -/
def attrDestroy (a : Option AAttr) : Prog Unit :=
  match a with
  | none => pure ()
  | some a => do
    deref (some a.hdr)
    nameDestroy a.name
    bufDestroy a.value
    free (some a.hdr)

/-- `wbxml_attribute_duplicate(attr)`: NULL when the name or the value cannot be copied. -/
def attrDuplicate (a : Option AAttr) : Prog (Option AAttr) :=
  match a with
  | none => pure none
  | some a => do
    deref (some a.hdr)
    let h ← malloc
    match h with
    | none => pure none
    | some h => do
      let n ← nameDuplicate a.name
      let v ← bufDuplicate a.value
      if (n.isNone && a.name.isSome) || (v.isNone && a.value.isSome) then do
        attrDestroy (some ⟨h, n, v⟩)
        pure none
      else pure (some ⟨h, n, v⟩)

/-! ### Tree nodes (the members that own the objects above) -/

/-- `WBXMLTreeNode *`: name, attribute list, content. -/
structure ANode where
  hdr : Nat
  name : Option AName
  attrs : Option (AList AAttr)
  content : Option ABuf
  deriving Repr, DecidableEq, Inhabited

def ANode.owned (n : ANode) : List Nat :=
  n.hdr :: (ownedNameOpt n.name ++
    (match n.attrs with | none => [] | some l => l.owned AAttr.owned) ++ ownedBufOpt n.content)

/-- `wbxml_tree_node_create(type)`. -/
def nodeCreate : Prog (Option ANode) := do
  let h ← malloc
  match h with
  | none => pure none
  | some h => pure (some ⟨h, none, none, none⟩)

/-- `wbxml_tree_node_destroy(node)` (no embedded tree). -/
def nodeDestroy (n : Option ANode) : Prog Unit :=
  match n with
  | none => pure ()
  | some n => do
    deref (some n.hdr)
    nameDestroy n.name
    listDestroy n.attrs (fun a => attrDestroy (some a))
    bufDestroy n.content
    free (some n.hdr)

/-- `wbxml_tree_node_add_attr(node, attr)`: the node gets a copy; `attr` stays the caller's. -/
def nodeAddAttr (n : ANode) (attr : AAttr) : Prog (ANode × Nat) := do
  deref (some n.hdr)
  let l ← (match n.attrs with
    | some l => pure (some l)
    | none => listCreate)
  match l with
  | none => pure (n, ENOMEM)
  | some l => do
    let n1 := { n with attrs := some l }
    let c ← attrDuplicate (some attr)
    match c with
    | none => pure (n1, ENOMEM)
    | some c => do
      let (l2, ok) ← listAppend l c
      if !ok then do
        attrDestroy (some c)
        pure (n1, ENOMEM)
      else pure ({ n1 with attrs := some l2 }, OK)

end Wbxml.Model.Alloc
