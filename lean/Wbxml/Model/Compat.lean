/-
  Wire-compatibility predicates (C09): "the current tables understand every published row
  identically". `r` is the pinned registry's language entry, `c` the current one.
  Bool-valued so that they are decided by kernel evaluation and evaluated row by row on failure.
-/
import Wbxml.Lemmas.Tables
namespace Wbxml.Model

/-- decode meaning of (page, token) in a page bucket: name and options of the first row. -/
def bucketDec (b : List TagRow) (token : Nat) : Option (Bytes × Nat) :=
  (b.find? (fun x => x.token == token)).map (fun x => (x.name, x.opts))

/-- encode meaning of a name inside its page bucket: the token of the first row with that name. -/
def bucketEnc (b : List TagRow) (name : Bytes) : Option Nat :=
  (b.find? (fun x => x.name == name)).map (·.token)

/-- One published tag row keeps its meaning in both directions. -/
def tagRowPreserved (r c : List TagRow) (x : TagRow) : Bool :=
  bucketDec (bucket c x.page) x.token == bucketDec (bucket r x.page) x.token &&
  bucketEnc (bucket c x.page) x.name == bucketEnc (bucket r x.page) x.name

def tagsPreserved (r c : List TagRow) : Bool :=
  (pagesOf r).all (fun p => contigFrom p c && (bucket r p).all (tagRowPreserved r c))

def attrRowPreserved (r c : List AttrRow) (x : AttrRow) : Bool :=
  (decAttr c x.page x.token).map (fun y => (y.name, y.value)) == (decAttr r x.page x.token).map (fun y => (y.name, y.value)) &&
  (encAttr c x.name (x.value.getD [])).map (fun y => (y.1.page, y.1.token, y.2)) ==
    (encAttr r x.name (x.value.getD [])).map (fun y => (y.1.page, y.1.token, y.2))

def attrsPreserved (r c : List AttrRow) : Bool := r.all (attrRowPreserved r c)

def valRowPreserved (r c : List ValRow) (x : ValRow) : Bool :=
  (decVal c x.page x.token).map (·.name) == (decVal r x.page x.token).map (·.name) &&
  -- the encoder finds value tokens by scanning the table in order: the relative order of the
  -- published rows must be kept (rows may be added only where they do not pre-empt a published one)
  (c.find? (fun y => y.name == x.name)).map (fun y => (y.page, y.token)) ==
    (r.find? (fun y => y.name == x.name)).map (fun y => (y.page, y.token))

def valsPreserved (r c : List ValRow) : Bool := r.all (valRowPreserved r c)

def extRowPreserved (r c : List ExtRow) (x : ExtRow) : Bool :=
  (decExt c x.token).map (·.name) == (decExt r x.token).map (·.name) &&
  (encExt c x.name).map (·.token) == (encExt r x.name).map (·.token)

def extsPreserved (r c : List ExtRow) : Bool := r.all (extRowPreserved r c)

def nsRowPreserved (r c : List NsRow) (x : NsRow) : Bool :=
  nsOfPage c x.page == nsOfPage r x.page && pageOfNs c x.ns == pageOfNs r x.ns

def nssPreserved (r c : List NsRow) : Bool := r.all (nsRowPreserved r c) &&
  -- the XML side recognises a language by the FIRST namespace row
  (c.head?.map (·.ns)) == (r.head?.map (·.ns))

def optPreserved {α : Type} (f : List α → List α → Bool) : Option (List α) → Option (List α) → Bool
  | none, _ => true
  | some r, some c => f r c
  | some _, none => false

/-- Everything a released build understood about one language. -/
def langPreserved (r c : Lang) : Bool :=
  r.pub == c.pub &&
  optPreserved tagsPreserved r.tags c.tags &&
  optPreserved attrsPreserved r.attrs c.attrs &&
  optPreserved valsPreserved r.values c.values &&
  optPreserved extsPreserved r.exts c.exts &&
  optPreserved nssPreserved r.ns c.ns

def langOf (main : List Lang) (id : Nat) : Option Lang := main.find? (fun l => l.id == id)

def lowerB (b : UInt8) : UInt8 := if 65 ≤ b.toNat ∧ b.toNat ≤ 90 then b + 32 else b

/-- The identification routes select the same language as before (first registered entry). -/
def routesPreserved (reg cur : List Lang) (r : Lang) : Bool :=
  (r.pub.wbxmlId == 1 ||
    (cur.find? (fun l => l.pub.wbxmlId == r.pub.wbxmlId)).map (·.id) == (reg.find? (fun l => l.pub.wbxmlId == r.pub.wbxmlId)).map (·.id)) &&
  (match r.pub.xmlId with
   | some x => (cur.find? (fun l => (l.pub.xmlId.map (·.map lowerB)) == some (x.map lowerB))).map (·.id) ==
               (reg.find? (fun l => (l.pub.xmlId.map (·.map lowerB)) == some (x.map lowerB))).map (·.id)
   | none => true) &&
  (match r.pub.dtd with
   | some x => (cur.find? (fun l => l.pub.dtd == some x)).map (·.id) == (reg.find? (fun l => l.pub.dtd == some x)).map (·.id)
   | none => true) &&
  (match r.pub.root with
   | some x => (cur.find? (fun l => l.pub.root == some x)).map (·.id) == (reg.find? (fun l => l.pub.root == some x)).map (·.id)
   | none => true)

def registryPreserved (reg cur : List Lang) : Bool :=
  reg.all (fun r => match langOf cur r.id with
    | some c => langPreserved r c && routesPreserved reg cur r
    | none => false)

/-- Decode meaning stated on the literal model of the parser's scan (lifted from the buckets). -/
theorem decTag_preserved_of_row {r c : List TagRow} {x : TagRow}
    (h : tagRowPreserved r c x = true) :
    (decTag c x.page x.token).map (fun y => (y.name, y.opts)) = (decTag r x.page x.token).map (fun y => (y.name, y.opts)) := by
  unfold tagRowPreserved at h
  simp only [Bool.and_eq_true, beq_iff_eq] at h
  rw [decTag_bucket, decTag_bucket]
  exact h.1

end Wbxml.Model
