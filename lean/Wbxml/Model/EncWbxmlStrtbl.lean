/-
  WBXML output path of `src/wbxml_encoder.c`, part 1: encoder configuration and state, and the
  string table (`wbxml_strtbl_*`).

  What the string table is in the C code, and what the model keeps of it:

  * `encoder->strstbl` is a list of `WBXMLStringTableElement {string, offset, count, stat}`;
    `encoder->strstbl_len` is the byte length the table is *declared* to have in the header. An
    element's `offset` is `strstbl_len` at the moment it is added and is never recomputed.
  * The strings collected from the tree (`wbxml_strtbl_collect_strings`) are not copies: the list holds
    the tree's own `node->content` / `attr->value` buffers (`stat = TRUE`). `parse_text` later strips
    blanks **in place** in `node->content`; when that buffer is also a string-table element the element
    changes with it, while `offset`s and `strstbl_len` stay as they were. The model records this
    aliasing in `StrEntry.alias` (the pre-order number of the text node whose buffer the entry shares)
    and `WSt.aliasWrite` performs the write-through.
  * `wbxml_strtbl_construct` emits the *current* strings. After such a write-through the emitted table
    is shorter than the declared length and later offsets no longer point at entry starts.
-/
import Wbxml.Model.EncXml
import Wbxml.Model.Tables
import Wbxml.Model.Codec.MbUint
namespace Wbxml.Model

/-! ### Error codes used by the WBXML encoder (`wbxml_errors.h`) -/
namespace EW
def badDatetime := 11
def badParameter := 12
def internal := 13
def unknownTag := 65
def strtblDisabled := 100
end EW

/-! ### Configuration and state -/

/-- `WBXMLGenWBXMLParams` (what `wbxml_tree_to_wbxml` receives). -/
structure X2WCfg where
  version : Nat := 3          -- WBXMLVersion token 0..3 (1.0 .. 1.3)
  keepWs : Bool := false
  useStrtbl : Bool := true
  anonymous : Bool := false
  deriving Repr, DecidableEq, Inhabited

/-- The option fields of `WBXMLEncoder` that stay fixed while one document is encoded, after
    `encoder_encode_tree` has derived them (`lang` resolved, `use_strtbl` cleared for WV / OTA). -/
structure WCfg where
  lang : Lang
  ignoreEmpty : Bool := false        -- ignore_empty_text
  removeBlanks : Bool := false       -- remove_text_blanks
  useStrtbl : Bool := true           -- use_strtbl
  version : Nat := 3                 -- wbxml_version
  anonymous : Bool := false          -- produce_anonymous
  textualPublicId : Bool := false    -- textual_publicid

/-- One `WBXMLStringTableElement` of `encoder->strstbl`. -/
structure StrEntry where
  str : Bytes
  offset : Nat
  /-- `some k`: `string` *is* the content buffer of the `k`-th text node (pre-order) of the tree. -/
  alias : Option Nat := none
  deriving Repr, DecidableEq, Inhabited

/-- The per-run fields of `WBXMLEncoder` for WBXML output. -/
structure WSt where
  out : Bytes := []                      -- encoder->output
  tagPage : Nat := 0                     -- tagCodePage
  attrPage : Nat := 0                    -- attrCodePage
  curTag : Option TagRow := none         -- current_tag
  curAttr : Option AttrRow := none       -- current_attr
  strtbl : List StrEntry := []           -- strstbl
  strtblLen : Nat := 0                   -- strstbl_len
  inCdata : Bool := false                -- in_cdata
  cdata : Option Bytes := none           -- cdata (none = NULL)
  /-- number of text nodes `parse_node` has reached so far (identifies aliased buffers). -/
  textNo : Nat := 0
  deriving Repr, Inhabited

def WSt.emit (st : WSt) (bs : Bytes) : WSt := { st with out := st.out ++ bs }

/-- Write-through of an in-place change of the `k`-th text node's content buffer. -/
def WSt.aliasWrite (st : WSt) (k : Nat) (s : Bytes) : WSt :=
  { st with strtbl := st.strtbl.map fun e => if e.alias == some k then { e with str := s } else e }

/-! ### Raw pointer steps -/

/-- `p + n` for a pointer `p` to a NUL-terminated string `s`: stays inside the string (the terminator
    included) only when `n ≤ strlen`. -/
def ptrAdd (what : String) (s : Bytes) (n : Nat) : Except Err Bytes :=
  if n ≤ s.length then .ok (s.drop n) else .error (.ub s!"pointer past the terminator: {what}")

/-- First occurrence of `needle` in `hay`, as `wbxml_buffer_search` / `wbxml_buffer_search_cstr` /
    `strstr` find it (an empty needle is found at position 0). `pos` is the index of `hay`'s head. -/
def findSub (needle : Bytes) : Bytes → Nat → Option Nat
  | [], pos => if needle.isEmpty then some pos else none
  | h :: t, pos => if needle.isPrefixOf (h :: t) then some pos else findSub needle t (pos + 1)

/-! ### `wbxml_strtbl_add_element` -/

/-- Returns the state and the index reported through `*index`: the offset of an equal element that
    is already in the table, or the declared length so far for a new one. -/
def strtblAdd (st : WSt) (s : Bytes) (alias : Option Nat) : WSt × Nat :=
  match st.strtbl.find? (fun e => e.str == s) with
  | some e => (st, e.offset)
  | none =>
    ({ st with strtbl := st.strtbl ++ [{ str := s, offset := st.strtblLen, alias := alias }],
               strtblLen := st.strtblLen + s.length + 1 }, st.strtblLen)

/-- `wbxml_strtbl_construct`: every element's current string followed by NUL. -/
def strtblBytes (tbl : List StrEntry) : Bytes := tbl.flatMap fun e => e.str ++ [0]

/-! ### `wbxml_strtbl_collect_strings` -/

/-- A collected string: the buffer's bytes and, for a text node, which node it belongs to. -/
structure Cand where
  str : Bytes
  alias : Option Nat := none
  deriving Repr, DecidableEq, Inhabited

/-- Outcome of `wbxml_tables_get_attr_from_xml(lang, name, value, &value_left)`. -/
inductive AttrHit where
  | none                                   -- NULL
  | exact (r : AttrRow)                    -- the pair itself; `value_left = NULL`
  | part (r : AttrRow) (comp : Nat)        -- best row; `value_left = value + comp` (`comp = 0`: the value-less row)

def attrLookup (lang : Lang) (name value : Bytes) : AttrHit :=
  match lang.attrs with
  | Option.none => .none
  | some attrs =>
    match encAttr attrs name value with
    | Option.none => .none
    | some (r, n) => if r.value == some value then .exact r else .part r n

/-- `wbxml_tables_contains_attr_value_from_xml` (`strstr` per row). -/
def containsAttrValue (lang : Lang) (value : Bytes) : Bool :=
  match lang.values with
  | none => false
  | some vals => vals.any fun r => (findSub r.name value 0).isSome

/-- `wbxml_attribute_get_xml_name`: the row's name, or the literal buffer read as a C string. -/
def AName.cName : AName → Bytes
  | .token r => r.name
  | .literal s => cstrOf s

/-- `wbxml_tag_get_xml_name`. -/
def Name.cName : Name → Bytes
  | .token r => r.name
  | .literal s => cstrOf s

/-- The attribute part of `wbxml_strtbl_collect_strings` for one attribute: its value buffer is
    collected when it is longer than 3 bytes, is not (the start of) a tokenisable attribute start and
    contains no attribute value token. Name and value are looked at as C strings, the length test
    and the collected bytes are the whole buffer. -/
def collectAttr (lang : Lang) (a : Attr) : List Cand :=
  if a.value.length > 3 then
    let v := cstrOf a.value
    let free : Bool := match attrLookup lang a.name.cName v with
      | .none => true
      | .exact _ => false
      | .part _ comp => comp == 0           -- value_left == value
    if free && !containsAttrValue lang v then [{ str := a.value }] else []
  else []

def collectAttrs (lang : Lang) (attrs : List Attr) : List Cand := attrs.flatMap (collectAttr lang)

/-- Collector state: next text-node number, strings collected so far (in visiting order). -/
structure Coll where
  textNo : Nat := 0
  cands : List Cand := []

mutual
/-- `wbxml_strtbl_collect_strings` on one node and its children (pre-order). A nested tree node has
    no children in the C structure (its document hangs off `node->tree`) and is not entered. -/
def collectNode (lang : Lang) : Node → Coll → Coll
  | .text s, c =>
    { textNo := c.textNo + 1,
      cands := if !(s.all isSpaceC) && s.length > 3 then c.cands ++ [{ str := s, alias := some c.textNo }]
               else c.cands }
  | .elt _ attrs kids, c => collectNodes lang kids { c with cands := c.cands ++ collectAttrs lang attrs }
  | .cdata kids, c => collectNodes lang kids c
  | .tree _ _ _, c => c
/-- … and along the `next` chain. -/
def collectNodes (lang : Lang) : List Node → Coll → Coll
  | [], c => c
  | n :: rest, c => collectNodes lang rest (collectNode lang n c)
end

/-! ### `wbxml_strtbl_check_references` -/

structure Ref where
  str : Bytes
  alias : Option Nat
  count : Nat
  deriving Repr, DecidableEq, Inhabited

/-- One round of the counting loop: the first element equal to the string gets `count++`, otherwise a
    new element (count 1) is appended. -/
def bumpRef (c : Cand) : List Ref → List Ref
  | [] => [{ str := c.str, alias := c.alias, count := 1 }]
  | r :: rs => if r.str == c.str then { r with count := r.count + 1 } :: rs else r :: bumpRef c rs

def countRefs (cs : List Cand) : List Ref := cs.foldl (fun refs c => bumpRef c refs) []

/-- Second half: elements referenced more than once and longer than 3 bytes go to the string table,
    the others to the `one_ref` list. -/
def keepRefs : List Ref → WSt → List Ref → WSt × List Ref
  | [], st, one => (st, one)
  | r :: rs, st, one =>
    if r.count > 1 && r.str.length > 3 then keepRefs rs (strtblAdd st r.str none).1 one
    else keepRefs rs st (one ++ [r])

def checkReferences (cs : List Cand) (st : WSt) : WSt × List Ref := keepRefs (countRefs cs) st []

/-! ### `wbxml_buffer_split_words` / `wbxml_strtbl_collect_words` -/

/-- Maximal runs of non-`isspace` bytes; `cur` is the word being read. -/
def splitWordsGo : Bytes → Bytes → List Bytes
  | [], cur => if cur.isEmpty then [] else [cur]
  | b :: r, cur =>
    if isSpaceC b then (if cur.isEmpty then splitWordsGo r [] else cur :: splitWordsGo r [])
    else splitWordsGo r (cur ++ [b])

def splitWords (s : Bytes) : List Bytes := splitWordsGo s []

def collectWords (one : List Ref) : List Cand := one.flatMap fun r => (splitWords r.str).map fun w => { str := w }

/-! ### `wbxml_strtbl_initialize` -/

def strtblInitialize (lang : Lang) (root : Node) (st : WSt) : WSt :=
  let cands := (collectNode lang root {}).cands
  let (st, one) := checkReferences cands st
  -- words of the strings seen once; these are fresh buffers (no aliasing)
  (checkReferences (collectWords one) st).1

end Wbxml.Model
