/-
  The library's document tree (`WBXMLTree` / `WBXMLTreeNode`) as a plain inductive type, and the
  WBXML-side tree builder (`wbxml_tree_clb_wbxml.c` driven by the parser's events).
-/
import Wbxml.Model.Parser
namespace Wbxml.Model

/-- `abs` of a `WBXMLTreeNode` sub-tree. A nested document (`WBXML_TREE_TREE_NODE`) carries its own
    language id, original charset and root. -/
inductive Node where
  | elt (name : Name) (attrs : List Attr) (kids : List Node)
  | text (s : Bytes)
  | cdata (kids : List Node)
  | tree (lang : Option Lang) (charset : Nat) (root : Option Node)
  deriving Repr, Inhabited

structure Tree where
  lang : Option Lang
  origCharset : Nat
  root : Option Node
  deriving Repr, Inhabited

/-- An element or CDATA node whose end has not been seen yet, with the children attached so far. -/
inductive FrameKind where
  | elt (name : Name) (attrs : List Attr)
  | cdata
  deriving Repr, Inhabited

structure Frame where
  kind : FrameKind
  kids : List Node
  deriving Repr, Inhabited

def Frame.close (f : Frame) : Node :=
  match f.kind with
  | .elt n a => .elt n a f.kids
  | .cdata => .cdata f.kids

/-- `wbxml_tree_add_node` for a non-root node: append, merging a text node into a preceding text
    sibling. -/
def addKid (kids : List Node) (n : Node) : List Node :=
  match n, kids.getLast? with
  | .text s, some (.text t) => kids.dropLast ++ [.text (t ++ s)]
  | _, _ => kids ++ [n]

inductive SyncType where
  | normal | wbxml | clear | vobject
  deriving Repr, DecidableEq

/-- The types for which both tree builders open a CDATA section. -/
def SyncType.isCdata : SyncType → Bool
  | .clear | .vobject => true
  | _ => false

def Node.eltName? : Node → Option Bytes
  | .elt n _ _ => some n.xmlName
  | _ => none

/-- `wbxml_tree_node_elt_get_from_name(first, name, FALSE)`: first element sibling with that name. -/
def findElt (kids : List Node) (name : Bytes) : Option Node :=
  kids.find? (fun k => k.eltName? == some name)

def Node.kids : Node → List Node
  | .elt _ _ k => k
  | .cdata k => k
  | _ => []

/-- The `Meta`/`Type` look-up among the given children: `some ty` when a `Type` element was found. -/
def metaType (kids : List Node) : Option Node :=
  match findElt kids b!"Meta" with
  | some m => findElt m.kids b!"Type"
  | none => none

def mimeType (v : Bytes) : Option SyncType :=
  if v == b!"application/vnd.syncml-devinf+wbxml" then some .wbxml
  else if v == b!"application/vnd.syncml-devinf+xml" then some .normal
  else if v == b!"application/vnd.syncml.dmtnds+wbxml" then some .wbxml
  else if v == b!"application/vnd.syncml.dmtnds+xml" then some .normal
  else if v == b!"text/clear" then some .clear
  else if v == b!"text/directory;profile=vCard" then some .vobject
  else if v == b!"text/x-vcard" then some .vobject
  else if v == b!"text/x-vcalendar" then some .vobject
  else none

/-- View of the open frames below `stack`'s top as the C code sees them through `parent` /
    `children` pointers: each open frame's children are its closed children followed by the open
    child. `stack` is innermost first. Returns the nodes innermost first. -/
def materialize : List Frame → List Node
  | [] => []
  | f :: rest =>
    let inner := f.close
    inner :: (materializeAux inner rest)
where
  materializeAux (child : Node) : List Frame → List Node
    | [] => []
    | f :: rest =>
      let n := ({ f with kids := f.kids ++ [child] } : Frame).close
      n :: materializeAux n rest

/-- `wbxml_tree_node_get_syncml_data_type(current)`; `stack` is innermost first (`current` on top). -/
def syncmlDataType (stack : List Frame) : SyncType :=
  -- a CDATA node stands for its parent element
  let stack := match stack with
    | f :: rest => (match f.kind with | .cdata => rest | _ => stack)
    | [] => []
  -- NB: when `current` was a CDATA node the element below sees that CDATA among its children;
  -- only names of the element's ancestors' children matter below, so dropping the frame is exact.
  match materialize stack with
  | node :: parent :: more =>
    if node.eltName? == some b!"Data" then
      let ty : Option Node :=
        match metaType parent.kids with
        | some t => some t
        | none => (match more with
          | gp :: _ => metaType gp.kids
          | [] => none)
      let byMime : Option SyncType :=
        match ty with
        | some t => (match t.kids.head? with
          | some (.text v) => mimeType v
          | _ => none)
        | none => none
      match byMime with
      | some r => r
      | none =>
        match more with
        | gp :: _ =>
          (match gp.eltName? with
           | some n => if n == b!"Add" || n == b!"Replace" then .vobject else .normal
           | none => .normal)
        | [] => .normal
    else .normal
  | _ => .normal

/-- State of the tree builder (`WBXMLTreeClbCtx`). -/
structure BState where
  stack : List Frame := []        -- innermost first
  root : Option Node := none
  lang : Option Lang := none
  charset : Nat := 0
  error : Option Nat := none
  deriving Inhabited

/-- Attach a finished node under the innermost open frame (or as the root). -/
def BState.attach (b : BState) (n : Node) : BState :=
  match b.stack with
  | f :: rest => { b with stack := { f with kids := addKid f.kids n } :: rest }
  | [] =>
    match b.root with
    | none => { b with root := some n }
    | some _ => { b with error := some E.internal }

/-- `if (current->type == WBXML_TREE_CDATA_NODE) current = current->parent`: the finished CDATA node
    is attached to the element that owns it. -/
def BState.leaveCdata (b : BState) : BState :=
  match b.stack with
  | f :: g :: rest =>
    (match f.kind with
     | .cdata => { b with stack := { g with kids := addKid g.kids f.close } :: rest }
     | .elt _ _ => b)
  | _ => b

/-- One parser event through the WBXML tree-builder callbacks. `embedded` is the result of parsing
    a byte string as an embedded WBXML document (language not forced, outer charset as meta). -/
def buildStep (main : List Lang) (embedded : Nat → Bytes → Option Tree) (b : BState) (e : Event) : BState :=
  if b.error.isSome then b else
  match e with
  | .startDoc cs l => { b with charset := cs, lang := main.find? (fun x => x.id == l) }
  | .endDoc => b
  | .pi _ _ => b
  | .startElt n attrs =>
    -- an element ends the CDATA section its parent's text was put in (`current` goes back to the
    -- owner of the section first)
    let b := b.leaveCdata
    match b.stack, b.root with
    | [], some _ => { b with error := some E.internal }   -- a second root is refused by add_node
    | _, _ => { b with stack := { kind := .elt n attrs, kids := [] } :: b.stack }
  | .endElt _ =>
    match b.stack with
    | [] => { b with error := some E.internal }
    | f :: rest =>
      match f.kind with
      | .cdata =>
        -- leave the CDATA section, then the element
        (match rest with
         | g :: rest' =>
           let b1 : BState := { b with stack := { g with kids := addKid g.kids f.close } :: rest' }
           (match b1.stack with
            | g' :: rest'' => ({ b1 with stack := rest'' } : BState).attach g'.close
            | [] => b1)
         | [] => { b with error := some E.internal })
      | .elt _ _ => ({ b with stack := rest } : BState).attach f.close
  | .chars s =>
    match syncmlDataType b.stack with
    | .wbxml =>
      (match embedded b.charset s with
       | some t => b.attach (.tree t.lang t.origCharset t.root)
       | none => b.attach (.text s))
    | .normal => b.attach (.text s)
    | _ =>
      -- text/clear and the vObject types: one CDATA section per element
      (match b.stack with
       | f :: _ =>
         (match f.kind with
          | .cdata => b.attach (.text s)
          | _ => ({ b with stack := { kind := .cdata, kids := [] } :: b.stack } : BState).attach (.text s))
       | [] => b.attach (.text s))

end Wbxml.Model
