/-
  C16 — a whole conversion on the ledger: WBXML → tree → WBXML, i.e. `wbxml_tree_from_wbxml` on the
  document, `wbxml_tree_to_wbxml` on the tree it returns, `wbxml_tree_destroy` — what an
  application (or `wbxml_conv_*_run`) does around the two halves.

  The encoder reads the tree through its text nodes (`texts`: the content buffers it may move into
  the string table) and emits the body chunk by chunk (`body`); both are functions of the tree
  (`Model/AllocEnc.lean` takes them as parameters for every tree).
-/
import Wbxml.Model.AllocParseLoop
import Wbxml.Model.AllocEnc
namespace Wbxml.Model.Alloc
open Wbxml

def wbxml2wbxml (d : Doc) (useStrtbl : Bool) (texts : TCtx → List ABuf) (body : TCtx → List Bytes)
    (version publicId : Nat) : Prog (Nat × Option (Nat × Bytes)) := do
  let (ret, c) ← treeFromWbxml d
  match c with
  | none => pure (ret, none)
  | some c => do
    let r ← treeToWbxml useStrtbl (texts c) (body c) version publicId
    treeDestroy c
    pure r

end Wbxml.Model.Alloc
